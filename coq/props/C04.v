(* C04 — The reference picture is always the last non-disposable decoded picture. *)
From H263V Require Import base.Prelude model.Types model.Reader model.Header model.Syntax model.Recon model.Decoder
  proofs.StateRefine.

(* One successful decode call: the new most-recent picture np is the reconstruction from the *reference*
   register (not from the most recent picture); the reference register becomes np unless np is disposable,
   in which case it is untouched -- whatever the temporal references (the key invariant is preserved). *)
Theorem C04_decode_refines : forall s r s' r',
  key_inv s -> decode_next_picture s r = Ok (s', r') ->
  exists np,
    reconstruct (st_opts s) (get_last_picture s) (get_reference_picture s) (running_options s) r = Ok (np, r') /\
    get_last_picture s' = Some np /\
    get_reference_picture s' =
      (if is_disposable (picture_type (d_header np)) then get_reference_picture s else Some np) /\
    key_inv s' /\ st_opts s' = st_opts s /\ running_options s' = running_options s.
Proof. exact decode_refines. Qed.

Theorem C04_cleanup_refines : forall s,
  get_last_picture (cleanup_buffers s) = get_last_picture s /\
  get_reference_picture (cleanup_buffers s) = get_reference_picture s /\
  (key_inv s -> key_inv (cleanup_buffers s)).
Proof. exact cleanup_refines. Qed.

(* Every history of decode calls (accepted or rejected) and clean-ups, from a new decoder: the concrete
   state (map keyed by temporal reference, two keys) abstracts to the two-register machine's state. *)
Theorem C04_history_refines : forall o ops,
  abs (fold_left step ops (new_state o)) = fold_left astep ops (mkA o None None 0).
Proof. exact history_refines_from_new. Qed.

Check C04_history_refines : forall o ops,
  abs (fold_left step ops (new_state o)) = fold_left astep ops (mkA o None None 0).
Print Assumptions C04_decode_refines.
Print Assumptions C04_cleanup_refines.
Print Assumptions C04_history_refines.
