(* C06 — Picture headers are parsed field-for-field as H.263 and Sorenson define them. *)
From H263V Require Import base.Prelude model.Types model.Reader model.Header proofs.HeaderLemmas.

(* the temporal reference of every parsed header, Sorenson or standard, with or without the two
   extension bits of a custom picture clock, lies in 0..1023 *)
Theorem C06_tr_range : forall o prev r p r',
  decode_picture o prev r = Ok (Some p, r') -> 0 <= temporal_reference p < 1024.
Proof. exact decode_picture_tr. Qed.

Print Assumptions C06_tr_range.
