(* C06 — Picture headers are parsed field-for-field as H.263 and Sorenson define them. *)
From H263V Require Import base.Prelude model.Types model.Reader model.Header spec.SpecHeader
  proofs.HeaderLemmas proofs.HeaderRoundTrip proofs.PlusRoundTrip proofs.PlusChain proofs.HeaderReject proofs.HeaderFits.

(* Sorenson Spark: for EVERY combination of version, temporal reference, size code (8- and 16-bit custom
   sizes, five fixed sizes, reserved), picture type, deblocking flag, quantizer and extra-information bytes,
   wherever the header starts and whatever follows it: the parser reports exactly the encoded values and
   leaves exactly the bits that follow the header. *)
Theorem C06_sorenson_roundtrip : forall h prev scal rest pos,
  wf_sorenson h ->
  exists pos', decode_picture (mkOpts true scal) prev (mkReader (enc_sorenson h ++ rest) pos)
               = Ok (Some (picture_of_sorenson h), mkReader rest pos').
Proof. exact sorenson_roundtrip. Qed.

(* Baseline H.263 (PTYPE without PLUSPTYPE): every combination of TR, split-screen / document-camera /
   freeze-release flags, source format 1..6, coding type, UMV / SAC / AP / PB flags, PQUANT, CPM with PSBI,
   TRB and DBQUANT (PB frames) and PEI bytes. *)
Theorem C06_baseline_roundtrip : forall h prev scal rest pos,
  wf_std h ->
  (t_pb h = false /\ t_inter h = false) \/              (* an INTRA picture may change the format; otherwise ... *)
  prev_compatible prev (Some (std_format (t_srcfmt h))) ->   (* ... the previous header, if any, transmitted the same one *)
  scal = false ->
  exists pos', decode_picture (mkOpts false scal) prev (mkReader (enc_std h ++ rest) pos)
               = Ok (Some (picture_of_std h), mkReader rest pos').
Proof. exact std_roundtrip. Qed.

(* H.263v2 headers with PLUSPTYPE, UFEP = 001: every combination of TR, PTYPE flags, OPPTYPE source format
   (fixed sizes, reserved, custom), the eleven OPPTYPE option bits, MPPTYPE picture type 0..7 with RRU and
   RTYPE (RPR = 0: resampling parameters are not implemented and rejected), CPM/PSBI, CPFMT with every
   PAR code, PWI, PHI and extended PAR, CPCFC/ETR, UUI ('1' and '01'), SSS, ELNUM/RLNUM when scalability is
   enabled, RPSMF, TRPI/TRP, BCI '01', PQUANT, TRB (3 or 5 bits) / DBQUANT and PEI bytes. *)
Theorem C06_plus_roundtrip : forall h prev scal rest pos,
  wf_plus h -> p_type h = 0 \/ prev_compatible prev (plus_format h) ->     (* INTRA, or no format change *)
  exists pos', decode_picture (mkOpts false scal) prev (mkReader (enc_plus scal h ++ rest) pos)
               = Ok (Some (picture_of_plus scal h), mkReader rest pos').
Proof. exact plus_roundtrip. Qed.

(* PLUSPTYPE with UFEP = 000 (nothing of OPPTYPE retransmitted), after ANY previous header or none: the parsed
   header carries the previous header's OPPTYPE modes (`inherited prev` = its options restricted to the ten OPPTYPE
   mode bits) together with its own PTYPE and MPPTYPE flags, no format, no RLNUM; TRPI/BCI are read exactly when
   reference picture selection is inherited; exactly the header's bits are consumed. *)
Theorem C06_plus_inherits : forall h prev scal rest pos,
  wf_plus0 h ->
  exists pos', decode_picture (mkOpts false scal) prev (mkReader (enc_plus0 scal (Z.testbit (inherited prev) 9) h ++ rest) pos)
               = Ok (Some (picture_of_plus0 scal (inherited prev) h), mkReader rest pos').
Proof. exact plus0_roundtrip. Qed.

(* ... and they stay in force through ANY NUMBER of headers that do not retransmit them: after a run `hs` of UFEP = 000
   headers (after_chain = the decoder's previous-header argument after parsing them one after another) the next one still
   parses to the header carrying the ORIGINAL modes of `prev`, reading TRPI/BCI exactly when they say so *)
Theorem C06_modes_persist : forall scal prev hs h rest pos,
  wf_plus0 h ->
  exists pos', decode_picture (mkOpts false scal) (after_chain scal prev hs)
                 (mkReader (enc_plus0 scal (Z.testbit (inherited prev) 9) h ++ rest) pos)
               = Ok (Some (picture_of_plus0 scal (inherited prev) h), mkReader rest pos').
Proof. exact plus0_chain_roundtrip. Qed.

(* wrong fixed marker bits are rejected, whatever the other bits are: PTYPE bits 1-2 ('10'), source format '000',
   reserved UFEP values, the last four bits of OPPTYPE ('1000'), the last three of MPPTYPE ('001'), bit 14 of CPFMT,
   PAR code 0 *)
Theorem C06_markers_rejected :
  (forall r hi r', read_u8 r = Ok (hi, r') -> Z.land hi 192 <> 128 -> decode_ptype r = Err EInvalidPType) /\
  (forall r hi r', read_u8 r = Ok (hi, r') -> Z.land hi 7 = 0 -> decode_ptype r = Err EInvalidPType) /\
  (forall o po r u r', read_bits 8 3 r = Ok (u, r') -> u <> 0 -> u <> 1 -> decode_plusptype o po r = Err EInvalidPlusPType) /\
  (forall o po r r' opp r'', read_bits 8 3 r = Ok (1, r') -> read_bits 32 18 r' = Ok (opp, r'') -> Z.land opp 15 <> 8 ->
     decode_plusptype o po r = Err EInvalidPlusPType) /\
  (forall o po r r' mpp r'', read_bits 8 3 r = Ok (0, r') -> read_bits 16 9 r' = Ok (mpp, r'') -> Z.land mpp 7 <> 1 ->
     decode_plusptype o po r = Err EInvalidPlusPType) /\
  (forall r c r', read_bits 32 23 r = Ok (c, r') -> Z.land c 512 = 0 -> decode_cpfmt r = Err EPictureFormatInvalid) /\
  (forall r c r', read_bits 32 23 r = Ok (c, r') -> Z.shiftr (Z.land c 7864320) 19 = 0 -> decode_cpfmt r = Err EPictureFormatInvalid).
Proof.
  exact (conj ptype_marker_rejected (conj ptype_format_zero_rejected (conj ufep_reserved_rejected (conj opptype_marker_rejected
         (conj mpptype_marker_rejected (conj cpfmt_marker_rejected cpfmt_par_zero_rejected)))))).
Qed.

(* the temporal reference of every parsed header lies in 0..1023 *)
Theorem C06_tr_range : forall o prev r p r',
  decode_picture o prev r = Ok (Some p, r') -> 0 <= temporal_reference p < 1024.
Proof. exact decode_picture_tr. Qed.

(* ... its PQUANT in 0..31 (five bits), and the dimensions of the format it carries - Sorenson's 8- and 16-bit custom sizes, the
   fixed sizes, CPFMT's nine-bit fields - within the 16-bit size fields of the decoder *)
Theorem C06_fields_fit : forall o prev r p r',
  decode_picture o prev r = Ok (Some p, r') ->
  0 <= quantizer p <= 31 /\
  (forall f w h, format p = Some f -> into_width_and_height f = Some (w, h) -> 0 <= w <= 65535 /\ 0 <= h <= 65535).
Proof. exact (fun o prev r p r' H => conj (proj1 (decode_picture_fits o prev r p r' H)) (fun f w h Ef => proj2 (decode_picture_fits o prev r p r' H) f Ef w h)). Qed.

(* non-vacuity: a concrete Sorenson header (version 1, TR 200, 17x9, disposable, deblock, q 31, two PEI bytes) *)
Example C06_example :
  wf_sorenson (mkSor 1 200 (SzCustom8 17 9) 2 true 31 [7; 255]).
Proof. unfold wf_sorenson, wf_sor_size, byte_ok. cbn. repeat split; try lia. repeat constructor; lia. Qed.

(* non-vacuity: a PLUSPTYPE header using every follower (custom format with extended PAR, custom clock,
   UUI, SSS, RPS with TRP, improved PB frame) *)
Example C06_plus_example :
  wf_plus (mkPlus 77 true false true 6 true true false true false true true true false true false 2 true false
                  (Some 3) 15 43 36 7 9 200 2 false 3 5 6 5 (Some 513) 17 21 2 [1; 2]).
Proof. unfold wf_plus, byte_ok. cbn. repeat split; try lia. repeat constructor; lia. Qed.

Print Assumptions C06_sorenson_roundtrip.
Print Assumptions C06_baseline_roundtrip.
Print Assumptions C06_plus_roundtrip.
Print Assumptions C06_plus_inherits.
Print Assumptions C06_markers_rejected.
Print Assumptions C06_tr_range.
Print Assumptions C06_fields_fit.
Print Assumptions C06_modes_persist.
