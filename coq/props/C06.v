(* C06 — Picture headers are parsed field-for-field as H.263 and Sorenson define them. *)
From H263V Require Import base.Prelude model.Types model.Reader model.Header spec.SpecHeader
  proofs.HeaderLemmas proofs.HeaderRoundTrip.

(* Sorenson Spark: for EVERY combination of version, temporal reference, size code (8- and 16-bit custom
   sizes, five fixed sizes, reserved), picture type, deblocking flag, quantizer and extra-information bytes,
   wherever the header starts and whatever follows it: the parser reports exactly the encoded values and
   leaves exactly the bits that follow the header. *)
Theorem C06_sorenson_roundtrip : forall h prev scal rest pos,
  wf_sorenson h ->
  exists pos', decode_picture (mkOpts true scal) prev (mkReader (enc_sorenson h ++ rest) pos)
               = Ok (Some (picture_of_sorenson h), mkReader rest pos').
Proof. exact sorenson_roundtrip. Qed.

(* Baseline H.263 (PTYPE without PLUSPTYPE): every combination of TR, split-screen / document-camera /
   freeze-release flags, source format 1..6, coding type, UMV / SAC / AP / PB flags, PQUANT, CPM with PSBI,
   TRB and DBQUANT (PB frames) and PEI bytes. *)
Theorem C06_baseline_roundtrip : forall h prev scal rest pos,
  wf_std h -> prev_compatible prev (Some (std_format (t_srcfmt h))) -> scal = false ->
  exists pos', decode_picture (mkOpts false scal) prev (mkReader (enc_std h ++ rest) pos)
               = Ok (Some (picture_of_std h), mkReader rest pos').
Proof. exact std_roundtrip. Qed.

(* the temporal reference of every parsed header lies in 0..1023 *)
Theorem C06_tr_range : forall o prev r p r',
  decode_picture o prev r = Ok (Some p, r') -> 0 <= temporal_reference p < 1024.
Proof. exact decode_picture_tr. Qed.

(* non-vacuity: a concrete Sorenson header (version 1, TR 200, 17x9, disposable, deblock, q 31, two PEI bytes) *)
Example C06_example :
  wf_sorenson (mkSor 1 200 (SzCustom8 17 9) 2 true 31 [7; 255]).
Proof. unfold wf_sorenson, wf_sor_size, byte_ok. cbn. repeat split; try lia. repeat constructor; lia. Qed.

Print Assumptions C06_sorenson_roundtrip.
Print Assumptions C06_baseline_roundtrip.
Print Assumptions C06_tr_range.
