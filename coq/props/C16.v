(* C16 — Deblocking accepts every image size and strength; strength table is Table J.2.
   Only statements; proofs are in proofs/. *)
From H263V Require Import base.Prelude model.Deblock proofs.DeblockShape proofs.DeblockKernel.

(* Every width >= 1, every height (0 and 1 included), every strength: no panic,
   same length.  (`deblock` models the checked build: Panic covers overflow,
   slice bounds, division by zero and assertion failures.) *)
Theorem C16_deblock_total :
  forall data w s, 1 <= w -> zlength data mod w = 0 ->
  exists out, deblock data w s = Ok out /\ length out = length data.
Proof. exact deblock_total_len. Qed.

Theorem C16_table_J2 : quant_to_strength = table_J2.
Proof. exact (eq_refl table_J2). Qed.

Theorem C16_strength_in_range :
  forall q, 1 <= q <= 31 -> 1 <= nth (Z.to_nat q) quant_to_strength 0 <= 12.
Proof. exact strength_in_range. Qed.

(* non-vacuity: a 3x1 image (fewer than two rows, fewer than ten columns) *)
Example C16_tiny : deblock [7; 8; 9] 3 12 = Ok [7; 8; 9].
Proof. vm_compute. reflexivity. Qed.

Check C16_deblock_total :
  forall data w s, 1 <= w -> zlength data mod w = 0 ->
  exists out, deblock data w s = Ok out /\ length out = length data.
Check C16_table_J2 : quant_to_strength = table_J2.
Check C16_strength_in_range :
  forall q, 1 <= q <= 31 -> 1 <= nth (Z.to_nat q) quant_to_strength 0 <= 12.
Print Assumptions C16_deblock_total.
Print Assumptions C16_table_J2.
Print Assumptions C16_strength_in_range.
