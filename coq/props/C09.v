(* C09 — Deblocking equals the Annex J edge filter at every block edge, wherever it lies.
   Only statements; proofs are in proofs/. *)
From H263V Require Import base.Prelude model.Deblock proofs.DeblockShape proofs.DeblockKernel proofs.DeblockPass.

(* the code's scalar kernel is Annex J on all 2^32 patterns and every strength *)
Theorem C09_kernel_scalar :
  forall a b c d s, byte a -> byte b -> byte c -> byte d -> 0 <= s ->
  process a b c d s = annexJ a b c d s.
Proof. exact process_is_annexJ. Qed.

(* so is every lane of the (repaired) vector kernel *)
Theorem C09_kernel_lane :
  forall a b c d s, byte a -> byte b -> byte c -> byte d -> 0 <= s ->
  process_lane a b c d s = annexJ a b c d s.
Proof. exact process_lane_is_annexJ. Qed.

(* results are bytes: the unclipped A and D outputs never leave 0..255 *)
Theorem C09_kernel_bytes :
  forall a b c d s, byte a -> byte b -> byte c -> byte d -> 0 <= s ->
  let '(a', b', c', d') := annexJ a b c d s in byte a' /\ byte b' /\ byte c' /\ byte d'.
Proof. exact annexJ_bytes. Qed.

(* the lane kernel as it was before the repair (flooring shifts) is not Annex J *)
Theorem C09_lane_floor_refuted :
  exists a b c d s, byte a /\ byte b /\ byte c /\ byte d /\ 1 <= s <= 12 /\
    process_lane_floor a b c d s <> annexJ a b c d s.
Proof. exact process_lane_floor_refuted. Qed.

(* output has the input's length; the input list is a value, hence unmodified *)
Theorem C09_length :
  forall data w s, 1 <= w -> zlength data mod w = 0 ->
  exists out, deblock data w s = Ok out /\ length out = length data.
Proof. exact deblock_total_len. Qed.

(* THE PROPERTY, for every image: for every width >= 1, height >= 0, byte image of w*h samples and strength >= 0
   the code's two passes (row groups of four, vector chunks of eight columns plus scalar remainder; row groups of
   eight plus scalar remainder rows, column chunks of eight from column 2) return exactly `annexJ_flat`: the Annex J
   filter across every horizontal 8-aligned interior edge whose four samples lie inside the image, then across
   every vertical one; every other sample is copied (`edge_of` = None).  `annexJ_image` is stated pointwise, so a
   pattern's result does not depend on where it lies. *)
Theorem C09_image :
  forall data w h s, 1 <= w -> 0 <= h -> zlength data = w * h -> Forall byte data -> 0 <= s ->
  deblock data w s = Ok (annexJ_flat data w h s).
Proof. exact deblock_is_annexJ. Qed.

(* non-vacuity: a 10x10 image has exactly one horizontal and one vertical edge; evaluated *)
Example C09_image_example :
  let data := map (fun i => (Z.of_nat i * 37) mod 256) (seq 0 100) in
  deblock data 10 5 = Ok (annexJ_flat data 10 10 5) /\ annexJ_flat data 10 10 5 <> data.
Proof. cbv zeta. split; [vm_compute; reflexivity|vm_compute; discriminate]. Qed.

Check C09_kernel_scalar :
  forall a b c d s, byte a -> byte b -> byte c -> byte d -> 0 <= s ->
  process a b c d s = annexJ a b c d s.
Check C09_kernel_lane :
  forall a b c d s, byte a -> byte b -> byte c -> byte d -> 0 <= s ->
  process_lane a b c d s = annexJ a b c d s.
Print Assumptions C09_kernel_scalar.
Print Assumptions C09_kernel_lane.
Print Assumptions C09_kernel_bytes.
Print Assumptions C09_lane_floor_refuted.
Print Assumptions C09_length.
Print Assumptions C09_image.
