(* C12 — Motion vectors are reconstructed exactly for every predictor/differential pair. *)
From H263V Require Import base.Prelude spec.SpecRecon model.Types model.Reader model.Header model.Syntax model.Recon model.Decoder
  proofs.MvSpec.

(* every predictor / differential pair of the half-sample range, each component *)
Theorem C12_vector_wrap : forall cur running p d is_x,
  has running UNRESTRICTED_MOTION_VECTORS = false -> -32 <= p <= 31 -> -32 <= d <= 31 ->
  halfpel_decode cur running p d is_x = wrap_spec p d.
Proof. exact halfpel_wrap. Qed.

(* every sum of four luma vectors (indeed every integer): the sixteenth-position rounding table *)
Theorem C12_chroma_rounding : forall s, average_sum_of_mvs s = chroma_spec s.
Proof. exact average_sum_spec. Qed.

(* half-sample split of a vector component: floor and half flag *)
Theorem C12_halfsample_split : forall h, into_lerp_parameters h = lerp_spec h.
Proof. exact lerp_is_spec. Qed.

(* every neighbour configuration: any width in macroblocks >= 1 (single-column pictures included), first
   line, first and last column, interior, every block index; intra / not-coded neighbours are stored as zero *)
Theorem C12_candidates : forall pv cur mbw idx,
  1 <= mbw -> 0 <= idx <= 3 ->
  let n := zlength pv in
  let col := n mod mbw in
  let line := n / mbw in
  predict_candidate pv cur mbw idx =
  Ok (predictor_spec (if col =? 0 then None else nb pv (n - 1))
                     (if line =? 0 then None else nb pv (n - mbw))
                     (if line =? 0 then None else nb pv (n - mbw + 1))
                     (col =? mbw - 1) cur idx).
Proof. exact predict_candidate_spec. Qed.

Print Assumptions C12_vector_wrap.
Print Assumptions C12_chroma_rounding.
Print Assumptions C12_halfsample_split.
Print Assumptions C12_candidates.
