(* C12 — Motion vectors are reconstructed exactly for every predictor/differential pair. *)
From H263V Require Import base.Prelude spec.SpecRecon model.Types model.Reader model.Header model.Syntax model.Recon model.Decoder
  proofs.MvSpec.
From H263V Require Import model.Tables spec.SpecTables proofs.VlcTables.

(* every predictor / differential pair of the half-sample range, each component *)
Theorem C12_vector_wrap : forall cur running p d is_x,
  has running UNRESTRICTED_MOTION_VECTORS = false -> -32 <= p <= 31 -> -32 <= d <= 31 ->
  halfpel_decode cur running p d is_x = wrap_spec p d.
Proof. exact halfpel_wrap. Qed.

(* every sum of four luma vectors (indeed every integer): the sixteenth-position rounding table *)
Theorem C12_chroma_rounding : forall s, average_sum_of_mvs s = chroma_spec s.
Proof. exact average_sum_spec. Qed.

(* half-sample split of a vector component: floor and half flag *)
Theorem C12_halfsample_split : forall h, into_lerp_parameters h = lerp_spec h.
Proof. exact lerp_is_spec. Qed.

(* every neighbour configuration: any width in macroblocks >= 1 (single-column pictures included), first
   line, first and last column, interior, every block index; intra / not-coded neighbours are stored as zero *)
Theorem C12_candidates : forall pv cur mbw idx,
  1 <= mbw -> 0 <= idx <= 3 ->
  let n := zlength pv in
  let col := n mod mbw in
  let line := n / mbw in
  predict_candidate pv cur mbw idx =
  Ok (predictor_spec (if col =? 0 then None else nb pv (n - 1))
                     (if line =? 0 then None else nb pv (n - mbw))
                     (if line =? 0 then None else nb pv (n - mbw + 1))
                     (col =? mbw - 1) cur idx).
Proof. exact predict_candidate_spec. Qed.

(* the MVD code tree of the source decodes exactly H.263 Table 14: 64 code words for the differentials -16.0 .. +15.5
   (half-sample units -32 .. 31), each read as its value wherever it starts and whatever follows; no further code word *)
Theorem C12_mvd_code_table :
  (forall code h rest pos, In (code, h) spec_mvd ->
     read_vlc mvd_table (mkReader (code ++ rest) pos) = Ok (Some h, mkReader rest (pos + Z.of_nat (length code)))) /\
  map snd spec_mvd = map (fun i => Z.of_nat i - 32) (seq 0 64) /\
  count_leaves (fun o : option Z => match o with Some _ => true | None => false end) mvd_table = length spec_mvd.
Proof. exact (conj mvd_is_table14 (conj mvd_covers_range mvd_no_other_codes)). Qed.

Print Assumptions C12_vector_wrap.
Print Assumptions C12_mvd_code_table.
Print Assumptions C12_chroma_rounding.
Print Assumptions C12_halfsample_split.
Print Assumptions C12_candidates.
