(* C15 — One decode call consumes exactly one picture of a stream. *)
From H263V Require Import base.Prelude model.Types model.Reader model.Header model.Syntax model.Recon model.Decoder spec.SpecHeader
  proofs.LoopBound proofs.Frame proofs.StateRefine gen.GenPLoop bridge.BridgePReach.

(* THE PROPERTY, one call: a decode call that succeeds on a complete picture (all mb_per_line x mb_height macroblocks
   present: `picture_complete`) returns the same state - the same picture - and stops at the same place whatever bits
   follow in the source (`ext_r x r` = the reader r with x appended after its unread bits): further pictures, fewer than
   eight zero padding bits, anything. *)
Theorem C15_following_bits_irrelevant : forall s r0 s' r' x,
  decode_next_picture s r0 = Ok (s', r') ->
  picture_complete (st_opts s) (get_last_picture s) (running_options s) r0 ->
  decode_next_picture s (ext_r x r0) = Ok (s', ext_r x r').
Proof. exact decode_next_picture_frame. Qed.

(* ... and the same for decode_next_picture AS REGENERATED FROM THE SOURCE on this run (gen/GenPLoop.v), on every state a
   decoder can reach: the completion test of the macroblock loop, re-read from the source, is what makes the call stop *)
Theorem C15_source_following_bits_irrelevant : forall gq o ops r0 s' r' x,
  let s := fold_left step ops (new_state o) in
  p_decode_next_picture gq s r0 = Ok (s', r') ->
  picture_complete (st_opts s) (get_last_picture s) (running_options s) r0 ->
  p_decode_next_picture gq s (ext_r x r0) = Ok (s', ext_r x r').
Proof. exact source_frame. Qed.
(* THE PROPERTY, the next call: in front of k < 8 zero bits that pad to the byte boundary and are followed by a start
   code, a decode call does exactly what it does on the start code at the boundary *)
Theorem C15_padding_is_skipped : forall s k rest pos, 0 <= k -> k = (8 - pos mod 8) mod 8 ->
  decode_next_picture s (mkReader (repeat false (Z.to_nat k) ++ start_code ++ rest) pos)
  = decode_next_picture s (mkReader (start_code ++ rest) (pos + k)).
Proof. exact next_picture_after_padding. Qed.

(* together: two pictures in one source *)
Theorem C15_two_pictures_one_reader : forall s b1 p s1 k p1 rest2,
  0 <= k -> k = (8 - p1 mod 8) mod 8 ->
  decode_next_picture s (mkReader b1 p) = Ok (s1, mkReader (repeat false (Z.to_nat k)) p1) ->
  picture_complete (st_opts s) (get_last_picture s) (running_options s) (mkReader b1 p) ->
  decode_next_picture s (mkReader (b1 ++ start_code ++ rest2) p) = Ok (s1, mkReader (repeat false (Z.to_nat k) ++ start_code ++ rest2) p1) /\
  decode_next_picture s1 (mkReader (repeat false (Z.to_nat k) ++ start_code ++ rest2) p1) = decode_next_picture s1 (mkReader (start_code ++ rest2) (p1 + k)).
Proof. exact two_pictures_one_reader. Qed.

(* the same for the header parser alone: a parsed header and the place where it ends do not depend on what follows *)
Theorem C15_header_frame : forall o prev r0 v r' x,
  decode_picture o prev r0 = Ok (v, r') -> decode_picture o prev (ext_r x r0) = Ok (v, ext_r x r').
Proof. exact decode_picture_frame. Qed.

(* the macroblock loop never goes beyond mb_per_line * mb_height macroblocks, whatever follows in the reader *)
Theorem C15_macroblock_count_bound : forall fuel o np running mbpl total levw st st',
  mb_loop fuel o np running mbpl total levw st = Ok st' ->
  zlength (l_types st) <= total -> zlength (l_pvs st) = zlength (l_types st) ->
  zlength (l_types st') <= total /\ zlength (l_pvs st') = zlength (l_types st').
Proof. exact mb_loop_bound. Qed.

(* the start-code probe at the head of the next call skips at most realignment + 1 <= 8 stuffing bits *)
Theorem C15_start_code_window : forall r k,
  recognize_start_code false r = Ok (Some k) -> 0 <= k <= realignment_bits r + 1 /\ k <= 8.
Proof. exact recognize_start_code_window. Qed.

Print Assumptions C15_following_bits_irrelevant.
Print Assumptions C15_source_following_bits_irrelevant.
Print Assumptions C15_padding_is_skipped.
Print Assumptions C15_two_pictures_one_reader.
Print Assumptions C15_header_frame.
Print Assumptions C15_macroblock_count_bound.
Print Assumptions C15_start_code_window.
