(* C15 — One decode call consumes exactly one picture of a stream.
   Proved so far: the two facts that bound what a call consumes; the full statement (N concatenated
   pictures decode to the N separate pictures) needs the parser round trips and is tied by execution. *)
From H263V Require Import base.Prelude model.Types model.Reader model.Header model.Syntax model.Recon model.Decoder
  proofs.LoopBound.

(* the macroblock loop never goes beyond mb_per_line * mb_height macroblocks, whatever follows in the reader *)
Theorem C15_macroblock_count_bound : forall fuel o np running mbpl total levw st st',
  mb_loop fuel o np running mbpl total levw st = Ok st' ->
  zlength (l_types st) <= total -> zlength (l_pvs st) = zlength (l_types st) ->
  zlength (l_types st') <= total /\ zlength (l_pvs st') = zlength (l_types st').
Proof. exact mb_loop_bound. Qed.

(* the start-code probe at the head of the next call skips at most realignment + 1 <= 8 stuffing bits *)
Theorem C15_start_code_window : forall r k,
  recognize_start_code false r = Ok (Some k) -> 0 <= k <= realignment_bits r + 1 /\ k <= 8.
Proof. exact recognize_start_code_window. Qed.

Print Assumptions C15_macroblock_count_bound.
Print Assumptions C15_start_code_window.
