(* C07 — YUV to RGB conversion is the BT.601 studio-range formula for every colour. *)
From H263V Require Import base.Prelude model.Yuv proofs.YuvKernel.

(* the model kernel (one lane of yuv_to_rgba_4x, constants as in the source) is
   the formula in 16.16 fixed point with round-to-nearest constants, the +0.5
   bias, the shift and the clamp -- for all integers, in particular all 2^24 triples *)
Theorem C07_px_formula : forall y cb cr, px y cb cr = spec_px y cb cr.
Proof. exact px_is_spec. Qed.

(* the constants are the nearest 16.16 values of 255/219, 255/224*1.402, 255/224*1.772
   and the two derived green terms *)
Theorem C07_constants_nearest :
  2 * Z.abs (k_gray * cy_den - cy_num * 65536) <= cy_den /\
  2 * Z.abs (k_cr2r * crv_den - crv_num * 65536) <= crv_den /\
  2 * Z.abs (k_cb2b * cbu_den - cbu_num * 65536) <= cbu_den /\
  2 * Z.abs (- k_cr2g * cgv_den - cgv_num * 65536) <= cgv_den /\
  2 * Z.abs (- k_cb2g * cgu_den - cgu_num * 65536) <= cgu_den.
Proof. exact consts_nearest. Qed.

(* strictly within 1 of the real-valued formula (exact rationals NR/DR etc.), clamped *)
Theorem C07_within_one : forall y cb cr, byte y -> byte cb -> byte cr ->
  let '(r, g, b, _) := px y cb cr in
  Z.abs (DR * r - clamp 0 (255 * DR) (NR y cr)) < DR /\
  Z.abs (DG * g - clamp 0 (255 * DG) (NG y cb cr)) < DG /\
  Z.abs (DR * b - clamp 0 (255 * DR) (NB y cb)) < DR.
Proof. exact within_one. Qed.

Theorem C07_alpha_and_range : forall y cb cr,
  let '(r, g, b, a) := px y cb cr in byte r /\ byte g /\ byte b /\ a = 255.
Proof. exact px_bytes_ok. Qed.

(* R rises with Y and Cr, B with Y and Cb, G rises with Y and falls with Cb and Cr;
   R does not depend on Cb nor B on Cr *)
Theorem C07_monotone : forall y y' cb cb' cr cr', y <= y' -> cb <= cb' -> cr <= cr' ->
  chan_r y cb cr <= chan_r y' cb cr' /\
  chan_b y cb cr <= chan_b y' cb' cr /\
  chan_g y cb' cr' <= chan_g y' cb cr.
Proof. exact monotone. Qed.

(* i32 lane arithmetic cannot wrap on bytes *)
Theorem C07_no_wrap : forall y cb cr, byte y -> byte cb -> byte cr ->
  let gray := (y - k_yoff) * k_gray in
  Z.abs gray < 2 ^ 25 /\ Z.abs ((cr - k_coff) * k_cr2r) < 2 ^ 25 /\ Z.abs ((cb - k_coff) * k_cb2b) < 2 ^ 25 /\
  Z.abs (gray + (cr - k_coff) * k_cr2r + k_half) < 2 ^ 26 /\
  Z.abs (gray + (cr - k_coff) * k_cr2g + (cb - k_coff) * k_cb2g + k_half) < 2 ^ 26 /\
  Z.abs (gray + (cb - k_coff) * k_cb2b + k_half) < 2 ^ 26.
Proof. exact px_no_wrap. Qed.

Check C07_px_formula : forall y cb cr, px y cb cr = spec_px y cb cr.
Print Assumptions C07_px_formula.
Print Assumptions C07_constants_nearest.
Print Assumptions C07_within_one.
Print Assumptions C07_alpha_and_range.
Print Assumptions C07_monotone.
Print Assumptions C07_no_wrap.
