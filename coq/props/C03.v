(* C03 — Predicted pictures equal motion-compensated reference plus residual.
   Proved so far; the composition over whole pictures is tied by execution against the reference
   reconstruction (see DESIGN.md). *)
From H263V Require Import base.Prelude spec.SpecRecon model.Types model.Reader model.Header model.Syntax model.Recon model.Decoder proofs.MvSpec.

(* each vector component = predictor + differential reduced modulo 64 half samples into -32..31 (= -16..15.5) *)
Theorem C03_vector_wrap : forall cur running p d is_x,
  has running UNRESTRICTED_MOTION_VECTORS = false -> -32 <= p <= 31 -> -32 <= d <= 31 ->
  halfpel_decode cur running p d is_x = wrap_spec p d.
Proof. exact halfpel_wrap. Qed.

(* chroma vector: sum of the four luma vectors / 8 with the sixteenth-position rounding table, for every sum *)
Theorem C03_chroma_vector_table : forall s, average_sum_of_mvs s = chroma_spec s.
Proof. exact average_sum_spec. Qed.

(* the three-way median really is a median of its arguments *)
Theorem C03_median : forall a m r,
  let v := median_of a m r in
  (v = a \/ v = m \/ v = r) /\
  ((a <= v /\ v <= r) \/ (r <= v /\ v <= a) \/ (a <= v /\ v <= m) \/ (m <= v /\ v <= a) \/ (m <= v /\ v <= r) \/ (r <= v /\ v <= m)) /\
  (Z.min a (Z.min m r) <= v <= Z.max a (Z.max m r)) /\
  ((a <= v /\ m <= v) \/ (a <= v /\ r <= v) \/ (m <= v /\ r <= v)) /\
  ((v <= a /\ v <= m) \/ (v <= a /\ v <= r) \/ (v <= m /\ v <= r)).
Proof. exact median_of_spec. Qed.

(* a picture needing prediction when no reference exists is rejected *)
Theorem C03_no_reference_is_an_error : forall items i mbpl np np',
  gather_go items i None mbpl np = Ok np' -> Forall (fun tv : mbtype * mv4 => mb_is_inter (fst tv) = false) items.
Proof. exact gather_without_reference. Qed.

Print Assumptions C03_vector_wrap.
Print Assumptions C03_chroma_vector_table.
Print Assumptions C03_median.
Print Assumptions C03_no_reference_is_an_error.
