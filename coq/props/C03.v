(* C03 — Predicted pictures equal motion-compensated reference plus residual.
   Proved so far; the composition over whole pictures is tied by execution against the reference
   reconstruction (see DESIGN.md). *)
From H263V Require Import base.Prelude spec.SpecRecon model.Types model.Reader model.Header model.Syntax model.Recon model.Decoder proofs.MvSpec.
From H263V Require Import model.Tables spec.SpecTables proofs.VlcTables proofs.PlaneShape proofs.GatherSpec spec.SpecHeader proofs.BlockRoundTrip proofs.MacroblockRoundTrip proofs.PictureRoundTrip.

(* each vector component = predictor + differential reduced modulo 64 half samples into -32..31 (= -16..15.5) *)
Theorem C03_vector_wrap : forall cur running p d is_x,
  has running UNRESTRICTED_MOTION_VECTORS = false -> -32 <= p <= 31 -> -32 <= d <= 31 ->
  halfpel_decode cur running p d is_x = wrap_spec p d.
Proof. exact halfpel_wrap. Qed.

(* chroma vector: sum of the four luma vectors / 8 with the sixteenth-position rounding table, for every sum *)
Theorem C03_chroma_vector_table : forall s, average_sum_of_mvs s = chroma_spec s.
Proof. exact average_sum_spec. Qed.

(* the three-way median really is a median of its arguments *)
Theorem C03_median : forall a m r,
  let v := median_of a m r in
  (v = a \/ v = m \/ v = r) /\
  ((a <= v /\ v <= r) \/ (r <= v /\ v <= a) \/ (a <= v /\ v <= m) \/ (m <= v /\ v <= a) \/ (m <= v /\ v <= r) \/ (r <= v /\ v <= m)) /\
  (Z.min a (Z.min m r) <= v <= Z.max a (Z.max m r)) /\
  ((a <= v /\ m <= v) \/ (a <= v /\ r <= v) \/ (m <= v /\ r <= v)) /\
  ((v <= a /\ v <= m) \/ (v <= a /\ v <= r) \/ (v <= m /\ v <= r)).
Proof. exact median_of_spec. Qed.

(* a picture needing prediction when no reference exists is rejected *)
Theorem C03_no_reference_is_an_error : forall items i mbpl np np',
  gather_go items i None mbpl np = Ok np' -> Forall (fun tv : mbtype * mv4 => mb_is_inter (fst tv) = false) items.
Proof. exact gather_without_reference. Qed.

(* the macroblock-type tree for predicted pictures decodes exactly H.263 Table 8 (24 type/pattern code words and
   stuffing), the differential tree Table 14 *)
Theorem C03_code_tables :
  (forall code v rest pos, In (code, v) spec_mcbpc_p ->
     read_vlc mcbpc_p_table (mkReader (code ++ rest) pos) = Ok (v, mkReader rest (pos + Z.of_nat (length code)))) /\
  (forall code h rest pos, In (code, h) spec_mvd ->
     read_vlc mvd_table (mkReader (code ++ rest) pos) = Ok (Some h, mkReader rest (pos + Z.of_nat (length code)))) /\
  count_leaves bpe_valid mcbpc_p_table = length spec_mcbpc_p.
Proof. exact (conj mcbpc_p_is_table8 (conj mvd_is_table14 (proj2 mcbpc_no_other_codes))). Qed.

(* motion compensation of one 8x8 block, for every reference plane, target plane, picture size, block position and vector
   (in half-sample units): all three paths of the code - whole-block slice copies, clamped full-sample copy, clamped
   bilinear interpolation - write at every sample of the block that lies inside the picture the H.263 prediction
   `pred_spec` (reference sample at the displaced position, coordinates outside the picture taking the nearest edge
   sample, half-sample positions the mean of the two or four neighbours rounded upwards) and leave every other sample
   of the target as it was *)
Theorem C03_block_prediction : forall w h src px py v t,
  plane_ok w h src -> plane_ok w h t -> 1 <= w -> 1 <= h -> 0 <= px -> 0 <= py ->
  exists t', gather_block src w px py v t = Ok t' /\ plane_ok w h t' /\
    forall x y, 0 <= x < w -> 0 <= y < h ->
      at_ t' x y = if in_block px py 8 8 x y then pred_spec src w h (2 * x + fst v) (2 * y + snd v) else at_ t x y.
Proof. exact gather_block_spec. Qed.

(* non-vacuity: a 3x2 reference, vector (+0.5, -0.5) at block (0,0): sample (2,0) interpolates across the right and top edges *)
Example C03_block_prediction_example :
  let src := mkPlane 3 [[10; 20; 40]; [50; 60; 90]] in
  pred_spec src 3 2 (2 * 2 + 1) (2 * 0 - 1) = 40 /\ pred_spec src 3 2 (2 * 0 + 1) (2 * 1 - 1) = 35.
Proof. cbv zeta. split; vm_compute; reflexivity. Qed.

(* the parser round trip of C02_picture_body_roundtrip read for predicted pictures: COD, the Table 8 types (one and four
   vectors, with and without DQUANT, intra macroblocks inside predicted pictures), differentials by Table 14, not-coded
   macroblocks and stuffing: the loop returns exactly the vectors, types and coefficient blocks `pure_loop` computes from the
   field values (median prediction and wrap: C03_median / C03_vector_wrap; C12_candidates) *)
Theorem C03_picture_body_roundtrip : forall o np running mpl total levw,
  let ipic := is_iframe (picture_type (d_header np)) in
  let v1 := sorenson o && (match version (d_header np) with Some 1 => true | _ => false end) in
  simple_picture (d_header np) running ->
  forall fms fuel st rest pos, Forall (wf_full ipic v1) fms -> loop_ok fms (zlength (l_types st)) total -> (length fms < fuel)%nat ->
  l_reader st = mkReader (enc_fulls ipic v1 fms ++ rest) pos ->
  exists pos', mb_loop fuel o np running mpl total levw st = rmap (pure_loop np running mpl levw fms st) (mkReader rest pos').
Proof. exact mb_loop_roundtrip. Qed.

(* not-coded macroblocks and the macroblocks after an early end of data carry the zero vector and no residual (`pure_loop`,
   `pad_to` in the decoder): each of their blocks is an exact copy of the co-located reference block *)
Theorem C03_zero_vector_copies : forall w h src px py t,
  plane_ok w h src -> plane_ok w h t -> 1 <= w -> 1 <= h -> 0 <= px -> 0 <= py ->
  exists t', gather_block src w px py (0, 0) t = Ok t' /\ plane_ok w h t' /\
    forall x y, 0 <= x < w -> 0 <= y < h -> at_ t' x y = if in_block px py 8 8 x y then at_ src x y else at_ t x y.
Proof. exact gather_block_zero_vector. Qed.

Print Assumptions C03_vector_wrap.
Print Assumptions C03_picture_body_roundtrip.
Print Assumptions C03_zero_vector_copies.
Print Assumptions C03_block_prediction.
Print Assumptions C03_code_tables.
Print Assumptions C03_chroma_vector_table.
Print Assumptions C03_median.
Print Assumptions C03_no_reference_is_an_error.
