(* C03 — Predicted pictures equal motion-compensated reference plus residual.
   Proved so far; the composition over whole pictures is tied by execution against the reference
   reconstruction (see DESIGN.md). *)
From H263V Require Import base.Prelude spec.SpecRecon model.Types model.Reader model.Header model.Syntax model.Recon model.Decoder proofs.MvSpec.
From H263V Require Import model.Tables spec.SpecTables proofs.VlcTables proofs.PlaneShape proofs.GatherSpec spec.SpecHeader proofs.BlockRoundTrip proofs.MacroblockRoundTrip proofs.PictureRoundTrip model.F32 proofs.IdctPlacement proofs.IntraPicture proofs.GatherPicture proofs.PredictedPicture proofs.IdctAccuracy proofs.PictureAccuracy.
From H263V Require Import proofs.EarlyEnd.
From Coq Require Import Reals.
Local Open Scope Z_scope.

(* each vector component = predictor + differential reduced modulo 64 half samples into -32..31 (= -16..15.5) *)
Theorem C03_vector_wrap : forall cur running p d is_x,
  has running UNRESTRICTED_MOTION_VECTORS = false -> -32 <= p <= 31 -> -32 <= d <= 31 ->
  halfpel_decode cur running p d is_x = wrap_spec p d.
Proof. exact halfpel_wrap. Qed.

(* chroma vector: sum of the four luma vectors / 8 with the sixteenth-position rounding table, for every sum *)
Theorem C03_chroma_vector_table : forall s, average_sum_of_mvs s = chroma_spec s.
Proof. exact average_sum_spec. Qed.

(* the three-way median really is a median of its arguments *)
Theorem C03_median : forall a m r,
  let v := median_of a m r in
  (v = a \/ v = m \/ v = r) /\
  ((a <= v /\ v <= r) \/ (r <= v /\ v <= a) \/ (a <= v /\ v <= m) \/ (m <= v /\ v <= a) \/ (m <= v /\ v <= r) \/ (r <= v /\ v <= m)) /\
  (Z.min a (Z.min m r) <= v <= Z.max a (Z.max m r)) /\
  ((a <= v /\ m <= v) \/ (a <= v /\ r <= v) \/ (m <= v /\ r <= v)) /\
  ((v <= a /\ v <= m) \/ (v <= a /\ v <= r) \/ (v <= m /\ v <= r)).
Proof. exact median_of_spec. Qed.

(* a picture needing prediction when no reference exists is rejected *)
Theorem C03_no_reference_is_an_error : forall items i mbpl np np',
  gather_go items i None mbpl np = Ok np' -> Forall (fun tv : mbtype * mv4 => mb_is_inter (fst tv) = false) items.
Proof. exact gather_without_reference. Qed.

(* the macroblock-type tree for predicted pictures decodes exactly H.263 Table 8 (24 type/pattern code words and
   stuffing), the differential tree Table 14 *)
Theorem C03_code_tables :
  (forall code v rest pos, In (code, v) spec_mcbpc_p ->
     read_vlc mcbpc_p_table (mkReader (code ++ rest) pos) = Ok (v, mkReader rest (pos + Z.of_nat (length code)))) /\
  (forall code h rest pos, In (code, h) spec_mvd ->
     read_vlc mvd_table (mkReader (code ++ rest) pos) = Ok (Some h, mkReader rest (pos + Z.of_nat (length code)))) /\
  count_leaves bpe_valid mcbpc_p_table = length spec_mcbpc_p.
Proof. exact (conj mcbpc_p_is_table8 (conj mvd_is_table14 (proj2 mcbpc_no_other_codes))). Qed.

(* motion compensation of one 8x8 block, for every reference plane, target plane, picture size, block position and vector
   (in half-sample units): all three paths of the code - whole-block slice copies, clamped full-sample copy, clamped
   bilinear interpolation - write at every sample of the block that lies inside the picture the H.263 prediction
   `pred_spec` (reference sample at the displaced position, coordinates outside the picture taking the nearest edge
   sample, half-sample positions the mean of the two or four neighbours rounded upwards) and leave every other sample
   of the target as it was *)
Theorem C03_block_prediction : forall w h src px py v t,
  plane_ok w h src -> plane_ok w h t -> 1 <= w -> 1 <= h -> 0 <= px -> 0 <= py ->
  exists t', gather_block src w px py v t = Ok t' /\ plane_ok w h t' /\
    forall x y, 0 <= x < w -> 0 <= y < h ->
      at_ t' x y = if in_block px py 8 8 x y then pred_spec src w h (2 * x + fst v) (2 * y + snd v) else at_ t x y.
Proof. exact gather_block_spec. Qed.

(* non-vacuity: a 3x2 reference, vector (+0.5, -0.5) at block (0,0): sample (2,0) interpolates across the right and top edges *)
Example C03_block_prediction_example :
  let src := mkPlane 3 [[10; 20; 40]; [50; 60; 90]] in
  pred_spec src 3 2 (2 * 2 + 1) (2 * 0 - 1) = 40 /\ pred_spec src 3 2 (2 * 0 + 1) (2 * 1 - 1) = 35.
Proof. cbv zeta. split; vm_compute; reflexivity. Qed.

(* the parser round trip of C02_picture_body_roundtrip read for predicted pictures: COD, the Table 8 types (one and four
   vectors, with and without DQUANT, intra macroblocks inside predicted pictures), differentials by Table 14, not-coded
   macroblocks and stuffing: the loop returns exactly the vectors, types and coefficient blocks `pure_loop` computes from the
   field values (median prediction and wrap: C03_median / C03_vector_wrap; C12_candidates) *)
Theorem C03_picture_body_roundtrip : forall o np running mpl total levw,
  let ipic := is_iframe (picture_type (d_header np)) in
  let v1 := sorenson o && (match version (d_header np) with Some 1 => true | _ => false end) in
  simple_picture (d_header np) running ->
  forall fms fuel st rest pos, Forall (wf_full ipic v1) fms -> loop_ok fms (zlength (l_types st)) total -> (length fms < fuel)%nat ->
  l_reader st = mkReader (enc_fulls ipic v1 fms ++ rest) pos ->
  exists pos', mb_loop fuel o np running mpl total levw st = rmap (pure_loop np running mpl levw fms st) (mkReader rest pos').
Proof. exact mb_loop_roundtrip. Qed.

(* not-coded macroblocks and the macroblocks after an early end of data carry the zero vector and no residual (`pure_loop`,
   `pad_to` in the decoder): each of their blocks is an exact copy of the co-located reference block *)
Theorem C03_zero_vector_copies : forall w h src px py t,
  plane_ok w h src -> plane_ok w h t -> 1 <= w -> 1 <= h -> 0 <= px -> 0 <= py ->
  exists t', gather_block src w px py (0, 0) t = Ok t' /\ plane_ok w h t' /\
    forall x y, 0 <= x < w -> 0 <= y < h -> at_ t' x y = if in_block px py 8 8 x y then at_ src x y else at_ t x y.
Proof. exact gather_block_zero_vector. Qed.

(* THE COMPOSITION, from bits to samples, for a predicted or disposable picture whose header has been parsed, whose body is the
   encoding of macroblocks given by field values and whose reference picture has the same size: decoding succeeds, stops exactly
   behind the picture, the planes have the signalled size, and every sample is

       clip_0..255 ( prediction + transform value of its coefficient block )

   where the prediction (`luma_after` / `chroma_after` over a zero plane) is, for a sample of a predicted macroblock, the H.263
   prediction `pred_spec` from the reference with the vector of its 8x8 luma block (chroma: the vector derived from the sum of
   the four), and zero for a sample of an intra macroblock; vectors, types and coefficient blocks are those `pure_loop` computes
   from the field values (median prediction, wrap, dequantisation, placement: the theorems above and in C02 / C12). *)
Theorem C03_predicted_picture : forall o last rp running0 r0 hdr fmt w h fms rest pos st',
  let v1 := sorenson o && (match version hdr with Some 1 => true | _ => false end) in
  let running := (if has_plusptype hdr && has_opptype hdr then options hdr
                  else if has_plusptype hdr then Z.lor (Z.ldiff (options hdr) opptype_options) (Z.land running0 opptype_options)
                  else Z.lor (Z.ldiff (Z.ldiff (options hdr) opptype_options) mpptype_options) (Z.land running0 (Z.lor opptype_options mpptype_options))) in
  let mpl := (w + 15) / 16 in let mbh := (h + 15) / 16 in let levw := mpl * 16 in let levh := mbh * 16 in
  let np := mkDecoded hdr fmt (new_plane w h) (new_plane ((w + 1) / 2) ((h + 1) / 2)) (new_plane ((w + 1) / 2) ((h + 1) / 2)) ((w + 1) / 2) in
  let st0 := mkLoop (mkReader (enc_fulls false v1 fms ++ rest) pos) (quantizer hdr) [] []
                    (repeatZ DctZero (levw * levh / 64)) (repeatZ DctZero (levw * levh / 4 / 64)) (repeatZ DctZero (levw * levh / 4 / 64)) in
  let items := combine (l_types st') (l_pvs st') in
  decode_picture o (match last with Some p => Some (d_header p) | None => None end) r0 = Ok (Some hdr, mkReader (enc_fulls false v1 fms ++ rest) pos) ->
  (picture_type hdr = PFrame \/ picture_type hdr = DisposablePFrame) -> format hdr = Some fmt -> into_width_and_height fmt = Some (w, h) -> 1 <= w -> 1 <= h ->
  simple_picture hdr running ->
  into_width_and_height (d_format rp) = Some (w, h) -> plane_ok w h (d_luma rp) ->
  plane_ok ((w + 1) / 2) ((h + 1) / 2) (d_cb rp) -> plane_ok ((w + 1) / 2) ((h + 1) / 2) (d_cr rp) -> d_chroma_w rp = (w + 1) / 2 ->
  Forall (wf_full false v1) fms -> loop_ok fms 0 (mpl * mbh) ->
  pure_loop np running mpl levw fms st0 = Ok st' ->
  exists pic pos',
    reconstruct o last (Some rp) running0 r0 = Ok (pic, mkReader rest pos') /\
    d_header pic = hdr /\ plane_ok w h (d_luma pic) /\ plane_ok ((w + 1) / 2) ((h + 1) / 2) (d_cb pic) /\ plane_ok ((w + 1) / 2) ((h + 1) / 2) (d_cr pic) /\
    (forall x y, 0 <= x < w -> 0 <= y < h ->
       at_ (d_luma pic) x y = add_val (block_of (l_luma st') (mpl * 2) x y) (x mod 8) (y mod 8)
                                (luma_after w h mpl rp items 0 (new_plane w h) x y)) /\
    (forall x y, 0 <= x < (w + 1) / 2 -> 0 <= y < (h + 1) / 2 ->
       at_ (d_cb pic) x y = add_val (block_of (l_cb st') mpl x y) (x mod 8) (y mod 8)
                              (chroma_after w h mpl (d_cb rp) items 0 (new_plane ((w + 1) / 2) ((h + 1) / 2)) x y) /\
       at_ (d_cr pic) x y = add_val (block_of (l_cr st') mpl x y) (x mod 8) (y mod 8)
                              (chroma_after w h mpl (d_cr rp) items 0 (new_plane ((w + 1) / 2) ((h + 1) / 2)) x y)).
Proof. exact reconstruct_predicted. Qed.


(* EARLY END OF DATA.  The data of a predicted or disposable picture ends (fewer than eight zero padding bits are left) after k of
   its macroblocks - `loop_short`: the encoded macroblocks do not fill the picture.  Decoding succeeds and stops there; the
   macroblocks present are reconstructed as in C03_predicted_picture (theorem reconstruct_predicted_early, same statement with
   the macroblock list padded by predicted macroblocks with the zero vector), and every sample of every macroblock from the
   k-th on - luma and both chroma planes - is an exact copy of the co-located sample of the reference picture: the padded
   macroblocks carry the zero vector (prediction = the reference sample itself, `pred_spec_zero`) and their coefficient blocks
   are still the zero blocks the loop started from (`pure_loop_untouched`: a macroblock only writes its own six blocks). *)
Theorem C03_early_end_copies_reference : forall o last rp running0 r0 hdr fmt w h fms pad pos st',
  let v1 := sorenson o && (match version hdr with Some 1 => true | _ => false end) in
  let running := (if has_plusptype hdr && has_opptype hdr then options hdr
                  else if has_plusptype hdr then Z.lor (Z.ldiff (options hdr) opptype_options) (Z.land running0 opptype_options)
                  else Z.lor (Z.ldiff (Z.ldiff (options hdr) opptype_options) mpptype_options) (Z.land running0 (Z.lor opptype_options mpptype_options))) in
  let mpl := (w + 15) / 16 in let mbh := (h + 15) / 16 in let levw := mpl * 16 in let levh := mbh * 16 in
  let np := mkDecoded hdr fmt (new_plane w h) (new_plane ((w + 1) / 2) ((h + 1) / 2)) (new_plane ((w + 1) / 2) ((h + 1) / 2)) ((w + 1) / 2) in
  let st0 := mkLoop (mkReader (enc_fulls false v1 fms ++ pad) pos) (quantizer hdr) [] []
                    (repeatZ DctZero (levw * levh / 64)) (repeatZ DctZero (levw * levh / 4 / 64)) (repeatZ DctZero (levw * levh / 4 / 64)) in
  let k := zlength (l_types st') in
  decode_picture o (match last with Some p => Some (d_header p) | None => None end) r0 = Ok (Some hdr, mkReader (enc_fulls false v1 fms ++ pad) pos) ->
  (picture_type hdr = PFrame \/ picture_type hdr = DisposablePFrame) -> format hdr = Some fmt -> into_width_and_height fmt = Some (w, h) -> 1 <= w -> 1 <= h ->
  simple_picture hdr running ->
  into_width_and_height (d_format rp) = Some (w, h) -> plane_ok w h (d_luma rp) ->
  plane_ok ((w + 1) / 2) ((h + 1) / 2) (d_cb rp) -> plane_ok ((w + 1) / 2) ((h + 1) / 2) (d_cr rp) -> d_chroma_w rp = (w + 1) / 2 ->
  Forall (wf_full false v1) fms -> loop_short fms 0 (mpl * mbh) -> short_pad pad ->
  pure_loop np running mpl levw fms st0 = Ok st' ->
  exists pic pos',
    reconstruct o last (Some rp) running0 r0 = Ok (pic, mkReader pad pos') /\ d_header pic = hdr /\
    plane_ok w h (d_luma pic) /\ plane_ok ((w + 1) / 2) ((h + 1) / 2) (d_cb pic) /\ plane_ok ((w + 1) / 2) ((h + 1) / 2) (d_cr pic) /\
    (forall x y, 0 <= x < w -> 0 <= y < h -> k <= x / 16 + (y / 16) * mpl -> at_ (d_luma pic) x y = at_ (d_luma rp) x y) /\
    (forall x y, 0 <= x < (w + 1) / 2 -> 0 <= y < (h + 1) / 2 -> k <= x / 8 + (y / 8) * mpl ->
       at_ (d_cb pic) x y = at_ (d_cb rp) x y /\ at_ (d_cr pic) x y = at_ (d_cr rp) x y).
Proof. exact reconstruct_predicted_early_copies. Qed.

(* non-vacuity: a 16x32 Sorenson predicted picture (two macroblocks) whose data ends after the first, not-coded macroblock;
   reference planes constant 7 / 9 / 11 *)
Definition ex_hdr := mkSor 0 5 (SzCustom8 16 32) 1 false 10 [].
Definition ex_plane (w h v : Z) : plane := mkPlane w (repeatZ (repeatZ v w) h).
Definition ex_rp : decoded_picture :=
  mkDecoded (picture_of_sorenson (mkSor 0 4 (SzCustom8 16 32) 0 false 10 [])) (Extended Square 16 32)
            (ex_plane 16 32 7) (ex_plane 8 16 9) (ex_plane 8 16 11) 8.

Example C03_early_end_example :
  exists pic pos',
    reconstruct (mkOpts true false) None (Some ex_rp) 0 (mkReader (enc_sorenson ex_hdr ++ enc_fulls false false [FUncoded] ++ []) 0) = Ok (pic, mkReader [] pos') /\
    at_ (d_luma pic) 3 20 = 7 /\ at_ (d_cb pic) 2 9 = 9 /\ at_ (d_cr pic) 7 15 = 11.
Proof.
  set (o := mkOpts true false). set (hdr := picture_of_sorenson ex_hdr).
  set (np := mkDecoded hdr (Extended Square 16 32) (new_plane 16 32) (new_plane 8 16) (new_plane 8 16) 8).
  set (st0 := mkLoop (mkReader (enc_fulls false false [FUncoded] ++ []) 58) (quantizer hdr) [] []
                (repeatZ DctZero 8) (repeatZ DctZero 2) (repeatZ DctZero 2)).
  destruct (reconstruct_predicted_early_copies o None ex_rp 0 (mkReader (enc_sorenson ex_hdr ++ enc_fulls false false [FUncoded] ++ []) 0)
              hdr (Extended Square 16 32) 16 32 [FUncoded] [] 58 (push st0 mv4_zero Inter))
    as (pic & pos' & E & _ & _ & _ & _ & AL & AC).
  - vm_compute. reflexivity.
  - left. reflexivity.
  - reflexivity.
  - reflexivity.
  - lia.
  - lia.
  - repeat split; vm_compute; auto.
  - reflexivity.
  - vm_compute. repeat split; repeat constructor.
  - vm_compute. repeat split; repeat constructor.
  - vm_compute. repeat split; repeat constructor.
  - reflexivity.
  - repeat constructor.
  - vm_compute. repeat split; reflexivity.
  - exists 0%nat. split; [lia|reflexivity].
  - vm_compute. reflexivity.
  - exists pic, pos'. split; [exact E|].
    destruct (AC 2 9 ltac:(lia) ltac:(lia) ltac:(vm_compute; discriminate)) as [C1 _].
    destruct (AC 7 15 ltac:(lia) ltac:(lia) ltac:(vm_compute; discriminate)) as [_ C2].
    rewrite (AL 3 20 ltac:(lia) ltac:(lia) ltac:(vm_compute; discriminate)), C1, C2.
    split; [|split]; vm_compute; reflexivity.
Qed.

(* the macroblock loop itself at an early end: it returns exactly what the macroblocks present produce and leaves the padding *)
Theorem C03_early_end_loop : forall o np running mpl total levw pad,
  let ipic := is_iframe (picture_type (d_header np)) in
  let v1 := sorenson o && (match version (d_header np) with Some 1 => true | _ => false end) in
  simple_picture (d_header np) running -> short_pad pad ->
  forall fms fuel st pos, Forall (wf_full ipic v1) fms -> loop_short fms (zlength (l_types st)) total -> (length fms < fuel)%nat ->
  l_reader st = mkReader (enc_fulls ipic v1 fms ++ pad) pos ->
  exists pos', mb_loop fuel o np running mpl total levw st = rmap (pure_loop np running mpl levw fms st) (mkReader pad pos').
Proof. exact mb_loop_early. Qed.


(* from the bits of a predicted picture to the accuracy of every sample: each sample is within 0.632 of `target`: the
   prediction itself where nothing was coded, otherwise clip_0..255 (prediction + the exact residual, clipped to -256..255),
   the residual being the exact inverse DCT of the placed, dequantised coefficient matrix of the block at that position *)
Theorem C03_predicted_picture_accurate : forall o last rp running0 r0 hdr fmt w h fms rest pos st',
  let v1 := sorenson o && (match version hdr with Some 1 => true | _ => false end) in
  let running := (if has_plusptype hdr && has_opptype hdr then options hdr
                  else if has_plusptype hdr then Z.lor (Z.ldiff (options hdr) opptype_options) (Z.land running0 opptype_options)
                  else Z.lor (Z.ldiff (Z.ldiff (options hdr) opptype_options) mpptype_options) (Z.land running0 (Z.lor opptype_options mpptype_options))) in
  let mpl := (w + 15) / 16 in let mbh := (h + 15) / 16 in let levw := mpl * 16 in let levh := mbh * 16 in
  let np := mkDecoded hdr fmt (new_plane w h) (new_plane ((w + 1) / 2) ((h + 1) / 2)) (new_plane ((w + 1) / 2) ((h + 1) / 2)) ((w + 1) / 2) in
  let st0 := mkLoop (mkReader (enc_fulls false v1 fms ++ rest) pos) (quantizer hdr) [] []
                    (repeatZ DctZero (levw * levh / 64)) (repeatZ DctZero (levw * levh / 4 / 64)) (repeatZ DctZero (levw * levh / 4 / 64)) in
  let items := combine (l_types st') (l_pvs st') in
  decode_picture o (match last with Some p => Some (d_header p) | None => None end) r0 = Ok (Some hdr, mkReader (enc_fulls false v1 fms ++ rest) pos) ->
  (picture_type hdr = PFrame \/ picture_type hdr = DisposablePFrame) -> format hdr = Some fmt -> into_width_and_height fmt = Some (w, h) -> 1 <= w -> 1 <= h ->
  simple_picture hdr running ->
  into_width_and_height (d_format rp) = Some (w, h) -> plane_ok w h (d_luma rp) ->
  plane_ok ((w + 1) / 2) ((h + 1) / 2) (d_cb rp) -> plane_ok ((w + 1) / 2) ((h + 1) / 2) (d_cr rp) -> d_chroma_w rp = (w + 1) / 2 ->
  Forall (wf_full false v1) fms -> loop_ok fms 0 (mpl * mbh) ->
  pure_loop np running mpl levw fms st0 = Ok st' ->
  exists pic pos',
    reconstruct o last (Some rp) running0 r0 = Ok (pic, mkReader rest pos') /\
    (forall x y, 0 <= x < w -> 0 <= y < h ->
       let d := block_of (l_luma st') (mpl * 2) x y in
       exists coef, coef_source d coef /\
         (Rabs (IZR (at_ (d_luma pic) x y)
                - target d (luma_after w h mpl rp items 0 (new_plane w h) x y)
                    (ideal4 (fun r f => coef (Z.of_nat f) (Z.of_nat r)) (Z.to_nat (x mod 8)) (Z.to_nat (y mod 8)) / 4)) <= 0.632)%R) /\
    (forall x y, 0 <= x < (w + 1) / 2 -> 0 <= y < (h + 1) / 2 ->
       (let d := block_of (l_cb st') mpl x y in
        exists coef, coef_source d coef /\
         (Rabs (IZR (at_ (d_cb pic) x y)
                - target d (chroma_after w h mpl (d_cb rp) items 0 (new_plane ((w + 1) / 2) ((h + 1) / 2)) x y)
                    (ideal4 (fun r f => coef (Z.of_nat f) (Z.of_nat r)) (Z.to_nat (x mod 8)) (Z.to_nat (y mod 8)) / 4)) <= 0.632)%R) /\
       (let d := block_of (l_cr st') mpl x y in
        exists coef, coef_source d coef /\
         (Rabs (IZR (at_ (d_cr pic) x y)
                - target d (chroma_after w h mpl (d_cr rp) items 0 (new_plane ((w + 1) / 2) ((h + 1) / 2)) x y)
                    (ideal4 (fun r f => coef (Z.of_nat f) (Z.of_nat r)) (Z.to_nat (x mod 8)) (Z.to_nat (y mod 8)) / 4)) <= 0.632)%R)).
Proof. exact reconstruct_predicted_accurate. Qed.

Print Assumptions C03_vector_wrap.
Print Assumptions C03_predicted_picture.
Print Assumptions C03_picture_body_roundtrip.
Print Assumptions C03_zero_vector_copies.
Print Assumptions C03_block_prediction.
Print Assumptions C03_code_tables.
Print Assumptions C03_chroma_vector_table.
Print Assumptions C03_median.
Print Assumptions C03_no_reference_is_an_error.
Print Assumptions C03_predicted_picture_accurate.
Print Assumptions C03_early_end_copies_reference.
Print Assumptions C03_early_end_loop.
