(* C13 — Every decoded picture can be deblocked and converted to RGBA. *)
From H263V Require Import base.Prelude model.Types model.Reader model.Header model.Syntax model.Recon model.Decoder
  model.Deblock model.Yuv model.Pipeline proofs.PlaneShape.

(* every successfully reconstructed picture -- whatever the bytes, the options and the reference -- has
   width, height >= 1, luma of w*h samples as h rows of w, both chroma planes of ceil(w/2)*ceil(h/2) with
   row length ceil(w/2), and reports ceil(w/2) as its chroma row length *)
Theorem C13_new_picture_planes : forall o last reference running r0 np r,
  reconstruct o last reference running r0 = Ok (np, r) -> pic_ok np.
Proof. exact reconstruct_ok. Qed.

(* on such a picture, deblocking each plane with the strength tabulated for its quantizer and converting
   to RGBA completes (no panic) and yields exactly width x height pixels *)
Theorem C13_pipeline_total : forall d, pic_ok d -> 1 <= quantizer (d_header d) <= 31 ->
  exists rgba w h, into_width_and_height (d_format d) = Some (w, h) /\
    pipeline d = Ok rgba /\ zlength rgba = 4 * w * h.
Proof. exact pipeline_total. Qed.

Print Assumptions C13_new_picture_planes.
Print Assumptions C13_pipeline_total.
