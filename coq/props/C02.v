(* C02 — Intra pictures reconstruct exactly as H.263 prescribes.
   Proved so far (the composition over whole pictures is tied by execution against the
   reference reconstruction, see DESIGN.md): *)
From H263V Require Import base.Prelude spec.SpecRecon model.Types model.Tables model.Syntax model.Recon model.Decoder proofs.ReconSpec.

(* every coefficient: sign(L) (Q (2|L|+1) - [Q even]) saturated to -2048..2047, for every quantizer and level *)
Theorem C02_dequant_exact : forall q level, 0 <= q -> dequant q level = spec_dequant q level.
Proof. exact dequant_is_spec. Qed.

(* the de-zig-zag table of the source is the anti-diagonal walk of H.263 figure 14 *)
Theorem C02_zigzag_is_antidiagonal_walk : dezigzag_mapping = zigzag_walk.
Proof. exact dezigzag_is_walk. Qed.

(* INTRADC: codes 0 and 128 are rejected, every other code c reconstructs to 8c, 255 to 1024 *)
Theorem C02_intradc_levels : forall c, 0 <= c <= 255 ->
  (intradc_from_u8 c = None <-> (c = 0 \/ c = 128)) /\
  (forall d, intradc_from_u8 c = Some d -> d = c /\ intradc_level d = if c =? 255 then 1024 else 8 * c).
Proof. exact intradc_spec. Qed.

Print Assumptions C02_dequant_exact.
Print Assumptions C02_zigzag_is_antidiagonal_walk.
Print Assumptions C02_intradc_levels.
