(* C02 — Intra pictures reconstruct exactly as H.263 prescribes.
   Proved so far (the composition over whole pictures is tied by execution against the
   reference reconstruction, see DESIGN.md): *)
From H263V Require Import base.Prelude spec.SpecRecon model.Types model.Tables model.Syntax model.Recon model.Decoder proofs.ReconSpec proofs.RlePlacement model.Reader spec.SpecTables proofs.VlcTables model.F32 proofs.PlaneShape proofs.GatherSpec proofs.IdctPlacement model.Header model.Decoder spec.SpecHeader proofs.BlockRoundTrip proofs.MacroblockRoundTrip proofs.PictureRoundTrip proofs.IntraPicture proofs.IdctAccuracy proofs.PictureAccuracy.
From Coq Require Import Reals.
Local Open Scope Z_scope.

(* every coefficient: sign(L) (Q (2|L|+1) - [Q even]) saturated to -2048..2047, for every quantizer and level *)
Theorem C02_dequant_exact : forall q level, 0 <= q -> dequant q level = spec_dequant q level.
Proof. exact dequant_is_spec. Qed.

(* the de-zig-zag table of the source is the anti-diagonal walk of H.263 figure 14 *)
Theorem C02_zigzag_is_antidiagonal_walk : dezigzag_mapping = zigzag_walk.
Proof. exact dezigzag_is_walk. Qed.

(* INTRADC: codes 0 and 128 are rejected, every other code c reconstructs to 8c, 255 to 1024 *)
Theorem C02_intradc_levels : forall c, 0 <= c <= 255 ->
  (intradc_from_u8 c = None <-> (c = 0 \/ c = 128)) /\
  (forall d, intradc_from_u8 c = Some d -> d = c /\ intradc_level d = if c =? 255 then 1024 else 8 * c).
Proof. exact intradc_spec. Qed.

(* run-length expansion of a whole block, for every sequence of (run, level) events, every quantizer and with or
   without INTRADC: the k-th event lands on the cell the zig-zag scan gives to position (previous position + run),
   carrying the dequantised level; every other cell keeps its value (zero, or the INTRADC level at (0,0)); a run past
   position 63 abandons the block (`place_spec` = None <-> `inverse_rle_block` = None); and the block is classified
   zero / DC / first row / first column / full exactly by which cells of that matrix are non-zero (`classify`). *)
Theorem C02_block_placement : forall b q, 0 <= q -> Forall (fun t => 0 <= t_run t) (tcoefs b) ->
  match inverse_rle_block b q with
  | Some d =>
      exists m' f', shape8 m' /\ place_spec (tcoefs b) q (start_zz (intradc b)) (start_fun (intradc b)) = Some f' /\
                    (forall x y, 0 <= x < 8 -> 0 <= y < 8 -> mat_get m' x y = f' x y) /\ d = classify m'
  | None => place_spec (tcoefs b) q (start_zz (intradc b)) (start_fun (intradc b)) = None
  end.
Proof. exact inverse_rle_block_spec. Qed.

(* non-vacuity: INTRADC 100, then events (run 1, level 3) and (run 0, level -2) at quantizer 4: cells (0,0), (0,1), (0,2) *)
Example C02_block_placement_example :
  inverse_rle_block (mkBlock (Some 100) [mkTcoef true 1 3; mkTcoef true 0 (-2)]) 4
  = Some (DctVert [800; 27; -19; 0; 0; 0; 0; 0]).
Proof. vm_compute. reflexivity. Qed.

(* the code trees of the source decode exactly H.263 Table 7 (MCBPC for I pictures, with stuffing), Table 13 (CBPY) and
   Table 16 (TCOEF, 102 events and the escape code): every code word, wherever it starts and whatever follows, is read
   as its value and leaves exactly what follows; the trees hold no further valid code word *)
Theorem C02_code_tables :
  (forall code v rest pos, In (code, v) spec_mcbpc_i ->
     read_vlc mcbpc_i_table (mkReader (code ++ rest) pos) = Ok (v, mkReader rest (pos + Z.of_nat (length code)))) /\
  (forall code pat rest pos, In (code, pat) spec_cbpy ->
     read_vlc cbpy_table_intra (mkReader (code ++ rest) pos) = Ok (Some pat, mkReader rest (pos + Z.of_nat (length code)))) /\
  (forall code last run level rest pos, In (code, (last, run, level)) spec_tcoef ->
     read_vlc tcoef_table (mkReader (code ++ rest) pos) = Ok (Some (Run last run level), mkReader rest (pos + Z.of_nat (length code)))) /\
  (forall rest pos, read_vlc tcoef_table (mkReader (spec_tcoef_escape ++ rest) pos) = Ok (Some EscapeToLong, mkReader rest (pos + 7))) /\
  count_leaves bpe_valid mcbpc_i_table = length spec_mcbpc_i /\
  count_leaves (fun o : option (list bool) => match o with Some _ => true | None => false end) cbpy_table_intra = length spec_cbpy /\
  count_leaves (fun o : option short_tcoef => match o with Some _ => true | None => false end) tcoef_table = S (length spec_tcoef).
Proof.
  exact (conj mcbpc_i_is_table7 (conj cbpy_is_table13 (conj tcoef_is_table16 (conj tcoef_escape_code
         (conj (proj1 mcbpc_no_other_codes) (conj cbpy_no_other_codes tcoef_no_other_codes)))))).
Qed.

(* where the transform output goes, for every plane size (multiples of 8 or 16 or not), block grid and block list: sample (x, y)
   receives the transform value of block (x/8, y/8) at offset (x mod 8, y mod 8) added to what the plane held (zero for intra
   pictures, the prediction otherwise) and clipped to 0..255; blocks straddling the right or bottom edge are cropped; nothing
   else is touched - whatever the sparsity class, whose loops differ in order and extent *)
Theorem C02_transform_placement : forall w h levels out bpl bh,
  plane_ok w h out -> 1 <= w -> 1 <= h -> 1 <= bpl -> 0 <= bh -> zlength levels = bpl * bh ->
  exists out', idct_channel levels out bpl w = Ok out' /\ plane_ok w h out' /\
    forall x y, 0 <= x < w -> 0 <= y < h ->
      at_ out' x y = if (x / 8 <? bpl) && (y / 8 <? bh) then add_val (block_of levels bpl x y) (x mod 8) (y mod 8) (at_ out x y)
                     else at_ out x y.
Proof. exact idct_channel_spec. Qed.

(* THE PARSER ROUND TRIP.  `enc_fulls` encodes a list of macroblocks from their field values per H.263 5.3 / 5.4 (COD; MCBPC
   by Table 7 or 8; CBPY by Table 13, complemented for inter macroblocks; DQUANT; one or four vector differences by Table 14;
   six blocks of INTRADC and TCOEF events in the short form of Table 16 with its sign bit or in the escape forms of H.263 /
   Sorenson version 0 and of Sorenson version 1; stuffing; not-coded macroblocks).  For every such list that fills the picture
   exactly (`loop_ok`), in I, P and disposable pictures without the unrestricted-vector syntax, whatever follows the picture
   and wherever it starts: the decoder's macroblock loop over the encoded bits returns exactly what `pure_loop` computes from
   the field values alone - the coefficient blocks (dequantised and placed: C02_block_placement), the quantizer track and
   the vectors - and leaves exactly the bits that follow.  Every syntactically valid picture body is therefore accepted and no
   bit of it is misread. *)
Theorem C02_picture_body_roundtrip : forall o np running mpl total levw,
  let ipic := is_iframe (picture_type (d_header np)) in
  let v1 := sorenson o && (match version (d_header np) with Some 1 => true | _ => false end) in
  simple_picture (d_header np) running ->
  forall fms fuel st rest pos, Forall (wf_full ipic v1) fms -> loop_ok fms (zlength (l_types st)) total -> (length fms < fuel)%nat ->
  l_reader st = mkReader (enc_fulls ipic v1 fms ++ rest) pos ->
  exists pos', mb_loop fuel o np running mpl total levw st = rmap (pure_loop np running mpl levw fms st) (mkReader rest pos').
Proof. exact mb_loop_roundtrip. Qed.

(* its parts: one block, one macroblock header *)
Theorem C02_block_roundtrip : forall o pic running t b rest pos,
  let v1 := sorenson o && (match version pic with Some 1 => true | _ => false end) in
  wf_block v1 (mb_is_intra t) b ->
  exists pos',
    decode_block o pic running t (negb (match b_events b with [] => true | _ => false end)) (mkReader (enc_block v1 b ++ rest) pos)
    = Ok (mkBlock (b_dc b) (map ev_tcoef (b_events b)), mkReader rest pos').
Proof. exact block_roundtrip. Qed.
Theorem C02_macroblock_roundtrip : forall pic running m rest pos,
  simple_picture pic running -> wf_coded (is_iframe (picture_type pic)) m ->
  exists pos', decode_macroblock pic running (mkReader (enc_coded (is_iframe (picture_type pic)) m ++ rest) pos)
               = Ok (mb_of_spec m, mkReader rest pos').
Proof. exact coded_macroblock_roundtrip. Qed.

(* non-vacuity: an intra macroblock (MCBPC '1', CBPY '0011' = no luma coefficients coded... pattern 0000) with INTRADC only *)
Example C02_roundtrip_example :
  wf_coded true (mkMbSpec [true] Intra false false [false; false; true; true] [false; false; false; false] None None None) /\
  wf_block false true (mkBlockSpec (Some 100) []) /\
  wf_block false true (mkBlockSpec (Some 17) [EvShort [true; false] false 0 1 true; EvEscape true 5 (-100) false]).
Proof.
  split; [|split].
  - unfold wf_coded. cbn. repeat split; auto.
  - unfold wf_block. cbn. split; [exists 100; repeat split; lia|left; reflexivity].
  - unfold wf_block. cbn [mb_is_intra b_dc b_events]. split; [exists 17; repeat split; lia|right].
    cbn [wf_events wf_event ev_last esc_width]. repeat split; try lia; try reflexivity. vm_compute. tauto.
Qed.

(* THE COMPOSITION, from bits to samples, for an intra picture whose header has been parsed (C06 round trips) and whose body is
   the encoding of macroblocks given by field values: decoding succeeds, stops exactly behind the picture, the planes have
   exactly the signalled size (luma w x h, chroma ceil(w/2) x ceil(h/2)), and every sample is the transform value - rounded and
   clipped to 0..255 by `add_val` - of the coefficient block `pure_loop` computes for its 8x8 position (dequantised and placed
   in zig-zag order: C02_block_placement).  What `add_val` does with a block is the float transform of C10. *)
Theorem C02_intra_picture : forall o last reference running0 r0 hdr fmt w h fms rest pos st',
  let v1 := sorenson o && (match version hdr with Some 1 => true | _ => false end) in
  let running := (if has_plusptype hdr && has_opptype hdr then options hdr
                  else if has_plusptype hdr then Z.lor (Z.ldiff (options hdr) opptype_options) (Z.land running0 opptype_options)
                  else Z.lor (Z.ldiff (Z.ldiff (options hdr) opptype_options) mpptype_options) (Z.land running0 (Z.lor opptype_options mpptype_options))) in
  let mpl := (w + 15) / 16 in let mbh := (h + 15) / 16 in let levw := mpl * 16 in let levh := mbh * 16 in
  let np := mkDecoded hdr fmt (new_plane w h) (new_plane ((w + 1) / 2) ((h + 1) / 2)) (new_plane ((w + 1) / 2) ((h + 1) / 2)) ((w + 1) / 2) in
  let st0 := mkLoop (mkReader (enc_fulls true v1 fms ++ rest) pos) (quantizer hdr) [] []
                    (repeatZ DctZero (levw * levh / 64)) (repeatZ DctZero (levw * levh / 4 / 64)) (repeatZ DctZero (levw * levh / 4 / 64)) in
  decode_picture o (match last with Some p => Some (d_header p) | None => None end) r0 = Ok (Some hdr, mkReader (enc_fulls true v1 fms ++ rest) pos) ->
  picture_type hdr = IFrame -> format hdr = Some fmt -> into_width_and_height fmt = Some (w, h) -> 1 <= w -> 1 <= h ->
  simple_picture hdr running ->
  Forall (wf_full true v1) fms -> loop_ok fms 0 (mpl * mbh) ->
  pure_loop np running mpl levw fms st0 = Ok st' ->
  exists pic pos',
    reconstruct o last reference running0 r0 = Ok (pic, mkReader rest pos') /\
    d_header pic = hdr /\ plane_ok w h (d_luma pic) /\ plane_ok ((w + 1) / 2) ((h + 1) / 2) (d_cb pic) /\ plane_ok ((w + 1) / 2) ((h + 1) / 2) (d_cr pic) /\
    (forall x y, 0 <= x < w -> 0 <= y < h ->
       at_ (d_luma pic) x y = add_val (block_of (l_luma st') (mpl * 2) x y) (x mod 8) (y mod 8) 0) /\
    (forall x y, 0 <= x < (w + 1) / 2 -> 0 <= y < (h + 1) / 2 ->
       at_ (d_cb pic) x y = add_val (block_of (l_cb st') mpl x y) (x mod 8) (y mod 8) 0 /\
       at_ (d_cr pic) x y = add_val (block_of (l_cr st') mpl x y) (x mod 8) (y mod 8) 0).
Proof. exact reconstruct_intra. Qed.


(* from the bits of an intra picture to the ACCURACY of every sample (composition of C02_intra_picture, the loop invariant
   "every stored block is the classification of a placed, dequantised coefficient matrix" and the analytic float bound of
   C10): each sample is within 0.632 of clip_0..255 of the exact inverse DCT (ideal4 / 4) of the coefficient matrix `coef`
   of the block at its position, where coef is zero (nothing coded) or the zig-zag placement of the dequantised levels of
   a block of the body (coef_source).  An integer within 0.632 of a real differs from a nearest rounding of it by at most 1,
   and only where that real lies within 0.132 of a rounding boundary. *)
Theorem C02_intra_picture_accurate : forall o last reference running0 r0 hdr fmt w h fms rest pos st',
  let v1 := sorenson o && (match version hdr with Some 1 => true | _ => false end) in
  let running := (if has_plusptype hdr && has_opptype hdr then options hdr
                  else if has_plusptype hdr then Z.lor (Z.ldiff (options hdr) opptype_options) (Z.land running0 opptype_options)
                  else Z.lor (Z.ldiff (Z.ldiff (options hdr) opptype_options) mpptype_options) (Z.land running0 (Z.lor opptype_options mpptype_options))) in
  let mpl := (w + 15) / 16 in let mbh := (h + 15) / 16 in let levw := mpl * 16 in let levh := mbh * 16 in
  let np := mkDecoded hdr fmt (new_plane w h) (new_plane ((w + 1) / 2) ((h + 1) / 2)) (new_plane ((w + 1) / 2) ((h + 1) / 2)) ((w + 1) / 2) in
  let st0 := mkLoop (mkReader (enc_fulls true v1 fms ++ rest) pos) (quantizer hdr) [] []
                    (repeatZ DctZero (levw * levh / 64)) (repeatZ DctZero (levw * levh / 4 / 64)) (repeatZ DctZero (levw * levh / 4 / 64)) in
  decode_picture o (match last with Some p => Some (d_header p) | None => None end) r0 = Ok (Some hdr, mkReader (enc_fulls true v1 fms ++ rest) pos) ->
  picture_type hdr = IFrame -> format hdr = Some fmt -> into_width_and_height fmt = Some (w, h) -> 1 <= w -> 1 <= h ->
  simple_picture hdr running ->
  Forall (wf_full true v1) fms -> loop_ok fms 0 (mpl * mbh) ->
  pure_loop np running mpl levw fms st0 = Ok st' ->
  exists pic pos',
    reconstruct o last reference running0 r0 = Ok (pic, mkReader rest pos') /\
    (forall x y, 0 <= x < w -> 0 <= y < h ->
       exists coef, coef_source (block_of (l_luma st') (mpl * 2) x y) coef /\
         (Rabs (IZR (at_ (d_luma pic) x y)
                - Rclamp 0 255 (ideal4 (fun r f => coef (Z.of_nat f) (Z.of_nat r)) (Z.to_nat (x mod 8)) (Z.to_nat (y mod 8)) / 4)) <= 0.632)%R) /\
    (forall x y, 0 <= x < (w + 1) / 2 -> 0 <= y < (h + 1) / 2 ->
       (exists coef, coef_source (block_of (l_cb st') mpl x y) coef /\
         (Rabs (IZR (at_ (d_cb pic) x y)
                - Rclamp 0 255 (ideal4 (fun r f => coef (Z.of_nat f) (Z.of_nat r)) (Z.to_nat (x mod 8)) (Z.to_nat (y mod 8)) / 4)) <= 0.632)%R) /\
       (exists coef, coef_source (block_of (l_cr st') mpl x y) coef /\
         (Rabs (IZR (at_ (d_cr pic) x y)
                - Rclamp 0 255 (ideal4 (fun r f => coef (Z.of_nat f) (Z.of_nat r)) (Z.to_nat (x mod 8)) (Z.to_nat (y mod 8)) / 4)) <= 0.632)%R)).
Proof. exact reconstruct_intra_accurate. Qed.

Print Assumptions C02_dequant_exact.
Print Assumptions C02_intra_picture.
Print Assumptions C02_picture_body_roundtrip.
Print Assumptions C02_block_roundtrip.
Print Assumptions C02_macroblock_roundtrip.
Print Assumptions C02_transform_placement.
Print Assumptions C02_code_tables.
Print Assumptions C02_block_placement.
Print Assumptions C02_zigzag_is_antidiagonal_walk.
Print Assumptions C02_intradc_levels.
Print Assumptions C02_intra_picture_accurate.
