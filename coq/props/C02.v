(* C02 — Intra pictures reconstruct exactly as H.263 prescribes.
   Proved so far (the composition over whole pictures is tied by execution against the
   reference reconstruction, see DESIGN.md): *)
From H263V Require Import base.Prelude spec.SpecRecon model.Types model.Tables model.Syntax model.Recon model.Decoder proofs.ReconSpec proofs.RlePlacement model.Reader spec.SpecTables proofs.VlcTables model.F32 proofs.PlaneShape proofs.GatherSpec proofs.IdctPlacement.

(* every coefficient: sign(L) (Q (2|L|+1) - [Q even]) saturated to -2048..2047, for every quantizer and level *)
Theorem C02_dequant_exact : forall q level, 0 <= q -> dequant q level = spec_dequant q level.
Proof. exact dequant_is_spec. Qed.

(* the de-zig-zag table of the source is the anti-diagonal walk of H.263 figure 14 *)
Theorem C02_zigzag_is_antidiagonal_walk : dezigzag_mapping = zigzag_walk.
Proof. exact dezigzag_is_walk. Qed.

(* INTRADC: codes 0 and 128 are rejected, every other code c reconstructs to 8c, 255 to 1024 *)
Theorem C02_intradc_levels : forall c, 0 <= c <= 255 ->
  (intradc_from_u8 c = None <-> (c = 0 \/ c = 128)) /\
  (forall d, intradc_from_u8 c = Some d -> d = c /\ intradc_level d = if c =? 255 then 1024 else 8 * c).
Proof. exact intradc_spec. Qed.

(* run-length expansion of a whole block, for every sequence of (run, level) events, every quantizer and with or
   without INTRADC: the k-th event lands on the cell the zig-zag scan gives to position (previous position + run),
   carrying the dequantised level; every other cell keeps its value (zero, or the INTRADC level at (0,0)); a run past
   position 63 abandons the block (`place_spec` = None <-> `inverse_rle_block` = None); and the block is classified
   zero / DC / first row / first column / full exactly by which cells of that matrix are non-zero (`classify`). *)
Theorem C02_block_placement : forall b q, 0 <= q -> Forall (fun t => 0 <= t_run t) (tcoefs b) ->
  match inverse_rle_block b q with
  | Some d =>
      exists m' f', shape8 m' /\ place_spec (tcoefs b) q (start_zz (intradc b)) (start_fun (intradc b)) = Some f' /\
                    (forall x y, 0 <= x < 8 -> 0 <= y < 8 -> mat_get m' x y = f' x y) /\ d = classify m'
  | None => place_spec (tcoefs b) q (start_zz (intradc b)) (start_fun (intradc b)) = None
  end.
Proof. exact inverse_rle_block_spec. Qed.

(* non-vacuity: INTRADC 100, then events (run 1, level 3) and (run 0, level -2) at quantizer 4: cells (0,0), (0,1), (0,2) *)
Example C02_block_placement_example :
  inverse_rle_block (mkBlock (Some 100) [mkTcoef true 1 3; mkTcoef true 0 (-2)]) 4
  = Some (DctVert [800; 27; -19; 0; 0; 0; 0; 0]).
Proof. vm_compute. reflexivity. Qed.

(* the code trees of the source decode exactly H.263 Table 7 (MCBPC for I pictures, with stuffing), Table 13 (CBPY) and
   Table 16 (TCOEF, 102 events and the escape code): every code word, wherever it starts and whatever follows, is read
   as its value and leaves exactly what follows; the trees hold no further valid code word *)
Theorem C02_code_tables :
  (forall code v rest pos, In (code, v) spec_mcbpc_i ->
     read_vlc mcbpc_i_table (mkReader (code ++ rest) pos) = Ok (v, mkReader rest (pos + Z.of_nat (length code)))) /\
  (forall code pat rest pos, In (code, pat) spec_cbpy ->
     read_vlc cbpy_table_intra (mkReader (code ++ rest) pos) = Ok (Some pat, mkReader rest (pos + Z.of_nat (length code)))) /\
  (forall code last run level rest pos, In (code, (last, run, level)) spec_tcoef ->
     read_vlc tcoef_table (mkReader (code ++ rest) pos) = Ok (Some (Run last run level), mkReader rest (pos + Z.of_nat (length code)))) /\
  (forall rest pos, read_vlc tcoef_table (mkReader (spec_tcoef_escape ++ rest) pos) = Ok (Some EscapeToLong, mkReader rest (pos + 7))) /\
  count_leaves bpe_valid mcbpc_i_table = length spec_mcbpc_i /\
  count_leaves (fun o : option (list bool) => match o with Some _ => true | None => false end) cbpy_table_intra = length spec_cbpy /\
  count_leaves (fun o : option short_tcoef => match o with Some _ => true | None => false end) tcoef_table = S (length spec_tcoef).
Proof.
  exact (conj mcbpc_i_is_table7 (conj cbpy_is_table13 (conj tcoef_is_table16 (conj tcoef_escape_code
         (conj (proj1 mcbpc_no_other_codes) (conj cbpy_no_other_codes tcoef_no_other_codes)))))).
Qed.

(* where the transform output goes, for every plane size (multiples of 8 or 16 or not), block grid and block list: sample (x, y)
   receives the transform value of block (x/8, y/8) at offset (x mod 8, y mod 8) added to what the plane held (zero for intra
   pictures, the prediction otherwise) and clipped to 0..255; blocks straddling the right or bottom edge are cropped; nothing
   else is touched - whatever the sparsity class, whose loops differ in order and extent *)
Theorem C02_transform_placement : forall w h levels out bpl bh,
  plane_ok w h out -> 1 <= w -> 1 <= h -> 1 <= bpl -> 0 <= bh -> zlength levels = bpl * bh ->
  exists out', idct_channel levels out bpl w = Ok out' /\ plane_ok w h out' /\
    forall x y, 0 <= x < w -> 0 <= y < h ->
      at_ out' x y = if (x / 8 <? bpl) && (y / 8 <? bh) then add_val (block_of levels bpl x y) (x mod 8) (y mod 8) (at_ out x y)
                     else at_ out x y.
Proof. exact idct_channel_spec. Qed.

Print Assumptions C02_dequant_exact.
Print Assumptions C02_transform_placement.
Print Assumptions C02_code_tables.
Print Assumptions C02_block_placement.
Print Assumptions C02_zigzag_is_antidiagonal_walk.
Print Assumptions C02_intradc_levels.
