(* C02 — Intra pictures reconstruct exactly as H.263 prescribes.
   Proved so far (the composition over whole pictures is tied by execution against the
   reference reconstruction, see DESIGN.md): *)
From H263V Require Import base.Prelude spec.SpecRecon model.Types model.Tables model.Syntax model.Recon model.Decoder proofs.ReconSpec proofs.RlePlacement.

(* every coefficient: sign(L) (Q (2|L|+1) - [Q even]) saturated to -2048..2047, for every quantizer and level *)
Theorem C02_dequant_exact : forall q level, 0 <= q -> dequant q level = spec_dequant q level.
Proof. exact dequant_is_spec. Qed.

(* the de-zig-zag table of the source is the anti-diagonal walk of H.263 figure 14 *)
Theorem C02_zigzag_is_antidiagonal_walk : dezigzag_mapping = zigzag_walk.
Proof. exact dezigzag_is_walk. Qed.

(* INTRADC: codes 0 and 128 are rejected, every other code c reconstructs to 8c, 255 to 1024 *)
Theorem C02_intradc_levels : forall c, 0 <= c <= 255 ->
  (intradc_from_u8 c = None <-> (c = 0 \/ c = 128)) /\
  (forall d, intradc_from_u8 c = Some d -> d = c /\ intradc_level d = if c =? 255 then 1024 else 8 * c).
Proof. exact intradc_spec. Qed.

(* run-length expansion of a whole block, for every sequence of (run, level) events, every quantizer and with or
   without INTRADC: the k-th event lands on the cell the zig-zag scan gives to position (previous position + run),
   carrying the dequantised level; every other cell keeps its value (zero, or the INTRADC level at (0,0)); a run past
   position 63 abandons the block (`place_spec` = None <-> `inverse_rle_block` = None); and the block is classified
   zero / DC / first row / first column / full exactly by which cells of that matrix are non-zero (`classify`). *)
Theorem C02_block_placement : forall b q, 0 <= q -> Forall (fun t => 0 <= t_run t) (tcoefs b) ->
  match inverse_rle_block b q with
  | Some d =>
      exists m' f', shape8 m' /\ place_spec (tcoefs b) q (start_zz (intradc b)) (start_fun (intradc b)) = Some f' /\
                    (forall x y, 0 <= x < 8 -> 0 <= y < 8 -> mat_get m' x y = f' x y) /\ d = classify m'
  | None => place_spec (tcoefs b) q (start_zz (intradc b)) (start_fun (intradc b)) = None
  end.
Proof. exact inverse_rle_block_spec. Qed.

(* non-vacuity: INTRADC 100, then events (run 1, level 3) and (run 0, level -2) at quantizer 4: cells (0,0), (0,1), (0,2) *)
Example C02_block_placement_example :
  inverse_rle_block (mkBlock (Some 100) [mkTcoef true 1 3; mkTcoef true 0 (-2)]) 4
  = Some (DctVert [800; 27; -19; 0; 0; 0; 0; 0]).
Proof. vm_compute. reflexivity. Qed.

Print Assumptions C02_dequant_exact.
Print Assumptions C02_block_placement.
Print Assumptions C02_zigzag_is_antidiagonal_walk.
Print Assumptions C02_intradc_levels.
