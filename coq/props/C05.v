(* C05 — A failed decode changes nothing and can be retried.
   In the model a decode call is a function of (state, unread bits): `Err` carries neither a state nor a
   reader, which is how the model renders with_transaction's rollback and the fact that every state write
   of decode_next_picture follows its last fallible step.  The statements below are therefore direct; that
   the code really behaves like this function is what the failed-decode correspondence suite checks
   (state and position after every kind of failure, twin decoder, two-piece delivery at every split), and
   the rollback itself is the subject of C14. *)
From H263V Require Import base.Prelude model.Types model.Reader model.Header model.Syntax model.Recon model.Decoder
  proofs.StateRefine proofs.Atomic.

Theorem C05_error_changes_nothing : forall s r s' r' e, call s r = (s', r', Err e) -> s' = s /\ r' = r.
Proof. exact error_changes_nothing. Qed.

Theorem C05_failed_call_is_invisible : forall s rbad e r,
  (exists s1 r1, call s rbad = (s1, r1, Err e)) ->
  forall s1 r1, call s rbad = (s1, r1, Err e) -> call s1 r = call s r.
Proof. exact failed_call_is_invisible. Qed.

Theorem C05_more_data_same_result : forall s r e more,
  (exists s1 r1, call s r = (s1, r1, Err e)) ->
  forall s1 r1, call s r = (s1, r1, Err e) -> call s1 (grow r1 more) = call s (grow r more).
Proof. exact more_data_same_result. Qed.

Print Assumptions C05_error_changes_nothing.
Print Assumptions C05_failed_call_is_invisible.
Print Assumptions C05_more_data_same_result.
