(* C08 — RGBA output pairs every luma sample with its 4:2:0 chroma sample, at any size. *)
From H263V Require Import base.Prelude model.Yuv proofs.YuvLayout.

(* For every width and height >= 1 and planes of the documented sizes the model of
   yuv420_to_rgba (row loop, whole 4-pixel groups, remainder-columns path) returns
   exactly the row-major image whose pixel (x, y) converts Y[x + y w] with
   Cb, Cr at [x/2 + (y/2) ceil(w/2)]. *)
Theorem C08_layout : forall ys cbs crs w h,
  1 <= w -> 1 <= h ->
  zlength ys = w * h ->
  zlength cbs = ((w + 1) / 2) * ((h + 1) / 2) ->
  zlength crs = ((w + 1) / 2) * ((h + 1) / 2) ->
  yuv420_to_rgba ys cbs crs w = Ok (rgba_spec_flat ys cbs crs w h).
Proof. exact yuv420_layout. Qed.

(* ... which has 4 w h bytes, pixel (x, y) at byte offset 4 (x + y w) *)
Theorem C08_length : forall ys cbs crs w h, 0 <= w -> 0 <= h ->
  zlength (rgba_spec_flat ys cbs crs w h) = 4 * w * h.
Proof. exact rgba_spec_flat_length. Qed.

Theorem C08_pixel : forall ys cbs crs w h x y c,
  0 <= x < w -> 0 <= y < h -> 0 <= c < 4 ->
  nth (Z.to_nat (4 * (x + y * w) + c)) (rgba_spec_flat ys cbs crs w h) 0 =
  let '(r, g, b, a) := rgba_spec ys cbs crs w x y in nth (Z.to_nat c) [r; g; b; a] 0.
Proof. exact rgba_spec_flat_pixel. Qed.

(* the empty picture *)
Theorem C08_empty : yuv420_to_rgba [] [] [] 0 = Ok [].
Proof. exact (eq_refl (Ok (@nil Z))). Qed.

(* non-vacuity: a 3x3 picture (odd sizes, remainder path only) *)
Example C08_3x3 :
  yuv420_to_rgba [16;16;16; 235;235;235; 16;235;16] [128;128;128;128] [128;128;128;128] 3
  = Ok (rgba_spec_flat [16;16;16; 235;235;235; 16;235;16] [128;128;128;128] [128;128;128;128] 3 3).
Proof. vm_compute. reflexivity. Qed.

Check C08_layout : forall ys cbs crs w h,
  1 <= w -> 1 <= h ->
  zlength ys = w * h ->
  zlength cbs = ((w + 1) / 2) * ((h + 1) / 2) ->
  zlength crs = ((w + 1) / 2) * ((h + 1) / 2) ->
  yuv420_to_rgba ys cbs crs w = Ok (rgba_spec_flat ys cbs crs w h).
Print Assumptions C08_layout.
Print Assumptions C08_length.
Print Assumptions C08_pixel.
Print Assumptions C08_empty.
