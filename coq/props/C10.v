(* C10 — The inverse DCT meets the H.263 Annex A accuracy requirements.
   The statistical statement over the 60 000 Annex A blocks is evaluated on the extracted model (= the
   implementation, block by block) by the check; in the kernel: all DC-only blocks, the basis table, the zero
   block and a 60-block sample of the Annex A runs; and, for EVERY 8x8 block with coefficients in -2048..2048 and every
   position, the analytic peak-error bound against the exact real-number transform (IdctAccuracy.v). *)
From Coq Require Import Reals.
From H263V Require Import base.Prelude model.Types model.Tables model.F32 model.Recon
  proofs.IdctFacts proofs.BasisTable proofs.AnnexASample proofs.IdctAccuracy proofs.RlePlacement proofs.IdctClassified.
From H263V Require Import model.Syntax.
Local Open Scope Z_scope.

(* every DC-only block (all 4096 coefficient values): the shortcut adds dc/8 rounded half away from zero ... *)
Theorem C10_dc_blocks_exact : forall dc xo yo, -2048 <= dc <= 2047 ->
  idct_value_at (idct_values (DctDc dc)) xo yo = dc_spec dc /\
  Z.abs (dc_spec dc - clamp (-256) 255 ((dc + 4) / 8)) <= 1.    (* ... within 1 of round-to-nearest *)
Proof. intros dc xo yo H. split; [apply dc_exact; exact H|apply dc_spec_close; exact H]. Qed.

(* each of the 64 table entries is within 1/900000 of C(f) cos((2i+1) f pi/16) *)
Theorem C10_basis_table : forall f i : nat, (f < 8)%nat -> (i < 8)%nat ->
  (Rabs (entry_real (basis_entry f i) - ideal_basis (Z.of_nat f) (Z.of_nat i)) <= 1 / 900000)%R.
Proof. exact basis_table_accurate. Qed.

Theorem C10_zero_block : idct_all_values zero_mat = repeat 0 64%nat.
Proof. exact zero_block. Qed.

(* ten blocks of each of the six Annex A runs, evaluated by the kernel: peak error <= 1 against the
   double-precision reference values *)
Theorem C10_annexA_sample_in_kernel :
  length sample_blocks = 60%nat /\ all_within1 sample_blocks sample_reference = true.
Proof. exact annexA_sample_ok. Qed.

(* The exact transform: ideal4 F x y = sum_v (sum_u F[v][u] C(u) cos((2x+1) u pi/16)) C(v) cos((2y+1) v pi/16), four times the
   inverse DCT of H.263 6.2.4 (C(0) = 1/sqrt 2, C(k) = 1); Rclamp lo hi t = min hi (max lo t).
   For every block (all 4097^64 of them) and every position the binary32 two-pass transform, its division by four, the
   half-away-from-zero rounding and the clip stay within 0.632 of the exact clipped value ... *)
Theorem C10_full_blocks_accurate : forall rows xo yo,
  length rows = 8%nat -> (forall r f, (r < 8)%nat -> (f < 8)%nat -> Z.abs (nth f (nth r rows []) 0) <= 2048) ->
  (xo < 8)%nat -> (yo < 8)%nat ->
  (Rabs (IZR (idct_value_at (idct_values (DctFull rows)) (Z.of_nat xo) (Z.of_nat yo))
         - Rclamp (-256) 255 (ideal4 (fun r f => nth f (nth r rows []) 0%Z) xo yo / 4)) <= 0.632)%R.
Proof. exact full_block_accurate. Qed.

(* ... hence within 1 of the reference however the reference rounds to a nearest integer: Annex A's peak-error
   requirement for every block *)
Theorem C10_full_blocks_peak_error : forall rows xo yo (k : Z),
  length rows = 8%nat -> (forall r f, (r < 8)%nat -> (f < 8)%nat -> Z.abs (nth f (nth r rows []) 0) <= 2048) ->
  (xo < 8)%nat -> (yo < 8)%nat ->
  (Rabs (IZR k - ideal4 (fun r f => nth f (nth r rows []) 0%Z) xo yo / 4) <= 1 / 2)%R ->
  Z.abs (idct_value_at (idct_values (DctFull rows)) (Z.of_nat xo) (Z.of_nat yo) - clamp (-256) 255 k) <= 1.
Proof. exact full_block_within_1. Qed.

(* the sparse-block shortcuts: a block whose non-zero coefficients all lie in its first row (first column) is
   transformed by one pass and a multiplication by the table's C(0); for every such block and position the result is
   within 0.517 of the exact clipped transform of that block *)
Theorem C10_first_row_blocks_accurate : forall row xo yo (j : nat),
  (forall f, (f < 8)%nat -> Z.abs (nth f row 0) <= 2048) -> (xo < 8)%nat ->
  (Rabs (IZR (idct_value_at (idct_values (DctHoriz row)) (Z.of_nat xo) yo)
         - Rclamp (-256) 255 (ideal4 (fun r f => if Nat.eqb r 0 then nth f row 0%Z else 0%Z) xo j / 4)) <= 0.517)%R.
Proof. exact first_row_block_accurate. Qed.

Theorem C10_first_column_blocks_accurate : forall col xo yo (c : nat),
  (forall f, (f < 8)%nat -> Z.abs (nth f col 0) <= 2048) -> (yo < 8)%nat ->
  (Rabs (IZR (idct_value_at (idct_values (DctVert col)) xo (Z.of_nat yo))
         - Rclamp (-256) 255 (ideal4 (fun r f => if Nat.eqb f 0 then nth r col 0%Z else 0%Z) c yo / 4)) <= 0.517)%R.
Proof. exact first_column_block_accurate. Qed.

(* whatever sparsity class `classify` picks for a coefficient matrix (zero, DC only, first row, first column, full), the
   value added at every position is within 0.632 of the exact clipped transform OF THAT MATRIX, hence within 1 of any
   nearest rounding: choosing a shortcut never costs accuracy *)
Theorem C10_classified_blocks_peak_error : forall m xo yo (k : Z),
  length m = 8%nat -> (forall x y, 0 <= x < 8 -> 0 <= y < 8 -> -2048 <= mat_get m x y <= 2047) ->
  (xo < 8)%nat -> (yo < 8)%nat ->
  (Rabs (IZR k - ideal4 (fun r f => nth f (nth r m []) 0%Z) xo yo / 4) <= 1 / 2)%R ->
  Z.abs (idct_value_at (idct_values (classify m)) (Z.of_nat xo) (Z.of_nat yo) - clamp (-256) 255 k) <= 1.
Proof. exact classified_block_within_1. Qed.

(* from a parsed block (INTRADC code, coefficient events) to what is added to the picture: the coefficient matrix is the
   zig-zag placement of the dequantised levels (place_spec, C02/C11) and the added value is within 0.632 of its exact
   clipped transform *)
Theorem C10_decoded_block_accurate : forall b q d (xo yo : nat),
  0 <= q -> Forall (fun t => 0 <= t_run t) (tcoefs b) -> (match intradc b with Some c => 0 <= c <= 255 | None => True end) ->
  inverse_rle_block b q = Some d -> (xo < 8)%nat -> (yo < 8)%nat ->
  exists coef, place_spec (tcoefs b) q (start_zz (intradc b)) (start_fun (intradc b)) = Some coef /\
    (Rabs (IZR (idct_value_at (idct_values d) (Z.of_nat xo) (Z.of_nat yo))
           - Rclamp (-256) 255 (ideal4 (fun r f => coef (Z.of_nat f) (Z.of_nat r)) xo yo / 4)) <= 0.632)%R.
Proof. exact decoded_block_accurate. Qed.

Print Assumptions C10_dc_blocks_exact.
Print Assumptions C10_basis_table.
Print Assumptions C10_zero_block.
Print Assumptions C10_annexA_sample_in_kernel.
Print Assumptions C10_full_blocks_accurate.
Print Assumptions C10_full_blocks_peak_error.
Print Assumptions C10_first_row_blocks_accurate.
Print Assumptions C10_first_column_blocks_accurate.
Print Assumptions C10_classified_blocks_peak_error.
Print Assumptions C10_decoded_block_accurate.
