(* C10 — The inverse DCT meets the H.263 Annex A accuracy requirements.
   The statistical statement over the 60 000 Annex A blocks is evaluated on the extracted model (= the
   implementation, block by block) by the check; in the kernel: all DC-only blocks, the basis table, the zero
   block and a 60-block sample of the Annex A runs.  The analytic bound for all blocks is not yet proved. *)
From Coq Require Import Reals.
From H263V Require Import base.Prelude model.Types model.Tables model.F32 model.Recon
  proofs.IdctFacts proofs.BasisTable proofs.AnnexASample.
Local Open Scope Z_scope.

(* every DC-only block (all 4096 coefficient values): the shortcut adds dc/8 rounded half away from zero ... *)
Theorem C10_dc_blocks_exact : forall dc xo yo, -2048 <= dc <= 2047 ->
  idct_value_at (idct_values (DctDc dc)) xo yo = dc_spec dc /\
  Z.abs (dc_spec dc - clamp (-256) 255 ((dc + 4) / 8)) <= 1.    (* ... within 1 of round-to-nearest *)
Proof. intros dc xo yo H. split; [apply dc_exact; exact H|apply dc_spec_close; exact H]. Qed.

(* each of the 64 table entries is within 1/900000 of C(f) cos((2i+1) f pi/16) *)
Theorem C10_basis_table : forall f i : nat, (f < 8)%nat -> (i < 8)%nat ->
  (Rabs (entry_real (basis_entry f i) - ideal_basis (Z.of_nat f) (Z.of_nat i)) <= 1 / 900000)%R.
Proof. exact basis_table_accurate. Qed.

Theorem C10_zero_block : idct_all_values zero_mat = repeat 0 64%nat.
Proof. exact zero_block. Qed.

(* ten blocks of each of the six Annex A runs, evaluated by the kernel: peak error <= 1 against the
   double-precision reference values *)
Theorem C10_annexA_sample_in_kernel :
  length sample_blocks = 60%nat /\ all_within1 sample_blocks sample_reference = true.
Proof. exact annexA_sample_ok. Qed.

Print Assumptions C10_dc_blocks_exact.
Print Assumptions C10_basis_table.
Print Assumptions C10_zero_block.
Print Assumptions C10_annexA_sample_in_kernel.
