(* C14 — The bit reader delivers each bit once, in order, under any mix of operations.
   Proved so far, on the abstract reader every parser is written against: *)
From H263V Require Import base.Prelude model.Types model.Reader proofs.ReaderLemmas proofs.LoopBound.

(* a fixed-length read returns the next n bits most-significant first: value in 0..2^n-1 ... *)
Theorem C14_fixed_read_msb_first : forall w n r v r', 0 <= n -> read_bits w n r = Ok (v, r') -> 0 <= v < 2 ^ n.
Proof. exact read_bits_range. Qed.

(* ... and consumes exactly n bits *)
Theorem C14_read_consumes_exactly : forall w n r v r', 0 <= n -> read_bits w n r = Ok (v, r') ->
  length (rbits r) = (Z.to_nat n + length (rbits r'))%nat /\ rpos r' = rpos r + n.
Proof. exact read_bits_consumes. Qed.

(* start-code recognition never looks more than realignment + 1 <= 8 bits ahead *)
Theorem C14_start_code_window : forall r k,
  recognize_start_code false r = Ok (Some k) -> 0 <= k <= realignment_bits r + 1 /\ k <= 8.
Proof. exact recognize_start_code_window. Qed.

Print Assumptions C14_fixed_read_msb_first.
Print Assumptions C14_read_consumes_exactly.
Print Assumptions C14_start_code_window.
