(* C14 — The bit reader delivers each bit once, in order, under any mix of operations. *)
From H263V Require Import base.Prelude model.Types model.Reader model.ReaderConcrete spec.SpecHeader
  proofs.ReaderLemmas proofs.LoopBound proofs.HeaderRoundTrip proofs.ReaderRefine.

(* THE PROPERTY, for every mix of operations: `run_ops` interprets a tree of reader operations (peeks, reads, signed
   reads, skips, bytes, VLC reads, UMV reads, start-code probes, commits, source growth, transactions that succeed
   or fail, transaction unions, look-aheads, nested to any depth) on the CONCRETE machine of reader.rs (source,
   retained byte buffer, bit cursor, byte-wise refill, the width-typed accumulator loop, checkpoints and rollback);
   `run_ops_a` interprets the same tree on a plain list of unread bits, where a peek, a look-ahead, a failed read and
   a failed transaction leave the list as it was BY CONSTRUCTION and a successful read removes exactly its bits
   from the front.  From any byte string and for every tree (widths >= 0; commits and growth between, not inside,
   transactions - a checkpoint is an offset into the buffer that commit truncates) both produce the same values,
   the same errors, the same final result, and the concrete state's unread bits are the abstract list. *)
Theorem C14_concrete_refines_bit_list : forall bytes ops fuel,
  Forall isbyte bytes -> forallb wf_op ops = true ->
  let c := run_ops fuel false ops (from_source bytes) in
  let a := run_ops_a fuel false ops (reader_of_bytes bytes) in
  snd (fst c) = snd (fst a) /\ snd c = snd a /\ abs_reader (fst (fst c)) = fst (fst a).
Proof. exact reader_refines. Qed.

(* ... and from any reachable concrete state, not only a fresh one *)
Theorem C14_refines_from_any_state : forall fuel strict ops r, cinv r -> forallb wf_op ops = true ->
  rel r (forallb pure_op ops) (run_ops fuel strict ops r) (run_ops_a fuel strict ops (abs_reader r)).
Proof. exact run_ops_refines. Qed.

(* most-significant bit first: reading n bits where the n-bit big-endian code of v starts returns v and leaves
   exactly what follows *)
Theorem C14_msb_first : forall w n v rest pos, 0 <= n <= w -> 0 <= v < 2 ^ n ->
  read_bits w n (mkReader (bits_of (Z.to_nat n) v ++ rest) pos) = Ok (v, mkReader rest (pos + n)).
Proof. exact read_bits_of. Qed.

(* signed reads are two's-complement: an n-bit field with its top bit set reads as value - 2^n *)
Theorem C14_signed_is_twos_complement : forall w n r v, 0 < n ->
  peek_signed_bits w n r = Ok v ->
  exists u, peek_bits w n r = Ok u /\ v = (if Z.testbit u (n - 1) then u - 2 ^ n else u).
Proof.
  intros w n r v Hn H. unfold peek_signed_bits in H. destruct (peek_bits w n r) as [u|e|p|]; cbn [bind] in H; try discriminate.
  destruct (n =? 0) eqn:E; [lia|]. exists u. split; [reflexivity|]. destruct (Z.testbit u (n - 1)); inversion H; reflexivity.
Qed.

(* non-vacuity: a tree with a failed transaction, a look-ahead, a signed read and a commit, evaluated on both machines *)
Example C14_refinement_example :
  let ops := [ORead U8 3; OTx [ORead U16 9; OSkip 40] false; OLookahead [OReadS I16 5]; OReadS I16 5; OCommit; OStartCode false; OU8] in
  forallb wf_op ops = true /\
  snd (fst (run_ops 50 false ops (from_source [181; 0; 0; 128; 7]))) =
    [TVal 5; TVal 336; TErr EEof; TClose 0 (Err EEof); TVal (-11); TClose 2 (Ok (Some tt)); TVal (-11); TUnit; TSome 0; TVal 0].
Proof. cbv zeta. split; vm_compute; reflexivity. Qed.

(* Also, on the abstract reader every parser is written against: *)

(* a fixed-length read returns the next n bits most-significant first: value in 0..2^n-1 ... *)
Theorem C14_fixed_read_msb_first : forall w n r v r', 0 <= n -> read_bits w n r = Ok (v, r') -> 0 <= v < 2 ^ n.
Proof. exact read_bits_range. Qed.

(* ... and consumes exactly n bits *)
Theorem C14_read_consumes_exactly : forall w n r v r', 0 <= n -> read_bits w n r = Ok (v, r') ->
  length (rbits r) = (Z.to_nat n + length (rbits r'))%nat /\ rpos r' = rpos r + n.
Proof. exact read_bits_consumes. Qed.

(* start-code recognition never looks more than realignment + 1 <= 8 bits ahead *)
Theorem C14_start_code_window : forall r k,
  recognize_start_code false r = Ok (Some k) -> 0 <= k <= realignment_bits r + 1 /\ k <= 8.
Proof. exact recognize_start_code_window. Qed.

Print Assumptions C14_concrete_refines_bit_list.
Print Assumptions C14_refines_from_any_state.
Print Assumptions C14_msb_first.
Print Assumptions C14_signed_is_twos_complement.
Print Assumptions C14_fixed_read_msb_first.
Print Assumptions C14_read_consumes_exactly.
Print Assumptions C14_start_code_window.
