(* C01 — Decoding never crashes or hangs, whatever bytes and history it is given. *)
From H263V Require Import base.Prelude model.Types model.Tables model.Reader model.Header model.Syntax model.F32 model.Recon model.Decoder
  proofs.KernelRanges proofs.Total1 proofs.Total2 proofs.Total3 proofs.StateRefine gen.GenPLoop bridge.BridgePReach.

(* The model renders every Rust operation that can panic (overflow under overflow checks, slice and Vec
   indexing, division and remainder by zero, expect/unwrap/assert, unreachable!) as an operation that can
   return Panic, and every input-driven loop as recursion on fuel that returns OutOfFuel when exhausted.
   `safe r` says r is neither.  For EVERY decoder state satisfying the plane-size invariant and EVERY bit
   string, in all four option combinations (o is arbitrary in the state), a decode call is safe and
   re-establishes the invariant: *)
Theorem C01_decode_total : forall s r,
  st_inv s ->
  safe (decode_next_picture s r) /\ (forall s' r', decode_next_picture s r = Ok (s', r') -> st_inv s').
Proof. exact decode_total. Qed.

(* ... hence after ANY history of accepted pictures, rejected pictures and clean-ups on a new decoder: *)
Theorem C01_history_total : forall o ops r, safe (decode_next_picture (fold_left step ops (new_state o)) r).
Proof. exact history_total. Qed.

(* ... and the same for decode_next_picture AS REGENERATED FROM THE SOURCE on this run (gen/GenPLoop.v: the five statement
   ranges of the function translated by tools/rs2v_parser.py and composed by the generator; gq reads the quantizer of a
   GroupOfBlocks, which the translated decode_gob never builds): it is the model's function on every reachable state
   (bridge/BridgePReach.v), so it neither panics nor runs out of fuel either *)
Theorem C01_source_total : forall gq o ops r, safe (p_decode_next_picture gq (fold_left step ops (new_state o)) r).
Proof. exact source_history_total. Qed.
Theorem C01_source_is_model : forall gq o ops r,
  p_decode_next_picture gq (fold_left step ops (new_state o)) r = decode_next_picture (fold_left step ops (new_state o)) r.
Proof. exact bridge_p_decode_next_picture_reachable. Qed.
(* no loop spins without consuming input: every successfully parsed macroblock (stuffing and not-coded
   included) consumed at least one bit, so the macroblock loop's fuel (unread bits + 1) suffices *)
Theorem C01_macroblock_progress : forall pic running r mb r',
  decode_macroblock pic running r = Ok (mb, r') -> (rlen r' < rlen r)%nat.
Proof. exact decode_macroblock_progress. Qed.

(* arithmetic obligations *)
Theorem C01_kernels_safe :
  (forall q dq, 1 <= next_quant q dq <= 31) /\
  (forall q l, -2048 <= dequant q l <= 2047) /\
  (forall a b, -32768 <= hadd a b <= 32767).
Proof. exact (conj next_quant_range (conj dequant_range hadd_range)). Qed.

(* non-vacuity: the invariant holds of a new decoder *)
Example C01_new_state_inv : forall o, st_inv (new_state o).
Proof. exact st_inv_new. Qed.

Check C01_decode_total : forall s r,
  st_inv s ->
  safe (decode_next_picture s r) /\ (forall s' r', decode_next_picture s r = Ok (s', r') -> st_inv s').
Check C01_history_total : forall o ops r, safe (decode_next_picture (fold_left step ops (new_state o)) r).
Check C01_source_total : forall gq o ops r, safe (p_decode_next_picture gq (fold_left step ops (new_state o)) r).
Print Assumptions C01_decode_total.
Print Assumptions C01_history_total.
Print Assumptions C01_source_total.
Print Assumptions C01_source_is_model.
Print Assumptions C01_macroblock_progress.
Print Assumptions C01_kernels_safe.
