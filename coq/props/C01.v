(* C01 — Decoding never crashes or hangs, whatever bytes and history it is given. *)
From H263V Require Import base.Prelude model.Types model.Tables model.Reader model.Header model.Syntax model.F32 model.Recon model.Decoder
  proofs.KernelRanges.

(* arithmetic obligations: the quantizer stays in 1..31, dequantised coefficients in -2048..2047,
   vector sums saturate inside i16 -- for all inputs *)
Theorem C01_kernels_safe :
  (forall q dq, 1 <= next_quant q dq <= 31) /\
  (forall q l, -2048 <= dequant q l <= 2047) /\
  (forall a b, -32768 <= hadd a b <= 32767).
Proof. exact (conj next_quant_range (conj dequant_range hadd_range)). Qed.

Print Assumptions C01_kernels_safe.
