(* C17 — Decoding is deterministic and decoder instances are independent.  PARTIAL: a Gallina function
   cannot exhibit a data race or a scheduler effect; proved are independence in the model and the absence
   of the syntactic sources of hidden shared state in the three crates. *)
From Coq Require Import String.
From H263V Require Import base.Prelude model.Types model.Reader model.Header model.Syntax model.Recon model.Decoder
  proofs.StateRefine proofs.Atomic proofs.Independence gen.GenInventory bridge.BridgeInventory.

(* a call's outcome is a function of the decoder state and the reader alone *)
Theorem C17_call_is_a_function : forall s1 s2 r1 r2, s1 = s2 -> r1 = r2 -> call s1 r1 = call s2 r2.
Proof. intros s1 s2 r1 r2 -> ->. reflexivity. Qed.

(* any interleaving of operations on distinct instances leaves each instance where its own operations,
   run alone and in order, leave it *)
Theorem C17_interleaving_independent : forall sched sys i d,
  (i < length sys)%nat ->
  nth i (fold_left sys_step sched sys) d = fold_left step (own i sched) (nth i sys d).
Proof. exact interleaving_independent. Qed.

(* the only process-wide items of the three crates are three immutable lazy_static option masks; there is
   no static mut, plain static, thread_local, unsafe, interior mutability, clock/env/random source, and
   the picture map is never iterated *)
Theorem C17_shared_state_inventory :
  lazy_static_items = expected_lazy_statics /\
  Forall (fun kv : string * Z => snd kv = 0%Z) forbidden_construct_counts.
Proof. exact bridge_inventory. Qed.

Print Assumptions C17_call_is_a_function.
Print Assumptions C17_interleaving_independent.
Print Assumptions C17_shared_state_inventory.
