(* C11 — Dequantisation is exact and saturating over the whole quantizer x level domain. *)
From H263V Require Import base.Prelude spec.SpecRecon model.Types model.Tables model.Reader model.Syntax model.Recon model.Decoder
  proofs.ReconSpec proofs.ReaderLemmas.

(* for every quantizer and every level: sign(L) (Q (2|L|+1) - [Q even]) saturated to -2048..2047 *)
Theorem C11_dequant_exact : forall q level, 0 <= q -> dequant q level = spec_dequant q level.
Proof. exact dequant_is_spec. Qed.

Theorem C11_dequant_explicit : forall q level, 1 <= q <= 31 -> level <> 0 ->
  dequant q level =
  let v := q * (2 * Z.abs level + 1) - (if Z.even q then 1 else 0) in
  if 0 <? level then Z.min 2047 v else Z.max (-2048) (- v).
Proof. exact dequant_explicit. Qed.

(* every zig-zag position: the table is the anti-diagonal walk *)
Theorem C11_placement_order : dezigzag_mapping = zigzag_walk.
Proof. exact dezigzag_is_walk. Qed.

(* INTRADC codes *)
Theorem C11_intradc : forall c, 0 <= c <= 255 ->
  (intradc_from_u8 c = None <-> (c = 0 \/ c = 128)) /\
  (forall d, intradc_from_u8 c = Some d -> d = c /\ intradc_level d = if c =? 255 then 1024 else 8 * c).
Proof. exact intradc_spec. Qed.

(* quantizer after DQUANT -2, -1, +1, +2: clamped to 1..31; the four DQUANT codes *)
Theorem C11_quantizer_update : forall q d, 0 <= q <= 31 -> (d = -2 \/ d = -1 \/ d = 1 \/ d = 2) ->
  next_quant q (Some d) = spec_next_quant q d.
Proof. exact next_quant_spec. Qed.
Theorem C11_dquant_codes : dquant_arms = [-1; -2; 1; 2].
Proof. exact dquant_arms_spec. Qed.

Print Assumptions C11_dequant_exact.
Print Assumptions C11_dequant_explicit.
Print Assumptions C11_placement_order.
Print Assumptions C11_intradc.
Print Assumptions C11_quantizer_update.
Print Assumptions C11_dquant_codes.
