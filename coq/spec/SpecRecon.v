(* Executable spec-side definitions of coefficient and vector reconstruction, written from the
   H.263 text (6.1.1, 6.1.2, 6.2.1, figure 14) independently of the code's structure.  Extracted:
   the kernel sweeps compare the implementation with tables computed from these. *)
From H263V Require Import base.Prelude.

(* 6.2.1: |REC| = QUANT (2 |LEVEL| + 1), minus 1 if QUANT is even; sign of LEVEL; clipped to -2048..2047 *)
Definition spec_dequant (q level : Z) : Z :=
  let mag := q * (2 * Z.abs level + 1) - (if Z.even q then 1 else 0) in
  clamp (-2048) 2047 (Z.sgn level * mag).

(* INTRADC (Table 15): 0 and 128 are not codes; 255 -> 1024; otherwise 8 c *)
Definition spec_intradc (c : Z) : option Z :=
  if (c =? 0) || (c =? 128) then None else Some (if c =? 255 then 1024 else 8 * c).

(* the zig-zag scan: anti-diagonals s = x + y = 0..14, odd diagonals from top right to bottom left *)
Definition diag_cells (s : Z) : list (Z * Z) :=
  let xs := filter (fun x => (0 <=? s - x) && (s - x <? 8)) (map Z.of_nat (seq 0 8)) in
  let cells := map (fun x => (x, s - x)) xs in
  if Z.odd s then rev cells else cells.
Definition zigzag_walk : list (Z * Z) := flat_map diag_cells (map Z.of_nat (seq 0 15)).

(* 6.1.1: vector = predictor + differential, brought back into -32..31 half samples by +-64 *)
Definition wrap_spec (p d : Z) : Z := (p + d + 32) mod 64 - 32.

(* 6.1.2 / Table 9: chroma component from the sum s of the four luma components (half-sample units):
   s / 8 in sample units = s / 16 in half... rounded to the nearest half-sample position by the table *)
Definition sixteenth (r : Z) : Z := if r <=? 2 then 0 else if r <=? 13 then 1 else 2.
Definition chroma_spec (s : Z) : Z := Z.sgn s * (2 * (Z.abs s / 16) + sixteenth (Z.abs s mod 16)).

(* half-sample split: integer part (floor) and whether a half-sample interpolation is needed *)
Definition lerp_spec (h : Z) : Z * bool := (h / 2, negb (h mod 2 =? 0)).

(* quantizer update *)
Definition spec_next_quant (q d : Z) : Z := Z.max 1 (Z.min 31 (q + d)).

(* 6.1.1 (with the four-vector extension of Annex F): the three candidate predictors of luma block `idx`
   (0..3) of the current macroblock, given the four vectors of the left, above and above-right macroblocks
   where those exist inside the picture (None: outside) and the vectors already decoded in the current one.
   Vectors of INTRA / not-coded neighbours are zero (they are stored as zero). *)
Definition vec := (Z * Z)%type.
Definition vec4 := (vec * vec * vec * vec)%type.
Definition v4 (v : vec4) (i : Z) : vec :=
  let '(a, b, c, d) := v in if i =? 0 then a else if i =? 1 then b else if i =? 2 then c else d.
Definition median3 (a b c : Z) : Z := Z.max (Z.min a b) (Z.min (Z.max a b) c).
Definition vmedian (a b c : vec) : vec := (median3 (fst a) (fst b) (fst c), median3 (snd a) (snd b) (snd c)).

Definition candidates_spec (left above above_right : option vec4) (is_last_column : bool) (cur : vec4) (idx : Z)
  : vec * vec * vec :=
  let zero : vec := (0, 0) in
  (* MV1: the block to the left *)
  let c1 := if (idx =? 0) || (idx =? 2)
            then match left with Some l => v4 l (idx + 1) | None => zero end
            else v4 cur (idx - 1) in
  (* MV2: the block above; outside the picture (first line): MV1 *)
  let c2 := if (idx =? 0) || (idx =? 1)
            then match above with Some a => v4 a (idx + 2) | None => c1 end
            else v4 cur 0 in
  (* MV3: the block above right; first line: MV1, but zero when outside at the right edge *)
  let c3 := if (idx =? 0) || (idx =? 1)
            then if is_last_column then zero
                 else match above_right with Some r => v4 r 2 | None => c1 end
            else v4 cur 1 in
  (c1, c2, c3).
Definition predictor_spec left above above_right is_last_column cur idx : vec :=
  let '(c1, c2, c3) := candidates_spec left above above_right is_last_column cur idx in vmedian c1 c2 c3.
