(* Encoders of picture headers, written from the syntax of the Sorenson header and of H.263 clause 5.1
   (fields in transmission order, most significant bit first), as functions from field values to bits.
   The round-trip theorems (proofs/HeaderRoundTrip.v) say the parser model returns exactly these values and
   consumes exactly these bits. *)
From H263V Require Import base.Prelude model.Types model.Reader model.Header.

(* the n-bit field holding v, most significant bit first *)
Fixpoint bits_of (n : nat) (v : Z) : list bool :=
  match n with
  | O => []
  | S n' => Z.testbit v (Z.of_nat n') :: bits_of n' v
  end.

Definition start_code : list bool := repeat false 16 ++ [true].

Fixpoint enc_pei (extra : list Z) : list bool :=
  match extra with
  | [] => [false]
  | b :: rest => true :: bits_of 8 b ++ enc_pei rest
  end.

(* ---------------- Sorenson Spark ---------------- *)
Inductive sor_size :=
| SzCustom8 (w h : Z) | SzCustom16 (w h : Z) | SzCif | SzQcif | SzSqcif | Sz320x240 | Sz160x120 | SzReserved.

Record sor_header := mkSor {
  s_version : Z; s_tr : Z; s_size : sor_size; s_type : Z; s_deblock : bool; s_quant : Z; s_extra : list Z }.

Definition enc_sor_size (s : sor_size) : list bool :=
  match s with
  | SzCustom8 w h => bits_of 3 0 ++ bits_of 8 w ++ bits_of 8 h
  | SzCustom16 w h => bits_of 3 1 ++ bits_of 16 w ++ bits_of 16 h
  | SzCif => bits_of 3 2 | SzQcif => bits_of 3 3 | SzSqcif => bits_of 3 4
  | Sz320x240 => bits_of 3 5 | Sz160x120 => bits_of 3 6 | SzReserved => bits_of 3 7
  end.

Definition enc_sorenson (h : sor_header) : list bool :=
  start_code ++ bits_of 5 (s_version h) ++ bits_of 8 (s_tr h) ++ enc_sor_size (s_size h)
  ++ bits_of 2 (s_type h) ++ [s_deblock h] ++ bits_of 5 (s_quant h) ++ enc_pei (s_extra h).

Definition byte_ok (b : Z) : Prop := 0 <= b < 256.
Definition wf_sor_size (s : sor_size) : Prop :=
  match s with
  | SzCustom8 w h => 0 <= w < 256 /\ 0 <= h < 256
  | SzCustom16 w h => 0 <= w < 65536 /\ 0 <= h < 65536
  | _ => True
  end.
Definition wf_sorenson (h : sor_header) : Prop :=
  0 <= s_version h < 32 /\ 0 <= s_tr h < 256 /\ wf_sor_size (s_size h) /\ 0 <= s_type h < 4 /\
  0 <= s_quant h < 32 /\ Forall byte_ok (s_extra h).

Definition sor_format (s : sor_size) : source_format :=
  match s with
  | SzCustom8 w h | SzCustom16 w h => Extended Square w h
  | SzCif => FullCif | SzQcif => QuarterCif | SzSqcif => SubQcif
  | Sz320x240 => Extended Square 320 240 | Sz160x120 => Extended Square 160 120 | SzReserved => SfReserved
  end.
Definition sor_type (t : Z) : ptype_code :=
  if t =? 0 then IFrame else if t =? 1 then PFrame else if t =? 2 then DisposablePFrame else PtReserved t.

(* the header the parser must report *)
Definition picture_of_sorenson (h : sor_header) : picture :=
  mkPicture (Some (s_version h)) (s_tr h) (Some (sor_format (s_size h))) (if s_deblock h then USE_DEBLOCKER else 0)
            false false (sor_type (s_type h)) (Some MvUnlimited) None None None None (s_quant h) None None None (s_extra h).

(* ---------------- baseline H.263 (PTYPE without PLUSPTYPE) ---------------- *)
Record std_header := mkStd {
  t_tr : Z; t_split : bool; t_doccam : bool; t_freeze : bool; t_srcfmt : Z;   (* 1..6 *)
  t_inter : bool; t_umv : bool; t_sac : bool; t_ap : bool; t_pb : bool;
  t_quant : Z; t_cpm : option Z; t_trb : Z; t_dbquant : Z; t_extra : list Z }.

Definition enc_std (h : std_header) : list bool :=
  start_code ++ bits_of 5 0 ++ bits_of 8 (t_tr h)
  ++ [true; false; t_split h; t_doccam h; t_freeze h] ++ bits_of 3 (t_srcfmt h)
  ++ [t_inter h; t_umv h; t_sac h; t_ap h; t_pb h]
  ++ bits_of 5 (t_quant h)
  ++ (match t_cpm h with None => [false] | Some p => true :: bits_of 2 p end)
  ++ (if t_pb h then bits_of 3 (t_trb h) ++ bits_of 2 (t_dbquant h) else [])
  ++ enc_pei (t_extra h).

Definition wf_std (h : std_header) : Prop :=
  0 <= t_tr h < 256 /\ 1 <= t_srcfmt h <= 6 /\ 0 <= t_quant h < 32 /\
  (match t_cpm h with None => True | Some p => 0 <= p < 4 end) /\
  0 <= t_trb h < 8 /\ 0 <= t_dbquant h < 4 /\ Forall byte_ok (t_extra h).

Definition std_format (c : Z) : source_format :=
  if c =? 1 then SubQcif else if c =? 2 then QuarterCif else if c =? 3 then FullCif
  else if c =? 4 then FourCif else if c =? 5 then SixteenCif else SfReserved.

Definition picture_of_std (h : std_header) : picture :=
  let opts := flag_if (t_split h) USE_SPLIT_SCREEN + flag_if (t_doccam h) USE_DOCUMENT_CAMERA
              + flag_if (t_freeze h) RELEASE_FULL_PICTURE_FREEZE + flag_if (t_umv h) UNRESTRICTED_MOTION_VECTORS
              + flag_if (t_sac h) SYNTAX_BASED_ARITHMETIC_CODING + flag_if (t_ap h) ADVANCED_PREDICTION in
  mkPicture None (t_tr h) (Some (std_format (t_srcfmt h))) opts false false
            (if t_pb h then PbFrame else if t_inter h then PFrame else IFrame)
            None None None None None (t_quant h) (t_cpm h)
            (if t_pb h then Some (t_trb h) else None) (if t_pb h then Some (5 + t_dbquant h) else None) (t_extra h).

(* ---------------- H.263 with PLUSPTYPE, UFEP = 001 (OPPTYPE present) ---------------- *)
Record plus_header := mkPlus {
  p_tr : Z; p_split : bool; p_doccam : bool; p_freeze : bool;
  p_fmt : Z;                                  (* OPPTYPE source format 0..7; 6 = custom *)
  p_pcf : bool; p_umv : bool; p_sac : bool; p_ap : bool; p_aic : bool; p_df : bool; p_ss : bool;
  p_rps : bool; p_isd : bool; p_aiv : bool; p_mq : bool;
  p_type : Z;                                 (* MPPTYPE picture type 0..7 *)
  p_rru : bool; p_rtype : bool;               (* RPR must be 0: RPRP is not implemented *)
  p_cpm : option Z;
  p_par : Z; p_pwi : Z; p_phi : Z; p_eparw : Z; p_eparh : Z;
  p_cpcfc : Z; p_etr : Z;
  p_uui_extended : bool;                      (* UUI '1' (true) or '01' (false) *)
  p_sss : Z; p_elnum : Z; p_rlnum : Z; p_rpsmf : Z; p_trp : option Z;
  p_quant : Z; p_trb : Z; p_dbquant : Z; p_extra : list Z }.

Definition enc_plus (scal : bool) (h : plus_header) : list bool :=
  start_code ++ bits_of 5 0 ++ bits_of 8 (p_tr h)
  ++ [true; false; p_split h; p_doccam h; p_freeze h] ++ bits_of 3 7
  ++ bits_of 3 1                                                                   (* UFEP = 001 *)
  ++ (bits_of 3 (p_fmt h) ++ [p_pcf h; p_umv h; p_sac h; p_ap h; p_aic h; p_df h; p_ss h; p_rps h; p_isd h; p_aiv h; p_mq h;
                               true; false; false; false])                          (* OPPTYPE *)
  ++ (bits_of 3 (p_type h) ++ [false; p_rru h; p_rtype h; false; false; true])     (* MPPTYPE *)
  ++ (match p_cpm h with None => [false] | Some p => true :: bits_of 2 p end)
  ++ (if p_fmt h =? 6 then
        bits_of 4 (p_par h) ++ bits_of 9 (p_pwi h) ++ [true] ++ bits_of 9 (p_phi h)
        ++ (if p_par h =? 15 then bits_of 8 (p_eparw h) ++ bits_of 8 (p_eparh h) else [])
      else [])
  ++ (if p_pcf h then bits_of 8 (p_cpcfc h) ++ bits_of 2 (p_etr h) else [])
  ++ (if p_umv h then (if p_uui_extended h then [true] else [false; true]) else [])
  ++ (if p_ss h then bits_of 2 (p_sss h) else [])
  ++ (if scal then bits_of 4 (p_elnum h) ++ bits_of 4 (p_rlnum h) else [])
  ++ (if p_rps h then bits_of 3 (p_rpsmf h)
                      ++ (match p_trp h with None => [false] | Some t => true :: bits_of 10 t end)
                      ++ [false; true]                                              (* BCI '01': no back-channel message *)
      else [])
  ++ bits_of 5 (p_quant h)
  ++ (if p_type h =? 2 then bits_of (if p_pcf h then 5 else 3) (p_trb h) ++ bits_of 2 (p_dbquant h) else [])
  ++ enc_pei (p_extra h).

Definition wf_plus (h : plus_header) : Prop :=
  0 <= p_tr h < 256 /\ 0 <= p_fmt h < 8 /\ 0 <= p_type h < 8 /\
  (match p_cpm h with None => True | Some p => 0 <= p < 4 end) /\
  1 <= p_par h < 16 /\ 0 <= p_pwi h < 512 /\ 0 <= p_phi h < 512 /\ 1 <= p_eparw h < 256 /\ 1 <= p_eparh h < 256 /\
  0 <= p_cpcfc h < 256 /\ 0 <= p_etr h < 4 /\ 0 <= p_sss h < 4 /\ 0 <= p_elnum h < 16 /\ 0 <= p_rlnum h < 16 /\
  0 <= p_rpsmf h < 8 /\ (match p_trp h with None => True | Some t => 0 <= t < 1024 end) /\
  0 <= p_quant h < 32 /\ 0 <= p_trb h < (if p_pcf h then 32 else 8) /\ 0 <= p_dbquant h < 4 /\
  Forall byte_ok (p_extra h).

Definition plus_par (p w h : Z) : par_t :=
  if p =? 1 then Square else if p =? 2 then Par12_11 else if p =? 3 then Par10_11 else if p =? 4 then Par16_11
  else if p =? 5 then Par40_33 else if p =? 15 then ParExtended w h else ParReserved p.
Definition plus_format (h : plus_header) : option source_format :=
  let f := p_fmt h in
  if f =? 6 then Some (Extended (plus_par (p_par h) (p_eparw h) (p_eparh h)) ((p_pwi h + 1) * 4) (p_phi h * 4))
  else if f =? 1 then Some SubQcif else if f =? 2 then Some QuarterCif else if f =? 3 then Some FullCif
  else if f =? 4 then Some FourCif else if f =? 5 then Some SixteenCif else Some SfReserved.
Definition plus_type (t : Z) : ptype_code :=
  if t =? 0 then IFrame else if t =? 1 then PFrame else if t =? 2 then ImprovedPbFrame else if t =? 3 then BFrame
  else if t =? 4 then EiFrame else if t =? 5 then EpFrame else PtReserved t.

(* the option set: union (bitwise or) of the PTYPE flags, the OPPTYPE flags and the MPPTYPE flags *)
Definition plus_options (h : plus_header) : Z :=
  Z.lor (flag_if (p_split h) USE_SPLIT_SCREEN + flag_if (p_doccam h) USE_DOCUMENT_CAMERA + flag_if (p_freeze h) RELEASE_FULL_PICTURE_FREEZE)
   (Z.lor (flag_if (p_umv h) UNRESTRICTED_MOTION_VECTORS + flag_if (p_sac h) SYNTAX_BASED_ARITHMETIC_CODING
           + flag_if (p_ap h) ADVANCED_PREDICTION + flag_if (p_aic h) ADVANCED_INTRA_CODING + flag_if (p_df h) DEBLOCKING_FILTER
           + flag_if (p_ss h) SLICE_STRUCTURED + flag_if (p_rps h) REFERENCE_PICTURE_SELECTION
           + flag_if (p_isd h) INDEPENDENT_SEGMENT_DECODING + flag_if (p_aiv h) ALTERNATIVE_INTER_VLC
           + flag_if (p_mq h) MODIFIED_QUANTIZATION)
          (flag_if false REFERENCE_PICTURE_RESAMPLING + flag_if (p_rru h) REDUCED_RESOLUTION_UPDATE + flag_if (p_rtype h) ROUNDING_TYPE_ONE)).

Definition picture_of_plus (scal : bool) (h : plus_header) : picture :=
  mkPicture None
    (if p_pcf h then p_etr h * 256 + p_tr h else p_tr h)
    (plus_format h) (plus_options h) true true (plus_type (p_type h))
    (if p_umv h then Some (if p_uui_extended h then MvExtended else MvUnlimited) else None)
    (* SSS: first bit rectangular slices (flag 1), second bit arbitrary order (flag 2) *)
    (if p_ss h then Some (flag_if (Z.testbit (p_sss h) 1) 1 + flag_if (Z.testbit (p_sss h) 0) 2) else None)
    (if scal then Some (p_elnum h, Some (p_rlnum h)) else None)
    (if p_rps h then Some (flag_if (negb (Z.testbit (p_rpsmf h) 2)) 1 + flag_if (Z.testbit (p_rpsmf h) 1) 2
                           + flag_if (Z.testbit (p_rpsmf h) 0) 4) else None)
    (if p_rps h then p_trp h else None)
    (p_quant h) (p_cpm h)
    (if p_type h =? 2 then Some (p_trb h) else None) (if p_type h =? 2 then Some (5 + p_dbquant h) else None)
    (p_extra h).

(* ---- PLUSPTYPE with UFEP = 000: OPPTYPE and its followers are not retransmitted; the optional modes of OPPTYPE
   are those of the previous header (`inh`); TRPI/BCI are present iff reference picture selection is inherited ---- *)
Record plus0_header := mkPlus0 {
  q_tr : Z; q_split : bool; q_doccam : bool; q_freeze : bool;
  q_type : Z; q_rru : bool; q_rtype : bool;
  q_cpm : option Z; q_elnum : Z; q_trp : option Z;
  q_quant : Z; q_trb : Z; q_dbquant : Z; q_extra : list Z }.

Definition enc_plus0 (scal rps : bool) (h : plus0_header) : list bool :=
  start_code ++ bits_of 5 0 ++ bits_of 8 (q_tr h)
  ++ [true; false; q_split h; q_doccam h; q_freeze h] ++ bits_of 3 7
  ++ bits_of 3 0                                                                   (* UFEP = 000 *)
  ++ (bits_of 3 (q_type h) ++ [false; q_rru h; q_rtype h; false; false; true])     (* MPPTYPE *)
  ++ (match q_cpm h with None => [false] | Some p => true :: bits_of 2 p end)
  ++ (if scal then bits_of 4 (q_elnum h) else [])                                  (* ELNUM; RLNUM only with UFEP = 001 *)
  ++ (if rps then (match q_trp h with None => [false] | Some t => true :: bits_of 10 t end) ++ [false; true] else [])
  ++ bits_of 5 (q_quant h)
  ++ (if q_type h =? 2 then bits_of 3 (q_trb h) ++ bits_of 2 (q_dbquant h) else [])
  ++ enc_pei (q_extra h).

Definition wf_plus0 (h : plus0_header) : Prop :=
  0 <= q_tr h < 256 /\ 0 <= q_type h < 8 /\
  (match q_cpm h with None => True | Some p => 0 <= p < 4 end) /\ 0 <= q_elnum h < 16 /\
  (match q_trp h with None => True | Some t => 0 <= t < 1024 end) /\
  0 <= q_quant h < 32 /\ 0 <= q_trb h < 8 /\ 0 <= q_dbquant h < 4 /\ Forall byte_ok (q_extra h).

(* inh: the previous header's options restricted to the OPPTYPE modes *)
Definition picture_of_plus0 (scal : bool) (inh : Z) (h : plus0_header) : picture :=
  mkPicture None (q_tr h) None
    (Z.lor (flag_if (q_split h) USE_SPLIT_SCREEN + flag_if (q_doccam h) USE_DOCUMENT_CAMERA + flag_if (q_freeze h) RELEASE_FULL_PICTURE_FREEZE)
       (Z.lor inh (flag_if false REFERENCE_PICTURE_RESAMPLING + flag_if (q_rru h) REDUCED_RESOLUTION_UPDATE + flag_if (q_rtype h) ROUNDING_TYPE_ONE)))
    true false (plus_type (q_type h)) None None
    (if scal then Some (q_elnum h, None) else None) None
    (if Z.testbit inh 9 then q_trp h else None)
    (q_quant h) (q_cpm h)
    (if q_type h =? 2 then Some (q_trb h) else None) (if q_type h =? 2 then Some (5 + q_dbquant h) else None)
    (q_extra h).
