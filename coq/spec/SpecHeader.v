(* Encoders of picture headers, written from the syntax of the Sorenson header and of H.263 clause 5.1
   (fields in transmission order, most significant bit first), as functions from field values to bits.
   The round-trip theorems (proofs/HeaderRoundTrip.v) say the parser model returns exactly these values and
   consumes exactly these bits. *)
From H263V Require Import base.Prelude model.Types model.Reader model.Header.

(* the n-bit field holding v, most significant bit first *)
Fixpoint bits_of (n : nat) (v : Z) : list bool :=
  match n with
  | O => []
  | S n' => Z.testbit v (Z.of_nat n') :: bits_of n' v
  end.

Definition start_code : list bool := repeat false 16 ++ [true].

Fixpoint enc_pei (extra : list Z) : list bool :=
  match extra with
  | [] => [false]
  | b :: rest => true :: bits_of 8 b ++ enc_pei rest
  end.

(* ---------------- Sorenson Spark ---------------- *)
Inductive sor_size :=
| SzCustom8 (w h : Z) | SzCustom16 (w h : Z) | SzCif | SzQcif | SzSqcif | Sz320x240 | Sz160x120 | SzReserved.

Record sor_header := mkSor {
  s_version : Z; s_tr : Z; s_size : sor_size; s_type : Z; s_deblock : bool; s_quant : Z; s_extra : list Z }.

Definition enc_sor_size (s : sor_size) : list bool :=
  match s with
  | SzCustom8 w h => bits_of 3 0 ++ bits_of 8 w ++ bits_of 8 h
  | SzCustom16 w h => bits_of 3 1 ++ bits_of 16 w ++ bits_of 16 h
  | SzCif => bits_of 3 2 | SzQcif => bits_of 3 3 | SzSqcif => bits_of 3 4
  | Sz320x240 => bits_of 3 5 | Sz160x120 => bits_of 3 6 | SzReserved => bits_of 3 7
  end.

Definition enc_sorenson (h : sor_header) : list bool :=
  start_code ++ bits_of 5 (s_version h) ++ bits_of 8 (s_tr h) ++ enc_sor_size (s_size h)
  ++ bits_of 2 (s_type h) ++ [s_deblock h] ++ bits_of 5 (s_quant h) ++ enc_pei (s_extra h).

Definition byte_ok (b : Z) : Prop := 0 <= b < 256.
Definition wf_sor_size (s : sor_size) : Prop :=
  match s with
  | SzCustom8 w h => 0 <= w < 256 /\ 0 <= h < 256
  | SzCustom16 w h => 0 <= w < 65536 /\ 0 <= h < 65536
  | _ => True
  end.
Definition wf_sorenson (h : sor_header) : Prop :=
  0 <= s_version h < 32 /\ 0 <= s_tr h < 256 /\ wf_sor_size (s_size h) /\ 0 <= s_type h < 4 /\
  0 <= s_quant h < 32 /\ Forall byte_ok (s_extra h).

Definition sor_format (s : sor_size) : source_format :=
  match s with
  | SzCustom8 w h | SzCustom16 w h => Extended Square w h
  | SzCif => FullCif | SzQcif => QuarterCif | SzSqcif => SubQcif
  | Sz320x240 => Extended Square 320 240 | Sz160x120 => Extended Square 160 120 | SzReserved => SfReserved
  end.
Definition sor_type (t : Z) : ptype_code :=
  if t =? 0 then IFrame else if t =? 1 then PFrame else if t =? 2 then DisposablePFrame else PtReserved t.

(* the header the parser must report *)
Definition picture_of_sorenson (h : sor_header) : picture :=
  mkPicture (Some (s_version h)) (s_tr h) (Some (sor_format (s_size h))) (if s_deblock h then USE_DEBLOCKER else 0)
            false false (sor_type (s_type h)) (Some MvUnlimited) None None None None (s_quant h) None None None (s_extra h).

(* ---------------- baseline H.263 (PTYPE without PLUSPTYPE) ---------------- *)
Record std_header := mkStd {
  t_tr : Z; t_split : bool; t_doccam : bool; t_freeze : bool; t_srcfmt : Z;   (* 1..6 *)
  t_inter : bool; t_umv : bool; t_sac : bool; t_ap : bool; t_pb : bool;
  t_quant : Z; t_cpm : option Z; t_trb : Z; t_dbquant : Z; t_extra : list Z }.

Definition enc_std (h : std_header) : list bool :=
  start_code ++ bits_of 5 0 ++ bits_of 8 (t_tr h)
  ++ [true; false; t_split h; t_doccam h; t_freeze h] ++ bits_of 3 (t_srcfmt h)
  ++ [t_inter h; t_umv h; t_sac h; t_ap h; t_pb h]
  ++ bits_of 5 (t_quant h)
  ++ (match t_cpm h with None => [false] | Some p => true :: bits_of 2 p end)
  ++ (if t_pb h then bits_of 3 (t_trb h) ++ bits_of 2 (t_dbquant h) else [])
  ++ enc_pei (t_extra h).

Definition wf_std (h : std_header) : Prop :=
  0 <= t_tr h < 256 /\ 1 <= t_srcfmt h <= 6 /\ 0 <= t_quant h < 32 /\
  (match t_cpm h with None => True | Some p => 0 <= p < 4 end) /\
  0 <= t_trb h < 8 /\ 0 <= t_dbquant h < 4 /\ Forall byte_ok (t_extra h).

Definition std_format (c : Z) : source_format :=
  if c =? 1 then SubQcif else if c =? 2 then QuarterCif else if c =? 3 then FullCif
  else if c =? 4 then FourCif else if c =? 5 then SixteenCif else SfReserved.

Definition picture_of_std (h : std_header) : picture :=
  let opts := flag_if (t_split h) USE_SPLIT_SCREEN + flag_if (t_doccam h) USE_DOCUMENT_CAMERA
              + flag_if (t_freeze h) RELEASE_FULL_PICTURE_FREEZE + flag_if (t_umv h) UNRESTRICTED_MOTION_VECTORS
              + flag_if (t_sac h) SYNTAX_BASED_ARITHMETIC_CODING + flag_if (t_ap h) ADVANCED_PREDICTION in
  mkPicture None (t_tr h) (Some (std_format (t_srcfmt h))) opts false false
            (if t_pb h then PbFrame else if t_inter h then PFrame else IFrame)
            None None None None None (t_quant h) (t_cpm h)
            (if t_pb h then Some (t_trb h) else None) (if t_pb h then Some (5 + t_dbquant h) else None) (t_extra h).
