(* C02 / C11: run-length expansion places each dequantised coefficient at the cell the zig-zag scan assigns to its
   position, leaves every other cell alone, stops (leaving the block untouched) when a run leads past position 63,
   and classifies the block (zero / DC only / first row only / first column only / full) exactly by which cells of the
   resulting matrix are non-zero. *)
From H263V Require Import base.Prelude spec.SpecRecon model.Types model.Tables model.Syntax model.Recon proofs.ReconSpec.
Require Import ZifyBool ZifyNat.

(* ---- the specification: a coefficient matrix as a function of (x, y) ---- *)
Definition cell_of (zz : Z) : Z * Z := nth (Z.to_nat zz) zigzag_walk (0, 0).
Fixpoint place_spec (ts : list tcoef) (q zz : Z) (f : Z -> Z -> Z) : option (Z -> Z -> Z) :=
  match ts with
  | [] => Some f
  | t :: ts' =>
      let zz := zz + t_run t in
      if 64 <=? zz then None else
      let c := cell_of zz in
      place_spec ts' q (zz + 1) (fun x y => if (x =? fst c) && (y =? snd c) then spec_dequant q (t_level t) else f x y)
  end.

(* ---- matrices ---- *)
Definition shape8 (m : list (list Z)) : Prop := length m = 8%nat /\ Forall (fun r => length r = 8%nat) m.

Lemma upd_nth_length {A} (f : A -> A) : forall l n, length (upd_nth l n f) = length l.
Proof. induction l as [|a l IH]; intros n; [reflexivity|]. destruct n; cbn; [reflexivity|]. rewrite IH. reflexivity. Qed.
Lemma upd_nth_nth {A} (f : A -> A) d : forall l n k, (n < length l)%nat ->
  nth k (upd_nth l n f) d = if Nat.eqb k n then f (nth n l d) else nth k l d.
Proof.
  induction l as [|a l IH]; intros n k Hn; [cbn in Hn; lia|]. destruct n as [|n]; destruct k as [|k]; cbn [upd_nth nth Nat.eqb]; try reflexivity.
  apply IH. cbn in Hn. lia.
Qed.
Lemma upd_nth_Forall {A} (P : A -> Prop) (f : A -> A) : (forall a, P a -> P (f a)) -> forall l n, Forall P l -> Forall P (upd_nth l n f).
Proof.
  intros Hf. induction l as [|a l IH]; intros n H; [constructor|]. inversion H; subst. destruct n; cbn; constructor; auto.
Qed.

Lemma mat_set_shape m x y v : shape8 m -> shape8 (mat_set m x y v).
Proof.
  intros [H1 H2]. unfold mat_set, shape8. rewrite upd_nth_length. split; [exact H1|].
  apply upd_nth_Forall; [|exact H2]. intros r Hr. rewrite upd_nth_length. exact Hr.
Qed.

Lemma mat_get_set m zx zy v x y : shape8 m -> 0 <= zx < 8 -> 0 <= zy < 8 -> 0 <= x -> 0 <= y ->
  mat_get (mat_set m zx zy v) x y = if (x =? zx) && (y =? zy) then v else mat_get m x y.
Proof.
  intros [H1 H2] Hzx Hzy Hx Hy. unfold mat_get, mat_set.
  rewrite (upd_nth_nth _ []) by lia.
  destruct (Nat.eqb (Z.to_nat y) (Z.to_nat zy)) eqn:Ey.
  - apply Nat.eqb_eq in Ey. assert (y = zy) by lia. subst y. rewrite Z.eqb_refl, andb_true_r.
    assert (Hr : length (nth (Z.to_nat zy) m []) = 8%nat).
    { rewrite Forall_forall in H2. apply H2. apply nth_In. lia. }
    rewrite (upd_nth_nth _ 0) by lia.
    destruct (Nat.eqb (Z.to_nat x) (Z.to_nat zx)) eqn:Ex.
    + apply Nat.eqb_eq in Ex. assert (x = zx) by lia. subst x. rewrite Z.eqb_refl. reflexivity.
    + apply Nat.eqb_neq in Ex. destruct (x =? zx) eqn:E; [lia|]. reflexivity.
  - apply Nat.eqb_neq in Ey. destruct (y =? zy) eqn:E; [lia|]. rewrite andb_false_r. reflexivity.
Qed.

(* ---- the zig-zag table: 64 cells inside the block, each exactly once (finite checks) ---- *)
Lemma walk_cells_in_range : forallb (fun c : Z * Z => (0 <=? fst c) && (fst c <? 8) && (0 <=? snd c) && (snd c <? 8)) zigzag_walk = true.
Proof. vm_compute. reflexivity. Qed.
Lemma walk_length : length zigzag_walk = 64%nat.
Proof. vm_compute. reflexivity. Qed.
Lemma cell_in_range zz : 0 <= zz < 64 -> 0 <= fst (cell_of zz) < 8 /\ 0 <= snd (cell_of zz) < 8.
Proof.
  intros H. pose proof walk_cells_in_range as W. rewrite forallb_forall in W.
  assert (Hin : In (cell_of zz) zigzag_walk) by (unfold cell_of; apply nth_In; rewrite walk_length; lia).
  specialize (W (cell_of zz) Hin). cbv beta in W.
  apply andb_prop in W. destruct W as [W W4]. apply andb_prop in W. destruct W as [W W3]. apply andb_prop in W. destruct W as [W1 W2].
  apply Z.leb_le in W1, W3. apply Z.ltb_lt in W2, W4. lia.
Qed.
Definition cell_eqb (a b : Z * Z) : bool := (fst a =? fst b) && (snd a =? snd b).
Lemma walk_injective_check :
  forallb (fun i => forallb (fun j => Nat.eqb i j || negb (cell_eqb (nth i zigzag_walk (0,0)) (nth j zigzag_walk (0,0)))) (seq 0 64)) (seq 0 64) = true.
Proof. vm_compute. reflexivity. Qed.
Lemma cell_injective a b : 0 <= a < 64 -> 0 <= b < 64 -> cell_of a = cell_of b -> a = b.
Proof.
  intros Ha Hb E. pose proof walk_injective_check as W. rewrite forallb_forall in W.
  specialize (W (Z.to_nat a) ltac:(apply in_seq; lia)). rewrite forallb_forall in W.
  specialize (W (Z.to_nat b) ltac:(apply in_seq; lia)). unfold cell_of in E. rewrite E in W.
  unfold cell_eqb in W. rewrite !Z.eqb_refl in W. cbn [andb negb] in W. rewrite orb_false_r in W. apply Nat.eqb_eq in W. lia.
Qed.

(* ---- placement ---- *)
Theorem rle_go_is_placement : forall ts q zz m h v f, 0 <= q -> 0 <= zz -> Forall (fun t => 0 <= t_run t) ts -> shape8 m ->
  (forall x y, 0 <= x -> 0 <= y -> mat_get m x y = f x y) ->
  match rle_go ts q zz m h v, place_spec ts q zz f with
  | Some (m', _, _), Some f' => shape8 m' /\ forall x y, 0 <= x -> 0 <= y -> mat_get m' x y = f' x y
  | None, None => True
  | _, _ => False
  end.
Proof.
  induction ts as [|t ts IH]; intros q zz m h v f Hq Hzz Hruns Hm Hf; cbn [rle_go place_spec].
  - split; [exact Hm|exact Hf].
  - inversion Hruns as [|? ? Hr Hruns']; subst. cbv zeta.
    destruct (64 <=? zz + t_run t) eqn:E; [exact I|].
    rewrite dezigzag_is_walk. fold (cell_of (zz + t_run t)).
    destruct (cell_in_range (zz + t_run t) ltac:(lia)) as [Cx Cy].
    destruct (cell_of (zz + t_run t)) as [zx zy] eqn:Ec. cbn [fst snd] in *.
    rewrite dequant_is_spec by exact Hq.
    apply IH; [exact Hq|lia|exact Hruns'|apply mat_set_shape; exact Hm|].
    intros x y Hx Hy. rewrite mat_get_set by (first [assumption | lia]). rewrite Hf by assumption. reflexivity.
Qed.

(* ---- classification ---- *)
Definition coords : list (Z * Z) := flat_map (fun y => map (fun x => (Z.of_nat x, Z.of_nat y)) (seq 0 8)) (seq 0 8).
Definition is_horiz_b (m : list (list Z)) : bool :=
  forallb (fun c : Z * Z => let '(x, y) := c in negb (negb (mat_get m x y =? 0) && (0 <? y))) coords.
Definition is_vert_b (m : list (list Z)) : bool :=
  forallb (fun c : Z * Z => let '(x, y) := c in negb (negb (mat_get m x y =? 0) && (0 <? x))) coords.
Lemma classify_unfold m :
  classify m = if is_horiz_b m && is_vert_b m then (if mat_get m 0 0 =? 0 then DctZero else DctDc (mat_get m 0 0))
               else if is_horiz_b m then DctHoriz (nth 0 m [])
               else if is_vert_b m then DctVert (map (fun row => nth 0 row 0) m)
               else DctFull m.
Proof. reflexivity. Qed.

Lemma in_coords x y : 0 <= x < 8 -> 0 <= y < 8 -> In (x, y) coords.
Proof.
  intros Hx Hy. unfold coords. apply in_flat_map. exists (Z.to_nat y). split; [apply in_seq; lia|].
  apply in_map_iff. exists (Z.to_nat x). split; [f_equal; lia|apply in_seq; lia].
Qed.
Lemma coords_in c : In c coords -> 0 <= fst c < 8 /\ 0 <= snd c < 8.
Proof.
  unfold coords. intros H. apply in_flat_map in H. destruct H as (y & Hy & H). apply in_map_iff in H. destruct H as (x & <- & Hx).
  apply in_seq in Hy, Hx. cbn [fst snd]. lia.
Qed.

Definition rows_below_zero (m : list (list Z)) : Prop := forall x y, 0 <= x < 8 -> 0 < y < 8 -> mat_get m x y = 0.
Definition cols_right_zero (m : list (list Z)) : Prop := forall x y, 0 < x < 8 -> 0 <= y < 8 -> mat_get m x y = 0.

Lemma is_horiz_b_spec m : is_horiz_b m = true <-> rows_below_zero m.
Proof.
  unfold is_horiz_b, rows_below_zero. rewrite forallb_forall. split.
  - intros H x y Hx Hy. specialize (H (x, y) (in_coords x y Hx ltac:(lia))). cbv beta iota in H.
    destruct (mat_get m x y =? 0) eqn:E; [apply Z.eqb_eq in E; exact E|]. destruct (0 <? y) eqn:E2; [discriminate|lia].
  - intros H [x y] Hc. apply coords_in in Hc. cbn [fst snd] in Hc. destruct (0 <? y) eqn:E; [|rewrite andb_false_r; reflexivity].
    rewrite (H x y) by lia. reflexivity.
Qed.
Lemma is_vert_b_spec m : is_vert_b m = true <-> cols_right_zero m.
Proof.
  unfold is_vert_b, cols_right_zero. rewrite forallb_forall. split.
  - intros H x y Hx Hy. specialize (H (x, y) (in_coords x y ltac:(lia) Hy)). cbv beta iota in H.
    destruct (mat_get m x y =? 0) eqn:E; [apply Z.eqb_eq in E; exact E|]. destruct (0 <? x) eqn:E2; [discriminate|lia].
  - intros H [x y] Hc. apply coords_in in Hc. cbn [fst snd] in Hc. destruct (0 <? x) eqn:E; [|rewrite andb_false_r; reflexivity].
    rewrite (H x y) by lia. reflexivity.
Qed.

(* the loop invariant: cells the scan has not reached are zero; the flags say which of the others are *)
Definition rle_inv (zz : Z) (m : list (list Z)) (h v : bool) : Prop :=
  shape8 m /\
  (forall i, zz <= i < 64 -> mat_get m (fst (cell_of i)) (snd (cell_of i)) = 0) /\
  (h = true <-> rows_below_zero m) /\ (v = true <-> cols_right_zero m).

Lemma rle_go_flags : forall ts q zz m h v m' h' v', 0 <= q -> 0 <= zz -> Forall (fun t => 0 <= t_run t) ts ->
  rle_inv zz m h v -> rle_go ts q zz m h v = Some (m', h', v') ->
  shape8 m' /\ (h' = true <-> rows_below_zero m') /\ (v' = true <-> cols_right_zero m').
Proof.
  induction ts as [|t ts IH]; intros q zz m h v m' h' v' Hq Hzz Hruns (Hs & Ha & Hh & Hv) H; cbn [rle_go] in H.
  - inversion H; subst. auto.
  - inversion Hruns as [|? ? Hr Hruns']; subst. cbv zeta in H.
    destruct (64 <=? zz + t_run t) eqn:E; [discriminate|].
    rewrite dezigzag_is_walk in H. fold (cell_of (zz + t_run t)) in H.
    destruct (cell_in_range (zz + t_run t) ltac:(lia)) as [Cx Cy].
    pose proof (Ha (zz + t_run t) ltac:(lia)) as Hz.
    destruct (cell_of (zz + t_run t)) as [zx zy] eqn:Ec. cbn [fst snd] in *.
    set (val := dequant q (t_level t)) in *.
    eapply IH in H; [exact H|exact Hq|lia|exact Hruns'|].
    assert (Hget : forall x y, 0 <= x -> 0 <= y -> mat_get (mat_set m zx zy val) x y = if (x =? zx) && (y =? zy) then val else mat_get m x y)
      by (intros; apply mat_get_set; assumption).
    split; [apply mat_set_shape; exact Hs|]. split; [|split].
    + intros i Hi. destruct (cell_in_range i ltac:(lia)) as [Dx Dy]. rewrite Hget by lia.
      destruct ((fst (cell_of i) =? zx) && (snd (cell_of i) =? zy)) eqn:Eq.
      * exfalso. assert (cell_of i = cell_of (zz + t_run t)).
        { rewrite Ec. destruct (cell_of i) as [a b]. cbn [fst snd] in Eq. f_equal; lia. }
        apply cell_injective in H0; lia.
      * apply Ha. lia.
    + destruct (negb (val =? 0) && (0 <? zy)) eqn:Ef.
      * split; [discriminate|]. intros Hall. specialize (Hall zx zy ltac:(lia) ltac:(lia)). rewrite Hget in Hall by lia.
        rewrite !Z.eqb_refl in Hall. cbn [andb] in Hall. lia.
      * rewrite Hh. unfold rows_below_zero. split; intros Hall x y Hx Hy.
        -- rewrite Hget by lia. destruct ((x =? zx) && (y =? zy)) eqn:Eq; [|apply Hall; assumption].
           assert (x = zx /\ y = zy) as [-> ->] by lia. destruct (val =? 0) eqn:Ev; [lia|]. cbn [negb andb] in Ef. lia.
        -- specialize (Hall x y Hx Hy). rewrite Hget in Hall by lia. destruct ((x =? zx) && (y =? zy)) eqn:Eq; [|exact Hall].
           assert (x = zx /\ y = zy) as [-> ->] by lia. exact Hz.
    + destruct (negb (val =? 0) && (0 <? zx)) eqn:Ef.
      * split; [discriminate|]. intros Hall. specialize (Hall zx zy ltac:(lia) ltac:(lia)). rewrite Hget in Hall by lia.
        rewrite !Z.eqb_refl in Hall. cbn [andb] in Hall. lia.
      * rewrite Hv. unfold cols_right_zero. split; intros Hall x y Hx Hy.
        -- rewrite Hget by lia. destruct ((x =? zx) && (y =? zy)) eqn:Eq; [|apply Hall; assumption].
           assert (x = zx /\ y = zy) as [-> ->] by lia. destruct (val =? 0) eqn:Ev; [lia|]. cbn [negb andb] in Ef. lia.
        -- specialize (Hall x y Hx Hy). rewrite Hget in Hall by lia. destruct ((x =? zx) && (y =? zy)) eqn:Eq; [|exact Hall].
           assert (x = zx /\ y = zy) as [-> ->] by lia. exact Hz.
Qed.

(* ---- the whole block ---- *)
Lemma zero_mat_get_check : forallb (fun c : Z * Z => mat_get zero_mat (fst c) (snd c) =? 0) coords = true.
Proof. vm_compute. reflexivity. Qed.
Lemma zero_mat_get x y : 0 <= x -> 0 <= y -> mat_get zero_mat x y = 0.
Proof.
  intros Hx Hy. destruct (Z.lt_ge_cases y 8) as [Hy8|Hy8]; [destruct (Z.lt_ge_cases x 8) as [Hx8|Hx8]|].
  - pose proof zero_mat_get_check as W. rewrite forallb_forall in W. specialize (W (x, y) (in_coords x y ltac:(lia) ltac:(lia))).
    cbn [fst snd] in W. apply Z.eqb_eq in W. exact W.
  - unfold mat_get. assert (Hr : nth (Z.to_nat y) zero_mat [] = repeat 0 8%nat).
    { apply (repeat_spec 8%nat (repeat 0 8%nat)). apply (nth_In zero_mat). change (length zero_mat) with 8%nat. lia. }
    rewrite Hr. apply nth_overflow. cbn [repeat length]. lia.
  - unfold mat_get. rewrite (nth_overflow zero_mat) by (change (length zero_mat) with 8%nat; lia). destruct (Z.to_nat x); reflexivity.
Qed.
Lemma zero_mat_shape : shape8 zero_mat.
Proof. split; [reflexivity|]. repeat constructor. Qed.
Lemma cell_0 : cell_of 0 = (0, 0).
Proof. reflexivity. Qed.

Definition start_fun (dc : option Z) : Z -> Z -> Z :=
  fun x y => match dc with Some d => if (x =? 0) && (y =? 0) then intradc_level d else 0 | None => 0 end.
Definition start_mat (dc : option Z) : list (list Z) :=
  match dc with Some d => mat_set zero_mat 0 0 (intradc_level d) | None => zero_mat end.
Definition start_zz (dc : option Z) : Z := match dc with Some _ => 1 | None => 0 end.

Lemma start_mat_get dc x y : 0 <= x -> 0 <= y -> mat_get (start_mat dc) x y = start_fun dc x y.
Proof.
  intros Hx Hy. unfold start_mat, start_fun. destruct dc as [d|]; [|apply zero_mat_get; assumption].
  rewrite mat_get_set by (first [apply zero_mat_shape | lia]). destruct ((x =? 0) && (y =? 0)); [reflexivity|apply zero_mat_get; assumption].
Qed.
Lemma start_mat_shape dc : shape8 (start_mat dc).
Proof. destruct dc; [apply mat_set_shape|]; apply zero_mat_shape. Qed.

Lemma start_inv dc : rle_inv (start_zz dc) (start_mat dc) true true.
Proof.
  split; [apply start_mat_shape|]. split; [|split].
  - intros i Hi. destruct (cell_in_range i ltac:(unfold start_zz in Hi; destruct dc; lia)) as [Dx Dy].
    rewrite start_mat_get by lia. unfold start_fun. destruct dc as [d|]; [|reflexivity].
    destruct ((fst (cell_of i) =? 0) && (snd (cell_of i) =? 0)) eqn:E; [|reflexivity].
    exfalso. assert (cell_of i = cell_of 0) by (rewrite cell_0; destruct (cell_of i); cbn [fst snd] in E; f_equal; lia).
    apply cell_injective in H; cbn [start_zz] in Hi; lia.
  - split; [|reflexivity]. intros _ x y Hx Hy. rewrite start_mat_get by lia. unfold start_fun. destruct dc; [|reflexivity].
    destruct (y =? 0) eqn:E; [lia|]. rewrite andb_false_r. reflexivity.
  - split; [|reflexivity]. intros _ x y Hx Hy. rewrite start_mat_get by lia. unfold start_fun. destruct dc; [|reflexivity].
    destruct (x =? 0) eqn:E; [lia|]. reflexivity.
Qed.

Lemma bool_iff (a b : bool) : (a = true <-> b = true) -> a = b.
Proof. destruct a, b; intros [H1 H2]; try reflexivity; [symmetry; apply H1; reflexivity|apply H2; reflexivity]. Qed.

Theorem inverse_rle_block_spec b q : 0 <= q -> Forall (fun t => 0 <= t_run t) (tcoefs b) ->
  match inverse_rle_block b q with
  | Some d =>
      exists m' f', shape8 m' /\ place_spec (tcoefs b) q (start_zz (intradc b)) (start_fun (intradc b)) = Some f' /\
                    (forall x y, 0 <= x < 8 -> 0 <= y < 8 -> mat_get m' x y = f' x y) /\ d = classify m'
  | None => place_spec (tcoefs b) q (start_zz (intradc b)) (start_fun (intradc b)) = None
  end.
Proof.
  intros Hq Hruns.
  assert (Hzz : 0 <= start_zz (intradc b)) by (unfold start_zz; destruct (intradc b); lia).
  pose proof (rle_go_is_placement (tcoefs b) q (start_zz (intradc b)) (start_mat (intradc b)) true true
                (start_fun (intradc b)) Hq Hzz Hruns (start_mat_shape _) (start_mat_get _)) as P.
  unfold inverse_rle_block.
  destruct (tcoefs b) as [|t0 ts0] eqn:Et.
  - (* no coefficient events: the block is its INTRADC alone *)
    cbn [place_spec].
    assert (G : exists d, (match intradc b with
                           | Some dc => Some (if intradc_level dc =? 0 then DctZero else DctDc (intradc_level dc))
                           | None => Some DctZero end) = Some d /\ d = classify (start_mat (intradc b))).
    { destruct (start_inv (intradc b)) as (_ & _ & Fh & Fv).
      rewrite classify_unfold.
      replace (is_horiz_b (start_mat (intradc b))) with true by (symmetry; apply is_horiz_b_spec; apply Fh; reflexivity).
      replace (is_vert_b (start_mat (intradc b))) with true by (symmetry; apply is_vert_b_spec; apply Fv; reflexivity).
      cbn [andb]. rewrite start_mat_get by lia. unfold start_fun. destruct (intradc b) as [d|]; eexists; split; reflexivity. }
    destruct G as (d & G1 & G2). cbv zeta. rewrite G1.
    exists (start_mat (intradc b)), (start_fun (intradc b)).
    split; [apply start_mat_shape|]. split; [reflexivity|]. split; [intros; apply start_mat_get; lia|exact G2].
  - rewrite <- Et in *. clear Et t0 ts0.
    replace (match intradc b with Some dc => (mat_set zero_mat 0 0 (intradc_level dc), 1) | None => (zero_mat, 0) end)
      with (start_mat (intradc b), start_zz (intradc b)) by (destruct (intradc b); reflexivity).
    destruct (rle_go (tcoefs b) q (start_zz (intradc b)) (start_mat (intradc b)) true true) as [[[m' h'] v']|] eqn:Eg.
    + destruct (place_spec (tcoefs b) q (start_zz (intradc b)) (start_fun (intradc b))) as [f1|] eqn:E1; [|contradiction].
      destruct P as [Ps Pf].
      destruct (rle_go_flags _ _ _ _ _ _ _ _ _ Hq Hzz Hruns (start_inv (intradc b)) Eg) as (_ & Fh & Fv).
      assert (Eh : h' = is_horiz_b m') by (apply bool_iff; rewrite is_horiz_b_spec; exact Fh).
      assert (Ev : v' = is_vert_b m') by (apply bool_iff; rewrite is_vert_b_spec; exact Fv).
      destruct h', v'; (exists m', f1; split; [exact Ps|split; [reflexivity|split; [intros; apply Pf; lia|]]];
        rewrite classify_unfold, <- Eh, <- Ev; reflexivity).
    + destruct (place_spec (tcoefs b) q (start_zz (intradc b)) (start_fun (intradc b))); [contradiction|reflexivity].
Qed.
