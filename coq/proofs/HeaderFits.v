From H263V Require Import base.Prelude model.Types model.Tables model.Reader model.Header proofs.ReaderLemmas proofs.HeaderLemmas.
Require Import ZifyBool.
Ltac Zify.zify_post_hook ::= Z.div_mod_to_equations.

(* the dimensions of a format fit the u16 fields of the code *)
Definition fmt_fits (f : source_format) : Prop :=
  forall w h, into_width_and_height f = Some (w, h) -> 0 <= w <= 65535 /\ 0 <= h <= 65535.

Ltac std_fits := intros w h E; cbn [into_width_and_height] in E; first [discriminate E | inversion E; subst; lia].

Lemma sorenson_ptype_fits r fmt ty o r' : decode_sorenson_ptype r = Ok ((fmt, ty, o), r') -> fmt_fits fmt.
Proof.
  unfold decode_sorenson_ptype. intros H.
  bind_inv H as [code r1] E1. bind_inv H as [fmt0 r2] E2. bind_inv H as [t r3] E3. bind_inv H as [d r4] E4.
  inversion H; subst. clear H.
  destruct ((code =? 0) || (code =? 1)).
  - bind_inv E2 as [w0 r5] E5. bind_inv E2 as [h0 r6] E6. inversion E2; subst.
    assert (Hn : 0 <= (if code =? 0 then 8 else 16) <= 16) by (destruct (code =? 0); lia).
    apply read_bits_range in E5; [|lia]. apply read_bits_range in E6; [|lia].
    assert (Hp : 2 ^ (if code =? 0 then 8 else 16) <= 65536) by (destruct (code =? 0); vm_compute; discriminate).
    intros w h E. cbn [into_width_and_height] in E. inversion E; subst. lia.
  - repeat match type of E2 with (if ?c then _ else _) = _ => destruct c end; inversion E2; subst; std_fits.
Qed.

Lemma ptype_fits r o fmt ty r' : decode_ptype r = Ok ((o, Some (fmt, ty)), r') -> fmt_fits fmt.
Proof.
  unfold decode_ptype. intros H.
  bind_inv H as [hi r1] E1.
  destruct (negb (Z.land hi 192 =? 128)); [discriminate|]. cbv zeta in H.
  destruct (Z.land hi 7 =? 0); [discriminate|]. destruct (Z.land hi 7 =? 7); [discriminate|].
  bind_inv H as [lo r2] E2. inversion H; subst.
  repeat match goal with |- fmt_fits (if ?c then _ else _) => destruct c end; std_fits.
Qed.

Lemma plusptype_fits o po r xo sf ty fol opp r' : decode_plusptype o po r = Ok ((xo, Some sf, ty, fol, opp), r') -> fmt_fits sf.
Proof.
  unfold decode_plusptype. intros H.
  bind_inv H as [ufep r1] E1.
  destruct (negb ((ufep =? 0) || (ufep =? 1))); [discriminate|]. cbv zeta in H.
  bind_inv H as [[[opts sf0] fol0] r2] E2.
  bind_inv H as [mpp r3] E3.
  destruct (negb (Z.land mpp 7 =? 1)); [discriminate|]. inversion H; subst. clear H.
  destruct (ufep =? 1).
  - bind_inv E2 as [oppv r4] E4.
    destruct (negb (Z.land oppv 15 =? 8)); [discriminate|]. inversion E2; subst. clear E2.
    match goal with H : _ = Some sf |- _ => rename H into Hs end.
    repeat match type of Hs with (if ?c then _ else _) = _ => destruct c end; inversion Hs; subst; std_fits.
  - inversion E2.
Qed.

Lemma cpfmt_fits r f r' : decode_cpfmt r = Ok (f, r') -> fmt_fits f.
Proof.
  unfold decode_cpfmt. intros H.
  bind_inv H as [c r1] E1.
  destruct (Z.land c 512 =? 0); [discriminate|]. cbv zeta in H.
  bind_inv H as [par r2] E2. inversion H; subst. clear H.
  intros w h E. cbn [into_width_and_height] in E. inversion E; subst. clear E.
  rewrite Z.shiftr_land. change (Z.shiftr 523264 10) with (Z.ones 9). change 511 with (Z.ones 9).
  rewrite !Z.land_ones by lia. change (2 ^ 9) with 512.
  pose proof (Z.mod_pos_bound (Z.shiftr c 10) 512 ltac:(lia)). pose proof (Z.mod_pos_bound c 512 ltac:(lia)). lia.
Qed.

(* a parsed header: PQUANT fits its five bits, the format (if the header carries one) fits u16 *)
Lemma decode_picture_fits o prev r hdr r' :
  decode_picture o prev r = Ok (Some hdr, r') ->
  0 <= quantizer hdr <= 31 /\ (forall f, format hdr = Some f -> fmt_fits f).
Proof.
  unfold decode_picture. intros H.
  bind_inv H as sc E0. destruct sc as [skipped|]; [|discriminate].
  bind_inv H as r1 E1. bind_inv H as [gob r2] E2.
  destruct (sorenson o).
  - bind_inv H as [tr r3] E3. bind_inv H as [[[fmt ty] opts] r4] E4. bind_inv H as [q r5] E5. bind_inv H as [extra r6] E6.
    inversion H; subst. cbn [quantizer format]. split.
    + apply read_bits_range in E5; lia.
    + intros f Ef. inversion Ef; subst. eapply sorenson_ptype_fits; eassumption.
  - destruct (negb (gob =? 0)); [discriminate|].
    bind_inv H as [low_tr r3] E3. bind_inv H as [[opts fat] r4] E4.
    bind_inv H as [[[[[[[opts1 fmt1] ty] fol] plus] opp] mux] r5] E5.
    bind_inv H as [fmt2 r6] E6. bind_inv H as [clock r7] E7. bind_inv H as [tr r8] E8.
    bind_inv H as [mvr r9] E9. bind_inv H as [sss r10] E10. bind_inv H as [layer r11] E11.
    bind_inv H as [rpsm r12] E12. bind_inv H as [trp r13] E13. bind_inv H as r14 E14. bind_inv H as u15 E15.
    bind_inv H as [q r16] E16. bind_inv H as [mux2 r17] E17. bind_inv H as [[pbr pbq] r18] E18. bind_inv H as [extra r19] E19.
    inversion H; subst. cbn [quantizer format]. split.
    + apply read_bits_range in E16; lia.
    + intros f Ef. subst fmt2.
      assert (F1 : forall f1, fmt1 = Some f1 -> fmt_fits f1).
      { intros f1 ->. destruct fat as [[fm t0]|].
        - inversion E5; subst. eapply ptype_fits; eassumption.
        - bind_inv E5 as [[[[[xo fm] t0] fl] op] r20] E20. bind_inv E5 as [mx r21] E21. inversion E5; subst.
          eapply plusptype_fits; eassumption. }
      destruct (f_custom_format fol).
      * bind_inv E6 as [cf r22] E22. inversion E6; subst. eapply cpfmt_fits; eassumption.
      * inversion E6; subst. apply F1. reflexivity.
Qed.
