(* C02 / C03: the macroblock loop on an encoded picture body.  For every list of macroblocks given by their field values
   (stuffing, not coded, or coded with six blocks of INTRADC / TCOEF events) the decoder's loop over the encoded bits does
   exactly what `pure_loop` does on the field values themselves - no bit is misread, none is left over, whatever follows -
   so everything after the parser (vector prediction, dequantisation and placement, motion compensation, the transform) is a
   function of the field values alone. *)
From H263V Require Import base.Prelude model.Types model.Tables model.Reader model.Header model.Syntax model.F32 model.Recon model.Decoder
  spec.SpecHeader spec.SpecTables
  proofs.ReaderLemmas proofs.HeaderLemmas proofs.HeaderRoundTrip proofs.Frame proofs.VlcTables proofs.BlockRoundTrip proofs.MacroblockRoundTrip.
Require Import ZifyBool ZifyNat.

Inductive full_mb :=
| FStuffing
| FUncoded
| FCoded (m : mb_spec) (b0 b1 b2 b3 b4 b5 : block_spec).

Definition has_events (b : block_spec) : bool := negb (match b_events b with [] => true | _ => false end).
Definition blk (b : block_spec) : block := mkBlock (b_dc b) (map ev_tcoef (b_events b)).

Definition enc_full (ipic v1 : bool) (f : full_mb) : list bool :=
  match f with
  | FStuffing => enc_stuffing ipic
  | FUncoded => [true]
  | FCoded m b0 b1 b2 b3 b4 b5 =>
      enc_coded ipic m ++ enc_block v1 b0 ++ enc_block v1 b1 ++ enc_block v1 b2 ++ enc_block v1 b3 ++ enc_block v1 b4 ++ enc_block v1 b5
  end.

Definition wf_full (ipic v1 : bool) (f : full_mb) : Prop :=
  match f with
  | FStuffing => True
  | FUncoded => ipic = false
  | FCoded m b0 b1 b2 b3 b4 b5 =>
      wf_coded ipic m /\
      let intra := mb_is_intra (s_type m) in
      let luma := if intra then s_pattern m else map negb (s_pattern m) in
      wf_block v1 intra b0 /\ wf_block v1 intra b1 /\ wf_block v1 intra b2 /\ wf_block v1 intra b3 /\ wf_block v1 intra b4 /\ wf_block v1 intra b5 /\
      nth 0 luma false = has_events b0 /\ nth 1 luma false = has_events b1 /\ nth 2 luma false = has_events b2 /\
      nth 3 luma false = has_events b3 /\ s_cb m = has_events b4 /\ s_cr m = has_events b5
  end.

(* decode_coded with the six blocks given instead of parsed; the reader is not touched *)
Definition coded_pure (np : decoded_picture) (running : Z) (mb_per_line levw : Z)
  (t : mbtype) (dq : option Z) (mvd : option mv) (addl : option (mv * mv * mv)) (b0 b1 b2 b3 b4 b5 : block)
  (st : mbloop) : res (mbloop * mv4) :=
  let n := zlength (l_types st) in
  let* col := rem_chk n mb_per_line in
  let* line := div_chk n mb_per_line in
  let px := col * 16 in
  let py := line * 16 in
  let quant := next_quant (l_quant st) dq in
  let* mvs :=
    (if mb_is_inter t then
       let mv1 := match mvd with Some m => m | None => mv_zero end in
       let* p1 := predict_candidate (l_pvs st) mv4_zero mb_per_line 0 in
       let v0 := mv_decode np running p1 mv1 in
       let cur := mv4_set mv4_zero 0 v0 in
       match addl with
       | Some (m2, m3, m4) =>
           let* p2 := predict_candidate (l_pvs st) cur mb_per_line 1 in
           let cur := mv4_set cur 1 (mv_decode np running p2 m2) in
           let* p3 := predict_candidate (l_pvs st) cur mb_per_line 2 in
           let cur := mv4_set cur 2 (mv_decode np running p3 m3) in
           let* p4 := predict_candidate (l_pvs st) cur mb_per_line 3 in
           Ok (mv4_set cur 3 (mv_decode np running p4 m4))
       | None => Ok (v0, v0, v0, v0)
       end
     else Ok mv4_zero) in
  let lbl := levw / 8 in
  let* luma := inverse_rle b0 (l_luma st) px py lbl quant in
  let* luma := inverse_rle b1 luma (px + 8) py lbl quant in
  let* luma := inverse_rle b2 luma px (py + 8) lbl quant in
  let* luma := inverse_rle b3 luma (px + 8) (py + 8) lbl quant in
  let* cb := inverse_rle b4 (l_cb st) (px / 2) (py / 2) mb_per_line quant in
  let* cr := inverse_rle b5 (l_cr st) (px / 2) (py / 2) mb_per_line quant in
  Ok (mkLoop (l_reader st) quant (l_pvs st) (l_types st) luma cb cr, mvs).

Definition with_reader (st : mbloop) (r : reader) : mbloop :=
  mkLoop r (l_quant st) (l_pvs st) (l_types st) (l_luma st) (l_cb st) (l_cr st).

Definition res_with {A} (x : res (mbloop * A)) (r : reader) : res (mbloop * A) :=
  match x with Ok (st, a) => Ok (with_reader st r, a) | Err e => Err e | Panic p => Panic p | OutOfFuel => OutOfFuel end.

Lemma decode_coded_roundtrip o np running mpl levw m b0 b1 b2 b3 b4 b5 st rest pos :
  let v1 := sorenson o && (match version (d_header np) with Some 1 => true | _ => false end) in
  let intra := mb_is_intra (s_type m) in
  let luma := if intra then s_pattern m else map negb (s_pattern m) in
  wf_block v1 intra b0 -> wf_block v1 intra b1 -> wf_block v1 intra b2 -> wf_block v1 intra b3 -> wf_block v1 intra b4 -> wf_block v1 intra b5 ->
  nth 0 luma false = has_events b0 -> nth 1 luma false = has_events b1 -> nth 2 luma false = has_events b2 ->
  nth 3 luma false = has_events b3 -> s_cb m = has_events b4 -> s_cr m = has_events b5 ->
  l_reader st = mkReader (enc_block v1 b0 ++ enc_block v1 b1 ++ enc_block v1 b2 ++ enc_block v1 b3 ++ enc_block v1 b4 ++ enc_block v1 b5 ++ rest) pos ->
  exists pos',
    decode_coded o np running mpl levw (s_type m) (mkCbp luma (s_cb m) (s_cr m))
      (match s_dquant m with Some (_, v) => Some v | None => None end)
      (match s_mvd m with Some v => Some (m_x v, m_y v) | None => None end)
      (match s_addl m with Some (a, b, c) => Some ((m_x a, m_y a), (m_x b, m_y b), (m_x c, m_y c)) | None => None end) st
    = res_with (coded_pure np running mpl levw (s_type m)
                  (match s_dquant m with Some (_, v) => Some v | None => None end)
                  (match s_mvd m with Some v => Some (m_x v, m_y v) | None => None end)
                  (match s_addl m with Some (a, b, c) => Some ((m_x a, m_y a), (m_x b, m_y b), (m_x c, m_y c)) | None => None end)
                  (blk b0) (blk b1) (blk b2) (blk b3) (blk b4) (blk b5) st) (mkReader rest pos').
Proof.
  intros v1 intra luma W0 W1 W2 W3 W4 W5 P0 P1 P2 P3 P4 P5 Hr.
  unfold decode_coded, coded_pure. cbn [codes_luma codes_chroma_b codes_chroma_r]. rewrite Hr.
  destruct (rem_chk (zlength (l_types st)) mpl) as [col| | |]; cbn [bind res_with]; eauto.
  destruct (div_chk (zlength (l_types st)) mpl) as [line| | |]; cbn [bind res_with]; eauto.
  cbv zeta.
  match goal with |- context [bind ?X _] => destruct X as [mvs| | |] end; cbn [bind res_with]; eauto.
  fold luma. rewrite P0, P1, P2, P3, P4, P5. fold v1.
  destruct (block_roundtrip o (d_header np) running (s_type m) b0 (enc_block v1 b1 ++ enc_block v1 b2 ++ enc_block v1 b3 ++ enc_block v1 b4 ++ enc_block v1 b5 ++ rest) pos W0) as [q0 E0].
  unfold has_events. cbv zeta in E0. fold v1 in E0. rewrite E0. cbn [bind]. fold (blk b0).
  destruct (inverse_rle (blk b0) _ _ _ _ _) as [l0| | |]; cbn [bind res_with]; eauto.
  destruct (block_roundtrip o (d_header np) running (s_type m) b1 (enc_block v1 b2 ++ enc_block v1 b3 ++ enc_block v1 b4 ++ enc_block v1 b5 ++ rest) q0 W1) as [q1 E1].
  cbv zeta in E1. fold v1 in E1. rewrite E1. cbn [bind]. fold (blk b1).
  destruct (inverse_rle (blk b1) _ _ _ _ _) as [l1| | |]; cbn [bind res_with]; eauto.
  destruct (block_roundtrip o (d_header np) running (s_type m) b2 (enc_block v1 b3 ++ enc_block v1 b4 ++ enc_block v1 b5 ++ rest) q1 W2) as [q2 E2].
  cbv zeta in E2. fold v1 in E2. rewrite E2. cbn [bind]. fold (blk b2).
  destruct (inverse_rle (blk b2) _ _ _ _ _) as [l2| | |]; cbn [bind res_with]; eauto.
  destruct (block_roundtrip o (d_header np) running (s_type m) b3 (enc_block v1 b4 ++ enc_block v1 b5 ++ rest) q2 W3) as [q3 E3].
  cbv zeta in E3. fold v1 in E3. rewrite E3. cbn [bind]. fold (blk b3).
  destruct (inverse_rle (blk b3) _ _ _ _ _) as [l3| | |]; cbn [bind res_with]; eauto.
  destruct (block_roundtrip o (d_header np) running (s_type m) b4 (enc_block v1 b5 ++ rest) q3 W4) as [q4 E4].
  cbv zeta in E4. fold v1 in E4. rewrite E4. cbn [bind]. fold (blk b4).
  destruct (inverse_rle (blk b4) _ _ _ _ _) as [l4| | |]; cbn [bind res_with]; eauto.
  destruct (block_roundtrip o (d_header np) running (s_type m) b5 rest q4 W5) as [q5 E5].
  cbv zeta in E5. fold v1 in E5. rewrite E5. cbn [bind]. fold (blk b5).
  destruct (inverse_rle (blk b5) _ _ _ _ _) as [l5| | |]; cbn [bind res_with]; eauto.
  eexists. reflexivity.
Qed.

(* ---- the loop ---- *)
Definition push (st : mbloop) (mvs : mv4) (t : mbtype) : mbloop :=
  mkLoop (l_reader st) (l_quant st) (l_pvs st ++ [mvs]) (l_types st ++ [t]) (l_luma st) (l_cb st) (l_cr st).

Definition coded_of (np : decoded_picture) (running mpl levw : Z) (m : mb_spec) (b0 b1 b2 b3 b4 b5 : block_spec) (st : mbloop) :=
  coded_pure np running mpl levw (s_type m)
    (match s_dquant m with Some (_, v) => Some v | None => None end)
    (match s_mvd m with Some v => Some (m_x v, m_y v) | None => None end)
    (match s_addl m with Some (a, b, c) => Some ((m_x a, m_y a), (m_x b, m_y b), (m_x c, m_y c)) | None => None end)
    (blk b0) (blk b1) (blk b2) (blk b3) (blk b4) (blk b5) st.

Fixpoint pure_loop (np : decoded_picture) (running mpl levw : Z) (fms : list full_mb) (st : mbloop) : res mbloop :=
  match fms with
  | [] => Ok st
  | FStuffing :: r => pure_loop np running mpl levw r st
  | FUncoded :: r =>
      if is_iframe (picture_type (d_header np)) then Err EUncodedIFrameBlocks
      else pure_loop np running mpl levw r (push st mv4_zero Inter)
  | FCoded m b0 b1 b2 b3 b4 b5 :: r =>
      let* (st', mvs) := coded_of np running mpl levw m b0 b1 b2 b3 b4 b5 st in
      pure_loop np running mpl levw r (push st' mvs (s_type m))
  end.

(* the loop stops exactly when the list is exhausted *)
Fixpoint loop_ok (fms : list full_mb) (have total : Z) : Prop :=
  match fms with
  | [] => have = total
  | FStuffing :: r => have < total /\ loop_ok r have total
  | _ :: r => have < total /\ loop_ok r (have + 1) total
  end.

Definition rmap (x : res mbloop) (r : reader) : res mbloop :=
  match x with Ok st => Ok (with_reader st r) | Err e => Err e | Panic p => Panic p | OutOfFuel => OutOfFuel end.

Lemma coded_pure_reader np running mpl levw t dq mvd addl b0 b1 b2 b3 b4 b5 st r :
  coded_pure np running mpl levw t dq mvd addl b0 b1 b2 b3 b4 b5 (with_reader st r)
  = res_with (coded_pure np running mpl levw t dq mvd addl b0 b1 b2 b3 b4 b5 st) r.
Proof.
  unfold coded_pure. cbn [with_reader l_types l_quant l_pvs l_luma l_cb l_cr l_reader].
  destruct (rem_chk _ _) as [col| | |]; cbn [bind res_with]; try reflexivity.
  destruct (div_chk _ _) as [line| | |]; cbn [bind res_with]; try reflexivity. cbv zeta.
  match goal with |- context [bind ?X _] => destruct X as [mvs| | |] end; cbn [bind res_with]; try reflexivity.
  repeat (match goal with |- context [bind (inverse_rle ?a ?b ?c ?d ?e ?f) _] => destruct (inverse_rle a b c d e f) as [?| | |] end; cbn [bind res_with]; try reflexivity).
Qed.

Lemma with_reader_push st r mvs t : push (with_reader st r) mvs t = with_reader (push st mvs t) r.
Proof. reflexivity. Qed.
Lemma with_reader_twice st r r2 : with_reader (with_reader st r) r2 = with_reader st r2.
Proof. reflexivity. Qed.

Lemma pure_loop_reader np running mpl levw : forall fms st r,
  pure_loop np running mpl levw fms (with_reader st r) = rmap (pure_loop np running mpl levw fms st) r.
Proof.
  induction fms as [|f fms IH]; intros st r; cbn [pure_loop]; [reflexivity|].
  destruct f as [| |m b0 b1 b2 b3 b4 b5].
  - apply IH.
  - destruct (is_iframe _); [reflexivity|]. rewrite with_reader_push. apply IH.
  - unfold coded_of. rewrite coded_pure_reader.
    destruct (coded_pure _ _ _ _ _ _ _ _ _ _ _ _ _ _ st) as [[st' mvs]| | |]; cbn [res_with bind rmap]; try reflexivity.
    rewrite with_reader_push. apply IH.
Qed.

Lemma zlength_snoc {A} (l : list A) (x : A) : zlength (l ++ [x]) = zlength l + 1.
Proof. unfold zlength. rewrite app_length. cbn [length]. lia. Qed.

Definition enc_fulls (ipic v1 : bool) (fms : list full_mb) : list bool := flat_map (enc_full ipic v1) fms.

Theorem mb_loop_roundtrip o np running mpl total levw :
  let ipic := is_iframe (picture_type (d_header np)) in
  let v1 := sorenson o && (match version (d_header np) with Some 1 => true | _ => false end) in
  simple_picture (d_header np) running ->
  forall fms fuel st rest pos, Forall (wf_full ipic v1) fms -> loop_ok fms (zlength (l_types st)) total -> (length fms < fuel)%nat ->
  l_reader st = mkReader (enc_fulls ipic v1 fms ++ rest) pos ->
  exists pos', mb_loop fuel o np running mpl total levw st = rmap (pure_loop np running mpl levw fms st) (mkReader rest pos').
Proof.
  intros ipic v1 Hsp. induction fms as [|f fms IH]; intros fuel st rest pos Hwf Hok Hf Hr; (destruct fuel as [|fu]; [cbn in Hf; lia|]); cbn [mb_loop pure_loop loop_ok] in *.
  - (* list exhausted: the picture is complete *)
    destruct (total <=? zlength (l_types st)) eqn:E; [|lia]. exists pos. cbn [rmap]. f_equal. destruct st as [r0 q pv ty lu cb cr]. cbn [l_reader enc_fulls flat_map app] in Hr. subst. reflexivity.
  - inversion Hwf as [|? ? Hw Hwf']; subst.
    unfold enc_fulls in Hr. cbn [flat_map] in Hr. rewrite <- app_assoc in Hr. fold (enc_fulls ipic v1 fms) in Hr.
    destruct f as [| |m b0 b1 b2 b3 b4 b5]; cbn [enc_full] in Hr.
    + destruct Hok as [Hlt Hok]. destruct (total <=? zlength (l_types st)) eqn:E; [lia|].
      destruct Hsp as (Hpt & Hmq & Hu).
      destruct (stuffing_roundtrip (d_header np) running (enc_fulls ipic v1 fms ++ rest) pos Hpt) as [p1 E1].
      rewrite Hr. fold ipic in E1. rewrite E1.
      destruct (IH fu (mkLoop (mkReader (enc_fulls ipic v1 fms ++ rest) p1) (l_quant st) (l_pvs st) (l_types st) (l_luma st) (l_cb st) (l_cr st))
                  rest p1 Hwf' Hok ltac:(cbn [length] in Hf; lia) eq_refl) as [p2 E2].
      exists p2. rewrite E2. change (mkLoop (mkReader (enc_fulls ipic v1 fms ++ rest) p1) (l_quant st) (l_pvs st) (l_types st) (l_luma st) (l_cb st) (l_cr st))
        with (with_reader st (mkReader (enc_fulls ipic v1 fms ++ rest) p1)).
      rewrite pure_loop_reader. destruct (pure_loop np running mpl levw fms st); reflexivity.
    + destruct Hok as [Hlt Hok]. destruct (total <=? zlength (l_types st)) eqn:E; [lia|].
      cbn [wf_full] in Hw. cbn [app] in Hr. rewrite Hr.
      rewrite (uncoded_roundtrip (d_header np) running _ pos Hw).
      assert (Hif : is_iframe (picture_type (d_header np)) = false) by exact Hw. rewrite Hif.
      destruct (IH fu (mkLoop (mkReader (enc_fulls ipic v1 fms ++ rest) (pos + 1)) (l_quant st) (l_pvs st ++ [mv4_zero]) (l_types st ++ [Inter]) (l_luma st) (l_cb st) (l_cr st))
                  rest (pos + 1) Hwf') as [p2 E2].
      { cbn [l_types]. rewrite zlength_snoc. exact Hok. }
      { clear -Hf. cbn [length] in Hf. lia. }
      { reflexivity. }
      exists p2. rewrite E2.
      change (mkLoop (mkReader (enc_fulls ipic v1 fms ++ rest) (pos + 1)) (l_quant st) (l_pvs st ++ [mv4_zero]) (l_types st ++ [Inter]) (l_luma st) (l_cb st) (l_cr st))
        with (with_reader (push st mv4_zero Inter) (mkReader (enc_fulls ipic v1 fms ++ rest) (pos + 1))).
      rewrite pure_loop_reader. destruct (pure_loop np running mpl levw fms (push st mv4_zero Inter)); reflexivity.
    + destruct Hok as [Hlt Hok]. destruct (total <=? zlength (l_types st)) eqn:E; [lia|].
      cbn [wf_full] in Hw. destruct Hw as (Hwc & W0 & W1 & W2 & W3 & W4 & W5 & P0 & P1 & P2 & P3 & P4 & P5).
      rewrite <- !app_assoc in Hr.
      destruct (coded_macroblock_roundtrip (d_header np) running m
                  (enc_block v1 b0 ++ enc_block v1 b1 ++ enc_block v1 b2 ++ enc_block v1 b3 ++ enc_block v1 b4 ++ enc_block v1 b5 ++ enc_fulls ipic v1 fms ++ rest)
                  pos Hsp Hwc) as [p1 E1].
      rewrite Hr. fold ipic in E1. rewrite E1. unfold mb_of_spec.
      destruct (decode_coded_roundtrip o np running mpl levw m b0 b1 b2 b3 b4 b5
                  (mkLoop (mkReader (enc_block v1 b0 ++ enc_block v1 b1 ++ enc_block v1 b2 ++ enc_block v1 b3 ++ enc_block v1 b4 ++ enc_block v1 b5 ++ enc_fulls ipic v1 fms ++ rest) p1)
                          (l_quant st) (l_pvs st) (l_types st) (l_luma st) (l_cb st) (l_cr st))
                  (enc_fulls ipic v1 fms ++ rest) p1 W0 W1 W2 W3 W4 W5 P0 P1 P2 P3 P4 P5 eq_refl) as [p2 E2].
      cbv zeta in E2. fold v1 in E2. rewrite E2. clear E2.
      change (mkLoop (mkReader (enc_block v1 b0 ++ enc_block v1 b1 ++ enc_block v1 b2 ++ enc_block v1 b3 ++ enc_block v1 b4 ++ enc_block v1 b5 ++ enc_fulls ipic v1 fms ++ rest) p1)
                     (l_quant st) (l_pvs st) (l_types st) (l_luma st) (l_cb st) (l_cr st))
        with (with_reader st (mkReader (enc_block v1 b0 ++ enc_block v1 b1 ++ enc_block v1 b2 ++ enc_block v1 b3 ++ enc_block v1 b4 ++ enc_block v1 b5 ++ enc_fulls ipic v1 fms ++ rest) p1)).
      rewrite coded_pure_reader. unfold coded_of.
      destruct (coded_pure np running mpl levw (s_type m) _ _ _ (blk b0) (blk b1) (blk b2) (blk b3) (blk b4) (blk b5) st) as [[st' mvs]| | |] eqn:Ecp;
        cbn [res_with bind rmap]; eauto.
      assert (Hty : l_types st' = l_types st).
      { unfold coded_pure in Ecp. repeat (match type of Ecp with bind ?X _ = Ok _ => destruct X as [?| | |]; cbn [bind] in Ecp; try discriminate end; cbv zeta in Ecp).
        inversion Ecp; subst. reflexivity. }
      destruct (IH fu (mkLoop (mkReader (enc_fulls ipic v1 fms ++ rest) p2) (l_quant st') (l_pvs st' ++ [mvs]) (l_types st' ++ [s_type m]) (l_luma st') (l_cb st') (l_cr st'))
                  rest p2 Hwf') as [p3 E3].
      { cbn [l_types]. rewrite Hty, zlength_snoc. exact Hok. }
      { clear -Hf. cbn [length] in Hf. lia. }
      { reflexivity. }
      exists p3. cbn [with_reader l_reader l_quant l_pvs l_types l_luma l_cb l_cr]. rewrite E3.
      change (mkLoop (mkReader (enc_fulls ipic v1 fms ++ rest) p2) (l_quant st') (l_pvs st' ++ [mvs]) (l_types st' ++ [s_type m]) (l_luma st') (l_cb st') (l_cr st'))
        with (with_reader (push st' mvs (s_type m)) (mkReader (enc_fulls ipic v1 fms ++ rest) p2)).
      rewrite pure_loop_reader. destruct (pure_loop np running mpl levw fms (push st' mvs (s_type m))); reflexivity.
Qed.
