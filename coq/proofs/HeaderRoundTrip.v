(* C06: round trip of picture headers: the parser model applied to the encoding of any well-formed header,
   followed by arbitrary bits, returns exactly that header's fields and leaves exactly the following bits. *)
From H263V Require Import base.Prelude model.Types model.Tables model.Reader model.Header spec.SpecHeader
  proofs.ReaderLemmas proofs.HeaderLemmas.

(* ---- n-bit fields ---- *)
Lemma bits_of_ext : forall n v v', (forall k, 0 <= k < Z.of_nat n -> Z.testbit v k = Z.testbit v' k) -> bits_of n v = bits_of n v'.
Proof.
  induction n as [|n IH]; intros v v' H; [reflexivity|]. cbn [bits_of]. f_equal.
  - apply H. lia.
  - apply IH. intros k Hk. apply H. lia.
Qed.
Lemma bits_of_mod : forall n v, bits_of n (v mod 2 ^ Z.of_nat n) = bits_of n v.
Proof. intros n v. apply bits_of_ext. intros k Hk. apply Z.mod_pow2_bits_low. lia. Qed.

Lemma take_bits_of : forall n acc v rest, 0 <= v < 2 ^ Z.of_nat n ->
  take_bits n acc (bits_of n v ++ rest) = Some (acc * 2 ^ Z.of_nat n + v, rest).
Proof.
  induction n as [|n IH]; intros acc v rest Hv.
  - cbn. f_equal. f_equal. cbn in Hv. lia.
  - cbn [bits_of app take_bits].
    assert (Hp : 0 < 2 ^ Z.of_nat n) by (apply Z.pow_pos_nonneg; lia).
    rewrite <- bits_of_mod. rewrite IH by (apply Z.mod_pos_bound; exact Hp).
    f_equal. f_equal.
    rewrite Nat2Z.inj_succ, Z.pow_succ_r in * by lia.
    assert (Hb : (if Z.testbit v (Z.of_nat n) then 1 else 0) = v / 2 ^ Z.of_nat n).
    { pose proof (Z.testbit_spec' v (Z.of_nat n) ltac:(lia)) as Hs.
      assert (0 <= v / 2 ^ Z.of_nat n < 2) by (split; [apply Z.div_pos; lia|apply Z.div_lt_upper_bound; lia]).
      rewrite Z.mod_small in Hs by lia. destruct (Z.testbit v (Z.of_nat n)); cbn in Hs; lia. }
    rewrite Hb. pose proof (Z.div_mod v (2 ^ Z.of_nat n) ltac:(lia)). nia.
Qed.

Lemma read_bits_of w n v rest pos : 0 <= n <= w -> 0 <= v < 2 ^ n ->
  read_bits w n (mkReader (bits_of (Z.to_nat n) v ++ rest) pos) = Ok (v, mkReader rest (pos + n)).
Proof.
  intros Hn Hv. unfold read_bits, peek_bits, skip_bits. cbn [rbits rpos].
  destruct (w <? n) eqn:E; [lia|].
  rewrite take_bits_of by (rewrite Z2Nat.id by lia; exact Hv). cbn [bind].
  replace (0 * 2 ^ Z.of_nat (Z.to_nat n) + v) with v by lia. reflexivity.
Qed.

Lemma read_bits_ofn w nz n v rest pos : nz = Z.of_nat n -> nz <= w -> 0 <= v < 2 ^ nz ->
  read_bits w nz (mkReader (bits_of n v ++ rest) pos) = Ok (v, mkReader rest (pos + nz)).
Proof.
  intros -> Hw Hv. pose proof (read_bits_of w (Z.of_nat n) v rest pos ltac:(lia) Hv) as H.
  rewrite Nat2Z.id in H. exact H.
Qed.
Ltac rdn := rewrite read_bits_ofn by (first [reflexivity | lia | cbn; lia]); cbn [bind].

Lemma read_bit b rest pos :
  read_bits 8 1 (mkReader (b :: rest) pos) = Ok ((if b then 1 else 0), mkReader rest (pos + 1)).
Proof.
  replace (b :: rest) with (bits_of (Z.to_nat 1) (if b then 1 else 0) ++ rest) by (destruct b; reflexivity).
  apply read_bits_of; [lia|destruct b; cbn; lia].
Qed.

Lemma start_code_is_bits : start_code = bits_of 17 1.
Proof. reflexivity. Qed.

Lemma start_code_here rest pos : recognize_start_code false (mkReader (start_code ++ rest) pos) = Ok (Some 0).
Proof.
  unfold recognize_start_code. cbn [start_code_go rbits length]. unfold peek_bits. cbn [rbits].
  change (32 <? 17) with false. cbn iota.
  rewrite start_code_is_bits. change (Z.to_nat 17) with 17%nat.
  rewrite take_bits_of by (cbn; lia). cbn [bind]. reflexivity.
Qed.

Lemma skip_start_code rest pos : skip_bits (17 + 0) (mkReader (start_code ++ rest) pos) = Ok (mkReader rest (pos + 17)).
Proof.
  unfold skip_bits. cbn [rbits rpos]. rewrite start_code_is_bits. change (Z.to_nat (17 + 0)) with 17%nat.
  rewrite take_bits_of by (cbn; lia). f_equal.
Qed.

Lemma decode_pei_enc : forall extra fuel acc rest pos, Forall byte_ok extra -> (length extra < fuel)%nat ->
  exists pos', decode_pei fuel acc (mkReader (enc_pei extra ++ rest) pos) = Ok (acc ++ extra, mkReader rest pos').
Proof.
  induction extra as [|b extra IH]; intros fuel acc rest pos Hb Hf; (destruct fuel as [|f]; [cbn in Hf; lia|]); cbn [decode_pei enc_pei app].
  - rewrite read_bit. cbn [bind Z.eqb]. rewrite app_nil_r. eauto.
  - rewrite read_bit. cbn [bind]. change (1 =? 1) with true. cbn iota.
    unfold read_u8. rewrite <- app_assoc.
    change 8%nat with (Z.to_nat 8). rewrite read_bits_of; [|lia|inversion Hb; subst; unfold byte_ok in *; cbn; lia].
    cbn [bind]. destruct (IH f (acc ++ [b]) rest (pos + 1 + 8) ltac:(inversion Hb; assumption) ltac:(cbn in Hf; lia)) as [pos' E].
    rewrite E. rewrite <- app_assoc. cbn [app]. eauto.
Qed.

Ltac rd n := change n%nat with (Z.to_nat (Z.of_nat n)); rewrite read_bits_of; [cbn [bind]|cbn; lia|cbn; lia].

(* ---- Sorenson Spark ---- *)
Theorem sorenson_roundtrip h prev scal rest pos :
  wf_sorenson h ->
  exists pos', decode_picture (mkOpts true scal) prev (mkReader (enc_sorenson h ++ rest) pos)
               = Ok (Some (picture_of_sorenson h), mkReader rest pos').
Proof.
  intros (Hv & Ht & Hs & Hty & Hq & He). unfold decode_picture, enc_sorenson.
  rewrite <- !app_assoc. rewrite start_code_here. cbn [bind]. rewrite skip_start_code. cbn [bind sorenson].
  change 5%nat with (Z.to_nat 5). rewrite read_bits_of by (cbn; lia). cbn [bind].
  unfold read_u8. change 8%nat with (Z.to_nat 8). rewrite read_bits_of by (cbn; lia). cbn [bind].
  (* size, type, deblock *)
  assert (Hsz : forall tail p0, exists p1,
            decode_sorenson_ptype (mkReader (enc_sor_size (s_size h) ++ bits_of 2 (s_type h) ++ [s_deblock h] ++ tail) p0)
            = Ok ((sor_format (s_size h), sor_type (s_type h), if s_deblock h then USE_DEBLOCKER else 0), mkReader tail p1)).
  { intros tail p0. unfold decode_sorenson_ptype.
    assert (Hfin : forall (fmt : source_format) p2, exists p1,
      (let* (t, r) := read_bits 32 2 (mkReader (bits_of 2 (s_type h) ++ [s_deblock h] ++ tail) p2) in
       let ty := if t =? 0 then IFrame else if t =? 1 then PFrame else if t =? 2 then DisposablePFrame else PtReserved t in
       let* (d, r) := read_bits 8 1 r in Ok ((fmt, ty, flag_if (d =? 1) USE_DEBLOCKER), r))
      = Ok ((fmt, sor_type (s_type h), if s_deblock h then USE_DEBLOCKER else 0), mkReader tail p1)).
    { intros fmt p2. change 2%nat with (Z.to_nat 2). rewrite read_bits_of by (cbn; lia). cbn [bind]. cbv zeta.
      cbn [app]. rewrite read_bit. cbn [bind]. eexists. f_equal. f_equal. f_equal.
      destruct (s_deblock h); reflexivity. }
    destruct (s_size h) as [w0 h0|w0 h0| | | | | |] eqn:Es; cbn [enc_sor_size sor_format]; rewrite <- ?app_assoc;
      change 3%nat with (Z.to_nat 3); rewrite read_bits_of by (cbn; lia); cbn [bind Z.eqb orb Pos.eqb]; cbv zeta.
    - cbn [wf_sor_size] in Hs. destruct Hs as [Hw0 Hh0].
      change 8%nat with (Z.to_nat 8). rewrite read_bits_of by (cbn; lia). cbn [bind].
      rewrite read_bits_of by (cbn; lia). cbn [bind]. apply Hfin.
    - cbn [wf_sor_size] in Hs. destruct Hs as [Hw0 Hh0].
      change 16%nat with (Z.to_nat 16). rewrite read_bits_of by (cbn; lia). cbn [bind].
      rewrite read_bits_of by (cbn; lia). cbn [bind]. apply Hfin.
    - apply Hfin.
    - apply Hfin.
    - apply Hfin.
    - apply Hfin.
    - apply Hfin.
    - apply Hfin. }
  destruct (Hsz (bits_of (Z.to_nat 5) (s_quant h) ++ enc_pei (s_extra h) ++ rest) (pos + 17 + 5 + 8)) as [p1 E1].
  rewrite E1. cbn [bind].
  rewrite read_bits_of by (cbn; lia). cbn [bind].
  destruct (decode_pei_enc (s_extra h) (S (length (rbits (mkReader (enc_pei (s_extra h) ++ rest) (p1 + 5))))) [] rest (p1 + 5) He) as [p2 E2].
  { cbn [rbits]. rewrite app_length. clear. induction (s_extra h); cbn; lia. }
  rewrite E2. cbn [bind app]. eexists. reflexivity.
Qed.

(* ---- baseline H.263 PTYPE ---- *)
Definition b2z (b : bool) : Z := if b then 1 else 0.
Definition ptype_hi (s d f : bool) (sf : Z) : Z := 128 + 32 * b2z s + 16 * b2z d + 8 * b2z f + sf.
Definition ptype_lo (i u sa a p : bool) : Z := 16 * b2z i + 8 * b2z u + 4 * b2z sa + 2 * b2z a + b2z p.

Lemma small_cases8 sf : 0 <= sf < 8 -> sf = 0 \/ sf = 1 \/ sf = 2 \/ sf = 3 \/ sf = 4 \/ sf = 5 \/ sf = 6 \/ sf = 7.
Proof. lia. Qed.

Lemma enc_hi s d f sf : 0 <= sf < 8 -> [true; false; s; d; f] ++ bits_of 3 sf = bits_of 8 (ptype_hi s d f sf).
Proof.
  intros H. destruct (small_cases8 sf H) as [-> | [-> | [-> | [-> | [-> | [-> | [-> | ->]]]]]]];
  destruct s, d, f; reflexivity.
Qed.
Lemma hi_facts s d f sf : 0 <= sf < 8 ->
  let hi := ptype_hi s d f sf in
  Z.land hi 192 = 128 /\ tb hi 5 = s /\ tb hi 4 = d /\ tb hi 3 = f /\ Z.land hi 7 = sf /\ 0 <= hi < 256.
Proof.
  intros H. destruct (small_cases8 sf H) as [-> | [-> | [-> | [-> | [-> | [-> | [-> | ->]]]]]]];
  destruct s, d, f; cbv; repeat split; congruence.
Qed.
Lemma enc_lo i u sa a p : [i; u; sa; a; p] = bits_of 5 (ptype_lo i u sa a p).
Proof. destruct i, u, sa, a, p; reflexivity. Qed.
Lemma lo_facts i u sa a p :
  let lo := ptype_lo i u sa a p in
  tb lo 4 = i /\ tb lo 3 = u /\ tb lo 2 = sa /\ tb lo 1 = a /\ tb lo 0 = p /\ 0 <= lo < 32.
Proof. destruct i, u, sa, a, p; cbv; repeat split; congruence. Qed.

Lemma std_opts_no_plus_flags s d f u sa a :
  let o := flag_if s USE_SPLIT_SCREEN + flag_if d USE_DOCUMENT_CAMERA + flag_if f RELEASE_FULL_PICTURE_FREEZE
           + flag_if u UNRESTRICTED_MOTION_VECTORS + flag_if sa SYNTAX_BASED_ARITHMETIC_CODING + flag_if a ADVANCED_PREDICTION in
  has o REFERENCE_PICTURE_SELECTION = false /\ has o REFERENCE_PICTURE_RESAMPLING = false.
Proof. destruct s, d, f, u, sa, a; cbv; split; reflexivity. Qed.

(* no reference-picture resampling is signalled: the previous header, if it transmitted a format, transmitted this one *)
Definition prev_compatible (prev : option picture) (fmt : option source_format) : Prop :=
  match prev with
  | None => True
  | Some p => match format p, fmt with Some _, Some _ => format_eqb (format p) fmt = true | _, _ => True end
  end.
Lemma rprp_not_needed (ty : ptype_code) prev fmt : prev_compatible prev fmt ->
  negb (match ty with IFrame => true | _ => false end) &&
  (match prev with
   | Some p => match format p, fmt with Some _, Some _ => negb (format_eqb (format p) fmt) | _, _ => false end
   | None => false
   end) = false.
Proof.
  intros H. apply Bool.andb_false_intro2.
  destruct prev as [p|]; [|reflexivity]. unfold prev_compatible in H.
  destruct (format p) as [a|]; destruct fmt as [b|]; try reflexivity. rewrite H. reflexivity.
Qed.
(* an INTRA picture may change the format *)
Lemma rprp_not_needed_intra prev fmt :
  negb (match IFrame with IFrame => true | _ => false end) &&
  (match prev with
   | Some p => match format p, fmt with Some _, Some _ => negb (format_eqb (format p) fmt) | _, _ => false end
   | None => false
   end) = false.
Proof. reflexivity. Qed.

Theorem std_roundtrip h prev scal rest pos :
  wf_std h -> (t_pb h = false /\ t_inter h = false) \/ prev_compatible prev (Some (std_format (t_srcfmt h))) -> scal = false ->
  exists pos', decode_picture (mkOpts false scal) prev (mkReader (enc_std h ++ rest) pos)
               = Ok (Some (picture_of_std h), mkReader rest pos').
Proof.
  intros (Htr & Hsf & Hq & Hcpm & Htrb & Hdbq & He) Hprev ->. unfold decode_picture, enc_std.
  rewrite <- !app_assoc. rewrite start_code_here. cbn [bind]. rewrite skip_start_code. cbn [bind sorenson].
  rdn. change (negb (0 =? 0)) with false. cbn iota.
  unfold read_u8. rdn.
  (* PTYPE *)
  unfold decode_ptype, read_u8.
  rewrite (app_assoc [true; false; t_split h; t_doccam h; t_freeze h]). rewrite enc_hi by lia.
  destruct (hi_facts (t_split h) (t_doccam h) (t_freeze h) (t_srcfmt h) ltac:(lia)) as (F1 & F2 & F3 & F4 & F5 & F6).
  rdn.
  rewrite F1. change (negb (128 =? 128)) with false. cbn iota. rewrite F5.
  destruct (t_srcfmt h =? 0) eqn:E0; [lia|]. destruct (t_srcfmt h =? 7) eqn:E7; [lia|].
  rewrite enc_lo.
  destruct (lo_facts (t_inter h) (t_umv h) (t_sac h) (t_ap h) (t_pb h)) as (G1 & G2 & G3 & G4 & G5 & G6).
  rdn.
  rewrite F2, F3, F4, G1, G2, G3, G4, G5.
  cbn [f_custom_format f_custom_clock f_mv_range f_slice_submode f_rps_mode no_followers scalability bind].
  destruct (std_opts_no_plus_flags (t_split h) (t_doccam h) (t_freeze h) (t_umv h) (t_sac h) (t_ap h)) as [N1 N2].
  cbv zeta in N1, N2. rewrite N1, N2. cbn [bind orb].
  (* RPRP is needed only if the previous header transmitted a different format *)
  match goal with |- context [if ?X then Err EUnimplemented else _] =>
    replace X with false by (symmetry; destruct Hprev as [[Hpb Hi]|Hp]; [rewrite Hpb, Hi; reflexivity|exact (rprp_not_needed _ _ _ Hp)]) end.
  cbn [bind].
  rdn.
  (* CPM / PSBI *)
  unfold decode_cpm_and_psbi.
  assert (Hcpmr : forall tail p0, exists p1,
     (let* (cpm, r) := read_bits 8 1 (mkReader ((match t_cpm h with None => [false] | Some p => true :: bits_of 2 p end) ++ tail) p0) in
      if negb (cpm =? 0) then let* (psbi, r) := read_bits 8 2 r in Ok (Some psbi, r) else Ok (None, r))
     = Ok (t_cpm h, mkReader tail p1)).
  { intros tail p0. destruct (t_cpm h) as [p|]; cbn [app]; rewrite read_bit; cbn [bind negb Z.eqb].
    - rdn. eauto.
    - eauto. }
  match goal with |- context [read_bits 8 1 (mkReader (_ ++ ?tail) ?p0)] => destruct (Hcpmr tail p0) as [p1 E1] end.
  rewrite E1. cbn [bind].
  (* PB: TRB and DBQUANT *)
  destruct (t_pb h) eqn:Epb.
  - cbn iota. rewrite <- app_assoc.
    rdn.
    rdn.
    destruct (decode_pei_enc (t_extra h) (S (length (enc_pei (t_extra h) ++ rest))) [] rest (p1 + 3 + 2) He) as [p2 E2].
    { rewrite app_length. clear. induction (t_extra h); cbn; lia. }
    cbn [rbits]. rewrite E2. cbn [bind app]. eexists. unfold picture_of_std. rewrite Epb. reflexivity.
  - cbn iota. cbn [app].
    assert (Hty : (if t_inter h then PFrame else IFrame) = (if t_inter h then PFrame else IFrame)) by reflexivity.
    destruct (t_inter h) eqn:Ei; cbn [bind];
    (destruct (decode_pei_enc (t_extra h) (S (length (enc_pei (t_extra h) ++ rest))) [] rest p1 He) as [p2 E2];
     [rewrite app_length; clear; induction (t_extra h); cbn; lia|];
     cbn [rbits]; rewrite E2; cbn [bind app]; eexists; unfold picture_of_std; rewrite Epb, Ei; reflexivity).
Qed.
