(* C02 / C03: the block layer.  An encoder of H.263 5.4 (INTRADC; TCOEF events in the short form of Table 16 and in the escape
   forms of H.263 / Sorenson version 0 (8-bit level) and Sorenson version 1 (7- or 11-bit level)) and the theorem that the
   block parser returns exactly the encoded block and stops exactly behind it, whatever follows. *)
From H263V Require Import base.Prelude model.Types model.Tables model.Reader model.Header model.Syntax spec.SpecHeader spec.SpecTables
  proofs.ReaderLemmas proofs.HeaderLemmas proofs.HeaderRoundTrip proofs.BitFields proofs.Frame proofs.VlcTables.
Require Import ZifyBool ZifyNat.

(* ---- signed fields ---- *)
Lemma read_signed_of w n v rest pos : 0 < n <= w -> - 2 ^ (n - 1) <= v < 2 ^ (n - 1) ->
  read_signed_bits w n (mkReader (bits_of (Z.to_nat n) (v mod 2 ^ n) ++ rest) pos) = Ok (v, mkReader rest (pos + n)).
Proof.
  intros Hn Hv. unfold read_signed_bits, peek_signed_bits.
  assert (P : 2 ^ n = 2 * 2 ^ (n - 1)) by (rewrite <- Z.pow_succ_r by lia; f_equal; lia).
  assert (P0 : 0 < 2 ^ (n - 1)) by (apply Z.pow_pos_nonneg; lia).
  assert (Hm : 0 <= v mod 2 ^ n < 2 ^ n) by (apply Z.mod_pos_bound; lia).
  pose proof (read_bits_of w n (v mod 2 ^ n) rest pos ltac:(lia) Hm) as R.
  unfold read_bits in R. destruct (peek_bits w n (mkReader (bits_of (Z.to_nat n) (v mod 2 ^ n) ++ rest) pos)) as [u| | |] eqn:Ep; cbn [bind] in R; try discriminate.
  destruct (skip_bits n (mkReader (bits_of (Z.to_nat n) (v mod 2 ^ n) ++ rest) pos)) as [r'| | |] eqn:Es; cbn [bind] in R; try discriminate.
  inversion R; subst u r'. cbn [bind]. destruct (n =? 0) eqn:E0; [lia|].
  assert (Mneg : v < 0 -> v mod 2 ^ n = v + 2 ^ n).
  { intros Hneg. rewrite <- (Z.mod_add v 1 (2 ^ n)) by lia. rewrite Z.mod_small by lia. lia. }
  (* the top bit of v mod 2^n is set exactly when v is negative *)
  assert (Hb : Z.testbit (v mod 2 ^ n) (n - 1) = (v <? 0)).
  { destruct (v <? 0) eqn:Ev.
    - apply Z.testbit_true; [lia|].
      rewrite Mneg by lia.
      replace (v + 2 ^ n) with (1 * 2 ^ (n - 1) + (v + 2 ^ (n - 1))) by lia.
      rewrite Z.div_add_l by lia. rewrite Z.div_small by lia. reflexivity.
    - apply Z.testbit_false; [lia|]. rewrite (Z.mod_small v (2 ^ n)) by lia. rewrite Z.div_small by lia. reflexivity. }
  rewrite Hb. destruct (v <? 0) eqn:Ev; cbn [bind].
  - f_equal. f_equal. rewrite Mneg by lia. lia.
  - f_equal. f_equal. apply Z.mod_small. lia.
Qed.

(* ---- events ---- *)
Inductive event :=
| EvShort (code : list bool) (last : bool) (run level : Z) (negative : bool)    (* Table 16 code word + sign bit *)
| EvEscape (last : bool) (run level : Z) (long : bool).                         (* long: the 11-bit form of Sorenson version 1 *)

Definition ev_last (e : event) : bool := match e with EvShort _ l _ _ _ => l | EvEscape l _ _ _ => l end.
Definition ev_tcoef (e : event) : tcoef :=
  match e with
  | EvShort _ _ run level neg => mkTcoef true run (if neg then - level else level)
  | EvEscape _ run level _ => mkTcoef false run level
  end.
Definition esc_width (v1 long : bool) : Z := if v1 then (if long then 11 else 7) else 8.
Definition enc_event (v1 : bool) (e : event) : list bool :=
  match e with
  | EvShort code _ _ _ neg => code ++ [neg]
  | EvEscape last run level long =>
      spec_tcoef_escape ++ (if v1 then [long] else []) ++ [last] ++ bits_of 6 run
      ++ bits_of (Z.to_nat (esc_width v1 long)) (level mod 2 ^ esc_width v1 long)
  end.
Definition wf_event (v1 : bool) (e : event) : Prop :=
  match e with
  | EvShort code last run level _ => In (code, (last, run, level)) spec_tcoef
  | EvEscape _ run level long =>
      0 <= run < 64 /\ level <> 0 /\ - 2 ^ (esc_width v1 long - 1) <= level < 2 ^ (esc_width v1 long - 1)
  end.

Lemma tcoef_step v1 e f running acc rest pos : wf_event v1 e ->
  exists pos',
    tcoef_go (S f) v1 running acc (mkReader (enc_event v1 e ++ rest) pos) =
    if ev_last e then Ok (acc ++ [ev_tcoef e], mkReader rest pos')
    else tcoef_go f v1 running (acc ++ [ev_tcoef e]) (mkReader rest pos').
Proof.
  intros Hwf. cbn [tcoef_go].
  destruct e as [code last run level neg|last run level long]; cbn [enc_event wf_event ev_tcoef ev_last] in *.
  - rewrite <- app_assoc. rewrite (tcoef_is_table16 code last run level _ pos Hwf). cbn [bind app].
    rewrite read_bit. cbn [bind]. cbv zeta. eexists.
    replace (if (if neg then 1 else 0) =? 0 then level else - level) with (if neg then - level else level) by (destruct neg; reflexivity).
    reflexivity.
  - destruct Hwf as (Hr & Hl & Hv).
    assert (Hw : 0 < esc_width v1 long <= 16) by (unfold esc_width; destruct v1, long; lia).
    destruct v1; rewrite <- !app_assoc; rewrite tcoef_escape_code; cbn [bind].
    + cbn [app]. rewrite read_bit. cbn [bind]. rewrite read_bit. cbn [bind]. rdn.
      replace (if (if long then 1 else 0) =? 1 then 11 else 7) with (esc_width true long) by (destruct long; reflexivity).
      rewrite read_signed_of by assumption. cbn [bind].
      destruct (level =? 0) eqn:E; [lia|]. cbv zeta. eexists. destruct last; reflexivity.
    + cbn [app]. rewrite read_bit. cbn [bind]. rdn. change (esc_width false long) with 8 in *.
      rewrite read_signed_of by (first [assumption | lia]). cbn [bind].
      destruct (level =? 0) eqn:E; [lia|]. cbv zeta. eexists. destruct last; reflexivity.
Qed.

Definition enc_events (v1 : bool) (es : list event) : list bool := flat_map (enc_event v1) es.
Fixpoint wf_events (v1 : bool) (es : list event) : Prop :=
  match es with
  | [] => False
  | [e] => wf_event v1 e /\ ev_last e = true
  | e :: rest => wf_event v1 e /\ ev_last e = false /\ wf_events v1 rest
  end.

Theorem tcoef_go_roundtrip v1 running : forall es fuel acc rest pos, wf_events v1 es -> (length es <= fuel)%nat ->
  exists pos', tcoef_go fuel v1 running acc (mkReader (enc_events v1 es ++ rest) pos) = Ok (acc ++ map ev_tcoef es, mkReader rest pos').
Proof.
  induction es as [|e es IH]; intros fuel acc rest pos Hwf Hf; [contradiction|].
  destruct fuel as [|f]; [cbn in Hf; lia|]. unfold enc_events. cbn [flat_map]. rewrite <- app_assoc.
  destruct es as [|e2 es2].
  - destruct Hwf as [Hw Hl]. destruct (tcoef_step v1 e f running acc (flat_map (enc_event v1) [] ++ rest) pos Hw) as [p' E].
    rewrite E, Hl. cbn [flat_map app map]. eauto.
  - destruct Hwf as (Hw & Hl & Hrest). destruct (tcoef_step v1 e f running acc (flat_map (enc_event v1) (e2 :: es2) ++ rest) pos Hw) as [p' E].
    rewrite E, Hl. destruct (IH f (acc ++ [ev_tcoef e]) rest p' Hrest ltac:(cbn [length] in *; lia)) as [p2 E2].
    unfold enc_events in E2. rewrite E2. rewrite <- app_assoc. cbn [app map]. eauto.
Qed.

(* ---- a whole block ---- *)
Record block_spec := mkBlockSpec { b_dc : option Z; b_events : list event }.
Definition enc_block (v1 : bool) (b : block_spec) : list bool :=
  (match b_dc b with Some c => bits_of 8 c | None => [] end) ++ enc_events v1 (b_events b).
Definition wf_block (v1 intra : bool) (b : block_spec) : Prop :=
  (if intra then exists c, b_dc b = Some c /\ 0 < c < 256 /\ c <> 128 else b_dc b = None) /\
  (b_events b = [] \/ wf_events v1 (b_events b)).

Lemma enc_events_length v1 es : (length es <= length (enc_events v1 es))%nat.
Proof.
  induction es as [|a l IHl]; [cbn; lia|]. unfold enc_events in *. cbn [flat_map length]. rewrite app_length.
  assert (1 <= length (enc_event v1 a))%nat by (destruct a; cbn [enc_event]; rewrite !app_length; cbn [length]; lia). lia.
Qed.

Theorem block_roundtrip o pic running t b rest pos :
  let v1 := sorenson o && (match version pic with Some 1 => true | _ => false end) in
  wf_block v1 (mb_is_intra t) b ->
  exists pos',
    decode_block o pic running t (negb (match b_events b with [] => true | _ => false end)) (mkReader (enc_block v1 b ++ rest) pos)
    = Ok (mkBlock (b_dc b) (map ev_tcoef (b_events b)), mkReader rest pos').
Proof.
  intros v1 (Hdc & Hev). unfold decode_block, enc_block. fold v1. rewrite <- app_assoc.
  assert (Hd : exists p1,
    (if mb_is_intra t
     then let* (v, r) := read_u8 (mkReader ((match b_dc b with Some c => bits_of 8 c | None => [] end) ++ enc_events v1 (b_events b) ++ rest) pos) in
          match intradc_from_u8 v with Some d => Ok (Some d, r) | None => Err EInvalidIntraDc end
     else Ok (None, mkReader ((match b_dc b with Some c => bits_of 8 c | None => [] end) ++ enc_events v1 (b_events b) ++ rest) pos))
    = Ok (b_dc b, mkReader (enc_events v1 (b_events b) ++ rest) p1)).
  { destruct (mb_is_intra t).
    - destruct Hdc as (c & Ec & Hc & Hc128). rewrite Ec. unfold read_u8. rdn. unfold intradc_from_u8.
      destruct (c =? 0) eqn:E0; [lia|]. destruct (c =? 128) eqn:E1; [lia|]. cbn [orb]. eauto.
    - rewrite Hdc. cbn [app]. eauto. }
  destruct Hd as [p1 Ed]. rewrite Ed. cbn [bind].
  destruct (b_events b) as [|e es] eqn:Ee.
  - cbn [negb]. cbn [enc_events flat_map app map]. eauto.
  - cbn [negb]. cbv zeta. fold v1. destruct Hev as [Hev|Hev]; [discriminate|].
    destruct (tcoef_go_roundtrip v1 running (e :: es) (S (length (enc_events v1 (e :: es) ++ rest))) [] rest p1 Hev) as [p2 E2].
    { rewrite app_length. pose proof (enc_events_length v1 (e :: es)). lia. }
    cbn [rbits]. rewrite E2. cbn [bind app]. eauto.
Qed.
