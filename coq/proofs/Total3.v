(* C01, part 3: index and arithmetic safety of reconstruction; decode_next_picture is total. *)
From H263V Require Import base.Prelude spec.SpecRecon model.Types model.Tables model.Reader model.Header model.Syntax model.F32 model.Recon
  model.Decoder proofs.ReaderLemmas proofs.HeaderLemmas proofs.Total1 proofs.Total2 proofs.PlaneShape proofs.MvSpec
  proofs.LoopBound proofs.DeblockShape proofs.StateRefine.
Require Import ZifyBool.
Ltac Zify.zify_post_hook ::= Z.div_mod_to_equations.

(* ---- checked list access ---- *)
Lemma get_ok {A} (l : list A) i : 0 <= i < zlength l -> exists a, get l i = Ok a.
Proof.
  intros H. unfold get. destruct (i <? 0) eqn:E; [lia|].
  destruct (nth_error l (Z.to_nat i)) as [a|] eqn:En; [eauto|].
  apply nth_error_None in En. unfold zlength in H. lia.
Qed.
Lemma set_nth_some {A} : forall (l : list A) n a, (n < length l)%nat -> exists l', set_nth l n a = Some l' /\ length l' = length l.
Proof.
  induction l as [|h t IH]; intros n a Hn; [cbn in Hn; lia|].
  destruct n as [|n]; cbn [set_nth]; [eexists; split; [reflexivity|reflexivity]|].
  destruct (IH n a ltac:(cbn in Hn; lia)) as (t' & E & L). rewrite E. eexists; split; [reflexivity|cbn; lia].
Qed.
Lemma set_ok {A} (l : list A) i a : 0 <= i < zlength l -> exists l', set l i a = Ok l' /\ zlength l' = zlength l.
Proof.
  intros H. unfold set. destruct (i <? 0) eqn:E; [lia|].
  destruct (set_nth_some l (Z.to_nat i) a) as (l' & E1 & L); [unfold zlength in H; lia|].
  rewrite E1. exists l'. split; [reflexivity|unfold zlength; lia].
Qed.

(* ---- loops with an index-dependent invariant ---- *)
Lemma for_go_safe {A} (P : A -> Prop) (f : Z -> A -> res A) :
  forall n lo a,
  (forall i a, lo <= i < lo + Z.of_nat n -> P a -> safe (f i a) /\ (forall a', f i a = Ok a' -> P a')) ->
  P a -> safe (for_go n lo f a) /\ (forall a', for_go n lo f a = Ok a' -> P a').
Proof.
  induction n as [|n IH]; intros lo a Hf Ha; cbn [for_go].
  - split; [exact I|]. intros a' H. inversion H; subst. exact Ha.
  - destruct (Hf lo a ltac:(lia) Ha) as [Hs Hp].
    destruct (f lo a) as [a1| | |] eqn:E; cbn [bind]; try (split; [exact I|discriminate]); try contradiction.
    apply IH; [|apply Hp; reflexivity]. intros i b Hi Hb. apply Hf; [lia|exact Hb].
Qed.
Lemma forZ_safe {A} (P : A -> Prop) (f : Z -> A -> res A) n a :
  (forall i a, 0 <= i < Z.max 0 n -> P a -> safe (f i a) /\ (forall a', f i a = Ok a' -> P a')) ->
  P a -> safe (forZ n f a) /\ (forall a', forZ n f a = Ok a' -> P a').
Proof. intros Hf Ha. unfold forZ. apply for_go_safe; [|exact Ha]. intros i b Hi Hb. apply Hf; [lia|exact Hb]. Qed.

(* ---- planes ---- *)
Lemma plane_len_ok w h p : 0 <= w -> 0 <= h -> plane_ok w h p -> plane_len p = w * h.
Proof. intros Hw Hh (H1 & H2 & _). unfold plane_len, zlength. rewrite H1, H2. lia. Qed.

Lemma pget_ok w h p idx : 0 <= w -> 0 <= h -> plane_ok w h p -> 0 <= idx < w * h -> exists v, pget p idx = Ok v.
Proof.
  intros Hw Hh Hp Hi. unfold pget. rewrite (plane_len_ok w h p Hw Hh Hp).
  destruct ((idx <? 0) || (w * h <=? idx)) eqn:E; [lia|]. eauto.
Qed.
Lemma pset_ok' w h p idx v : 0 <= w -> 0 <= h -> plane_ok w h p -> 0 <= idx < w * h ->
  exists p', pset p idx v = Ok p' /\ plane_ok w h p'.
Proof.
  intros Hw Hh Hp Hi. unfold pset. rewrite (plane_len_ok w h p Hw Hh Hp).
  destruct ((idx <? 0) || (w * h <=? idx)) eqn:E; [lia|].
  eexists. split; [reflexivity|]. eapply pset_ok; [exact Hp|]. unfold pset. rewrite (plane_len_ok w h p Hw Hh Hp), E. reflexivity.
Qed.

Lemma read_sample_ok w h p x y : 1 <= w -> 1 <= h -> plane_ok w h p -> exists v, read_sample p w h x y = Ok v.
Proof.
  intros Hw Hh Hp. unfold read_sample.
  destruct (pget_ok w h p (clamp 0 (Z.max 0 (w - 1)) x + clamp 0 (Z.max 0 (h - 1)) y * w) ltac:(lia) ltac:(lia) Hp) as [v E].
  { unfold clamp. nia. }
  rewrite E. eauto.
Qed.

(* ---- gather_block ---- *)
Lemma gather_block_safe w h src px py v t :
  1 <= w -> 1 <= h -> plane_ok w h src -> plane_ok w h t -> 0 <= px -> 0 <= py ->
  safe (gather_block src w px py v t).
Proof.
  intros Hw Hh Hs Ht Hpx Hpy. unfold gather_block.
  destruct (into_lerp_parameters (fst v)) as [xd xi]. destruct (into_lerp_parameters (snd v)) as [yd yi].
  rewrite (plane_len_ok w h src ltac:(lia) ltac:(lia) Hs).
  unfold div_chk. destruct (w =? 0) eqn:E0; [lia|]. cbn [bind].
  replace (Z.quot (w * h) w) with h by (rewrite Z.quot_div_nonneg by nia; rewrite Z.mul_comm, Z.div_mul by lia; reflexivity).
  set (bc := clamp 0 8 (w - px)). set (br := clamp 0 8 (h - py)).
  assert (Hbc : 0 <= bc <= 8 /\ px + bc <= Z.max px w) by (subst bc; unfold clamp; lia).
  assert (Hbr : 0 <= br <= 8 /\ py + br <= Z.max py h) by (subst br; unfold clamp; lia).
  assert (Hpix : forall i j, 0 <= i < bc -> 0 <= j < br -> 0 <= px + i + (py + j) * w < w * h).
  { intros i j Hi Hj. subst bc br. unfold clamp in *. nia. }
  destruct (negb xi && negb yi).
  - destruct ((bc =? 8) && (br =? 8) && (0 <=? px + xd) && (px + xd <=? w - 8) && (0 <=? py + yd) && (py + yd <=? h - 8)) eqn:Ef.
    + repeat (apply andb_true_iff in Ef; destruct Ef as [Ef ?]).
      apply (forZ_safe (plane_ok w h)); [|exact Ht]. intros j a Hj Ha.
      rewrite (plane_len_ok w h a ltac:(lia) ltac:(lia) Ha).
      destruct ((w * h <? px + (py + j) * w + 8) || (w * h <? px + xd + (py + yd + j) * w + 8)) eqn:Eg.
      { exfalso. subst bc br. unfold clamp in *. nia. }
      apply (forZ_safe (plane_ok w h)); [|exact Ha]. intros i b Hi Hb.
      destruct (pget_ok w h src (px + xd + (py + yd + j) * w + i) ltac:(lia) ltac:(lia) Hs) as [s Es].
      { subst bc br. unfold clamp in *. nia. }
      rewrite Es. cbn [bind].
      destruct (pset_ok' w h b (px + (py + j) * w + i) s ltac:(lia) ltac:(lia) Hb) as (b' & Eb & Hb').
      { subst bc br. unfold clamp in *. nia. }
      rewrite Eb. split; [exact I|]. intros a' H'. inversion H'; subst. exact Hb'.
    + apply (forZ_safe (plane_ok w h)); [|exact Ht]. intros j a Hj Ha.
      apply (forZ_safe (plane_ok w h)); [|exact Ha]. intros i b Hi Hb.
      destruct (read_sample_ok w h src (px + xd + i) (py + yd + j) Hw Hh Hs) as [s Es]. rewrite Es. cbn [bind].
      destruct (pset_ok' w h b (px + i + (py + j) * w) s ltac:(lia) ltac:(lia) Hb) as (b' & Eb & Hb'); [apply Hpix; lia|].
      rewrite Eb. split; [exact I|]. intros a' H'. inversion H'; subst. exact Hb'.
  - apply (forZ_safe (plane_ok w h)); [|exact Ht]. intros j a Hj Ha.
    apply (forZ_safe (plane_ok w h)); [|exact Ha]. intros i b Hi Hb. cbv zeta.
    destruct (read_sample_ok w h src (px + xd + i) (py + yd + j) Hw Hh Hs) as [s00 E00]. rewrite E00. cbn [bind].
    destruct (read_sample_ok w h src (px + xd + i + 1) (py + yd + j) Hw Hh Hs) as [s10 E10]. rewrite E10. cbn [bind].
    destruct (read_sample_ok w h src (px + xd + i) (py + yd + j + 1) Hw Hh Hs) as [s01 E01]. rewrite E01. cbn [bind].
    destruct (read_sample_ok w h src (px + xd + i + 1) (py + yd + j + 1) Hw Hh Hs) as [s11 E11]. rewrite E11. cbn [bind].
    match goal with |- safe (pset b ?idx ?val) /\ _ =>
      destruct (pset_ok' w h b idx val ltac:(lia) ltac:(lia) Hb) as (b' & Eb & Hb'); [apply Hpix; lia|] end.
    rewrite Eb. split; [exact I|]. intros a' H'. inversion H'; subst. exact Hb'.
Qed.

(* ---- gather ---- *)
Lemma pic_ok_dims d w h : pic_ok d -> into_width_and_height (d_format d) = Some (w, h) ->
  1 <= w /\ 1 <= h /\ plane_ok w h (d_luma d) /\ plane_ok ((w + 1) / 2) ((h + 1) / 2) (d_cb d) /\
  plane_ok ((w + 1) / 2) ((h + 1) / 2) (d_cr d) /\ d_chroma_w d = (w + 1) / 2 /\ d_width d = w /\ d_height d = h.
Proof.
  intros (w' & h' & Hw & Hh & Hf & HL & HB & HR & HC) E.
  assert (Hwh : w' = w /\ h' = h) by (rewrite E in Hf; inversion Hf; split; reflexivity).
  destruct Hwh as [-> ->].
  unfold d_width, d_height. rewrite E.
  exact (conj Hw (conj Hh (conj HL (conj HB (conj HR (conj HC (conj eq_refl eq_refl))))))).
Qed.

Lemma gather_go_safe : forall items i reference mbpl np,
  1 <= mbpl -> 0 <= i -> pic_ok np -> (forall rp, reference = Some rp -> pic_ok rp) ->
  safe (gather_go items i reference mbpl np).
Proof.
  induction items as [|[t v] rest IH]; intros i reference mbpl np Hm Hi Hnp Href; cbn [gather_go]; [exact I|].
  destruct (mb_is_inter t); [|apply IH; try assumption; lia].
  destruct reference as [rp|]; [|exact I].
  destruct (negb ((d_width rp =? d_width np) && (d_height rp =? d_height np))) eqn:Ed; [exact I|].
  apply negb_false_iff in Ed. apply andb_true_iff in Ed. destruct Ed as [Ew Eh]. apply Z.eqb_eq in Ew, Eh.
  pose proof (Href rp eq_refl) as Hrp.
  destruct Hnp as (w & h & Hw & Hh & Hf & HL & HB & HR & HC).
  assert (Hnp : pic_ok np) by exact (ex_intro _ w (ex_intro _ h (conj Hw (conj Hh (conj Hf (conj HL (conj HB (conj HR HC)))))))).
  destruct (pic_ok_dims np w h Hnp Hf) as (_ & _ & _ & _ & _ & _ & Hdw & Hdh).
  destruct Hrp as (w' & h' & Hw' & Hh' & Hf' & HL' & HB' & HR' & HC').
  assert (Hrp : pic_ok rp) by exact (ex_intro _ w' (ex_intro _ h' (conj Hw' (conj Hh' (conj Hf' (conj HL' (conj HB' (conj HR' HC')))))))).
  destruct (pic_ok_dims rp w' h' Hrp Hf') as (_ & _ & _ & _ & _ & _ & Hdw' & Hdh').
  assert (E1 : w' = w) by lia. assert (E2 : h' = h) by lia.
  rewrite E1 in Hw', Hf', HL', HB', HR', HC', Hdw'. rewrite E2 in Hh', Hf', HL', HB', HR', Hdh'. clear E1 E2 w' h'.
  unfold rem_chk, div_chk. destruct (mbpl =? 0) eqn:E0; [lia|]. cbn [bind].
  rewrite Z.rem_mod_nonneg by lia. rewrite Z.quot_div_nonneg by lia.
  set (col := i mod mbpl). set (line := i / mbpl).
  assert (Hcol : 0 <= col) by (subst col; apply Z.mod_pos_bound; lia).
  assert (Hline : 0 <= line) by (subst line; apply Z.div_pos; lia).
  rewrite Hdw'.
  (* four luma blocks *)
  pose proof (gather_block_safe w h (d_luma rp) (col * 16) (line * 16) (mv4_get v 0) (d_luma np) Hw Hh HL' HL ltac:(lia) ltac:(lia)) as S1.
  destruct (gather_block (d_luma rp) w (col * 16) (line * 16) (mv4_get v 0) (d_luma np)) as [l1| | |] eqn:G1; try contradiction; [|exact I].
  cbn [bind]. pose proof (gather_block_ok w h _ _ _ _ _ _ _ HL G1) as P1.
  pose proof (gather_block_safe w h (d_luma rp) (col * 16 + 8) (line * 16) (mv4_get v 1) l1 Hw Hh HL' P1 ltac:(lia) ltac:(lia)) as S2.
  destruct (gather_block (d_luma rp) w (col * 16 + 8) (line * 16) (mv4_get v 1) l1) as [l2| | |] eqn:G2; try contradiction; [|exact I].
  cbn [bind]. pose proof (gather_block_ok w h _ _ _ _ _ _ _ P1 G2) as P2.
  pose proof (gather_block_safe w h (d_luma rp) (col * 16) (line * 16 + 8) (mv4_get v 2) l2 Hw Hh HL' P2 ltac:(lia) ltac:(lia)) as S3.
  destruct (gather_block (d_luma rp) w (col * 16) (line * 16 + 8) (mv4_get v 2) l2) as [l3| | |] eqn:G3; try contradiction; [|exact I].
  cbn [bind]. pose proof (gather_block_ok w h _ _ _ _ _ _ _ P2 G3) as P3.
  pose proof (gather_block_safe w h (d_luma rp) (col * 16 + 8) (line * 16 + 8) (mv4_get v 3) l3 Hw Hh HL' P3 ltac:(lia) ltac:(lia)) as S4.
  destruct (gather_block (d_luma rp) w (col * 16 + 8) (line * 16 + 8) (mv4_get v 3) l3) as [l4| | |] eqn:G4; try contradiction; [|exact I].
  cbn [bind]. pose proof (gather_block_ok w h _ _ _ _ _ _ _ P3 G4) as P4.
  (* chroma *)
  assert (Hcw : 1 <= (w + 1) / 2) by lia. assert (Hch : 1 <= (h + 1) / 2) by lia.
  rewrite HC'.
  set (mvc := (average_sum_of_mvs _, average_sum_of_mvs _)).
  pose proof (gather_block_safe _ _ (d_cb rp) (col * 8) (line * 8) mvc (d_cb np) Hcw Hch HB' HB ltac:(lia) ltac:(lia)) as S5.
  destruct (gather_block (d_cb rp) ((w + 1) / 2) (col * 8) (line * 8) mvc (d_cb np)) as [cb| | |] eqn:G5; try contradiction; [|exact I].
  cbn [bind]. pose proof (gather_block_ok _ _ _ _ _ _ _ _ _ HB G5) as P5.
  pose proof (gather_block_safe _ _ (d_cr rp) (col * 8) (line * 8) mvc (d_cr np) Hcw Hch HR' HR ltac:(lia) ltac:(lia)) as S6.
  destruct (gather_block (d_cr rp) ((w + 1) / 2) (col * 8) (line * 8) mvc (d_cr np)) as [cr| | |] eqn:G6; try contradiction; [|exact I].
  cbn [bind]. pose proof (gather_block_ok _ _ _ _ _ _ _ _ _ HR G6) as P6.
  apply IH; try assumption; try lia.
  exists w, h. cbn [d_format d_luma d_cb d_cr d_chroma_w].
  exact (conj Hw (conj Hh (conj Hf (conj P4 (conj P5 (conj P6 HC)))))).
Qed.

(* ---- idct ---- *)
Lemma add_pixel_safe w h out x y v : 1 <= w -> 1 <= h -> plane_ok w h out -> 0 <= x < w -> 0 <= y < h ->
  safe (add_pixel out w x y v) /\ (forall o', add_pixel out w x y v = Ok o' -> plane_ok w h o').
Proof.
  intros Hw Hh Ho Hx Hy. unfold add_pixel.
  destruct (pget_ok w h out (x + y * w) ltac:(lia) ltac:(lia) Ho ltac:(nia)) as [m Em]. rewrite Em. cbn [bind].
  destruct (pset_ok' w h out (x + y * w) (clamp 0 255 (v + m)) ltac:(lia) ltac:(lia) Ho ltac:(nia)) as (o' & Eo & Ho').
  rewrite Eo. split; [exact I|]. intros o'' H. inversion H; subst. exact Ho'.
Qed.

Lemma idct_block_safe w h d out xb yb xs ys : 1 <= w -> 1 <= h -> plane_ok w h out ->
  0 <= xb -> 0 <= yb -> (0 < xs -> xb * 8 + xs <= w) -> (0 < ys -> yb * 8 + ys <= h) ->
  safe (idct_block d out w xb yb xs ys) /\ (forall o', idct_block d out w xb yb xs ys = Ok o' -> plane_ok w h o').
Proof.
  intros Hw Hh Ho Hxb Hyb Hxs Hys.
  destruct d; cbn [idct_block]; cbv zeta;
    [split; [exact I|intros o' H; inversion H; subst; exact Ho]| | | | ];
    (apply (forZ_safe (plane_ok w h)); [|exact Ho]; intros j a Hj Ha;
     apply (forZ_safe (plane_ok w h)); [|exact Ha]; intros i b Hi Hb;
     apply add_pixel_safe; try assumption; lia).
Qed.

Lemma idct_channel_safe w h levels out bpl : 1 <= w -> 1 <= h -> 1 <= bpl -> plane_ok w h out ->
  safe (idct_channel levels out bpl w) /\ (forall o', idct_channel levels out bpl w = Ok o' -> plane_ok w h o').
Proof.
  intros Hw Hh Hb Ho. unfold idct_channel, div_chk.
  destruct (w =? 0) eqn:E0; [lia|]. destruct (bpl =? 0) eqn:E1; [lia|]. cbn [bind].
  rewrite (plane_len_ok w h out ltac:(lia) ltac:(lia) Ho).
  replace (Z.quot (w * h) w) with h by (rewrite Z.quot_div_nonneg by nia; rewrite Z.mul_comm, Z.div_mul by lia; reflexivity).
  apply (forZ_safe (plane_ok w h)); [|exact Ho]. intros yb a Hyb Ha.
  apply (forZ_safe (plane_ok w h)); [|exact Ha]. intros xb b Hxb Hbb. cbv zeta.
  destruct (zlength levels <=? xb + yb * bpl) eqn:El; [split; [exact I|intros o' H; inversion H; subst; exact Hbb]|].
  apply Z.leb_gt in El.
  destruct (get_ok levels (xb + yb * bpl)) as [d Ed]; [nia|]. rewrite Ed. cbn [bind].
  apply idct_block_safe; try assumption; try lia; unfold clamp; lia.
Qed.

(* ---- run-length expansion ---- *)
Lemma inverse_rle_safe b levels px py lbl quant :
  0 <= px / 8 + py / 8 * lbl < zlength levels ->
  safe (inverse_rle b levels px py lbl quant) /\
  (forall l', inverse_rle b levels px py lbl quant = Ok l' -> zlength l' = zlength levels).
Proof.
  intros H. unfold inverse_rle.
  destruct (get_ok levels _ H) as [d0 E0]. rewrite E0. cbn [bind].
  destruct (inverse_rle_block b quant) as [d|].
  - destruct (set_ok levels _ d H) as (l' & E1 & L1). rewrite E1. split; [exact I|]. intros l'' H'. inversion H'; subst. exact L1.
  - split; [exact I|]. intros l' H'. inversion H'; subst. reflexivity.
Qed.

(* ---- one coded macroblock ---- *)
Record loop_inv (mbpl mbh : Z) (st : mbloop) : Prop := {
  li_count : zlength (l_types st) < mbpl * mbh;
  li_luma : zlength (l_luma st) = 4 * mbpl * mbh;
  li_cb : zlength (l_cb st) = mbpl * mbh;
  li_cr : zlength (l_cr st) = mbpl * mbh
}.

Lemma decode_coded_safe o np running mbpl mbh t p dq mvd addl st :
  1 <= mbpl -> 1 <= mbh -> loop_inv mbpl mbh st ->
  safe (decode_coded o np running mbpl (mbpl * 16) t p dq mvd addl st) /\
  (forall st' mvs, decode_coded o np running mbpl (mbpl * 16) t p dq mvd addl st = Ok (st', mvs) ->
     (rlen (l_reader st') <= rlen (l_reader st))%nat /\ l_types st' = l_types st /\ l_pvs st' = l_pvs st /\
     zlength (l_luma st') = 4 * mbpl * mbh /\ zlength (l_cb st') = mbpl * mbh /\ zlength (l_cr st') = mbpl * mbh).
Proof.
  intros Hm Hh [Hc HL HB HR]. unfold decode_coded.
  set (n := zlength (l_types st)) in *.
  assert (Hn : 0 <= n) by (subst n; unfold zlength; lia).
  unfold rem_chk, div_chk. destruct (mbpl =? 0) eqn:E0; [lia|]. cbn [bind].
  rewrite Z.rem_mod_nonneg by lia. rewrite Z.quot_div_nonneg by lia.
  set (col := n mod mbpl). set (line := n / mbpl).
  assert (Hcol : 0 <= col < mbpl) by (subst col; apply Z.mod_pos_bound; lia).
  assert (Hline : 0 <= line < mbh).
  { subst line. split; [apply Z.div_pos; lia|]. apply Z.div_lt_upper_bound; lia. }
  replace (mbpl * 16 / 8) with (2 * mbpl) by lia.
  (* motion vectors *)
  set (mvres := if mb_is_inter t then _ else Ok mv4_zero).
  assert (Hmv : exists mvs, mvres = Ok mvs).
  { subst mvres. destruct (mb_is_inter t); [|eauto].
    rewrite (predict_candidate_spec (l_pvs st) mv4_zero mbpl 0 Hm ltac:(lia)). cbn [bind].
    destruct addl as [[[m2 m3] m4]|]; [|eauto].
    rewrite predict_candidate_spec by lia. cbn [bind].
    rewrite predict_candidate_spec by lia. cbn [bind].
    rewrite predict_candidate_spec by lia. cbn [bind]. eauto. }
  destruct Hmv as [mvs Emv]. rewrite Emv. cbn [bind].
  (* six blocks *)
  assert (Hid : forall a b, (a = 0 \/ a = 1) -> (b = 0 \/ b = 1) ->
            0 <= (col * 16 + 8 * a) / 8 + (line * 16 + 8 * b) / 8 * (2 * mbpl) < 4 * mbpl * mbh).
  { intros a b Ha Hb.
    replace ((col * 16 + 8 * a) / 8) with (2 * col + a) by lia.
    replace ((line * 16 + 8 * b) / 8) with (2 * line + b) by lia. nia. }
  assert (Hidc : 0 <= col * 16 / 2 / 8 + line * 16 / 2 / 8 * mbpl < mbpl * mbh).
  { replace (col * 16 / 2 / 8) with col by lia. replace (line * 16 / 2 / 8) with line by lia. nia. }
  pose proof (decode_block_safe o (d_header np) running t (nth 0 (codes_luma p) false) (l_reader st)) as S1.
  destruct (decode_block o (d_header np) running t (nth 0 (codes_luma p) false) (l_reader st)) as [[b1 r1]| | |] eqn:B1;
    try contradiction; [|split; [exact I|discriminate]].
  cbn [bind]. apply decode_block_len in B1.
  destruct (inverse_rle_safe b1 (l_luma st) (col * 16) (line * 16) (2 * mbpl) (next_quant (l_quant st) dq)) as [T1 U1].
  { rewrite HL. specialize (Hid 0 0 ltac:(lia) ltac:(lia)). replace (col * 16 + 8 * 0) with (col * 16) in Hid by lia.
    replace (line * 16 + 8 * 0) with (line * 16) in Hid by lia. exact Hid. }
  destruct (inverse_rle b1 (l_luma st) (col * 16) (line * 16) (2 * mbpl) (next_quant (l_quant st) dq)) as [l1| | |] eqn:R1;
    try contradiction; [|split; [exact I|discriminate]].
  cbn [bind]. pose proof (U1 l1 eq_refl) as L1.
  pose proof (decode_block_safe o (d_header np) running t (nth 1 (codes_luma p) false) r1) as S2.
  destruct (decode_block o (d_header np) running t (nth 1 (codes_luma p) false) r1) as [[b2 r2]| | |] eqn:B2;
    try contradiction; [|split; [exact I|discriminate]].
  cbn [bind]. apply decode_block_len in B2.
  destruct (inverse_rle_safe b2 l1 (col * 16 + 8) (line * 16) (2 * mbpl) (next_quant (l_quant st) dq)) as [T2 U2].
  { rewrite L1, HL. specialize (Hid 1 0 ltac:(lia) ltac:(lia)). replace (col * 16 + 8 * 1) with (col * 16 + 8) in Hid by lia.
    replace (line * 16 + 8 * 0) with (line * 16) in Hid by lia. exact Hid. }
  destruct (inverse_rle b2 l1 (col * 16 + 8) (line * 16) (2 * mbpl) (next_quant (l_quant st) dq)) as [l2| | |] eqn:R2;
    try contradiction; [|split; [exact I|discriminate]].
  cbn [bind]. pose proof (U2 l2 eq_refl) as L2.
  pose proof (decode_block_safe o (d_header np) running t (nth 2 (codes_luma p) false) r2) as S3.
  destruct (decode_block o (d_header np) running t (nth 2 (codes_luma p) false) r2) as [[b3 r3]| | |] eqn:B3;
    try contradiction; [|split; [exact I|discriminate]].
  cbn [bind]. apply decode_block_len in B3.
  destruct (inverse_rle_safe b3 l2 (col * 16) (line * 16 + 8) (2 * mbpl) (next_quant (l_quant st) dq)) as [T3 U3].
  { rewrite L2, L1, HL. specialize (Hid 0 1 ltac:(lia) ltac:(lia)). replace (col * 16 + 8 * 0) with (col * 16) in Hid by lia.
    replace (line * 16 + 8 * 1) with (line * 16 + 8) in Hid by lia. exact Hid. }
  destruct (inverse_rle b3 l2 (col * 16) (line * 16 + 8) (2 * mbpl) (next_quant (l_quant st) dq)) as [l3| | |] eqn:R3;
    try contradiction; [|split; [exact I|discriminate]].
  cbn [bind]. pose proof (U3 l3 eq_refl) as L3.
  pose proof (decode_block_safe o (d_header np) running t (nth 3 (codes_luma p) false) r3) as S4.
  destruct (decode_block o (d_header np) running t (nth 3 (codes_luma p) false) r3) as [[b4 r4]| | |] eqn:B4;
    try contradiction; [|split; [exact I|discriminate]].
  cbn [bind]. apply decode_block_len in B4.
  destruct (inverse_rle_safe b4 l3 (col * 16 + 8) (line * 16 + 8) (2 * mbpl) (next_quant (l_quant st) dq)) as [T4 U4].
  { rewrite L3, L2, L1, HL. specialize (Hid 1 1 ltac:(lia) ltac:(lia)). replace (col * 16 + 8 * 1) with (col * 16 + 8) in Hid by lia.
    replace (line * 16 + 8 * 1) with (line * 16 + 8) in Hid by lia. exact Hid. }
  destruct (inverse_rle b4 l3 (col * 16 + 8) (line * 16 + 8) (2 * mbpl) (next_quant (l_quant st) dq)) as [l4| | |] eqn:R4;
    try contradiction; [|split; [exact I|discriminate]].
  cbn [bind]. pose proof (U4 l4 eq_refl) as L4.
  pose proof (decode_block_safe o (d_header np) running t (codes_chroma_b p) r4) as S5.
  destruct (decode_block o (d_header np) running t (codes_chroma_b p) r4) as [[b5 r5]| | |] eqn:B5;
    try contradiction; [|split; [exact I|discriminate]].
  cbn [bind]. apply decode_block_len in B5.
  destruct (inverse_rle_safe b5 (l_cb st) (col * 16 / 2) (line * 16 / 2) mbpl (next_quant (l_quant st) dq)) as [T5 U5].
  { rewrite HB. exact Hidc. }
  destruct (inverse_rle b5 (l_cb st) (col * 16 / 2) (line * 16 / 2) mbpl (next_quant (l_quant st) dq)) as [cb| | |] eqn:R5;
    try contradiction; [|split; [exact I|discriminate]].
  cbn [bind]. pose proof (U5 cb eq_refl) as L5.
  pose proof (decode_block_safe o (d_header np) running t (codes_chroma_r p) r5) as S6.
  destruct (decode_block o (d_header np) running t (codes_chroma_r p) r5) as [[b6 r6]| | |] eqn:B6;
    try contradiction; [|split; [exact I|discriminate]].
  cbn [bind]. apply decode_block_len in B6.
  destruct (inverse_rle_safe b6 (l_cr st) (col * 16 / 2) (line * 16 / 2) mbpl (next_quant (l_quant st) dq)) as [T6 U6].
  { rewrite HR. exact Hidc. }
  destruct (inverse_rle b6 (l_cr st) (col * 16 / 2) (line * 16 / 2) mbpl (next_quant (l_quant st) dq)) as [cr| | |] eqn:R6;
    try contradiction; [|split; [exact I|discriminate]].
  cbn [bind]. pose proof (U6 cr eq_refl) as L6.
  split; [exact I|]. intros st' mvs' H'. inversion H'; subst. cbn [l_reader l_types l_pvs l_luma l_cb l_cr].
  repeat split; try reflexivity; try lia.
Qed.

(* ---- the macroblock loop ---- *)
Record loop_inv' (mbpl mbh : Z) (st : mbloop) : Prop := {
  li'_luma : zlength (l_luma st) = 4 * mbpl * mbh;
  li'_cb : zlength (l_cb st) = mbpl * mbh;
  li'_cr : zlength (l_cr st) = mbpl * mbh
}.

Lemma mb_loop_safe : forall fuel o np running mbpl mbh st,
  1 <= mbpl -> 1 <= mbh -> loop_inv' mbpl mbh st -> (rlen (l_reader st) < fuel)%nat ->
  safe (mb_loop fuel o np running mbpl (mbpl * mbh) (mbpl * 16) st) /\
  (forall st', mb_loop fuel o np running mbpl (mbpl * mbh) (mbpl * 16) st = Ok st' -> loop_inv' mbpl mbh st').
Proof.
  induction fuel as [|f IH]; intros o np running mbpl mbh st Hm Hh Hinv Hf; [lia|].
  cbn [mb_loop].
  destruct (mbpl * mbh <=? zlength (l_types st)) eqn:Ec.
  { split; [exact I|]. intros st' H. inversion H; subst. exact Hinv. }
  apply Z.leb_gt in Ec.
  pose proof (decode_macroblock_safe (d_header np) running (l_reader st)) as Sm.
  destruct (decode_macroblock (d_header np) running (l_reader st)) as [[mb r]|e| |] eqn:Em; try contradiction.
  - apply decode_macroblock_progress in Em.
    destruct Hinv as [HL HB HR].
    destruct mb as [| |t p dq mvd addl].
    + destruct (is_iframe _); [split; [exact I|discriminate]|].
      apply IH; try assumption; [constructor; assumption|cbn [l_reader]; lia].
    + apply IH; try assumption; [constructor; assumption|cbn [l_reader]; lia].
    + destruct (decode_coded_safe o np running mbpl mbh t p dq mvd addl
                  (mkLoop r (l_quant st) (l_pvs st) (l_types st) (l_luma st) (l_cb st) (l_cr st)) Hm Hh) as [Sc Uc].
      { constructor; cbn [l_types l_luma l_cb l_cr]; assumption. }
      destruct (decode_coded _ _ _ _ _ _ _ _ _ _ _) as [[st1 mvs]| | |] eqn:Ed; try contradiction; [|split; [exact I|discriminate]].
      cbn [bind]. destruct (Uc st1 mvs eq_refl) as (R1 & _ & _ & L1 & B1 & C1). cbn [l_reader] in R1.
      apply IH; try assumption; [constructor; cbn [l_luma l_cb l_cr]; assumption|cbn [l_reader]; lia].
  - destruct (is_macroblock_error e && negb (sorenson o)).
    + pose proof (decode_gob_safe (l_reader st)) as Sg.
      destruct (decode_gob (l_reader st)) as [[u|]|e'| |]; try contradiction.
      * split; [exact I|]. intros st' H. inversion H; subst. exact Hinv.
      * split; [exact I|]. intros st' H. inversion H; subst. exact Hinv.
      * destruct (is_eof e' || is_gob_error e'); [|split; [exact I|discriminate]].
        split; [exact I|]. intros st' H. inversion H; subst. exact Hinv.
    + destruct (is_eof e); [|split; [exact I|discriminate]].
      split; [exact I|]. intros st' H. inversion H; subst. exact Hinv.
Qed.

(* ---- the whole reconstruction, and a decode call ---- *)
Lemma repeatZ_zlength {A} (a : A) n : 0 <= n -> zlength (repeatZ a n) = n.
Proof. intros H. unfold repeatZ, zlength. rewrite repeat_length. lia. Qed.

Theorem reconstruct_safe o last reference running r0 :
  (forall rp, reference = Some rp -> pic_ok rp) ->
  safe (reconstruct o last reference running r0).
Proof.
  intros Href. unfold reconstruct.
  apply safe_bind; [apply decode_picture_safe|]. intros [op r] _. destruct op as [hdr|]; [|exact I].
  apply safe_bind. { destruct (format hdr); [exact I|]. destruct (is_iframe _); [exact I|]. destruct last; exact I. }
  intros fmt _. destruct (into_width_and_height fmt) as [[w h]|] eqn:EW; [|exact I].
  destruct ((w <=? 0) || (h <=? 0)) eqn:Ez; [exact I|].
  apply orb_false_iff in Ez. destruct Ez as [Ew Eh]. apply Z.leb_gt in Ew, Eh.
  assert (Hw0 : 1 <= w) by lia. assert (Hh0 : 1 <= h) by lia.
  destruct (new_decoded hdr fmt) as [np0|] eqn:EN; [|exact I].
  assert (H0 : pic_ok np0).
  { unfold new_decoded in EN. rewrite EW in EN. inversion EN; subst. clear EN.
    exists w, h. cbn [d_format d_luma d_cb d_cr d_chroma_w].
    exact (conj Hw0 (conj Hh0 (conj EW (conj (new_plane_ok w h)
            (conj (new_plane_ok _ _) (conj (new_plane_ok _ _) eq_refl)))))). }
  set (mbpl := (w + 15) / 16). set (mbh := (h + 15) / 16).
  assert (Hm : 1 <= mbpl) by (subst mbpl; lia). assert (Hh : 1 <= mbh) by (subst mbh; lia).
  assert (Hnl : mbpl * 16 * (mbh * 16) / 64 = 4 * mbpl * mbh).
  { replace (mbpl * 16 * (mbh * 16)) with (4 * mbpl * mbh * 64) by lia. apply Z.div_mul. lia. }
  assert (Hnc : mbpl * 16 * (mbh * 16) / 4 / 64 = mbpl * mbh).
  { replace (mbpl * 16 * (mbh * 16)) with (mbpl * mbh * 64 * 4) by lia. rewrite Z.div_mul by lia. apply Z.div_mul. lia. }
  rewrite Hnl, Hnc.
  match goal with |- safe (bind (mb_loop ?fuel _ _ ?run _ _ _ ?st0) _) =>
    destruct (mb_loop_safe fuel o np0 run mbpl mbh st0 Hm Hh) as [Sl Ul] end.
  { constructor; cbn [l_luma l_cb l_cr]; apply repeatZ_zlength; nia. }
  { cbn [l_reader]. unfold rlen. lia. }
  apply safe_bind; [exact Sl|]. intros st Est. destruct (Ul st Est) as [HL HB HR].
  apply safe_bind.
  { apply gather_go_safe; [exact Hm|lia|exact H0|exact Href]. }
  intros np1 Eg. pose proof (gather_go_ok _ _ _ _ _ _ H0 Eg) as H1.
  destruct H1 as (w1 & h1 & Hw1 & Hh1 & Hf1 & HL1 & HB1 & HR1 & HC1).
  (* the format is unchanged by gather: w1 = w *)
  assert (Hfmt : d_format np1 = fmt).
  { apply gather_go_header in Eg. destruct Eg as [_ Eg]. rewrite Eg.
    unfold new_decoded in EN. rewrite EW in EN. inversion EN. reflexivity. }
  rewrite Hfmt, EW in Hf1. inversion Hf1; subst w1 h1. clear Hf1.
  destruct (idct_channel_safe w h (l_luma st) (d_luma np1) (mbpl * 2) Hw1 Hh1 ltac:(lia) HL1) as [S1 U1].
  apply safe_bind; [exact S1|]. intros luma _.
  rewrite HC1.
  assert (Hcw : 1 <= (w + 1) / 2) by lia. assert (Hch : 1 <= (h + 1) / 2) by lia.
  destruct (idct_channel_safe _ _ (l_cb st) (d_cb np1) mbpl Hcw Hch Hm HB1) as [S2 U2].
  apply safe_bind; [exact S2|]. intros cb _.
  destruct (idct_channel_safe _ _ (l_cr st) (d_cr np1) mbpl Hcw Hch Hm HR1) as [S3 U3].
  apply safe_bind; [exact S3|]. intros cr _. exact I.
Qed.

(* the state invariant: every stored picture has planes of its signalled size *)
Definition st_inv (s : state) : Prop := Forall (fun kv : Z * decoded_picture => pic_ok (snd kv)) (reference_states s).

Lemma pm_get_inv m k d : Forall (fun kv : Z * decoded_picture => pic_ok (snd kv)) m -> pm_get m k = Some d -> pic_ok d.
Proof.
  intros H. induction H as [|[k' v] m Hv _ IH]; cbn [pm_get]; [discriminate|].
  destruct (k' =? k); [intros E; inversion E; subst; exact Hv|exact IH].
Qed.
Lemma pm_remove_inv m k : Forall (fun kv : Z * decoded_picture => pic_ok (snd kv)) m ->
  Forall (fun kv : Z * decoded_picture => pic_ok (snd kv)) (pm_remove m k).
Proof.
  intros H. induction H as [|[k' v] m Hv _ IH]; cbn [pm_remove]; [constructor|].
  destruct (k' =? k); [exact IH|constructor; assumption].
Qed.
Lemma pm_insert_inv m k d : Forall (fun kv : Z * decoded_picture => pic_ok (snd kv)) m -> pic_ok d ->
  Forall (fun kv : Z * decoded_picture => pic_ok (snd kv)) (pm_insert m k d).
Proof. intros H Hd. unfold pm_insert. constructor; [exact Hd|apply pm_remove_inv; exact H]. Qed.

Lemma cleanup_inv s : st_inv s -> st_inv (cleanup_buffers s).
Proof.
  unfold st_inv, cleanup_buffers. intros H. cbn [reference_states].
  destruct (last_picture s) as [lk|].
  - destruct (pm_get (reference_states s) lk) as [lv|] eqn:EL.
    + pose proof (pm_get_inv _ _ _ H EL) as Hlv.
      destruct (reference_picture s) as [rk|].
      * destruct (pm_get (pm_remove (reference_states s) lk) rk) as [rv|] eqn:ER.
        -- apply pm_insert_inv; [apply pm_insert_inv; [constructor|exact Hlv]|].
           eapply pm_get_inv; [apply pm_remove_inv; exact H|exact ER].
        -- apply pm_insert_inv; [constructor|exact Hlv].
      * apply pm_insert_inv; [constructor|exact Hlv].
    + destruct (reference_picture s) as [rk|].
      * destruct (pm_get (reference_states s) rk) as [rv|] eqn:ER; [|constructor].
        apply pm_insert_inv; [constructor|eapply pm_get_inv; eauto].
      * constructor.
  - destruct (reference_picture s) as [rk|]; [|constructor].
    destruct (pm_get (reference_states s) rk) as [rv|] eqn:ER; [|constructor].
    apply pm_insert_inv; [constructor|eapply pm_get_inv; eauto].
Qed.

(* THE THEOREM: on any decoder state satisfying the invariant (in particular every state reachable from a
   new decoder) and any reader, a decode call neither panics nor runs out of fuel, and the invariant holds after. *)
Theorem decode_total s r :
  st_inv s ->
  safe (decode_next_picture s r) /\
  (forall s' r', decode_next_picture s r = Ok (s', r') -> st_inv s').
Proof.
  intros Hinv. unfold decode_next_picture.
  assert (Href : forall rp, get_reference_picture s = Some rp -> pic_ok rp).
  { intros rp E. unfold get_reference_picture in E. destruct (reference_picture s) as [k|]; [|discriminate].
    eapply pm_get_inv; eauto. }
  pose proof (reconstruct_safe (st_opts s) (get_last_picture s) (get_reference_picture s) (running_options s) r Href) as S.
  destruct (reconstruct _ _ _ _ r) as [[np r1]| | |] eqn:E; try contradiction; cbn [bind].
  - split; [exact I|]. intros s' r' H. inversion H; subst.
    unfold store_picture. apply cleanup_inv. unfold st_inv. cbn [reference_states].
    apply pm_insert_inv; [exact Hinv|]. eapply reconstruct_ok; eauto.
  - split; [exact I|discriminate].
Qed.

Lemma st_inv_new o : st_inv (new_state o).
Proof. constructor. Qed.

(* every state reachable from a new decoder by decode calls (accepted or rejected) and clean-ups satisfies
   the invariant, hence every call on it is total *)
Theorem reachable_inv : forall ops s, st_inv s -> st_inv (fold_left step ops s).
Proof.
  induction ops as [|op ops IH]; intros s Hs; cbn [fold_left]; [exact Hs|]. apply IH.
  destruct op as [r|]; cbn [step].
  - destruct (decode_total s r Hs) as [_ U]. destruct (decode_next_picture s r) as [[s' r']| | |]; try exact Hs. eapply U; reflexivity.
  - apply cleanup_inv. exact Hs.
Qed.

Theorem history_total o ops r : safe (decode_next_picture (fold_left step ops (new_state o)) r).
Proof. apply decode_total. apply reachable_inv. apply st_inv_new. Qed.
