(* C09, pass level: the code's two passes (4-row groups, 8-column vector chunks plus scalar remainder; 8-row vector
   groups plus scalar remainder rows, chunks of 8 from column 2) produce, sample for sample, the Annex J image:
   the edge filter across every horizontal 8-aligned interior edge, then across every vertical one. *)
From H263V Require Import base.Prelude model.Deblock proofs.DeblockShape proofs.DeblockKernel.
Require Import ZifyBool ZifyNat.
Ltac Zify.zify_post_hook ::= Z.div_mod_to_equations.

Definition aJ (s : Z) : kernel := fun a b c d => annexJ a b c d s.
Definition bytes (r : row) : Prop := Forall byte r.
Definition brows (rows : list row) : Prop := Forall bytes rows.

(* ---- map4 ---- *)
Lemma map4_nth (k : kernel) : forall ra rb rc rd n,
  length ra = n -> length rb = n -> length rc = n -> length rd = n -> forall i, (i < n)%nat ->
  let t := k (nth i ra 0) (nth i rb 0) (nth i rc 0) (nth i rd 0) in
  let '(a, b, c, d) := map4 k ra rb rc rd in
  nth i a 0 = sel4 0 t /\ nth i b 0 = sel4 1 t /\ nth i c 0 = sel4 2 t /\ nth i d 0 = sel4 3 t.
Proof.
  induction ra as [|a ra IH]; intros rb rc rd n Ha Hb Hc Hd i Hi; [cbn in Ha; lia|].
  destruct rb as [|b rb]; [cbn in *; lia|]. destruct rc as [|c rc]; [cbn in *; lia|]. destruct rd as [|d rd]; [cbn in *; lia|].
  cbn [map4]. destruct n as [|n]; [lia|]. cbn [length] in *.
  specialize (IH rb rc rd n ltac:(lia) ltac:(lia) ltac:(lia) ltac:(lia)).
  destruct i as [|i].
  - cbn [nth]. destruct (k a b c d) as [[[a' b'] c'] d']. destruct (map4 k ra rb rc rd) as [[[xa xb] xc] xd]. cbn. auto.
  - specialize (IH i ltac:(lia)). cbn [nth]. cbv zeta in IH.
    destruct (k a b c d) as [[[a' b'] c'] d']. destruct (map4 k ra rb rc rd) as [[[xa xb] xc] xd]. cbn [nth]. exact IH.
Qed.

Lemma map4_ext_bytes (k1 k2 : kernel) :
  (forall a b c d, byte a -> byte b -> byte c -> byte d -> k1 a b c d = k2 a b c d) ->
  forall ra rb rc rd, bytes ra -> bytes rb -> bytes rc -> bytes rd -> map4 k1 ra rb rc rd = map4 k2 ra rb rc rd.
Proof.
  intros Hk. induction ra as [|a ra IH]; intros rb rc rd Ha Hb Hc Hd; [reflexivity|].
  destruct rb as [|b rb]; [reflexivity|]. destruct rc as [|c rc]; [reflexivity|]. destruct rd as [|d rd]; [reflexivity|].
  inversion Ha; inversion Hb; inversion Hc; inversion Hd; subst. cbn [map4]. rewrite Hk by assumption. rewrite IH by assumption. reflexivity.
Qed.

Lemma map4_split (k : kernel) : forall n ra rb rc rd,
  length rb = length ra -> length rc = length ra -> length rd = length ra ->
  map4 k ra rb rc rd =
  (let '(sa, sb, sc, sd) := map4 k (firstn n ra) (firstn n rb) (firstn n rc) (firstn n rd) in
   let '(ta, tb, tc, td) := map4 k (skipn n ra) (skipn n rb) (skipn n rc) (skipn n rd) in
   (sa ++ ta, sb ++ tb, sc ++ tc, sd ++ td)).
Proof.
  induction n as [|n IH]; intros ra rb rc rd Hb Hc Hd.
  - cbn [firstn skipn map4]. destruct (map4 k ra rb rc rd) as [[[xa xb] xc] xd]. reflexivity.
  - destruct ra as [|a ra]; [reflexivity|]. destruct rb as [|b rb]; [discriminate|].
    destruct rc as [|c rc]; [discriminate|]. destruct rd as [|d rd]; [discriminate|].
    cbn [length] in Hb, Hc, Hd.
    cbn [firstn skipn map4]. rewrite (IH ra rb rc rd) by lia. destruct (k a b c d) as [[[a' b'] c'] d'].
    destruct (map4 k (firstn n ra) _ _ _) as [[[sa sb] sc] sd]. destruct (map4 k (skipn n ra) _ _ _) as [[[ta tb] tc] td]. reflexivity.
Qed.

Lemma bytes_firstn n r : bytes r -> bytes (firstn n r).
Proof. unfold bytes. intros H. apply Forall_forall. intros x Hx. rewrite Forall_forall in H. apply H. eapply In_firstn'; eauto. Qed.
Lemma bytes_skipn n r : bytes r -> bytes (skipn n r).
Proof. unfold bytes. intros H. apply Forall_forall. intros x Hx. rewrite Forall_forall in H. apply H. eapply In_skipn; eauto. Qed.

Lemma filter4_eq s ra rb rc rd : 0 <= s -> bytes ra -> bytes rb -> bytes rc -> bytes rd ->
  length rb = length ra -> length rc = length ra -> length rd = length ra ->
  filter4 s ra rb rc rd = map4 (aJ s) ra rb rc rd.
Proof.
  intros Hs Ha Hb Hc Hd Lb Lc Ld. unfold filter4. cbv zeta.
  rewrite (map4_ext_bytes (fun a b c d => process_lane a b c d s) (aJ s))
    by (first [intros; apply process_lane_is_annexJ; assumption | apply bytes_firstn; assumption]).
  rewrite (map4_ext_bytes (fun a b c d => process a b c d s) (aJ s))
    by (first [intros; apply process_is_annexJ; assumption | apply bytes_skipn; assumption]).
  symmetry. apply map4_split; assumption.
Qed.

Lemma map4_bytes s : 0 <= s -> forall ra rb rc rd, bytes ra -> bytes rb -> bytes rc -> bytes rd ->
  let '(a, b, c, d) := map4 (aJ s) ra rb rc rd in bytes a /\ bytes b /\ bytes c /\ bytes d.
Proof.
  intros Hs. induction ra as [|a ra IH]; intros rb rc rd Ha Hb Hc Hd; [cbn; repeat split; constructor|].
  destruct rb as [|b rb]; [cbn; repeat split; constructor|]. destruct rc as [|c rc]; [cbn; repeat split; constructor|].
  destruct rd as [|d rd]; [cbn; repeat split; constructor|].
  inversion Ha; inversion Hb; inversion Hc; inversion Hd; subst. cbn [map4].
  pose proof (annexJ_bytes a b c d s ltac:(assumption) ltac:(assumption) ltac:(assumption) ltac:(assumption) Hs) as HB.
  unfold aJ at 1. destruct (annexJ a b c d s) as [[[a' b'] c'] d'].
  specialize (IH rb rc rd ltac:(assumption) ltac:(assumption) ltac:(assumption) ltac:(assumption)).
  destruct (map4 (aJ s) ra rb rc rd) as [[[xa xb] xc] xd]. destruct HB as (B1 & B2 & B3 & B4). destruct IH as (I1 & I2 & I3 & I4).
  repeat split; constructor; assumption.
Qed.

(* ---- list helpers ---- *)
Lemma nth_firstn_lt {A} (d : A) : forall n i l, (i < n)%nat -> nth i (firstn n l) d = nth i l d.
Proof. induction n as [|n IH]; intros i l Hi; [lia|]. destruct l as [|a l]; [reflexivity|]. destruct i as [|i]; [reflexivity|]. cbn. apply IH. lia. Qed.
Lemma nth_skipn' {A} (d : A) : forall n i l, nth i (skipn n l) d = nth (n + i) l d.
Proof. induction n as [|n IH]; intros i l; [reflexivity|]. destruct l as [|a l]; [destruct i; reflexivity|]. cbn. apply IH. Qed.

Lemma rect_nth w rows j : rect w rows -> (j < length rows)%nat -> length (nth j rows []) = w.
Proof. unfold rect. rewrite Forall_forall. intros H Hj. apply H. apply nth_In. exact Hj. Qed.
Lemma brows_nth rows j : brows rows -> bytes (nth j rows []).
Proof.
  unfold brows. rewrite Forall_forall. intros H. destruct (Nat.lt_ge_cases j (length rows)) as [Hj|Hj].
  - apply H. apply nth_In. exact Hj.
  - rewrite nth_overflow by lia. constructor.
Qed.
Lemma brows_firstn n rows : brows rows -> brows (firstn n rows).
Proof. unfold brows. intros H. apply Forall_forall. intros x Hx. rewrite Forall_forall in H. apply H. eapply In_firstn'; eauto. Qed.
Lemma brows_skipn n rows : brows rows -> brows (skipn n rows).
Proof. unfold brows. intros H. apply Forall_forall. intros x Hx. rewrite Forall_forall in H. apply H. eapply In_skipn; eauto. Qed.
Lemma brows_app a b : brows a -> brows b -> brows (a ++ b).
Proof. unfold brows. intros. apply Forall_app. split; assumption. Qed.

(* ---- horizontal pass ---- *)
Lemma horiz_go_bytes s : 0 <= s -> forall fuel rows w, rect w rows -> brows rows -> brows (horiz_go fuel s rows).
Proof.
  intros Hs. induction fuel as [|f IH]; intros rows w Hr Hb; [exact Hb|]. cbn [horiz_go].
  destruct rows as [|a [|b [|c [|d rest]]]]; try exact Hb.
  unfold rect in Hr. inversion Hr as [|? ? La Hr1]; subst. inversion Hr1 as [|? ? Lb Hr2]; subst.
  inversion Hr2 as [|? ? Lc Hr3]; subst. inversion Hr3 as [|? ? Ld Hr4]; subst.
  unfold brows in Hb. inversion Hb as [|? ? Ba Hb1]; subst. inversion Hb1 as [|? ? Bb Hb2]; subst.
  inversion Hb2 as [|? ? Bc Hb3]; subst. inversion Hb3 as [|? ? Bd Hb4]; subst.
  rewrite filter4_eq by (first [assumption | congruence]).
  pose proof (map4_bytes s Hs a b c d Ba Bb Bc Bd) as HB.
  destruct (map4 (aJ s) a b c d) as [[[a' b'] c'] d']. destruct HB as (B1 & B2 & B3 & B4).
  repeat (apply Forall_cons; [assumption|]).
  apply brows_app; [apply brows_firstn; exact Hb4|]. apply (IH _ (length a)); [apply rect_skipn; exact Hr4|apply brows_skipn; exact Hb4].
Qed.

Definition hsel (s : Z) (rows : list row) (j x : nat) : Z :=
  if ((j mod 8 <? 4) && (8 * (j / 8) + 4 <=? length rows))%nat
  then sel4 (Z.of_nat (j mod 8))
         (annexJ (nth x (nth (8 * (j / 8)) rows []) 0) (nth x (nth (8 * (j / 8) + 1) rows []) 0)
                 (nth x (nth (8 * (j / 8) + 2) rows []) 0) (nth x (nth (8 * (j / 8) + 3) rows []) 0) s)
  else nth x (nth j rows []) 0.

Lemma horiz_go_nth s w : 0 <= s -> forall fuel rows, (length rows <= fuel)%nat -> rect w rows -> brows rows ->
  forall j x, (j < length rows)%nat -> (x < w)%nat ->
  nth x (nth j (horiz_go fuel s rows) []) 0 = hsel s rows j x.
Proof.
  intros Hs. induction fuel as [|f IH]; intros rows Hf Hr Hb j x Hj Hx; [lia|]. cbn [horiz_go].
  destruct rows as [|a [|b [|c [|d rest]]]];
    try (unfold hsel; match goal with |- _ = (if ?c then _ else _) => destruct c eqn:E end; [cbn [length] in *; exfalso; lia|reflexivity]).
  unfold rect in Hr. inversion Hr as [|? ? La Hr1]; subst. inversion Hr1 as [|? ? Lb Hr2]; subst.
  inversion Hr2 as [|? ? Lc Hr3]; subst. inversion Hr3 as [|? ? Ld Hr4]; subst.
  unfold brows in Hb. inversion Hb as [|? ? Ba Hb1]; subst. inversion Hb1 as [|? ? Bb Hb2]; subst.
  inversion Hb2 as [|? ? Bc Hb3]; subst. inversion Hb3 as [|? ? Bd Hb4]; subst.
  rewrite filter4_eq by (first [assumption | congruence]).
  pose proof (map4_nth (aJ s) a b c d (length a) eq_refl Lb Lc Ld x Hx) as HN. cbv zeta in HN.
  destruct (map4 (aJ s) a b c d) as [[[a' b'] c'] d']. destruct HN as (N0 & N1 & N2 & N3).
  cbn [length] in Hj, Hf.
  destruct j as [|[|[|[|[|[|[|[|j']]]]]]]]; unfold hsel; cbn [length].
  - cbn [nth]. exact N0.
  - cbn [nth]. exact N1.
  - cbn [nth]. exact N2.
  - cbn [nth]. exact N3.
  - change (nth 4 (a' :: b' :: c' :: d' :: ?l) []) with (nth 0 l []).
    rewrite app_nth1 by (rewrite firstn_length; lia). rewrite nth_firstn_lt by lia. reflexivity.
  - change (nth 5 (a' :: b' :: c' :: d' :: ?l) []) with (nth 1 l []).
    rewrite app_nth1 by (rewrite firstn_length; lia). rewrite nth_firstn_lt by lia. reflexivity.
  - change (nth 6 (a' :: b' :: c' :: d' :: ?l) []) with (nth 2 l []).
    rewrite app_nth1 by (rewrite firstn_length; lia). rewrite nth_firstn_lt by lia. reflexivity.
  - change (nth 7 (a' :: b' :: c' :: d' :: ?l) []) with (nth 3 l []).
    rewrite app_nth1 by (rewrite firstn_length; lia). rewrite nth_firstn_lt by lia. reflexivity.
  - change (nth (S (S (S (S (S (S (S (S j')))))))) (a' :: b' :: c' :: d' :: ?l) []) with (nth (4 + j') l []).
    rewrite app_nth2 by (rewrite firstn_length; lia). rewrite firstn_length.
    replace (4 + j' - Nat.min 4 (length rest))%nat with j' by lia.
    rewrite (IH (skipn 4 rest)); [|rewrite skipn_length; lia|apply rect_skipn; exact Hr4|apply brows_skipn; exact Hb4|rewrite skipn_length; lia|exact Hx].
    unfold hsel. rewrite skipn_length.
    replace (S (S (S (S (S (S (S (S j'))))))))%nat with (j' + 1 * 8)%nat by lia.
    rewrite Nat.mod_add, Nat.div_add by lia.
    replace (8 * (j' / 8 + 1) + 4 <=? S (S (S (S (length rest)))))%nat with (8 * (j' / 8) + 4 <=? length rest - 4)%nat
      by (apply Bool.eq_true_iff_eq; rewrite !Nat.leb_le; lia).
    rewrite !nth_skipn'.
    replace (8 * (j' / 8 + 1))%nat with (S (S (S (S (4 + 8 * (j' / 8))))))%nat by lia.
    replace (j' + 1 * 8)%nat with (S (S (S (S (4 + j')))))%nat by lia.
    cbn [nth Nat.add].
    replace (4 + 8 * (j' / 8) + 1)%nat with (4 + (8 * (j' / 8) + 1))%nat by lia.
    replace (4 + 8 * (j' / 8) + 2)%nat with (4 + (8 * (j' / 8) + 2))%nat by lia.
    replace (4 + 8 * (j' / 8) + 3)%nat with (4 + (8 * (j' / 8) + 3))%nat by lia.
    reflexivity.
Qed.

Definition imgZ (rows : list row) (x y : Z) : Z := nth (Z.to_nat x) (nth (Z.to_nat y) rows []) 0.

Lemma deblock_horiz_nth s w rows : 0 <= s -> rect w rows -> brows rows -> forall y x, (y < length rows)%nat -> (x < w)%nat ->
  nth x (nth y (deblock_horiz s rows) []) 0 = if (y <? 6)%nat then nth x (nth y rows []) 0 else hsel s (skipn 6 rows) (y - 6) x.
Proof.
  intros Hs Hr Hb y x Hy Hx. unfold deblock_horiz. destruct (y <? 6)%nat eqn:E.
  - apply Nat.ltb_lt in E. rewrite app_nth1 by (rewrite firstn_length; lia). rewrite nth_firstn_lt by lia. reflexivity.
  - apply Nat.ltb_ge in E. rewrite app_nth2 by (rewrite firstn_length; lia). rewrite firstn_length.
    replace (y - Nat.min 6 (length rows))%nat with (y - 6)%nat by lia.
    apply (horiz_go_nth s w Hs); [rewrite skipn_length; lia|apply rect_skipn; exact Hr|apply brows_skipn; exact Hb|rewrite skipn_length; lia|exact Hx].
Qed.

Lemma horiz_pass_spec s w rows : 0 <= s -> rect w rows -> brows rows -> forall yn xn, (yn < length rows)%nat -> (xn < w)%nat ->
  nth xn (nth yn (deblock_horiz s rows) []) 0 = horiz_spec (imgZ rows) (zlength rows) s (Z.of_nat xn) (Z.of_nat yn).
Proof.
  intros Hs Hr Hb yn xn Hy Hx. rewrite (deblock_horiz_nth s w) by assumption.
  unfold horiz_spec, edge_of, zlength. cbv zeta.
  destruct (yn <? 6)%nat eqn:E6.
  - apply Nat.ltb_lt in E6.
    match goal with |- _ = match (if ?c then _ else _) with _ => _ end => destruct c eqn:Ec end; [exfalso; lia|].
    unfold imgZ. rewrite !Nat2Z.id. reflexivity.
  - apply Nat.ltb_ge in E6. unfold hsel. rewrite skipn_length.
    match goal with |- (if ?c1 then _ else _) = match (if ?c2 then _ else _) with _ => _ end => destruct c1 eqn:E1; destruct c2 eqn:E2 end;
      try (exfalso; lia).
    + unfold imgZ. rewrite !Nat2Z.id, !nth_skipn'.
      set (g := (8 * ((yn - 6) / 8))%nat).
      replace (Z.to_nat (8 * ((Z.of_nat yn + 2) / 8) - 2)) with (6 + g)%nat by lia.
      replace (Z.to_nat (8 * ((Z.of_nat yn + 2) / 8) - 1)) with (6 + (g + 1))%nat by lia.
      replace (Z.to_nat (8 * ((Z.of_nat yn + 2) / 8))) with (6 + (g + 2))%nat by lia.
      replace (Z.to_nat (8 * ((Z.of_nat yn + 2) / 8) + 1)) with (6 + (g + 3))%nat by lia.
      f_equal. lia.
    + unfold imgZ. rewrite !Nat2Z.id, nth_skipn'. replace (6 + (yn - 6))%nat with yn by lia. reflexivity.
Qed.

(* ---- vertical pass ---- *)
Definition vsel (k : kernel) (r : row) (i : nat) : Z :=
  if ((4 <=? i mod 8) && (8 * (i / 8) + 8 <=? length r))%nat
  then sel4 (Z.of_nat (i mod 8 - 4))
         (k (nth (8 * (i / 8) + 4) r 0) (nth (8 * (i / 8) + 5) r 0) (nth (8 * (i / 8) + 6) r 0) (nth (8 * (i / 8) + 7) r 0))
  else nth i r 0.

Lemma vert_chunks_nth (k : kernel) : forall n r, (length r <= n)%nat -> forall i, (i < length r)%nat ->
  nth i (vert_chunks k r) 0 = vsel k r i.
Proof.
  induction n as [|n IH]; intros r Hn i Hi; [lia|].
  destruct r as [|x0 [|x1 [|x2 [|x3 [|a [|b [|c [|d rest]]]]]]]];
    try (unfold vsel; cbn [vert_chunks]; match goal with |- _ = (if ?c then _ else _) => destruct c eqn:E end; [cbn [length] in *; exfalso; lia|reflexivity]).
  cbn [vert_chunks]. cbn [length] in Hn, Hi.
  destruct i as [|[|[|[|[|[|[|[|i']]]]]]]]; unfold vsel; cbn [length].
  - destruct (k a b c d) as [[[a' b'] c'] d']. reflexivity.
  - destruct (k a b c d) as [[[a' b'] c'] d']. reflexivity.
  - destruct (k a b c d) as [[[a' b'] c'] d']. reflexivity.
  - destruct (k a b c d) as [[[a' b'] c'] d']. reflexivity.
  - cbn. destruct (k a b c d) as [[[a' b'] c'] d']. reflexivity.
  - cbn. destruct (k a b c d) as [[[a' b'] c'] d']. reflexivity.
  - cbn. destruct (k a b c d) as [[[a' b'] c'] d']. reflexivity.
  - cbn. destruct (k a b c d) as [[[a' b'] c'] d']. reflexivity.
  - destruct (k a b c d) as [[[a' b'] c'] d'].
    change (nth (S (S (S (S (S (S (S (S i')))))))) (x0 :: x1 :: x2 :: x3 :: a' :: b' :: c' :: d' :: ?l) 0) with (nth i' l 0).
    rewrite (IH rest) by lia. unfold vsel.
    replace (S (S (S (S (S (S (S (S i'))))))))%nat with (i' + 1 * 8)%nat by lia.
    rewrite Nat.mod_add, Nat.div_add by lia.
    replace (8 * (i' / 8 + 1) + 8 <=? S (S (S (S (S (S (S (S (length rest)))))))))%nat with (8 * (i' / 8) + 8 <=? length rest)%nat
      by (apply Bool.eq_true_iff_eq; rewrite !Nat.leb_le; lia).
    replace (8 * (i' / 8 + 1) + 4)%nat with (S (S (S (S (S (S (S (S (8 * (i' / 8) + 4)))))))))%nat by lia.
    replace (8 * (i' / 8 + 1) + 5)%nat with (S (S (S (S (S (S (S (S (8 * (i' / 8) + 5)))))))))%nat by lia.
    replace (8 * (i' / 8 + 1) + 6)%nat with (S (S (S (S (S (S (S (S (8 * (i' / 8) + 6)))))))))%nat by lia.
    replace (8 * (i' / 8 + 1) + 7)%nat with (S (S (S (S (S (S (S (S (8 * (i' / 8) + 7)))))))))%nat by lia.
    replace (i' + 1 * 8)%nat with (S (S (S (S (S (S (S (S i'))))))))%nat by lia.
    cbn [nth]. reflexivity.
Qed.

Lemma vert_chunks_ext (k1 k2 : kernel) :
  (forall a b c d, byte a -> byte b -> byte c -> byte d -> k1 a b c d = k2 a b c d) ->
  forall n r, (length r <= n)%nat -> bytes r -> vert_chunks k1 r = vert_chunks k2 r.
Proof.
  intros Hk. induction n as [|n IH]; intros r Hn Hb.
  - destruct r; [reflexivity|cbn in Hn; lia].
  - destruct r as [|x0 [|x1 [|x2 [|x3 [|a [|b [|c [|d rest]]]]]]]]; try reflexivity.
    cbn [vert_chunks]. unfold bytes in Hb.
    assert (Ba : byte a /\ byte b /\ byte c /\ byte d /\ bytes rest).
    { repeat match goal with H : Forall _ (_ :: _) |- _ => inversion H; clear H; subst end. auto. }
    destruct Ba as (Ba & Bb & Bc & Bd & Br). rewrite Hk by assumption. rewrite (IH rest) by (cbn [length] in Hn; try lia; exact Br). reflexivity.
Qed.

Lemma vert_row_ext (k1 k2 : kernel) r :
  (forall a b c d, byte a -> byte b -> byte c -> byte d -> k1 a b c d = k2 a b c d) -> bytes r -> vert_row k1 r = vert_row k2 r.
Proof. intros Hk Hb. unfold vert_row. f_equal. apply (vert_chunks_ext k1 k2 Hk (length (skipn 2 r))); [lia|apply bytes_skipn; exact Hb]. Qed.

Lemma deblock_vert_eq w s rows : 0 <= s -> brows rows -> 10 <= w -> deblock_vert w s rows = map (vert_row (aJ s)) rows.
Proof.
  intros Hs Hb Hw. unfold deblock_vert. destruct (10 <=? w) eqn:E; [|lia]. cbv zeta.
  set (n8 := (8 * (length rows / 8))%nat).
  rewrite <- (firstn_skipn n8 rows) at 3. rewrite map_app. f_equal; apply map_ext_in; intros r Hr; apply vert_row_ext.
  - intros; apply process_lane_is_annexJ; assumption.
  - unfold brows in Hb. rewrite Forall_forall in Hb. apply Hb. eapply In_firstn'; eauto.
  - intros; apply process_is_annexJ; assumption.
  - unfold brows in Hb. rewrite Forall_forall in Hb. apply Hb. eapply In_skipn; eauto.
Qed.

Lemma vert_row_nth (k : kernel) r x : (x < length r)%nat ->
  nth x (vert_row k r) 0 = if (x <? 2)%nat then nth x r 0 else vsel k (skipn 2 r) (x - 2).
Proof.
  intros Hx. unfold vert_row. destruct (x <? 2)%nat eqn:E.
  - apply Nat.ltb_lt in E. rewrite app_nth1 by (rewrite firstn_length; lia). apply nth_firstn_lt. exact E.
  - apply Nat.ltb_ge in E. rewrite app_nth2 by (rewrite firstn_length; lia). rewrite firstn_length.
    replace (x - Nat.min 2 (length r))%nat with (x - 2)%nat by lia.
    apply (vert_chunks_nth k (length (skipn 2 r))); [lia|rewrite skipn_length; lia].
Qed.

Lemma vert_pass_spec s w rows : 0 <= s -> rect w rows -> brows rows -> forall yn xn, (yn < length rows)%nat -> (xn < w)%nat ->
  nth xn (nth yn (deblock_vert (Z.of_nat w) s rows) []) 0 = vert_spec (imgZ rows) (Z.of_nat w) s (Z.of_nat xn) (Z.of_nat yn).
Proof.
  intros Hs Hr Hb yn xn Hy Hx. unfold vert_spec, edge_of. cbv zeta.
  destruct (Z.lt_ge_cases (Z.of_nat w) 10) as [Hw|Hw].
  - unfold deblock_vert. destruct (10 <=? Z.of_nat w) eqn:E; [lia|].
    match goal with |- _ = match (if ?c then _ else _) with _ => _ end => destruct c eqn:Ec end; [exfalso; lia|].
    unfold imgZ. rewrite !Nat2Z.id. reflexivity.
  - rewrite deblock_vert_eq by (first [assumption | lia]).
    rewrite (nth_indep _ [] (vert_row (aJ s) [])) by (rewrite map_length; exact Hy). rewrite map_nth.
    pose proof (rect_nth w rows yn Hr Hy) as Hl. set (r := nth yn rows []) in *.
    rewrite vert_row_nth by lia.
    destruct (xn <? 2)%nat eqn:E2.
    + apply Nat.ltb_lt in E2.
      match goal with |- _ = match (if ?c then _ else _) with _ => _ end => destruct c eqn:Ec end; [exfalso; lia|].
      unfold imgZ. rewrite !Nat2Z.id. reflexivity.
    + apply Nat.ltb_ge in E2. unfold vsel. rewrite skipn_length, Hl.
      match goal with |- (if ?c1 then _ else _) = match (if ?c2 then _ else _) with _ => _ end => destruct c1 eqn:E1; destruct c2 eqn:Ec end;
        try (exfalso; lia).
      * unfold imgZ, aJ. rewrite !Nat2Z.id, !nth_skipn'. fold r.
        set (g := (8 * ((xn - 2) / 8))%nat).
        replace (Z.to_nat (8 * ((Z.of_nat xn + 2) / 8) - 2)) with (2 + (g + 4))%nat by lia.
        replace (Z.to_nat (8 * ((Z.of_nat xn + 2) / 8) - 1)) with (2 + (g + 5))%nat by lia.
        replace (Z.to_nat (8 * ((Z.of_nat xn + 2) / 8))) with (2 + (g + 6))%nat by lia.
        replace (Z.to_nat (8 * ((Z.of_nat xn + 2) / 8) + 1)) with (2 + (g + 7))%nat by lia.
        f_equal. lia.
      * unfold imgZ. rewrite !Nat2Z.id, nth_skipn'. replace (2 + (xn - 2))%nat with xn by lia. reflexivity.
Qed.

(* ---- assembly ---- *)
Lemma deblock_horiz_bytes s w rows : 0 <= s -> rect w rows -> brows rows -> brows (deblock_horiz s rows).
Proof.
  intros Hs Hr Hb. unfold deblock_horiz. apply brows_app; [apply brows_firstn; exact Hb|].
  apply (horiz_go_bytes s Hs _ _ w); [apply rect_skipn; exact Hr|apply brows_skipn; exact Hb].
Qed.

Lemma horiz_spec_ext f g h s x y : (forall y', 0 <= y' < h -> f x y' = g x y') -> 0 <= y < h ->
  horiz_spec f h s x y = horiz_spec g h s x y.
Proof.
  intros H Hy. unfold horiz_spec, edge_of. cbv zeta.
  match goal with |- match (if ?c then _ else _) with _ => _ end = _ => destruct c eqn:Ec end.
  - rewrite !H by lia. reflexivity.
  - apply H. exact Hy.
Qed.
Lemma vert_spec_ext f g w s x y : (forall x', 0 <= x' < w -> f x' y = g x' y) -> 0 <= x < w ->
  vert_spec f w s x y = vert_spec g w s x y.
Proof.
  intros H Hx. unfold vert_spec, edge_of. cbv zeta.
  match goal with |- match (if ?c then _ else _) with _ => _ end = _ => destruct c eqn:Ec end.
  - rewrite !H by lia. reflexivity.
  - apply H. exact Hx.
Qed.

Lemma row_as_map (r : row) : r = map (fun x => nth x r 0) (seq 0 (length r)).
Proof.
  induction r as [|a r IH]; [reflexivity|]. cbn [length seq map nth]. f_equal.
  rewrite <- seq_shift, map_map. exact IH.
Qed.

Lemma rows_as_flat_map w : forall rows, rect w rows ->
  concat rows = flat_map (fun y => map (fun x => nth x (nth y rows []) 0) (seq 0 w)) (seq 0 (length rows)).
Proof.
  induction rows as [|r rows IH]; intros Hr; [reflexivity|].
  unfold rect in Hr. inversion Hr as [|? ? Lr Hr']; subst.
  cbn [length seq flat_map concat nth]. f_equal; [apply row_as_map|].
  rewrite IH by exact Hr'. rewrite <- seq_shift. rewrite !flat_map_concat_map, map_map. reflexivity.
Qed.

Lemma concat_nth w : forall rows y x, rect w rows -> (y < length rows)%nat -> (x < w)%nat ->
  nth (x + y * w) (concat rows) 0 = nth x (nth y rows []) 0.
Proof.
  induction rows as [|r rows IH]; intros y x Hr Hy Hx; [cbn in Hy; lia|].
  unfold rect in Hr. inversion Hr as [|? ? Lr Hr']; subst. cbn [concat].
  destruct y as [|y].
  - cbn [nth]. rewrite app_nth1 by lia. f_equal. lia.
  - cbn [nth]. rewrite app_nth2 by nia. rewrite <- (IH y x Hr') by (cbn [length] in Hy; lia). f_equal. nia.
Qed.

Theorem deblock_is_annexJ data w h s :
  1 <= w -> 0 <= h -> zlength data = w * h -> Forall byte data -> 0 <= s ->
  deblock data w s = Ok (annexJ_flat data w h s).
Proof.
  intros Hw Hh Hlen Hb Hs. unfold deblock.
  destruct (w =? 0) eqn:E0; [lia|]. rewrite Hlen. rewrite Z.mul_comm, Z.mod_mul by lia. cbn [Z.eqb negb]. cbv zeta. f_equal.
  set (n := Z.to_nat w). set (m := Z.to_nat h).
  assert (Hn : (0 < n)%nat) by lia.
  assert (Hl : length data = (n * m)%nat) by (unfold zlength in Hlen; nia).
  destruct (chunks_rect n data m Hn Hl) as (C1 & C2 & C3).
  set (rows0 := chunks n data) in *.
  assert (B0 : brows rows0).
  { unfold brows, bytes. apply Forall_forall. intros r Hr. apply Forall_forall. intros v Hv.
    rewrite Forall_forall in Hb. apply Hb. rewrite <- C3. apply in_concat. exists r. split; assumption. }
  destruct (deblock_horiz_shape n s rows0 C1) as [H1 H2].
  pose proof (deblock_horiz_bytes s n rows0 Hs C1 B0) as B1.
  set (rows1 := deblock_horiz s rows0) in *.
  destruct (deblock_vert_shape n w s rows1 H1) as [V1 V2].
  rewrite (rows_as_flat_map n _ V1). rewrite V2, H2, C2.
  unfold annexJ_flat. fold n. fold m. rewrite !flat_map_concat_map. f_equal.
  apply map_ext_in. intros y Hy. apply in_seq in Hy. apply map_ext_in. intros x Hx. apply in_seq in Hx.
  replace w with (Z.of_nat n) at 1 by lia.
  rewrite (vert_pass_spec s n rows1 Hs H1 B1 y x) by lia.
  replace (Z.of_nat n) with w by lia. unfold annexJ_image.
  apply vert_spec_ext; [|lia]. intros x' Hx'.
  unfold imgZ. rewrite Nat2Z.id. unfold rows1.
  rewrite (horiz_pass_spec s n rows0 Hs C1 B0 y (Z.to_nat x')) by lia.
  rewrite Z2Nat.id by lia. unfold zlength. rewrite C2. replace (Z.of_nat m) with h by lia.
  apply horiz_spec_ext; [|lia]. intros y' Hy'.
  unfold imgZ, flat_img. rewrite <- (concat_nth n rows0) by (first [exact C1 | lia]). rewrite C3. f_equal. nia.
Qed.
