(* Spec-side facts about coefficient reconstruction: dequantisation formula,
   zig-zag order as an anti-diagonal walk, INTRADC levels, quantizer update. *)
From H263V Require Import base.Prelude spec.SpecRecon model.Types model.Tables model.Reader model.Header model.Syntax model.F32 model.Recon model.Decoder.
Require Import ZifyBool.
Ltac Zify.zify_post_hook ::= Z.to_euclidean_division_equations.

Lemma dequant_is_spec q level : 0 <= q -> dequant q level = spec_dequant q level.
Proof.
  intros Hq. unfold dequant, spec_dequant.
  assert (E : (if Z.rem q 2 =? 1 then 0 else -1) = - (if Z.even q then 1 else 0)).
  { rewrite Z.rem_mod_nonneg by lia. rewrite Zmod_even. destruct (Z.even q); reflexivity. }
  rewrite E. cbv zeta. f_equal.
Qed.

(* explicit form on the codable domain *)
Lemma dequant_explicit q level : 1 <= q <= 31 -> level <> 0 ->
  dequant q level =
  let v := q * (2 * Z.abs level + 1) - (if Z.even q then 1 else 0) in
  if 0 <? level then Z.min 2047 v else Z.max (-2048) (- v).
Proof.
  intros Hq Hl. rewrite dequant_is_spec by lia. unfold spec_dequant, clamp. cbv zeta.
  destruct (Z.even q); destruct (0 <? level) eqn:E; lia.
Qed.

Lemma dezigzag_is_walk : dezigzag_mapping = zigzag_walk.
Proof. vm_compute. reflexivity. Qed.

Lemma intradc_spec c : 0 <= c <= 255 ->
  (intradc_from_u8 c = None <-> (c = 0 \/ c = 128)) /\
  (forall d, intradc_from_u8 c = Some d -> d = c /\ intradc_level d = if c =? 255 then 1024 else 8 * c).
Proof.
  intros Hc. unfold intradc_from_u8, intradc_level. split.
  - destruct (c =? 0) eqn:E0; destruct (c =? 128) eqn:E1; cbn [orb]; split; intros H; try discriminate; try lia; try reflexivity.
  - intros d H. destruct ((c =? 0) || (c =? 128)); [discriminate|]. inversion H; subst. split; reflexivity.
Qed.

(* quantizer after DQUANT: clamped to 1..31 *)
Lemma next_quant_spec q d : 0 <= q <= 31 -> (d = -2 \/ d = -1 \/ d = 1 \/ d = 2) ->
  next_quant q (Some d) = spec_next_quant q d.
Proof. intros Hq Hd. unfold next_quant, spec_next_quant, clamp. lia. Qed.

Lemma dquant_arms_spec : dquant_arms = [-1; -2; 1; 2].
Proof. reflexivity. Qed.
