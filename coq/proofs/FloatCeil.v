(* The two integer quantities the decoder computes in floating point, proved exact for every u16 by evaluating Flocq's
   operations on all 65 536 values inside the kernel:
     (w as f32 / 2.0).ceil() as usize  = (w + 1) / 2     (chroma plane sizes, DecodedPicture::new)
     (w as f64 / 16.0).ceil() as usize = (w + 15) / 16   (macroblock counts, decode_next_picture)            *)
From H263V Require Import base.Prelude model.F32 model.F64.
Require Import ZifyBool.
Ltac Zify.zify_post_hook ::= Z.div_mod_to_equations.

Definition bytes256 : list Z := map Z.of_nat (seq 0 256).
Lemma in_bytes256 x : 0 <= x < 256 -> In x bytes256.
Proof. intros H. unfold bytes256. apply in_map_iff. exists (Z.to_nat x). split; [lia|]. apply in_seq. lia. Qed.

Definition half_ok (w : Z) : bool := f_to_usize (fceil (fdiv (f_of_Z w) (f_of_Z 2))) =? (w + 1) / 2.
Lemma half_ok_all : forallb (fun a => forallb (fun b => half_ok (256 * a + b)) bytes256) bytes256 = true.
Proof. vm_compute. reflexivity. Qed.

Lemma half_exact w : 0 <= w <= 65535 -> f_to_usize (fceil (fdiv (f_of_Z w) (f_of_Z 2))) = (w + 1) / 2.
Proof.
  intros H. pose proof half_ok_all as A. rewrite forallb_forall in A.
  specialize (A (w / 256) (in_bytes256 (w / 256) ltac:(lia))). rewrite forallb_forall in A.
  specialize (A (w mod 256) (in_bytes256 (w mod 256) ltac:(lia))).
  replace (256 * (w / 256) + w mod 256) with w in A by lia. unfold half_ok in A. lia.
Qed.

Definition ceil16_ok (w : Z) : bool := d_to_usize (dceil (ddiv (d_of_Z w) (d_of_Z 16))) =? (w + 15) / 16.
Lemma ceil16_all : forallb (fun a => forallb (fun b => ceil16_ok (256 * a + b)) bytes256) bytes256 = true.
Proof. vm_compute. reflexivity. Qed.

Lemma ceil16_exact w : 0 <= w <= 65535 -> d_to_usize (dceil (ddiv (d_of_Z w) (d_of_Z 16))) = (w + 15) / 16.
Proof.
  intros H. pose proof ceil16_all as A. rewrite forallb_forall in A.
  specialize (A (w / 256) (in_bytes256 (w / 256) ltac:(lia))). rewrite forallb_forall in A.
  specialize (A (w mod 256) (in_bytes256 (w mod 256) ltac:(lia))).
  replace (256 * (w / 256) + w mod 256) with w in A by lia. unfold ceil16_ok in A. lia.
Qed.
