(* C05: failures change nothing; retry; more data. *)
From H263V Require Import base.Prelude model.Types model.Reader model.Header model.Syntax model.Recon model.Decoder
  proofs.StateRefine.

(* The step function of a decode call as the caller sees it: state and reader after the call, and the result. *)
Definition call (s : state) (r : reader) : state * reader * res unit :=
  match decode_next_picture s r with
  | Ok (s', r') => (s', r', Ok tt)
  | Err e => (s, r, Err e)
  | Panic p => (s, r, Panic p)
  | OutOfFuel => (s, r, OutOfFuel)
  end.

Lemma error_changes_nothing s r s' r' e : call s r = (s', r', Err e) -> s' = s /\ r' = r.
Proof.
  unfold call. destruct (decode_next_picture s r) as [[s1 r1]| | |]; intros H; inversion H; subst; split; reflexivity.
Qed.

(* a failed call is invisible: any later call behaves as on a decoder that never made it *)
Lemma failed_call_is_invisible s rbad e r :
  (exists s1 r1, call s rbad = (s1, r1, Err e)) ->
  forall s1 r1, call s rbad = (s1, r1, Err e) -> call s1 r = call s r.
Proof.
  intros _ s1 r1 H. apply error_changes_nothing in H. destruct H as [-> _]. reflexivity.
Qed.

(* appending data to the source: the reader's unread bits grow at the end *)
Definition grow (r : reader) (more : list bool) : reader := mkReader (rbits r ++ more) (rpos r).

(* a call repeated on the same (unchanged) reader after the source grew is the call on the grown reader:
   the failed first attempt left state and reader as they were *)
Lemma more_data_same_result s r e more :
  (exists s1 r1, call s r = (s1, r1, Err e)) ->
  forall s1 r1, call s r = (s1, r1, Err e) -> call s1 (grow r1 more) = call s (grow r more).
Proof.
  intros _ s1 r1 H. apply error_changes_nothing in H. destruct H as [-> ->]. reflexivity.
Qed.
