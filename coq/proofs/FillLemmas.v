(* Nested loops that read-modify-write each sample of a set of positions once: the result, pointwise. *)
From H263V Require Import base.Prelude model.Types model.Recon proofs.HeaderLemmas proofs.PlaneShape proofs.GatherSpec.
Require Import ZifyBool ZifyNat.

Section Line.
  Variables (w h : Z).
  Variables (cx cy : Z -> Z) (inv : Z -> Z -> Z) (g : Z -> Z -> Z).
  Hypothesis inv_ok : forall i x y, cx i = x -> cy i = y -> inv x y = i.

  Definition on_line (i0 k x y : Z) : bool :=
    let i := inv x y in (i0 <=? i) && (i <? i0 + k) && (cx i =? x) && (cy i =? y).

  Lemma line_fill_go (body : Z -> plane -> res plane) :
    forall k i0 t0, plane_ok w h t0 ->
    (forall i, i0 <= i < i0 + Z.of_nat k -> 0 <= cx i < w /\ 0 <= cy i < h) ->
    (forall i t, plane_ok w h t -> i0 <= i < i0 + Z.of_nat k -> body i t = pset t (cx i + cy i * w) (g i (at_ t (cx i) (cy i)))) ->
    exists t', for_go k i0 body t0 = Ok t' /\ plane_ok w h t' /\
      forall x y, 0 <= x < w -> 0 <= y < h ->
        at_ t' x y = if on_line i0 (Z.of_nat k) x y then g (inv x y) (at_ t0 x y) else at_ t0 x y.
  Proof.
    induction k as [|k IH]; intros i0 t0 Ht Hr Hb; cbn [for_go].
    - exists t0. split; [reflexivity|]. split; [exact Ht|]. intros x y Hx Hy. unfold on_line. cbv zeta.
      destruct ((i0 <=? inv x y) && (inv x y <? i0 + Z.of_nat 0)) eqn:E; [lia|]. reflexivity.
    - rewrite Hb by (first [exact Ht | lia]).
      destruct (Hr i0 ltac:(lia)) as [Rx Ry].
      destruct (pset_at w h t0 (cx i0) (cy i0) (g i0 (at_ t0 (cx i0) (cy i0))) Ht Rx Ry) as (t1 & E1 & O1 & A1).
      rewrite E1. cbn [bind].
      destruct (IH (i0 + 1) t1 O1) as (t' & E2 & O2 & A2).
      { intros i Hi. apply Hr. lia. }
      { intros i t Ht2 Hi. apply Hb; [exact Ht2|lia]. }
      exists t'. split; [exact E2|]. split; [exact O2|]. intros x y Hx Hy. rewrite A2 by assumption. rewrite !A1 by assumption.
      unfold on_line. cbv zeta.
      destruct ((x =? cx i0) && (y =? cy i0)) eqn:Ehere.
      + assert (x = cx i0 /\ y = cy i0) as [-> ->] by lia. rewrite (inv_ok i0 _ _ eq_refl eq_refl). rewrite !Z.eqb_refl.
        destruct ((i0 + 1 <=? i0) && (i0 <? i0 + 1 + Z.of_nat k)) eqn:E3; [lia|]. cbn [andb].
        destruct ((i0 <=? i0) && (i0 <? i0 + Z.of_nat (S k))) eqn:E4; [reflexivity|lia].
      + destruct (Z.eq_dec (inv x y) i0) as [Ei|Ei].
        * rewrite Ei.
          destruct ((i0 + 1 <=? i0) && (i0 <? i0 + 1 + Z.of_nat k) && (cx i0 =? x) && (cy i0 =? y)) eqn:E3; [lia|].
          destruct ((i0 <=? i0) && (i0 <? i0 + Z.of_nat (S k)) && (cx i0 =? x) && (cy i0 =? y)) eqn:E4; [lia|]. reflexivity.
        * destruct ((i0 + 1 <=? inv x y) && (inv x y <? i0 + 1 + Z.of_nat k) && (cx (inv x y) =? x) && (cy (inv x y) =? y)) eqn:E3;
          destruct ((i0 <=? inv x y) && (inv x y <? i0 + Z.of_nat (S k)) && (cx (inv x y) =? x) && (cy (inv x y) =? y)) eqn:E4;
            try reflexivity; exfalso; lia.
  Qed.
End Line.

Section Nest.
  Variables (w h : Z).
  Variables (cx cy : Z -> Z -> Z) (inva : Z -> Z -> Z) (inv : Z -> Z -> Z -> Z) (g : Z -> Z -> Z -> Z).
  Hypothesis inv_ok : forall a i x y, cx a i = x -> cy a i = y -> inva x y = a /\ inv a x y = i.

  Definition in_nest (na nb x y : Z) : bool :=
    let a := inva x y in let i := inv a x y in
    (0 <=? a) && (a <? na) && (0 <=? i) && (i <? nb) && (cx a i =? x) && (cy a i =? y).

  Lemma nest_fill_go (nb : Z) (linef : Z -> plane -> res plane) : 0 <= nb ->
    forall k a0 t0, plane_ok w h t0 -> 0 <= a0 ->
    (forall a t, plane_ok w h t -> a0 <= a < a0 + Z.of_nat k ->
       exists t', linef a t = Ok t' /\ plane_ok w h t' /\
         forall x y, 0 <= x < w -> 0 <= y < h ->
           at_ t' x y = if on_line (cx a) (cy a) (inv a) 0 nb x y then g a (inv a x y) (at_ t x y) else at_ t x y) ->
    exists t', for_go k a0 linef t0 = Ok t' /\ plane_ok w h t' /\
      forall x y, 0 <= x < w -> 0 <= y < h ->
        at_ t' x y =
          (let a := inva x y in let i := inv a x y in
           if (a0 <=? a) && (a <? a0 + Z.of_nat k) && (0 <=? i) && (i <? nb) && (cx a i =? x) && (cy a i =? y)
           then g a i (at_ t0 x y) else at_ t0 x y).
  Proof.
    intros Hnb. induction k as [|k IH]; intros a0 t0 Ht Ha0 Hl; cbn [for_go].
    - exists t0. split; [reflexivity|]. split; [exact Ht|]. intros x y Hx Hy. cbv zeta.
      destruct ((a0 <=? inva x y) && (inva x y <? a0 + Z.of_nat 0)) eqn:E; [lia|]. reflexivity.
    - destruct (Hl a0 t0 Ht ltac:(lia)) as (t1 & E1 & O1 & A1). rewrite E1. cbn [bind].
      destruct (IH (a0 + 1) t1 O1 ltac:(lia)) as (t' & E2 & O2 & A2).
      { intros a t Ht2 Hi. apply Hl; [exact Ht2|lia]. }
      exists t'. split; [exact E2|]. split; [exact O2|]. intros x y Hx Hy. rewrite A2 by assumption. rewrite A1 by assumption.
      cbv zeta. unfold on_line. cbv zeta.
      set (a := inva x y). set (i := inv a x y).
      destruct (Z.eq_dec a a0) as [Ea|Ea].
      + (* (x,y) can only lie on line a0 *)
        rewrite Ea in *. fold i.
        destruct ((a0 + 1 <=? a0) && (a0 <? a0 + 1 + Z.of_nat k)) eqn:E3; [lia|]. cbn [andb].
        replace ((a0 <=? a0) && (a0 <? a0 + Z.of_nat (S k))) with true by lia. cbn [andb].
        replace (0 + nb) with nb by lia.
        destruct ((0 <=? inv a0 x y) && (inv a0 x y <? nb) && (cx a0 (inv a0 x y) =? x) && (cy a0 (inv a0 x y) =? y)) eqn:E4.
        * subst i. rewrite Ea. replace ((0 <=? inv a0 x y) && (inv a0 x y <? nb) && (cx a0 (inv a0 x y) =? x) && (cy a0 (inv a0 x y) =? y)) with true. reflexivity.
        * subst i. rewrite Ea. rewrite E4. reflexivity.
      + (* not on line a0: that line left it alone *)
        assert (Hoff : (0 <=? inv a0 x y) && (inv a0 x y <? 0 + nb) && (cx a0 (inv a0 x y) =? x) && (cy a0 (inv a0 x y) =? y) = false).
        { destruct ((0 <=? inv a0 x y) && (inv a0 x y <? 0 + nb) && (cx a0 (inv a0 x y) =? x) && (cy a0 (inv a0 x y) =? y)) eqn:E; [|reflexivity].
          exfalso. destruct (inv_ok a0 (inv a0 x y) x y ltac:(lia) ltac:(lia)) as [Hc _]. fold a in Hc. lia. }
        rewrite Hoff.
        destruct ((a0 + 1 <=? a) && (a <? a0 + 1 + Z.of_nat k) && (0 <=? i) && (i <? nb) && (cx a i =? x) && (cy a i =? y)) eqn:E3;
        destruct ((a0 <=? a) && (a <? a0 + Z.of_nat (S k)) && (0 <=? i) && (i <? nb) && (cx a i =? x) && (cy a i =? y)) eqn:E4;
          try reflexivity; exfalso; lia.
  Qed.

  Lemma nest_fill (na nb : Z) (body : Z -> Z -> plane -> res plane) t0 :
    0 <= na -> 0 <= nb -> plane_ok w h t0 ->
    (forall a i, 0 <= a < na -> 0 <= i < nb -> 0 <= cx a i < w /\ 0 <= cy a i < h) ->
    (forall a i t, plane_ok w h t -> 0 <= a < na -> 0 <= i < nb ->
       body a i t = pset t (cx a i + cy a i * w) (g a i (at_ t (cx a i) (cy a i)))) ->
    exists t', forZ na (fun a t => forZ nb (fun i t => body a i t) t) t0 = Ok t' /\ plane_ok w h t' /\
      forall x y, 0 <= x < w -> 0 <= y < h ->
        at_ t' x y = if in_nest na nb x y then g (inva x y) (inv (inva x y) x y) (at_ t0 x y) else at_ t0 x y.
  Proof.
    intros Hna Hnb Ht Hr Hb. unfold forZ at 1.
    destruct (nest_fill_go nb (fun a t => forZ nb (fun i t => body a i t) t) Hnb (Z.to_nat na) 0 t0 Ht ltac:(lia)) as (t' & E & O & A).
    { intros a t Ht2 Ha. unfold forZ.
      destruct (line_fill_go w h (cx a) (cy a) (inv a) (g a) (fun i x y Hx Hy => proj2 (inv_ok a i x y Hx Hy))
                  (fun i t => body a i t) (Z.to_nat nb) 0 t Ht2) as (t2 & E2 & O2 & A2).
      - intros i Hi. apply Hr; lia.
      - intros i t3 Ht3 Hi. apply Hb; [exact Ht3|lia|lia].
      - exists t2. split; [exact E2|]. split; [exact O2|]. intros x y Hx Hy. rewrite A2 by assumption.
        rewrite Z2Nat.id by lia. reflexivity. }
    exists t'. split; [exact E|]. split; [exact O|]. intros x y Hx Hy. rewrite A by assumption. cbv zeta. unfold in_nest. cbv zeta.
    rewrite Z2Nat.id by lia. replace (0 + na) with na by lia. reflexivity.
  Qed.
End Nest.
