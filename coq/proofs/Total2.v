(* C01, part 2: header, macroblock and block parsers are safe on every bit list and only move forward. *)
From H263V Require Import base.Prelude model.Types model.Tables model.Reader model.Header model.Syntax
  proofs.ReaderLemmas proofs.HeaderLemmas proofs.Total1.

Ltac safe_tac :=
  repeat first
  [ exact I
  | apply read_bits_safe | apply read_u8_safe | apply read_signed_safe | apply peek_bits_safe | apply skip_bits_safe
  | apply recognize_start_code_safe | apply read_umv_safe
  | apply read_vlc_safe_mcbpc_i | apply read_vlc_safe_mcbpc_p | apply read_vlc_safe_modb | apply read_vlc_safe_cbpy
  | apply read_vlc_safe_mvd | apply read_vlc_safe_tcoef
  | match goal with
    | |- safe (bind _ _) => apply safe_bind; [|intros ? ?]
    | |- safe (let '(_, _) := ?p in _) => destruct p
    | |- safe (if ?c then _ else _) => destruct c
    | |- safe (match ?x with _ => _ end) => destruct x
    end ].

Lemma decode_ptype_safe r : safe (decode_ptype r).
Proof. unfold decode_ptype. safe_tac. Qed.
Lemma decode_plusptype_safe o p r : safe (decode_plusptype o p r).
Proof. unfold decode_plusptype. safe_tac. Qed.
Lemma decode_sorenson_ptype_safe r : safe (decode_sorenson_ptype r).
Proof. unfold decode_sorenson_ptype. safe_tac. Qed.
Lemma decode_cpm_safe r : safe (decode_cpm_and_psbi r).
Proof. unfold decode_cpm_and_psbi. safe_tac. Qed.
Lemma decode_cpfmt_safe r : safe (decode_cpfmt r).
Proof.
  unfold decode_cpfmt. apply safe_bind; [apply read_bits_safe|]. intros [cpfmt r1] _.
  destruct (Z.land cpfmt 512 =? 0); [exact I|].
  set (p := Z.shiftr (Z.land cpfmt 7864320) 19).
  apply safe_bind.
  { destruct (p =? 0); [exact I|]. destruct (p =? 1); [exact I|]. destruct (p =? 2); [exact I|].
    destruct (p =? 3); [exact I|]. destruct (p =? 4); [exact I|]. destruct (p =? 5); [exact I|].
    destruct (p =? 15); [|exact I].
    apply safe_bind; [apply read_u8_safe|]. intros [pw r2] _.
    apply safe_bind; [apply read_u8_safe|]. intros [ph r3] _.
    destruct (_ || _); exact I. }
  intros [par r2] _. exact I.
Qed.
Lemma decode_uui_safe r : safe (decode_uui r).
Proof. unfold decode_uui. safe_tac. Qed.
Lemma decode_sss_safe r : safe (decode_sss r).
Proof. unfold decode_sss. safe_tac. Qed.
Lemma decode_elnum_safe f r : safe (decode_elnum_rlnum f r).
Proof. unfold decode_elnum_rlnum. safe_tac. Qed.
Lemma decode_rpsmf_safe r : safe (decode_rpsmf r).
Proof. unfold decode_rpsmf. safe_tac. Qed.
Lemma decode_trpi_safe r : safe (decode_trpi r).
Proof. unfold decode_trpi. safe_tac. Qed.
Lemma decode_bcm_safe r : safe (decode_bcm r).
Proof. unfold decode_bcm. safe_tac. Qed.

Theorem decode_picture_safe o prev r : safe (decode_picture o prev r).
Proof.
  unfold decode_picture.
  apply safe_bind; [apply recognize_start_code_safe|]. intros sc _. destruct sc as [skipped|]; [|exact I].
  apply safe_bind; [apply skip_bits_safe|]. intros r1 _.
  apply safe_bind; [apply read_bits_safe|]. intros [gob r2] _.
  destruct (sorenson o).
  - apply safe_bind; [apply read_u8_safe|]. intros [tr r3] _.
    apply safe_bind; [apply decode_sorenson_ptype_safe|]. intros [[[fmt ty] opts] r4] _.
    apply safe_bind; [apply read_bits_safe|]. intros [q r5] _.
    apply safe_bind; [apply decode_pei_safe; unfold rlen; lia|]. intros [extra r6] _. exact I.
  - destruct (negb (gob =? 0)); [exact I|].
    apply safe_bind; [apply read_u8_safe|]. intros [low r3] _.
    apply safe_bind; [apply decode_ptype_safe|]. intros [[o1 fat] r4] _.
    apply safe_bind.
    { destruct fat as [[fmt ty]|]; [exact I|].
      apply safe_bind; [apply decode_plusptype_safe|]. intros [[[[[xo fmt] ty] fol] opp] r5] _.
      apply safe_bind; [apply decode_cpm_safe|]. intros [mux r6] _. exact I. }
    intros [[[[[[[opts fmt] ty] fol] plus] opp] mux] r5] _.
    apply safe_bind. { destruct (f_custom_format fol); [|exact I]. apply safe_bind; [apply decode_cpfmt_safe|]. intros [f r6] _. exact I. }
    intros [fmt2 r6] _.
    apply safe_bind. { destruct (f_custom_clock fol); [|exact I]. apply safe_bind; [apply read_u8_safe|]. intros [c r7] _. exact I. }
    intros [clock r7] _.
    apply safe_bind. { destruct clock; [|exact I]. apply safe_bind; [apply read_bits_safe|]. intros [hi r8] _. exact I. }
    intros [tr r8] _.
    apply safe_bind. { destruct (f_mv_range fol); [|exact I]. apply safe_bind; [apply decode_uui_safe|]. intros [m r9] _. exact I. }
    intros [mvr r9] _.
    apply safe_bind. { destruct (f_slice_submode fol); [|exact I]. apply safe_bind; [apply decode_sss_safe|]. intros [s r10] _. exact I. }
    intros [sss r10] _.
    apply safe_bind. { destruct (scalability o); [|exact I]. apply safe_bind; [apply decode_elnum_safe|]. intros [l r11] _. exact I. }
    intros [layer r11] _.
    apply safe_bind. { destruct (f_rps_mode fol); [|exact I]. apply safe_bind; [apply decode_rpsmf_safe|]. intros [m r12] _. exact I. }
    intros [rpsm r12] _.
    apply safe_bind. { destruct (has opts REFERENCE_PICTURE_SELECTION); [apply decode_trpi_safe|exact I]. }
    intros [trp r13] _.
    apply safe_bind. { destruct (has opts REFERENCE_PICTURE_SELECTION); [|exact I]. apply safe_bind; [apply decode_bcm_safe|]. intros [u r14] _. exact I. }
    intros r14 _.
    apply safe_bind. { destruct (_ || _); exact I. }
    intros u _.
    apply safe_bind; [apply read_bits_safe|]. intros [q r15] _.
    apply safe_bind. { destruct mux; [exact I|apply decode_cpm_safe]. }
    intros [mux2 r16] _.
    apply safe_bind.
    { destruct ty; try exact I;
      (apply safe_bind; [apply read_bits_safe|]; intros [trb r17] _;
       apply safe_bind; [apply read_bits_safe|]; intros [dbq r18] _; exact I). }
    intros [[pbr pbq] r17] _.
    apply safe_bind; [apply decode_pei_safe; unfold rlen; lia|]. intros [extra r18] _. exact I.
Qed.

(* ---- macroblock layer ---- *)
Lemma decode_dquant_safe r : safe (decode_dquant r).
Proof. unfold decode_dquant. safe_tac. Qed.
Lemma decode_cbpb_safe r : safe (decode_cbpb r).
Proof. unfold decode_cbpb. safe_tac. Qed.
Lemma decode_mv_safe pic running r : safe (decode_motion_vector pic running r).
Proof. unfold decode_motion_vector. safe_tac. Qed.

Lemma decode_mv_len pic running r v r' : decode_motion_vector pic running r = Ok (v, r') -> (rlen r' <= rlen r)%nat.
Proof.
  intros H. unfold decode_motion_vector in H. destruct (_ && _).
  - bind_inv H as [x r1] E1. bind_inv H as [y r2] E2. inversion H; subst.
    apply read_umv_len in E1. apply read_umv_len in E2. lia.
  - bind_inv H as [ox r1] E1. destruct ox as [x|]; [|discriminate].
    bind_inv H as [oy r2] E2. destruct oy as [y|]; [|discriminate]. inversion H; subst.
    apply read_vlc_len in E1. apply read_vlc_len in E2. lia.
Qed.

Theorem decode_macroblock_safe pic running r : safe (decode_macroblock pic running r).
Proof.
  unfold decode_macroblock.
  apply safe_bind. { destruct (is_iframe _); [exact I|apply read_bits_safe]. }
  intros [cod r1] _. destruct (negb (cod =? 0)); [exact I|].
  apply safe_bind. { destruct (picture_type pic); try exact I; [apply read_vlc_safe_mcbpc_i|apply read_vlc_safe_mcbpc_p|apply read_vlc_safe_mcbpc_p]. }
  intros [mc r2] _. destruct mc as [| |t cb cr]; try exact I.
  apply safe_bind. { destruct (picture_type pic); try exact I. apply read_vlc_safe_modb. }
  intros [[hc hm] r3] _.
  apply safe_bind; [apply read_vlc_safe_cbpy|]. intros [oc r4] _. destruct oc as [v|]; [|exact I].
  apply safe_bind. { destruct hc; [|exact I]. apply safe_bind; [apply decode_cbpb_safe|]. intros [u r5] _. exact I. }
  intros r5 _. destruct (has running MODIFIED_QUANTIZATION); [exact I|].
  apply safe_bind. { destruct (mb_has_quantizer t); [|exact I]. apply safe_bind; [apply decode_dquant_safe|]. intros [d r6] _. exact I. }
  intros [dq r6] _.
  apply safe_bind. { destruct (_ || _); [|exact I]. apply safe_bind; [apply decode_mv_safe|]. intros [m r7] _. exact I. }
  intros [mvd r7] _.
  apply safe_bind.
  { destruct (mb_has_fourvec t); [|exact I].
    apply safe_bind; [apply decode_mv_safe|]. intros [m2 r8] _.
    apply safe_bind; [apply decode_mv_safe|]. intros [m3 r9] _.
    apply safe_bind; [apply decode_mv_safe|]. intros [m4 r10] _. exact I. }
  intros [addl r8] _.
  apply safe_bind.
  { destruct hm; [|exact I].
    apply safe_bind; [apply decode_mv_safe|]. intros [m1 r9] _.
    apply safe_bind; [apply decode_mv_safe|]. intros [m2 r10] _.
    apply safe_bind; [apply decode_mv_safe|]. intros [m3 r11] _.
    apply safe_bind; [apply decode_mv_safe|]. intros [m4 r12] _. exact I. }
  intros r9 _. exact I.
Qed.

(* every successfully parsed macroblock (stuffing and not-coded included) consumed at least one bit *)
Theorem decode_macroblock_progress pic running r mb r' :
  decode_macroblock pic running r = Ok (mb, r') -> (rlen r' < rlen r)%nat.
Proof.
  intros H. unfold decode_macroblock in H.
  bind_inv H as [cod r1] E1.
  assert (H1 : (rlen r1 <= rlen r)%nat /\ (is_iframe (picture_type pic) = false -> (rlen r1 < rlen r)%nat)).
  { destruct (is_iframe (picture_type pic)).
    - inversion E1; subst. split; [lia|discriminate].
    - apply read_bits_len in E1; [|lia]. change (Z.to_nat 1) with 1%nat in E1. split; [lia|intros _; lia]. }
  destruct H1 as [H1a H1b].
  destruct (negb (cod =? 0)) eqn:Ec.
  - inversion H; subst. apply H1b. destruct (is_iframe (picture_type pic)) eqn:Ei; [|reflexivity].
    inversion E1; subst. cbn in Ec. discriminate.
  - bind_inv H as [mc r2] E2.
    assert (H2 : (rlen r2 < rlen r1)%nat).
    { destruct (picture_type pic); try discriminate; unfold read_vlc in E2;
      (eapply (vlc_go_len_fork _ _ 0%nat); [|exact E2]); reflexivity. }
    destruct mc as [| |t cb cr]; try discriminate.
    + inversion H; subst. lia.
    + bind_inv H as [[hc hm] r3] E3.
      assert (H3 : (rlen r3 <= rlen r2)%nat).
      { destruct (picture_type pic); try (inversion E3; subst; lia). apply read_vlc_len in E3. exact E3. }
      bind_inv H as [oc r4] E4. apply read_vlc_len in E4. destruct oc as [v|]; [|discriminate].
      bind_inv H as r5 E5.
      assert (H5 : (rlen r5 <= rlen r4)%nat).
      { destruct hc; [|inversion E5; subst; lia]. bind_inv E5 as [u r5'] E5'. inversion E5; subst.
        unfold decode_cbpb in E5'.
        bind_inv E5' as [b1 q1] F1. bind_inv E5' as [b2 q2] F2. bind_inv E5' as [b3 q3] F3.
        bind_inv E5' as [b4 q4] F4. bind_inv E5' as [b5 q5] F5. bind_inv E5' as [b6 q6] F6. inversion E5'; subst.
        apply read_bits_len in F1, F2, F3, F4, F5, F6; lia. }
      destruct (has running MODIFIED_QUANTIZATION); [discriminate|].
      bind_inv H as [dq r6] E6.
      assert (H6 : (rlen r6 <= rlen r5)%nat).
      { destruct (mb_has_quantizer t); [|inversion E6; subst; lia]. bind_inv E6 as [d r6'] E6'. inversion E6; subst.
        unfold decode_dquant in E6'. bind_inv E6' as [c q] F. inversion E6'; subst. apply read_bits_len in F; lia. }
      bind_inv H as [mvd r7] E7.
      assert (H7 : (rlen r7 <= rlen r6)%nat).
      { destruct (_ || _); [|inversion E7; subst; lia]. bind_inv E7 as [m r7'] E7'. inversion E7; subst.
        apply decode_mv_len in E7'. exact E7'. }
      bind_inv H as [addl r8] E8.
      assert (H8 : (rlen r8 <= rlen r7)%nat).
      { destruct (mb_has_fourvec t); [|inversion E8; subst; lia].
        bind_inv E8 as [m2 q2] F2. bind_inv E8 as [m3 q3] F3. bind_inv E8 as [m4 q4] F4. inversion E8; subst.
        apply decode_mv_len in F2, F3, F4. lia. }
      bind_inv H as r9 E9.
      assert (H9 : (rlen r9 <= rlen r8)%nat).
      { destruct hm; [|inversion E9; subst; lia].
        bind_inv E9 as [m1 q1] F1. bind_inv E9 as [m2 q2] F2. bind_inv E9 as [m3 q3] F3. bind_inv E9 as [m4 q4] F4.
        inversion E9; subst. apply decode_mv_len in F1, F2, F3, F4. lia. }
      inversion H; subst. lia.
Qed.

(* ---- block layer ---- *)
Lemma tcoef_go_safe : forall fuel v1 running acc r, (rlen r < fuel)%nat -> safe (tcoef_go fuel v1 running acc r).
Proof.
  induction fuel as [|f IH]; intros v1 running acc r Hl; [lia|]. cbn [tcoef_go].
  apply safe_bind; [apply read_vlc_safe_tcoef|]. intros [st r1] E1.
  assert (H1 : (rlen r1 < rlen r)%nat) by (unfold read_vlc in E1; eapply (vlc_go_len_fork _ _ 0%nat); [|exact E1]; reflexivity).
  destruct st as [[|last run level]|]; [| |exact I].
  - apply safe_bind. { destruct v1; [|exact I]. apply safe_bind; [apply read_bits_safe|]. intros [b r2] _. exact I. }
    intros [w r2] E2.
    assert (H2 : (rlen r2 <= rlen r1)%nat).
    { destruct v1; [|inversion E2; subst; lia]. bind_inv E2 as [b q] F. inversion E2; subst. apply read_bits_len in F; lia. }
    apply safe_bind; [apply read_bits_safe|]. intros [l r3] E3. apply read_bits_len in E3; [|lia].
    apply safe_bind; [apply read_bits_safe|]. intros [rn r4] E4. apply read_bits_len in E4; [|lia].
    apply safe_bind; [apply read_signed_safe|]. intros [lv r5] E5.
    destruct (lv =? 0); [exact I|]. destruct (l =? 1); [exact I|].
    apply IH.
    assert (Hw : 0 <= w). { destruct v1; [|inversion E2; lia]. bind_inv E2 as [b q] F. inversion E2. destruct (b =? 1); lia. }
    apply read_signed_len in E5; [|exact Hw]. lia.
  - apply safe_bind; [apply read_bits_safe|]. intros [s r2] E2. apply read_bits_len in E2; [|lia].
    destruct last; [exact I|]. apply IH. lia.
Qed.

Lemma tcoef_go_len : forall fuel v1 running acc r ts r', tcoef_go fuel v1 running acc r = Ok (ts, r') -> (rlen r' <= rlen r)%nat.
Proof.
  induction fuel as [|f IH]; intros v1 running acc r ts r' H; [discriminate|]. cbn [tcoef_go] in H.
  bind_inv H as [st r1] E1. apply read_vlc_len in E1.
  destruct st as [[|last run level]|]; [| |discriminate].
  - bind_inv H as [w r2] E2.
    assert (H2 : (rlen r2 <= rlen r1)%nat /\ 0 <= w).
    { destruct v1; [|inversion E2; subst; split; lia]. bind_inv E2 as [b q] F. inversion E2; subst.
      apply read_bits_len in F; [|lia]. split; [lia|destruct (b =? 1); lia]. }
    destruct H2 as [H2 Hw].
    bind_inv H as [l r3] E3. apply read_bits_len in E3; [|lia].
    bind_inv H as [rn r4] E4. apply read_bits_len in E4; [|lia].
    bind_inv H as [lv r5] E5. apply read_signed_len in E5; [|exact Hw].
    destruct (lv =? 0); [discriminate|]. destruct (l =? 1); [inversion H; subst; lia|].
    apply IH in H. lia.
  - bind_inv H as [s r2] E2. apply read_bits_len in E2; [|lia].
    destruct last; [inversion H; subst; lia|]. apply IH in H. lia.
Qed.

Theorem decode_block_safe o pic running t present r : safe (decode_block o pic running t present r).
Proof.
  unfold decode_block.
  apply safe_bind. { destruct (mb_is_intra t); [|exact I]. apply safe_bind; [apply read_u8_safe|]. intros [v r1] _. destruct (intradc_from_u8 v); exact I. }
  intros [dc r1] _. destruct present; [|exact I].
  apply safe_bind; [apply tcoef_go_safe; unfold rlen; lia|]. intros [ts r2] _. exact I.
Qed.

Theorem decode_block_len o pic running t present r b r' :
  decode_block o pic running t present r = Ok (b, r') -> (rlen r' <= rlen r)%nat.
Proof.
  intros H. unfold decode_block in H. bind_inv H as [dc r1] E1.
  assert (H1 : (rlen r1 <= rlen r)%nat).
  { destruct (mb_is_intra t); [|inversion E1; subst; lia]. bind_inv E1 as [v q] F. apply read_bits_len in F; [|lia].
    destruct (intradc_from_u8 v); [|discriminate]. inversion E1; subst. lia. }
  destruct present; [|inversion H; subst; lia].
  bind_inv H as [ts r2] E2. inversion H; subst. apply tcoef_go_len in E2. lia.
Qed.

Lemma decode_gob_safe r : safe (decode_gob r).
Proof. unfold decode_gob. safe_tac. Qed.
