(* C03 / C12: motion vector reconstruction kernels against their specs. *)
From H263V Require Import base.Prelude model.Types model.Tables model.Reader model.Header model.Syntax model.F32 model.Recon model.Decoder.
Require Import ZifyBool.
Ltac Zify.zify_post_hook ::= Z.to_euclidean_division_equations.

(* restricted mode (no UMV option): predictor + differential reduced modulo 64 half samples into -32..31 *)
Definition wrap_spec (p d : Z) : Z := (p + d + 32) mod 64 - 32.

Lemma halfpel_wrap cur running p d is_x :
  has running UNRESTRICTED_MOTION_VECTORS = false ->
  -32 <= p <= 31 -> -32 <= d <= 31 ->
  halfpel_decode cur running p d is_x = wrap_spec p d.
Proof.
  intros Hu Hp Hd. unfold halfpel_decode. rewrite Hu. cbn [andb].
  unfold is_mv_within_range, invert, hadd, clamp, wrap_spec.
  destruct (0 <? d) eqn:E1; destruct (d <? 0) eqn:E2;
  destruct ((- (32) <=? Z.min 32767 (Z.max (-32768) (d + p))) && (Z.min 32767 (Z.max (-32768) (d + p)) <? 32)) eqn:E3;
  cbn [negb]; lia.
Qed.

(* sum of four luma components (half units) -> chroma component: s/8 rounded by the sixteenth-position table *)
Definition sixteenth (r : Z) : Z := if r <=? 2 then 0 else if r <=? 13 then 1 else 2.
Definition chroma_spec (s : Z) : Z := Z.sgn s * (2 * (Z.abs s / 16) + sixteenth (Z.abs s mod 16)).

Lemma land15_mod16 s : Z.land s 15 = s mod 16.
Proof. change 15 with (Z.ones 4). rewrite Z.land_ones by lia. reflexivity. Qed.

Lemma average_sum_spec s : average_sum_of_mvs s = chroma_spec s.
Proof.
  unfold average_sum_of_mvs, chroma_spec, sixteenth.
  rewrite land15_mod16, Z.shiftr_div_pow2, Z.shiftl_mul_pow2 by lia.
  change (2 ^ 4) with 16. change (2 ^ 1) with 2.
  Ltac Zify.zify_post_hook ::= Z.div_mod_to_equations.
  destruct (Z.lt_trichotomy s 0) as [Hs|[Hs|Hs]].
  - replace (Z.sgn s) with (-1) by lia. replace (Z.abs s) with (- s) by lia.
    destruct (s mod 16 <=? 2) eqn:E1; destruct (14 <=? s mod 16) eqn:E2;
    destruct (- s mod 16 <=? 2) eqn:E3; destruct (- s mod 16 <=? 13) eqn:E4; lia.
  - subst s. reflexivity.
  - replace (Z.sgn s) with 1 by lia. replace (Z.abs s) with s by lia.
    destruct (s mod 16 <=? 2) eqn:E1; destruct (14 <=? s mod 16) eqn:E2; destruct (s mod 16 <=? 13) eqn:E4; lia.
Qed.

Lemma median_of_spec a m r :
  let v := median_of a m r in
  (v = a \/ v = m \/ v = r) /\
  ((a <= v /\ v <= r) \/ (r <= v /\ v <= a) \/ (a <= v /\ v <= m) \/ (m <= v /\ v <= a) \/ (m <= v /\ v <= r) \/ (r <= v /\ v <= m)) /\
  (Z.min a (Z.min m r) <= v <= Z.max a (Z.max m r)) /\
  (* v is a median: at least two of the three are <= v and at least two are >= v *)
  ((a <= v /\ m <= v) \/ (a <= v /\ r <= v) \/ (m <= v /\ r <= v)) /\
  ((v <= a /\ v <= m) \/ (v <= a /\ v <= r) \/ (v <= m /\ v <= r)).
Proof.
  cbv zeta. unfold median_of.
  destruct (m <? a) eqn:E1; destruct (m <? r) eqn:E2; destruct (a <? r) eqn:E3; destruct (r <? m) eqn:E4; lia.
Qed.

(* without a reference picture, motion compensation succeeds only if no macroblock is predicted *)
Lemma gather_without_reference : forall items i mbpl np np',
  gather_go items i None mbpl np = Ok np' -> Forall (fun tv : mbtype * mv4 => mb_is_inter (fst tv) = false) items.
Proof.
  induction items as [|[t v] rest IH]; intros i mbpl np np' H; [constructor|].
  cbn [gather_go] in H. destruct (mb_is_inter t) eqn:E; [discriminate|].
  constructor; [exact E|]. eapply IH; eauto.
Qed.
