(* C03 / C12: motion vector reconstruction kernels against their specs. *)
From H263V Require Import base.Prelude spec.SpecRecon model.Types model.Tables model.Reader model.Header model.Syntax model.F32 model.Recon model.Decoder.
Require Import ZifyBool.
Ltac Zify.zify_post_hook ::= Z.to_euclidean_division_equations.

Lemma halfpel_wrap cur running p d is_x :
  has running UNRESTRICTED_MOTION_VECTORS = false ->
  -32 <= p <= 31 -> -32 <= d <= 31 ->
  halfpel_decode cur running p d is_x = wrap_spec p d.
Proof.
  intros Hu Hp Hd. unfold halfpel_decode. rewrite Hu. cbn [andb].
  unfold is_mv_within_range, invert, hadd, clamp, wrap_spec.
  destruct (0 <? d) eqn:E1; destruct (d <? 0) eqn:E2;
  destruct ((- (32) <=? Z.min 32767 (Z.max (-32768) (d + p))) && (Z.min 32767 (Z.max (-32768) (d + p)) <? 32)) eqn:E3;
  cbn [negb]; lia.
Qed.

Lemma land15_mod16 s : Z.land s 15 = s mod 16.
Proof. change 15 with (Z.ones 4). rewrite Z.land_ones by lia. reflexivity. Qed.

Lemma average_sum_spec s : average_sum_of_mvs s = chroma_spec s.
Proof.
  unfold average_sum_of_mvs, chroma_spec, sixteenth.
  rewrite land15_mod16, Z.shiftr_div_pow2, Z.shiftl_mul_pow2 by lia.
  change (2 ^ 4) with 16. change (2 ^ 1) with 2.
  Ltac Zify.zify_post_hook ::= Z.div_mod_to_equations.
  destruct (Z.lt_trichotomy s 0) as [Hs|[Hs|Hs]].
  - replace (Z.sgn s) with (-1) by lia. replace (Z.abs s) with (- s) by lia.
    destruct (s mod 16 <=? 2) eqn:E1; destruct (14 <=? s mod 16) eqn:E2;
    destruct (- s mod 16 <=? 2) eqn:E3; destruct (- s mod 16 <=? 13) eqn:E4; lia.
  - subst s. reflexivity.
  - replace (Z.sgn s) with 1 by lia. replace (Z.abs s) with s by lia.
    destruct (s mod 16 <=? 2) eqn:E1; destruct (14 <=? s mod 16) eqn:E2; destruct (s mod 16 <=? 13) eqn:E4; lia.
Qed.

Lemma median_of_spec a m r :
  let v := median_of a m r in
  (v = a \/ v = m \/ v = r) /\
  ((a <= v /\ v <= r) \/ (r <= v /\ v <= a) \/ (a <= v /\ v <= m) \/ (m <= v /\ v <= a) \/ (m <= v /\ v <= r) \/ (r <= v /\ v <= m)) /\
  (Z.min a (Z.min m r) <= v <= Z.max a (Z.max m r)) /\
  (* v is a median: at least two of the three are <= v and at least two are >= v *)
  ((a <= v /\ m <= v) \/ (a <= v /\ r <= v) \/ (m <= v /\ r <= v)) /\
  ((v <= a /\ v <= m) \/ (v <= a /\ v <= r) \/ (v <= m /\ v <= r)).
Proof.
  cbv zeta. unfold median_of.
  destruct (m <? a) eqn:E1; destruct (m <? r) eqn:E2; destruct (a <? r) eqn:E3; destruct (r <? m) eqn:E4; lia.
Qed.

(* without a reference picture, motion compensation succeeds only if no macroblock is predicted *)
Lemma gather_without_reference : forall items i mbpl np np',
  gather_go items i None mbpl np = Ok np' -> Forall (fun tv : mbtype * mv4 => mb_is_inter (fst tv) = false) items.
Proof.
  induction items as [|[t v] rest IH]; intros i mbpl np np' H; [constructor|].
  cbn [gather_go] in H. destruct (mb_is_inter t) eqn:E; [discriminate|].
  constructor; [exact E|]. eapply IH; eauto.
Qed.

Lemma lerp_is_spec h : into_lerp_parameters h = lerp_spec h.
Proof.
  unfold into_lerp_parameters, lerp_spec.
  Ltac Zify.zify_post_hook ::= Z.to_euclidean_division_equations.
  destruct (Z.rem h 2 =? 0) eqn:E1; destruct (h mod 2 =? 0) eqn:E2; cbn [negb]; try (f_equal; lia); try lia.
  destruct (h <? 0) eqn:E3; f_equal; lia.
Qed.

(* median_of is the three-way median *)
Lemma median_of_is_median3 a m r : median_of a m r = median3 a m r.
Proof.
  unfold median_of, median3.
  destruct (m <? a) eqn:E1; destruct (m <? r) eqn:E2; destruct (a <? r) eqn:E3; destruct (r <? m) eqn:E4; lia.
Qed.

(* predict_candidate = median of the three clause-6.1.1 candidates, for every picture width in macroblocks,
   every position and every block index; neighbours are looked up in the list of vectors decoded so far *)
Definition nb (pv : list mv4) (i : Z) : option mv4 := if i <? 0 then None else nth_error pv (Z.to_nat i).

Lemma predict_candidate_spec pv cur mbw idx :
  1 <= mbw -> 0 <= idx <= 3 ->
  let n := zlength pv in
  let col := n mod mbw in
  let line := n / mbw in
  predict_candidate pv cur mbw idx =
  Ok (predictor_spec (if col =? 0 then None else nb pv (n - 1))
                     (if line =? 0 then None else nb pv (n - mbw))
                     (if line =? 0 then None else nb pv (n - mbw + 1))
                     (col =? mbw - 1) cur idx).
Proof.
  intros Hm Hi. cbv zeta. unfold predict_candidate, rem_chk, div_chk.
  destruct (mbw =? 0) eqn:E0; [lia|]. cbn [bind].
  assert (Hn : 0 <= zlength pv) by (unfold zlength; lia).
  rewrite Z.rem_mod_nonneg by lia. rewrite Z.quot_div_nonneg by lia.
  set (n := zlength pv). set (col := n mod mbw). set (line := n / mbw).
  assert (Hcol : 0 <= col < mbw) by (subst col; apply Z.mod_pos_bound; lia).
  assert (Hline : 0 <= line) by (subst line; apply Z.div_pos; lia).
  assert (Hdm : n = mbw * line + col) by (subst col line; apply Z.div_mod; lia).
  replace (Z.max 0 (mbw - 1)) with (mbw - 1) by lia.
  assert (Hsome : forall k, 0 <= k < n -> nth_error pv (Z.to_nat k) <> None).
  { intros k Hk Hc. apply nth_error_None in Hc. unfold n, zlength in Hk. lia. }
  unfold predictor_spec, candidates_spec, mv_median, vmedian, nb, get.
  assert (Hidx : idx = 0 \/ idx = 1 \/ idx = 2 \/ idx = 3) by lia.
  destruct (col =? 0) eqn:Ec; destruct (line =? 0) eqn:El; destruct (col =? mbw - 1) eqn:Ee;
  destruct Hidx as [-> | [-> | [-> | ->]]]; cbn [Z.eqb orb bind Pos.eqb];
  rewrite ?median_of_is_median3;
  try (destruct (n - 1 <? 0) eqn:En1; [apply Z.ltb_lt in En1; apply Z.eqb_neq in Ec; nia|]);
  try (replace (Z.max 0 (line - 1) * mbw + col) with (n - mbw) by (apply Z.eqb_neq in El; nia));
  try (replace (n - mbw + 1 - 0) with (n - mbw + 1) by lia);
  try (destruct (n - mbw <? 0) eqn:En2; [apply Z.ltb_lt in En2; apply Z.eqb_neq in El; nia|]);
  try (destruct (n - mbw + 1 <? 0) eqn:En3; [apply Z.ltb_lt in En3; apply Z.eqb_neq in El; nia|]);
  try reflexivity;
  repeat match goal with
  | |- context [nth_error pv ?k] => destruct (nth_error pv k) eqn:?
  end; cbn [bind]; rewrite ?median_of_is_median3; try reflexivity.
  all: exfalso; apply Z.eqb_neq in Ec; eapply (Hsome (n - 1)); [nia|eassumption].
Qed.
