(* C04/C05/C17: the decoder state as two registers (most recent picture,
   reference picture).  The map keyed by temporal reference, the disposable
   key flag and cleanup_buffers refine the abstract machine
     I p -> (p, p);  P p -> (p, p);  D p -> (p, ref);  error / cleanup -> unchanged
   for every history and every temporal-reference value. *)
From H263V Require Import base.Prelude model.Types model.Tables model.Reader model.Header model.Syntax
  model.F32 model.Recon model.Decoder proofs.ReaderLemmas proofs.HeaderLemmas.

(* ---- association-list facts ---- *)
Lemma pm_get_remove_same m k : pm_get (pm_remove m k) k = None.
Proof.
  induction m as [|[k' v] m IH]; [reflexivity|]. cbn [pm_remove].
  destruct (k' =? k) eqn:E; [exact IH|]. cbn [pm_get]. rewrite E. exact IH.
Qed.
Lemma pm_get_remove_other m k k' : k' <> k -> pm_get (pm_remove m k) k' = pm_get m k'.
Proof.
  intros Hne. induction m as [|[k0 v] m IH]; [reflexivity|]. cbn [pm_remove pm_get].
  destruct (k0 =? k) eqn:E.
  - apply Z.eqb_eq in E. subst k0. destruct (k =? k') eqn:E'; [apply Z.eqb_eq in E'; congruence|]. exact IH.
  - cbn [pm_get]. destruct (k0 =? k'); [reflexivity|exact IH].
Qed.
Lemma pm_get_insert_same m k v : pm_get (pm_insert m k v) k = Some v.
Proof. unfold pm_insert. cbn [pm_get]. rewrite Z.eqb_refl. reflexivity. Qed.
Lemma pm_get_insert_other m k v k' : k' <> k -> pm_get (pm_insert m k v) k' = pm_get m k'.
Proof.
  intros Hne. unfold pm_insert. cbn [pm_get].
  destruct (k =? k') eqn:E; [apply Z.eqb_eq in E; congruence|]. apply pm_get_remove_other. exact Hne.
Qed.

(* ---- cleanup_buffers changes neither register ---- *)
Lemma cleanup_last s : get_last_picture (cleanup_buffers s) = get_last_picture s.
Proof.
  unfold get_last_picture, cleanup_buffers. cbn [last_picture reference_states].
  destruct (last_picture s) as [lk|]; [|reflexivity].
  destruct (pm_get (reference_states s) lk) as [lv|] eqn:EL.
  - destruct (reference_picture s) as [rk|].
    + destruct (pm_get (pm_remove (reference_states s) lk) rk) as [rv|] eqn:ER.
      * destruct (Z.eq_dec rk lk) as [->|Hne]; [rewrite pm_get_remove_same in ER; discriminate|].
        rewrite pm_get_insert_other by congruence. apply pm_get_insert_same.
      * apply pm_get_insert_same.
    + apply pm_get_insert_same.
  - destruct (reference_picture s) as [rk|].
    + destruct (pm_get (reference_states s) rk) as [rv|] eqn:ER.
      * destruct (Z.eq_dec rk lk) as [->|Hne]; [congruence|].
        rewrite pm_get_insert_other by congruence. reflexivity.
      * reflexivity.
    + reflexivity.
Qed.

Lemma cleanup_ref s : get_reference_picture (cleanup_buffers s) = get_reference_picture s.
Proof.
  unfold get_reference_picture, cleanup_buffers. cbn [reference_picture reference_states].
  destruct (reference_picture s) as [rk|]; [|reflexivity].
  destruct (last_picture s) as [lk|].
  - destruct (pm_get (reference_states s) lk) as [lv|] eqn:EL.
    + destruct (Z.eq_dec rk lk) as [->|Hne].
      * rewrite pm_get_remove_same. rewrite pm_get_insert_same. symmetry. exact EL.
      * rewrite pm_get_remove_other by exact Hne.
        destruct (pm_get (reference_states s) rk) as [rv|] eqn:ER.
        -- apply pm_get_insert_same.
        -- rewrite pm_get_insert_other by exact Hne. reflexivity.
    + destruct (pm_get (reference_states s) rk) as [rv|] eqn:ER; [apply pm_get_insert_same|reflexivity].
  - destruct (pm_get (reference_states s) rk) as [rv|] eqn:ER; [apply pm_get_insert_same|reflexivity].
Qed.

(* ---- the invariant on keys: the reference key is a plain temporal reference ---- *)
Definition key_inv (s : state) : Prop :=
  forall k, reference_picture s = Some k -> 0 <= k < DISPOSABLE_KEY_FLAG.

Lemma key_inv_new o : key_inv (new_state o).
Proof. intros k H. discriminate. Qed.

Lemma cleanup_keys s : reference_picture (cleanup_buffers s) = reference_picture s /\
                       last_picture (cleanup_buffers s) = last_picture s /\
                       st_opts (cleanup_buffers s) = st_opts s /\
                       running_options (cleanup_buffers s) = running_options s.
Proof. unfold cleanup_buffers. cbn. repeat split. Qed.

Lemma key_inv_cleanup s : key_inv s -> key_inv (cleanup_buffers s).
Proof. intros H k Hk. destruct (cleanup_keys s) as [E _]. rewrite E in Hk. apply H. exact Hk. Qed.

Lemma lor_flag_ge tr : 0 <= tr -> DISPOSABLE_KEY_FLAG <= Z.lor tr DISPOSABLE_KEY_FLAG.
Proof.
  intros Htr. unfold DISPOSABLE_KEY_FLAG.
  assert (H : Z.testbit (Z.lor tr 32768) 15 = true).
  { rewrite Z.lor_spec. change (Z.testbit 32768 15) with true. apply orb_true_r. }
  assert (Hn : 0 <= Z.lor tr 32768) by (apply Z.lor_nonneg; lia).
  destruct (Z.lt_ge_cases (Z.lor tr 32768) 32768) as [Hlt|]; [|assumption].
  exfalso.
  destruct (Z.eq_dec (Z.lor tr 32768) 0) as [E0|Hnz].
  - rewrite E0 in H. cbn in H. discriminate.
  - rewrite Z.bits_above_log2 in H; [discriminate|lia|].
    apply Z.log2_lt_pow2; [lia|]. change (2 ^ 15) with 32768. exact Hlt.
Qed.

(* ---- store_picture on the two registers ---- *)
Lemma store_last s np : get_last_picture (store_picture s np) = Some np.
Proof.
  unfold store_picture. rewrite cleanup_last. unfold get_last_picture. cbn [last_picture reference_states].
  apply pm_get_insert_same.
Qed.

Lemma store_ref s np :
  key_inv s -> 0 <= temporal_reference (d_header np) < DISPOSABLE_KEY_FLAG ->
  get_reference_picture (store_picture s np) =
  if is_disposable (picture_type (d_header np)) then get_reference_picture s else Some np.
Proof.
  intros Hinv Htr. unfold store_picture. rewrite cleanup_ref.
  unfold get_reference_picture. cbn [reference_picture reference_states].
  destruct (is_disposable (picture_type (d_header np))) eqn:ED.
  - assert (EI : is_iframe (picture_type (d_header np)) = false)
      by (destruct (picture_type (d_header np)); try discriminate; reflexivity).
    rewrite EI. destruct (reference_picture s) as [rk|] eqn:ER; [|reflexivity].
    rewrite pm_get_insert_other; [reflexivity|].
    specialize (Hinv rk ER).
    pose proof (lor_flag_ge (temporal_reference (d_header np)) ltac:(lia)). lia.
  - apply pm_get_insert_same.
Qed.

Lemma store_key_inv s np :
  key_inv s -> 0 <= temporal_reference (d_header np) < DISPOSABLE_KEY_FLAG -> key_inv (store_picture s np).
Proof.
  intros Hinv Htr. unfold store_picture. apply key_inv_cleanup.
  intros k Hk. cbn [reference_picture] in Hk.
  destruct (is_disposable (picture_type (d_header np))).
  - destruct (is_iframe (picture_type (d_header np))); [discriminate|]. apply Hinv. exact Hk.
  - inversion Hk; subst. exact Htr.
Qed.

(* ---- the header of a reconstructed picture is the parsed header ---- *)
Lemma gather_go_header : forall items i reference mbpl np np',
  gather_go items i reference mbpl np = Ok np' -> d_header np' = d_header np /\ d_format np' = d_format np.
Proof.
  induction items as [|[t v] rest IH]; intros i reference mbpl np np' H; cbn [gather_go] in H.
  - inversion H; subst. split; reflexivity.
  - destruct (mb_is_inter t).
    + destruct reference as [rp|]; [|discriminate].
      destruct (negb _); [discriminate|].
      bind_inv H as col E1. bind_inv H as line E2.
      bind_inv H as l1 E3. bind_inv H as l2 E4. bind_inv H as l3 E5. bind_inv H as l4 E6.
      bind_inv H as cb E7. bind_inv H as cr E8.
      apply IH in H. cbn in H. exact H.
    + apply IH in H. exact H.
Qed.

Lemma reconstruct_header o last reference running r0 np r :
  reconstruct o last reference running r0 = Ok (np, r) ->
  exists r1, decode_picture o (match last with Some p => Some (d_header p) | None => None end) r0
             = Ok (Some (d_header np), r1).
Proof.
  intros H. unfold reconstruct in H.
  bind_inv H as [op r1] E1. destruct op as [hdr|]; [|discriminate].
  bind_inv H as fmt E2.
  destruct (into_width_and_height fmt) as [[w h]|] eqn:EW; [|discriminate].
  destruct ((w <=? 0) || (h <=? 0)); [discriminate|].
  destruct (new_decoded hdr fmt) as [np0|] eqn:EN; [|discriminate].
  assert (EH : d_header np0 = hdr).
  { unfold new_decoded in EN. rewrite EW in EN. inversion EN. reflexivity. }
  bind_inv H as st E3. bind_inv H as np1 E4. bind_inv H as luma E5. bind_inv H as cb E6. bind_inv H as cr E7.
  apply gather_go_header in E4. destruct E4 as [E4 _].
  assert (EN2 : d_header np = hdr).
  { inversion H. cbn [d_header]. rewrite E4. exact EH. }
  rewrite EN2. exists r1. first [exact E1 | reflexivity].
Qed.

Lemma reconstruct_tr o last reference running r0 np r :
  reconstruct o last reference running r0 = Ok (np, r) ->
  0 <= temporal_reference (d_header np) < DISPOSABLE_KEY_FLAG.
Proof.
  intros H. apply reconstruct_header in H. destruct H as [r1 H].
  apply decode_picture_tr in H. unfold DISPOSABLE_KEY_FLAG. lia.
Qed.

(* ---- one decode call refines one step of the two-register machine ---- *)
Theorem decode_refines s r s' r' :
  key_inv s -> decode_next_picture s r = Ok (s', r') ->
  exists np,
    reconstruct (st_opts s) (get_last_picture s) (get_reference_picture s) (running_options s) r = Ok (np, r') /\
    get_last_picture s' = Some np /\
    get_reference_picture s' =
      (if is_disposable (picture_type (d_header np)) then get_reference_picture s else Some np) /\
    key_inv s' /\ st_opts s' = st_opts s /\ running_options s' = running_options s.
Proof.
  intros Hinv H. unfold decode_next_picture in H.
  bind_inv H as [np r1] E. inversion H; subst. unfold commit.
  pose proof (reconstruct_tr _ _ _ _ _ _ _ E) as Htr.
  exists np. split; [first [exact E | reflexivity]|]. split; [apply store_last|]. split; [apply store_ref; assumption|].
  split; [apply store_key_inv; assumption|].
  unfold store_picture.
  match goal with |- st_opts (cleanup_buffers ?x) = _ /\ _ => destruct (cleanup_keys x) as (_ & _ & Eo & Er) end.
  split; [exact Eo|exact Er].
Qed.

Theorem cleanup_refines s :
  get_last_picture (cleanup_buffers s) = get_last_picture s /\
  get_reference_picture (cleanup_buffers s) = get_reference_picture s /\
  (key_inv s -> key_inv (cleanup_buffers s)).
Proof. split; [apply cleanup_last|]. split; [apply cleanup_ref|apply key_inv_cleanup]. Qed.

(* ---- histories ---- *)
Inductive op := OpDecode (r : reader) | OpCleanup.

Definition step (s : state) (o : op) : state :=
  match o with
  | OpDecode r => match decode_next_picture s r with Ok (s', _) => s' | _ => s end
  | OpCleanup => cleanup_buffers s
  end.

(* the abstract decoder: options, two picture registers, carried-over options *)
Record astate := mkA { a_opts : dec_opts; a_last : option decoded_picture; a_ref : option decoded_picture; a_running : Z }.

Definition astep (a : astate) (o : op) : astate :=
  match o with
  | OpDecode r =>
      match reconstruct (a_opts a) (a_last a) (a_ref a) (a_running a) r with
      | Ok (np, _) =>
          mkA (a_opts a) (Some np)
              (if is_disposable (picture_type (d_header np)) then a_ref a else Some np) (a_running a)
      | _ => a
      end
  | OpCleanup => a
  end.

Definition abs (s : state) : astate :=
  mkA (st_opts s) (get_last_picture s) (get_reference_picture s) (running_options s).

Lemma step_refines s o : key_inv s -> abs (step s o) = astep (abs s) o /\ key_inv (step s o).
Proof.
  intros Hinv. destruct o as [r|]; cbn [step astep abs a_opts a_last a_ref a_running].
  - destruct (decode_next_picture s r) as [[s' r']| | |] eqn:E.
    + destruct (decode_refines s r s' r' Hinv E) as (np & ER & EL & ERf & Hk & Eo & Erun).
      rewrite ER. unfold abs. rewrite EL, ERf, Eo, Erun. split; [reflexivity|exact Hk].
    + unfold decode_next_picture in E.
      destruct (reconstruct (st_opts s) (get_last_picture s) (get_reference_picture s) (running_options s) r)
        as [[np r1]| | |]; cbn [bind] in E; try discriminate. split; [reflexivity|exact Hinv].
    + unfold decode_next_picture in E.
      destruct (reconstruct (st_opts s) (get_last_picture s) (get_reference_picture s) (running_options s) r)
        as [[np r1]| | |]; cbn [bind] in E; try discriminate. split; [reflexivity|exact Hinv].
    + unfold decode_next_picture in E.
      destruct (reconstruct (st_opts s) (get_last_picture s) (get_reference_picture s) (running_options s) r)
        as [[np r1]| | |]; cbn [bind] in E; try discriminate. split; [reflexivity|exact Hinv].
  - destruct (cleanup_refines s) as (EL & ER & Hk). destruct (cleanup_keys s) as (_ & _ & Eo & Erun).
    unfold abs. rewrite EL, ER, Eo, Erun. split; [reflexivity|apply Hk; exact Hinv].
Qed.

Theorem history_refines : forall ops s, key_inv s ->
  abs (fold_left step ops s) = fold_left astep ops (abs s) /\ key_inv (fold_left step ops s).
Proof.
  induction ops as [|o ops IH]; intros s Hinv; cbn [fold_left]; [split; [reflexivity|exact Hinv]|].
  destruct (step_refines s o Hinv) as [E Hk]. rewrite <- E. apply IH. exact Hk.
Qed.

Corollary history_refines_from_new o ops :
  abs (fold_left step ops (new_state o)) = fold_left astep ops (mkA o None None 0).
Proof. apply (history_refines ops (new_state o) (key_inv_new o)). Qed.
