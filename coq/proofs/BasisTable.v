(* C10 (c): every entry of the IDCT basis table is within 1/900000 of C(f) cos((2i+1) f pi / 16), C(0) = 1/sqrt 2.
   One `interval` goal per entry (64); the entries are those of the frozen table in model/Tables.v (bridged to the
   source on every run).  Depends on the standard library's real-number axioms. *)
From Coq Require Import Reals ZArith Lia List.
From Interval Require Import Tactic.
From H263V Require Import base.Prelude model.Types model.Tables.
Import ListNotations.
Open Scope R_scope.

Definition entry_real (t : bool * Z * Z) : R :=
  let '(s, m, e) := t in (if s then -1 else 1) * IZR m * powerRZ 2 e.
Definition ideal_basis (f i : Z) : R :=
  (if (f =? 0)%Z then / sqrt 2 else 1) * cos (IZR ((2 * i + 1) * f) * PI / 16).
Definition basis_entry (f i : nat) : bool * Z * Z := nth i (nth f basis_table []) (false, 0%Z, 0%Z).

Lemma basis_0_0 : Rabs (entry_real (basis_entry 0 0) - ideal_basis 0 0) <= 1 / 900000.
Proof. unfold basis_entry, entry_real, ideal_basis. cbn [nth basis_table Z.eqb Z.mul Z.add Pos.mul Pos.add]. cbn. interval. Qed.
Lemma basis_0_1 : Rabs (entry_real (basis_entry 0 1) - ideal_basis 0 1) <= 1 / 900000.
Proof. unfold basis_entry, entry_real, ideal_basis. cbn [nth basis_table Z.eqb Z.mul Z.add Pos.mul Pos.add]. cbn. interval. Qed.
Lemma basis_0_2 : Rabs (entry_real (basis_entry 0 2) - ideal_basis 0 2) <= 1 / 900000.
Proof. unfold basis_entry, entry_real, ideal_basis. cbn [nth basis_table Z.eqb Z.mul Z.add Pos.mul Pos.add]. cbn. interval. Qed.
Lemma basis_0_3 : Rabs (entry_real (basis_entry 0 3) - ideal_basis 0 3) <= 1 / 900000.
Proof. unfold basis_entry, entry_real, ideal_basis. cbn [nth basis_table Z.eqb Z.mul Z.add Pos.mul Pos.add]. cbn. interval. Qed.
Lemma basis_0_4 : Rabs (entry_real (basis_entry 0 4) - ideal_basis 0 4) <= 1 / 900000.
Proof. unfold basis_entry, entry_real, ideal_basis. cbn [nth basis_table Z.eqb Z.mul Z.add Pos.mul Pos.add]. cbn. interval. Qed.
Lemma basis_0_5 : Rabs (entry_real (basis_entry 0 5) - ideal_basis 0 5) <= 1 / 900000.
Proof. unfold basis_entry, entry_real, ideal_basis. cbn [nth basis_table Z.eqb Z.mul Z.add Pos.mul Pos.add]. cbn. interval. Qed.
Lemma basis_0_6 : Rabs (entry_real (basis_entry 0 6) - ideal_basis 0 6) <= 1 / 900000.
Proof. unfold basis_entry, entry_real, ideal_basis. cbn [nth basis_table Z.eqb Z.mul Z.add Pos.mul Pos.add]. cbn. interval. Qed.
Lemma basis_0_7 : Rabs (entry_real (basis_entry 0 7) - ideal_basis 0 7) <= 1 / 900000.
Proof. unfold basis_entry, entry_real, ideal_basis. cbn [nth basis_table Z.eqb Z.mul Z.add Pos.mul Pos.add]. cbn. interval. Qed.
Lemma basis_1_0 : Rabs (entry_real (basis_entry 1 0) - ideal_basis 1 0) <= 1 / 900000.
Proof. unfold basis_entry, entry_real, ideal_basis. cbn [nth basis_table Z.eqb Z.mul Z.add Pos.mul Pos.add]. cbn. interval. Qed.
Lemma basis_1_1 : Rabs (entry_real (basis_entry 1 1) - ideal_basis 1 1) <= 1 / 900000.
Proof. unfold basis_entry, entry_real, ideal_basis. cbn [nth basis_table Z.eqb Z.mul Z.add Pos.mul Pos.add]. cbn. interval. Qed.
Lemma basis_1_2 : Rabs (entry_real (basis_entry 1 2) - ideal_basis 1 2) <= 1 / 900000.
Proof. unfold basis_entry, entry_real, ideal_basis. cbn [nth basis_table Z.eqb Z.mul Z.add Pos.mul Pos.add]. cbn. interval. Qed.
Lemma basis_1_3 : Rabs (entry_real (basis_entry 1 3) - ideal_basis 1 3) <= 1 / 900000.
Proof. unfold basis_entry, entry_real, ideal_basis. cbn [nth basis_table Z.eqb Z.mul Z.add Pos.mul Pos.add]. cbn. interval. Qed.
Lemma basis_1_4 : Rabs (entry_real (basis_entry 1 4) - ideal_basis 1 4) <= 1 / 900000.
Proof. unfold basis_entry, entry_real, ideal_basis. cbn [nth basis_table Z.eqb Z.mul Z.add Pos.mul Pos.add]. cbn. interval. Qed.
Lemma basis_1_5 : Rabs (entry_real (basis_entry 1 5) - ideal_basis 1 5) <= 1 / 900000.
Proof. unfold basis_entry, entry_real, ideal_basis. cbn [nth basis_table Z.eqb Z.mul Z.add Pos.mul Pos.add]. cbn. interval. Qed.
Lemma basis_1_6 : Rabs (entry_real (basis_entry 1 6) - ideal_basis 1 6) <= 1 / 900000.
Proof. unfold basis_entry, entry_real, ideal_basis. cbn [nth basis_table Z.eqb Z.mul Z.add Pos.mul Pos.add]. cbn. interval. Qed.
Lemma basis_1_7 : Rabs (entry_real (basis_entry 1 7) - ideal_basis 1 7) <= 1 / 900000.
Proof. unfold basis_entry, entry_real, ideal_basis. cbn [nth basis_table Z.eqb Z.mul Z.add Pos.mul Pos.add]. cbn. interval. Qed.
Lemma basis_2_0 : Rabs (entry_real (basis_entry 2 0) - ideal_basis 2 0) <= 1 / 900000.
Proof. unfold basis_entry, entry_real, ideal_basis. cbn [nth basis_table Z.eqb Z.mul Z.add Pos.mul Pos.add]. cbn. interval. Qed.
Lemma basis_2_1 : Rabs (entry_real (basis_entry 2 1) - ideal_basis 2 1) <= 1 / 900000.
Proof. unfold basis_entry, entry_real, ideal_basis. cbn [nth basis_table Z.eqb Z.mul Z.add Pos.mul Pos.add]. cbn. interval. Qed.
Lemma basis_2_2 : Rabs (entry_real (basis_entry 2 2) - ideal_basis 2 2) <= 1 / 900000.
Proof. unfold basis_entry, entry_real, ideal_basis. cbn [nth basis_table Z.eqb Z.mul Z.add Pos.mul Pos.add]. cbn. interval. Qed.
Lemma basis_2_3 : Rabs (entry_real (basis_entry 2 3) - ideal_basis 2 3) <= 1 / 900000.
Proof. unfold basis_entry, entry_real, ideal_basis. cbn [nth basis_table Z.eqb Z.mul Z.add Pos.mul Pos.add]. cbn. interval. Qed.
Lemma basis_2_4 : Rabs (entry_real (basis_entry 2 4) - ideal_basis 2 4) <= 1 / 900000.
Proof. unfold basis_entry, entry_real, ideal_basis. cbn [nth basis_table Z.eqb Z.mul Z.add Pos.mul Pos.add]. cbn. interval. Qed.
Lemma basis_2_5 : Rabs (entry_real (basis_entry 2 5) - ideal_basis 2 5) <= 1 / 900000.
Proof. unfold basis_entry, entry_real, ideal_basis. cbn [nth basis_table Z.eqb Z.mul Z.add Pos.mul Pos.add]. cbn. interval. Qed.
Lemma basis_2_6 : Rabs (entry_real (basis_entry 2 6) - ideal_basis 2 6) <= 1 / 900000.
Proof. unfold basis_entry, entry_real, ideal_basis. cbn [nth basis_table Z.eqb Z.mul Z.add Pos.mul Pos.add]. cbn. interval. Qed.
Lemma basis_2_7 : Rabs (entry_real (basis_entry 2 7) - ideal_basis 2 7) <= 1 / 900000.
Proof. unfold basis_entry, entry_real, ideal_basis. cbn [nth basis_table Z.eqb Z.mul Z.add Pos.mul Pos.add]. cbn. interval. Qed.
Lemma basis_3_0 : Rabs (entry_real (basis_entry 3 0) - ideal_basis 3 0) <= 1 / 900000.
Proof. unfold basis_entry, entry_real, ideal_basis. cbn [nth basis_table Z.eqb Z.mul Z.add Pos.mul Pos.add]. cbn. interval. Qed.
Lemma basis_3_1 : Rabs (entry_real (basis_entry 3 1) - ideal_basis 3 1) <= 1 / 900000.
Proof. unfold basis_entry, entry_real, ideal_basis. cbn [nth basis_table Z.eqb Z.mul Z.add Pos.mul Pos.add]. cbn. interval. Qed.
Lemma basis_3_2 : Rabs (entry_real (basis_entry 3 2) - ideal_basis 3 2) <= 1 / 900000.
Proof. unfold basis_entry, entry_real, ideal_basis. cbn [nth basis_table Z.eqb Z.mul Z.add Pos.mul Pos.add]. cbn. interval. Qed.
Lemma basis_3_3 : Rabs (entry_real (basis_entry 3 3) - ideal_basis 3 3) <= 1 / 900000.
Proof. unfold basis_entry, entry_real, ideal_basis. cbn [nth basis_table Z.eqb Z.mul Z.add Pos.mul Pos.add]. cbn. interval. Qed.
Lemma basis_3_4 : Rabs (entry_real (basis_entry 3 4) - ideal_basis 3 4) <= 1 / 900000.
Proof. unfold basis_entry, entry_real, ideal_basis. cbn [nth basis_table Z.eqb Z.mul Z.add Pos.mul Pos.add]. cbn. interval. Qed.
Lemma basis_3_5 : Rabs (entry_real (basis_entry 3 5) - ideal_basis 3 5) <= 1 / 900000.
Proof. unfold basis_entry, entry_real, ideal_basis. cbn [nth basis_table Z.eqb Z.mul Z.add Pos.mul Pos.add]. cbn. interval. Qed.
Lemma basis_3_6 : Rabs (entry_real (basis_entry 3 6) - ideal_basis 3 6) <= 1 / 900000.
Proof. unfold basis_entry, entry_real, ideal_basis. cbn [nth basis_table Z.eqb Z.mul Z.add Pos.mul Pos.add]. cbn. interval. Qed.
Lemma basis_3_7 : Rabs (entry_real (basis_entry 3 7) - ideal_basis 3 7) <= 1 / 900000.
Proof. unfold basis_entry, entry_real, ideal_basis. cbn [nth basis_table Z.eqb Z.mul Z.add Pos.mul Pos.add]. cbn. interval. Qed.
Lemma basis_4_0 : Rabs (entry_real (basis_entry 4 0) - ideal_basis 4 0) <= 1 / 900000.
Proof. unfold basis_entry, entry_real, ideal_basis. cbn [nth basis_table Z.eqb Z.mul Z.add Pos.mul Pos.add]. cbn. interval. Qed.
Lemma basis_4_1 : Rabs (entry_real (basis_entry 4 1) - ideal_basis 4 1) <= 1 / 900000.
Proof. unfold basis_entry, entry_real, ideal_basis. cbn [nth basis_table Z.eqb Z.mul Z.add Pos.mul Pos.add]. cbn. interval. Qed.
Lemma basis_4_2 : Rabs (entry_real (basis_entry 4 2) - ideal_basis 4 2) <= 1 / 900000.
Proof. unfold basis_entry, entry_real, ideal_basis. cbn [nth basis_table Z.eqb Z.mul Z.add Pos.mul Pos.add]. cbn. interval. Qed.
Lemma basis_4_3 : Rabs (entry_real (basis_entry 4 3) - ideal_basis 4 3) <= 1 / 900000.
Proof. unfold basis_entry, entry_real, ideal_basis. cbn [nth basis_table Z.eqb Z.mul Z.add Pos.mul Pos.add]. cbn. interval. Qed.
Lemma basis_4_4 : Rabs (entry_real (basis_entry 4 4) - ideal_basis 4 4) <= 1 / 900000.
Proof. unfold basis_entry, entry_real, ideal_basis. cbn [nth basis_table Z.eqb Z.mul Z.add Pos.mul Pos.add]. cbn. interval. Qed.
Lemma basis_4_5 : Rabs (entry_real (basis_entry 4 5) - ideal_basis 4 5) <= 1 / 900000.
Proof. unfold basis_entry, entry_real, ideal_basis. cbn [nth basis_table Z.eqb Z.mul Z.add Pos.mul Pos.add]. cbn. interval. Qed.
Lemma basis_4_6 : Rabs (entry_real (basis_entry 4 6) - ideal_basis 4 6) <= 1 / 900000.
Proof. unfold basis_entry, entry_real, ideal_basis. cbn [nth basis_table Z.eqb Z.mul Z.add Pos.mul Pos.add]. cbn. interval. Qed.
Lemma basis_4_7 : Rabs (entry_real (basis_entry 4 7) - ideal_basis 4 7) <= 1 / 900000.
Proof. unfold basis_entry, entry_real, ideal_basis. cbn [nth basis_table Z.eqb Z.mul Z.add Pos.mul Pos.add]. cbn. interval. Qed.
Lemma basis_5_0 : Rabs (entry_real (basis_entry 5 0) - ideal_basis 5 0) <= 1 / 900000.
Proof. unfold basis_entry, entry_real, ideal_basis. cbn [nth basis_table Z.eqb Z.mul Z.add Pos.mul Pos.add]. cbn. interval. Qed.
Lemma basis_5_1 : Rabs (entry_real (basis_entry 5 1) - ideal_basis 5 1) <= 1 / 900000.
Proof. unfold basis_entry, entry_real, ideal_basis. cbn [nth basis_table Z.eqb Z.mul Z.add Pos.mul Pos.add]. cbn. interval. Qed.
Lemma basis_5_2 : Rabs (entry_real (basis_entry 5 2) - ideal_basis 5 2) <= 1 / 900000.
Proof. unfold basis_entry, entry_real, ideal_basis. cbn [nth basis_table Z.eqb Z.mul Z.add Pos.mul Pos.add]. cbn. interval. Qed.
Lemma basis_5_3 : Rabs (entry_real (basis_entry 5 3) - ideal_basis 5 3) <= 1 / 900000.
Proof. unfold basis_entry, entry_real, ideal_basis. cbn [nth basis_table Z.eqb Z.mul Z.add Pos.mul Pos.add]. cbn. interval. Qed.
Lemma basis_5_4 : Rabs (entry_real (basis_entry 5 4) - ideal_basis 5 4) <= 1 / 900000.
Proof. unfold basis_entry, entry_real, ideal_basis. cbn [nth basis_table Z.eqb Z.mul Z.add Pos.mul Pos.add]. cbn. interval. Qed.
Lemma basis_5_5 : Rabs (entry_real (basis_entry 5 5) - ideal_basis 5 5) <= 1 / 900000.
Proof. unfold basis_entry, entry_real, ideal_basis. cbn [nth basis_table Z.eqb Z.mul Z.add Pos.mul Pos.add]. cbn. interval. Qed.
Lemma basis_5_6 : Rabs (entry_real (basis_entry 5 6) - ideal_basis 5 6) <= 1 / 900000.
Proof. unfold basis_entry, entry_real, ideal_basis. cbn [nth basis_table Z.eqb Z.mul Z.add Pos.mul Pos.add]. cbn. interval. Qed.
Lemma basis_5_7 : Rabs (entry_real (basis_entry 5 7) - ideal_basis 5 7) <= 1 / 900000.
Proof. unfold basis_entry, entry_real, ideal_basis. cbn [nth basis_table Z.eqb Z.mul Z.add Pos.mul Pos.add]. cbn. interval. Qed.
Lemma basis_6_0 : Rabs (entry_real (basis_entry 6 0) - ideal_basis 6 0) <= 1 / 900000.
Proof. unfold basis_entry, entry_real, ideal_basis. cbn [nth basis_table Z.eqb Z.mul Z.add Pos.mul Pos.add]. cbn. interval. Qed.
Lemma basis_6_1 : Rabs (entry_real (basis_entry 6 1) - ideal_basis 6 1) <= 1 / 900000.
Proof. unfold basis_entry, entry_real, ideal_basis. cbn [nth basis_table Z.eqb Z.mul Z.add Pos.mul Pos.add]. cbn. interval. Qed.
Lemma basis_6_2 : Rabs (entry_real (basis_entry 6 2) - ideal_basis 6 2) <= 1 / 900000.
Proof. unfold basis_entry, entry_real, ideal_basis. cbn [nth basis_table Z.eqb Z.mul Z.add Pos.mul Pos.add]. cbn. interval. Qed.
Lemma basis_6_3 : Rabs (entry_real (basis_entry 6 3) - ideal_basis 6 3) <= 1 / 900000.
Proof. unfold basis_entry, entry_real, ideal_basis. cbn [nth basis_table Z.eqb Z.mul Z.add Pos.mul Pos.add]. cbn. interval. Qed.
Lemma basis_6_4 : Rabs (entry_real (basis_entry 6 4) - ideal_basis 6 4) <= 1 / 900000.
Proof. unfold basis_entry, entry_real, ideal_basis. cbn [nth basis_table Z.eqb Z.mul Z.add Pos.mul Pos.add]. cbn. interval. Qed.
Lemma basis_6_5 : Rabs (entry_real (basis_entry 6 5) - ideal_basis 6 5) <= 1 / 900000.
Proof. unfold basis_entry, entry_real, ideal_basis. cbn [nth basis_table Z.eqb Z.mul Z.add Pos.mul Pos.add]. cbn. interval. Qed.
Lemma basis_6_6 : Rabs (entry_real (basis_entry 6 6) - ideal_basis 6 6) <= 1 / 900000.
Proof. unfold basis_entry, entry_real, ideal_basis. cbn [nth basis_table Z.eqb Z.mul Z.add Pos.mul Pos.add]. cbn. interval. Qed.
Lemma basis_6_7 : Rabs (entry_real (basis_entry 6 7) - ideal_basis 6 7) <= 1 / 900000.
Proof. unfold basis_entry, entry_real, ideal_basis. cbn [nth basis_table Z.eqb Z.mul Z.add Pos.mul Pos.add]. cbn. interval. Qed.
Lemma basis_7_0 : Rabs (entry_real (basis_entry 7 0) - ideal_basis 7 0) <= 1 / 900000.
Proof. unfold basis_entry, entry_real, ideal_basis. cbn [nth basis_table Z.eqb Z.mul Z.add Pos.mul Pos.add]. cbn. interval. Qed.
Lemma basis_7_1 : Rabs (entry_real (basis_entry 7 1) - ideal_basis 7 1) <= 1 / 900000.
Proof. unfold basis_entry, entry_real, ideal_basis. cbn [nth basis_table Z.eqb Z.mul Z.add Pos.mul Pos.add]. cbn. interval. Qed.
Lemma basis_7_2 : Rabs (entry_real (basis_entry 7 2) - ideal_basis 7 2) <= 1 / 900000.
Proof. unfold basis_entry, entry_real, ideal_basis. cbn [nth basis_table Z.eqb Z.mul Z.add Pos.mul Pos.add]. cbn. interval. Qed.
Lemma basis_7_3 : Rabs (entry_real (basis_entry 7 3) - ideal_basis 7 3) <= 1 / 900000.
Proof. unfold basis_entry, entry_real, ideal_basis. cbn [nth basis_table Z.eqb Z.mul Z.add Pos.mul Pos.add]. cbn. interval. Qed.
Lemma basis_7_4 : Rabs (entry_real (basis_entry 7 4) - ideal_basis 7 4) <= 1 / 900000.
Proof. unfold basis_entry, entry_real, ideal_basis. cbn [nth basis_table Z.eqb Z.mul Z.add Pos.mul Pos.add]. cbn. interval. Qed.
Lemma basis_7_5 : Rabs (entry_real (basis_entry 7 5) - ideal_basis 7 5) <= 1 / 900000.
Proof. unfold basis_entry, entry_real, ideal_basis. cbn [nth basis_table Z.eqb Z.mul Z.add Pos.mul Pos.add]. cbn. interval. Qed.
Lemma basis_7_6 : Rabs (entry_real (basis_entry 7 6) - ideal_basis 7 6) <= 1 / 900000.
Proof. unfold basis_entry, entry_real, ideal_basis. cbn [nth basis_table Z.eqb Z.mul Z.add Pos.mul Pos.add]. cbn. interval. Qed.
Lemma basis_7_7 : Rabs (entry_real (basis_entry 7 7) - ideal_basis 7 7) <= 1 / 900000.
Proof. unfold basis_entry, entry_real, ideal_basis. cbn [nth basis_table Z.eqb Z.mul Z.add Pos.mul Pos.add]. cbn. interval. Qed.

Theorem basis_table_accurate : forall f i : nat, (f < 8)%nat -> (i < 8)%nat ->
  Rabs (entry_real (basis_entry f i) - ideal_basis (Z.of_nat f) (Z.of_nat i)) <= 1 / 900000.
Proof.
  intros f i Hf Hi.
  do 8 (destruct f as [|f]; [do 8 (destruct i as [|i]; [first [exact basis_0_0 | exact basis_0_1 | exact basis_0_2 | exact basis_0_3 | exact basis_0_4 | exact basis_0_5 | exact basis_0_6 | exact basis_0_7 | exact basis_1_0 | exact basis_1_1 | exact basis_1_2 | exact basis_1_3 | exact basis_1_4 | exact basis_1_5 | exact basis_1_6 | exact basis_1_7 | exact basis_2_0 | exact basis_2_1 | exact basis_2_2 | exact basis_2_3 | exact basis_2_4 | exact basis_2_5 | exact basis_2_6 | exact basis_2_7 | exact basis_3_0 | exact basis_3_1 | exact basis_3_2 | exact basis_3_3 | exact basis_3_4 | exact basis_3_5 | exact basis_3_6 | exact basis_3_7 | exact basis_4_0 | exact basis_4_1 | exact basis_4_2 | exact basis_4_3 | exact basis_4_4 | exact basis_4_5 | exact basis_4_6 | exact basis_4_7 | exact basis_5_0 | exact basis_5_1 | exact basis_5_2 | exact basis_5_3 | exact basis_5_4 | exact basis_5_5 | exact basis_5_6 | exact basis_5_7 | exact basis_6_0 | exact basis_6_1 | exact basis_6_2 | exact basis_6_3 | exact basis_6_4 | exact basis_6_5 | exact basis_6_6 | exact basis_6_7 | exact basis_7_0 | exact basis_7_1 | exact basis_7_2 | exact basis_7_3 | exact basis_7_4 | exact basis_7_5 | exact basis_7_6 | exact basis_7_7]|]); lia|]); lia.
Qed.
