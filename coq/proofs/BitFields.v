(* Bit-field lemmas for the header round trips: the value of an explicit list of bits, its test bits,
   mask-and-shift field extraction. *)
From H263V Require Import base.Prelude model.Types model.Reader model.Header spec.SpecHeader
  proofs.ReaderLemmas proofs.HeaderLemmas proofs.HeaderRoundTrip.

Fixpoint val_of_bits (l : list bool) : Z :=
  match l with
  | [] => 0
  | b :: t => b2z b * 2 ^ Z.of_nat (length t) + val_of_bits t
  end.

Lemma val_range l : 0 <= val_of_bits l < 2 ^ Z.of_nat (length l).
Proof.
  induction l as [|b t IH]; [cbn; lia|]. cbn [val_of_bits length]. rewrite Nat2Z.inj_succ, Z.pow_succ_r by lia.
  assert (0 < 2 ^ Z.of_nat (length t)) by (apply Z.pow_pos_nonneg; lia). destruct b; cbn [b2z]; lia.
Qed.

Lemma take_bits_list : forall l acc rest,
  take_bits (length l) acc (l ++ rest) = Some (acc * 2 ^ Z.of_nat (length l) + val_of_bits l, rest).
Proof.
  induction l as [|b t IH]; intros acc rest; [cbn; f_equal; f_equal; lia|].
  cbn [length app take_bits val_of_bits]. rewrite IH. f_equal. f_equal.
  rewrite Nat2Z.inj_succ, Z.pow_succ_r by lia. unfold b2z. destruct b; ring.
Qed.

Lemma read_bits_list w nz l rest pos : nz = Z.of_nat (length l) -> nz <= w ->
  read_bits w nz (mkReader (l ++ rest) pos) = Ok (val_of_bits l, mkReader rest (pos + nz)).
Proof.
  intros -> Hw. unfold read_bits, peek_bits, skip_bits. cbn [rbits rpos].
  destruct (w <? Z.of_nat (length l)) eqn:E; [lia|]. rewrite Nat2Z.id, take_bits_list. cbn [bind].
  replace (0 * 2 ^ Z.of_nat (length l) + val_of_bits l) with (val_of_bits l) by lia. reflexivity.
Qed.

Lemma val_app a b : val_of_bits (a ++ b) = val_of_bits a * 2 ^ Z.of_nat (length b) + val_of_bits b.
Proof.
  induction a as [|x a IH]; [cbn [app val_of_bits]; lia|]. cbn [app val_of_bits]. rewrite IH. rewrite app_length, Nat2Z.inj_add.
  rewrite Z.pow_add_r by lia. ring.
Qed.

Lemma bits_of_length n v : length (bits_of n v) = n.
Proof. induction n as [|n IH]; [reflexivity|]. cbn. rewrite IH. reflexivity. Qed.

Lemma val_bits_of : forall n v, 0 <= v < 2 ^ Z.of_nat n -> val_of_bits (bits_of n v) = v.
Proof.
  intros n v Hv. pose proof (take_bits_list (bits_of n v) 0 []) as H1.
  rewrite bits_of_length in H1. rewrite take_bits_of in H1 by exact Hv. assert (E := f_equal (fun o : option (Z * list bool) => match o with Some (x, _) => x | None => 0 end) H1).
  cbv beta iota in E. rewrite !Z.mul_0_l, !Z.add_0_l in E. symmetry. exact E.
Qed.

(* test bits of c * 2^n + v *)
Lemma testbit_split c v n k : 0 <= v < 2 ^ n -> 0 <= n -> 0 <= k -> 0 <= c ->
  Z.testbit (c * 2 ^ n + v) k = if k <? n then Z.testbit v k else Z.testbit c (k - n).
Proof.
  intros Hv Hn Hk Hc. destruct (k <? n) eqn:E.
  - apply Z.ltb_lt in E. rewrite Z.add_comm.
    replace (c * 2 ^ n) with (c * 2 ^ (n - k) * 2 ^ k) by (rewrite <- Z.mul_assoc, <- Z.pow_add_r by lia; f_equal; f_equal; lia).
    apply Bool.eq_true_iff_eq. rewrite !Z.testbit_true by lia.
    rewrite Z.div_add by (apply Z.pow_nonzero; lia).
    replace (2 ^ (n - k)) with (2 * 2 ^ (n - k - 1)) by (rewrite <- Z.pow_succ_r by lia; f_equal; lia).
    replace (c * (2 * 2 ^ (n - k - 1))) with (c * 2 ^ (n - k - 1) * 2) by ring.
    rewrite Z.mod_add by lia. reflexivity.
  - apply Z.ltb_ge in E. apply Bool.eq_true_iff_eq. rewrite !Z.testbit_true by lia.
    replace (2 ^ k) with (2 ^ n * 2 ^ (k - n)) by (rewrite <- Z.pow_add_r by lia; f_equal; lia).
    rewrite <- Z.div_div by (try apply Z.pow_nonzero; try apply Z.pow_pos_nonneg; lia).
    rewrite Z.div_add_l by (apply Z.pow_nonzero; lia). rewrite (Z.div_small v) by lia. rewrite Z.add_0_r. reflexivity.
Qed.

Lemma testbit_val : forall l k, 0 <= k < Z.of_nat (length l) ->
  Z.testbit (val_of_bits l) k = nth (length l - 1 - Z.to_nat k) l false.
Proof.
  induction l as [|b t IH]; intros k Hk; [cbn in Hk; lia|]. cbn [val_of_bits length] in *.
  rewrite testbit_split; try lia; [|apply val_range|destruct b; cbn; lia].
  destruct (k <? Z.of_nat (length t)) eqn:E.
  - apply Z.ltb_lt in E. rewrite IH by lia.
    replace (S (length t) - 1 - Z.to_nat k)%nat with (S (length t - 1 - Z.to_nat k)) by lia. reflexivity.
  - apply Z.ltb_ge in E. replace (k - Z.of_nat (length t)) with 0 by lia.
    replace (S (length t) - 1 - Z.to_nat k)%nat with 0%nat by lia. destruct b; reflexivity.
Qed.

(* mask-and-shift: (x & (ones m << s)) >> s = (x / 2^s) mod 2^m *)
Lemma field_extract x s m : 0 <= s -> 0 <= m ->
  Z.shiftr (Z.land x (Z.shiftl (Z.ones m) s)) s = (x / 2 ^ s) mod 2 ^ m.
Proof.
  intros Hs Hm. rewrite <- Z.land_ones by lia. rewrite <- Z.shiftr_div_pow2 by lia.
  apply Z.bits_inj'. intros n Hn.
  rewrite Z.shiftr_spec, !Z.land_spec, Z.shiftr_spec by lia.
  rewrite Z.shiftl_spec by lia. replace (n + s - s) with n by lia. reflexivity.
Qed.
Lemma low_bits x m : 0 <= m -> Z.land x (Z.ones m) = x mod 2 ^ m.
Proof. intros. apply Z.land_ones. lia. Qed.
Lemma land_pow2_zero x k : 0 <= k -> (Z.land x (2 ^ k) =? 0) = negb (Z.testbit x k).
Proof.
  intros Hk. destruct (Z.testbit x k) eqn:E; cbn [negb].
  - apply Z.eqb_neq. intros H. assert (Z.testbit (Z.land x (2 ^ k)) k = false) by (rewrite H; apply Z.bits_0).
    rewrite Z.land_spec, E, Z.pow2_bits_true in H0 by lia. discriminate.
  - apply Z.eqb_eq. apply Z.bits_inj'. intros n Hn. rewrite Z.land_spec, Z.bits_0.
    destruct (Z.eq_dec n k) as [->|Hne]; [rewrite E; reflexivity|].
    rewrite Z.pow2_bits_false by lia. apply andb_false_r.
Qed.
