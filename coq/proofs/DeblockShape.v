(* Shape lemmas for the deblocking passes: every pass keeps the number of rows
   and the length of every row; hence `deblock` returns Ok with an output of
   the input's length for every width >= 1, every height (0 and 1 included)
   and every strength. *)
From H263V Require Import base.Prelude model.Deblock.

Definition rect (w : nat) (rows : list row) : Prop := Forall (fun r => length r = w) rows.

Lemma map4_length k : forall ra rb rc rd n,
  length ra = n -> length rb = n -> length rc = n -> length rd = n ->
  let '(a, b, c, d) := map4 k ra rb rc rd in
  length a = n /\ length b = n /\ length c = n /\ length d = n.
Proof.
  induction ra as [|a ra IH]; intros rb rc rd n Ha Hb Hc Hd; cbn [map4].
  - cbn in *. subst n. repeat split.
  - destruct rb as [|b rb]; [cbn in *; lia|].
    destruct rc as [|c rc]; [cbn in *; lia|].
    destruct rd as [|d rd]; [cbn in *; lia|].
    destruct (k a b c d) as [[[a' b'] c'] d'].
    destruct n as [|n]; [cbn in Ha; lia|].
    cbn in Ha, Hb, Hc, Hd.
    specialize (IH rb rc rd n ltac:(lia) ltac:(lia) ltac:(lia) ltac:(lia)).
    destruct (map4 k ra rb rc rd) as [[[xa xb] xc] xd].
    cbn [length]. lia.
Qed.

Lemma filter4_length s ra rb rc rd n :
  length ra = n -> length rb = n -> length rc = n -> length rd = n ->
  let '(a, b, c, d) := filter4 s ra rb rc rd in
  length a = n /\ length b = n /\ length c = n /\ length d = n.
Proof.
  intros Ha Hb Hc Hd. unfold filter4.
  set (n8 := (8 * (length ra / 8))%nat).
  assert (Hn8 : (n8 <= n)%nat).
  { subst n8. rewrite Ha. pose proof (Nat.mul_div_le n 8). lia. }
  pose proof (map4_length (fun a b c d => process_lane a b c d s)
                (firstn n8 ra) (firstn n8 rb) (firstn n8 rc) (firstn n8 rd) n8) as H1.
  rewrite !firstn_length in H1.
  specialize (H1 ltac:(lia) ltac:(lia) ltac:(lia) ltac:(lia)).
  destruct (map4 _ (firstn n8 ra) _ _ _) as [[[sa sb] sc] sd].
  pose proof (map4_length (fun a b c d => process a b c d s)
                (skipn n8 ra) (skipn n8 rb) (skipn n8 rc) (skipn n8 rd) (n - n8)%nat) as H2.
  rewrite !skipn_length in H2.
  specialize (H2 ltac:(lia) ltac:(lia) ltac:(lia) ltac:(lia)).
  destruct (map4 _ (skipn n8 ra) _ _ _) as [[[ta tb] tc] td].
  rewrite !app_length. lia.
Qed.

Lemma In_firstn' {A} n : forall (l : list A) x, In x (firstn n l) -> In x l.
Proof. induction n; intros l x H; [destruct H|]. destruct l; [destruct H|].
  destruct H as [H|H]; [left; exact H|right; apply IHn; exact H]. Qed.
Lemma rect_firstn w n rows : rect w rows -> rect w (firstn n rows).
Proof. unfold rect. intros H. apply Forall_forall. intros r Hr.
  rewrite Forall_forall in H. apply H. eapply In_firstn'; eauto. Qed.
Lemma In_skipn {A} n : forall (l : list A) x, In x (skipn n l) -> In x l.
Proof. induction n; intros l x H; [exact H|]. destruct l; [exact H|]. right. apply IHn. exact H. Qed.
Lemma rect_skipn w n rows : rect w rows -> rect w (skipn n rows).
Proof. unfold rect. intros H. apply Forall_forall. intros r Hr.
  rewrite Forall_forall in H. apply H. eapply In_skipn; eauto. Qed.
Lemma rect_app w a b : rect w a -> rect w b -> rect w (a ++ b).
Proof. unfold rect. intros. apply Forall_app. split; assumption. Qed.

Lemma horiz_go_shape w s : forall fuel rows,
  rect w rows -> rect w (horiz_go fuel s rows) /\ length (horiz_go fuel s rows) = length rows.
Proof.
  induction fuel as [|f IH]; intros rows Hr; cbn [horiz_go]; [split; [exact Hr|reflexivity]|].
  destruct rows as [|a [|b [|c [|d rest]]]]; try (split; [exact Hr|reflexivity]).
  unfold rect in Hr.
  pose proof (Forall_inv Hr) as Ha. pose proof (Forall_inv_tail Hr) as Hr1.
  pose proof (Forall_inv Hr1) as Hb. pose proof (Forall_inv_tail Hr1) as Hr2.
  pose proof (Forall_inv Hr2) as Hc. pose proof (Forall_inv_tail Hr2) as Hr3.
  pose proof (Forall_inv Hr3) as Hd. pose proof (Forall_inv_tail Hr3) as Hr4.
  cbv beta in Ha, Hb, Hc, Hd.
  pose proof (filter4_length s a b c d w Ha Hb Hc Hd) as HF.
  destruct (filter4 s a b c d) as [[[a' b'] c'] d'].
  destruct HF as (Ha' & Hb' & Hc' & Hd').
  destruct (IH (skipn 4 rest) (rect_skipn w 4 rest Hr4)) as [IH1 IH2].
  split.
  - repeat (apply Forall_cons; [assumption|]).
    apply rect_app; [apply rect_firstn; exact Hr4 | exact IH1].
  - cbn [length]. rewrite app_length, IH2, firstn_length, skipn_length. lia.
Qed.

Lemma deblock_horiz_shape w s rows :
  rect w rows -> rect w (deblock_horiz s rows) /\ length (deblock_horiz s rows) = length rows.
Proof.
  intros Hr. unfold deblock_horiz.
  destruct (horiz_go_shape w s (length rows) (skipn 6 rows) (rect_skipn w 6 rows Hr)) as [H1 H2].
  split.
  - apply rect_app; [apply rect_firstn; exact Hr | exact H1].
  - rewrite app_length, H2, firstn_length, skipn_length. lia.
Qed.

Lemma vert_chunks_length k : forall n r, (length r <= n)%nat -> length (vert_chunks k r) = length r.
Proof.
  induction n as [|n IH]; intros r Hn.
  - destruct r; [reflexivity|cbn in Hn; lia].
  - destruct r as [|x0 [|x1 [|x2 [|x3 [|a [|b [|c [|d rest]]]]]]]]; try reflexivity.
    cbn [vert_chunks]. destruct (k a b c d) as [[[a' b'] c'] d'].
    cbn [length]. rewrite IH; [reflexivity|]. cbn [length] in Hn. lia.
Qed.

Lemma vert_row_length k r : length (vert_row k r) = length r.
Proof.
  unfold vert_row. rewrite app_length, (vert_chunks_length k (length (skipn 2 r))) by lia.
  rewrite firstn_length, skipn_length. lia.
Qed.

Lemma rect_map_vert_row w k rows : rect w rows -> rect w (map (vert_row k) rows).
Proof.
  unfold rect. intros H. induction H as [|r rows Hr _ IH]; cbn [map]; constructor.
  - rewrite vert_row_length. exact Hr.
  - exact IH.
Qed.

Lemma deblock_vert_shape w wz s rows :
  rect w rows -> rect w (deblock_vert wz s rows) /\ length (deblock_vert wz s rows) = length rows.
Proof.
  intros Hr. unfold deblock_vert. destruct (10 <=? wz); [|split; [exact Hr|reflexivity]].
  split.
  - apply rect_app; apply rect_map_vert_row; [apply rect_firstn|apply rect_skipn]; exact Hr.
  - rewrite app_length, !map_length, firstn_length, skipn_length. lia.
Qed.

Lemma concat_rect_length w rows : rect w rows -> length (concat rows) = (w * length rows)%nat.
Proof.
  unfold rect. intros H. induction H as [|r rows Hr _ IH]; cbn [concat length]; [lia|].
  rewrite app_length, IH, Hr. lia.
Qed.

(* chunks: exact pieces when the length is a multiple of n *)
Lemma chunks_fuel_rect n : (0 < n)%nat -> forall fuel l m,
  length l = (n * m)%nat -> (m <= fuel)%nat ->
  rect n (chunks_fuel fuel n l) /\ length (chunks_fuel fuel n l) = m /\ concat (chunks_fuel fuel n l) = l.
Proof.
  intros Hn. induction fuel as [|f IH]; intros l m Hl Hm.
  - assert (m = 0)%nat by lia. subst m. destruct l; [|cbn in Hl; lia].
    cbn. repeat split. constructor.
  - destruct m as [|m].
    + destruct l; [|cbn in Hl; lia]. cbn. repeat split. constructor.
    + assert (Hne : l <> []). { intros ->. cbn in Hl. nia. }
      assert (E : chunks_fuel (S f) n l = firstn n l :: chunks_fuel f n (skipn n l)).
      { cbn [chunks_fuel]. destruct l; [contradiction|reflexivity]. }
      rewrite E. clear E.
      destruct (IH (skipn n l) m) as (I1 & I2 & I3).
      { rewrite skipn_length, Hl. nia. }
      { lia. }
      split; [|split].
      * constructor; [|exact I1]. rewrite firstn_length, Hl. nia.
      * cbn [length]. rewrite I2. reflexivity.
      * cbn [concat]. rewrite I3. apply firstn_skipn.
Qed.

Lemma chunks_rect n l m : (0 < n)%nat -> length l = (n * m)%nat ->
  rect n (chunks n l) /\ length (chunks n l) = m /\ concat (chunks n l) = l.
Proof.
  intros Hn Hl. unfold chunks. destruct n as [|n']; [lia|].
  apply chunks_fuel_rect; [lia|exact Hl|]. rewrite Hl. nia.
Qed.

Theorem deblock_total_len data w s :
  1 <= w -> zlength data mod w = 0 ->
  exists out, deblock data w s = Ok out /\ length out = length data.
Proof.
  intros Hw Hm. unfold deblock.
  destruct (w =? 0) eqn:E0; [apply Z.eqb_eq in E0; lia|].
  rewrite Hm. cbn [Z.eqb negb]. cbv zeta.
  eexists. split; [reflexivity|].
  set (n := Z.to_nat w).
  assert (Hn : (0 < n)%nat) by (subst n; lia).
  assert (Hl : exists m, length data = (n * m)%nat).
  { apply Z.mod_divide in Hm; [|lia]. destruct Hm as [q Hq].
    exists (Z.to_nat q). unfold zlength in Hq. subst n.
    assert (0 <= q) by nia. nia. }
  destruct Hl as [m Hl]. clearbody n.
  destruct (chunks_rect n data m Hn Hl) as (C1 & C2 & C3).
  destruct (deblock_horiz_shape n s _ C1) as [H1 H2].
  destruct (deblock_vert_shape n w s _ H1) as [V1 V2].
  pose proof (concat_rect_length n _ V1) as HC.
  rewrite HC, V2, H2, C2, Hl. reflexivity.
Qed.
