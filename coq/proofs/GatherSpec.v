(* C03: motion compensation of one 8x8 block.  For every reference plane, block position, vector and target plane the
   code's `gather_block` (three paths: whole-block slice copies, clamped integer copy, clamped bilinear interpolation)
   writes, at every sample of the block that lies inside the picture, the H.263 prediction - the reference sample at the
   position displaced by the vector, reference coordinates outside the picture taking the nearest edge sample, half-sample
   positions being the average of the two or four neighbours rounded upwards - and leaves every other sample alone. *)
From H263V Require Import base.Prelude spec.SpecRecon model.Types model.Tables model.Reader model.Header model.Syntax model.F32 model.Recon
  proofs.HeaderLemmas proofs.PlaneShape proofs.MvSpec.
Require Import ZifyBool ZifyNat.
Ltac Zify.zify_post_hook ::= Z.div_mod_to_equations.

(* ---- samples of a plane ---- *)
Definition at_ (p : plane) (x y : Z) : Z := nth (Z.to_nat x) (nth (Z.to_nat y) (prows p) []) 0.

Lemma plane_len_ok w h p : 0 <= h -> plane_ok w h p -> plane_len p = w * h.
Proof. intros Hh (H1 & H2 & _). unfold plane_len, zlength. rewrite H1, H2. rewrite Z2Nat.id by lia. reflexivity. Qed.

Lemma pget_at w h p x y : plane_ok w h p -> 0 <= x < w -> 0 <= y < h -> pget p (x + y * w) = Ok (at_ p x y).
Proof.
  intros Hp Hx Hy. unfold pget. rewrite (plane_len_ok w h p ltac:(lia) Hp). destruct Hp as (H1 & _). rewrite H1.
  destruct ((x + y * w <? 0) || (w * h <=? x + y * w)) eqn:E; [exfalso; nia|].
  assert (Em : (x + y * w) mod w = x) by (rewrite Z.mod_add by lia; apply Z.mod_small; lia).
  assert (Ed : (x + y * w) / w = y) by (rewrite Z.div_add by lia; rewrite Z.div_small by lia; lia).
  rewrite Em, Ed. reflexivity.
Qed.

Lemma upd_nth_nth' {A} (f : A -> A) d : forall l n k, (n < length l)%nat ->
  nth k (upd_nth l n f) d = if Nat.eqb k n then f (nth n l d) else nth k l d.
Proof.
  induction l as [|a l IH]; intros n k Hn; [cbn in Hn; lia|]. destruct n as [|n]; destruct k as [|k]; cbn [upd_nth nth Nat.eqb]; try reflexivity.
  apply IH. cbn in Hn. lia.
Qed.

Lemma pset_at w h p x y v : plane_ok w h p -> 0 <= x < w -> 0 <= y < h ->
  exists p', pset p (x + y * w) v = Ok p' /\ plane_ok w h p' /\
    forall x' y', 0 <= x' < w -> 0 <= y' < h -> at_ p' x' y' = if (x' =? x) && (y' =? y) then v else at_ p x' y'.
Proof.
  intros Hp Hx Hy. pose proof Hp as (H1 & H2 & H3).
  assert (Hlen : plane_len p = w * h) by (apply (plane_len_ok w h); [lia|exact Hp]).
  unfold pset. rewrite Hlen, H1.
  destruct ((x + y * w <? 0) || (w * h <=? x + y * w)) eqn:E; [exfalso; nia|].
  eexists. split; [reflexivity|]. split.
  - eapply pset_ok; [exact Hp|]. unfold pset. rewrite Hlen, H1, E. reflexivity.
  - intros x' y' Hx' Hy'. unfold at_. cbn [prows].
    replace ((x + y * w) / w) with y by (rewrite Z.div_add by lia; rewrite Z.div_small by lia; lia).
    replace ((x + y * w) mod w) with x by (rewrite Z.mod_add by lia; symmetry; apply Z.mod_small; lia).
    rewrite (upd_nth_nth' _ []) by lia.
    destruct (Nat.eqb (Z.to_nat y') (Z.to_nat y)) eqn:Ey.
    + apply Nat.eqb_eq in Ey. assert (y' = y) by lia. subst y'. rewrite Z.eqb_refl, andb_true_r.
      assert (Hr : length (nth (Z.to_nat y) (prows p) []) = Z.to_nat w).
      { rewrite Forall_forall in H3. apply H3. apply nth_In. lia. }
      rewrite (upd_nth_nth' _ 0) by lia.
      destruct (Nat.eqb (Z.to_nat x') (Z.to_nat x)) eqn:Ex.
      * apply Nat.eqb_eq in Ex. assert (x' = x) by lia. subst x'. rewrite Z.eqb_refl. reflexivity.
      * apply Nat.eqb_neq in Ex. destruct (x' =? x) eqn:E2; [lia|]. reflexivity.
    + apply Nat.eqb_neq in Ey. destruct (y' =? y) eqn:E2; [lia|]. rewrite andb_false_r. reflexivity.
Qed.

(* ---- the specification ---- *)
Definition ref_at (src : plane) (w h x y : Z) : Z := at_ src (clamp 0 (w - 1) x) (clamp 0 (h - 1) y).
(* prediction at half-sample coordinates (x2, y2) = (2x + vx, 2y + vy) *)
Definition pred_spec (src : plane) (w h x2 y2 : Z) : Z :=
  let xi := x2 / 2 in let yi := y2 / 2 in
  let xf := negb (x2 mod 2 =? 0) in let yf := negb (y2 mod 2 =? 0) in
  let a := ref_at src w h xi yi in let b := ref_at src w h (xi + 1) yi in
  let c := ref_at src w h xi (yi + 1) in let d := ref_at src w h (xi + 1) (yi + 1) in
  if xf && yf then (a + b + c + d + 2) / 4
  else if xf then (a + b + 1) / 2
  else if yf then (a + c + 1) / 2
  else a.

Lemma read_sample_spec w h src x y : plane_ok w h src -> 1 <= w -> 1 <= h -> read_sample src w h x y = Ok (ref_at src w h x y).
Proof.
  intros Hs Hw Hh. unfold read_sample, ref_at. cbv zeta.
  replace (Z.max 0 (w - 1)) with (w - 1) by lia. replace (Z.max 0 (h - 1)) with (h - 1) by lia.
  rewrite (pget_at w h) by (first [exact Hs | unfold clamp; lia]). reflexivity.
Qed.

(* ---- loops that fill a row, then a block ---- *)
Definition row_upd (w h px m Y : Z) (g : Z -> Z) (t t' : plane) : Prop :=
  plane_ok w h t' /\
  forall x y, 0 <= x < w -> 0 <= y < h ->
    at_ t' x y = if (y =? Y) && (px <=? x) && (x <? px + m) then g (x - px) else at_ t x y.

Lemma row_fill_go w h px Y (g : Z -> Z) (body : Z -> plane -> res plane) :
  0 <= px -> 0 <= Y < h ->
  forall k i0 t, plane_ok w h t -> 0 <= i0 -> px + i0 + Z.of_nat k <= w ->
  (forall i t, plane_ok w h t -> i0 <= i < i0 + Z.of_nat k -> body i t = pset t (px + i + Y * w) (g i)) ->
  exists t', for_go k i0 body t = Ok t' /\ plane_ok w h t' /\
    forall x y, 0 <= x < w -> 0 <= y < h ->
      at_ t' x y = if (y =? Y) && (px + i0 <=? x) && (x <? px + i0 + Z.of_nat k) then g (x - px) else at_ t x y.
Proof.
  intros Hpx HY. induction k as [|k IH]; intros i0 t Ht Hi0 Hw Hb; cbn [for_go].
  - exists t. split; [reflexivity|]. split; [exact Ht|]. intros x y Hx Hy.
    destruct ((y =? Y) && (px + i0 <=? x) && (x <? px + i0 + Z.of_nat 0)) eqn:E; [lia|reflexivity].
  - rewrite Hb by (first [exact Ht | lia]).
    destruct (pset_at w h t (px + i0) Y (g i0) Ht ltac:(lia) HY) as (t1 & E1 & O1 & A1).
    rewrite E1. cbn [bind].
    destruct (IH (i0 + 1) t1 O1 ltac:(lia) ltac:(lia)) as (t' & E2 & O2 & A2).
    { intros i t2 Ht2 Hi. apply Hb; [exact Ht2|lia]. }
    exists t'. split; [exact E2|]. split; [exact O2|]. intros x y Hx Hy. rewrite A2 by assumption. rewrite A1 by assumption.
    destruct (y =? Y) eqn:Ey; cbn [andb]; [|rewrite andb_false_r; reflexivity].
    destruct (Z.eq_dec x (px + i0)) as [->|Hne].
    + rewrite Z.eqb_refl. cbn [andb]. replace (px + i0 - px) with i0 by lia.
      destruct ((px + (i0 + 1) <=? px + i0) && (px + i0 <? px + (i0 + 1) + Z.of_nat k)) eqn:E3; [lia|].
      destruct ((px + i0 <=? px + i0) && (px + i0 <? px + i0 + Z.of_nat (S k))) eqn:E4; [reflexivity|lia].
    + destruct (x =? px + i0) eqn:E5; [lia|]. cbn [andb].
      destruct ((px + (i0 + 1) <=? x) && (x <? px + (i0 + 1) + Z.of_nat k)) eqn:E3;
      destruct ((px + i0 <=? x) && (x <? px + i0 + Z.of_nat (S k))) eqn:E4; try reflexivity; lia.
Qed.

Lemma row_fill w h px m Y (g : Z -> Z) (body : Z -> plane -> res plane) t :
  plane_ok w h t -> 0 <= px -> 0 <= Y < h -> 0 <= m -> px + m <= w ->
  (forall i t, plane_ok w h t -> 0 <= i < m -> body i t = pset t (px + i + Y * w) (g i)) ->
  exists t', forZ m body t = Ok t' /\ row_upd w h px m Y g t t'.
Proof.
  intros Ht Hpx HY Hm Hw Hb. unfold forZ.
  destruct (row_fill_go w h px Y g body Hpx HY (Z.to_nat m) 0 t Ht ltac:(lia) ltac:(lia)) as (t' & E & O & A).
  { intros i t2 Ht2 Hi. apply Hb; [exact Ht2|lia]. }
  exists t'. split; [exact E|]. split; [exact O|]. intros x y Hx Hy. rewrite A by assumption.
  replace (px + 0) with px by lia. rewrite Z2Nat.id by lia. reflexivity.
Qed.

Definition in_block (px py m n x y : Z) : bool := (px <=? x) && (x <? px + m) && (py <=? y) && (y <? py + n).

Lemma block_fill_go w h px py m (G : Z -> Z -> Z) (rowf : Z -> plane -> res plane) :
  forall k j0 t, plane_ok w h t -> 0 <= j0 ->
  (forall j t, plane_ok w h t -> j0 <= j < j0 + Z.of_nat k -> exists t', rowf j t = Ok t' /\ row_upd w h px m (py + j) (G j) t t') ->
  exists t', for_go k j0 rowf t = Ok t' /\ plane_ok w h t' /\
    forall x y, 0 <= x < w -> 0 <= y < h ->
      at_ t' x y = if (px <=? x) && (x <? px + m) && (py + j0 <=? y) && (y <? py + j0 + Z.of_nat k) then G (y - py) (x - px) else at_ t x y.
Proof.
  induction k as [|k IH]; intros j0 t Ht Hj0 Hr; cbn [for_go].
  - exists t. split; [reflexivity|]. split; [exact Ht|]. intros x y Hx Hy.
    destruct ((px <=? x) && (x <? px + m) && (py + j0 <=? y) && (y <? py + j0 + Z.of_nat 0)) eqn:E; [lia|reflexivity].
  - destruct (Hr j0 t Ht ltac:(lia)) as (t1 & E1 & O1 & A1). rewrite E1. cbn [bind].
    destruct (IH (j0 + 1) t1 O1 ltac:(lia)) as (t' & E2 & O2 & A2).
    { intros j t2 Ht2 Hj. apply Hr; [exact Ht2|lia]. }
    exists t'. split; [exact E2|]. split; [exact O2|]. intros x y Hx Hy. rewrite A2 by assumption. rewrite A1 by assumption.
    destruct (Z.eq_dec y (py + j0)) as [->|Hne].
    + rewrite Z.eqb_refl. cbn [andb]. replace (py + j0 - py) with j0 by lia.
      destruct ((px <=? x) && (x <? px + m)) eqn:Ex; cbn [andb].
      * destruct ((py + (j0 + 1) <=? py + j0) && (py + j0 <? py + (j0 + 1) + Z.of_nat k)) eqn:E3; [lia|].
        destruct ((py + j0 <=? py + j0) && (py + j0 <? py + j0 + Z.of_nat (S k))) eqn:E4; [reflexivity|lia].
      * reflexivity.
    + destruct (y =? py + j0) eqn:E5; [lia|]. cbn [andb].
      destruct ((px <=? x) && (x <? px + m)) eqn:Ex; cbn [andb]; [|reflexivity].
      destruct ((py + (j0 + 1) <=? y) && (y <? py + (j0 + 1) + Z.of_nat k)) eqn:E3;
      destruct ((py + j0 <=? y) && (y <? py + j0 + Z.of_nat (S k))) eqn:E4; try reflexivity; lia.
Qed.

Lemma block_fill w h px py m n (G : Z -> Z -> Z) (rowf : Z -> plane -> res plane) t :
  plane_ok w h t -> 0 <= n ->
  (forall j t, plane_ok w h t -> 0 <= j < n -> exists t', rowf j t = Ok t' /\ row_upd w h px m (py + j) (G j) t t') ->
  exists t', forZ n rowf t = Ok t' /\ plane_ok w h t' /\
    forall x y, 0 <= x < w -> 0 <= y < h -> at_ t' x y = if in_block px py m n x y then G (y - py) (x - px) else at_ t x y.
Proof.
  intros Ht Hn Hr. unfold forZ.
  destruct (block_fill_go w h px py m G rowf (Z.to_nat n) 0 t Ht ltac:(lia)) as (t' & E & O & A).
  { intros j t2 Ht2 Hj. apply Hr; [exact Ht2|lia]. }
  exists t'. split; [exact E|]. split; [exact O|]. intros x y Hx Hy. rewrite A by assumption.
  unfold in_block. replace (py + 0) with py by lia. rewrite Z2Nat.id by lia. reflexivity.
Qed.

Lemma row_fill0 w h px Y (g : Z -> Z) (body : Z -> plane -> res plane) t : plane_ok w h t ->
  exists t', forZ 0 body t = Ok t' /\ row_upd w h px 0 Y g t t'.
Proof.
  intros Ht. exists t. split; [reflexivity|]. split; [exact Ht|]. intros x y Hx Hy.
  destruct ((y =? Y) && (px <=? x) && (x <? px + 0)) eqn:E; [lia|reflexivity].
Qed.

Lemma pred_spec_cases src w h x y vx vy :
  pred_spec src w h (2 * x + vx) (2 * y + vy) =
  let u := x + vx / 2 in let v := y + vy / 2 in
  let xi := negb (vx mod 2 =? 0) in let yi := negb (vy mod 2 =? 0) in
  let s00 := ref_at src w h u v in let s10 := ref_at src w h (u + 1) v in
  let s01 := ref_at src w h u (v + 1) in let s11 := ref_at src w h (u + 1) (v + 1) in
  if xi && yi then (s00 + s10 + s01 + s11 + 2) / 4 else lerp (lerp s00 s10 xi) (lerp s01 s11 xi) yi.
Proof.
  unfold pred_spec. cbv zeta.
  replace ((2 * x + vx) / 2) with (x + vx / 2) by lia. replace ((2 * y + vy) / 2) with (y + vy / 2) by lia.
  replace ((2 * x + vx) mod 2) with (vx mod 2) by lia. replace ((2 * y + vy) mod 2) with (vy mod 2) by lia.
  destruct (vx mod 2 =? 0); destruct (vy mod 2 =? 0); cbn [negb andb lerp]; reflexivity.
Qed.

Theorem gather_block_spec w h src px py v t :
  plane_ok w h src -> plane_ok w h t -> 1 <= w -> 1 <= h -> 0 <= px -> 0 <= py ->
  exists t', gather_block src w px py v t = Ok t' /\ plane_ok w h t' /\
    forall x y, 0 <= x < w -> 0 <= y < h ->
      at_ t' x y = if in_block px py 8 8 x y then pred_spec src w h (2 * x + fst v) (2 * y + snd v) else at_ t x y.
Proof.
  intros Hs Ht Hw Hh Hpx Hpy. destruct v as [vx vy]. cbn [fst snd].
  unfold gather_block. cbn [fst snd]. rewrite !lerp_is_spec. unfold lerp_spec.
  rewrite (plane_len_ok w h src ltac:(lia) Hs). unfold div_chk. destruct (w =? 0) eqn:Ew0; [lia|]. cbn [bind].
  replace (Z.quot (w * h) w) with h by (rewrite Z.quot_div_nonneg by nia; rewrite Z.mul_comm, Z.div_mul by lia; reflexivity).
  set (xd := vx / 2). set (yd := vy / 2). set (xi := negb (vx mod 2 =? 0)). set (yi := negb (vy mod 2 =? 0)).
  set (m := clamp 0 8 (w - px)). set (n := clamp 0 8 (h - py)).
  assert (Hm : 0 <= m <= 8 /\ (m = 0 \/ px + m <= w)) by (unfold m, clamp; lia).
  assert (Hn : 0 <= n <= 8 /\ (n = 0 \/ py + n <= h)) by (unfold n, clamp; lia).
  (* the value every path writes at column i of row j *)
  set (G := fun j i => pred_spec src w h (2 * (px + i) + vx) (2 * (py + j) + vy)).
  assert (Final : forall t', plane_ok w h t' ->
            (forall x y, 0 <= x < w -> 0 <= y < h -> at_ t' x y = if in_block px py m n x y then G (y - py) (x - px) else at_ t x y) ->
            plane_ok w h t' /\ forall x y, 0 <= x < w -> 0 <= y < h ->
              at_ t' x y = if in_block px py 8 8 x y then pred_spec src w h (2 * x + vx) (2 * y + vy) else at_ t x y).
  { intros t' O A. split; [exact O|]. intros x y Hx Hy. rewrite A by assumption.
    assert (Eb : in_block px py m n x y = in_block px py 8 8 x y) by (unfold in_block, m, n, clamp; lia).
    rewrite Eb. destruct (in_block px py 8 8 x y); [|reflexivity]. unfold G. f_equal; lia. }
  assert (Rows : forall n' rowf, n' = n ->
            (forall j t2, plane_ok w h t2 -> 0 <= j < n -> exists t3, rowf j t2 = Ok t3 /\ row_upd w h px m (py + j) (G j) t2 t3) ->
            exists t', forZ n' rowf t = Ok t' /\ plane_ok w h t' /\ forall x y, 0 <= x < w -> 0 <= y < h ->
              at_ t' x y = if in_block px py 8 8 x y then pred_spec src w h (2 * x + vx) (2 * y + vy) else at_ t x y).
  { intros n' rowf -> Hr. destruct (block_fill w h px py m n G rowf t Ht ltac:(lia) Hr) as (t' & E & O & A).
    exists t'. split; [exact E|]. apply Final; assumption. }
  (* a row written sample by sample from a value that does not depend on the target *)
  assert (Row : forall m' j (body : Z -> plane -> res plane) t2, m' = m -> plane_ok w h t2 -> 0 <= j < n ->
            (forall i t3, plane_ok w h t3 -> 0 <= i < m -> body i t3 = pset t3 (px + i + (py + j) * w) (G j i)) ->
            exists t3, forZ m' body t2 = Ok t3 /\ row_upd w h px m (py + j) (G j) t2 t3).
  { intros m' j body t2 -> Ht2 Hj Hb. destruct (Z.eq_dec m 0) as [E0|E0].
    - rewrite E0. apply row_fill0. exact Ht2.
    - apply row_fill; try assumption; lia. }
  destruct (negb xi && negb yi) eqn:Eint.
  - (* full-sample vector *)
    assert (Exi : xi = false) by (destruct xi; [discriminate|reflexivity]).
    assert (Eyi : yi = false) by (destruct xi, yi; try discriminate; reflexivity).
    assert (HG : forall j i, G j i = ref_at src w h (px + xd + i) (py + yd + j)).
    { intros j i. unfold G. rewrite pred_spec_cases. cbv zeta. fold xi yi xd yd. rewrite Exi, Eyi. cbn [andb lerp]. f_equal; lia. }
    match goal with |- context [if ?c then forZ 8 _ t else _] => destruct c eqn:Efast end.
    + (* whole block inside: slice copies *)
      assert (Em : m = 8) by lia. assert (En : n = 8) by lia.
      apply (Rows 8); [lia|]. intros j t2 Ht2 Hj. cbv beta zeta.
      rewrite (plane_len_ok w h t2 ltac:(lia) Ht2).
      match goal with |- context [if ?c then Panic PIndex else _] => destruct c eqn:Ec end; [exfalso; nia|].
      apply (Row 8); [lia|exact Ht2|exact Hj|]. intros i t3 Ht3 Hi.
      replace (px + xd + (py + yd + j) * w + i) with ((px + xd + i) + (py + yd + j) * w) by ring.
      rewrite (pget_at w h src) by (first [exact Hs | lia]). cbn [bind].
      rewrite HG. unfold ref_at, clamp.
      replace (Z.min (w - 1) (Z.max 0 (px + xd + i))) with (px + xd + i) by lia.
      replace (Z.min (h - 1) (Z.max 0 (py + yd + j))) with (py + yd + j) by lia.
      f_equal. ring.
    + apply (Rows n); [reflexivity|]. intros j t2 Ht2 Hj. cbv beta. apply (Row m); [reflexivity|exact Ht2|exact Hj|]. intros i t3 Ht3 Hi.
      rewrite (read_sample_spec w h src) by assumption. cbn [bind]. rewrite HG. reflexivity.
  - (* a half-sample component: bilinear interpolation *)
    apply (Rows n); [reflexivity|]. intros j t2 Ht2 Hj. cbv beta. apply (Row m); [reflexivity|exact Ht2|exact Hj|]. intros i t3 Ht3 Hi. cbv zeta.
    rewrite !(read_sample_spec w h src) by assumption. cbn [bind].
    unfold G. rewrite pred_spec_cases. cbv zeta. fold xi yi xd yd.
    replace (px + i + xd) with (px + xd + i) by ring. replace (py + j + yd) with (py + yd + j) by ring. reflexivity.
Qed.

(* a zero vector copies the co-located reference sample: not-coded macroblocks and the macroblocks filled in after an
   early end of data (vector zero, no residual) are exact copies of the reference *)
Lemma pred_spec_zero src w h x y : 0 <= x < w -> 0 <= y < h -> pred_spec src w h (2 * x + 0) (2 * y + 0) = at_ src x y.
Proof.
  intros Hx Hy. rewrite pred_spec_cases. cbv zeta. change (0 mod 2 =? 0) with true. cbn [negb andb lerp]. unfold ref_at, clamp.
  change (0 / 2) with 0. replace (Z.min (w - 1) (Z.max 0 (x + 0))) with x by lia. replace (Z.min (h - 1) (Z.max 0 (y + 0))) with y by lia. reflexivity.
Qed.

Corollary gather_block_zero_vector w h src px py t :
  plane_ok w h src -> plane_ok w h t -> 1 <= w -> 1 <= h -> 0 <= px -> 0 <= py ->
  exists t', gather_block src w px py (0, 0) t = Ok t' /\ plane_ok w h t' /\
    forall x y, 0 <= x < w -> 0 <= y < h -> at_ t' x y = if in_block px py 8 8 x y then at_ src x y else at_ t x y.
Proof.
  intros Hs Ht Hw Hh Hpx Hpy. destruct (gather_block_spec w h src px py (0, 0) t Hs Ht Hw Hh Hpx Hpy) as (t' & E & O & A).
  exists t'. split; [exact E|]. split; [exact O|]. intros x y Hx Hy. rewrite A by assumption. cbn [fst snd].
  destruct (in_block px py 8 8 x y); [apply pred_spec_zero; assumption|reflexivity].
Qed.
