(* C02 / C03: where the inverse transform's output goes.  For every plane size (multiples of 8 or not), block grid and list of
   coefficient blocks, `idct_channel` adds to each sample (x, y) of the plane the transform value of block (x/8, y/8) at offset
   (x mod 8, y mod 8), clips the sum to 0..255, crops blocks that straddle the right or bottom edge, touches nothing else -
   whatever the sparsity class of the block (the classes loop in different orders over different extents). *)
From H263V Require Import base.Prelude model.Types model.Tables model.Reader model.Header model.Syntax model.F32 model.Recon
  proofs.HeaderLemmas proofs.PlaneShape proofs.GatherSpec proofs.FillLemmas.
Require Import ZifyBool ZifyNat.
Ltac Zify.zify_post_hook ::= Z.div_mod_to_equations.

Definition add_val (d : dct_block) (xo yo m : Z) : Z :=
  match d with DctZero => m | _ => clamp 0 255 (idct_value_at (idct_values d) xo yo + m) end.

Lemma add_pixel_at w h o x y v : plane_ok w h o -> 0 <= x < w -> 0 <= y < h ->
  add_pixel o w x y v = pset o (x + y * w) (clamp 0 255 (v + at_ o x y)).
Proof. intros Ho Hx Hy. unfold add_pixel. rewrite (pget_at w h) by assumption. reflexivity. Qed.

Theorem idct_block_spec w h d out xb yb :
  plane_ok w h out -> 1 <= w -> 1 <= h -> 0 <= xb -> 0 <= yb ->
  exists out', idct_block d out w xb yb (clamp 0 8 (w - xb * 8)) (clamp 0 8 (h - yb * 8)) = Ok out' /\ plane_ok w h out' /\
    forall x y, 0 <= x < w -> 0 <= y < h ->
      at_ out' x y = if in_block (xb * 8) (yb * 8) 8 8 x y then add_val d (x - xb * 8) (y - yb * 8) (at_ out x y) else at_ out x y.
Proof.
  intros Ho Hw Hh Hxb Hyb.
  set (xs := clamp 0 8 (w - xb * 8)). set (ys := clamp 0 8 (h - yb * 8)).
  assert (Hxs : 0 <= xs <= 8 /\ (xs = 0 \/ xb * 8 + xs <= w)) by (unfold xs, clamp; lia).
  assert (Hys : 0 <= ys <= 8 /\ (ys = 0 \/ yb * 8 + ys <= h)) by (unfold ys, clamp; lia).
  assert (Hin : forall x y, 0 <= x < w -> 0 <= y < h ->
            in_block (xb * 8) (yb * 8) 8 8 x y = (0 <=? x - xb * 8) && (x - xb * 8 <? xs) && (0 <=? y - yb * 8) && (y - yb * 8 <? ys))
    by (intros; unfold in_block, xs, ys, clamp; lia).
  destruct d as [|dc|row|col|rows].
  - (* zero block: nothing is written *)
    exists out. split; [reflexivity|]. split; [exact Ho|]. intros x y Hx Hy. cbn [add_val]. destruct (in_block _ _ _ _ _ _); reflexivity.
  - (* rows outermost *)
    unfold idct_block. cbv zeta.
    destruct (nest_fill w h (fun a i => xb * 8 + i) (fun a i => yb * 8 + a) (fun x y => y - yb * 8) (fun a x y => x - xb * 8)
                (fun a i m => clamp 0 255 (idct_value_at (idct_values (DctDc dc)) i a + m))
                ltac:(intros a i x y H1 H2; cbv beta in *; split; lia) ys xs
                (fun yo xo o => add_pixel o w (xb * 8 + xo) (yb * 8 + yo) (idct_value_at (idct_values (DctDc dc)) xo yo)) out
                ltac:(lia) ltac:(lia) Ho) as (out' & E & O & A).
    { intros a i Ha Hi. lia. }
    { intros a i t Ht Ha Hi. apply (add_pixel_at w h); [exact Ht|lia|lia]. }
    exists out'. split; [exact E|]. split; [exact O|]. intros x y Hx Hy. rewrite A by assumption. rewrite Hin by assumption.
    unfold in_nest. cbv zeta. cbn [add_val].
    match goal with |- (if ?c1 then _ else _) = (if ?c2 then _ else _) => replace c1 with c2 by lia end. reflexivity.
  - unfold idct_block. cbv zeta.
    destruct (nest_fill w h (fun a i => xb * 8 + i) (fun a i => yb * 8 + a) (fun x y => y - yb * 8) (fun a x y => x - xb * 8)
                (fun a i m => clamp 0 255 (idct_value_at (idct_values (DctHoriz row)) i a + m))
                ltac:(intros a i x y H1 H2; cbv beta in *; split; lia) ys xs
                (fun yo xo o => add_pixel o w (xb * 8 + xo) (yb * 8 + yo) (idct_value_at (idct_values (DctHoriz row)) xo yo)) out
                ltac:(lia) ltac:(lia) Ho) as (out' & E & O & A).
    { intros a i Ha Hi. lia. }
    { intros a i t Ht Ha Hi. apply (add_pixel_at w h); [exact Ht|lia|lia]. }
    exists out'. split; [exact E|]. split; [exact O|]. intros x y Hx Hy. rewrite A by assumption. rewrite Hin by assumption.
    unfold in_nest. cbv zeta. cbn [add_val].
    match goal with |- (if ?c1 then _ else _) = (if ?c2 then _ else _) => replace c1 with c2 by lia end. reflexivity.
  - unfold idct_block. cbv zeta.
    destruct (nest_fill w h (fun a i => xb * 8 + i) (fun a i => yb * 8 + a) (fun x y => y - yb * 8) (fun a x y => x - xb * 8)
                (fun a i m => clamp 0 255 (idct_value_at (idct_values (DctVert col)) i a + m))
                ltac:(intros a i x y H1 H2; cbv beta in *; split; lia) ys xs
                (fun yo xo o => add_pixel o w (xb * 8 + xo) (yb * 8 + yo) (idct_value_at (idct_values (DctVert col)) xo yo)) out
                ltac:(lia) ltac:(lia) Ho) as (out' & E & O & A).
    { intros a i Ha Hi. lia. }
    { intros a i t Ht Ha Hi. apply (add_pixel_at w h); [exact Ht|lia|lia]. }
    exists out'. split; [exact E|]. split; [exact O|]. intros x y Hx Hy. rewrite A by assumption. rewrite Hin by assumption.
    unfold in_nest. cbv zeta. cbn [add_val].
    match goal with |- (if ?c1 then _ else _) = (if ?c2 then _ else _) => replace c1 with c2 by lia end. reflexivity.
  - (* full block: columns outermost *)
    unfold idct_block. cbv zeta.
    destruct (nest_fill w h (fun a i => xb * 8 + a) (fun a i => yb * 8 + i) (fun x y => x - xb * 8) (fun a x y => y - yb * 8)
                (fun a i m => clamp 0 255 (idct_value_at (idct_values (DctFull rows)) a i + m))
                ltac:(intros a i x y H1 H2; cbv beta in *; split; lia) xs ys
                (fun xo yo o => add_pixel o w (xb * 8 + xo) (yb * 8 + yo) (idct_value_at (idct_values (DctFull rows)) xo yo)) out
                ltac:(lia) ltac:(lia) Ho) as (out' & E & O & A).
    { intros a i Ha Hi. lia. }
    { intros a i t Ht Ha Hi. apply (add_pixel_at w h); [exact Ht|lia|lia]. }
    exists out'. split; [exact E|]. split; [exact O|]. intros x y Hx Hy. rewrite A by assumption. rewrite Hin by assumption.
    unfold in_nest. cbv zeta. cbn [add_val].
    match goal with |- (if ?c1 then _ else _) = (if ?c2 then _ else _) => replace c1 with c2 by lia end. reflexivity.
Qed.

(* ---- a sequence of steps, each rewriting its own region ---- *)
Section Steps.
  Variables (w h : Z).
  Variables (inreg : Z -> Z -> Z -> bool) (which : Z -> Z -> Z) (U : Z -> Z -> Z -> Z -> Z).
  Hypothesis which_ok : forall k x y, inreg k x y = true -> which x y = k.

  Lemma steps_go (stepf : Z -> plane -> res plane) :
    forall n k0 t0, plane_ok w h t0 ->
    (forall k t, plane_ok w h t -> k0 <= k < k0 + Z.of_nat n ->
       exists t', stepf k t = Ok t' /\ plane_ok w h t' /\
         forall x y, 0 <= x < w -> 0 <= y < h -> at_ t' x y = if inreg k x y then U k x y (at_ t x y) else at_ t x y) ->
    exists t', for_go n k0 stepf t0 = Ok t' /\ plane_ok w h t' /\
      forall x y, 0 <= x < w -> 0 <= y < h ->
        at_ t' x y = (let k := which x y in
                      if (k0 <=? k) && (k <? k0 + Z.of_nat n) && inreg k x y then U k x y (at_ t0 x y) else at_ t0 x y).
  Proof.
    induction n as [|n IH]; intros k0 t0 Ht Hs; cbn [for_go].
    - exists t0. split; [reflexivity|]. split; [exact Ht|]. intros x y Hx Hy. cbv zeta.
      destruct ((k0 <=? which x y) && (which x y <? k0 + Z.of_nat 0)) eqn:E; [lia|]. reflexivity.
    - destruct (Hs k0 t0 Ht ltac:(lia)) as (t1 & E1 & O1 & A1). rewrite E1. cbn [bind].
      destruct (IH (k0 + 1) t1 O1) as (t' & E2 & O2 & A2).
      { intros k t Ht2 Hk. apply Hs; [exact Ht2|lia]. }
      exists t'. split; [exact E2|]. split; [exact O2|]. intros x y Hx Hy. rewrite A2 by assumption. rewrite A1 by assumption. cbv zeta.
      destruct (inreg k0 x y) eqn:R0.
      + rewrite (which_ok k0 x y R0). rewrite R0.
        destruct ((k0 + 1 <=? k0) && (k0 <? k0 + 1 + Z.of_nat n)) eqn:E3; [lia|]. cbn [andb].
        replace ((k0 <=? k0) && (k0 <? k0 + Z.of_nat (S n))) with true by lia. reflexivity.
      + destruct (Z.eq_dec (which x y) k0) as [Ek|Ek].
        * rewrite Ek, R0. rewrite !andb_false_r. reflexivity.
        * destruct ((k0 + 1 <=? which x y) && (which x y <? k0 + 1 + Z.of_nat n)) eqn:E3;
          destruct ((k0 <=? which x y) && (which x y <? k0 + Z.of_nat (S n))) eqn:E4; try reflexivity; exfalso; lia.
  Qed.
End Steps.

Lemma get_nth {A} (l : list A) i d : 0 <= i < zlength l -> get l i = Ok (nth (Z.to_nat i) l d).
Proof.
  intros H. unfold get. destruct (i <? 0) eqn:E; [lia|]. unfold zlength in H.
  destruct (nth_error l (Z.to_nat i)) as [a|] eqn:En.
  - f_equal. symmetry. apply nth_error_nth. exact En.
  - apply nth_error_None in En. lia.
Qed.

Definition block_of (levels : list dct_block) (bpl x y : Z) : dct_block := nth (Z.to_nat (x / 8 + (y / 8) * bpl)) levels DctZero.

Theorem idct_channel_spec w h levels out bpl bh :
  plane_ok w h out -> 1 <= w -> 1 <= h -> 1 <= bpl -> 0 <= bh -> zlength levels = bpl * bh ->
  exists out', idct_channel levels out bpl w = Ok out' /\ plane_ok w h out' /\
    forall x y, 0 <= x < w -> 0 <= y < h ->
      at_ out' x y = if (x / 8 <? bpl) && (y / 8 <? bh) then add_val (block_of levels bpl x y) (x mod 8) (y mod 8) (at_ out x y)
                     else at_ out x y.
Proof.
  intros Ho Hw Hh Hbpl Hbh Hlen. unfold idct_channel.
  rewrite (plane_len_ok w h out ltac:(lia) Ho). unfold div_chk. destruct (w =? 0) eqn:E0; [lia|]. cbn [bind].
  destruct (bpl =? 0) eqn:E1; [lia|]. cbn [bind].
  replace (Z.quot (w * h) w) with h by (rewrite Z.quot_div_nonneg by nia; rewrite Z.mul_comm, Z.div_mul by lia; reflexivity).
  replace (Z.quot (zlength levels) bpl) with bh by (rewrite Hlen, Z.quot_div_nonneg by nia; rewrite Z.mul_comm, Z.div_mul by lia; reflexivity).
  (* one row of blocks *)
  assert (Row : forall yb t, plane_ok w h t -> 0 <= yb < bh ->
    exists t', forZ bpl (fun x_base o =>
                 let block_id := x_base + yb * bpl in
                 if zlength levels <=? block_id then Ok o else
                 let xs := clamp 0 8 (w - x_base * 8) in let ys := clamp 0 8 (h - yb * 8) in
                 let* d := get levels block_id in idct_block d o w x_base yb xs ys) t = Ok t' /\ plane_ok w h t' /\
      forall x y, 0 <= x < w -> 0 <= y < h ->
        at_ t' x y = if (y / 8 =? yb) && (x / 8 <? bpl) then add_val (block_of levels bpl x y) (x mod 8) (y mod 8) (at_ t x y) else at_ t x y).
  { intros yb t Ht Hyb. unfold forZ.
    destruct (steps_go w h (fun xb x y => (x / 8 =? xb) && (y / 8 =? yb)) (fun x y => x / 8)
                (fun xb x y m => add_val (nth (Z.to_nat (xb + yb * bpl)) levels DctZero) (x mod 8) (y mod 8) m)
                ltac:(intros; lia)
                (fun x_base o =>
                 let block_id := x_base + yb * bpl in
                 if zlength levels <=? block_id then Ok o else
                 let xs := clamp 0 8 (w - x_base * 8) in let ys := clamp 0 8 (h - yb * 8) in
                 let* d := get levels block_id in idct_block d o w x_base yb xs ys)
                (Z.to_nat bpl) 0 t Ht) as (t' & E & O & A).
    - intros xb t2 Ht2 Hxb. cbv zeta. destruct (zlength levels <=? xb + yb * bpl) eqn:El; [exfalso; nia|].
      rewrite (get_nth levels (xb + yb * bpl) DctZero) by nia. cbn [bind].
      destruct (idct_block_spec w h (nth (Z.to_nat (xb + yb * bpl)) levels DctZero) t2 xb yb Ht2 Hw Hh ltac:(lia) ltac:(lia)) as (t3 & E3 & O3 & A3).
      exists t3. split; [exact E3|]. split; [exact O3|]. intros x y Hx Hy. rewrite A3 by assumption.
      replace (in_block (xb * 8) (yb * 8) 8 8 x y) with ((x / 8 =? xb) && (y / 8 =? yb)) by (unfold in_block; lia).
      destruct ((x / 8 =? xb) && (y / 8 =? yb)) eqn:Eb; [|reflexivity]. f_equal; lia.
    - exists t'. split; [exact E|]. split; [exact O|]. intros x y Hx Hy. rewrite A by assumption. cbv zeta. rewrite Z2Nat.id by lia.
      unfold block_of.
      destruct ((0 <=? x / 8) && (x / 8 <? 0 + bpl) && ((x / 8 =? x / 8) && (y / 8 =? yb))) eqn:Ea;
      destruct ((y / 8 =? yb) && (x / 8 <? bpl)) eqn:Eb; try reflexivity; try (exfalso; lia).
      assert (y / 8 = yb) by lia. subst yb. reflexivity. }
  unfold forZ at 1.
  destruct (steps_go w h (fun yb x y => (y / 8 =? yb) && (x / 8 <? bpl)) (fun x y => y / 8)
              (fun yb x y m => add_val (block_of levels bpl x y) (x mod 8) (y mod 8) m)
              ltac:(intros; lia)
              (fun y_base o => forZ bpl (fun x_base o =>
                 let block_id := x_base + y_base * bpl in
                 if zlength levels <=? block_id then Ok o else
                 let xs := clamp 0 8 (w - x_base * 8) in let ys := clamp 0 8 (h - y_base * 8) in
                 let* d := get levels block_id in idct_block d o w x_base y_base xs ys) o)
              (Z.to_nat bh) 0 out Ho) as (out' & E & O & A).
  - intros yb t Ht Hyb. apply Row; [exact Ht|lia].
  - exists out'. split; [exact E|]. split; [exact O|]. intros x y Hx Hy. rewrite A by assumption. cbv zeta. rewrite Z2Nat.id by lia.
    destruct ((0 <=? y / 8) && (y / 8 <? 0 + bh) && ((y / 8 =? y / 8) && (x / 8 <? bpl))) eqn:Ea;
    destruct ((x / 8 <? bpl) && (y / 8 <? bh)) eqn:Eb; try reflexivity; exfalso; lia.
Qed.
