(* C02, the composition: an intra picture from bits to samples.  Header parsed, body = the encoding of macroblocks given by
   field values: the decoder returns planes of the signalled size in which every sample is the clipped transform value of the
   coefficient block that the reader-free `pure_loop` computes for its position (dequantised, placed: C02_block_placement). *)
From H263V Require Import base.Prelude model.Types model.Tables model.Reader model.Header model.Syntax model.F32 model.Recon model.Decoder
  spec.SpecHeader spec.SpecTables
  proofs.ReaderLemmas proofs.HeaderLemmas proofs.PlaneShape proofs.GatherSpec proofs.FillLemmas proofs.IdctPlacement
  proofs.VlcTables proofs.BlockRoundTrip proofs.MacroblockRoundTrip proofs.PictureRoundTrip.
Require Import ZifyBool ZifyNat.
Ltac Zify.zify_post_hook ::= Z.div_mod_to_equations.

Lemma set_nth_length {A} : forall (l : list A) n a l', set_nth l n a = Some l' -> length l' = length l.
Proof.
  induction l as [|x l IH]; intros n a l' H; [destruct n; discriminate|]. destruct n as [|n]; cbn [set_nth] in H.
  - inversion H; subst. reflexivity.
  - destruct (set_nth l n a) as [t|] eqn:E; [|discriminate]. inversion H; subst. cbn [length]. f_equal. eapply IH; eauto.
Qed.
Lemma inverse_rle_length b levels px py bpl q levels' : inverse_rle b levels px py bpl q = Ok levels' -> zlength levels' = zlength levels.
Proof.
  unfold inverse_rle. intros H. bind_inv H as d E. destruct (inverse_rle_block b q); [|inversion H; reflexivity].
  unfold set in H. destruct (_ <? 0); [discriminate|]. destruct (set_nth levels _ _) as [l2|] eqn:E2; [|discriminate].
  inversion H; subst. unfold zlength. f_equal. eapply set_nth_length; eauto.
Qed.

Lemma coded_pure_shape np running mpl levw t dq mvd addl b0 b1 b2 b3 b4 b5 st st' mvs :
  coded_pure np running mpl levw t dq mvd addl b0 b1 b2 b3 b4 b5 st = Ok (st', mvs) ->
  l_types st' = l_types st /\ l_pvs st' = l_pvs st /\
  zlength (l_luma st') = zlength (l_luma st) /\ zlength (l_cb st') = zlength (l_cb st) /\ zlength (l_cr st') = zlength (l_cr st).
Proof.
  unfold coded_pure. intros H. bind_inv H as col Ec. bind_inv H as line El. cbv zeta in H. bind_inv H as mv0 Em.
  bind_inv H as l0 L0. bind_inv H as l1 L1. bind_inv H as l2 L2. bind_inv H as l3 L3. bind_inv H as l4 L4. bind_inv H as l5 L5.
  inversion H; subst. cbn [l_types l_pvs l_luma l_cb l_cr].
  apply inverse_rle_length in L0, L1, L2, L3, L4, L5. repeat split; lia.
Qed.

Lemma intra_types : forall c t cb cr, In (c, BpValid t cb cr) spec_mcbpc_i -> mb_is_inter t = false.
Proof.
  intros c t cb cr H. cbn in H. repeat (destruct H as [H|H]; [inversion H; reflexivity|]). destruct H.
Qed.

(* what the loop leaves for an intra picture *)
Lemma pure_loop_intra np running mpl levw total : is_iframe (picture_type (d_header np)) = true ->
  forall fms v1 st st', Forall (wf_full true v1) fms -> loop_ok fms (zlength (l_types st)) total ->
  pure_loop np running mpl levw fms st = Ok st' ->
  Forall (fun t => mb_is_inter t = false) (l_types st) ->
  zlength (l_types st') = total /\ Forall (fun t => mb_is_inter t = false) (l_types st') /\
  zlength (l_luma st') = zlength (l_luma st) /\ zlength (l_cb st') = zlength (l_cb st) /\ zlength (l_cr st') = zlength (l_cr st).
Proof.
  intros Hi. induction fms as [|f fms IH]; intros v1 st st' Hwf Hok H Hty; cbn [pure_loop loop_ok] in *.
  - inversion H; subst. repeat split; try assumption; lia.
  - inversion Hwf as [|? ? Hw Hwf']; subst. destruct f as [| |m b0 b1 b2 b3 b4 b5].
    + destruct Hok as [_ Hok]. eapply IH; eauto.
    + cbn [wf_full] in Hw. discriminate.
    + destruct Hok as [_ Hok]. unfold coded_of in H. bind_inv H as [st1 mvs] Ec.
      destruct (coded_pure_shape _ _ _ _ _ _ _ _ _ _ _ _ _ _ _ _ _ Ec) as (T1 & T2 & T3 & T4 & T5).
      cbn [wf_full] in Hw. destruct Hw as ((Hmc & _) & _).
      destruct (IH v1 (push st1 mvs (s_type m)) st' Hwf') as (R1 & R2 & R3 & R4 & R5).
      * cbn [push l_types]. rewrite T1, zlength_snoc. exact Hok.
      * exact H.
      * cbn [push l_types]. rewrite T1. apply Forall_app. split; [exact Hty|]. constructor; [|constructor]. eapply intra_types; eauto.
      * cbn [push l_luma l_cb l_cr] in *. repeat split; try assumption; lia.
Qed.

Lemma gather_go_all_intra : forall items i reference mpl np,
  Forall (fun tv : mbtype * mv4 => mb_is_inter (fst tv) = false) items -> gather_go items i reference mpl np = Ok np.
Proof.
  induction items as [|[t v] items IH]; intros i reference mpl np H; [reflexivity|]. inversion H as [|? ? Ht Hr]; subst. cbn [fst] in Ht.
  cbn [gather_go]. rewrite Ht. apply IH. exact Hr.
Qed.

Lemma at_new_plane w h x y : 0 <= x < w -> 0 <= y < h -> at_ (new_plane w h) x y = 0.
Proof.
  intros Hx Hy. unfold at_, new_plane, repeatZ. cbn [prows].
  rewrite (nth_indep _ [] (repeat 0 (Z.to_nat w))) by (rewrite repeat_length; lia). rewrite nth_repeat. apply nth_repeat.
Qed.

Lemma pad_to_full {A} (l : list A) n a : zlength l = n -> pad_to l n a = l.
Proof. intros H. unfold pad_to, repeatZ. rewrite H. replace (n - n) with 0 by lia. cbn. apply app_nil_r. Qed.

Lemma mcbpc_code_nonempty (ipic : bool) c v : In (c, v) (if ipic then spec_mcbpc_i else spec_mcbpc_p) -> (1 <= length c)%nat.
Proof. destruct ipic; cbn; intros H; repeat (destruct H as [H|H]; [inversion H; cbn; lia|]); destruct H. Qed.
Lemma enc_fulls_length (ipic v1 : bool) fms : Forall (wf_full ipic v1) fms -> (length fms <= length (enc_fulls ipic v1 fms))%nat.
Proof.
  induction 1 as [|f l Hw _ IH]; [cbn; lia|]. unfold enc_fulls in *. cbn [flat_map length]. rewrite app_length.
  assert (1 <= length (enc_full ipic v1 f))%nat.
  { destruct f as [| |m b0 b1 b2 b3 b4 b5]; cbn [enc_full].
    - unfold enc_stuffing. rewrite app_length. cbn [length]. lia.
    - cbn. lia.
    - cbn [wf_full] in Hw. destruct Hw as ((Hmc & _) & _). apply mcbpc_code_nonempty in Hmc. unfold enc_coded. rewrite !app_length. lia. }
  lia.
Qed.
Lemma zlength_repeatZ {A} (a : A) n : 0 <= n -> zlength (repeatZ a n) = n.
Proof. intros H. unfold zlength, repeatZ. rewrite repeat_length. lia. Qed.
Lemma Forall_combine_fst {A B} (P : A -> Prop) : forall (l : list A) (m : list B), Forall P l -> Forall (fun ab => P (fst ab)) (combine l m).
Proof.
  induction l as [|a l IH]; intros m H; [constructor|]. destruct m as [|b m]; [constructor|]. inversion H; subst. cbn [combine]. constructor; [assumption|apply IH; assumption].
Qed.
Lemma level_counts w h : 1 <= w -> 1 <= h ->
  let mpl := (w + 15) / 16 in let mbh := (h + 15) / 16 in
  (mpl * 16) * (mbh * 16) / 64 = (mpl * 2) * (mbh * 2) /\ (mpl * 16) * (mbh * 16) / 4 / 64 = mpl * mbh /\ 1 <= mpl /\ 1 <= mbh /\
  w <= mpl * 16 /\ h <= mbh * 16.
Proof.
  intros Hw Hh. cbv zeta. set (a := (w + 15) / 16). set (b := (h + 15) / 16).
  assert (1 <= a /\ w <= a * 16) by (unfold a; lia). assert (1 <= b /\ h <= b * 16) by (unfold b; lia).
  replace (a * 16 * (b * 16)) with ((a * 2 * (b * 2)) * 64) by ring. rewrite Z.div_mul by lia.
  replace (a * 2 * (b * 2) * 64 / 4) with ((a * b) * 64) by (replace (a * 2 * (b * 2) * 64) with ((a * b * 64) * 4) by ring; rewrite Z.div_mul by lia; reflexivity).
  rewrite Z.div_mul by lia. lia.
Qed.

Theorem reconstruct_intra o last reference running0 r0 hdr fmt w h fms rest pos st' :
  let v1 := sorenson o && (match version hdr with Some 1 => true | _ => false end) in
  let running := (if has_plusptype hdr && has_opptype hdr then options hdr
                  else if has_plusptype hdr then Z.lor (Z.ldiff (options hdr) opptype_options) (Z.land running0 opptype_options)
                  else Z.lor (Z.ldiff (Z.ldiff (options hdr) opptype_options) mpptype_options) (Z.land running0 (Z.lor opptype_options mpptype_options))) in
  let mpl := (w + 15) / 16 in let mbh := (h + 15) / 16 in let levw := mpl * 16 in let levh := mbh * 16 in
  let np := mkDecoded hdr fmt (new_plane w h) (new_plane ((w + 1) / 2) ((h + 1) / 2)) (new_plane ((w + 1) / 2) ((h + 1) / 2)) ((w + 1) / 2) in
  let st0 := mkLoop (mkReader (enc_fulls true v1 fms ++ rest) pos) (quantizer hdr) [] []
                    (repeatZ DctZero (levw * levh / 64)) (repeatZ DctZero (levw * levh / 4 / 64)) (repeatZ DctZero (levw * levh / 4 / 64)) in
  decode_picture o (match last with Some p => Some (d_header p) | None => None end) r0 = Ok (Some hdr, mkReader (enc_fulls true v1 fms ++ rest) pos) ->
  picture_type hdr = IFrame -> format hdr = Some fmt -> into_width_and_height fmt = Some (w, h) -> 1 <= w -> 1 <= h ->
  simple_picture hdr running ->
  Forall (wf_full true v1) fms -> loop_ok fms 0 (mpl * mbh) ->
  pure_loop np running mpl levw fms st0 = Ok st' ->
  exists pic pos',
    reconstruct o last reference running0 r0 = Ok (pic, mkReader rest pos') /\
    d_header pic = hdr /\ plane_ok w h (d_luma pic) /\ plane_ok ((w + 1) / 2) ((h + 1) / 2) (d_cb pic) /\ plane_ok ((w + 1) / 2) ((h + 1) / 2) (d_cr pic) /\
    (forall x y, 0 <= x < w -> 0 <= y < h ->
       at_ (d_luma pic) x y = add_val (block_of (l_luma st') (mpl * 2) x y) (x mod 8) (y mod 8) 0) /\
    (forall x y, 0 <= x < (w + 1) / 2 -> 0 <= y < (h + 1) / 2 ->
       at_ (d_cb pic) x y = add_val (block_of (l_cb st') mpl x y) (x mod 8) (y mod 8) 0 /\
       at_ (d_cr pic) x y = add_val (block_of (l_cr st') mpl x y) (x mod 8) (y mod 8) 0).
Proof.
  intros v1 running mpl mbh levw levh np st0 Hhdr Hpt Hfmt Hwh Hw Hh Hsp Hwf Hok Hpure.
  unfold reconstruct. rewrite Hhdr. cbn [bind]. fold running. rewrite Hfmt. cbn [bind]. rewrite Hwh.
  destruct ((w <=? 0) || (h <=? 0)) eqn:E0; [lia|]. cbv zeta. fold mpl mbh levw levh.
  unfold new_decoded. rewrite Hwh. cbv zeta. fold np. fold st0.
  assert (Hif : is_iframe (picture_type (d_header np)) = true) by (cbn [d_header np]; rewrite Hpt; reflexivity).
  destruct (level_counts w h Hw Hh) as (N1 & N2 & M1 & M2 & M3 & M4). cbv zeta in N1, N2, M1, M2, M3, M4. fold mpl mbh in N1, N2, M1, M2, M3, M4. fold levw levh in N1, N2.
  destruct (mb_loop_roundtrip o np running mpl (mpl * mbh) levw Hsp fms (S (length (rbits (mkReader (enc_fulls true v1 fms ++ rest) pos)))) st0 rest pos) as [p1 El].
  { cbn [d_header np]. rewrite Hpt. cbn [is_iframe]. exact Hwf. }
  { exact Hok. }
  { cbn [rbits]. rewrite app_length. pose proof (enc_fulls_length true v1 fms Hwf). lia. }
  { cbn [d_header np]. rewrite Hpt. reflexivity. }
  rewrite El, Hpure. cbn [rmap bind with_reader l_pvs l_types l_luma l_cb l_cr l_reader].
  destruct (pure_loop_intra np running mpl levw (mpl * mbh) Hif fms v1 st0 st' Hwf Hok Hpure ltac:(constructor)) as (T1 & T2 & L1 & L2 & L3).
  cbn [st0 l_luma l_cb l_cr] in L1, L2, L3. rewrite zlength_repeatZ in L1, L2, L3 by nia. rewrite N1 in L1. rewrite N2 in L2, L3.
  rewrite (pad_to_full (l_types st')) by exact T1.
  rewrite gather_go_all_intra by (apply (Forall_combine_fst (fun t => mb_is_inter t = false)); exact T2). cbn [bind].
  change (d_luma np) with (new_plane w h). change (d_cb np) with (new_plane ((w + 1) / 2) ((h + 1) / 2)). change (d_cr np) with (new_plane ((w + 1) / 2) ((h + 1) / 2)).
  change (d_chroma_w np) with ((w + 1) / 2). change (d_header np) with hdr. change (d_format np) with fmt.
  destruct (idct_channel_spec w h (l_luma st') (new_plane w h) (mpl * 2) (mbh * 2) (new_plane_ok w h) Hw Hh ltac:(lia) ltac:(lia) L1) as (luma & E1 & O1 & A1).
  rewrite E1. cbn [bind].
  destruct (idct_channel_spec ((w + 1) / 2) ((h + 1) / 2) (l_cb st') (new_plane ((w + 1) / 2) ((h + 1) / 2)) mpl mbh (new_plane_ok _ _) ltac:(lia) ltac:(lia) M1 ltac:(lia) L2) as (cb & E2 & O2 & A2).
  rewrite E2. cbn [bind].
  destruct (idct_channel_spec ((w + 1) / 2) ((h + 1) / 2) (l_cr st') (new_plane ((w + 1) / 2) ((h + 1) / 2)) mpl mbh (new_plane_ok _ _) ltac:(lia) ltac:(lia) M1 ltac:(lia) L3) as (cr & E3 & O3 & A3).
  rewrite E3. cbn [bind].
  eexists. exists p1. split; [reflexivity|]. cbn [d_header d_luma d_cb d_cr].
  split; [reflexivity|]. split; [exact O1|]. split; [exact O2|]. split; [exact O3|]. split.
  - intros x y Hx Hy. rewrite A1 by assumption. rewrite at_new_plane by assumption.
    destruct ((x / 8 <? mpl * 2) && (y / 8 <? mbh * 2)) eqn:E; [reflexivity|exfalso; lia].
  - intros x y Hx Hy. rewrite A2, A3 by assumption. rewrite !at_new_plane by assumption.
    destruct ((x / 8 <? mpl) && (y / 8 <? mbh)) eqn:E; [split; reflexivity|exfalso; lia].
Qed.
