(* C06: round trip of H.263 headers with PLUSPTYPE (UFEP = 001): OPPTYPE, MPPTYPE, CPM/PSBI, CPFMT/EPAR,
   CPCFC/ETR, UUI, SSS, ELNUM/RLNUM, RPSMF, TRPI/TRP, BCI, PQUANT, TRB/DBQUANT, PEI. *)
From H263V Require Import base.Prelude model.Types model.Tables model.Reader model.Header spec.SpecHeader
  proofs.ReaderLemmas proofs.HeaderLemmas proofs.HeaderRoundTrip proofs.BitFields.

Definition opp_flags (h : plus_header) : list bool :=
  [p_pcf h; p_umv h; p_sac h; p_ap h; p_aic h; p_df h; p_ss h; p_rps h; p_isd h; p_aiv h; p_mq h; true; false; false; false].
Definition opp_list (h : plus_header) : list bool := bits_of 3 (p_fmt h) ++ opp_flags h.
Definition mpp_flags (h : plus_header) : list bool := [false; p_rru h; p_rtype h; false; false; true].
Definition mpp_list (h : plus_header) : list bool := bits_of 3 (p_type h) ++ mpp_flags h.

Lemma opp_facts h : 0 <= p_fmt h < 8 ->
  let opp := val_of_bits (opp_list h) in
  Z.land opp 15 = 8 /\ Z.shiftr (Z.land opp 229376) 15 = p_fmt h /\
  tb opp 14 = p_pcf h /\ tb opp 13 = p_umv h /\ tb opp 12 = p_sac h /\ tb opp 11 = p_ap h /\ tb opp 10 = p_aic h /\
  tb opp 9 = p_df h /\ tb opp 8 = p_ss h /\ tb opp 7 = p_rps h /\ tb opp 6 = p_isd h /\ tb opp 5 = p_aiv h /\ tb opp 4 = p_mq h.
Proof.
  intros Hf. cbv zeta. unfold tb.
  assert (Hlen : length (opp_list h) = 18%nat) by reflexivity.
  split; [|split].
  - change 15 with (Z.ones 4). rewrite low_bits by lia.
    change (opp_list h) with ((bits_of 3 (p_fmt h) ++ [p_pcf h; p_umv h; p_sac h; p_ap h; p_aic h; p_df h; p_ss h; p_rps h; p_isd h; p_aiv h; p_mq h]) ++ [true; false; false; false]).
    rewrite val_app. change (val_of_bits [true; false; false; false]) with 8. change (2 ^ Z.of_nat (length [true; false; false; false])) with 16.
    change (2 ^ 4) with 16. rewrite Z.add_comm, Z.mod_add by lia. reflexivity.
  - change 229376 with (Z.shiftl (Z.ones 3) 15). rewrite field_extract by lia.
    unfold opp_list. rewrite val_app, val_bits_of by (cbn; lia).
    pose proof (val_range (opp_flags h)) as Hr. change (Z.of_nat (length (opp_flags h))) with 15 in *.
    rewrite Z.div_add_l by lia. rewrite (Z.div_small (val_of_bits (opp_flags h))) by lia.
    rewrite Z.add_0_r. apply Z.mod_small. cbn; lia.
  - repeat split; (rewrite testbit_val by (rewrite Hlen; lia); reflexivity).
Qed.

Lemma mpp_facts h : 0 <= p_type h < 8 ->
  let mpp := val_of_bits (mpp_list h) in
  Z.land mpp 7 = 1 /\ Z.shiftr (Z.land mpp 448) 6 = p_type h /\
  tb mpp 5 = false /\ tb mpp 4 = p_rru h /\ tb mpp 3 = p_rtype h.
Proof.
  intros Hf. cbv zeta. unfold tb.
  assert (Hlen : length (mpp_list h) = 9%nat) by reflexivity.
  split; [|split].
  - change 7 with (Z.ones 3). rewrite low_bits by lia.
    change (mpp_list h) with ((bits_of 3 (p_type h) ++ [false; p_rru h; p_rtype h]) ++ [false; false; true]).
    rewrite val_app. change (val_of_bits [false; false; true]) with 1. change (2 ^ Z.of_nat (length [false; false; true])) with 8.
    change (2 ^ 3) with 8. rewrite Z.add_comm, Z.mod_add by lia. reflexivity.
  - change 448 with (Z.shiftl (Z.ones 3) 6). rewrite field_extract by lia.
    unfold mpp_list. rewrite val_app, val_bits_of by (cbn; lia).
    pose proof (val_range (mpp_flags h)) as Hr. change (Z.of_nat (length (mpp_flags h))) with 6 in *.
    rewrite Z.div_add_l by lia. rewrite (Z.div_small (val_of_bits (mpp_flags h))) by lia.
    rewrite Z.add_0_r. apply Z.mod_small. cbn; lia.
  - repeat split; (rewrite testbit_val by (rewrite Hlen; lia); reflexivity).
Qed.

Lemma val_app_n a b n : length b = n -> val_of_bits (a ++ b) = val_of_bits a * 2 ^ Z.of_nat n + val_of_bits b.
Proof. intros <-. apply val_app. Qed.

Definition cpfmt_list (h : plus_header) : list bool :=
  bits_of 4 (p_par h) ++ bits_of 9 (p_pwi h) ++ [true] ++ bits_of 9 (p_phi h).

Lemma cpfmt_facts h : 0 <= p_par h < 16 -> 0 <= p_pwi h < 512 -> 0 <= p_phi h < 512 ->
  let c := val_of_bits (cpfmt_list h) in
  (Z.land c 512 =? 0) = false /\ Z.shiftr (Z.land c 7864320) 19 = p_par h /\
  Z.shiftr (Z.land c 523264) 10 = p_pwi h /\ Z.land c 511 = p_phi h.
Proof.
  intros Hp Hw Hh. cbv zeta.
  assert (Ec : val_of_bits (cpfmt_list h) = p_par h * 524288 + p_pwi h * 1024 + 512 + p_phi h).
  { unfold cpfmt_list.
    rewrite (val_app_n _ _ 19) by (rewrite !app_length, !bits_of_length; reflexivity).
    rewrite (val_app_n _ _ 10) by (rewrite !app_length, !bits_of_length; reflexivity).
    rewrite (val_app_n _ _ 9) by (rewrite !bits_of_length; reflexivity).
    rewrite !val_bits_of by (cbn; lia). change (val_of_bits [true]) with 1.
    change (2 ^ Z.of_nat 19) with 524288. change (2 ^ Z.of_nat 10) with 1024. change (2 ^ Z.of_nat 9) with 512. lia. }
  rewrite Ec. repeat split.
  - change 512 with (2 ^ 9) at 2. rewrite land_pow2_zero by lia.
    replace (p_par h * 524288 + p_pwi h * 1024 + 512 + p_phi h) with ((p_par h * 1024 + p_pwi h * 2 + 1) * 2 ^ 9 + p_phi h) by (cbn; lia).
    rewrite testbit_split by (cbn; lia).
    replace (9 <? 9) with false by reflexivity. replace (9 - 9) with 0 by lia.
    rewrite Z.bit0_odd. replace (p_par h * 1024 + p_pwi h * 2 + 1) with (1 + 2 * (p_par h * 512 + p_pwi h)) by lia.
    rewrite Z.odd_add_mul_2. reflexivity.
  - change 7864320 with (Z.shiftl (Z.ones 4) 19). rewrite field_extract by lia. change (2 ^ 19) with 524288. change (2 ^ 4) with 16.
    replace (p_par h * 524288 + p_pwi h * 1024 + 512 + p_phi h) with (p_par h * 524288 + (p_pwi h * 1024 + 512 + p_phi h)) by lia.
    rewrite Z.div_add_l by lia. rewrite (Z.div_small (p_pwi h * 1024 + 512 + p_phi h)) by lia.
    rewrite Z.add_0_r. apply Z.mod_small. lia.
  - change 523264 with (Z.shiftl (Z.ones 9) 10). rewrite field_extract by lia. change (2 ^ 10) with 1024. change (2 ^ 9) with 512.
    replace (p_par h * 524288 + p_pwi h * 1024 + 512 + p_phi h) with ((p_par h * 512 + p_pwi h) * 1024 + (512 + p_phi h)) by lia.
    rewrite Z.div_add_l by lia. rewrite (Z.div_small (512 + p_phi h)) by lia. rewrite Z.add_0_r.
    rewrite Z.add_comm, Z.mod_add by lia. apply Z.mod_small. lia.
  - change 511 with (Z.ones 9). rewrite low_bits by lia. change (2 ^ 9) with 512.
    replace (p_par h * 524288 + p_pwi h * 1024 + 512 + p_phi h) with (p_phi h + (p_par h * 1024 + p_pwi h * 2 + 1) * 512) by lia.
    rewrite Z.mod_add by lia. apply Z.mod_small. lia.
Qed.

(* ---- option-set facts ---- *)
Lemma has_pow2 x k : 0 <= k -> has x (2 ^ k) = Z.testbit x k.
Proof.
  intros Hk. unfold has. destruct (Z.testbit x k) eqn:E.
  - apply Z.eqb_eq. apply Z.bits_inj'. intros n Hn. rewrite Z.land_spec.
    destruct (Z.eq_dec n k) as [->|Hne]; [rewrite E, Z.pow2_bits_true by lia; reflexivity|].
    rewrite Z.pow2_bits_false by lia. apply andb_false_r.
  - apply Z.eqb_neq. intros H. assert (Z.testbit (Z.land x (2 ^ k)) k = true) by (rewrite H; apply Z.pow2_bits_true; lia).
    rewrite Z.land_spec, E in H0. discriminate.
Qed.

Lemma ptype_flags_bits s d f : let a := flag_if s USE_SPLIT_SCREEN + flag_if d USE_DOCUMENT_CAMERA + flag_if f RELEASE_FULL_PICTURE_FREEZE in
  Z.testbit a 9 = false /\ Z.testbit a 13 = false.
Proof. destruct s, d, f; split; reflexivity. Qed.
Lemma mpp_flags_bits ru rt : let c := flag_if false REFERENCE_PICTURE_RESAMPLING + flag_if ru REDUCED_RESOLUTION_UPDATE + flag_if rt ROUNDING_TYPE_ONE in
  Z.testbit c 9 = false /\ Z.testbit c 13 = false.
Proof. destruct ru, rt; split; reflexivity. Qed.
Lemma opp_flags_bits umv sac ap aic df ss rps isd aiv mq :
  let b := flag_if umv UNRESTRICTED_MOTION_VECTORS + flag_if sac SYNTAX_BASED_ARITHMETIC_CODING
           + flag_if ap ADVANCED_PREDICTION + flag_if aic ADVANCED_INTRA_CODING + flag_if df DEBLOCKING_FILTER
           + flag_if ss SLICE_STRUCTURED + flag_if rps REFERENCE_PICTURE_SELECTION
           + flag_if isd INDEPENDENT_SEGMENT_DECODING + flag_if aiv ALTERNATIVE_INTER_VLC
           + flag_if mq MODIFIED_QUANTIZATION in
  Z.testbit b 9 = rps /\ Z.testbit b 13 = false.
Proof. destruct umv, sac, ap, aic, df, ss, rps, isd, aiv, mq; split; reflexivity. Qed.

Lemma plus_options_rps h :
  has (plus_options h) REFERENCE_PICTURE_SELECTION = p_rps h /\ has (plus_options h) REFERENCE_PICTURE_RESAMPLING = false.
Proof.
  assert (H9 : forall x, has x REFERENCE_PICTURE_SELECTION = Z.testbit x 9) by (intros; apply (has_pow2 _ 9); lia).
  assert (H13 : forall x, has x REFERENCE_PICTURE_RESAMPLING = Z.testbit x 13) by (intros; apply (has_pow2 _ 13); lia).
  rewrite H9, H13. unfold plus_options. rewrite !Z.lor_spec.
  destruct (ptype_flags_bits (p_split h) (p_doccam h) (p_freeze h)) as [A1 A2].
  destruct (mpp_flags_bits (p_rru h) (p_rtype h)) as [C1 C2].
  destruct (opp_flags_bits (p_umv h) (p_sac h) (p_ap h) (p_aic h) (p_df h) (p_ss h) (p_rps h) (p_isd h) (p_aiv h) (p_mq h)) as [B1 B2].
  cbv zeta in *. rewrite A1, A2, B1, B2, C1, C2. split; [destruct (p_rps h); reflexivity|reflexivity].
Qed.

Lemma lor_shift8 hi lo : 0 <= hi < 4 -> 0 <= lo < 256 -> Z.lor (Z.shiftl hi 8) lo = hi * 256 + lo.
Proof.
  intros Hh Hl. rewrite Z.shiftl_mul_pow2 by lia. change (2 ^ 8) with 256.
  assert (Hd : Z.land (hi * 256) lo = 0).
  { apply Z.bits_inj'. intros n Hn. rewrite Z.land_spec, Z.bits_0.
    destruct (Z.ltb_spec n 8).
    + replace (hi * 256) with (hi * 2 ^ 8) by reflexivity. rewrite Z.mul_pow2_bits_low by lia. reflexivity.
    + rewrite (Z.bits_above_log2 lo n); [apply andb_false_r|lia|].
      destruct (Z.eq_dec lo 0) as [->|]; [cbn; lia|].
      assert (Z.log2 lo < 8) by (apply Z.log2_lt_pow2; lia). lia. }
  rewrite <- (Z.lxor_lor _ _ Hd), <- (Z.add_nocarry_lxor _ _ Hd). reflexivity.
Qed.

(* ---- the encoded header as a sequence of segments, one per decoding step ---- *)
Definition seg_cpm (h : plus_header) : list bool := match p_cpm h with None => [false] | Some p => true :: bits_of 2 p end.
Definition seg_cpfmt (h : plus_header) : list bool :=
  if p_fmt h =? 6 then cpfmt_list h ++ (if p_par h =? 15 then bits_of 8 (p_eparw h) ++ bits_of 8 (p_eparh h) else []) else [].
Definition seg_cpcfc (h : plus_header) : list bool := if p_pcf h then bits_of 8 (p_cpcfc h) else [].
Definition seg_etr (h : plus_header) : list bool := if p_pcf h then bits_of 2 (p_etr h) else [].
Definition seg_uui (h : plus_header) : list bool := if p_umv h then (if p_uui_extended h then [true] else [false; true]) else [].
Definition seg_sss (h : plus_header) : list bool := if p_ss h then bits_of 2 (p_sss h) else [].
Definition seg_layer (scal : bool) (h : plus_header) : list bool := if scal then bits_of 4 (p_elnum h) ++ bits_of 4 (p_rlnum h) else [].
Definition seg_rpsmf (h : plus_header) : list bool := if p_rps h then bits_of 3 (p_rpsmf h) else [].
Definition seg_trpi (h : plus_header) : list bool :=
  if p_rps h then (match p_trp h with None => [false] | Some t => true :: bits_of 10 t end) else [].
Definition seg_bci (h : plus_header) : list bool := if p_rps h then [false; true] else [].
Definition seg_pb (h : plus_header) : list bool :=
  if p_type h =? 2 then bits_of (if p_pcf h then 5 else 3) (p_trb h) ++ bits_of 2 (p_dbquant h) else [].

Lemma enc_plus_eq scal h :
  enc_plus scal h = start_code ++ bits_of 5 0 ++ bits_of 8 (p_tr h)
    ++ bits_of 8 (ptype_hi (p_split h) (p_doccam h) (p_freeze h) 7) ++ bits_of 3 1 ++ opp_list h ++ mpp_list h
    ++ seg_cpm h ++ seg_cpfmt h ++ seg_cpcfc h ++ seg_etr h ++ seg_uui h ++ seg_sss h ++ seg_layer scal h
    ++ seg_rpsmf h ++ seg_trpi h ++ seg_bci h ++ bits_of 5 (p_quant h) ++ seg_pb h ++ enc_pei (p_extra h).
Proof.
  unfold enc_plus. rewrite <- (enc_hi (p_split h) (p_doccam h) (p_freeze h) 7) by lia.
  unfold seg_cpfmt, seg_cpcfc, seg_etr, seg_rpsmf, seg_trpi, seg_bci, cpfmt_list, opp_list, opp_flags, seg_pb.
  destruct (p_fmt h =? 6); destruct (p_pcf h); destruct (p_rps h); rewrite <- ?app_assoc; cbn [app]; reflexivity.
Qed.

Lemma cpm_seg h tail p0 : (match p_cpm h with None => True | Some p => 0 <= p < 4 end) ->
  exists p1, decode_cpm_and_psbi (mkReader (seg_cpm h ++ tail) p0) = Ok (p_cpm h, mkReader tail p1).
Proof.
  intros Hc. unfold decode_cpm_and_psbi, seg_cpm. destruct (p_cpm h) as [p|]; cbn [app]; rewrite read_bit; cbn [bind negb Z.eqb].
  - rdn. eauto.
  - eauto.
Qed.

Lemma cpfmt_seg h fmt0 tail p0 :
  1 <= p_par h < 16 -> 0 <= p_pwi h < 512 -> 0 <= p_phi h < 512 -> 1 <= p_eparw h < 256 -> 1 <= p_eparh h < 256 ->
  exists p1,
   (if p_fmt h =? 6 then let* (f, r) := decode_cpfmt (mkReader (seg_cpfmt h ++ tail) p0) in Ok (Some f, r)
    else Ok (fmt0, mkReader (seg_cpfmt h ++ tail) p0))
   = Ok ((if p_fmt h =? 6 then Some (Extended (plus_par (p_par h) (p_eparw h) (p_eparh h)) ((p_pwi h + 1) * 4) (p_phi h * 4)) else fmt0),
         mkReader tail p1).
Proof.
  intros Hp Hw Hh Hew Heh. unfold seg_cpfmt. destruct (p_fmt h =? 6); [|cbn [app]; eauto].
  unfold decode_cpfmt. rewrite <- app_assoc.
  rewrite (read_bits_list 32 23 (cpfmt_list h)) by (first [reflexivity | lia]). cbn [bind].
  destruct (cpfmt_facts h ltac:(lia) Hw Hh) as (C1 & C2 & C3 & C4). cbv zeta in C1, C2, C3, C4. cbv zeta.
  rewrite C1, C2, C3, C4. unfold plus_par.
  destruct (p_par h =? 15) eqn:E15.
  - apply Z.eqb_eq in E15. rewrite E15. cbn [Z.eqb Pos.eqb]. unfold read_u8. rewrite <- app_assoc. rdn. rdn.
    destruct (p_eparw h =? 0) eqn:Ea; [lia|]. destruct (p_eparh h =? 0) eqn:Eb; [lia|]. cbn [orb bind]. eauto.
  - destruct (p_par h =? 0) eqn:E0; [lia|]. cbn [app].
    destruct (p_par h =? 1); [cbn [bind]; eauto|]. destruct (p_par h =? 2); [cbn [bind]; eauto|].
    destruct (p_par h =? 3); [cbn [bind]; eauto|]. destruct (p_par h =? 4); [cbn [bind]; eauto|].
    destruct (p_par h =? 5); [cbn [bind]; eauto|]. cbn [bind]. eauto.
Qed.

Lemma clock_seg h tail p0 : 0 <= p_cpcfc h < 256 ->
  exists p1,
   (if p_pcf h then let* (c, r) := read_bits 8 8 (mkReader (seg_cpcfc h ++ tail) p0) in Ok (Some c, r)
    else Ok (None, mkReader (seg_cpcfc h ++ tail) p0))
   = Ok ((if p_pcf h then Some (p_cpcfc h) else None), mkReader tail p1).
Proof.
  intros Hc. unfold seg_cpcfc. destruct (p_pcf h); [|cbn [app]; eauto]. rdn. eauto.
Qed.

Lemma etr_seg h low tail p0 : 0 <= p_etr h < 4 -> 0 <= low < 256 ->
  exists p1,
   (match (if p_pcf h then Some (p_cpcfc h) else None) with
    | Some _ => let* (hi, r) := read_bits 16 2 (mkReader (seg_etr h ++ tail) p0) in Ok (Z.lor (Z.shiftl hi 8) low, r)
    | None => Ok (low, mkReader (seg_etr h ++ tail) p0)
    end)
   = Ok ((if p_pcf h then p_etr h * 256 + low else low), mkReader tail p1).
Proof.
  intros He Hl. unfold seg_etr. destruct (p_pcf h); [|cbn [app]; eauto]. rdn. rewrite lor_shift8 by lia. eauto.
Qed.

Lemma uui_seg h tail p0 :
  exists p1,
   (if p_umv h then let* (m, r) := decode_uui (mkReader (seg_uui h ++ tail) p0) in Ok (Some m, r)
    else Ok (None, mkReader (seg_uui h ++ tail) p0))
   = Ok ((if p_umv h then Some (if p_uui_extended h then MvExtended else MvUnlimited) else None), mkReader tail p1).
Proof.
  unfold seg_uui. destruct (p_umv h); [|cbn [app]; eauto]. unfold decode_uui.
  destruct (p_uui_extended h); cbn [app]; rewrite read_bit; cbn [bind Z.eqb Pos.eqb]; [eauto|].
  rewrite read_bit. cbn [bind Z.eqb Pos.eqb]. eauto.
Qed.

Lemma sss_seg h tail p0 : 0 <= p_sss h < 4 ->
  exists p1,
   (if p_ss h then let* (s, r) := decode_sss (mkReader (seg_sss h ++ tail) p0) in Ok (Some s, r)
    else Ok (None, mkReader (seg_sss h ++ tail) p0))
   = Ok ((if p_ss h then Some (flag_if (Z.testbit (p_sss h) 1) 1 + flag_if (Z.testbit (p_sss h) 0) 2) else None), mkReader tail p1).
Proof.
  intros Hs. unfold seg_sss. destruct (p_ss h); [|cbn [app]; eauto]. unfold decode_sss. rdn. unfold tb. eauto.
Qed.

Lemma layer_seg scal h fol tail p0 : f_ref_layer fol = scal -> 0 <= p_elnum h < 16 -> 0 <= p_rlnum h < 16 ->
  exists p1,
   (if scal then let* (l, r) := decode_elnum_rlnum fol (mkReader (seg_layer scal h ++ tail) p0) in Ok (Some l, r)
    else Ok (None, mkReader (seg_layer scal h ++ tail) p0))
   = Ok ((if scal then Some (p_elnum h, Some (p_rlnum h)) else None), mkReader tail p1).
Proof.
  intros Hf He Hr. unfold seg_layer. destruct scal; [|cbn [app]; eauto]. unfold decode_elnum_rlnum. rewrite Hf.
  rewrite <- app_assoc. rdn. rdn. eauto.
Qed.

Lemma rpsmf_seg h tail p0 : 0 <= p_rpsmf h < 8 ->
  exists p1,
   (if p_rps h then let* (m, r) := decode_rpsmf (mkReader (seg_rpsmf h ++ tail) p0) in Ok (Some m, r)
    else Ok (None, mkReader (seg_rpsmf h ++ tail) p0))
   = Ok ((if p_rps h then Some (flag_if (negb (Z.testbit (p_rpsmf h) 2)) 1 + flag_if (Z.testbit (p_rpsmf h) 1) 2
                               + flag_if (Z.testbit (p_rpsmf h) 0) 4) else None), mkReader tail p1).
Proof.
  intros Hs. unfold seg_rpsmf. destruct (p_rps h); [|cbn [app]; eauto]. unfold decode_rpsmf. rdn. unfold tb. eauto.
Qed.

Lemma trpi_seg h tail p0 : (match p_trp h with None => True | Some t => 0 <= t < 1024 end) ->
  exists p1,
   (if p_rps h then decode_trpi (mkReader (seg_trpi h ++ tail) p0) else Ok (None, mkReader (seg_trpi h ++ tail) p0))
   = Ok ((if p_rps h then p_trp h else None), mkReader tail p1).
Proof.
  intros Ht. unfold seg_trpi. destruct (p_rps h); [|cbn [app]; eauto]. unfold decode_trpi.
  destruct (p_trp h) as [t|]; cbn [app]; rewrite read_bit; cbn [bind Z.eqb Pos.eqb]; [|eauto]. rdn. eauto.
Qed.

Lemma bci_seg h tail p0 :
  exists p1,
   (if p_rps h then let* (_, r) := decode_bcm (mkReader (seg_bci h ++ tail) p0) in Ok r else Ok (mkReader (seg_bci h ++ tail) p0))
   = Ok (mkReader tail p1).
Proof.
  unfold seg_bci. destruct (p_rps h); [|cbn [app]; eauto]. unfold decode_bcm. cbn [app].
  rewrite read_bit. cbn [bind Z.eqb Pos.eqb]. rewrite read_bit. cbn [bind Z.eqb Pos.eqb]. eauto.
Qed.

Lemma pb_seg h tail p0 : 0 <= p_type h < 8 -> 0 <= p_trb h < (if p_pcf h then 32 else 8) -> 0 <= p_dbquant h < 4 ->
  exists p1,
   (match plus_type (p_type h) with
    | PbFrame | ImprovedPbFrame =>
        let* (trb, r) := read_bits 8 (match (if p_pcf h then Some (p_cpcfc h) else None) with Some _ => 5 | None => 3 end)
                                   (mkReader (seg_pb h ++ tail) p0) in
        let* (dbq, r) := read_bits 8 2 r in
        Ok (Some trb, Some (5 + dbq), r)
    | _ => Ok (None, None, mkReader (seg_pb h ++ tail) p0)
    end)
   = Ok ((if p_type h =? 2 then Some (p_trb h) else None), (if p_type h =? 2 then Some (5 + p_dbquant h) else None), mkReader tail p1).
Proof.
  intros Ht Hb Hd. unfold seg_pb, plus_type.
  destruct (small_cases8 (p_type h) Ht) as [-> | [-> | [-> | [-> | [-> | [-> | [-> | ->]]]]]]]; cbn [Z.eqb Pos.eqb app]; eauto.
  rewrite <- app_assoc. destruct (p_pcf h); rdn; rdn; eauto.
Qed.

Lemma plus_format_eq h (x : source_format) : 0 <= p_fmt h < 8 ->
  (if p_fmt h =? 6 then Some x
   else (if p_fmt h =? 0 then Some SfReserved else if p_fmt h =? 1 then Some SubQcif else if p_fmt h =? 2 then Some QuarterCif
         else if p_fmt h =? 3 then Some FullCif else if p_fmt h =? 4 then Some FourCif else if p_fmt h =? 5 then Some SixteenCif
         else if p_fmt h =? 6 then None else Some SfReserved))
  = (if p_fmt h =? 6 then Some x
     else if p_fmt h =? 1 then Some SubQcif else if p_fmt h =? 2 then Some QuarterCif else if p_fmt h =? 3 then Some FullCif
     else if p_fmt h =? 4 then Some FourCif else if p_fmt h =? 5 then Some SixteenCif else Some SfReserved).
Proof.
  intros Hf. destruct (small_cases8 (p_fmt h) Hf) as [-> | [-> | [-> | [-> | [-> | [-> | [-> | ->]]]]]]]; reflexivity.
Qed.

Ltac seg L := let p := fresh "p" in let E := fresh "E" in
  match goal with |- context [mkReader (_ ++ ?tail) ?p0] => destruct (L tail p0) as [p E] end; [..|rewrite E; clear E; cbn [bind]].

Theorem plus_roundtrip h prev scal rest pos :
  wf_plus h -> p_type h = 0 \/ prev_compatible prev (plus_format h) ->
  exists pos', decode_picture (mkOpts false scal) prev (mkReader (enc_plus scal h ++ rest) pos)
               = Ok (Some (picture_of_plus scal h), mkReader rest pos').
Proof.
  intros (Htr & Hfmt & Hty & Hcpm & Hpar & Hpwi & Hphi & Hew & Heh & Hcp & Hetr & Hsss & Hel & Hrl & Hrm & Htrp & Hq & Htrb & Hdbq & He) Hprev.
  unfold decode_picture. rewrite enc_plus_eq. rewrite <- !app_assoc.
  rewrite start_code_here. cbn [bind]. rewrite skip_start_code. cbn [bind sorenson].
  rdn. change (negb (0 =? 0)) with false. cbn iota.
  unfold read_u8. rdn.
  (* PTYPE with source format 111: PLUSPTYPE follows *)
  unfold decode_ptype, read_u8.
  destruct (hi_facts (p_split h) (p_doccam h) (p_freeze h) 7 ltac:(lia)) as (F1 & F2 & F3 & F4 & F5 & F6).
  rdn. rewrite F1. change (negb (128 =? 128)) with false. cbn iota. rewrite F5.
  change (7 =? 0) with false. change (7 =? 7) with true. cbn iota. cbn [bind]. rewrite F2, F3, F4.
  (* PLUSPTYPE: UFEP, OPPTYPE, MPPTYPE *)
  unfold decode_plusptype. rdn.
  change (negb ((1 =? 0) || (1 =? 1))) with false. change (1 =? 1) with true. cbn iota.
  rewrite (read_bits_list 32 18 (opp_list h)) by (first [reflexivity | lia]). cbn [bind].
  destruct (opp_facts h Hfmt) as (O1 & O2 & O14 & O13 & O12 & O11 & O10 & O9 & O8 & O7 & O6 & O5 & O4).
  cbv zeta in O1, O2, O14, O13, O12, O11, O10, O9, O8, O7, O6, O5, O4.
  rewrite O1. change (negb (8 =? 8)) with false. cbn iota. cbv zeta.
  rewrite O2, O14, O13, O12, O11, O10, O9, O8, O7, O6, O5, O4. cbn [bind scalability].
  rewrite (read_bits_list 16 9 (mpp_list h)) by (first [reflexivity | lia]). cbn [bind].
  destruct (mpp_facts h Hty) as (M1 & M2 & M5 & M4 & M3). cbv zeta in M1, M2, M5, M4, M3.
  rewrite M1. change (negb (1 =? 1)) with false. cbn iota. rewrite M2, M5, M4, M3. cbn [bind].
  (* CPM / PSBI *)
  seg (cpm_seg h); [exact Hcpm|].
  cbn [f_custom_format f_custom_clock f_mv_range f_slice_submode f_rps_mode f_ref_layer].
  (* CPFMT / EPAR *)
  seg (cpfmt_seg h (if p_fmt h =? 0 then Some SfReserved else if p_fmt h =? 1 then Some SubQcif else if p_fmt h =? 2 then Some QuarterCif
         else if p_fmt h =? 3 then Some FullCif else if p_fmt h =? 4 then Some FourCif else if p_fmt h =? 5 then Some SixteenCif
         else if p_fmt h =? 6 then None else Some SfReserved)); try assumption.
  rewrite (plus_format_eq h _ Hfmt). fold (plus_format h).
  (* CPCFC / ETR *)
  seg (clock_seg h); [exact Hcp|].
  seg (etr_seg h (p_tr h)); [exact Hetr|exact Htr|].
  (* UUI, SSS, ELNUM/RLNUM, RPSMF *)
  seg (uui_seg h). seg (sss_seg h); [exact Hsss|].
  seg (layer_seg scal h (mkFollowers (p_fmt h =? 6) (p_pcf h) (p_umv h) (p_ss h) scal (p_rps h))); [reflexivity|exact Hel|exact Hrl|].
  seg (rpsmf_seg h); [exact Hrm|].
  (* TRPI / TRP, BCI *)
  fold (plus_options h). destruct (plus_options_rps h) as [R1 R2]. rewrite R1, R2.
  seg (trpi_seg h); [exact Htrp|]. seg (bci_seg h).
  (* RPRP is needed only if the previous header transmitted a different format *)
  match goal with |- context [if false || ?X then Err EUnimplemented else _] =>
    replace X with false by (symmetry; destruct Hprev as [Hi|Hp]; [rewrite Hi; reflexivity|exact (rprp_not_needed _ _ _ Hp)]) end.
  cbn [orb bind].
  rdn.
  (* TRB / DBQUANT *)
  fold (plus_type (p_type h)).
  seg (pb_seg h); [exact Hty|exact Htrb|exact Hdbq|].
  match goal with |- context [mkReader (_ ++ rest) ?p0] =>
    destruct (decode_pei_enc (p_extra h) (S (length (enc_pei (p_extra h) ++ rest))) [] rest p0 He) as [pz E2] end.
  { rewrite app_length. clear. induction (p_extra h); cbn; lia. }
  cbn [rbits]. rewrite E2. cbn [bind app]. eexists. reflexivity.
Qed.


(* ================= UFEP = 000: inheritance of the previous header's optional modes ================= *)
Definition mpp0_list (h : plus0_header) : list bool := bits_of 3 (q_type h) ++ [false; q_rru h; q_rtype h; false; false; true].
Lemma mpp0_facts h : 0 <= q_type h < 8 ->
  let mpp := val_of_bits (mpp0_list h) in
  Z.land mpp 7 = 1 /\ Z.shiftr (Z.land mpp 448) 6 = q_type h /\
  tb mpp 5 = false /\ tb mpp 4 = q_rru h /\ tb mpp 3 = q_rtype h.
Proof.
  intros Hf.
  exact (mpp_facts (mkPlus 0 false false false 0 false false false false false false false false false false false
                           (q_type h) (q_rru h) (q_rtype h) None 0 0 0 0 0 0 0 false 0 0 0 0 None 0 0 0 []) Hf).
Qed.

Definition inherited (prev : option picture) : Z :=
  Z.land (match prev with Some p => options p | None => 0 end) opptype_options_parser.

Lemma inherited_bits po s d f ru rt : let inh := Z.land po opptype_options_parser in
  let opts := Z.lor (flag_if s USE_SPLIT_SCREEN + flag_if d USE_DOCUMENT_CAMERA + flag_if f RELEASE_FULL_PICTURE_FREEZE)
                (Z.lor inh (flag_if false REFERENCE_PICTURE_RESAMPLING + flag_if ru REDUCED_RESOLUTION_UPDATE + flag_if rt ROUNDING_TYPE_ONE)) in
  has opts REFERENCE_PICTURE_SELECTION = Z.testbit inh 9 /\ has opts REFERENCE_PICTURE_RESAMPLING = false.
Proof.
  cbv zeta.
  assert (H9 : forall x, has x REFERENCE_PICTURE_SELECTION = Z.testbit x 9) by (intros; apply (has_pow2 _ 9); lia).
  assert (H13 : forall x, has x REFERENCE_PICTURE_RESAMPLING = Z.testbit x 13) by (intros; apply (has_pow2 _ 13); lia).
  rewrite H9, H13, !Z.lor_spec.
  destruct (ptype_flags_bits s d f) as [A1 A2]. destruct (mpp_flags_bits ru rt) as [C1 C2]. cbv zeta in *.
  rewrite A1, A2, C1, C2. rewrite (Z.land_spec po opptype_options_parser 13).
  change (Z.testbit opptype_options_parser 13) with false. rewrite andb_false_r. cbn [orb]. split; [apply orb_false_r|reflexivity].
Qed.

Definition seg0_cpm (h : plus0_header) : list bool := match q_cpm h with None => [false] | Some p => true :: bits_of 2 p end.
Definition seg0_layer (scal : bool) (h : plus0_header) : list bool := if scal then bits_of 4 (q_elnum h) else [].
Definition seg0_trpi (rps : bool) (h : plus0_header) : list bool :=
  if rps then (match q_trp h with None => [false] | Some t => true :: bits_of 10 t end) else [].
Definition seg0_bci (rps : bool) : list bool := if rps then [false; true] else [].
Definition seg0_pb (h : plus0_header) : list bool := if q_type h =? 2 then bits_of 3 (q_trb h) ++ bits_of 2 (q_dbquant h) else [].

Lemma enc_plus0_eq scal rps h :
  enc_plus0 scal rps h = start_code ++ bits_of 5 0 ++ bits_of 8 (q_tr h)
    ++ bits_of 8 (ptype_hi (q_split h) (q_doccam h) (q_freeze h) 7) ++ bits_of 3 0 ++ mpp0_list h
    ++ seg0_cpm h ++ seg0_layer scal h ++ seg0_trpi rps h ++ seg0_bci rps ++ bits_of 5 (q_quant h) ++ seg0_pb h ++ enc_pei (q_extra h).
Proof.
  unfold enc_plus0. rewrite <- (enc_hi (q_split h) (q_doccam h) (q_freeze h) 7) by lia.
  unfold seg0_trpi, seg0_bci, mpp0_list, seg0_cpm, seg0_layer, seg0_pb.
  destruct rps; rewrite <- ?app_assoc; cbn [app]; reflexivity.
Qed.

Lemma cpm0_seg h tail p0 : (match q_cpm h with None => True | Some p => 0 <= p < 4 end) ->
  exists p1, decode_cpm_and_psbi (mkReader (seg0_cpm h ++ tail) p0) = Ok (q_cpm h, mkReader tail p1).
Proof.
  intros Hc. unfold decode_cpm_and_psbi, seg0_cpm. destruct (q_cpm h) as [p|]; cbn [app]; rewrite read_bit; cbn [bind negb Z.eqb].
  - rdn. eauto.
  - eauto.
Qed.
Lemma layer0_seg (scal : bool) h tail p0 : 0 <= q_elnum h < 16 ->
  exists p1,
   (if scal then let* (l, r) := decode_elnum_rlnum no_followers (mkReader (seg0_layer scal h ++ tail) p0) in Ok (Some l, r)
    else Ok (None, mkReader (seg0_layer scal h ++ tail) p0))
   = Ok ((if scal then Some (q_elnum h, None) else None), mkReader tail p1).
Proof.
  intros He. unfold seg0_layer. destruct scal; [|cbn [app]; eauto]. unfold decode_elnum_rlnum. cbn [f_ref_layer no_followers]. rdn. eauto.
Qed.
Lemma trpi0_seg (rps : bool) h tail p0 : (match q_trp h with None => True | Some t => 0 <= t < 1024 end) ->
  exists p1,
   (if rps then decode_trpi (mkReader (seg0_trpi rps h ++ tail) p0) else Ok (None, mkReader (seg0_trpi rps h ++ tail) p0))
   = Ok ((if rps then q_trp h else None), mkReader tail p1).
Proof.
  intros Ht. unfold seg0_trpi. destruct rps; [|cbn [app]; eauto]. unfold decode_trpi.
  destruct (q_trp h) as [t|]; cbn [app]; rewrite read_bit; cbn [bind Z.eqb Pos.eqb]; [|eauto]. rdn. eauto.
Qed.
Lemma bci0_seg (rps : bool) tail p0 :
  exists p1,
   (if rps then let* (_, r) := decode_bcm (mkReader (seg0_bci rps ++ tail) p0) in Ok r else Ok (mkReader (seg0_bci rps ++ tail) p0))
   = Ok (mkReader tail p1).
Proof.
  unfold seg0_bci. destruct rps; [|cbn [app]; eauto]. unfold decode_bcm. cbn [app].
  rewrite read_bit. cbn [bind Z.eqb Pos.eqb]. rewrite read_bit. cbn [bind Z.eqb Pos.eqb]. eauto.
Qed.
Lemma pb0_seg h tail p0 : 0 <= q_type h < 8 -> 0 <= q_trb h < 8 -> 0 <= q_dbquant h < 4 ->
  exists p1,
   (match plus_type (q_type h) with
    | PbFrame | ImprovedPbFrame =>
        let* (trb, r) := read_bits 8 3 (mkReader (seg0_pb h ++ tail) p0) in
        let* (dbq, r) := read_bits 8 2 r in
        Ok (Some trb, Some (5 + dbq), r)
    | _ => Ok (None, None, mkReader (seg0_pb h ++ tail) p0)
    end)
   = Ok ((if q_type h =? 2 then Some (q_trb h) else None), (if q_type h =? 2 then Some (5 + q_dbquant h) else None), mkReader tail p1).
Proof.
  intros Ht Hb Hd. unfold seg0_pb, plus_type.
  destruct (small_cases8 (q_type h) Ht) as [-> | [-> | [-> | [-> | [-> | [-> | [-> | ->]]]]]]]; cbn [Z.eqb Pos.eqb app]; eauto.
  rewrite <- app_assoc. rdn. rdn. eauto.
Qed.

Theorem plus0_roundtrip h prev scal rest pos :
  wf_plus0 h ->
  exists pos', decode_picture (mkOpts false scal) prev (mkReader (enc_plus0 scal (Z.testbit (inherited prev) 9) h ++ rest) pos)
               = Ok (Some (picture_of_plus0 scal (inherited prev) h), mkReader rest pos').
Proof.
  intros (Htr & Hty & Hcpm & Hel & Htrp & Hq & Htrb & Hdbq & He).
  unfold decode_picture. rewrite enc_plus0_eq. rewrite <- !app_assoc.
  rewrite start_code_here. cbn [bind]. rewrite skip_start_code. cbn [bind sorenson].
  rdn. change (negb (0 =? 0)) with false. cbn iota.
  unfold read_u8. rdn.
  unfold decode_ptype, read_u8.
  destruct (hi_facts (q_split h) (q_doccam h) (q_freeze h) 7 ltac:(lia)) as (F1 & F2 & F3 & F4 & F5 & F6).
  rdn. rewrite F1. change (negb (128 =? 128)) with false. cbn iota. rewrite F5.
  change (7 =? 0) with false. change (7 =? 7) with true. cbn iota. cbn [bind]. rewrite F2, F3, F4.
  (* PLUSPTYPE: UFEP = 000, MPPTYPE *)
  unfold decode_plusptype. rdn.
  change (negb ((0 =? 0) || (0 =? 1))) with false. change (0 =? 1) with false. cbn iota. cbn [bind].
  rewrite (read_bits_list 16 9 (mpp0_list h)) by (first [reflexivity | lia]). cbn [bind].
  destruct (mpp0_facts h Hty) as (M1 & M2 & M5 & M4 & M3). cbv zeta in M1, M2, M5, M4, M3.
  rewrite M1. change (negb (1 =? 1)) with false. cbn iota. rewrite M2, M5, M4, M3. cbn [bind].
  match goal with |- context [mkReader (_ ++ ?tail) ?p0] => destruct (cpm0_seg h tail p0 Hcpm) as [p E] end. rewrite E; clear E; cbn [bind].
  cbn [f_custom_format f_custom_clock f_mv_range f_slice_submode f_rps_mode f_ref_layer no_followers bind scalability].
  match goal with |- context [mkReader (_ ++ ?tail) ?p0] => destruct (layer0_seg scal h tail p0 Hel) as [p1 E] end. rewrite E; clear E; cbn [bind].
  fold (inherited prev).
  destruct (inherited_bits (match prev with Some p => options p | None => 0 end) (q_split h) (q_doccam h) (q_freeze h) (q_rru h) (q_rtype h)) as [R1 R2].
  cbv zeta in R1, R2. fold (inherited prev) in R1, R2. rewrite R1, R2.
  match goal with |- context [mkReader (_ ++ ?tail) ?p0] => destruct (trpi0_seg (Z.testbit (inherited prev) 9) h tail p0 Htrp) as [p2 E] end.
  rewrite E; clear E; cbn [bind].
  match goal with |- context [mkReader (_ ++ ?tail) ?p0] => destruct (bci0_seg (Z.testbit (inherited prev) 9) tail p0) as [p3 E] end.
  rewrite E; clear E; cbn [bind].
  (* no format is transmitted: no resampling can be signalled *)
  replace (match prev with Some p4 => match format p4 with Some _ => false | None => false end | None => false end) with false
    by (destruct prev as [p4|]; [destruct (format p4)|]; reflexivity).
  rewrite Bool.andb_false_r. cbn [orb bind].
  rdn.
  fold (plus_type (q_type h)).
  match goal with |- context [mkReader (_ ++ ?tail) ?p0] => destruct (pb0_seg h tail p0 Hty Htrb Hdbq) as [p5 E] end. rewrite E; clear E; cbn [bind].
  match goal with |- context [mkReader (_ ++ rest) ?p0] =>
    destruct (decode_pei_enc (q_extra h) (S (length (enc_pei (q_extra h) ++ rest))) [] rest p0 He) as [pz E2] end.
  { rewrite app_length. clear. induction (q_extra h); cbn; lia. }
  cbn [rbits]. rewrite E2. cbn [bind app]. eexists. reflexivity.
Qed.
