(* C10: facts about the IDCT model established by kernel computation over finite domains. *)
From H263V Require Import base.Prelude model.Types model.Tables model.F32 model.Recon.

(* DC-only blocks: the value added to every sample is dc/8 rounded half away from zero, clipped to -256..255 *)
Definition dc_spec (dc : Z) : Z := clamp (-256) 255 (Z.sgn dc * ((Z.abs dc + 4) / 8)).

Definition dc_range : list Z := map (fun n => Z.of_nat n - 2048) (seq 0 4096).

Lemma dc_all : forallb (fun dc => idct_value_at (idct_values (DctDc dc)) 0 0 =? dc_spec dc) dc_range = true.
Proof. vm_compute. reflexivity. Qed.

Lemma dc_exact dc xo yo : -2048 <= dc <= 2047 -> idct_value_at (idct_values (DctDc dc)) xo yo = dc_spec dc.
Proof.
  intros H. pose proof dc_all as A. rewrite forallb_forall in A.
  specialize (A dc). assert (Hin : In dc dc_range).
  { unfold dc_range. apply in_map_iff. exists (Z.to_nat (dc + 2048)). split; [lia|apply in_seq; lia]. }
  apply A in Hin. apply Z.eqb_eq in Hin. cbn [idct_values idct_value_at] in *. exact Hin.
Qed.

(* ... which is within 1 of the reference's round-to-nearest (floor (dc/8 + 1/2)) *)
Lemma dc_spec_close dc : -2048 <= dc <= 2047 -> Z.abs (dc_spec dc - clamp (-256) 255 ((dc + 4) / 8)) <= 1.
Proof.
  intros H. unfold dc_spec, clamp.
  Ltac Zify.zify_post_hook ::= Z.div_mod_to_equations.
  destruct (Z.lt_trichotomy dc 0) as [Hn|[Hz|Hp]].
  - replace (Z.sgn dc) with (-1) by lia. replace (Z.abs dc) with (- dc) by lia. lia.
  - subst dc. cbn. lia.
  - replace (Z.sgn dc) with 1 by lia. replace (Z.abs dc) with dc by lia. lia.
Qed.

(* an all-zero block gives all zeros *)
Lemma zero_block : idct_all_values zero_mat = repeat 0 64%nat.
Proof. vm_compute. reflexivity. Qed.
