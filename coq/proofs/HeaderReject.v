(* C06: headers whose fixed marker bits are wrong are rejected - at the function that reads the field. *)
From H263V Require Import base.Prelude model.Types model.Tables model.Reader model.Header.

Lemma ptype_marker_rejected r hi r' : read_u8 r = Ok (hi, r') -> Z.land hi 192 <> 128 -> decode_ptype r = Err EInvalidPType.
Proof.
  intros H Hm. unfold decode_ptype. rewrite H. cbn [bind]. destruct (Z.land hi 192 =? 128) eqn:E; [apply Z.eqb_eq in E; contradiction|reflexivity].
Qed.
Lemma ptype_format_zero_rejected r hi r' : read_u8 r = Ok (hi, r') -> Z.land hi 7 = 0 -> decode_ptype r = Err EInvalidPType.
Proof.
  intros H Hm. unfold decode_ptype. rewrite H. cbn [bind]. destruct (negb (Z.land hi 192 =? 128)); [reflexivity|]. cbv zeta. rewrite Hm. reflexivity.
Qed.

Lemma ufep_reserved_rejected o po r u r' : read_bits 8 3 r = Ok (u, r') -> u <> 0 -> u <> 1 -> decode_plusptype o po r = Err EInvalidPlusPType.
Proof.
  intros H H0 H1. unfold decode_plusptype. rewrite H. cbn [bind].
  destruct (u =? 0) eqn:E0; [apply Z.eqb_eq in E0; contradiction|]. destruct (u =? 1) eqn:E1; [apply Z.eqb_eq in E1; contradiction|]. reflexivity.
Qed.
Lemma opptype_marker_rejected o po r r' opp r'' : read_bits 8 3 r = Ok (1, r') -> read_bits 32 18 r' = Ok (opp, r'') -> Z.land opp 15 <> 8 ->
  decode_plusptype o po r = Err EInvalidPlusPType.
Proof.
  intros H H2 Hm. unfold decode_plusptype. rewrite H. cbn [bind]. change (negb ((1 =? 0) || (1 =? 1))) with false. change (1 =? 1) with true. cbn iota.
  rewrite H2. cbn [bind]. destruct (Z.land opp 15 =? 8) eqn:E; [apply Z.eqb_eq in E; contradiction|]. reflexivity.
Qed.
Lemma mpptype_marker_rejected o po r r' mpp r'' : read_bits 8 3 r = Ok (0, r') -> read_bits 16 9 r' = Ok (mpp, r'') -> Z.land mpp 7 <> 1 ->
  decode_plusptype o po r = Err EInvalidPlusPType.
Proof.
  intros H H2 Hm. unfold decode_plusptype. rewrite H. cbn [bind]. change (negb ((0 =? 0) || (0 =? 1))) with false. change (0 =? 1) with false. cbn iota.
  cbn [bind]. rewrite H2. cbn [bind]. destruct (Z.land mpp 7 =? 1) eqn:E; [apply Z.eqb_eq in E; contradiction|]. reflexivity.
Qed.

Lemma cpfmt_marker_rejected r c r' : read_bits 32 23 r = Ok (c, r') -> Z.land c 512 = 0 -> decode_cpfmt r = Err EPictureFormatInvalid.
Proof. intros H Hm. unfold decode_cpfmt. rewrite H. cbn [bind]. rewrite Hm. reflexivity. Qed.
Lemma cpfmt_par_zero_rejected r c r' : read_bits 32 23 r = Ok (c, r') -> Z.shiftr (Z.land c 7864320) 19 = 0 -> decode_cpfmt r = Err EPictureFormatInvalid.
Proof.
  intros H Hm. unfold decode_cpfmt. rewrite H. cbn [bind]. destruct (Z.land c 512 =? 0); [reflexivity|]. cbv zeta. rewrite Hm. reflexivity.
Qed.
Lemma bcm_rejected_or_unimplemented r : match decode_bcm r with Ok _ | Err _ => True | _ => False end.
Proof.
  unfold decode_bcm, read_bits, peek_bits, skip_bits. destruct (8 <? 1) eqn:E; [discriminate|].
  destruct (take_bits (Z.to_nat 1) 0 (rbits r)) as [[v l]|]; cbn [bind]; [|exact I].
  destruct (v =? 1); [exact I|]. cbn [rbits]. destruct (take_bits (Z.to_nat 1) 0 l) as [[v2 l2]|]; cbn [bind]; [|exact I].
  destruct (v2 =? 1); exact I.
Qed.
