(* C07: the fixed-point pixel kernel against the BT.601 formula. No enumeration:
   everything is linear integer arithmetic over symbolic bytes. *)
From H263V Require Import base.Prelude model.Yuv.
Require Import ZifyBool.
Ltac Zify.zify_post_hook ::= Z.div_mod_to_equations.

Definition byte (x : Z) : Prop := 0 <= x <= 255.

(* the source's constants are the nearest 16.16 values of the BT.601 coefficients *)
Lemma consts_are_fix16 :
  k_gray = fix16 cy_num cy_den /\ k_cr2r = fix16 crv_num crv_den /\ k_cb2b = fix16 cbu_num cbu_den /\
  k_cr2g = - fix16 cgv_num cgv_den /\ k_cb2g = - fix16 cgu_num cgu_den /\
  k_half = 32768 /\ k_shift = 16 /\ k_yoff = 16 /\ k_coff = 128.
Proof. vm_compute. repeat split; reflexivity. Qed.

(* nearest: |K * den - num * 2^16| <= den / 2 *)
Lemma consts_nearest :
  2 * Z.abs (k_gray * cy_den - cy_num * 65536) <= cy_den /\
  2 * Z.abs (k_cr2r * crv_den - crv_num * 65536) <= crv_den /\
  2 * Z.abs (k_cb2b * cbu_den - cbu_num * 65536) <= cbu_den /\
  2 * Z.abs (- k_cr2g * cgv_den - cgv_num * 65536) <= cgv_den /\
  2 * Z.abs (- k_cb2g * cgu_den - cgu_num * 65536) <= cgu_den.
Proof. vm_compute. repeat split; discriminate. Qed.

Lemma px_is_spec y cb cr : px y cb cr = spec_px y cb cr.
Proof.
  unfold px, spec_px, spec_channel_r, spec_channel_g, spec_channel_b.
  change (fix16 cy_num cy_den) with 76309. change (fix16 crv_num crv_den) with 104597.
  change (fix16 cbu_num cbu_den) with 132201. change (fix16 cgv_num cgv_den) with 53279.
  change (fix16 cgu_num cgu_den) with 25675.
  unfold k_half, k_shift, k_yoff, k_coff, k_gray, k_cr2r, k_cr2g, k_cb2g, k_cb2b. cbv zeta.
  rewrite !Z.shiftr_div_pow2 by lia. change (2 ^ 16) with 65536.
  unfold clamp.
  repeat match goal with |- (_, _) = (_, _) => apply f_equal2 end; try reflexivity; lia.
Qed.

(* i32 lanes never wrap on byte inputs *)
Lemma px_no_wrap y cb cr : byte y -> byte cb -> byte cr ->
  let gray := (y - k_yoff) * k_gray in
  Z.abs gray < 2 ^ 25 /\ Z.abs ((cr - k_coff) * k_cr2r) < 2 ^ 25 /\ Z.abs ((cb - k_coff) * k_cb2b) < 2 ^ 25 /\
  Z.abs (gray + (cr - k_coff) * k_cr2r + k_half) < 2 ^ 26 /\
  Z.abs (gray + (cr - k_coff) * k_cr2g + (cb - k_coff) * k_cb2g + k_half) < 2 ^ 26 /\
  Z.abs (gray + (cb - k_coff) * k_cb2b + k_half) < 2 ^ 26.
Proof.
  unfold byte, k_yoff, k_gray, k_coff, k_cr2r, k_cb2b, k_cr2g, k_cb2g, k_half. intros. cbv zeta.
  change (2 ^ 25) with 33554432. change (2 ^ 26) with 67108864. lia.
Qed.

(* every channel is a byte and alpha is 255 *)
Lemma px_bytes_ok y cb cr : let '(r, g, b, a) := px y cb cr in byte r /\ byte g /\ byte b /\ a = 255.
Proof. unfold px, byte. cbv zeta. repeat split; lia. Qed.

(* within 1 of the real-valued formula (clamped to 0..255).  Real value of the
   red channel = NR / DR with DR = 219*224*1000; similarly blue, green. *)
Definition DR := 219 * 224 * 1000.
Definition NR (y cr : Z) := 255 * 224 * 1000 * (y - 16) + 255 * 1402 * 219 * (cr - 128).
Definition NB (y cb : Z) := 255 * 224 * 1000 * (y - 16) + 255 * 1772 * 219 * (cb - 128).
Definition DG := 219 * 224 * 1000 * 587.
Definition NG (y cb cr : Z) :=
  255 * 224 * 1000 * 587 * (y - 16) - 255 * 1402 * 299 * 219 * (cr - 128) - 255 * 1772 * 114 * 219 * (cb - 128).

Lemma within_one y cb cr : byte y -> byte cb -> byte cr ->
  let '(r, g, b, _) := px y cb cr in
  Z.abs (DR * r - clamp 0 (255 * DR) (NR y cr)) < DR /\
  Z.abs (DG * g - clamp 0 (255 * DG) (NG y cb cr)) < DG /\
  Z.abs (DR * b - clamp 0 (255 * DR) (NB y cb)) < DR.
Proof.
  unfold byte. intros Hy Hcb Hcr. unfold px. cbv zeta.
  unfold k_half, k_shift, k_yoff, k_coff, k_gray, k_cr2r, k_cr2g, k_cb2g, k_cb2b.
  rewrite !Z.shiftr_div_pow2 by lia. change (2 ^ 16) with 65536.
  unfold DR, DG, NR, NG, NB, clamp.
  repeat split; lia.
Qed.

(* monotonicity of each channel in each component it depends on *)
Definition chan_r y cb cr := let '(r, _, _, _) := px y cb cr in r.
Definition chan_g y cb cr := let '(_, g, _, _) := px y cb cr in g.
Definition chan_b y cb cr := let '(_, _, b, _) := px y cb cr in b.

Lemma monotone y y' cb cb' cr cr' : y <= y' -> cb <= cb' -> cr <= cr' ->
  chan_r y cb cr <= chan_r y' cb cr' /\
  chan_b y cb cr <= chan_b y' cb' cr /\
  chan_g y cb' cr' <= chan_g y' cb cr.
Proof.
  intros Hy Hcb Hcr. unfold chan_r, chan_g, chan_b, px. cbv zeta.
  unfold k_half, k_shift, k_yoff, k_coff, k_gray, k_cr2r, k_cr2g, k_cb2g, k_cb2b.
  rewrite !Z.shiftr_div_pow2 by lia. change (2 ^ 16) with 65536.
  repeat split; lia.
Qed.

Lemma r_ignores_cb y cb cb' cr : chan_r y cb cr = chan_r y cb' cr.
Proof. reflexivity. Qed.
Lemma b_ignores_cr y cb cr cr' : chan_b y cb cr = chan_b y cb cr'.
Proof. reflexivity. Qed.

Example px_white : px 235 128 128 = (255, 255, 255, 255).
Proof. vm_compute. reflexivity. Qed.
Example px_red : px 81 90 240 = (254, 0, 0, 255).
Proof. vm_compute. reflexivity. Qed.
