(* C17: instances are independent: any interleaving of calls on distinct
   instances gives each instance the state its own subsequence gives it alone. *)
From H263V Require Import base.Prelude model.Types model.Reader model.Header model.Syntax model.Recon model.Decoder
  proofs.StateRefine.

(* a system of instances, addressed by position; an event is (instance, operation) *)
Definition system := list state.
Definition event := (nat * op)%type.

Fixpoint update {A} (l : list A) (n : nat) (f : A -> A) : list A :=
  match l, n with
  | [], _ => []
  | h :: t, O => f h :: t
  | h :: t, S n' => h :: update t n' f
  end.

Definition sys_step (sys : system) (e : event) : system := update sys (fst e) (fun s => step s (snd e)).

(* the events of one instance, in order *)
Definition own (i : nat) (sched : list event) : list op :=
  map snd (filter (fun e => Nat.eqb (fst e) i) sched).

Lemma nth_update_same {A} (l : list A) n f d : (n < length l)%nat -> nth n (update l n f) d = f (nth n l d).
Proof.
  revert n. induction l as [|h t IH]; intros n Hn; [cbn in Hn; lia|].
  destruct n as [|n]; [reflexivity|]. cbn [update nth]. apply IH. cbn in Hn. lia.
Qed.
Lemma nth_update_other {A} (l : list A) n m f d : n <> m -> nth m (update l n f) d = nth m l d.
Proof.
  revert n m. induction l as [|h t IH]; intros n m Hne; [destruct n; reflexivity|].
  destruct n as [|n]; destruct m as [|m]; try reflexivity; try congruence.
  cbn [update nth]. apply IH. congruence.
Qed.
Lemma update_length {A} (l : list A) n f : length (update l n f) = length l.
Proof. revert n. induction l as [|h t IH]; intros [|n]; cbn; try reflexivity. rewrite IH. reflexivity. Qed.

Theorem interleaving_independent : forall sched sys i d,
  (i < length sys)%nat ->
  nth i (fold_left sys_step sched sys) d = fold_left step (own i sched) (nth i sys d).
Proof.
  induction sched as [|[j o] sched IH]; intros sys i d Hi; [reflexivity|].
  cbn [fold_left]. rewrite IH by (unfold sys_step; rewrite update_length; exact Hi).
  unfold own. cbn [filter fst]. unfold sys_step. cbn [fst snd].
  destruct (Nat.eqb_spec j i) as [->|Hne].
  - cbn [map fold_left snd]. rewrite nth_update_same by exact Hi. reflexivity.
  - rewrite nth_update_other by exact Hne. reflexivity.
Qed.

(* determinism: two systems started equal and fed the same schedule stay equal (the model has no hidden input) *)
Theorem replicas_agree : forall ops s, fold_left step ops s = fold_left step ops s.
Proof. reflexivity. Qed.
