(* Kernel-level lemmas for the deblocking filter: the code's scalar kernel and
   (repaired) SIMD lane kernel both equal Annex J on every byte pattern and
   strength; ranges of the results; the pre-repair lane kernel is refuted. *)
From H263V Require Import base.Prelude model.Deblock.
Require Import ZifyBool.
Ltac Zify.zify_post_hook ::= Z.to_euclidean_division_equations.

Definition byte (x : Z) : Prop := 0 <= x <= 255.

Lemma sgn_cases x : (x < 0 /\ Z.sgn x = -1) \/ (x = 0 /\ Z.sgn x = 0) \/ (0 < x /\ Z.sgn x = 1).
Proof. lia. Qed.

Lemma ramp_eq x s : up_down_ramp x s = updown_ramp x s.
Proof. unfold up_down_ramp, updown_ramp. f_equal. lia. Qed.

Lemma ramp_lane_eq x s : up_down_ramp_lane x s = updown_ramp x s.
Proof.
  unfold up_down_ramp_lane, updown_ramp, signum_lane.
  destruct (sgn_cases x) as [[H1 H2]|[[H1 H2]|[H1 H2]]]; rewrite H2;
  destruct (x <? 0) eqn:E1; destruct (0 <? x) eqn:E2; try lia; f_equal; lia.
Qed.

Lemma ramp_bound x s : 0 <= s -> Z.abs (updown_ramp x s) <= Z.abs x /\ Z.abs (updown_ramp x s) <= s.
Proof.
  intros Hs. unfold updown_ramp.
  destruct (sgn_cases x) as [[H1 H2]|[[H1 H2]|[H1 H2]]]; rewrite H2; lia.
Qed.

Lemma ramp_sign x s : 0 <= s -> (0 <= x -> 0 <= updown_ramp x s) /\ (x <= 0 -> updown_ramp x s <= 0).
Proof.
  intros Hs. unfold updown_ramp.
  destruct (sgn_cases x) as [[H1 H2]|[[H1 H2]|[H1 H2]]]; rewrite H2; lia.
Qed.

Lemma div_pow2_lane_quot x k : 0 <= k -> div_pow2_lane x k = Z.quot x (2 ^ k).
Proof.
  intros Hk. unfold div_pow2_lane. rewrite Z.shiftr_div_pow2 by lia.
  assert (0 < 2 ^ k) by (apply Z.pow_pos_nonneg; lia).
  destruct (x <? 0) eqn:E.
  - apply Z.ltb_lt in E.
    rewrite <- (Z.opp_involutive x) at 2. rewrite Z.quot_opp_l by lia.
    rewrite Z.quot_div_nonneg by lia.
    generalize dependent (2 ^ k). intros m Hm.
    clear Hk. nia.
  - apply Z.ltb_ge in E. rewrite Z.add_0_r. rewrite Z.quot_div_nonneg; lia.
Qed.

(* d2 is bounded by |(a-d)/4| and has the sign of a-d, so a-d2 and d+d2 stay bytes *)
Lemma annexJ_bytes a b c d s :
  byte a -> byte b -> byte c -> byte d -> 0 <= s ->
  let '(a', b', c', d') := annexJ a b c d s in byte a' /\ byte b' /\ byte c' /\ byte d'.
Proof.
  unfold byte, annexJ, clip255, clamp. intros Ha Hb Hc Hd Hs.
  set (d1 := updown_ramp _ s).
  repeat split; try lia.
Qed.

Theorem process_is_annexJ a b c d s :
  byte a -> byte b -> byte c -> byte d -> 0 <= s ->
  process a b c d s = annexJ a b c d s.
Proof.
  intros Ha Hb Hc Hd Hs.
  pose proof (annexJ_bytes a b c d s Ha Hb Hc Hd Hs) as HB.
  unfold process, annexJ in *. unfold tdiv, clipd1, clip255. rewrite ramp_eq.
  set (d1 := updown_ramp _ s) in *.
  set (lim := Z.abs (Z.quot d1 2)) in *.
  set (d2 := clamp (- lim) lim (Z.quot (a - d) 4)) in *.
  destruct HB as (HA & _ & _ & HD). unfold byte in *.
  unfold wrap_u8. rewrite !Z.mod_small by lia. reflexivity.
Qed.

Theorem process_lane_is_annexJ a b c d s :
  byte a -> byte b -> byte c -> byte d -> 0 <= s ->
  process_lane a b c d s = annexJ a b c d s.
Proof.
  intros Ha Hb Hc Hd Hs.
  pose proof (annexJ_bytes a b c d s Ha Hb Hc Hd Hs) as HB.
  unfold process_lane, annexJ in *. unfold clipd1_lane, clip255.
  rewrite !div_pow2_lane_quot by lia. change (2 ^ 3) with 8. change (2 ^ 2) with 4. change (2 ^ 1) with 2.
  rewrite ramp_lane_eq.
  set (d1 := updown_ramp _ s) in *.
  set (lim := Z.abs (Z.quot d1 2)) in *.
  assert (Hd2 : Z.min (Z.max (Z.quot (a - d) 4) (- lim)) lim = clamp (- lim) lim (Z.quot (a - d) 4)).
  { unfold clamp. lia. }
  rewrite Hd2.
  set (d2 := clamp (- lim) lim (Z.quot (a - d) 4)) in *.
  destruct HB as (HA & HBb & HC & HD). unfold byte, clip255 in *.
  assert (E1 : Z.min (Z.max (b + d1) 0) 255 = clamp 0 255 (b + d1)) by (unfold clamp; lia).
  assert (E2 : Z.min (Z.max (c - d1) 0) 255 = clamp 0 255 (c - d1)) by (unfold clamp; lia).
  rewrite E1, E2.
  unfold wrap_u8. rewrite !Z.mod_small by lia. reflexivity.
Qed.

(* All i16 intermediates of both kernels stay far inside the i16 range, so the
   wrapping lane arithmetic of `wide` and the checked scalar arithmetic agree
   with unbounded integers. *)
Lemma kernel_intermediates_i16 a b c d s :
  byte a -> byte b -> byte c -> byte d -> 0 <= s <= 12 ->
  let x := a - 4 * b + 4 * c - d in
  let d1 := updown_ramp (Z.quot x 8) s in
  -1275 <= x <= 1275 /\ -1020 <= 4 * b <= 1020 /\ -12 <= d1 <= 12 /\
  -267 <= b + d1 <= 267 /\ -267 <= c - d1 <= 267 /\
  0 <= 2 * (Z.abs (Z.quot x 8) - s) + 24 <= 400.
Proof.
  unfold byte. intros Ha Hb Hc Hd Hs. cbv zeta.
  pose proof (ramp_bound (Z.quot (a - 4 * b + 4 * c - d) 8) s ltac:(lia)) as [H1 H2].
  set (d1 := updown_ramp _ s) in *.
  repeat split; try lia.
Qed.

(* The lane kernel as it was before the repair (plain arithmetic shifts, i.e.
   flooring divisions) does not implement Annex J. *)
Theorem process_lane_floor_refuted :
  exists a b c d s, byte a /\ byte b /\ byte c /\ byte d /\ 1 <= s <= 12 /\
    process_lane_floor a b c d s <> annexJ a b c d s.
Proof.
  exists 0, 0, 1, 17, 1. unfold byte. repeat split; try lia.
  vm_compute. discriminate.
Qed.

Example kernel_nontrivial : annexJ 100 100 93 93 4 = (99, 98, 95, 94).
Proof. vm_compute. reflexivity. Qed.

Lemma strength_in_range q : 1 <= q <= 31 -> 1 <= nth (Z.to_nat q) quant_to_strength 0 <= 12.
Proof.
  intros Hq.
  assert (H : forallb (fun q => let v := nth (Z.to_nat q) quant_to_strength 0 in (1 <=? v) && (v <=? 12))
                (map Z.of_nat (seq 1 31)) = true) by (vm_compute; reflexivity).
  rewrite forallb_forall in H. specialize (H q).
  assert (Hin : In q (map Z.of_nat (seq 1 31))).
  { apply in_map_iff. exists (Z.to_nat q). split; [lia|]. apply in_seq. lia. }
  specialize (H Hin). cbv zeta in H. lia.
Qed.
