(* C03, the composition: a predicted (or disposable) picture from bits to samples.  Header parsed, body = the encoding of
   macroblocks given by field values, a reference picture of the same size: the decoder returns planes of the signalled size in
   which every sample is the H.263 prediction from the reference (vector of its 8x8 block; zero for intra macroblocks) plus the
   transform value of its coefficient block, clipped to 0..255. *)
From H263V Require Import base.Prelude spec.SpecRecon model.Types model.Tables model.Reader model.Header model.Syntax model.F32 model.Recon model.Decoder
  spec.SpecHeader spec.SpecTables
  proofs.ReaderLemmas proofs.HeaderLemmas proofs.PlaneShape proofs.MvSpec proofs.GatherSpec proofs.FillLemmas proofs.IdctPlacement
  proofs.VlcTables proofs.BlockRoundTrip proofs.MacroblockRoundTrip proofs.PictureRoundTrip proofs.IntraPicture proofs.GatherPicture.
Require Import ZifyBool ZifyNat.
Ltac Zify.zify_post_hook ::= Z.div_mod_to_equations.

Lemma pure_loop_shape np running mpl levw total : forall fms st st',
  loop_ok fms (zlength (l_types st)) total -> pure_loop np running mpl levw fms st = Ok st' ->
  zlength (l_pvs st) = zlength (l_types st) ->
  zlength (l_types st') = total /\ zlength (l_pvs st') = total /\
  zlength (l_luma st') = zlength (l_luma st) /\ zlength (l_cb st') = zlength (l_cb st) /\ zlength (l_cr st') = zlength (l_cr st).
Proof.
  induction fms as [|f fms IH]; intros st st' Hok H Hpv; cbn [pure_loop loop_ok] in *.
  - inversion H; subst. repeat split; lia.
  - destruct f as [| |m b0 b1 b2 b3 b4 b5].
    + destruct Hok as [_ Hok]. eapply IH; eauto.
    + destruct Hok as [_ Hok]. destruct (is_iframe _); [discriminate|].
      destruct (IH (push st mv4_zero Inter) st') as (R1 & R2 & R3 & R4 & R5); try assumption.
      * cbn [push l_types]. rewrite zlength_snoc. exact Hok.
      * cbn [push l_pvs l_types]. rewrite !zlength_snoc. lia.
      * cbn [push l_luma l_cb l_cr] in *. repeat split; assumption.
    + destruct Hok as [_ Hok]. unfold coded_of in H. bind_inv H as [st1 mvs] Ec.
      destruct (coded_pure_shape _ _ _ _ _ _ _ _ _ _ _ _ _ _ _ _ _ Ec) as (T1 & T2 & T3 & T4 & T5).
      destruct (IH (push st1 mvs (s_type m)) st') as (R1 & R2 & R3 & R4 & R5); try assumption.
      * cbn [push l_types]. rewrite T1, zlength_snoc. exact Hok.
      * cbn [push l_pvs l_types]. rewrite T1, T2, !zlength_snoc. lia.
      * cbn [push l_luma l_cb l_cr] in *. repeat split; try assumption; lia.
Qed.

Lemma combine_zlength {A B} (l : list A) (m : list B) : zlength l = zlength m -> zlength (combine l m) = zlength l.
Proof. unfold zlength. intros H. rewrite combine_length. lia. Qed.

Theorem reconstruct_predicted o last rp running0 r0 hdr fmt w h fms rest pos st' :
  let v1 := sorenson o && (match version hdr with Some 1 => true | _ => false end) in
  let running := (if has_plusptype hdr && has_opptype hdr then options hdr
                  else if has_plusptype hdr then Z.lor (Z.ldiff (options hdr) opptype_options) (Z.land running0 opptype_options)
                  else Z.lor (Z.ldiff (Z.ldiff (options hdr) opptype_options) mpptype_options) (Z.land running0 (Z.lor opptype_options mpptype_options))) in
  let mpl := (w + 15) / 16 in let mbh := (h + 15) / 16 in let levw := mpl * 16 in let levh := mbh * 16 in
  let np := mkDecoded hdr fmt (new_plane w h) (new_plane ((w + 1) / 2) ((h + 1) / 2)) (new_plane ((w + 1) / 2) ((h + 1) / 2)) ((w + 1) / 2) in
  let st0 := mkLoop (mkReader (enc_fulls false v1 fms ++ rest) pos) (quantizer hdr) [] []
                    (repeatZ DctZero (levw * levh / 64)) (repeatZ DctZero (levw * levh / 4 / 64)) (repeatZ DctZero (levw * levh / 4 / 64)) in
  let items := combine (l_types st') (l_pvs st') in
  decode_picture o (match last with Some p => Some (d_header p) | None => None end) r0 = Ok (Some hdr, mkReader (enc_fulls false v1 fms ++ rest) pos) ->
  (picture_type hdr = PFrame \/ picture_type hdr = DisposablePFrame) -> format hdr = Some fmt -> into_width_and_height fmt = Some (w, h) -> 1 <= w -> 1 <= h ->
  simple_picture hdr running ->
  (* the reference picture: same size *)
  into_width_and_height (d_format rp) = Some (w, h) -> plane_ok w h (d_luma rp) ->
  plane_ok ((w + 1) / 2) ((h + 1) / 2) (d_cb rp) -> plane_ok ((w + 1) / 2) ((h + 1) / 2) (d_cr rp) -> d_chroma_w rp = (w + 1) / 2 ->
  Forall (wf_full false v1) fms -> loop_ok fms 0 (mpl * mbh) ->
  pure_loop np running mpl levw fms st0 = Ok st' ->
  exists pic pos',
    reconstruct o last (Some rp) running0 r0 = Ok (pic, mkReader rest pos') /\
    d_header pic = hdr /\ plane_ok w h (d_luma pic) /\ plane_ok ((w + 1) / 2) ((h + 1) / 2) (d_cb pic) /\ plane_ok ((w + 1) / 2) ((h + 1) / 2) (d_cr pic) /\
    (forall x y, 0 <= x < w -> 0 <= y < h ->
       at_ (d_luma pic) x y = add_val (block_of (l_luma st') (mpl * 2) x y) (x mod 8) (y mod 8)
                                (luma_after w h mpl rp items 0 (new_plane w h) x y)) /\
    (forall x y, 0 <= x < (w + 1) / 2 -> 0 <= y < (h + 1) / 2 ->
       at_ (d_cb pic) x y = add_val (block_of (l_cb st') mpl x y) (x mod 8) (y mod 8)
                              (chroma_after w h mpl (d_cb rp) items 0 (new_plane ((w + 1) / 2) ((h + 1) / 2)) x y) /\
       at_ (d_cr pic) x y = add_val (block_of (l_cr st') mpl x y) (x mod 8) (y mod 8)
                              (chroma_after w h mpl (d_cr rp) items 0 (new_plane ((w + 1) / 2) ((h + 1) / 2)) x y)).
Proof.
  intros v1 running mpl mbh levw levh np st0 items Hhdr Hpt Hfmt Hwh Hw Hh Hsp Hrf Hrl Hrb Hrr Hrc Hwf Hok Hpure.
  unfold reconstruct. rewrite Hhdr. cbn [bind]. fold running. rewrite Hfmt. cbn [bind]. rewrite Hwh.
  destruct ((w <=? 0) || (h <=? 0)) eqn:E0; [lia|]. cbv zeta. fold mpl mbh levw levh.
  unfold new_decoded. rewrite Hwh. cbv zeta. fold np. fold st0.
  assert (Hif : is_iframe (picture_type (d_header np)) = false) by (cbn [d_header np]; destruct Hpt as [-> | ->]; reflexivity).
  destruct (level_counts w h Hw Hh) as (N1 & N2 & M1 & M2 & M3 & M4). cbv zeta in N1, N2, M1, M2, M3, M4. fold mpl mbh in N1, N2, M1, M2, M3, M4. fold levw levh in N1, N2.
  destruct (mb_loop_roundtrip o np running mpl (mpl * mbh) levw Hsp fms (S (length (rbits (mkReader (enc_fulls false v1 fms ++ rest) pos)))) st0 rest pos) as [p1 El].
  { rewrite Hif. exact Hwf. }
  { exact Hok. }
  { cbn [rbits]. rewrite app_length. pose proof (enc_fulls_length false v1 fms Hwf). lia. }
  { rewrite Hif. reflexivity. }
  rewrite El, Hpure. cbn [rmap bind with_reader l_pvs l_types l_luma l_cb l_cr l_reader].
  destruct (pure_loop_shape np running mpl levw (mpl * mbh) fms st0 st' Hok Hpure eq_refl) as (T1 & T2 & L1 & L2 & L3).
  cbn [st0 l_luma l_cb l_cr] in L1, L2, L3. rewrite zlength_repeatZ in L1, L2, L3 by nia. rewrite N1 in L1. rewrite N2 in L2, L3.
  rewrite (pad_to_full (l_types st')) by exact T1. rewrite (pad_to_full (l_pvs st')) by exact T2. fold items.
  destruct (gather_go_spec w h mpl rp Hw Hh M1 Hrf Hrl Hrb Hrr Hrc items 0 np ltac:(lia) Hwh (new_plane_ok _ _) (new_plane_ok _ _) (new_plane_ok _ _))
    as (np2 & Eg & F1 & F2 & F3 & P1 & P2 & P3 & GL & GC).
  rewrite Eg. cbn [bind].
  destruct (idct_channel_spec w h (l_luma st') (d_luma np2) (mpl * 2) (mbh * 2) P1 Hw Hh ltac:(lia) ltac:(lia) L1) as (luma & E1 & O1 & A1).
  rewrite E1. cbn [bind].
  assert (Hcw : d_chroma_w np2 = (w + 1) / 2) by (rewrite F3; reflexivity). rewrite Hcw.
  destruct (idct_channel_spec ((w + 1) / 2) ((h + 1) / 2) (l_cb st') (d_cb np2) mpl mbh P2 ltac:(lia) ltac:(lia) M1 ltac:(lia) L2) as (cb & E2 & O2 & A2).
  rewrite E2. cbn [bind].
  destruct (idct_channel_spec ((w + 1) / 2) ((h + 1) / 2) (l_cr st') (d_cr np2) mpl mbh P3 ltac:(lia) ltac:(lia) M1 ltac:(lia) L3) as (cr & E3 & O3 & A3).
  rewrite E3. cbn [bind].
  eexists. exists p1. split; [reflexivity|]. cbn [d_header d_luma d_cb d_cr].
  split; [rewrite F1; reflexivity|]. split; [exact O1|]. split; [exact O2|]. split; [exact O3|]. split.
  - intros x y Hx Hy. rewrite A1 by assumption. rewrite GL by assumption.
    destruct ((x / 8 <? mpl * 2) && (y / 8 <? mbh * 2)) eqn:E; [reflexivity|exfalso; clear - E Hx Hy M3 M4; lia].
  - intros x y Hx Hy. rewrite A2, A3 by assumption. destruct (GC x y Hx Hy) as [G1 G2]. rewrite G1, G2.
    destruct ((x / 8 <? mpl) && (y / 8 <? mbh)) eqn:E; [split; reflexivity|exfalso; clear - E Hx Hy M3 M4; lia].
Qed.
