(* C15 / C01: the macroblock loop stops at mb_per_line * mb_height macroblocks; the start-code
   probe looks at most realignment + 1 bits ahead and answers Some k only where 0^16 1 begins. *)
From H263V Require Import base.Prelude model.Types model.Tables model.Reader model.Header model.Syntax model.F32 model.Recon model.Decoder
  proofs.ReaderLemmas proofs.HeaderLemmas.

Lemma decode_coded_types o np running mbpl levw t p dq mvd addl st st' mvs :
  decode_coded o np running mbpl levw t p dq mvd addl st = Ok (st', mvs) ->
  l_types st' = l_types st /\ l_pvs st' = l_pvs st.
Proof.
  intros H. unfold decode_coded in H.
  bind_inv H as col E1. bind_inv H as line E2. bind_inv H as mv E3.
  bind_inv H as [b1 r1] B1. bind_inv H as l1 L1. bind_inv H as [b2 r2] B2. bind_inv H as l2 L2.
  bind_inv H as [b3 r3] B3. bind_inv H as l3 L3. bind_inv H as [b4 r4] B4. bind_inv H as l4 L4.
  bind_inv H as [b5 r5] B5. bind_inv H as l5 L5. bind_inv H as [b6 r6] B6. bind_inv H as l6 L6.
  inversion H; subst. cbn. split; reflexivity.
Qed.

Lemma zlength_app1 {A} (l : list A) a : zlength (l ++ [a]) = zlength l + 1.
Proof. unfold zlength. rewrite app_length. cbn. lia. Qed.

(* the loop never holds more than `total` macroblocks, and vectors and types stay in step *)
Lemma mb_loop_bound : forall fuel o np running mbpl total levw st st',
  mb_loop fuel o np running mbpl total levw st = Ok st' ->
  zlength (l_types st) <= total -> zlength (l_pvs st) = zlength (l_types st) ->
  zlength (l_types st') <= total /\ zlength (l_pvs st') = zlength (l_types st').
Proof.
  induction fuel as [|f IH]; intros o np running mbpl total levw st st' H Hle Heq; [discriminate|].
  cbn [mb_loop] in H.
  destruct (total <=? zlength (l_types st)) eqn:Ec.
  - inversion H; subst. split; assumption.
  - apply Z.leb_gt in Ec.
    destruct (decode_macroblock (d_header np) running (l_reader st)) as [[mb r]|e|p|] eqn:Em; try discriminate.
    + destruct mb as [| |t p dq mvd addl].
      * destruct (is_iframe _); [discriminate|].
        apply IH in H; cbn [l_types l_pvs]; rewrite ?zlength_app1; try lia; try exact H.
      * apply IH in H; cbn [l_types l_pvs]; try lia; try exact H.
      * bind_inv H as [st1 mvs] Ed.
        apply decode_coded_types in Ed. cbn [l_types l_pvs] in Ed. destruct Ed as [Et Ep].
        apply IH in H; cbn [l_types l_pvs]; rewrite ?zlength_app1, ?Et, ?Ep; try lia; try exact H.
    + destruct (is_macroblock_error e && negb (sorenson o)).
      * destruct (decode_gob (l_reader st)) as [[u|]|e'|p|]; try discriminate.
        -- inversion H; subst. split; [lia|exact Heq].
        -- inversion H; subst. split; [lia|exact Heq].
        -- destruct (is_eof e' || is_gob_error e'); [|discriminate]. inversion H; subst. split; [lia|exact Heq].
      * destruct (is_eof e); [|discriminate]. inversion H; subst. split; [lia|exact Heq].
Qed.

(* start-code probe *)
Lemma start_code_go_window : forall fuel in_error max skip r k,
  start_code_go fuel in_error max skip r = Ok (Some k) ->
  skip <= k /\ (in_error = false -> skip <= max + 1 -> k <= max + 1).
Proof.
  induction fuel as [|f IH]; intros in_error max skip r k H; [discriminate|].
  cbn [start_code_go] in H. bind_inv H as code E1.
  destruct (code =? 1).
  - inversion H; subst. split; [lia|intros; lia].
  - destruct (negb in_error && (max <? skip)) eqn:Ec; [discriminate|].
    bind_inv H as r1 E2. apply IH in H. destruct H as [H1 H2]. split; [lia|].
    intros Hie Hs. subst in_error. cbn [negb andb] in Ec. apply Z.ltb_ge in Ec. apply H2; [reflexivity|lia].
Qed.

Lemma recognize_start_code_window r k :
  recognize_start_code false r = Ok (Some k) -> 0 <= k <= realignment_bits r + 1 /\ k <= 8.
Proof.
  intros H. unfold recognize_start_code in H. apply start_code_go_window in H. destruct H as [H1 H2].
  specialize (H2 eq_refl).
  assert (Hr : 0 <= realignment_bits r <= 7).
  { unfold realignment_bits. pose proof (Z.mod_pos_bound (8 - rpos r mod 8) 8 ltac:(lia)). lia. }
  split; [split; [lia|apply H2; lia]|]. specialize (H2 ltac:(lia)). lia.
Qed.
