(* Basic facts about the abstract reader: value ranges of fixed-length reads,
   consumption counts. *)
From H263V Require Import base.Prelude model.Types model.Reader.

Lemma take_bits_range : forall n acc b v b',
  take_bits n acc b = Some (v, b') -> acc * 2 ^ Z.of_nat n <= v < (acc + 1) * 2 ^ Z.of_nat n.
Proof.
  induction n as [|n IH]; intros acc b v b' H.
  - cbn in H. inversion H; subst. cbn. lia.
  - cbn [take_bits] in H. destruct b as [|x b]; [discriminate|].
    apply IH in H. rewrite Nat2Z.inj_succ, Z.pow_succ_r by lia.
    destruct x; nia.
Qed.

Lemma take_bits_length : forall n acc b v b',
  take_bits n acc b = Some (v, b') -> length b = (n + length b')%nat.
Proof.
  induction n as [|n IH]; intros acc b v b' H.
  - cbn in H. inversion H; subst. reflexivity.
  - cbn [take_bits] in H. destruct b as [|x b]; [discriminate|].
    apply IH in H. cbn [length]. lia.
Qed.

Lemma read_bits_range w n r v r' : 0 <= n -> read_bits w n r = Ok (v, r') -> 0 <= v < 2 ^ n.
Proof.
  intros Hn H. unfold read_bits, peek_bits, skip_bits in H.
  destruct (w <? n); [discriminate|].
  destruct (take_bits (Z.to_nat n) 0 (rbits r)) as [[v0 b0]|] eqn:E; cbn in H; [|discriminate].
  inversion H; subst. apply take_bits_range in E. rewrite Z2Nat.id in E by lia. lia.
Qed.

Lemma read_bits_consumes w n r v r' : 0 <= n -> read_bits w n r = Ok (v, r') ->
  length (rbits r) = (Z.to_nat n + length (rbits r'))%nat /\ rpos r' = rpos r + n.
Proof.
  intros Hn H. unfold read_bits, peek_bits, skip_bits in H.
  destruct (w <? n); [discriminate|].
  destruct (take_bits (Z.to_nat n) 0 (rbits r)) as [[v0 b0]|] eqn:E; cbn in H; [|discriminate].
  inversion H; subst. cbn. split; [eapply take_bits_length; eauto|reflexivity].
Qed.

Lemma read_u8_range r v r' : read_u8 r = Ok (v, r') -> 0 <= v < 256.
Proof. intros H. apply read_bits_range in H; [|lia]. change (2 ^ 8) with 256 in H. exact H. Qed.
