(* C14: the concrete reader of reader.rs (source, byte buffer, bit cursor; byte-wise refill; the accumulator loop of
   peek_bits with its width-typed shifts) refines the abstract reader (a list of unread bits) that every parser and
   every other theorem is written against. *)
From H263V Require Import base.Prelude model.Types model.Reader model.ReaderConcrete proofs.ReaderLemmas.
Require Import ZifyBool ZifyNat.
Ltac Zify.zify_post_hook ::= Z.div_mod_to_equations.

Definition isbyte (b : Z) : Prop := 0 <= b < 256.
Definition cinv (r : creader) : Prop :=
  0 <= c_bits_read r <= 8 * zlength (c_buffer r) /\ Forall isbyte (c_buffer r) /\ Forall isbyte (c_source r).

(* ---- bits of bytes ---- *)
Lemma bits_of_bytes_app a b : bits_of_bytes (a ++ b) = bits_of_bytes a ++ bits_of_bytes b.
Proof. unfold bits_of_bytes. apply flat_map_app. Qed.
Lemma bits_of_bytes_length bs : length (bits_of_bytes bs) = (8 * length bs)%nat.
Proof. induction bs as [|b bs IH]; [reflexivity|]. unfold bits_of_bytes in *. cbn [flat_map]. rewrite app_length, IH. cbn [length byte_bits]. lia. Qed.
Lemma skipn_bits_bytes : forall q m bs, (m <= 8 * (length bs - q))%nat ->
  skipn (8 * q + m) (bits_of_bytes bs) = skipn m (bits_of_bytes (skipn q bs)).
Proof.
  induction q as [|q IH]; intros m bs Hm; [reflexivity|].
  destruct bs as [|b bs]; [cbn in Hm; assert (m = 0)%nat by lia; subst; rewrite !skipn_nil; reflexivity|].
  replace (8 * S q + m)%nat with (8 + (8 * q + m))%nat by lia. cbn [skipn].
  change (bits_of_bytes (b :: bs)) with (byte_bits 8 b ++ bits_of_bytes bs).
  rewrite skipn_app. change (length (byte_bits 8 b)) with 8%nat.
  replace (8 + (8 * q + m) - 8)%nat with (8 * q + m)%nat by lia.
  rewrite (skipn_all2 (byte_bits 8 b)) by (change (length (byte_bits 8 b)) with 8%nat; lia). cbn [app].
  apply IH. cbn [length] in Hm. lia.
Qed.

(* ---- take_bits ---- *)
Lemma take_bits_acc : forall n acc l,
  take_bits n acc l = match take_bits n 0 l with Some (v, r) => Some (acc * 2 ^ Z.of_nat n + v, r) | None => None end.
Proof.
  induction n as [|n IH]; intros acc l; [cbn; f_equal; f_equal; lia|].
  cbn [take_bits]. destruct l as [|x l]; [reflexivity|]. rewrite IH. rewrite (IH (2 * 0 + _)).
  destruct (take_bits n 0 l) as [[v r]|]; [|reflexivity]. f_equal. f_equal.
  rewrite Nat2Z.inj_succ, Z.pow_succ_r by lia. ring.
Qed.
Lemma take_bits_app : forall n acc l1 l2 v r, take_bits n acc l1 = Some (v, r) -> take_bits n acc (l1 ++ l2) = Some (v, r ++ l2).
Proof.
  induction n as [|n IH]; intros acc l1 l2 v r H; [cbn in *; inversion H; reflexivity|].
  cbn [take_bits] in *. destruct l1 as [|x l1]; [discriminate|]. cbn [app]. apply IH. exact H.
Qed.
Lemma take_bits_add : forall n m acc l,
  take_bits (n + m) acc l = match take_bits n acc l with Some (v, r) => take_bits m v r | None => None end.
Proof.
  induction n as [|n IH]; intros m acc l; [reflexivity|]. cbn [Nat.add take_bits]. destruct l as [|x l]; [reflexivity|]. apply IH.
Qed.
Lemma take_bits_none : forall n acc l, (length l < n)%nat -> take_bits n acc l = None.
Proof. induction n as [|n IH]; intros acc l H; [lia|]. cbn [take_bits]. destruct l as [|x l]; [reflexivity|]. apply IH. cbn in H. lia. Qed.
Lemma take_bits_some : forall n acc l, (n <= length l)%nat -> exists v, take_bits n acc l = Some (v, skipn n l).
Proof.
  induction n as [|n IH]; intros acc l H; [eexists; reflexivity|]. destruct l as [|x l]; [cbn in H; lia|].
  cbn [take_bits skipn]. apply IH. cbn in H. lia.
Qed.

(* ---- one byte: the shifted-and-truncated byte is the value of the selected bits (finite check, 256 x 8 x 8) ---- *)
Definition top_of (byte br k : Z) : Z :=
  let byte' := (byte * 2 ^ br) mod 256 in if 8 - k <? 8 then byte' / 2 ^ (8 - k) else 0.
Definition top_ok (byte br k : Z) : bool :=
  match take_bits (Z.to_nat k) 0 (skipn (Z.to_nat br) (byte_bits 8 byte)) with
  | Some (v, rest) => (v =? top_of byte br k) && (Nat.eqb (length rest) (Z.to_nat (8 - br - k)))
  | None => false
  end.
Definition zrange (n : nat) : list Z := map Z.of_nat (seq 0 n).
Lemma top_ok_all : forallb (fun byte => forallb (fun br => forallb (fun k => (8 - br <? k) || (k <? 1) || top_ok byte br k) (zrange 9)) (zrange 8)) (zrange 256) = true.
Proof. vm_compute. reflexivity. Qed.
Lemma in_zrange n x : 0 <= x < Z.of_nat n -> In x (zrange n).
Proof. intros H. unfold zrange. apply in_map_iff. exists (Z.to_nat x). split; [lia|]. apply in_seq. lia. Qed.
Lemma top_correct byte br k : isbyte byte -> 0 <= br < 8 -> 1 <= k <= 8 - br ->
  exists rest, take_bits (Z.to_nat k) 0 (skipn (Z.to_nat br) (byte_bits 8 byte)) = Some (top_of byte br k, rest) /\ 0 <= top_of byte br k < 2 ^ k.
Proof.
  intros Hb Hbr Hk. pose proof top_ok_all as H. rewrite forallb_forall in H.
  specialize (H byte (in_zrange 256 byte Hb)). rewrite forallb_forall in H.
  specialize (H br (in_zrange 8 br Hbr)). rewrite forallb_forall in H.
  specialize (H k (in_zrange 9 k ltac:(lia))).
  destruct (8 - br <? k) eqn:E1; [lia|]. destruct (k <? 1) eqn:E2; [lia|]. cbn [orb] in H. unfold top_ok in H.
  destruct (take_bits (Z.to_nat k) 0 (skipn (Z.to_nat br) (byte_bits 8 byte))) as [[v rest]|] eqn:E; [|discriminate].
  apply andb_prop in H. destruct H as [Hv _]. apply Z.eqb_eq in Hv. subst v. exists rest. split; [reflexivity|].
  apply take_bits_range in E. rewrite Z2Nat.id in E by lia. lia.
Qed.

Lemma lor_low x t k : 0 <= x -> 0 <= k -> 0 <= t < 2 ^ k -> Z.lor (x * 2 ^ k) t = x * 2 ^ k + t.
Proof.
  intros Hx Hk Ht.
  assert (Hd : Z.land (x * 2 ^ k) t = 0).
  { apply Z.bits_inj'. intros n Hn. rewrite Z.land_spec, Z.bits_0.
    destruct (Z.ltb_spec n k).
    + rewrite Z.mul_pow2_bits_low by lia. reflexivity.
    + destruct (Z.eq_dec t 0) as [->|Hne]; [rewrite Z.bits_0; apply andb_false_r|].
      rewrite (Z.bits_above_log2 t n); [apply andb_false_r|lia|].
      assert (Z.log2 t < k) by (apply Z.log2_lt_pow2; lia). lia. }
  rewrite <- (Z.lxor_lor _ _ Hd), <- (Z.add_nocarry_lxor _ _ Hd). reflexivity.
Qed.
