(* C14: the concrete reader of reader.rs (source, byte buffer, bit cursor; byte-wise refill; the accumulator loop of
   peek_bits with its width-typed shifts) refines the abstract reader (a list of unread bits) that every parser and
   every other theorem is written against. *)
From H263V Require Import base.Prelude model.Types model.Reader model.ReaderConcrete proofs.ReaderLemmas.
Require Import ZifyBool ZifyNat.
Ltac Zify.zify_post_hook ::= Z.div_mod_to_equations.

Definition isbyte (b : Z) : Prop := 0 <= b < 256.
Definition cinv (r : creader) : Prop :=
  0 <= c_bits_read r <= 8 * zlength (c_buffer r) /\ Forall isbyte (c_buffer r) /\ Forall isbyte (c_source r).

(* ---- bits of bytes ---- *)
Lemma bits_of_bytes_app a b : bits_of_bytes (a ++ b) = bits_of_bytes a ++ bits_of_bytes b.
Proof. unfold bits_of_bytes. apply flat_map_app. Qed.
Lemma bits_of_bytes_length bs : length (bits_of_bytes bs) = (8 * length bs)%nat.
Proof. induction bs as [|b bs IH]; [reflexivity|]. unfold bits_of_bytes in *. cbn [flat_map]. rewrite app_length, IH. cbn [length byte_bits]. lia. Qed.
Lemma skipn_bits_bytes : forall q m bs, (m <= 8 * (length bs - q))%nat ->
  skipn (8 * q + m) (bits_of_bytes bs) = skipn m (bits_of_bytes (skipn q bs)).
Proof.
  induction q as [|q IH]; intros m bs Hm; [reflexivity|].
  destruct bs as [|b bs]; [cbn in Hm; assert (m = 0)%nat by lia; subst; rewrite !skipn_nil; reflexivity|].
  replace (8 * S q + m)%nat with (8 + (8 * q + m))%nat by lia. cbn [skipn].
  change (bits_of_bytes (b :: bs)) with (byte_bits 8 b ++ bits_of_bytes bs).
  rewrite skipn_app. change (length (byte_bits 8 b)) with 8%nat.
  replace (8 + (8 * q + m) - 8)%nat with (8 * q + m)%nat by lia.
  rewrite (skipn_all2 (byte_bits 8 b)) by (change (length (byte_bits 8 b)) with 8%nat; lia). cbn [app].
  apply IH. cbn [length] in Hm. lia.
Qed.

(* ---- take_bits ---- *)
Lemma take_bits_acc : forall n acc l,
  take_bits n acc l = match take_bits n 0 l with Some (v, r) => Some (acc * 2 ^ Z.of_nat n + v, r) | None => None end.
Proof.
  induction n as [|n IH]; intros acc l; [cbn; f_equal; f_equal; lia|].
  cbn [take_bits]. destruct l as [|x l]; [reflexivity|]. rewrite IH. rewrite (IH (2 * 0 + _)).
  destruct (take_bits n 0 l) as [[v r]|]; [|reflexivity]. f_equal. f_equal.
  rewrite Nat2Z.inj_succ, Z.pow_succ_r by lia. ring.
Qed.
Lemma take_bits_app : forall n acc l1 l2 v r, take_bits n acc l1 = Some (v, r) -> take_bits n acc (l1 ++ l2) = Some (v, r ++ l2).
Proof.
  induction n as [|n IH]; intros acc l1 l2 v r H; [cbn in *; inversion H; reflexivity|].
  cbn [take_bits] in *. destruct l1 as [|x l1]; [discriminate|]. cbn [app]. apply IH. exact H.
Qed.
Lemma take_bits_add : forall n m acc l,
  take_bits (n + m) acc l = match take_bits n acc l with Some (v, r) => take_bits m v r | None => None end.
Proof.
  induction n as [|n IH]; intros m acc l; [reflexivity|]. cbn [Nat.add take_bits]. destruct l as [|x l]; [reflexivity|]. apply IH.
Qed.
Lemma take_bits_none : forall n acc l, (length l < n)%nat -> take_bits n acc l = None.
Proof. induction n as [|n IH]; intros acc l H; [lia|]. cbn [take_bits]. destruct l as [|x l]; [reflexivity|]. apply IH. cbn in H. lia. Qed.
Lemma take_bits_some : forall n acc l, (n <= length l)%nat -> exists v, take_bits n acc l = Some (v, skipn n l).
Proof.
  induction n as [|n IH]; intros acc l H; [eexists; reflexivity|]. destruct l as [|x l]; [cbn in H; lia|].
  cbn [take_bits skipn]. apply IH. cbn in H. lia.
Qed.

(* ---- one byte: the shifted-and-truncated byte is the value of the selected bits (finite check, 256 x 8 x 8) ---- *)
Definition top_of (byte br k : Z) : Z :=
  let byte' := (byte * 2 ^ br) mod 256 in if 8 - k <? 8 then byte' / 2 ^ (8 - k) else 0.
Definition top_ok (byte br k : Z) : bool :=
  match take_bits (Z.to_nat k) 0 (skipn (Z.to_nat br) (byte_bits 8 byte)) with
  | Some (v, rest) => (v =? top_of byte br k) && (Nat.eqb (length rest) (Z.to_nat (8 - br - k)))
  | None => false
  end.
Definition zrange (n : nat) : list Z := map Z.of_nat (seq 0 n).
Lemma top_ok_all : forallb (fun byte => forallb (fun br => forallb (fun k => (8 - br <? k) || (k <? 1) || top_ok byte br k) (zrange 9)) (zrange 8)) (zrange 256) = true.
Proof. vm_compute. reflexivity. Qed.
Lemma in_zrange n x : 0 <= x < Z.of_nat n -> In x (zrange n).
Proof. intros H. unfold zrange. apply in_map_iff. exists (Z.to_nat x). split; [lia|]. apply in_seq. lia. Qed.
Lemma top_correct byte br k : isbyte byte -> 0 <= br < 8 -> 1 <= k <= 8 - br ->
  exists rest, take_bits (Z.to_nat k) 0 (skipn (Z.to_nat br) (byte_bits 8 byte)) = Some (top_of byte br k, rest) /\ 0 <= top_of byte br k < 2 ^ k.
Proof.
  intros Hb Hbr Hk. pose proof top_ok_all as H. rewrite forallb_forall in H.
  specialize (H byte (in_zrange 256 byte Hb)). rewrite forallb_forall in H.
  specialize (H br (in_zrange 8 br Hbr)). rewrite forallb_forall in H.
  specialize (H k (in_zrange 9 k ltac:(lia))).
  destruct (8 - br <? k) eqn:E1; [lia|]. destruct (k <? 1) eqn:E2; [lia|]. cbn [orb] in H. unfold top_ok in H.
  destruct (take_bits (Z.to_nat k) 0 (skipn (Z.to_nat br) (byte_bits 8 byte))) as [[v rest]|] eqn:E; [|discriminate].
  apply andb_prop in H. destruct H as [Hv _]. apply Z.eqb_eq in Hv. subst v. exists rest. split; [reflexivity|].
  apply take_bits_range in E. rewrite Z2Nat.id in E by lia. lia.
Qed.

Lemma lor_low x t k : 0 <= x -> 0 <= k -> 0 <= t < 2 ^ k -> Z.lor (x * 2 ^ k) t = x * 2 ^ k + t.
Proof.
  intros Hx Hk Ht.
  assert (Hd : Z.land (x * 2 ^ k) t = 0).
  { apply Z.bits_inj'. intros n Hn. rewrite Z.land_spec, Z.bits_0.
    destruct (Z.ltb_spec n k).
    + rewrite Z.mul_pow2_bits_low by lia. reflexivity.
    + destruct (Z.eq_dec t 0) as [->|Hne]; [rewrite Z.bits_0; apply andb_false_r|].
      rewrite (Z.bits_above_log2 t n); [apply andb_false_r|lia|].
      assert (Z.log2 t < k) by (apply Z.log2_lt_pow2; lia). lia. }
  rewrite <- (Z.lxor_lor _ _ Hd), <- (Z.add_nocarry_lxor _ _ Hd). reflexivity.
Qed.

(* ---- refill: bytes move from the source to the buffer; what remains to be read does not change ---- *)
Lemma zlength_app {A} (a b : list A) : zlength (a ++ b) = zlength a + zlength b.
Proof. unfold zlength. rewrite app_length. lia. Qed.

Lemma remaining_push r b src : 0 <= c_bits_read r <= 8 * zlength (c_buffer r) -> c_source r = b :: src ->
  remaining (mkC src (c_buffer r ++ [b]) (c_bits_read r)) = remaining r.
Proof.
  intros Hbr Hs. unfold remaining. cbn [c_source c_buffer c_bits_read]. rewrite Hs.
  rewrite bits_of_bytes_app, skipn_app, bits_of_bytes_length.
  replace (Z.to_nat (c_bits_read r) - 8 * length (c_buffer r))%nat with 0%nat by (unfold zlength in Hbr; lia).
  cbn [skipn]. rewrite <- app_assoc. f_equal.
Qed.

Lemma buffer_bytes_spec : forall n r r1 e, cinv r -> buffer_bytes n r = (r1, e) ->
  cinv r1 /\ remaining r1 = remaining r /\ c_bits_read r1 = c_bits_read r /\
  ((e = Ok tt /\ zlength (c_buffer r1) = zlength (c_buffer r) + Z.of_nat n) \/
   (e = Err EEof /\ c_source r1 = [] /\ zlength (c_buffer r) <= zlength (c_buffer r1) < zlength (c_buffer r) + Z.of_nat n)).
Proof.
  induction n as [|n IH]; intros r r1 e Hinv H.
  - cbn in H. inversion H; subst. repeat split; try apply Hinv. left. split; [reflexivity|lia].
  - cbn [buffer_bytes] in H. destruct (c_source r) as [|b src] eqn:Es.
    + inversion H; subst. repeat split; try apply Hinv. right. repeat split; [exact Es|lia|lia].
    + destruct Hinv as (Hbr & Hbuf & Hsrc). rewrite Es in Hsrc. inversion Hsrc as [|? ? Hb Hsrc']; subst.
      apply IH in H.
      * destruct H as (I1 & I2 & I3 & I4). cbn [c_bits_read c_buffer] in *.
        split; [exact I1|]. split; [rewrite I2; apply remaining_push; assumption|]. split; [exact I3|].
        rewrite zlength_app in I4. change (zlength [b]) with 1 in I4.
        destruct I4 as [[-> I4]|[-> [I4 I5]]]; [left|right]; repeat split; try assumption; lia.
      * unfold cinv. cbn [c_bits_read c_buffer c_source]. rewrite zlength_app. change (zlength [b]) with 1.
        repeat split; try lia; try assumption. apply Forall_app. split; [assumption|constructor; [assumption|constructor]].
Qed.

Lemma remaining_length r : 0 <= c_bits_read r <= 8 * zlength (c_buffer r) ->
  Z.of_nat (length (remaining r)) = 8 * zlength (c_buffer r) - c_bits_read r + 8 * zlength (c_source r).
Proof.
  intros H. unfold remaining. rewrite app_length, skipn_length, !bits_of_bytes_length. unfold zlength in *. lia.
Qed.

Lemma ensure_bits_spec r n r1 e : cinv r -> 0 <= n -> ensure_bits r n = (r1, e) ->
  cinv r1 /\ remaining r1 = remaining r /\ c_bits_read r1 = c_bits_read r /\
  ((e = Ok tt /\ n <= 8 * zlength (c_buffer r1) - c_bits_read r1) \/
   (e = Err EEof /\ Z.of_nat (length (remaining r)) < n)).
Proof.
  intros Hinv Hn H. unfold ensure_bits in H.
  pose proof Hinv as (Hbr & _ & _).
  apply buffer_bytes_spec in H; [|exact Hinv]. destruct H as (I1 & I2 & I3 & I4).
  split; [exact I1|]. split; [exact I2|]. split; [exact I3|].
  unfold needed_bytes_for_bits in I4. cbv zeta in I4.
  set (avail := Z.max 0 (zlength (c_buffer r) * 8 - c_bits_read r)) in *.
  set (short := Z.max 0 (n - avail)) in *.
  assert (Hnb : 0 <= short / 8 + (if short mod 8 =? 0 then 0 else 1)) by (destruct (short mod 8 =? 0) eqn:E; lia).
  rewrite Z2Nat.id in I4 by exact Hnb.
  destruct I4 as [[-> I4]|[-> [I4 I5]]]; [left|right]; (split; [reflexivity|]).
  - rewrite I3. destruct (short mod 8 =? 0) eqn:E; lia.
  - rewrite <- I2. rewrite remaining_length by (destruct I1 as (? & _); lia). rewrite I4, I3. change (zlength []) with 0.
    destruct (short mod 8 =? 0) eqn:E; lia.
Qed.

(* ---- the accumulator loop ---- *)
Lemma skipn_bits_cons br byte rest : (br <= 8)%nat ->
  skipn br (bits_of_bytes (byte :: rest)) = skipn br (byte_bits 8 byte) ++ bits_of_bytes rest.
Proof.
  intros H. change (bits_of_bytes (byte :: rest)) with (byte_bits 8 byte ++ bits_of_bytes rest).
  rewrite skipn_app. change (length (byte_bits 8 byte)) with 8%nat. replace (br - 8)%nat with 0%nat by lia. reflexivity.
Qed.

Lemma peek_loop_spec w : forall bytes br needed accum a,
  Forall isbyte bytes -> 0 <= br < 8 -> 0 <= needed -> 0 <= a -> 0 <= accum < 2 ^ a -> a + needed <= w ->
  needed <= 8 * zlength bytes - br ->
  exists v rest, take_bits (Z.to_nat needed) accum (skipn (Z.to_nat br) (bits_of_bytes bytes)) = Some (v, rest) /\
                 peek_loop w bytes br needed accum = (v, 0).
Proof.
  induction bytes as [|byte rest IH]; intros br needed accum a Hb Hbr Hn Ha Hacc Hw Hlen.
  - change (zlength (@nil Z)) with 0 in Hlen. assert (needed = 0) by lia. subst needed. cbn. eauto.
  - cbn [peek_loop]. destruct (needed =? 0) eqn:E0.
    + apply Z.eqb_eq in E0. subst needed. cbn [Z.to_nat take_bits]. eauto.
    + apply Z.eqb_neq in E0. inversion Hb as [|? ? Hbyte Hrest]; subst.
      set (k := Z.min (8 - br) needed).
      assert (Hk : 1 <= k <= 8 - br) by (unfold k; lia).
      destruct (top_correct byte br k Hbyte Hbr Hk) as (rst & Htop & Htr).
      fold (top_of byte br k). cbv zeta.
      set (top := top_of byte br k) in *.
      set (accum' := if k <? w then Z.lor ((accum * 2 ^ k) mod 2 ^ w) top else top).
      assert (Hacc' : accum' = accum * 2 ^ k + top /\ 0 <= accum' < 2 ^ (a + k)).
      { assert (P1 : 0 < 2 ^ k) by (apply Z.pow_pos_nonneg; lia).
        assert (P2 : 2 ^ (a + k) = 2 ^ a * 2 ^ k) by (apply Z.pow_add_r; lia).
        assert (P3 : 2 ^ (a + k) <= 2 ^ w) by (apply Z.pow_le_mono_r; lia).
        unfold accum'. destruct (k <? w) eqn:Ekw.
        - rewrite Z.mod_small by nia. rewrite lor_low by lia. split; [reflexivity|nia].
        - assert (a = 0) by lia. subst a. change (2 ^ 0) with 1 in Hacc. assert (accum = 0) by lia. subst accum.
          split; [lia|]. cbn [Z.add]. lia. }
      destruct Hacc' as [Eacc Racc].
      rewrite skipn_bits_cons by lia.
      replace (Z.to_nat needed) with (Z.to_nat k + Z.to_nat (needed - k))%nat by lia.
      rewrite take_bits_add.
      rewrite (take_bits_app _ _ _ _ (accum * 2 ^ k + top) rst).
      2:{ rewrite take_bits_acc, Htop. rewrite Z2Nat.id by lia. reflexivity. }
      rewrite <- Eacc.
      destruct (Z.eq_dec needed k) as [Enk|Enk].
      * replace (needed - k) with 0 by lia. cbn [Z.to_nat take_bits].
        exists accum', (rst ++ bits_of_bytes rest). split; [reflexivity|].
        destruct rest as [|b2 rest2]; [reflexivity|]. cbn [peek_loop]. reflexivity.
      * assert (Hk8 : k = 8 - br) by (unfold k in *; lia).
        assert (Hrst : rst = []).
        { apply take_bits_length in Htop. rewrite skipn_length in Htop. change (length (byte_bits 8 byte)) with 8%nat in Htop.
          destruct rst; [reflexivity|cbn [length] in Htop; lia]. }
        subst rst. cbn [app].
        destruct (IH 0 (needed - k) accum' (a + k) Hrest ltac:(lia) ltac:(lia) ltac:(lia) Racc ltac:(lia)) as (v & rr & T1 & T2).
        { unfold zlength in *. cbn [length] in Hlen. lia. }
        cbn [Z.to_nat skipn] in T1. exists v, rr. split; assumption.
Qed.

(* ---- r1 extends r0: the buffer has grown by bytes taken from the front of the source (no commit in between) ---- *)
Definition ext (r0 r1 : creader) : Prop :=
  exists moved, c_buffer r1 = c_buffer r0 ++ moved /\ c_source r0 = moved ++ c_source r1.
Lemma ext_refl r : ext r r.
Proof. exists []. rewrite app_nil_r. split; reflexivity. Qed.
Lemma ext_trans a b c : ext a b -> ext b c -> ext a c.
Proof.
  intros (m1 & B1 & S1) (m2 & B2 & S2). exists (m1 ++ m2). rewrite B2, B1, S1, S2, !app_assoc. split; reflexivity.
Qed.
Lemma ext_bits a b br : ext a b -> ext a (mkC (c_source b) (c_buffer b) br).
Proof. intros (m & B & S). exists m. split; assumption. Qed.

Lemma buffer_bytes_ext : forall n r r1 e, buffer_bytes n r = (r1, e) -> ext r r1.
Proof.
  induction n as [|n IH]; intros r r1 e H; [cbn in H; inversion H; apply ext_refl|].
  cbn [buffer_bytes] in H. destruct (c_source r) as [|b src] eqn:Es; [inversion H; apply ext_refl|].
  apply IH in H. eapply ext_trans; [|exact H]. exists [b]. cbn [c_buffer c_source]. split; [reflexivity|exact Es].
Qed.

Definition lift_ty (t : ity) (a : res Z) : res Z :=
  match a with Ok x => Ok (as_ty t x) | Err e => Err e | Panic p => Panic p | OutOfFuel => OutOfFuel end.

Lemma as_ty_0 t : as_ty t 0 = 0.
Proof. destruct t; reflexivity. Qed.

Lemma zlength_skipn {A} n (l : list A) : (n <= length l)%nat -> zlength (skipn n l) = zlength l - Z.of_nat n.
Proof. intros H. unfold zlength. rewrite skipn_length. lia. Qed.
Lemma Forall_skipn {A} (P : A -> Prop) n l : Forall P l -> Forall P (skipn n l).
Proof. intros H. apply Forall_forall. intros x Hx. rewrite Forall_forall in H. apply H. revert l Hx H. induction n; intros l Hx H; [exact Hx|]. destruct l; [destruct Hx|]. cbn in Hx. right. eapply IHn; eauto. intros y Hy. apply H. right. exact Hy. Qed.

(* the buffered part of `remaining`, re-expressed from the byte the cursor is in *)
Lemma remaining_from_byte r : cinv r ->
  remaining r = skipn (Z.to_nat (c_bits_read r mod 8)) (bits_of_bytes (skipn (Z.to_nat (c_bits_read r / 8)) (c_buffer r)))
                ++ bits_of_bytes (c_source r).
Proof.
  intros (Hbr & _ & _). unfold remaining. f_equal. unfold zlength in Hbr.
  replace (Z.to_nat (c_bits_read r)) with (8 * Z.to_nat (c_bits_read r / 8) + Z.to_nat (c_bits_read r mod 8))%nat by lia.
  apply skipn_bits_bytes. lia.
Qed.

(* ---- peek_bits ---- *)
Theorem peek_bits_c_refines t n r r1 v : cinv r -> 0 <= n -> peek_bits_c t n r = (r1, v) ->
  cinv r1 /\ ext r r1 /\ abs_reader r1 = abs_reader r /\ v = lift_ty t (peek_bits (width t) n (abs_reader r)).
Proof.
  intros Hinv Hn H. unfold peek_bits_c in H. unfold peek_bits. cbn [abs_reader rbits].
  destruct (width t <? n) eqn:Ew.
  - inversion H; subst. split; [exact Hinv|split; [apply ext_refl|split; reflexivity]].
  - destruct (n =? 0) eqn:E0.
    + apply Z.eqb_eq in E0. subst n. inversion H; subst. cbn [Z.to_nat take_bits lift_ty]. rewrite as_ty_0.
      split; [exact Hinv|split; [apply ext_refl|split; reflexivity]].
    + apply Z.eqb_neq in E0. destruct (ensure_bits r n) as [r2 e] eqn:Ee.
      pose proof (buffer_bytes_ext _ _ _ _ Ee) as Hext.
      destruct (ensure_bits_spec r n r2 e Hinv Hn Ee) as (I1 & I2 & I3 & I4).
      assert (Habs : abs_reader r2 = abs_reader r) by (unfold abs_reader; rewrite I2, I3; reflexivity).
      destruct I4 as [[-> I4]|[-> I4]].
      * pose proof I1 as (Hbr & Hbuf & Hsrc). unfold zlength in Hbr.
        destruct (peek_loop_spec (width t) (skipn (Z.to_nat (c_bits_read r2 / 8)) (c_buffer r2)) (c_bits_read r2 mod 8) n 0 0) as (x & rest & T1 & T2);
          try lia.
        { apply Forall_skipn. exact Hbuf. }
        { rewrite zlength_skipn by lia. unfold zlength in *. lia. }
        rewrite T2 in H. cbn [Z.eqb] in H. inversion H; subst r1 v.
        rewrite <- I2, (remaining_from_byte r2 I1). rewrite (take_bits_app _ _ _ _ _ _ T1). cbn [lift_ty].
        split; [exact I1|split; [exact Hext|split; [exact Habs|reflexivity]]].
      * inversion H; subst r1 v. rewrite take_bits_none by lia. cbn [lift_ty]. split; [exact I1|split; [exact Hext|split; [exact Habs|reflexivity]]].
Qed.

Lemma skipn_skipn' {A} : forall b a (l : list A), skipn a (skipn b l) = skipn (b + a) l.
Proof. induction b as [|b IH]; intros a l; [reflexivity|]. destruct l as [|x l]; [rewrite !skipn_nil; reflexivity|]. cbn [skipn Nat.add]. apply IH. Qed.

(* ---- skip_bits ---- *)
Theorem skip_bits_c_refines n r r1 e : cinv r -> 0 <= n -> skip_bits_c n r = (r1, e) ->
  cinv r1 /\ ext r r1 /\
  match skip_bits n (abs_reader r) with
  | Ok a' => e = Ok tt /\ abs_reader r1 = a'
  | Err x => e = Err x /\ abs_reader r1 = abs_reader r
  | _ => False
  end.
Proof.
  intros Hinv Hn H. unfold skip_bits_c in H. destruct (ensure_bits r n) as [r2 e2] eqn:Ee.
  pose proof (buffer_bytes_ext _ _ _ _ Ee) as Hext.
  destruct (ensure_bits_spec r n r2 e2 Hinv Hn Ee) as (I1 & I2 & I3 & I4).
  unfold skip_bits. cbn [abs_reader rbits rpos].
  destruct I4 as [[-> I4]|[-> I4]].
  - inversion H; subst r1 e. pose proof I1 as (Hbr & Hbuf & Hsrc).
    assert (Hlen : (Z.to_nat n <= length (remaining r))%nat).
    { rewrite <- I2. pose proof (remaining_length r2 Hbr). unfold zlength in *. lia. }
    destruct (take_bits_some (Z.to_nat n) 0 (remaining r) Hlen) as [x Hx]. rewrite Hx.
    split; [|split; [apply ext_bits; exact Hext|split; [reflexivity|]]].
    + unfold cinv. cbn [c_bits_read c_buffer c_source]. repeat split; try assumption; lia.
    + unfold abs_reader. cbn [c_bits_read]. rewrite I3. f_equal.
      rewrite <- I2. unfold remaining. cbn [c_bits_read c_buffer c_source].
      rewrite skipn_app, skipn_skipn'. rewrite skipn_length, bits_of_bytes_length.
      replace (Z.to_nat n - (8 * length (c_buffer r2) - Z.to_nat (c_bits_read r2)))%nat with 0%nat by (unfold zlength in *; lia).
      cbn [skipn]. f_equal. f_equal. lia.
  - inversion H; subst r1 e. rewrite take_bits_none by lia.
    split; [exact I1|]. split; [exact Hext|]. split; [reflexivity|]. unfold abs_reader. rewrite I2, I3. reflexivity.
Qed.

(* ---- read_bits ---- *)
Theorem read_bits_c_refines t n r r1 v : cinv r -> 0 <= n -> read_bits_c t n r = (r1, v) ->
  cinv r1 /\ ext r r1 /\
  match read_bits (width t) n (abs_reader r) with
  | Ok (x, a') => v = Ok (as_ty t x) /\ abs_reader r1 = a'
  | Err e => v = Err e /\ abs_reader r1 = abs_reader r
  | _ => False
  end.
Proof.
  intros Hinv Hn H. unfold read_bits_c in H. destruct (peek_bits_c t n r) as [r2 pv] eqn:Ep.
  destruct (peek_bits_c_refines t n r r2 pv Hinv Hn Ep) as (I1 & X1 & A1 & V1).
  unfold read_bits. destruct (peek_bits (width t) n (abs_reader r)) as [x|e|p|] eqn:Epk; cbn [lift_ty] in V1; subst pv; cbn [bind].
  - destruct (skip_bits_c n r2) as [r3 se] eqn:Es.
    destruct (skip_bits_c_refines n r2 r3 se I1 Hn Es) as (I2 & X2 & S2). rewrite A1 in S2.
    destruct (skip_bits n (abs_reader r)) as [a'|e|p|] eqn:Esk; cbn [bind]; try contradiction.
    + destruct S2 as [-> S2]. inversion H; subst. split; [exact I2|split; [eapply ext_trans; eauto|split; [reflexivity|first [exact S2|reflexivity]]]].
    + destruct S2 as [-> S2]. inversion H; subst. split; [exact I2|split; [eapply ext_trans; eauto|split; [reflexivity|first [exact S2|reflexivity]]]].
  - inversion H; subst. split; [exact I1|split; [exact X1|split; [reflexivity|exact A1]]].
  - unfold peek_bits in Epk. destruct (width t <? n); [discriminate|]. destruct (take_bits _ _ _) as [[? ?]|]; discriminate.
  - unfold peek_bits in Epk. destruct (width t <? n); [discriminate|]. destruct (take_bits _ _ _) as [[? ?]|]; discriminate.
Qed.

(* ---- signed reads ---- *)
Lemma as_ty_mod t x : (as_ty t x) mod 2 ^ width t = x mod 2 ^ width t.
Proof.
  unfold as_ty. cbv zeta. assert (0 < 2 ^ width t) by (destruct t; reflexivity).
  destruct (is_signed t && (2 ^ (width t - 1) <=? x mod 2 ^ width t)).
  - replace (x mod 2 ^ width t - 2 ^ width t) with (x mod 2 ^ width t + (-1) * 2 ^ width t) by ring.
    rewrite Z.mod_add by lia. apply Z.mod_mod. lia.
  - apply Z.mod_mod. lia.
Qed.

Theorem peek_signed_bits_c_refines t n r r1 v : cinv r -> 0 <= n -> peek_signed_bits_c t n r = (r1, v) ->
  cinv r1 /\ ext r r1 /\ abs_reader r1 = abs_reader r /\ v = lift_ty t (peek_signed_bits (width t) n (abs_reader r)).
Proof.
  intros Hinv Hn H. unfold peek_signed_bits_c in H. destruct (peek_bits_c t n r) as [r2 pv] eqn:Ep.
  destruct (peek_bits_c_refines t n r r2 pv Hinv Hn Ep) as (I1 & X1 & A1 & V1).
  unfold peek_signed_bits. unfold peek_bits in *. cbn [abs_reader rbits] in *.
  destruct (width t <? n) eqn:Ew.
  - cbn [lift_ty bind] in *. subst pv. inversion H; subst. split; [exact I1|split; [exact X1|split; [exact A1|reflexivity]]].
  - destruct (take_bits (Z.to_nat n) 0 (remaining r)) as [[x rest]|] eqn:Et; cbn [lift_ty bind] in *; subst pv.
    + destruct (n =? 0) eqn:E0.
      * inversion H; subst. cbn [lift_ty]. rewrite as_ty_0. split; [exact I1|split; [exact X1|split; [exact A1|reflexivity]]].
      * apply take_bits_range in Et. rewrite Z2Nat.id in Et by lia.
        assert (P : 2 ^ n <= 2 ^ width t) by (apply Z.pow_le_mono_r; lia).
        rewrite as_ty_mod in H. rewrite (Z.mod_small x) in H by lia.
        destruct (Z.testbit x (n - 1)); inversion H; subst; cbn [lift_ty];
          (split; [exact I1|split; [exact X1|split; [exact A1|reflexivity]]]).
    + inversion H; subst. split; [exact I1|split; [exact X1|split; [exact A1|reflexivity]]].
Qed.

Theorem read_signed_bits_c_refines t n r r1 v : cinv r -> 0 <= n -> read_signed_bits_c t n r = (r1, v) ->
  cinv r1 /\ ext r r1 /\
  match read_signed_bits (width t) n (abs_reader r) with
  | Ok (x, a') => v = Ok (as_ty t x) /\ abs_reader r1 = a'
  | Err e => v = Err e /\ abs_reader r1 = abs_reader r
  | _ => False
  end.
Proof.
  intros Hinv Hn H. unfold read_signed_bits_c in H. destruct (peek_signed_bits_c t n r) as [r2 pv] eqn:Ep.
  destruct (peek_signed_bits_c_refines t n r r2 pv Hinv Hn Ep) as (I1 & X1 & A1 & V1).
  unfold read_signed_bits. destruct (peek_signed_bits (width t) n (abs_reader r)) as [x|e|p|] eqn:Epk; cbn [lift_ty] in V1; subst pv; cbn [bind].
  - destruct (skip_bits_c n r2) as [r3 se] eqn:Es.
    destruct (skip_bits_c_refines n r2 r3 se I1 Hn Es) as (I2 & X2 & S2). rewrite A1 in S2.
    destruct (skip_bits n (abs_reader r)) as [a'|e|p|] eqn:Esk; cbn [bind]; try contradiction.
    + destruct S2 as [-> S2]. inversion H; subst. split; [exact I2|split; [eapply ext_trans; eauto|split; [reflexivity|first [exact S2|reflexivity]]]].
    + destruct S2 as [-> S2]. inversion H; subst. split; [exact I2|split; [eapply ext_trans; eauto|split; [reflexivity|first [exact S2|reflexivity]]]].
  - inversion H; subst. split; [exact I1|split; [exact X1|split; [reflexivity|exact A1]]].
  - exfalso. unfold peek_signed_bits, peek_bits in Epk. destruct (width t <? n); [discriminate|].
    destruct (take_bits _ _ _) as [[? ?]|]; cbn [bind] in Epk; [|discriminate]. destruct (n =? 0); [discriminate|]. destruct (Z.testbit _ _); discriminate.
  - exfalso. unfold peek_signed_bits, peek_bits in Epk. destruct (width t <? n); [discriminate|].
    destruct (take_bits _ _ _) as [[? ?]|]; cbn [bind] in Epk; [|discriminate]. destruct (n =? 0); [discriminate|]. destruct (Z.testbit _ _); discriminate.
Qed.

(* ---- rollback, commit ---- *)
Theorem rollback_restores r0 r1 : cinv r0 -> cinv r1 -> ext r0 r1 ->
  exists r2, rollback (checkpoint r0) r1 = (r2, Ok tt) /\ cinv r2 /\ ext r0 r2 /\ abs_reader r2 = abs_reader r0.
Proof.
  intros (Hbr0 & Hb0 & Hs0) (Hbr1 & Hb1 & Hs1) (m & B & S). unfold rollback, checkpoint.
  assert (Hl : zlength (c_buffer r1) = zlength (c_buffer r0) + zlength m) by (rewrite B; apply zlength_app).
  assert (0 <= zlength m) by (unfold zlength; lia).
  destruct (zlength (c_buffer r1) * 8 <? c_bits_read r0) eqn:E; [lia|].
  eexists. split; [reflexivity|]. split; [|split].
  - unfold cinv. cbn [c_bits_read c_buffer c_source]. repeat split; try assumption; lia.
  - exists m. split; assumption.
  - unfold abs_reader, remaining. cbn [c_bits_read c_buffer c_source]. f_equal.
    rewrite B, S, !bits_of_bytes_app, skipn_app, bits_of_bytes_length.
    replace (Z.to_nat (c_bits_read r0) - 8 * length (c_buffer r0))%nat with 0%nat by (unfold zlength in *; lia).
    cbn [skipn]. rewrite app_assoc. reflexivity.
Qed.

Theorem commit_c_refines r : cinv r ->
  cinv (commit_c r) /\ rbits (abs_reader (commit_c r)) = rbits (abs_reader r) /\
  rpos (abs_reader (commit_c r)) mod 8 = rpos (abs_reader r) mod 8.
Proof.
  intros Hinv. pose proof Hinv as (Hbr & Hb & Hs). unfold commit_c. cbn [abs_reader rbits rpos c_bits_read].
  split; [|split].
  - unfold cinv. cbn [c_bits_read c_buffer c_source]. rewrite zlength_skipn by (unfold zlength in *; lia).
    repeat split; try assumption; try (apply Forall_skipn; assumption); unfold zlength in *; lia.
  - rewrite (remaining_from_byte r Hinv). unfold remaining. cbn [c_bits_read c_buffer c_source]. reflexivity.
  - apply Z.mod_mod. lia.
Qed.

(* ---- start-code recognition ---- *)
Lemma skip1_length r r' : skip_bits 1 r = Ok r' -> length (rbits r) = S (length (rbits r')).
Proof.
  unfold skip_bits. change (Z.to_nat 1) with 1%nat. cbn [take_bits]. destruct (rbits r) as [|x l]; [discriminate|].
  intros H. inversion H; subst. reflexivity.
Qed.

Lemma start_code_go_fuel : forall f1 f2 ie mx skip r, (length (rbits r) < f1)%nat -> (length (rbits r) < f2)%nat ->
  start_code_go f1 ie mx skip r = start_code_go f2 ie mx skip r.
Proof.
  induction f1 as [|f1 IH]; intros f2 ie mx skip r H1 H2; [lia|]. destruct f2 as [|f2]; [lia|].
  cbn [start_code_go]. destruct (peek_bits 32 17 r) as [code|e|p|]; cbn [bind]; try reflexivity.
  destruct (code =? 1); [reflexivity|]. destruct (negb ie && (mx <? skip)); [reflexivity|].
  destruct (skip_bits 1 r) as [r'|e|p|] eqn:Es; cbn [bind]; try reflexivity.
  apply skip1_length in Es. apply IH; lia.
Qed.

Lemma as_ty_small t x : 0 <= x < 2 ^ (width t - 1) -> as_ty t x = x.
Proof.
  intros H. unfold as_ty. cbv zeta.
  assert (P : 2 ^ (width t - 1) < 2 ^ width t) by (destruct t; reflexivity).
  rewrite Z.mod_small by lia. destruct (2 ^ (width t - 1) <=? x) eqn:E; [lia|]. rewrite andb_false_r. reflexivity.
Qed.

Lemma start_code_go_c_refines : forall f ie mx skip r r1 v, cinv r -> start_code_go_c f ie mx skip r = (r1, v) ->
  cinv r1 /\ ext r r1 /\ v = start_code_go f ie mx skip (abs_reader r).
Proof.
  induction f as [|f IH]; intros ie mx skip r r1 v Hinv H; cbn [start_code_go_c start_code_go] in *.
  - inversion H; subst. split; [exact Hinv|split; [apply ext_refl|reflexivity]].
  - destruct (peek_bits_c U32 17 r) as [r2 pv] eqn:Ep.
    destruct (peek_bits_c_refines U32 17 r r2 pv Hinv ltac:(lia) Ep) as (I1 & X1 & A1 & V1). change (width U32) with 32 in V1.
    destruct (peek_bits 32 17 (abs_reader r)) as [x|e|p|] eqn:Epk; cbn [lift_ty] in V1; subst pv; cbn [bind].
    + assert (Hx : 0 <= x < 2 ^ 17).
      { unfold peek_bits in Epk. cbn [Z.ltb Z.compare Pos.compare Pos.compare_cont] in Epk.
        destruct (take_bits (Z.to_nat 17) 0 (rbits (abs_reader r))) as [[x0 l0]|] eqn:Et; [|discriminate].
        inversion Epk; subst. apply take_bits_range in Et. change (Z.of_nat (Z.to_nat 17)) with 17 in Et. lia. }
      rewrite (as_ty_small U32 x) in H by (change (2 ^ (width U32 - 1)) with 2147483648; change (2 ^ 17) with 131072 in Hx; lia).
      destruct (x =? 1); [inversion H; subst; split; [exact I1|split; [exact X1|reflexivity]]|].
      destruct (negb ie && (mx <? skip)); [inversion H; subst; split; [exact I1|split; [exact X1|reflexivity]]|].
      destruct (skip_bits_c 1 r2) as [r3 se] eqn:Es.
      destruct (skip_bits_c_refines 1 r2 r3 se I1 ltac:(lia) Es) as (I2 & X2 & S2). rewrite A1 in S2.
      destruct (skip_bits 1 (abs_reader r)) as [a'|e|p|] eqn:Esk; cbn [bind]; try contradiction.
      * destruct S2 as [-> S2]. apply IH in H; [|exact I2]. destruct H as (I3 & X3 & V3). rewrite S2 in V3.
        split; [exact I3|split; [eapply ext_trans; [exact X1|eapply ext_trans; eauto]|exact V3]].
      * destruct S2 as [-> S2]. inversion H; subst. split; [exact I2|split; [eapply ext_trans; eauto|reflexivity]].
    + inversion H; subst. split; [exact I1|split; [exact X1|reflexivity]].
    + inversion H; subst. split; [exact I1|split; [exact X1|reflexivity]].
    + inversion H; subst. split; [exact I1|split; [exact X1|reflexivity]].
Qed.

Theorem recognize_start_code_c_refines ie r r1 v : cinv r -> recognize_start_code_c ie r = (r1, v) ->
  cinv r1 /\ ext r r1 /\ abs_reader r1 = abs_reader r /\ v = recognize_start_code ie (abs_reader r).
Proof.
  intros Hinv H. unfold recognize_start_code_c in H.
  set (fuel := S (length (c_buffer r) * 8 + length (c_source r) * 8)) in *.
  destruct (start_code_go_c fuel ie (realignment_bits_c r) 0 r) as [r2 v2] eqn:Eg.
  destruct (start_code_go_c_refines _ _ _ _ _ _ _ Hinv Eg) as (I1 & X1 & V1).
  destruct (rollback_restores r r2 Hinv I1 X1) as (r3 & Er & I3 & X3 & A3). rewrite Er in H. inversion H; subst r1 v.
  split; [exact I3|split; [exact X3|split; [exact A3|]]].
  rewrite V1. unfold recognize_start_code. change (realignment_bits_c r) with (realignment_bits (abs_reader r)).
  apply start_code_go_fuel; cbn [abs_reader rbits]; pose proof Hinv as (Hbr & _ & _);
    pose proof (remaining_length r Hbr); unfold fuel, zlength in *; lia.
Qed.

(* ---- VLC and UMV ---- *)
Lemma read_bits_small_val w n r x a' : 0 <= n -> read_bits w n r = Ok (x, a') -> 0 <= x < 2 ^ n.
Proof. intros Hn H. eapply read_bits_range; eauto. Qed.

Lemma vlc_go_c_refines {T} (table : list (entry T)) : forall f index r r1 v, cinv r -> vlc_go_c f table index r = (r1, v) ->
  cinv r1 /\ ext r r1 /\
  match vlc_go f table index (abs_reader r) with
  | Ok (t, a') => v = Ok t /\ abs_reader r1 = a'
  | Err e => v = Err e
  | Panic p => v = Panic p
  | OutOfFuel => v = OutOfFuel
  end.
Proof.
  induction f as [|f IH]; intros index r r1 v Hinv H; cbn [vlc_go_c vlc_go] in *.
  - inversion H; subst. split; [exact Hinv|split; [apply ext_refl|reflexivity]].
  - destruct (nth_error table index) as [[t|zero one]|].
    + inversion H; subst. split; [exact Hinv|split; [apply ext_refl|split; reflexivity]].
    + destruct (read_bits_c U8 1 r) as [r2 bv] eqn:Er.
      destruct (read_bits_c_refines U8 1 r r2 bv Hinv ltac:(lia) Er) as (I1 & X1 & R1). change (width U8) with 8 in R1.
      destruct (read_bits 8 1 (abs_reader r)) as [[x a']|e|p|] eqn:Erd; cbn [bind]; try contradiction.
      * destruct R1 as [-> A1]. pose proof (read_bits_small_val 8 1 _ _ _ ltac:(lia) Erd) as Hx.
        rewrite (as_ty_small U8 x) in H by (change (2 ^ (width U8 - 1)) with 128; change (2 ^ 1) with 2 in Hx; lia).
        apply IH in H; [|exact I1]. destruct H as (I2 & X2 & V2). rewrite A1 in V2.
        split; [exact I2|split; [eapply ext_trans; eauto|exact V2]].
      * destruct R1 as [-> A1]. inversion H; subst. split; [exact I1|split; [exact X1|reflexivity]].
    + inversion H; subst. split; [exact Hinv|split; [apply ext_refl|reflexivity]].
Qed.

Lemma umv_go_c_refines : forall f m b r r1 v, cinv r -> umv_go_c f m b r = (r1, v) ->
  cinv r1 /\ ext r r1 /\
  match umv_go f m b (abs_reader r) with
  | Ok (t, a') => v = Ok t /\ abs_reader r1 = a'
  | Err e => v = Err e
  | Panic p => v = Panic p
  | OutOfFuel => v = OutOfFuel
  end.
Proof.
  induction f as [|f IH]; intros m b r r1 v Hinv H; cbn [umv_go_c umv_go] in *.
  - inversion H; subst. split; [exact Hinv|split; [apply ext_refl|reflexivity]].
  - destruct (b <? 4096).
    + destruct (read_bits_c I32 2 r) as [r2 bv] eqn:Er.
      destruct (read_bits_c_refines I32 2 r r2 bv Hinv ltac:(lia) Er) as (I1 & X1 & R1). change (width I32) with 32 in R1.
      destruct (read_bits 32 2 (abs_reader r)) as [[x a']|e|p|] eqn:Erd; cbn [bind]; try contradiction.
      * destruct R1 as [-> A1]. pose proof (read_bits_small_val 32 2 _ _ _ ltac:(lia) Erd) as Hx.
        rewrite (as_ty_small I32 x) in H by (change (2 ^ (width I32 - 1)) with 2147483648; change (2 ^ 2) with 4 in Hx; lia).
        destruct (x =? 0); [inversion H; subst; split; [exact I1|split; [exact X1|split; [reflexivity|first [exact A1|reflexivity]]]]|].
        destruct (x =? 2); [inversion H; subst; split; [exact I1|split; [exact X1|split; [reflexivity|first [exact A1|reflexivity]]]]|].
        destruct (x =? 1); (apply IH in H; [|exact I1]; destruct H as (I2 & X2 & V2); rewrite A1 in V2;
          split; [exact I2|split; [eapply ext_trans; eauto|exact V2]]).
      * destruct R1 as [-> A1]. inversion H; subst. split; [exact I1|split; [exact X1|reflexivity]].
    + inversion H; subst. split; [exact Hinv|split; [apply ext_refl|reflexivity]].
Qed.

(* State-passing forms of the VLC and UMV reads over the abstract reader: a variable-length read that fails part
   way (end of data, dangling table index, overlong UMV code) has consumed the bits it read; outside a transaction
   the caller continues from there.  On success they agree with Reader.vlc_go / Reader.umv_go. *)
Fixpoint vlc_go_s {T} (fuel : nat) (table : list (entry T)) (index : nat) (a : reader) : reader * res T :=
  match fuel with
  | O => (a, OutOfFuel)
  | S f =>
      match nth_error table index with
      | Some (End t) => (a, Ok t)
      | Some (Fork zero one) =>
          match read_bits 8 1 a with
          | Ok (bit, a') => vlc_go_s f table (if bit =? 0 then zero else one) a'
          | Err e => (a, Err e) | Panic p => (a, Panic p) | OutOfFuel => (a, OutOfFuel)
          end
      | None => (a, Err EInternal)
      end
  end.
Lemma vlc_go_s_agrees {T} (table : list (entry T)) : forall f index a,
  match vlc_go f table index a with
  | Ok (t, a') => vlc_go_s f table index a = (a', Ok t)
  | Err e => snd (vlc_go_s f table index a) = Err e
  | Panic p => snd (vlc_go_s f table index a) = Panic p
  | OutOfFuel => snd (vlc_go_s f table index a) = OutOfFuel
  end.
Proof.
  induction f as [|f IH]; intros index a; cbn [vlc_go vlc_go_s]; [reflexivity|].
  destruct (nth_error table index) as [[t|zero one]|]; try reflexivity.
  destruct (read_bits 8 1 a) as [[bit a']|e|p|]; cbn [bind]; try reflexivity. apply IH.
Qed.

Fixpoint umv_go_s (fuel : nat) (mantissa bulk : Z) (a : reader) : reader * res Z :=
  match fuel with
  | O => (a, OutOfFuel)
  | S f =>
      if bulk <? 4096 then
        match read_bits 32 2 a with
        | Ok (code, a') =>
            if code =? 0 then (a', Ok (mantissa + bulk))
            else if code =? 2 then (a', Ok (- (mantissa + bulk)))
            else if code =? 1 then umv_go_s f (2 * mantissa) (2 * bulk) a'
            else umv_go_s f (2 * mantissa + 1) (2 * bulk) a'
        | Err e => (a, Err e) | Panic p => (a, Panic p) | OutOfFuel => (a, OutOfFuel)
        end
      else (a, Err EInvalidMvd)
  end.
Definition read_umv_s (a : reader) : reader * res Z :=
  match read_bits 8 1 a with
  | Ok (start, a') => if start =? 1 then (a', Ok 0) else umv_go_s 14 0 1 a'
  | Err e => (a, Err e) | Panic p => (a, Panic p) | OutOfFuel => (a, OutOfFuel)
  end.
Lemma umv_go_s_agrees : forall f m b a,
  match umv_go f m b a with
  | Ok (t, a') => umv_go_s f m b a = (a', Ok t)
  | Err e => snd (umv_go_s f m b a) = Err e
  | Panic p => snd (umv_go_s f m b a) = Panic p
  | OutOfFuel => snd (umv_go_s f m b a) = OutOfFuel
  end.
Proof.
  induction f as [|f IH]; intros m b a; cbn [umv_go umv_go_s]; [reflexivity|].
  destruct (b <? 4096); [|reflexivity].
  destruct (read_bits 32 2 a) as [[code a']|e|p|]; cbn [bind]; try reflexivity.
  destruct (code =? 0); [reflexivity|]. destruct (code =? 2); [reflexivity|]. destruct (code =? 1); apply IH.
Qed.
Lemma read_umv_s_agrees a :
  match read_umv a with
  | Ok (t, a') => read_umv_s a = (a', Ok t)
  | Err e => snd (read_umv_s a) = Err e
  | Panic p => snd (read_umv_s a) = Panic p
  | OutOfFuel => snd (read_umv_s a) = OutOfFuel
  end.
Proof.
  unfold read_umv, read_umv_s. destruct (read_bits 8 1 a) as [[st a']|e|p|]; cbn [bind]; try reflexivity.
  destruct (st =? 1); [reflexivity|]. apply umv_go_s_agrees.
Qed.

Lemma vlc_go_c_sim {T} (table : list (entry T)) : forall f index r r1 v, cinv r -> vlc_go_c f table index r = (r1, v) ->
  cinv r1 /\ ext r r1 /\ (abs_reader r1, v) = vlc_go_s f table index (abs_reader r).
Proof.
  induction f as [|f IH]; intros index r r1 v Hinv H; cbn [vlc_go_c vlc_go_s] in *.
  - inversion H; subst. split; [exact Hinv|split; [apply ext_refl|reflexivity]].
  - destruct (nth_error table index) as [[t|zero one]|].
    + inversion H; subst. split; [exact Hinv|split; [apply ext_refl|reflexivity]].
    + destruct (read_bits_c U8 1 r) as [r2 bv] eqn:Er.
      destruct (read_bits_c_refines U8 1 r r2 bv Hinv ltac:(lia) Er) as (I1 & X1 & R1). change (width U8) with 8 in R1.
      destruct (read_bits 8 1 (abs_reader r)) as [[x a']|e|p|] eqn:Erd; try contradiction.
      * destruct R1 as [-> A1]. pose proof (read_bits_small_val 8 1 _ _ _ ltac:(lia) Erd) as Hx.
        rewrite (as_ty_small U8 x) in H by (change (2 ^ (width U8 - 1)) with 128; change (2 ^ 1) with 2 in Hx; lia).
        apply IH in H; [|exact I1]. destruct H as (I2 & X2 & V2). rewrite A1 in V2.
        split; [exact I2|split; [eapply ext_trans; eauto|exact V2]].
      * destruct R1 as [-> A1]. inversion H; subst. split; [exact I1|split; [exact X1|rewrite A1; reflexivity]].
    + inversion H; subst. split; [exact Hinv|split; [apply ext_refl|reflexivity]].
Qed.

Lemma umv_go_c_sim : forall f m b r r1 v, cinv r -> umv_go_c f m b r = (r1, v) ->
  cinv r1 /\ ext r r1 /\ (abs_reader r1, v) = umv_go_s f m b (abs_reader r).
Proof.
  induction f as [|f IH]; intros m b r r1 v Hinv H; cbn [umv_go_c umv_go_s] in *.
  - inversion H; subst. split; [exact Hinv|split; [apply ext_refl|reflexivity]].
  - destruct (b <? 4096).
    + destruct (read_bits_c I32 2 r) as [r2 bv] eqn:Er.
      destruct (read_bits_c_refines I32 2 r r2 bv Hinv ltac:(lia) Er) as (I1 & X1 & R1). change (width I32) with 32 in R1.
      destruct (read_bits 32 2 (abs_reader r)) as [[x a']|e|p|] eqn:Erd; try contradiction.
      * destruct R1 as [-> A1]. pose proof (read_bits_small_val 32 2 _ _ _ ltac:(lia) Erd) as Hx.
        rewrite (as_ty_small I32 x) in H by (change (2 ^ (width I32 - 1)) with 2147483648; change (2 ^ 2) with 4 in Hx; lia).
        destruct (x =? 0); [inversion H; subst; split; [exact I1|split; [exact X1|reflexivity]]|].
        destruct (x =? 2); [inversion H; subst; split; [exact I1|split; [exact X1|reflexivity]]|].
        destruct (x =? 1); (apply IH in H; [|exact I1]; destruct H as (I2 & X2 & V2); rewrite A1 in V2;
          split; [exact I2|split; [eapply ext_trans; eauto|exact V2]]).
      * destruct R1 as [-> A1]. inversion H; subst. split; [exact I1|split; [exact X1|rewrite A1; reflexivity]].
    + inversion H; subst. split; [exact Hinv|split; [apply ext_refl|reflexivity]].
Qed.

Lemma read_umv_c_sim r r1 v : cinv r -> read_umv_c r = (r1, v) ->
  cinv r1 /\ ext r r1 /\ (abs_reader r1, v) = read_umv_s (abs_reader r).
Proof.
  intros Hinv H. unfold read_umv_c, read_umv_s in *.
  destruct (read_bits_c U8 1 r) as [r2 bv] eqn:Er.
  destruct (read_bits_c_refines U8 1 r r2 bv Hinv ltac:(lia) Er) as (I1 & X1 & R1). change (width U8) with 8 in R1.
  destruct (read_bits 8 1 (abs_reader r)) as [[x a']|e|p|] eqn:Erd; try contradiction.
  - destruct R1 as [-> A1]. pose proof (read_bits_small_val 8 1 _ _ _ ltac:(lia) Erd) as Hx.
    rewrite (as_ty_small U8 x) in H by (change (2 ^ (width U8 - 1)) with 128; change (2 ^ 1) with 2 in Hx; lia).
    destruct (x =? 1); [inversion H; subst; split; [exact I1|split; [exact X1|reflexivity]]|].
    apply umv_go_c_sim in H; [|exact I1]. destruct H as (I2 & X2 & V2). rewrite A1 in V2.
    split; [exact I2|split; [eapply ext_trans; eauto|exact V2]].
  - destruct R1 as [-> A1]. inversion H; subst. split; [exact I1|split; [exact X1|rewrite A1; reflexivity]].
Qed.

(* ------------------------------------------------------------------------------------------------------------
   Any interleaving: an interpreter of the same operation trees over the ABSTRACT reader (a list of unread bits
   and a position), in which a peek, a look-ahead, a failed read and a failed transaction leave the reader as it
   was by construction; and the theorem that the concrete machine, started from any state satisfying the
   invariant, produces the same tokens, the same final result and a final state whose abstraction is the abstract
   interpreter's final reader. *)
Definition commit_a (a : reader) : reader := mkReader (rbits a) (rpos a mod 8).
Definition grow_a (a : reader) (bytes : list Z) : reader := mkReader (rbits a ++ bits_of_bytes bytes) (rpos a).

Definition asimple (k : reader -> reader * list tok * res unit) (strict : bool) (a1 : reader) (v : res Z) : reader * list tok * res unit :=
  match v with
  | Ok _ => let '(a2, ts, e) := k a1 in (a2, tok_of_res v :: ts, e)
  | Err e => if strict then (a1, [tok_of_res v], Err e)
             else let '(a2, ts, e2) := k a1 in (a2, tok_of_res v :: ts, e2)
  | Panic p => (a1, [TPanic], Panic p)
  | OutOfFuel => (a1, [TPanic], OutOfFuel)
  end.
(* an abstract read: value and new reader, or an error and the old reader *)
Definition aread {A} (a : reader) (x : res (A * reader)) (f : A -> Z) : reader * res Z :=
  match x with Ok (v, a') => (a', Ok (f v)) | Err e => (a, Err e) | Panic p => (a, Panic p) | OutOfFuel => (a, OutOfFuel) end.

Fixpoint run_ops_a (fuel : nat) (strict : bool) (ops : list rop) (a : reader) : reader * list tok * res unit :=
  match fuel with
  | O => (a, [], OutOfFuel)
  | S f =>
      match ops with
      | [] => (a, [], Ok tt)
      | o :: rest =>
          let k := run_ops_a f strict rest in
          let rd (x : reader * res Z) := asimple k strict (fst x) (snd x) in
          match o with
          | OPeek t n => asimple k strict a (lift_ty t (peek_bits (width t) n a))
          | ORead t n => rd (aread a (read_bits (width t) n a) (as_ty t))
          | OPeekS t n => asimple k strict a (lift_ty t (peek_signed_bits (width t) n a))
          | OReadS t n => rd (aread a (read_signed_bits (width t) n a) (as_ty t))
          | OSkip n => rd (match skip_bits n a with Ok a' => (a', Ok 0) | Err e => (a, Err e) | Panic p => (a, Panic p) | OutOfFuel => (a, OutOfFuel) end)
          | OU8 => rd (aread a (read_bits 8 8 a) (as_ty U8))
          | OVlc tb => rd (let tbl := if tb =? 0 then test_table_0 else test_table_1 in vlc_go_s (S (length tbl)) tbl 0%nat a)
          | OUmv => rd (read_umv_s a)
          | OStartCode ie =>
              match recognize_start_code ie a with
              | Ok None => let '(a2, ts, e) := k a in (a2, TNone :: ts, e)
              | Ok (Some s) => let '(a2, ts, e) := k a in (a2, TSome s :: ts, e)
              | Err e => if strict then (a, [TErr e], Err e) else let '(a2, ts, e2) := k a in (a2, TErr e :: ts, e2)
              | Panic p => (a, [TPanic], Panic p)
              | OutOfFuel => (a, [TPanic], OutOfFuel)
              end
          | OCommit => let '(a2, ts, e) := k (commit_a a) in (a2, TUnit :: ts, e)
          | OGrow bytes => let '(a2, ts, e) := k (grow_a a bytes) in (a2, TUnit :: ts, e)
          | OTx body force_err =>
              let '(a1, ts1, e1) := run_ops_a f true body a in
              let result : res (option unit) :=
                match e1 with
                | Ok _ => if force_err then Err EInvalidBitstream else Ok (Some tt)
                | Err e => Err e | Panic p => Panic p | OutOfFuel => OutOfFuel
                end in
              match result with
              | Panic p => (a1, ts1 ++ [TPanic], Panic p)
              | OutOfFuel => (a1, ts1 ++ [TPanic], OutOfFuel)
              | Err e => let '(a3, ts, e3) := k a in (a3, ts1 ++ TClose 0 (Err e) :: ts, e3)       (* nothing consumed *)
              | Ok v => let '(a3, ts, e3) := k a1 in (a3, ts1 ++ TClose 0 (Ok v) :: ts, e3)
              end
          | OTxUnion body verdict =>
              let '(a1, ts1, e1) := run_ops_a f true body a in
              let result : res (option unit) :=
                match e1 with
                | Ok _ => if verdict =? 1 then Err EInvalidBitstream else if verdict =? 2 then Ok None else Ok (Some tt)
                | Err e => Err e | Panic p => Panic p | OutOfFuel => OutOfFuel
                end in
              match result with
              | Panic p => (a1, ts1 ++ [TPanic], Panic p)
              | OutOfFuel => (a1, ts1 ++ [TPanic], OutOfFuel)
              | Ok (Some v) => let '(a3, ts, e3) := k a1 in (a3, ts1 ++ TClose 1 (Ok (Some v)) :: ts, e3)
              | _ => let '(a3, ts, e3) := k a in (a3, ts1 ++ TClose 1 result :: ts, e3)            (* nothing consumed *)
              end
          | OLookahead body =>
              let '(a1, ts1, e1) := run_ops_a f true body a in
              match e1 with
              | Panic p => (a1, ts1 ++ [TPanic], Panic p)
              | OutOfFuel => (a1, ts1 ++ [TPanic], OutOfFuel)
              | _ =>
                  let final : res (option unit) := match e1 with Ok _ => Ok (Some tt) | Err e => Err e | Panic p => Panic p | OutOfFuel => OutOfFuel end in
                  let '(a3, ts, e3) := k a in (a3, ts1 ++ TClose 2 final :: ts, e3)                 (* nothing consumed *)
              end
          end
      end
  end.

(* operation trees the theorem covers: widths are naturals (u32 in the code), grown bytes are bytes, and no commit
   or source growth happens INSIDE a transaction or look-ahead (a checkpoint is a bit offset into the buffer that
   commit truncates: the code has the same restriction) *)
Fixpoint pure_op (o : rop) : bool :=
  match o with
  | OCommit | OGrow _ => false
  | OTx b _ | OTxUnion b _ | OLookahead b => forallb pure_op b
  | _ => true
  end.
Fixpoint wf_op (o : rop) : bool :=
  match o with
  | OPeek _ n | ORead _ n | OPeekS _ n | OReadS _ n | OSkip n => 0 <=? n
  | OGrow bytes => forallb (fun b => (0 <=? b) && (b <? 256)) bytes
  | OTx b _ | OTxUnion b _ | OLookahead b => forallb pure_op b && forallb wf_op b
  | _ => true
  end.

Definition rel (r : creader) (pure : bool) (c : creader * list tok * res unit) (a : reader * list tok * res unit) : Prop :=
  cinv (fst (fst c)) /\ abs_reader (fst (fst c)) = fst (fst a) /\ snd (fst c) = snd (fst a) /\ snd c = snd a /\
  (pure = true -> ext r (fst (fst c))).

Definition csimple (k : creader -> creader * list tok * res unit) (strict : bool) (x : creader * res Z) : creader * list tok * res unit :=
  let '(r1, v) := x in
  match v with
  | Ok _ => let '(r2, ts, e) := k r1 in (r2, tok_of_res v :: ts, e)
  | Err e => if strict then (r1, [tok_of_res v], Err e)
             else let '(r2, ts, e2) := k r1 in (r2, tok_of_res v :: ts, e2)
  | Panic p => (r1, [TPanic], Panic p)
  | OutOfFuel => (r1, [TPanic], OutOfFuel)
  end.

Lemma simple_sim (kc : creader -> creader * list tok * res unit) (ka : reader -> reader * list tok * res unit) pure strict r r1 cv a1 :
  (forall r', cinv r' -> rel r' pure (kc r') (ka (abs_reader r'))) ->
  cinv r1 -> abs_reader r1 = a1 -> ext r r1 ->
  rel r pure (csimple kc strict (r1, cv)) (asimple ka strict a1 cv).
Proof.
  intros IH I1 A1 X1. unfold csimple, asimple. subst a1.
  assert (K : rel r pure (let '(r2, ts, e) := kc r1 in (r2, tok_of_res cv :: ts, e))
                         (let '(a2, ts, e) := ka (abs_reader r1) in (a2, tok_of_res cv :: ts, e))).
  { specialize (IH r1 I1). destruct (kc r1) as [[r2 ts] e]. destruct (ka (abs_reader r1)) as [[a2 ts'] e'].
    unfold rel in *. cbn [fst snd] in *. destruct IH as (J1 & J2 & J3 & J4 & J5).
    split; [exact J1|split; [exact J2|split; [f_equal; exact J3|split; [exact J4|]]]].
    intros Hp. eapply ext_trans; [exact X1|apply J5; exact Hp]. }
  destruct cv as [x|e|p|].
  - exact K.
  - destruct strict; [|exact K]. unfold rel. cbn [fst snd]. split; [exact I1|split; [reflexivity|split; [reflexivity|split; [reflexivity|intros _; exact X1]]]].
  - unfold rel. cbn [fst snd]. split; [exact I1|split; [reflexivity|split; [reflexivity|split; [reflexivity|intros _; exact X1]]]].
  - unfold rel. cbn [fst snd]. split; [exact I1|split; [reflexivity|split; [reflexivity|split; [reflexivity|intros _; exact X1]]]].
Qed.

Lemma forallb_byte_isbyte bytes : forallb (fun b => (0 <=? b) && (b <? 256)) bytes = true -> Forall isbyte bytes.
Proof. intros H. rewrite forallb_forall in H. apply Forall_forall. intros x Hx. specialize (H x Hx). unfold isbyte. lia. Qed.

Lemma cont_sim (kc : creader -> creader * list tok * res unit) (ka : reader -> reader * list tok * res unit) pure r r1 a1 pre T :
  (forall r', cinv r' -> rel r' pure (kc r') (ka (abs_reader r'))) ->
  cinv r1 -> abs_reader r1 = a1 -> (pure = true -> ext r r1) ->
  rel r pure (let '(r2, ts, e) := kc r1 in (r2, pre ++ T :: ts, e)) (let '(a2, ts, e) := ka a1 in (a2, pre ++ T :: ts, e)).
Proof.
  intros IH I1 A1 X1. subst a1. specialize (IH r1 I1). destruct (kc r1) as [[r2 ts] e]. destruct (ka (abs_reader r1)) as [[a2 ts'] e'].
  unfold rel in *. cbn [fst snd] in *. destruct IH as (J1 & J2 & J3 & J4 & J5).
  split; [exact J1|split; [exact J2|split; [rewrite J3; reflexivity|split; [exact J4|]]]].
  intros Hp. eapply ext_trans; [apply X1; exact Hp|apply J5; exact Hp].
Qed.

Lemma rel_false r r' p c a : rel r' p c a -> rel r false c a.
Proof. unfold rel. intros (J1 & J2 & J3 & J4 & _). split; [exact J1|split; [exact J2|split; [exact J3|split; [exact J4|discriminate]]]]. Qed.

Lemma stop_sim r pure r1 a1 ts e : cinv r1 -> abs_reader r1 = a1 -> (pure = true -> ext r r1) -> rel r pure (r1, ts, e) (a1, ts, e).
Proof. intros H1 H2 H3. unfold rel. cbn [fst snd]. split; [exact H1|split; [exact H2|split; [reflexivity|split; [reflexivity|exact H3]]]]. Qed.

Lemma grow_abs r bytes : abs_reader (mkC (c_source r ++ bytes) (c_buffer r) (c_bits_read r)) = grow_a (abs_reader r) bytes.
Proof. unfold abs_reader, grow_a, remaining. cbn [c_source c_buffer c_bits_read rbits rpos]. rewrite bits_of_bytes_app, app_assoc. reflexivity. Qed.

Lemma commit_abs r : cinv r -> abs_reader (commit_c r) = commit_a (abs_reader r).
Proof.
  intros Hinv. destruct (commit_c_refines r Hinv) as (_ & Hb & _). unfold commit_a. cbn [abs_reader rbits rpos] in *.
  unfold abs_reader. rewrite Hb. reflexivity.
Qed.

Ltac rd_case L :=
  match goal with
  | |- rel _ _ (csimple _ _ ?x) _ =>
      let r1 := fresh "r1" in let v := fresh "v" in let E := fresh "E" in
      destruct x as [r1 v] eqn:E;
      let I1 := fresh "I1" in let X1 := fresh "X1" in let R1 := fresh "R1" in
      destruct (L r1 v) as (I1 & X1 & R1); [assumption|try lia|exact E|]
  end.

Theorem run_ops_refines : forall fuel strict ops r, cinv r -> forallb wf_op ops = true ->
  rel r (forallb pure_op ops) (run_ops fuel strict ops r) (run_ops_a fuel strict ops (abs_reader r)).
Proof.
  induction fuel as [|f IH]; intros strict ops r Hinv Hwf.
  - cbn. apply stop_sim; [exact Hinv|reflexivity|intros _; apply ext_refl].
  - destruct ops as [|o rest].
    + cbn. apply stop_sim; [exact Hinv|reflexivity|intros _; apply ext_refl].
    + cbn [forallb] in Hwf. apply andb_prop in Hwf. destruct Hwf as [Hwo Hwr].
      assert (IHr : forall r', cinv r' -> rel r' (forallb pure_op rest) (run_ops f strict rest r') (run_ops_a f strict rest (abs_reader r')))
        by (intros r' Hr'; apply IH; assumption).
      destruct o as [t n|t n|t n|t n|n| |tb| |ie| |body fe|body vd|body|bytes]; cbn [forallb pure_op andb wf_op] in *.
      * (* OPeek *)
        change (run_ops (S f) strict (OPeek t n :: rest) r) with (csimple (run_ops f strict rest) strict (peek_bits_c t n r)).
        change (run_ops_a (S f) strict (OPeek t n :: rest) (abs_reader r))
          with (asimple (run_ops_a f strict rest) strict (abs_reader r) (lift_ty t (peek_bits (width t) n (abs_reader r)))).
        destruct (peek_bits_c t n r) as [r1 v] eqn:E.
        destruct (peek_bits_c_refines t n r r1 v Hinv ltac:(lia) E) as (I1 & X1 & A1 & V1). subst v.
        apply simple_sim; assumption.
      * (* ORead *)
        change (run_ops (S f) strict (ORead t n :: rest) r) with (csimple (run_ops f strict rest) strict (read_bits_c t n r)).
        change (run_ops_a (S f) strict (ORead t n :: rest) (abs_reader r))
          with (let x := aread (abs_reader r) (read_bits (width t) n (abs_reader r)) (as_ty t) in asimple (run_ops_a f strict rest) strict (fst x) (snd x)).
        destruct (read_bits_c t n r) as [r1 v] eqn:E.
        destruct (read_bits_c_refines t n r r1 v Hinv ltac:(lia) E) as (I1 & X1 & R1).
        destruct (read_bits (width t) n (abs_reader r)) as [[x a']|e|p|]; try contradiction; destruct R1 as [-> A1]; cbn [aread fst snd];
          apply simple_sim; assumption.
      * (* OPeekS *)
        change (run_ops (S f) strict (OPeekS t n :: rest) r) with (csimple (run_ops f strict rest) strict (peek_signed_bits_c t n r)).
        change (run_ops_a (S f) strict (OPeekS t n :: rest) (abs_reader r))
          with (asimple (run_ops_a f strict rest) strict (abs_reader r) (lift_ty t (peek_signed_bits (width t) n (abs_reader r)))).
        destruct (peek_signed_bits_c t n r) as [r1 v] eqn:E.
        destruct (peek_signed_bits_c_refines t n r r1 v Hinv ltac:(lia) E) as (I1 & X1 & A1 & V1). subst v.
        apply simple_sim; assumption.
      * (* OReadS *)
        change (run_ops (S f) strict (OReadS t n :: rest) r) with (csimple (run_ops f strict rest) strict (read_signed_bits_c t n r)).
        change (run_ops_a (S f) strict (OReadS t n :: rest) (abs_reader r))
          with (let x := aread (abs_reader r) (read_signed_bits (width t) n (abs_reader r)) (as_ty t) in asimple (run_ops_a f strict rest) strict (fst x) (snd x)).
        destruct (read_signed_bits_c t n r) as [r1 v] eqn:E.
        destruct (read_signed_bits_c_refines t n r r1 v Hinv ltac:(lia) E) as (I1 & X1 & R1).
        destruct (read_signed_bits (width t) n (abs_reader r)) as [[x a']|e|p|]; try contradiction; destruct R1 as [-> A1]; cbn [aread fst snd];
          apply simple_sim; assumption.
      * (* OSkip *)
        change (run_ops (S f) strict (OSkip n :: rest) r)
          with (csimple (run_ops f strict rest) strict
                  (let '(r1, e) := skip_bits_c n r in (r1, match e with Ok _ => Ok 0 | Err e => Err e | Panic p => Panic p | OutOfFuel => OutOfFuel end))).
        change (run_ops_a (S f) strict (OSkip n :: rest) (abs_reader r))
          with (let x := match skip_bits n (abs_reader r) with Ok a' => (a', Ok 0) | Err e => (abs_reader r, Err e)
                         | Panic p => (abs_reader r, Panic p) | OutOfFuel => (abs_reader r, OutOfFuel) end in
                asimple (run_ops_a f strict rest) strict (fst x) (snd x)).
        destruct (skip_bits_c n r) as [r1 e] eqn:E.
        destruct (skip_bits_c_refines n r r1 e Hinv ltac:(lia) E) as (I1 & X1 & R1).
        destruct (skip_bits n (abs_reader r)) as [a'|e'|p|]; try contradiction; destruct R1 as [-> A1]; cbn [fst snd];
          apply simple_sim; assumption.
      * (* OU8 *)
        change (run_ops (S f) strict (OU8 :: rest) r) with (csimple (run_ops f strict rest) strict (read_bits_c U8 8 r)).
        change (run_ops_a (S f) strict (OU8 :: rest) (abs_reader r))
          with (let x := aread (abs_reader r) (read_bits 8 8 (abs_reader r)) (as_ty U8) in asimple (run_ops_a f strict rest) strict (fst x) (snd x)).
        destruct (read_bits_c U8 8 r) as [r1 v] eqn:E.
        destruct (read_bits_c_refines U8 8 r r1 v Hinv ltac:(lia) E) as (I1 & X1 & R1). change (width U8) with 8 in R1.
        destruct (read_bits 8 8 (abs_reader r)) as [[x a']|e|p|]; try contradiction; destruct R1 as [-> A1]; cbn [aread fst snd];
          apply simple_sim; assumption.
      * (* OVlc *)
        change (run_ops (S f) strict (OVlc tb :: rest) r)
          with (csimple (run_ops f strict rest) strict (read_vlc_c (if tb =? 0 then test_table_0 else test_table_1) r)).
        change (run_ops_a (S f) strict (OVlc tb :: rest) (abs_reader r))
          with (let x := (let tbl := if tb =? 0 then test_table_0 else test_table_1 in vlc_go_s (S (length tbl)) tbl 0%nat (abs_reader r)) in
                asimple (run_ops_a f strict rest) strict (fst x) (snd x)).
        unfold read_vlc_c. cbv zeta.
        destruct (vlc_go_c _ _ _ r) as [r1 v] eqn:E.
        destruct (vlc_go_c_sim _ _ _ r r1 v Hinv E) as (I1 & X1 & V1). rewrite <- V1. cbn [fst snd].
        apply simple_sim; try assumption. reflexivity.
      * (* OUmv *)
        change (run_ops (S f) strict (OUmv :: rest) r) with (csimple (run_ops f strict rest) strict (read_umv_c r)).
        change (run_ops_a (S f) strict (OUmv :: rest) (abs_reader r))
          with (let x := read_umv_s (abs_reader r) in asimple (run_ops_a f strict rest) strict (fst x) (snd x)).
        destruct (read_umv_c r) as [r1 v] eqn:E.
        destruct (read_umv_c_sim r r1 v Hinv E) as (I1 & X1 & V1). cbv zeta. rewrite <- V1. cbn [fst snd].
        apply simple_sim; try assumption. reflexivity.
      * (* OStartCode *)
        cbn [run_ops run_ops_a]. cbv zeta.
        destruct (recognize_start_code_c ie r) as [r1 v] eqn:E.
        destruct (recognize_start_code_c_refines ie r r1 v Hinv E) as (I1 & X1 & A1 & V1). subst v.
        destruct (recognize_start_code ie (abs_reader r)) as [[s|]|e|p|].
        -- apply (cont_sim _ _ _ r r1 (abs_reader r) [] (TSome s)); try assumption. intros _; exact X1.
        -- apply (cont_sim _ _ _ r r1 (abs_reader r) [] TNone); try assumption. intros _; exact X1.
        -- destruct strict.
           ++ apply stop_sim; [exact I1|exact A1|intros _; exact X1].
           ++ apply (cont_sim _ _ _ r r1 (abs_reader r) [] (TErr e)); try assumption. intros _; exact X1.
        -- apply stop_sim; [exact I1|exact A1|intros _; exact X1].
        -- apply stop_sim; [exact I1|exact A1|intros _; exact X1].
      * (* OCommit *)
        cbn [run_ops run_ops_a]. cbv zeta.
        destruct (commit_c_refines r Hinv) as (I1 & _ & _).
        apply (cont_sim _ _ false r (commit_c r) (commit_a (abs_reader r)) [] TUnit);
          [intros r' Hr'; eapply rel_false; apply IHr; exact Hr'|exact I1|apply commit_abs; exact Hinv|discriminate].
      * (* OTx *)
        apply andb_prop in Hwo. destruct Hwo as [Hpb Hwb].
        pose proof (IH true body r Hinv Hwb) as IB. rewrite Hpb in IB. rewrite Hpb. cbn [andb].
        cbn [run_ops run_ops_a]. cbv zeta.
        destruct (run_ops f true body r) as [[r1 ts1] e1]. destruct (run_ops_a f true body (abs_reader r)) as [[a1 ts1'] e1'].
        unfold rel in IB. cbn [fst snd] in IB. destruct IB as (I1 & A1 & <- & <- & X1). specialize (X1 eq_refl).
        destruct (rollback_restores r r1 Hinv I1 X1) as (r2 & Er & I2 & X2 & A2).
        destruct e1 as [u|e|p|].
        -- destruct fe.
           ++ rewrite Er. apply (cont_sim _ _ _ r r2 (abs_reader r) ts1 (TClose 0 (Err EInvalidBitstream))); try assumption. intros _; exact X2.
           ++ apply (cont_sim _ _ _ r r1 a1 ts1 (TClose 0 (Ok (Some tt)))); try assumption. intros _; exact X1.
        -- rewrite Er. apply (cont_sim _ _ _ r r2 (abs_reader r) ts1 (TClose 0 (Err e))); try assumption. intros _; exact X2.
        -- apply stop_sim; [exact I1|exact A1|intros _; exact X1].
        -- apply stop_sim; [exact I1|exact A1|intros _; exact X1].
      * (* OTxUnion *)
        apply andb_prop in Hwo. destruct Hwo as [Hpb Hwb].
        pose proof (IH true body r Hinv Hwb) as IB. rewrite Hpb in IB. rewrite Hpb. cbn [andb].
        cbn [run_ops run_ops_a]. cbv zeta.
        destruct (run_ops f true body r) as [[r1 ts1] e1]. destruct (run_ops_a f true body (abs_reader r)) as [[a1 ts1'] e1'].
        unfold rel in IB. cbn [fst snd] in IB. destruct IB as (I1 & A1 & <- & <- & X1). specialize (X1 eq_refl).
        destruct (rollback_restores r r1 Hinv I1 X1) as (r2 & Er & I2 & X2 & A2).
        destruct e1 as [u|e|p|].
        -- destruct (vd =? 1).
           ++ rewrite Er. apply (cont_sim _ _ _ r r2 (abs_reader r) ts1 (TClose 1 (Err EInvalidBitstream))); try assumption. intros _; exact X2.
           ++ destruct (vd =? 2).
              ** rewrite Er. apply (cont_sim _ _ _ r r2 (abs_reader r) ts1 (TClose 1 (Ok None))); try assumption. intros _; exact X2.
              ** apply (cont_sim _ _ _ r r1 a1 ts1 (TClose 1 (Ok (Some tt)))); try assumption. intros _; exact X1.
        -- rewrite Er. apply (cont_sim _ _ _ r r2 (abs_reader r) ts1 (TClose 1 (Err e))); try assumption. intros _; exact X2.
        -- apply stop_sim; [exact I1|exact A1|intros _; exact X1].
        -- apply stop_sim; [exact I1|exact A1|intros _; exact X1].
      * (* OLookahead *)
        apply andb_prop in Hwo. destruct Hwo as [Hpb Hwb].
        pose proof (IH true body r Hinv Hwb) as IB. rewrite Hpb in IB. rewrite Hpb. cbn [andb].
        cbn [run_ops run_ops_a]. cbv zeta.
        destruct (run_ops f true body r) as [[r1 ts1] e1]. destruct (run_ops_a f true body (abs_reader r)) as [[a1 ts1'] e1'].
        unfold rel in IB. cbn [fst snd] in IB. destruct IB as (I1 & A1 & <- & <- & X1). specialize (X1 eq_refl).
        destruct (rollback_restores r r1 Hinv I1 X1) as (r2 & Er & I2 & X2 & A2).
        destruct e1 as [u|e|p|].
        -- rewrite Er. apply (cont_sim _ _ _ r r2 (abs_reader r) ts1 (TClose 2 (Ok (Some tt)))); try assumption. intros _; exact X2.
        -- rewrite Er. apply (cont_sim _ _ _ r r2 (abs_reader r) ts1 (TClose 2 (Err e))); try assumption. intros _; exact X2.
        -- apply stop_sim; [exact I1|exact A1|intros _; exact X1].
        -- apply stop_sim; [exact I1|exact A1|intros _; exact X1].
      * (* OGrow *)
        cbn [run_ops run_ops_a]. cbv zeta.
        apply (cont_sim _ _ false r (mkC (c_source r ++ bytes) (c_buffer r) (c_bits_read r)) (grow_a (abs_reader r) bytes) [] TUnit);
          [intros r' Hr'; eapply rel_false; apply IHr; exact Hr'| |apply grow_abs|discriminate].
        destruct Hinv as (H1 & H2 & H3). unfold cinv. cbn [c_source c_buffer c_bits_read]. split; [exact H1|split; [exact H2|]].
        apply Forall_app. split; [exact H3|apply forallb_byte_isbyte; exact Hwo].
Qed.

(* from a fresh reader over any byte string *)
Theorem reader_refines bytes ops fuel : Forall isbyte bytes -> forallb wf_op ops = true ->
  let c := run_ops fuel false ops (from_source bytes) in
  let a := run_ops_a fuel false ops (reader_of_bytes bytes) in
  snd (fst c) = snd (fst a) /\ snd c = snd a /\ abs_reader (fst (fst c)) = fst (fst a).
Proof.
  intros Hb Hwf. cbv zeta.
  assert (Hinv : cinv (from_source bytes)).
  { unfold cinv, from_source. cbn [c_bits_read c_buffer c_source]. change (zlength (@nil Z)) with 0. split; [lia|split; [constructor|exact Hb]]. }
  pose proof (run_ops_refines fuel false ops (from_source bytes) Hinv Hwf) as R.
  change (abs_reader (from_source bytes)) with (reader_of_bytes bytes) in R.
  unfold rel in R. destruct R as (_ & A & T & E & _). split; [exact T|split; [exact E|exact A]].
Qed.
