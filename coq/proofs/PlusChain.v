(* C06: optional modes stay in force through any number of headers that do not retransmit them (UFEP = 000). *)
From H263V Require Import base.Prelude model.Types model.Tables model.Reader model.Header spec.SpecHeader
  proofs.ReaderLemmas proofs.HeaderLemmas proofs.HeaderRoundTrip proofs.BitFields proofs.PlusRoundTrip.

Lemma inherited_of_plus0 scal prev h :
  inherited (Some (picture_of_plus0 scal (inherited prev) h)) = inherited prev.
Proof.
  unfold inherited at 1. unfold picture_of_plus0. cbn [options].
  rewrite !Z.land_lor_distr_l.
  assert (A : Z.land (flag_if (q_split h) USE_SPLIT_SCREEN + flag_if (q_doccam h) USE_DOCUMENT_CAMERA + flag_if (q_freeze h) RELEASE_FULL_PICTURE_FREEZE) opptype_options_parser = 0)
    by (destruct (q_split h), (q_doccam h), (q_freeze h); reflexivity).
  assert (B : Z.land (flag_if false REFERENCE_PICTURE_RESAMPLING + flag_if (q_rru h) REDUCED_RESOLUTION_UPDATE + flag_if (q_rtype h) ROUNDING_TYPE_ONE) opptype_options_parser = 0)
    by (destruct (q_rru h), (q_rtype h); reflexivity).
  rewrite A, B. unfold inherited. rewrite <- Z.land_assoc, Z.land_diag. rewrite Z.lor_0_l, Z.lor_0_r. reflexivity.
Qed.

(* the decoder's view of the previous header after a run of UFEP = 000 headers *)
Definition after_chain (scal : bool) (prev : option picture) (hs : list plus0_header) : option picture :=
  fold_left (fun p h => Some (picture_of_plus0 scal (inherited p) h)) hs prev.

Lemma inherited_after_chain scal hs : forall prev, inherited (after_chain scal prev hs) = inherited prev.
Proof.
  induction hs as [|h hs IH]; intros prev; [reflexivity|]. unfold after_chain in *. cbn [fold_left]. rewrite IH. apply inherited_of_plus0.
Qed.

(* each header of the run parses to the header that carries the ORIGINAL modes, whatever its position in the run *)
Theorem plus0_chain_roundtrip scal prev hs h rest pos :
  wf_plus0 h ->
  exists pos', decode_picture (mkOpts false scal) (after_chain scal prev hs)
                 (mkReader (enc_plus0 scal (Z.testbit (inherited prev) 9) h ++ rest) pos)
               = Ok (Some (picture_of_plus0 scal (inherited prev) h), mkReader rest pos').
Proof.
  intros Hwf. destruct (plus0_roundtrip h (after_chain scal prev hs) scal rest pos Hwf) as [p' E].
  rewrite inherited_after_chain in E. exists p'. exact E.
Qed.
