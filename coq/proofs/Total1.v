(* C01, part 1: the reader operations and the parsers never panic and never run
   out of fuel, on any bit list; parsers only move forward. *)
From H263V Require Import base.Prelude model.Types model.Tables model.Reader model.Header model.Syntax
  proofs.ReaderLemmas proofs.HeaderLemmas.

Definition safe {A} (r : res A) : Prop := match r with Panic _ | OutOfFuel => False | _ => True end.

Lemma safe_bind {A B} (r : res A) (f : A -> res B) :
  safe r -> (forall a, r = Ok a -> safe (f a)) -> safe (bind r f).
Proof. intros Hr Hf. destruct r; cbn; auto. Qed.

Definition rlen (r : reader) : nat := length (rbits r).

(* ---- fixed-length operations ---- *)
Lemma peek_bits_safe w n r : safe (peek_bits w n r).
Proof. unfold peek_bits. destruct (w <? n); cbn; [exact I|]. destruct (take_bits _ _ _) as [[v b]|]; exact I. Qed.
Lemma skip_bits_safe n r : safe (skip_bits n r).
Proof. unfold skip_bits. destruct (take_bits _ _ _) as [[v b]|]; exact I. Qed.
Lemma read_bits_safe w n r : safe (read_bits w n r).
Proof.
  unfold read_bits. apply safe_bind; [apply peek_bits_safe|]. intros v _.
  apply safe_bind; [apply skip_bits_safe|]. intros r' _. exact I.
Qed.
Lemma read_u8_safe r : safe (read_u8 r).
Proof. apply read_bits_safe. Qed.
Lemma peek_signed_safe w n r : safe (peek_signed_bits w n r).
Proof.
  unfold peek_signed_bits. apply safe_bind; [apply peek_bits_safe|]. intros v _.
  destruct (n =? 0); [exact I|]. destruct (Z.testbit v (n - 1)); exact I.
Qed.
Lemma read_signed_safe w n r : safe (read_signed_bits w n r).
Proof.
  unfold read_signed_bits. apply safe_bind; [apply peek_signed_safe|]. intros v _.
  apply safe_bind; [apply skip_bits_safe|]. intros r' _. exact I.
Qed.

(* consumption *)
Lemma skip_bits_len n r r' : 0 <= n -> skip_bits n r = Ok r' -> rlen r = (Z.to_nat n + rlen r')%nat.
Proof.
  intros Hn H. unfold skip_bits in H. destruct (take_bits _ _ _) as [[v b]|] eqn:E; [|discriminate].
  inversion H; subst. unfold rlen. cbn. eapply take_bits_length; eauto.
Qed.
Lemma read_bits_len w n r v r' : 0 <= n -> read_bits w n r = Ok (v, r') -> rlen r = (Z.to_nat n + rlen r')%nat.
Proof. intros Hn H. apply read_bits_consumes in H; [|exact Hn]. unfold rlen. tauto. Qed.
Lemma read_signed_len w n r v r' : 0 <= n -> read_signed_bits w n r = Ok (v, r') -> rlen r = (Z.to_nat n + rlen r')%nat.
Proof.
  intros Hn H. unfold read_signed_bits in H. bind_inv H as v0 E1. bind_inv H as r1 E2. inversion H; subst.
  eapply skip_bits_len; eauto.
Qed.

(* ---- start code ---- *)
Lemma start_code_go_safe : forall fuel ie mx skip r, (rlen r < fuel)%nat -> safe (start_code_go fuel ie mx skip r).
Proof.
  induction fuel as [|f IH]; intros ie mx skip r Hl; [lia|]. cbn [start_code_go].
  apply safe_bind; [apply peek_bits_safe|]. intros code _.
  destruct (code =? 1); [exact I|]. destruct (negb ie && (mx <? skip)); [exact I|].
  apply safe_bind; [apply skip_bits_safe|]. intros r' Hs.
  apply IH. apply skip_bits_len in Hs; [|lia]. change (Z.to_nat 1) with 1%nat in Hs. lia.
Qed.
Lemma recognize_start_code_safe ie r : safe (recognize_start_code ie r).
Proof. unfold recognize_start_code. apply start_code_go_safe. unfold rlen. lia. Qed.

(* ---- VLC trees: a boolean depth check per table ---- *)
Fixpoint depth_ok {T} (table : list (entry T)) (fuel : nat) (index : nat) : bool :=
  match fuel with
  | O => false
  | S f =>
      match nth_error table index with
      | Some (End _) => true
      | Some (Fork z o) => depth_ok table f z && depth_ok table f o
      | None => true
      end
  end.

Lemma vlc_go_safe {T} (table : list (entry T)) : forall fuel index r,
  depth_ok table fuel index = true -> safe (vlc_go fuel table index r).
Proof.
  induction fuel as [|f IH]; intros index r H; [discriminate|]. cbn [vlc_go depth_ok] in *.
  destruct (nth_error table index) as [[t|z o]|]; try exact I.
  apply andb_true_iff in H. destruct H as [Hz Ho].
  apply safe_bind; [apply read_bits_safe|]. intros [bit r'] _.
  destruct (bit =? 0); apply IH; assumption.
Qed.

Lemma vlc_go_len {T} (table : list (entry T)) : forall fuel index r t r',
  vlc_go fuel table index r = Ok (t, r') -> (rlen r' <= rlen r)%nat.
Proof.
  induction fuel as [|f IH]; intros index r t r' H; [discriminate|]. cbn [vlc_go] in H.
  destruct (nth_error table index) as [[t0|z o]|]; try discriminate.
  - inversion H; subst. lia.
  - bind_inv H as [bit r1] E. apply read_bits_len in E; [|lia]. apply IH in H. lia.
Qed.

(* a read from a Fork consumes at least one bit *)
Lemma vlc_go_len_fork {T} (table : list (entry T)) fuel index r t r' z o :
  nth_error table index = Some (Fork z o) ->
  vlc_go fuel table index r = Ok (t, r') -> (rlen r' < rlen r)%nat.
Proof.
  intros Hf H. destruct fuel as [|f]; [discriminate|]. cbn [vlc_go] in H. rewrite Hf in H.
  bind_inv H as [bit r1] E. apply read_bits_len in E; [|lia]. apply vlc_go_len in H.
  change (Z.to_nat 1) with 1%nat in E. lia.
Qed.

Lemma tables_depth_ok :
  depth_ok mcbpc_i_table (S (length mcbpc_i_table)) 0 = true /\
  depth_ok mcbpc_p_table (S (length mcbpc_p_table)) 0 = true /\
  depth_ok modb_table (S (length modb_table)) 0 = true /\
  depth_ok cbpy_table_intra (S (length cbpy_table_intra)) 0 = true /\
  depth_ok mvd_table (S (length mvd_table)) 0 = true /\
  depth_ok tcoef_table (S (length tcoef_table)) 0 = true.
Proof. vm_compute. repeat split; reflexivity. Qed.

Lemma read_vlc_safe_mcbpc_i r : safe (read_vlc mcbpc_i_table r).
Proof. apply vlc_go_safe. apply tables_depth_ok. Qed.
Lemma read_vlc_safe_mcbpc_p r : safe (read_vlc mcbpc_p_table r).
Proof. apply vlc_go_safe. apply tables_depth_ok. Qed.
Lemma read_vlc_safe_modb r : safe (read_vlc modb_table r).
Proof. apply vlc_go_safe. apply tables_depth_ok. Qed.
Lemma read_vlc_safe_cbpy r : safe (read_vlc cbpy_table_intra r).
Proof. apply vlc_go_safe. apply tables_depth_ok. Qed.
Lemma read_vlc_safe_mvd r : safe (read_vlc mvd_table r).
Proof. apply vlc_go_safe. apply tables_depth_ok. Qed.
Lemma read_vlc_safe_tcoef r : safe (read_vlc tcoef_table r).
Proof. apply vlc_go_safe. apply tables_depth_ok. Qed.

Lemma read_vlc_len {T} (table : list (entry T)) r t r' : read_vlc table r = Ok (t, r') -> (rlen r' <= rlen r)%nat.
Proof. apply vlc_go_len. Qed.

(* ---- UMV ---- *)
Lemma umv_go_safe : forall fuel m b r, 1 <= b -> 4096 <= b * 2 ^ (Z.of_nat fuel - 1) -> (1 <= fuel)%nat -> safe (umv_go fuel m b r).
Proof.
  induction fuel as [|f IH]; intros m b r Hb Hp Hf; [lia|]. cbn [umv_go].
  destruct (b <? 4096) eqn:E; [|exact I]. apply Z.ltb_lt in E.
  apply safe_bind; [apply read_bits_safe|]. intros [code r'] _.
  assert (Hf1 : (1 <= f)%nat).
  { destruct f; [|lia]. cbn in Hp. lia. }
  assert (Hp' : 4096 <= 2 * b * 2 ^ (Z.of_nat f - 1)).
  { replace (Z.of_nat (S f) - 1) with (Z.succ (Z.of_nat f - 1)) in Hp by lia.
    rewrite Z.pow_succ_r in Hp by lia. lia. }
  destruct (code =? 0); [exact I|]. destruct (code =? 2); [exact I|].
  destruct (code =? 1); apply IH; lia.
Qed.
Lemma read_umv_safe r : safe (read_umv r).
Proof.
  unfold read_umv. apply safe_bind; [apply read_bits_safe|]. intros [s r'] _.
  destruct (s =? 1); [exact I|]. apply umv_go_safe; [lia|cbn; lia|lia].
Qed.
Lemma umv_go_len : forall fuel m b r v r', umv_go fuel m b r = Ok (v, r') -> (rlen r' <= rlen r)%nat.
Proof.
  induction fuel as [|f IH]; intros m b r v r' H; [discriminate|]. cbn [umv_go] in H.
  destruct (b <? 4096); [|discriminate]. bind_inv H as [code r1] E. apply read_bits_len in E; [|lia].
  destruct (code =? 0); [inversion H; subst; lia|]. destruct (code =? 2); [inversion H; subst; lia|].
  destruct (code =? 1); apply IH in H; lia.
Qed.
Lemma read_umv_len r v r' : read_umv r = Ok (v, r') -> (rlen r' < rlen r)%nat.
Proof.
  intros H. unfold read_umv in H. bind_inv H as [s r1] E. apply read_bits_len in E; [|lia].
  change (Z.to_nat 1) with 1%nat in E.
  destruct (s =? 1); [inversion H; subst; lia|]. apply umv_go_len in H. lia.
Qed.

(* ---- PEI ---- *)
Lemma decode_pei_safe : forall fuel acc r, (rlen r < fuel)%nat -> safe (decode_pei fuel acc r).
Proof.
  induction fuel as [|f IH]; intros acc r Hl; [lia|]. cbn [decode_pei].
  apply safe_bind; [apply read_bits_safe|]. intros [p r1] E1. apply read_bits_len in E1; [|lia].
  change (Z.to_nat 1) with 1%nat in E1.
  destruct (p =? 1); [|exact I].
  apply safe_bind; [apply read_u8_safe|]. intros [b r2] E2. apply read_bits_len in E2; [|lia].
  apply IH. lia.
Qed.
Lemma decode_pei_len : forall fuel acc r l r', decode_pei fuel acc r = Ok (l, r') -> (rlen r' <= rlen r)%nat.
Proof.
  induction fuel as [|f IH]; intros acc r l r' H; [discriminate|]. cbn [decode_pei] in H.
  bind_inv H as [p r1] E1. apply read_bits_len in E1; [|lia].
  destruct (p =? 1); [|inversion H; subst; lia].
  bind_inv H as [b r2] E2. apply read_bits_len in E2; [|lia]. apply IH in H. lia.
Qed.
