(* C08: the row loop of yuv420_to_rgba (whole 4-pixel groups + remainder path)
   produces, for every width and height, the row-major RGBA image whose pixel
   (x, y) is px Y[x + y w] Cb[x/2 + (y/2) brw] Cr[same]. *)
From H263V Require Import base.Prelude model.Yuv.
Require Import ZifyNat.
Ltac Zify.zify_post_hook ::= Z.div_mod_to_equations.

Local Open Scope nat_scope.

Definition pxf (yrow cbrow crrow : list Z) (x : nat) : list Z :=
  px_bytes (nthz yrow x) (nthz cbrow (x / 2)) (nthz crrow (x / 2)).

Lemma px_bytes_length y cb cr : length (px_bytes y cb cr) = 4.
Proof. unfold px_bytes. destruct (px y cb cr) as [[[r g] b] a]. reflexivity. Qed.

Lemma flat_map_ext_seq {A} (f g : nat -> list A) lo n :
  (forall i, lo <= i < lo + n -> f i = g i) -> flat_map f (seq lo n) = flat_map g (seq lo n).
Proof.
  revert lo. induction n as [|n IH]; intros lo H; [reflexivity|].
  cbn [seq flat_map]. rewrite H by lia. f_equal. apply IH. intros i Hi. apply H. lia.
Qed.

Lemma flat_map_seq_app {A} (f : nat -> list A) lo n m :
  flat_map f (seq lo (n + m)) = flat_map f (seq lo n) ++ flat_map f (seq (lo + n) m).
Proof. rewrite seq_app, flat_map_app. reflexivity. Qed.

Lemma flat_map_seq_shift {A} n : forall (f : nat -> list A) lo,
  flat_map f (seq lo n) = flat_map (fun j => f (lo + j)) (seq 0 n).
Proof.
  induction n as [|n IH]; intros f lo; [reflexivity|].
  cbn [seq flat_map]. rewrite Nat.add_0_r. f_equal.
  rewrite (IH f (S lo)). rewrite (IH (fun j => f (lo + j)) 1).
  apply flat_map_ext_seq. intros i _. f_equal. lia.
Qed.

Lemma div2_add k j : (4 * k + j) / 2 = 2 * k + j / 2.
Proof. replace (4 * k + j) with (j + (2 * k) * 2) by lia. rewrite Nat.div_add by lia. lia. Qed.

Lemma group4_pxf yrow cbrow crrow i :
  group4 yrow cbrow crrow i = flat_map (pxf yrow cbrow crrow) (seq (4 * i) 4).
Proof.
  unfold group4. rewrite (flat_map_seq_shift 4 (pxf yrow cbrow crrow) (4 * i)).
  apply flat_map_ext_seq. intros j _. unfold pxf. rewrite div2_add. reflexivity.
Qed.

Lemma whole_groups yrow cbrow crrow k :
  flat_map (group4 yrow cbrow crrow) (seq 0 k) = flat_map (pxf yrow cbrow crrow) (seq 0 (4 * k)).
Proof.
  induction k as [|k IH]; [reflexivity|].
  replace (S k) with (k + 1) by lia. rewrite flat_map_seq_app, IH.
  replace (4 * (k + 1)) with (4 * k + 4) by lia. rewrite flat_map_seq_app.
  f_equal. cbn [seq flat_map]. rewrite app_nil_r. rewrite group4_pxf. reflexivity.
Qed.

Lemma flat_map_pxf_length yrow cbrow crrow lo n :
  length (flat_map (pxf yrow cbrow crrow) (seq lo n)) = 4 * n.
Proof.
  revert lo. induction n as [|n IH]; intros lo; [reflexivity|].
  cbn [seq flat_map]. rewrite app_length, IH. unfold pxf. rewrite px_bytes_length. lia.
Qed.


(* the staging arrays of the remainder path, by cases on the remainder *)
Lemma px_bytes_4 y cb cr : exists r g b a, px_bytes y cb cr = [r; g; b; a].
Proof. unfold px_bytes. destruct (px y cb cr) as [[[r g] b] a]. eauto. Qed.

Lemma remainder_path yrow cbrow crrow k r :
  1 <= r <= 3 ->
  let w := 4 * k + r in
  let y4 := staged yrow (w - r) w (fun x => x mod 4) (fun x => x) 4 in
  let cb2 := staged cbrow (w - r) w (fun x => (x mod 4) / 2) (fun x => x / 2) 2 in
  let cr2 := staged crrow (w - r) w (fun x => (x mod 4) / 2) (fun x => x / 2) 2 in
  firstn (4 * r) (group4 y4 cb2 cr2 0) = flat_map (pxf yrow cbrow crrow) (seq (4 * k) r).
Proof.
  intros Hr. cbv zeta.
  replace (4 * k + r - r) with (4 * k) by lia.
  replace (4 * k + r - 4 * k) with r by lia.
  set (b := 4 * k).
  assert (M0 : b mod 4 = 0) by (subst b; lia).
  assert (M1 : S b mod 4 = 1) by (subst b; lia).
  assert (M2 : S (S b) mod 4 = 2) by (subst b; lia).
  assert (D0 : b / 2 = 2 * k) by (subst b; lia).
  assert (D1 : S b / 2 = 2 * k) by (subst b; lia).
  assert (D2 : S (S b) / 2 = S (2 * k)) by (subst b; lia).
  clearbody b.
  unfold staged, group4, pxf.
  assert (Hc : r = 1 \/ r = 2 \/ r = 3) by lia.
  destruct Hc as [-> | [-> | ->]]; rewrite !(Nat.add_comm b), !Nat.add_sub;
    cbn [seq fold_left repeat Nat.mul Nat.add flat_map];
    rewrite ?M0, ?M1, ?M2, ?D0, ?D1, ?D2;
    change (0 / 2) with 0; change (1 / 2) with 0; change (2 / 2) with 1; change (3 / 2) with 1;
    cbn [set_nth]; unfold nthz; cbn [nth]; rewrite ?app_nil_r;
    repeat match goal with |- context [px_bytes ?a ?b ?c] =>
      let H := fresh "H" in destruct (px_bytes_4 a b c) as (?&?&?&?&H); rewrite H; clear H end;
    reflexivity.
Qed.

(* one row: whole groups ++ remainder = the pointwise row *)
Lemma convert_row_pointwise yrow cbrow crrow w :
  convert_row yrow cbrow crrow w = flat_map (pxf yrow cbrow crrow) (seq 0 w).
Proof.
  unfold convert_row.
  set (k := w / 4). set (r := w mod 4).
  assert (Hw : w = 4 * k + r) by (subst k r; lia).
  assert (Hr : r < 4) by (subst r; lia).
  replace (Nat.min (Nat.min ((w - r) / 4) (((w + 1) / 2 - ((w + 1) / 2) mod 2) / 2)) ((4 * w - 4 * r) / 16)) with k
    by (subst k r; lia).
  rewrite whole_groups, flat_map_pxf_length.
  replace (4 * (w - r) - 4 * (4 * k)) with 0 by lia. cbn [repeat]. rewrite app_nil_r.
  destruct (r =? 0) eqn:E.
  - apply Nat.eqb_eq in E. f_equal. f_equal. lia.
  - apply Nat.eqb_neq in E.
    pose proof (remainder_path yrow cbrow crrow k r ltac:(lia)) as HR. cbv zeta in HR.
    rewrite <- Hw in HR. rewrite HR.
    transitivity (flat_map (pxf yrow cbrow crrow) (seq 0 (4 * k + r))); [|rewrite <- Hw; reflexivity].
    rewrite flat_map_seq_app. reflexivity.
Qed.


Lemma nth_firstn_skipn (l : list Z) n m x : x < n -> nth x (firstn n (skipn m l)) 0%Z = nth (m + x) l 0%Z.
Proof.
  intros Hx. revert l. induction m as [|m IH]; intros l.
  - cbn [skipn Nat.add]. revert x Hx l. induction n as [|n IHn]; intros x Hx l; [lia|].
    destruct l as [|a l]; [destruct x; reflexivity|]. destruct x as [|x]; [reflexivity|].
    cbn [firstn nth]. apply IHn. lia.
  - destruct l as [|a l].
    + cbn [skipn]. rewrite firstn_nil. destruct x; destruct (S m + _); reflexivity.
    + cbn [skipn Nat.add nth]. apply IH.
Qed.

Lemma rows_go_flat ys cbs crs w brw : forall fuel r,
  rows_go fuel r ys cbs crs w brw =
  flat_map (fun r' => convert_row (firstn w (skipn (r' * w) ys)) (firstn brw (skipn ((r' / 2) * brw) cbs))
                                  (firstn brw (skipn ((r' / 2) * brw) crs)) w) (seq r fuel).
Proof.
  induction fuel as [|f IH]; intros r; [reflexivity|].
  cbn [rows_go seq flat_map]. rewrite IH. reflexivity.
Qed.

Local Close Scope nat_scope.

Lemma to_nat_lin a b c : 0 <= c -> Z.to_nat (Z.of_nat a + Z.of_nat b * c) = (b * Z.to_nat c + a)%nat.
Proof.
  intros Hc. rewrite <- (Z2Nat.id c) at 1 by lia.
  rewrite <- Nat2Z.inj_mul, <- Nat2Z.inj_add, Nat2Z.id. lia.
Qed.

Theorem yuv420_layout ys cbs crs w h :
  1 <= w -> 1 <= h ->
  zlength ys = w * h ->
  zlength cbs = ((w + 1) / 2) * ((h + 1) / 2) ->
  zlength crs = ((w + 1) / 2) * ((h + 1) / 2) ->
  yuv420_to_rgba ys cbs crs w = Ok (rgba_spec_flat ys cbs crs w h).
Proof.
  intros Hw Hh Hy Hcb Hcr. unfold yuv420_to_rgba.
  destruct ys as [|y0 ys'] eqn:Eys; [unfold zlength in Hy; cbn in Hy; nia|]. rewrite <- Eys in *. clear Eys y0 ys'.
  assert (Hbrw : 1 <= (w + 1) / 2) by lia.
  destruct (w =? 0) eqn:E0; [lia|].
  assert (M1 : zlength ys mod w = 0) by (rewrite Hy, Z.mul_comm; apply Z.mod_mul; lia).
  assert (M2 : zlength cbs mod ((w + 1) / 2) = 0) by (rewrite Hcb, Z.mul_comm; apply Z.mod_mul; lia).
  assert (M3 : zlength crs mod ((w + 1) / 2) = 0) by (rewrite Hcr, Z.mul_comm; apply Z.mod_mul; lia).
  assert (D1 : zlength ys / w = h) by (rewrite Hy, Z.mul_comm; apply Z.div_mul; lia).
  assert (D2 : zlength cbs / ((w + 1) / 2) = (h + 1) / 2) by (rewrite Hcb, Z.mul_comm; apply Z.div_mul; lia).
  rewrite M1, M2, M3, D1, D2. rewrite Hcb, Hcr. cbn [Z.eqb negb]. rewrite Z.eqb_refl. cbn [negb].
  rewrite Z.eqb_refl. cbn [negb]. f_equal.
  rewrite rows_go_flat. unfold rgba_spec_flat.
  apply flat_map_ext_seq. intros r Hr.
  rewrite convert_row_pointwise.
  apply flat_map_ext_seq. intros x Hx.
  unfold pxf, nthz, rgba_spec, px_bytes.
  assert (Hx2 : (x / 2 < Z.to_nat ((w + 1) / 2))%nat) by lia.
  rewrite !nth_firstn_skipn by lia.
  rewrite to_nat_lin by lia.
  assert (E : forall n, Z.of_nat n / 2 = Z.of_nat (n / 2)) by (intros n; apply (eq_sym (Nat2Z.inj_div n 2))).
  rewrite !E. rewrite !to_nat_lin by lia.
  reflexivity.
Qed.

Lemma flat_map_const_length {A} (f : nat -> list A) c n : forall lo,
  (forall i, length (f i) = c) -> length (flat_map f (seq lo n)) = (n * c)%nat.
Proof.
  induction n as [|n IH]; intros lo H; [reflexivity|].
  cbn [seq flat_map]. rewrite app_length, H, IH by exact H. lia.
Qed.

Lemma rgba_spec_flat_length ys cbs crs w h : 0 <= w -> 0 <= h ->
  zlength (rgba_spec_flat ys cbs crs w h) = 4 * w * h.
Proof.
  intros Hw Hh. unfold rgba_spec_flat, zlength.
  rewrite (flat_map_const_length _ (Z.to_nat w * 4)%nat).
  - nia.
  - intros y. apply flat_map_const_length. intros x.
    destruct (rgba_spec ys cbs crs w (Z.of_nat x) (Z.of_nat y)) as [[[? ?] ?] ?]. reflexivity.
Qed.

(* pixel (x, y) sits at byte offset 4 (x + y w) *)
Lemma flat_map_const_nth {A} (f : nat -> list A) c n (d : A) : forall i j,
  (forall i, length (f i) = c) -> (i < n)%nat -> (j < c)%nat ->
  nth (i * c + j) (flat_map f (seq 0 n)) d = nth j (f i) d.
Proof.
  intros i j Hc Hi Hj.
  assert (G : forall n lo i, (i < n)%nat -> nth (i * c + j) (flat_map f (seq lo n)) d = nth j (f (lo + i)%nat) d).
  { clear n i Hi. induction n as [|n IH]; intros lo i Hi; [lia|].
    cbn [seq flat_map]. destruct i as [|i].
    - rewrite app_nth1 by (rewrite Hc; lia). rewrite Nat.add_0_r. reflexivity.
    - rewrite app_nth2 by (rewrite Hc; nia). rewrite Hc.
      replace (S i * c + j - c)%nat with (i * c + j)%nat by nia.
      rewrite IH by lia. f_equal. f_equal. lia. }
  rewrite G by exact Hi. reflexivity.
Qed.

Theorem rgba_spec_flat_pixel ys cbs crs w h x y c :
  0 <= x < w -> 0 <= y < h -> 0 <= c < 4 ->
  nth (Z.to_nat (4 * (x + y * w) + c)) (rgba_spec_flat ys cbs crs w h) 0 =
  let '(r, g, b, a) := rgba_spec ys cbs crs w x y in nth (Z.to_nat c) [r; g; b; a] 0.
Proof.
  intros Hx Hy Hc. unfold rgba_spec_flat.
  set (g := fun y0 : nat => flat_map _ (seq 0 (Z.to_nat w))).
  assert (Hg : forall i, length (g i) = (Z.to_nat w * 4)%nat).
  { intros i. subst g. apply flat_map_const_length. intros x0.
    destruct (rgba_spec ys cbs crs w (Z.of_nat x0) (Z.of_nat i)) as [[[? ?] ?] ?]. reflexivity. }
  replace (Z.to_nat (4 * (x + y * w) + c)) with (Z.to_nat y * (Z.to_nat w * 4) + (Z.to_nat x * 4 + Z.to_nat c))%nat by nia.
  rewrite (flat_map_const_nth g (Z.to_nat w * 4)%nat) by (try exact Hg; nia).
  subst g. cbv beta.
  rewrite (flat_map_const_nth _ 4%nat); try lia.
  - rewrite !Z2Nat.id by lia. reflexivity.
  - intros i. destruct (rgba_spec ys cbs crs w (Z.of_nat i) (Z.of_nat (Z.to_nat y))) as [[[? ?] ?] ?]. reflexivity.
Qed.
