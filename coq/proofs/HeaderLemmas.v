(* Facts about successfully parsed headers. *)
From H263V Require Import base.Prelude model.Types model.Tables model.Reader model.Header proofs.ReaderLemmas.

(* Peel one `bind` whose result is known to be Ok: names the intermediate value. *)
Tactic Notation "bind_inv" hyp(H) "as" simple_intropattern(p) ident(E) :=
  match type of H with
  | bind ?x _ = Ok _ =>
      destruct x as [p| | |] eqn:E; cbn [bind] in H; [|discriminate H|discriminate H|discriminate H]
  end.

Lemma lor_shift8_lt hi lo : 0 <= hi < 4 -> 0 <= lo < 256 -> 0 <= Z.lor (Z.shiftl hi 8) lo < 1024.
Proof.
  intros Hh Hl.
  assert (E : Z.lor (Z.shiftl hi 8) lo = hi * 256 + lo).
  { rewrite Z.shiftl_mul_pow2 by lia. change (2 ^ 8) with 256.
    assert (Hd : Z.land (hi * 256) lo = 0).
    { apply Z.bits_inj'. intros n Hn. rewrite Z.land_spec, Z.bits_0.
      destruct (Z.ltb_spec n 8).
      + replace (hi * 256) with (hi * 2 ^ 8) by reflexivity. rewrite Z.mul_pow2_bits_low by lia. reflexivity.
      + rewrite (Z.bits_above_log2 lo n); [apply andb_false_r|lia|].
        destruct (Z.eq_dec lo 0) as [->|]; [cbn; lia|].
        assert (Z.log2 lo < 8) by (apply Z.log2_lt_pow2; lia). lia. }
    rewrite <- (Z.lxor_lor _ _ Hd), <- (Z.add_nocarry_lxor _ _ Hd). reflexivity. }
  rewrite E. lia.
Qed.

Lemma decode_picture_tr o prev r p r' :
  decode_picture o prev r = Ok (Some p, r') -> 0 <= temporal_reference p < 1024.
Proof.
  intros H. unfold decode_picture in H.
  bind_inv H as sc Esc. destruct sc as [skipped|]; [|discriminate].
  bind_inv H as r1 E1. bind_inv H as [gob r2] E2.
  destruct (sorenson o).
  - bind_inv H as [tr r3] E3. bind_inv H as [[[fmt ty] opts] r4] E4.
    bind_inv H as [q r5] E5. bind_inv H as [extra r6] E6.
    inversion H; subst. cbn. apply read_u8_range in E3. lia.
  - destruct (negb (gob =? 0)); [discriminate|].
    bind_inv H as [low_tr r3] E3.
    pose proof (read_u8_range _ _ _ E3) as Hlow.
    bind_inv H as [[o1 fat] r4] E4.
    bind_inv H as [[[[[[[opts fmt] ty] fol] plus] opp] mux] r5] E5.
    bind_inv H as [fmt2 r6] E6.
    bind_inv H as [clock r7] E7.
    bind_inv H as [tr r8] E8.
    assert (Htr : 0 <= tr < 1024).
    { destruct clock as [c|].
      - bind_inv E8 as [hi r9] E9. inversion E8; subst.
        apply read_bits_range in E9; [|lia]. change (2 ^ 2) with 4 in E9.
        apply lor_shift8_lt; lia.
      - inversion E8; subst. lia. }
    bind_inv H as [mvr r9] E9. bind_inv H as [sss r10] E10. bind_inv H as [layer r11] E11.
    bind_inv H as [rpsm r12] E12. bind_inv H as [trp r13] E13. bind_inv H as r14 E14.
    bind_inv H as u E15. bind_inv H as [q r15] E16. bind_inv H as [mux2 r16] E17.
    bind_inv H as [[pbr pbq] r17] E18. bind_inv H as [extra r18] E19.
    inversion H; subst. cbn. exact Htr.
Qed.
