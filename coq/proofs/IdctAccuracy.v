(* C10: the analytic accuracy bound of the binary32 inverse transform.  For every 8x8 coefficient block with entries in
   -2048..2048 the value `idct_channel` adds at every position is within 0.632 of the exact real-number inverse DCT of
   H.263 6.2.4 (clipped to -256..255), hence within 1 of any nearest-integer rounding of it: the peak-error requirement of
   Annex A for every block, not only the 60 000 of the procedure.  Error budget (on the 4x scale, before the division by
   four): first pass 8 x 14 roundings of terms below 2048, second pass 8 x 14 roundings of terms below 16385, 64 products of
   table entries each within 2.000002/900000 of the exact basis (BasisTable.v). *)
(* C10: an analytic accuracy bound for the binary32 inverse transform, for EVERY coefficient block in the dequantised range. *)
From Coq Require Import Reals ZArith Lia Lra List Psatz.
From Flocq Require Import Core BinarySingleNaN Relative.
From Interval Require Import Tactic.
From H263V Require Import base.Prelude model.Types model.Tables model.F32 model.Recon proofs.BasisTable.
Import ListNotations.
Open Scope R_scope.

Notation R32 := (@B2R prec32 emax32).
Notation FIN x := (is_finite x = true).
Definition u32 : R := bpow radix2 (-24).
Definition eta32 : R := bpow radix2 (-150).
Notation rnd := (round radix2 (SpecFloat.fexp prec32 emax32) (round_mode mode_NE)).

Lemma rnd_err x : Rabs (rnd x - x) <= u32 * Rabs x + eta32.
Proof.
  destruct (error_N_FLT radix2 (-149) 24 ltac:(lia) (fun t => negb (Z.even t)) x) as (eps & eta & He & Ht & _ & Hr).
  change (round radix2 (FLT_exp (-149) 24) (Znearest (fun t : Z => negb (Z.even t))) x) with (rnd x) in Hr.
  rewrite Hr. replace (x * (1 + eps) + eta - x) with (x * eps + eta) by ring.
  eapply Rle_trans; [apply Rabs_triang|]. rewrite Rabs_mult.
  change (- (24) + 1)%Z with (-23)%Z in He.
  assert (E1 : / 2 * bpow radix2 (-23) = u32) by (unfold u32; replace (-23)%Z with (-24 + 1)%Z by lia; rewrite bpow_plus_1; change (IZR radix2) with 2; lra).
  assert (E2 : / 2 * bpow radix2 (-149) = eta32) by (unfold eta32; replace (-149)%Z with (-150 + 1)%Z by lia; rewrite bpow_plus_1; change (IZR radix2) with 2; lra).
  rewrite E1 in He. rewrite E2 in Ht.
  pose proof (Rabs_pos x). pose proof (Rabs_pos eps). nra.
Qed.

Lemma u32_val : u32 = / 16777216.
Proof. unfold u32. simpl. lra. Qed.
Lemma eta32_small : 0 < eta32 <= / 1000000000000.
Proof.
  unfold eta32. split; [apply bpow_gt_0|].
  replace (bpow radix2 (-150)) with (/ bpow radix2 150) by (rewrite <- bpow_opp; reflexivity).
  apply Rinv_le_contravar; [lra|]. change 150%Z with (40 + 110)%Z. rewrite bpow_plus.
  assert (1 <= bpow radix2 110) by (apply (bpow_le radix2 0); lia). assert (1000000000000 <= bpow radix2 40) by (simpl; lra). nra.
Qed.
Lemma bpow128_big : 1000000000000 <= bpow radix2 emax32.
Proof. unfold emax32. change 128%Z with (40 + 88)%Z. rewrite bpow_plus.
  assert (1 <= bpow radix2 88) by (apply (bpow_le radix2 0); lia). assert (1000000000000 <= bpow radix2 40) by (simpl; lra). nra.
Qed.

(* every operation on finite values of moderate size: finite result, small error *)
Lemma no_overflow x : Rabs x <= 1000000 -> Rlt_bool (Rabs (rnd x)) (bpow radix2 emax32) = true.
Proof.
  intros H. apply Rlt_bool_true. pose proof (rnd_err x) as E. pose proof eta32_small. pose proof bpow128_big. rewrite u32_val in E.
  assert (Rabs (rnd x) <= Rabs x + Rabs (rnd x - x)).
  { replace (rnd x) with (x + (rnd x - x)) at 1 by ring. apply Rabs_triang. }
  pose proof (Rabs_pos x). lra.
Qed.

Lemma fmul_ok a b M : FIN a -> FIN b -> Rabs (R32 a * R32 b) <= M -> M <= 1000000 ->
  FIN (fmul a b) /\ Rabs (R32 (fmul a b) - R32 a * R32 b) <= u32 * M + eta32.
Proof.
  intros Fa Fb HM HL. unfold fmul. pose proof (Bmult_correct prec32 emax32 _ _ mode_NE a b) as C.
  rewrite (no_overflow (R32 a * R32 b)) in C by lra. destruct C as (C1 & C2 & _).
  split; [rewrite C2, Fa, Fb; reflexivity|]. rewrite C1.
  eapply Rle_trans; [apply rnd_err|]. pose proof (bpow_gt_0 radix2 (-24)). unfold u32. nra.
Qed.
Lemma fadd_ok a b M : FIN a -> FIN b -> Rabs (R32 a + R32 b) <= M -> M <= 1000000 ->
  FIN (fadd a b) /\ Rabs (R32 (fadd a b) - (R32 a + R32 b)) <= u32 * M + eta32.
Proof.
  intros Fa Fb HM HL. unfold fadd. pose proof (Bplus_correct prec32 emax32 _ _ mode_NE a b Fa Fb) as C.
  rewrite (no_overflow (R32 a + R32 b)) in C by lra. destruct C as (C1 & C2 & _).
  split; [exact C2|]. rewrite C1.
  eapply Rle_trans; [apply rnd_err|]. pose proof (bpow_gt_0 radix2 (-24)). unfold u32. nra.
Qed.

Section Dot.
  Variables (a b : nat -> f32).
  Fixpoint rsum (l : list nat) : R := match l with [] => 0 | f :: r => R32 (a f) * R32 (b f) + rsum r end.
  Definition dotf (l : list nat) (acc : f32) : f32 := fold_left (fun acc f => fadd acc (fmul (a f) (b f))) l acc.

  Lemma eta_le_u : eta32 <= u32.
  Proof. pose proof eta32_small. rewrite u32_val. lra. Qed.

  Lemma dot_err M (K : nat) : 1 <= M -> INR (K + 3) * M <= 1000000 ->
    forall l acc s E (k0 : nat),
    (forall f, In f l -> FIN (a f) /\ FIN (b f) /\ Rabs (R32 (a f) * R32 (b f)) <= M) ->
    FIN acc -> Rabs (R32 acc - s) <= E -> Rabs s <= INR k0 * M -> (k0 + length l <= K)%nat ->
    0 <= E -> E + INR (length l) * (u32 * M * INR (K + 6)) <= M ->
    FIN (dotf l acc) /\ Rabs (R32 (dotf l acc) - (s + rsum l)) <= E + INR (length l) * (u32 * M * INR (K + 6)).
  Proof.
    intros HM HK. induction l as [|f l IH]; intros acc s E k0 Hab Facc Herr Hs Hk HE0 HE.
    - cbn [dotf fold_left rsum length INR]. split; [exact Facc|]. replace (s + 0) with s by ring. lra.
    - cbn [dotf fold_left rsum]. fold (dotf l (fadd acc (fmul (a f) (b f)))).
      destruct (Hab f (or_introl eq_refl)) as (Fa & Fb & Hp).
      assert (HK6 : 0 < u32 * M * INR (K + 6)).
      { rewrite u32_val. assert (0 < INR (K + 6)) by (apply lt_0_INR; lia). nra. }
      assert (Hlen : INR (length (f :: l)) = INR (length l) + 1) by (cbn [length]; rewrite S_INR; reflexivity).
      rewrite Hlen in HE.
      assert (HINR : 0 <= INR (length l)) by apply pos_INR.
      destruct (fmul_ok (a f) (b f) M Fa Fb Hp ltac:(assert (1 <= INR (K + 3)) by (change 1 with (INR 1); apply le_INR; lia); nra)) as (Fp & Ep).
      set (p := R32 (a f) * R32 (b f)) in *. set (ph := R32 (fmul (a f) (b f))) in *.
      assert (HuM : u32 * M + eta32 <= 2 * u32 * M) by (pose proof eta_le_u; rewrite u32_val in *; nra).
      assert (Hk0 : INR k0 <= INR K) by (apply le_INR; lia).
      assert (HKM : INR (K + 3) = INR K + 3) by (rewrite plus_INR; simpl; lra).
      assert (HK6' : INR (K + 6) = INR K + 6) by (rewrite plus_INR; simpl; lra).
      assert (Hsum : Rabs (R32 acc + ph) <= INR (K + 3) * M).
      { replace (R32 acc + ph) with ((R32 acc - s) + s + (ph - p) + p) by ring.
        eapply Rle_trans; [apply Rabs_triang|]. eapply Rle_trans; [apply Rplus_le_compat_r, Rabs_triang|].
        eapply Rle_trans; [apply Rplus_le_compat_r, Rplus_le_compat_r, Rabs_triang|].
        rewrite HKM. rewrite u32_val in *. assert (E <= M) by nra. nra. }
      destruct (fadd_ok acc (fmul (a f) (b f)) (INR (K + 3) * M) Facc Fp Hsum HK) as (Fs & Es). fold ph in Es.
      destruct (IH (fadd acc (fmul (a f) (b f))) (s + p) (E + u32 * M * INR (K + 6)) (S k0)) as (Fr & Er).
      + intros g Hg. apply Hab. right. exact Hg.
      + exact Fs.
      + replace (R32 (fadd acc (fmul (a f) (b f))) - (s + p)) with ((R32 (fadd acc (fmul (a f) (b f))) - (R32 acc + ph)) + (R32 acc - s) + (ph - p)) by ring.
        eapply Rle_trans; [apply Rabs_triang|]. eapply Rle_trans; [apply Rplus_le_compat_r, Rabs_triang|].
        rewrite HK6'. rewrite HKM in Es. pose proof eta_le_u. rewrite u32_val in *. nra.
      + rewrite S_INR. eapply Rle_trans; [apply Rabs_triang|]. nra.
      + cbn [length] in Hk. lia.
      + lra.
      + lra.
      + split; [exact Fr|]. rewrite Hlen. replace (s + (p + rsum l)) with (s + p + rsum l) by ring. lra.
  Qed.
End Dot.

(* ---- table constants and small integers are exact ---- *)
Lemma f_of_me_exact m e : (Z.abs m < 2 ^ 24)%Z -> (-149 <= e <= 0)%Z ->
  FIN (f_of_me m e) /\ R32 (f_of_me m e) = IZR m * bpow radix2 e.
Proof.
  intros Hm He. unfold f_of_me.
  pose proof (binary_normalize_correct prec32 emax32 _ _ mode_NE m e false) as C. cbv zeta in C.
  assert (G : generic_format radix2 (SpecFloat.fexp prec32 emax32) (F2R (Float radix2 m e))).
  { apply generic_format_FLT. exists (Float radix2 m e); [reflexivity|exact Hm|cbn; lia]. }
  rewrite (round_generic radix2 _ _ _ G) in C.
  assert (B : Rabs (F2R (Float radix2 m e)) < bpow radix2 emax32).
  { unfold F2R. cbn [Fnum Fexp]. rewrite Rabs_mult, <- abs_IZR. rewrite (Rabs_pos_eq (bpow radix2 e)) by apply bpow_ge_0.
    assert (IZR (Z.abs m) < 16777216) by (apply (IZR_lt _ (2 ^ 24)); exact Hm).
    assert (bpow radix2 e <= 1) by (apply (bpow_le radix2 e 0); lia). pose proof (bpow_gt_0 radix2 e). pose proof bpow128_big.
    pose proof (IZR_le 0 (Z.abs m) (Z.abs_nonneg m)). nra. }
  rewrite (Rlt_bool_true _ _ B) in C. destruct C as (C1 & C2 & _). split; [exact C2|]. rewrite C1. reflexivity.
Qed.

Lemma f_of_Z_exact z : (Z.abs z <= 2048)%Z -> FIN (f_of_Z z) /\ R32 (f_of_Z z) = IZR z.
Proof.
  intros H. destruct (f_of_me_exact z 0 ltac:(lia) ltac:(lia)) as [F E]. split; [exact F|]. unfold f_of_Z. rewrite E. simpl. ring.
Qed.

Definition entry_ok (t : bool * Z * Z) : bool := let '(s, m, e) := t in (0 <=? m)%Z && (m <? 2 ^ 24)%Z && (-149 <=? e)%Z && (e <=? 0)%Z.
Lemma basis_entries_ok : forallb (forallb entry_ok) basis_table = true.
Proof. vm_compute. reflexivity. Qed.
Lemma basis_table_shape : length basis_table = 8%nat /\ forallb (fun r => Nat.eqb (length r) 8) basis_table = true.
Proof. split; vm_compute; reflexivity. Qed.

Definition conv (t : bool * Z * Z) : f32 := let '(s, m, e) := t in f_of_me (if s then - m else m) e.
Lemma basis_get_conv f i : (f < 8)%nat -> (i < 8)%nat -> basis_get f i = conv (nth i (nth f basis_table []) (false, 0%Z, 0%Z)).
Proof.
  intros Hf Hi. unfold basis_get, basis. fold conv.
  change (@nil f32) with (map conv []). rewrite map_nth. change f_zero with (conv (false, 0%Z, 0%Z)). rewrite map_nth. reflexivity.
Qed.

Definition bR (f i : nat) : R := R32 (basis_get f i).
Lemma basis_real f i : (f < 8)%nat -> (i < 8)%nat ->
  FIN (basis_get f i) /\ bR f i = (let '(s, m, e) := nth i (nth f basis_table []) (false, 0%Z, 0%Z) in (if s then -1 else 1) * IZR m * powerRZ 2 e).
Proof.
  intros Hf Hi. unfold bR. rewrite (basis_get_conv f i Hf Hi).
  pose proof basis_entries_ok as Hok. rewrite forallb_forall in Hok. destruct basis_table_shape as [L1 L2]. rewrite forallb_forall in L2.
  assert (Hr : In (nth f basis_table []) basis_table) by (apply nth_In; lia).
  specialize (Hok _ Hr). specialize (L2 _ Hr). apply Nat.eqb_eq in L2. rewrite forallb_forall in Hok.
  assert (He : In (nth i (nth f basis_table []) (false, 0%Z, 0%Z)) (nth f basis_table [])) by (apply nth_In; lia).
  specialize (Hok _ He). destruct (nth i (nth f basis_table []) (false, 0%Z, 0%Z)) as [[s m] e]. unfold entry_ok in Hok. unfold conv.
  assert (Hm : (0 <= m < 2 ^ 24)%Z /\ (-149 <= e <= 0)%Z) by lia. destruct Hm as [Hm He'].
  destruct (f_of_me_exact (if s then (- m)%Z else m) e ltac:(destruct s; lia) He') as [F E]. split; [exact F|]. rewrite E.
  rewrite bpow_powerRZ. change (IZR radix2) with 2. destruct s; [rewrite opp_IZR|]; ring.
Qed.

Definition entry_le1 (t : bool * Z * Z) : bool := let '(s, m, e) := t in (m <=? 2 ^ (- e))%Z.
Lemma basis_entries_le1 : forallb (forallb entry_le1) basis_table = true.
Proof. vm_compute. reflexivity. Qed.

Lemma bR_le1 f i : (f < 8)%nat -> (i < 8)%nat -> Rabs (bR f i) <= 1.
Proof.
  intros Hf Hi. destruct (basis_real f i Hf Hi) as [_ E]. rewrite E. clear E.
  pose proof basis_entries_ok as Hok. rewrite forallb_forall in Hok. pose proof basis_entries_le1 as Hle. rewrite forallb_forall in Hle.
  destruct basis_table_shape as [L1 L2]. rewrite forallb_forall in L2.
  assert (Hr : In (nth f basis_table []) basis_table) by (apply nth_In; lia).
  specialize (Hok _ Hr). specialize (Hle _ Hr). specialize (L2 _ Hr). apply Nat.eqb_eq in L2. rewrite forallb_forall in Hok, Hle.
  assert (He : In (nth i (nth f basis_table []) (false, 0%Z, 0%Z)) (nth f basis_table [])) by (apply nth_In; lia).
  specialize (Hok _ He). specialize (Hle _ He). destruct (nth i (nth f basis_table []) (false, 0%Z, 0%Z)) as [[s m] e].
  unfold entry_ok in Hok. unfold entry_le1 in Hle.
  assert (Hm : (0 <= m <= 2 ^ (- e))%Z /\ (-149 <= e <= 0)%Z) by lia. destruct Hm as [Hm He'].
  assert (P : powerRZ 2 e * IZR (2 ^ (- e)) = 1).
  { rewrite <- (Z2Nat.id (- e)) by lia. rewrite <- pow_IZR. rewrite (pow_powerRZ 2). rewrite Z2Nat.id by lia.
    rewrite <- powerRZ_add by lra. replace (e + - e)%Z with 0%Z by lia. reflexivity. }
  assert (Pp : 0 < powerRZ 2 e) by (apply powerRZ_lt; lra).
  assert (M1 : 0 <= IZR m <= IZR (2 ^ (- e))) by (split; apply IZR_le; lia).
  assert (0 <= IZR m * powerRZ 2 e <= 1) by nra.
  destruct s.
  - replace (-1 * IZR m * powerRZ 2 e) with (- (IZR m * powerRZ 2 e)) by ring. rewrite Rabs_Ropp, Rabs_pos_eq; lra.
  - replace (1 * IZR m * powerRZ 2 e) with (IZR m * powerRZ 2 e) by ring. rewrite Rabs_pos_eq; lra.
Qed.

Lemma bR_ideal f i : (f < 8)%nat -> (i < 8)%nat -> Rabs (bR f i - ideal_basis (Z.of_nat f) (Z.of_nat i)) <= 1 / 900000.
Proof.
  intros Hf Hi. destruct (basis_real f i Hf Hi) as [_ E]. rewrite E. apply (basis_table_accurate f i Hf Hi).
Qed.

Lemma nth_map_seq {A} (g : nat -> A) n i d : (i < n)%nat -> nth i (map g (seq 0 n)) d = g i.
Proof.
  intros H. rewrite (nth_indep _ d (g 0%nat)) by (rewrite map_length, seq_length; exact H).
  rewrite (map_nth g (seq 0 n) 0%nat i). rewrite seq_nth by exact H. reflexivity.
Qed.

Lemma idct_1d_nth input i : (i < 8)%nat ->
  nth i (idct_1d input) f_zero = dotf (fun f => nth f input f_zero) (fun f => basis_get f i) (seq 0 8) f_zero.
Proof. intros H. unfold idct_1d, dotf. exact (nth_map_seq _ 8 i f_zero H). Qed.

Fixpoint sumf (g : nat -> R) (l : list nat) : R := match l with [] => 0 | f :: r => g f + sumf g r end.
Lemma rsum_sumf a b l : rsum a b l = sumf (fun f => R32 (a f) * R32 (b f)) l.
Proof. induction l as [|f l IH]; cbn [rsum sumf]; [reflexivity|rewrite IH; reflexivity]. Qed.
Lemma sumf_ext g h l : (forall f, In f l -> g f = h f) -> sumf g l = sumf h l.
Proof. induction l as [|f l IH]; intros H; cbn [sumf]; [reflexivity|]. rewrite (H f (or_introl eq_refl)), IH; [reflexivity|]. intros; apply H; right; assumption. Qed.
Lemma sumf_abs g h l : (forall f, In f l -> Rabs (g f) <= h f) -> Rabs (sumf g l) <= sumf h l.
Proof.
  induction l as [|f l IH]; intros H; cbn [sumf]; [rewrite Rabs_R0; lra|].
  eapply Rle_trans; [apply Rabs_triang|]. specialize (H f (or_introl eq_refl)) as H1. assert (Rabs (sumf g l) <= sumf h l) by (apply IH; intros; apply H; right; assumption). lra.
Qed.
Lemma sumf_const c l : sumf (fun _ => c) l = INR (length l) * c.
Proof. induction l as [|f l IH]; [cbn; ring|]. cbn [sumf]. rewrite IH. change (length (f :: l)) with (S (length l)). rewrite S_INR. ring. Qed.
Lemma sumf_minus g h l : sumf g l - sumf h l = sumf (fun f => g f - h f) l.
Proof. induction l as [|f l IH]; cbn [sumf]; [ring|]. rewrite <- IH. ring. Qed.
Lemma sumf_scale g c l : sumf (fun f => g f * c) l = sumf g l * c.
Proof. induction l as [|f l IH]; cbn [sumf]; [ring|]. rewrite IH. ring. Qed.
Lemma in_seq8 f : In f (seq 0 8) <-> (f < 8)%nat.
Proof. rewrite in_seq. lia. Qed.

(* ---- one pass ---- *)
Lemma pass_err (inp : nat -> f32) A i : (i < 8)%nat -> 1 <= A -> A <= 50000 ->
  (forall f, (f < 8)%nat -> FIN (inp f) /\ Rabs (R32 (inp f)) <= A) ->
  FIN (dotf inp (fun f => basis_get f i) (seq 0 8) f_zero) /\
  Rabs (R32 (dotf inp (fun f => basis_get f i) (seq 0 8) f_zero) - sumf (fun f => R32 (inp f) * bR f i) (seq 0 8)) <= 112 * u32 * A.
Proof.
  intros Hi HA1 HA2 Hin. set (out := dotf inp (fun f => basis_get f i) (seq 0 8) f_zero).
  assert (I8 : INR 8 = 8) by (simpl; lra). assert (I11 : INR 11 = 11) by (simpl; lra). assert (I14 : INR 14 = 14) by (simpl; lra).
  assert (Hu : 0 < u32 <= / 16777216) by (rewrite u32_val; lra).
  pose proof (dot_err inp (fun f => basis_get f i) A 8 HA1) as D.
  change (8 + 3)%nat with 11%nat in D. change (8 + 6)%nat with 14%nat in D. rewrite I11, I14 in D.
  specialize (D ltac:(lra) (seq 0 8) f_zero 0 0 0%nat). rewrite seq_length, I8 in D.
  destruct D as [F E].
  - intros f Hf. apply in_seq8 in Hf. destruct (Hin f Hf) as [F1 B1]. destruct (basis_real f i Hf Hi) as [F2 _].
    split; [exact F1|]. split; [exact F2|]. rewrite Rabs_mult. pose proof (bR_le1 f i Hf Hi) as B2. unfold bR in B2.
    pose proof (Rabs_pos (R32 (inp f))). pose proof (Rabs_pos (R32 (basis_get f i))). nra.
  - reflexivity.
  - change (R32 f_zero) with 0. rewrite Rminus_0_r, Rabs_R0. lra.
  - rewrite Rabs_R0. change (INR 0) with 0. lra.
  - lia.
  - lra.
  - nra.
  - split; [exact F|]. rewrite rsum_sumf in E. unfold bR. rewrite Rplus_0_l in E.
    eapply Rle_trans; [exact E|]. nra.
Qed.

Lemma dotf_ext a b a' b' l acc : (forall f, In f l -> a f = a' f /\ b f = b' f) -> dotf a b l acc = dotf a' b' l acc.
Proof.
  revert acc. induction l as [|f l IH]; intros acc H; [reflexivity|]. unfold dotf in *. cbn [fold_left].
  destruct (H f (or_introl eq_refl)) as [E1 E2]. rewrite E1, E2. apply IH. intros g Hg. apply H. right. exact Hg.
Qed.

(* ---- the two passes ---- *)
#[local] Opaque dotf basis_get bR f_of_Z.
Section TwoPass.
  Variable Fz : nat -> nat -> Z.                    (* coefficient at row r (vertical frequency), column f (horizontal frequency) *)
  Hypothesis Fz_range : forall r f, (r < 8)%nat -> (f < 8)%nat -> (Z.abs (Fz r f) <= 2048)%Z.

  Definition mid (r c : nat) : f32 := dotf (fun f => f_of_Z (Fz r f)) (fun f => basis_get f c) (seq 0 8) f_zero.
  Definition out2 (c j : nat) : f32 := dotf (fun r => mid r c) (fun r => basis_get r j) (seq 0 8) f_zero.

  Definition ib (f i : nat) : R := ideal_basis (Z.of_nat f) (Z.of_nat i).
  Definition S1 (r c : nat) : R := sumf (fun f => IZR (Fz r f) * bR f c) (seq 0 8).
  (* four times the inverse transform of H.263 6.2.4 / Annex A at column c, line j *)
  Definition ideal4 (c j : nat) : R := sumf (fun r => sumf (fun f => IZR (Fz r f) * ib f c) (seq 0 8) * ib r j) (seq 0 8).

  Lemma Fz_abs r f : (r < 8)%nat -> (f < 8)%nat -> Rabs (IZR (Fz r f)) <= 2048.
  Proof. intros Hr Hf. rewrite <- abs_IZR. apply IZR_le. apply Fz_range; assumption. Qed.

  Lemma mid_ok r c : (r < 8)%nat -> (c < 8)%nat ->
    FIN (mid r c) /\ Rabs (R32 (mid r c) - S1 r c) <= 112 * u32 * 2048 /\ Rabs (S1 r c) <= 16384 /\ Rabs (R32 (mid r c)) <= 16385.
  Proof.
    intros Hr Hc. unfold mid.
    destruct (pass_err (fun f => f_of_Z (Fz r f)) 2048 c Hc ltac:(lra) ltac:(lra)) as [F E].
    { intros f Hf. destruct (f_of_Z_exact (Fz r f) (Fz_range r f Hr Hf)) as [F1 E1]. split; [exact F1|]. rewrite E1. apply Fz_abs; assumption. }
    assert (Es : sumf (fun f => R32 (f_of_Z (Fz r f)) * bR f c) (seq 0 8) = S1 r c).
    { unfold S1. apply sumf_ext. intros f Hf. apply in_seq8 in Hf. destruct (f_of_Z_exact (Fz r f) (Fz_range r f Hr Hf)) as [_ E1]. rewrite E1. reflexivity. }
    rewrite Es in E.
    assert (B : Rabs (S1 r c) <= 16384).
    { unfold S1. eapply Rle_trans; [apply (sumf_abs _ (fun _ => 2048))|].
      - intros f Hf. apply in_seq8 in Hf. rewrite Rabs_mult. pose proof (Fz_abs r f Hr Hf). pose proof (bR_le1 f c Hf Hc).
        pose proof (Rabs_pos (IZR (Fz r f))). pose proof (Rabs_pos (bR f c)). nra.
      - rewrite sumf_const, seq_length. simpl. lra. }
    split; [exact F|]. split; [exact E|]. split; [exact B|].
    assert (Hu : 0 < u32 <= / 16777216) by (rewrite u32_val; lra).
    apply Rabs_le. apply Rabs_le_inv in E. apply Rabs_le_inv in B. nra.
  Qed.

  Definition e1 : R := 112 * u32 * 2048.
  Definition e2 : R := 112 * u32 * 16385.

  Lemma out2_float c j : (c < 8)%nat -> (j < 8)%nat ->
    FIN (out2 c j) /\ Rabs (R32 (out2 c j) - sumf (fun r => S1 r c * bR r j) (seq 0 8)) <= e2 + 8 * e1.
  Proof.
    intros Hc Hj.
    destruct (pass_err (fun r => mid r c) 16385 j Hj ltac:(lra) ltac:(lra)) as [F E].
    { intros r Hr. destruct (mid_ok r c Hr Hc) as (F1 & _ & _ & B1). split; assumption. }
    unfold out2. revert F E. generalize (dotf (fun r => mid r c) (fun r => basis_get r j) (seq 0 8) f_zero). intros o F E. split; [exact F|].
    assert (D : Rabs (sumf (fun r => R32 (mid r c) * bR r j) (seq 0 8) - sumf (fun r => S1 r c * bR r j) (seq 0 8)) <= 8 * e1).
    { rewrite sumf_minus. eapply Rle_trans; [apply (sumf_abs _ (fun _ => e1))|].
      - intros r Hr. apply in_seq8 in Hr. destruct (mid_ok r c Hr Hc) as (_ & E1 & _ & _). fold e1 in E1. revert E1. generalize (R32 (mid r c)) (S1 r c). intros m s1 E1.
        replace (m * bR r j - s1 * bR r j) with ((m - s1) * bR r j) by ring.
        rewrite Rabs_mult. pose proof (bR_le1 r j Hr Hj). pose proof (Rabs_pos (m - s1)). pose proof (Rabs_pos (bR r j)). nra.
      - rewrite sumf_const, seq_length. simpl. lra. }
    fold e2 in E.
    replace (R32 o - sumf (fun r => S1 r c * bR r j) (seq 0 8))
      with ((R32 o - sumf (fun r => R32 (mid r c) * bR r j) (seq 0 8)) +
            (sumf (fun r => R32 (mid r c) * bR r j) (seq 0 8) - sumf (fun r => S1 r c * bR r j) (seq 0 8))) by ring.
    eapply Rle_trans; [apply Rabs_triang|]. lra.
  Qed.

  Definition dB : R := 1 / 900000.
  Lemma prod_close f c r j : (f < 8)%nat -> (c < 8)%nat -> (r < 8)%nat -> (j < 8)%nat ->
    Rabs (bR f c * bR r j - ib f c * ib r j) <= 2.000002 * dB.
  Proof.
    intros Hf Hc Hr Hj. pose proof (bR_le1 f c Hf Hc) as A1. pose proof (bR_ideal f c Hf Hc) as D1. pose proof (bR_ideal r j Hr Hj) as D2.
    pose proof (bR_le1 r j Hr Hj) as A2. fold (ib f c) in D1. fold (ib r j) in D2. fold dB in D1, D2.
    replace (bR f c * bR r j - ib f c * ib r j) with (bR f c * (bR r j - ib r j) + ib r j * (bR f c - ib f c)) by ring.
    eapply Rle_trans; [apply Rabs_triang|]. rewrite !Rabs_mult.
    assert (A3 : Rabs (ib r j) <= 1 + dB).
    { replace (ib r j) with (bR r j - (bR r j - ib r j)) by ring. eapply Rle_trans; [apply Rabs_triang|]. rewrite Rabs_Ropp. lra. }
    pose proof (Rabs_pos (bR f c)). pose proof (Rabs_pos (bR r j - ib r j)). pose proof (Rabs_pos (ib r j)). pose proof (Rabs_pos (bR f c - ib f c)).
    unfold dB in *. nra.
  Qed.

  Lemma basis_part c j : (c < 8)%nat -> (j < 8)%nat ->
    Rabs (sumf (fun r => S1 r c * bR r j) (seq 0 8) - ideal4 c j) <= 64 * 2048 * (2.000002 * dB).
  Proof.
    intros Hc Hj. unfold ideal4. rewrite sumf_minus.
    eapply Rle_trans; [apply (sumf_abs _ (fun _ => 8 * 2048 * (2.000002 * dB)))|].
    - intros r Hr. apply in_seq8 in Hr. unfold S1. rewrite <- !sumf_scale. rewrite sumf_minus.
      eapply Rle_trans; [apply (sumf_abs _ (fun _ => 2048 * (2.000002 * dB)))|].
      + intros f Hf. apply in_seq8 in Hf.
        replace (IZR (Fz r f) * bR f c * bR r j - IZR (Fz r f) * ib f c * ib r j) with (IZR (Fz r f) * (bR f c * bR r j - ib f c * ib r j)) by ring.
        rewrite Rabs_mult. pose proof (Fz_abs r f Hr Hf). pose proof (prod_close f c r j Hf Hc Hr Hj).
        pose proof (Rabs_pos (IZR (Fz r f))). pose proof (Rabs_pos (bR f c * bR r j - ib f c * ib r j)). nra.
      + rewrite sumf_const, seq_length. simpl. lra.
    - rewrite sumf_const, seq_length. simpl. lra.
  Qed.

  Theorem out2_accurate c j : (c < 8)%nat -> (j < 8)%nat ->
    FIN (out2 c j) /\ Rabs (R32 (out2 c j) - ideal4 c j) <= 0.5102.
  Proof.
    intros Hc Hj. destruct (out2_float c j Hc Hj) as [F E]. pose proof (basis_part c j Hc Hj) as B. split; [exact F|].
    replace (R32 (out2 c j) - ideal4 c j) with ((R32 (out2 c j) - sumf (fun r => S1 r c * bR r j) (seq 0 8)) + (sumf (fun r => S1 r c * bR r j) (seq 0 8) - ideal4 c j)) by ring.
    eapply Rle_trans; [apply Rabs_triang|]. unfold e1, e2, dB in *. rewrite u32_val in E. lra.
  Qed.

  Lemma out2_bound c j : (c < 8)%nat -> (j < 8)%nat -> Rabs (R32 (out2 c j)) <= 140000.
  Proof.
    intros Hc Hj. destruct (out2_float c j Hc Hj) as [_ E].
    assert (B : Rabs (sumf (fun r => S1 r c * bR r j) (seq 0 8)) <= 131072).
    { eapply Rle_trans; [apply (sumf_abs _ (fun _ => 16384))|].
      - intros r Hr. apply in_seq8 in Hr. destruct (mid_ok r c Hr Hc) as (_ & _ & B1 & _). rewrite Rabs_mult.
        pose proof (bR_le1 r j Hr Hj). pose proof (Rabs_pos (S1 r c)). pose proof (Rabs_pos (bR r j)). nra.
      - rewrite sumf_const, seq_length. simpl. lra. }
    unfold e1, e2 in E. rewrite u32_val in E. apply Rabs_le. apply Rabs_le_inv in E. apply Rabs_le_inv in B. lra.
  Qed.
End TwoPass.

(* ---- `as i16` is truncation toward zero ---- *)
Lemma f_to_i16_trunc y : FIN y -> f_to_i16 y = clamp (-32768) 32767 (Ztrunc (R32 y)).
Proof.
  intros F. destruct y as [s|s| |s m e H]; try discriminate F.
  - cbn [f_to_i16 B2R]. rewrite (Ztrunc_IZR 0). reflexivity.
  - cbn [f_to_i16]. f_equal. cbn [B2R]. unfold F2R. cbn [Fnum Fexp].
    destruct (0 <=? e)%Z eqn:Ee.
    + apply Z.leb_le in Ee. rewrite <- IZR_Zpower by exact Ee. rewrite <- mult_IZR, Ztrunc_IZR. change (radix_val radix2) with 2%Z.
      destruct s; cbn [cond_Zopp]; ring.
    + apply Z.leb_gt in Ee.
      replace (bpow radix2 e) with (/ IZR (2 ^ (- e))).
      2:{ replace e with (- (- e))%Z at 2 by lia. rewrite bpow_opp. f_equal. rewrite <- IZR_Zpower by lia. reflexivity. }
      assert (P : (0 < 2 ^ (- e))%Z) by (apply Z.pow_pos_nonneg; lia).
      assert (Pr : 0 < IZR (2 ^ (- e))) by (apply IZR_lt; exact P).
      destruct s; cbn [cond_Zopp].
      * rewrite opp_IZR. replace (- IZR (Z.pos m) * / IZR (2 ^ (- e))) with (- (IZR (Z.pos m) / IZR (2 ^ (- e)))) by (unfold Rdiv; ring).
        rewrite Ztrunc_opp, Ztrunc_floor.
        -- rewrite Zfloor_div by lia. reflexivity.
        -- apply Rmult_le_pos; [apply IZR_le; lia|]. apply Rlt_le, Rinv_0_lt_compat. exact Pr.
      * fold (IZR (Z.pos m) / IZR (2 ^ (- e))). rewrite Ztrunc_floor.
        -- rewrite Zfloor_div by lia. reflexivity.
        -- apply Rmult_le_pos; [apply IZR_le; lia|]. apply Rlt_le, Rinv_0_lt_compat. exact Pr.
Qed.

(* ---- rounding and clipping ---- *)
Definition Rclamp (lo hi x : R) : R := Rmin hi (Rmax lo x).
Lemma clamp_IZR lo hi n : IZR (clamp lo hi n) = Rclamp (IZR lo) (IZR hi) (IZR n).
Proof.
  unfold clamp, Rclamp. unfold Rmin, Rmax.
  destruct (Rle_dec (IZR lo) (IZR n)) as [H1|H1].
  - apply le_IZR in H1. rewrite Z.max_r by lia. destruct (Rle_dec (IZR hi) (IZR n)) as [H2|H2].
    + apply le_IZR in H2. rewrite Z.min_l by lia. reflexivity.
    + apply Rnot_le_lt, lt_IZR in H2. rewrite Z.min_r by lia. reflexivity.
  - apply Rnot_le_lt, lt_IZR in H1. rewrite Z.max_l by lia. destruct (Rle_dec (IZR hi) (IZR lo)) as [H2|H2].
    + apply le_IZR in H2. rewrite Z.min_l by lia. reflexivity.
    + apply Rnot_le_lt, lt_IZR in H2. rewrite Z.min_r by lia. reflexivity.
Qed.
Lemma Rclamp_lip lo hi a b : Rabs (Rclamp lo hi a - Rclamp lo hi b) <= Rabs (a - b).
Proof.
  unfold Rclamp, Rmin, Rmax.
  destruct (Rle_dec lo a), (Rle_dec lo b); repeat match goal with |- context [Rle_dec ?x ?y] => destruct (Rle_dec x y) end;
    unfold Rabs; repeat match goal with |- context [Rcase_abs ?z] => destruct (Rcase_abs z) end; lra.
Qed.
Lemma clamp_clamp n : clamp (-256) 255 (clamp (-32768) 32767 n) = clamp (-256) 255 n.
Proof. unfold clamp. lia. Qed.

Lemma sign_real x : FIN x -> if Bsign x then R32 x <= 0 else 0 <= R32 x.
Proof.
  intros F. destruct x as [s|s| |s m e H]; try discriminate F.
  - cbn. destruct s; lra.
  - cbn [Bsign B2R]. destruct s; [apply F2R_le_0|apply F2R_ge_0]; cbn; lia.
Qed.

Lemma fmul_exact a b m e : FIN a -> FIN b -> R32 a * R32 b = IZR m * bpow radix2 e -> (Z.abs m < 2 ^ 24)%Z -> (-149 <= e <= 0)%Z ->
  FIN (fmul a b) /\ R32 (fmul a b) = IZR m * bpow radix2 e.
Proof.
  intros Fa Fb E Hm He. unfold fmul. pose proof (Bmult_correct prec32 emax32 _ _ mode_NE a b) as C. rewrite E in C.
  assert (G : generic_format radix2 (SpecFloat.fexp prec32 emax32) (IZR m * bpow radix2 e)).
  { apply generic_format_FLT. exists (Float radix2 m e); [reflexivity|exact Hm|cbn; lia]. }
  rewrite (round_generic radix2 _ _ _ G) in C.
  assert (B : Rabs (IZR m * bpow radix2 e) < bpow radix2 emax32).
  { rewrite Rabs_mult, <- abs_IZR. rewrite (Rabs_pos_eq (bpow radix2 e)) by apply bpow_ge_0.
    assert (IZR (Z.abs m) < 16777216) by (apply (IZR_lt _ (2 ^ 24)); exact Hm).
    assert (bpow radix2 e <= 1) by (apply (bpow_le radix2 e 0); lia). pose proof (bpow_gt_0 radix2 e). pose proof bpow128_big.
    pose proof (IZR_le 0 (Z.abs m) (Z.abs_nonneg m)). nra. }
  rewrite (Rlt_bool_true _ _ B) in C. destruct C as (C1 & C2 & _). split; [rewrite C2, Fa, Fb; reflexivity|exact C1].
Qed.
Lemma R_half : FIN f_half /\ R32 f_half = 1 / 2.
Proof. destruct (f_of_me_exact 1 (-1) ltac:(lia) ltac:(lia)) as [F E]. split; [exact F|]. unfold f_half. rewrite E. simpl. lra. Qed.
Lemma half_pos : FIN (fmul (f_of_Z 1) f_half) /\ R32 (fmul (f_of_Z 1) f_half) = 1 / 2.
Proof.
  destruct (f_of_Z_exact 1 ltac:(lia)) as [F1 E1]. destruct R_half as [F2 E2].
  destruct (fmul_exact (f_of_Z 1) f_half 1 (-1) F1 F2) as [F E]; [rewrite E1, E2; simpl; lra|lia|lia|]. split; [exact F|]. rewrite E. simpl. lra.
Qed.
Lemma half_neg : FIN (fmul (f_of_Z (-1)) f_half) /\ R32 (fmul (f_of_Z (-1)) f_half) = - (1 / 2).
Proof.
  destruct (f_of_Z_exact (-1) ltac:(lia)) as [F1 E1]. destruct R_half as [F2 E2].
  destruct (fmul_exact (f_of_Z (-1)) f_half (-1) (-1) F1 F2) as [F E]; [rewrite E1, E2; simpl; lra|lia|lia|]. split; [exact F|]. rewrite E. simpl. lra.
Qed.
Lemma R_four : FIN f_four /\ R32 f_four = 4.
Proof. apply (f_of_Z_exact 4). lia. Qed.

Lemma rnd_ge0 x : 0 <= x -> 0 <= rnd x.
Proof. intros H. unfold rnd. rewrite <- (round_0 radix2 (SpecFloat.fexp prec32 emax32) ZnearestE). apply round_le; [typeclasses eauto..|exact H]. Qed.
Lemma rnd_le0 x : x <= 0 -> rnd x <= 0.
Proof. intros H. unfold rnd. rewrite <- (round_0 radix2 (SpecFloat.fexp prec32 emax32) ZnearestE). apply round_le; [typeclasses eauto..|exact H]. Qed.

Lemma round_clip_close_gen x sx t D : FIN x -> FIN sx -> (0 <= R32 sx -> 0 <= R32 x) -> (R32 sx <= 0 -> R32 x <= 0) ->
  Rabs (R32 x) <= 140000 -> Rabs (R32 x / 4 - t) <= D ->
  Rabs (IZR (round_clip x sx) - Rclamp (-256) 255 t) <= 1 / 2 + D + 0.0042.
Proof.
  intros Fx Fsx Spos Sneg Bx Ht. unfold round_clip.
  destruct R_four as [F4 E4].
  assert (Hu : 0 < u32 <= / 16777216) by (rewrite u32_val; lra). pose proof eta32_small as Heta.
  (* the division *)
  pose proof (Bdiv_correct prec32 emax32 _ _ mode_NE x f_four) as C. rewrite E4 in C. specialize (C ltac:(lra)).
  assert (Bq0 : Rabs (R32 x / 4) <= 35000) by (apply Rabs_le; apply Rabs_le_inv in Bx; lra).
  rewrite (no_overflow (R32 x / 4)) in C by lra. destruct C as (Eq & Fq & _). fold (fdiv x f_four) in Eq, Fq. rewrite Fx in Fq.
  pose proof (rnd_err (R32 x / 4)) as Rq. rewrite <- Eq in Rq.
  set (q := fdiv x f_four) in *. 
  assert (Rq' : Rabs (R32 q - R32 x / 4) <= 0.0021) by (pose proof (Rabs_pos (R32 x / 4)); nra).
  (* the signed half *)
  pose proof (sign_real sx Fsx) as Sx.
  assert (Hh : exists h, FIN h /\ fmul (fsignum sx) f_half = h /\ ((R32 h = 1 / 2 /\ 0 <= R32 x) \/ (R32 h = - (1 / 2) /\ R32 x <= 0))).
  { assert (Es : fsignum sx = if Bsign sx then f_of_Z (-1) else f_of_Z 1) by (destruct sx; try discriminate Fsx; reflexivity).
    rewrite Es. destruct (Bsign sx).
    - destruct half_neg as [F E]. eexists; split; [exact F|]. split; [reflexivity|]. right. split; [assumption|apply Sneg; assumption].
    - destruct half_pos as [F E]. eexists; split; [exact F|]. split; [reflexivity|]. left. split; [assumption|apply Spos; assumption]. }
  destruct Hh as (h & Fh & Eh & Hh). rewrite Eh. clear Eh Sx.
  (* the addition *)
  pose proof (Bplus_correct prec32 emax32 _ _ mode_NE q h Fq Fh) as C.
  assert (Bq : Rabs (R32 q) <= 35001) by (apply Rabs_le; apply Rabs_le_inv in Rq'; apply Rabs_le_inv in Bq0; lra).
  assert (Bs : Rabs (R32 q + R32 h) <= 35002) by (apply Rabs_le; apply Rabs_le_inv in Bq; destruct Hh as [[E _]|[E _]]; rewrite E; lra).
  rewrite (no_overflow (R32 q + R32 h)) in C by lra. destruct C as (Ey & Fy & _). fold (fadd q h) in Ey, Fy.
  pose proof (rnd_err (R32 q + R32 h)) as Ry. rewrite <- Ey in Ry.
  assert (Ry' : Rabs (R32 (fadd q h) - (R32 q + R32 h)) <= 0.0021) by (pose proof (Rabs_pos (R32 q + R32 h)); nra).
  rewrite (f_to_i16_trunc _ Fy), clamp_clamp.
  change (-256)%Z with (Z.opp 256). rewrite clamp_IZR. rewrite opp_IZR.
  eapply Rle_trans; [apply Rclamp_lip|].
  apply Rabs_le_inv in Rq'. apply Rabs_le_inv in Ry'. apply Rabs_le_inv in Ht.
  destruct Hh as [[E Hx]|[E Hx]]; rewrite E in *.
  - assert (Hq : 0 <= R32 q) by (rewrite Eq; apply rnd_ge0; lra).
    assert (Hy : 0 <= R32 (fadd q h)) by (rewrite Ey; apply rnd_ge0; lra).
    rewrite Ztrunc_floor by exact Hy. pose proof (Zfloor_lb (R32 (fadd q h))). pose proof (Zfloor_ub (R32 (fadd q h))).
    apply Rabs_le. lra.
  - assert (Hq : R32 q <= 0) by (rewrite Eq; apply rnd_le0; lra).
    assert (Hy : R32 (fadd q h) <= 0) by (rewrite Ey; apply rnd_le0; lra).
    rewrite Ztrunc_ceil by exact Hy. pose proof (Zceil_ub (R32 (fadd q h))). pose proof (Zceil_lb (R32 (fadd q h))).
    apply Rabs_le. lra.
Qed.

Lemma round_clip_close x t D : FIN x -> Rabs (R32 x) <= 140000 -> Rabs (R32 x / 4 - t) <= D ->
  Rabs (IZR (round_clip x x) - Rclamp (-256) 255 t) <= 1 / 2 + D + 0.0042.
Proof. intros Fx Bx Ht. apply round_clip_close_gen; auto. Qed.

(* ---- the model's Full variant ---- *)
Lemma nth_map_len {A B} (g : A -> B) l i d d' : (i < length l)%nat -> nth i (map g l) d = g (nth i l d').
Proof. intros H. rewrite (nth_indep _ d (g d')) by (rewrite map_length; exact H). apply map_nth. Qed.

#[local] Transparent f_of_Z.
Lemma f_of_Z_0 : f_of_Z 0 = f_zero. Proof. reflexivity. Qed.
#[local] Opaque f_of_Z.

Lemma full_value rows xo yo : length rows = 8%nat -> (xo < 8)%nat -> (yo < 8)%nat ->
  idct_value_at (idct_values (DctFull rows)) (Z.of_nat xo) (Z.of_nat yo) =
  let o := out2 (fun r f => nth f (nth r rows []) 0%Z) xo yo in round_clip o o.
Proof.
  intros Hl Hx Hy. cbn [idct_values idct_value_at]. rewrite !Nat2Z.id. cbv zeta.
  set (first := map (fun row => idct_1d (map f_of_Z row)) rows).
  assert (E : nth yo (nth xo (map idct_1d (transpose8 first)) []) f_zero = out2 (fun r f => nth f (nth r rows []) 0%Z) xo yo).
  { rewrite (nth_map_len idct_1d _ xo [] []) by (unfold transpose8; rewrite map_length, seq_length; exact Hx).
    rewrite idct_1d_nth by exact Hy. unfold out2. apply dotf_ext. intros r Hr. apply in_seq8 in Hr. split; [|reflexivity].
    unfold transpose8. rewrite (nth_map_seq _ 8 xo []) by exact Hx.
    unfold first. rewrite map_map. rewrite (nth_map_len _ rows r f_zero []) by lia.
    rewrite idct_1d_nth by exact Hx. unfold mid. apply dotf_ext. intros f Hf. split; [|reflexivity].
    rewrite <- f_of_Z_0. apply map_nth. }
  rewrite E. reflexivity.
Qed.

(* Every 8x8 block of coefficients in -2048..2048, at every position: the value the decoder adds to the prediction is
   within 0.632 of the exact (real-number) inverse transform of H.263 6.2.4, clipped to -256..255 *)
Theorem full_block_accurate rows xo yo :
  length rows = 8%nat -> (forall r f, (r < 8)%nat -> (f < 8)%nat -> (Z.abs (nth f (nth r rows []) 0) <= 2048)%Z) ->
  (xo < 8)%nat -> (yo < 8)%nat ->
  Rabs (IZR (idct_value_at (idct_values (DctFull rows)) (Z.of_nat xo) (Z.of_nat yo))
        - Rclamp (-256) 255 (ideal4 (fun r f => nth f (nth r rows []) 0%Z) xo yo / 4)) <= 0.632.
Proof.
  intros Hl Hr Hx Hy. rewrite (full_value rows xo yo Hl Hx Hy). cbv zeta.
  set (Fz := fun r f => nth f (nth r rows []) 0%Z).
  destruct (out2_accurate Fz Hr xo yo Hx Hy) as [F A]. pose proof (out2_bound Fz Hr xo yo Hx Hy) as B.
  eapply Rle_trans; [apply (round_clip_close _ (ideal4 Fz xo yo / 4) 0.12755 F B)|lra].
  replace (R32 (out2 Fz xo yo) / 4 - ideal4 Fz xo yo / 4) with ((R32 (out2 Fz xo yo) - ideal4 Fz xo yo) / 4) by (unfold Rdiv; ring).
  apply Rabs_le. apply Rabs_le_inv in A. lra.
Qed.

(* against any nearest-integer rounding of the exact transform: at most 1 *)
Corollary full_block_within_1 rows xo yo (k : Z) :
  length rows = 8%nat -> (forall r f, (r < 8)%nat -> (f < 8)%nat -> (Z.abs (nth f (nth r rows []) 0) <= 2048)%Z) ->
  (xo < 8)%nat -> (yo < 8)%nat ->
  Rabs (IZR k - ideal4 (fun r f => nth f (nth r rows []) 0%Z) xo yo / 4) <= 1 / 2 ->
  (Z.abs (idct_value_at (idct_values (DctFull rows)) (Z.of_nat xo) (Z.of_nat yo) - clamp (-256) 255 k) <= 1)%Z.
Proof.
  intros Hl Hr Hx Hy Hk. pose proof (full_block_accurate rows xo yo Hl Hr Hx Hy) as A.
  set (v := idct_value_at (idct_values (DctFull rows)) (Z.of_nat xo) (Z.of_nat yo)) in *.
  set (t := ideal4 (fun r f => nth f (nth r rows []) 0%Z) xo yo / 4) in *.
  pose proof (Rclamp_lip (-256) 255 (IZR k) t) as L.
  assert (Ek : IZR (clamp (-256) 255 k) = Rclamp (-256) 255 (IZR k)).
  { change (-256)%Z with (Z.opp 256). rewrite clamp_IZR, opp_IZR. reflexivity. }
  assert (Hd : Rabs (IZR (v - clamp (-256) 255 k)) < 2).
  { rewrite minus_IZR, Ek. apply Rabs_lt. apply Rabs_le_inv in A.
    assert (L' : Rabs (Rclamp (-256) 255 (IZR k) - Rclamp (-256) 255 t) <= 1 / 2) by lra. apply Rabs_le_inv in L'. lra. }
  rewrite <- abs_IZR in Hd. apply lt_IZR in Hd. lia.
Qed.

(* ---- the first-row / first-column shortcuts ---- *)
Lemma fmul_rnd a b : FIN a -> FIN b -> Rabs (R32 a * R32 b) <= 1000000 -> R32 (fmul a b) = rnd (R32 a * R32 b).
Proof.
  intros Fa Fb HM. unfold fmul. pose proof (Bmult_correct prec32 emax32 _ _ mode_NE a b) as C.
  rewrite (no_overflow (R32 a * R32 b)) in C by lra. destruct C as (C1 & _). exact C1.
Qed.

Lemma b00_pos : 0.7 <= bR 0 0 <= 1.
Proof.
  pose proof (bR_le1 0 0 ltac:(lia) ltac:(lia)) as U. pose proof (bR_ideal 0 0 ltac:(lia) ltac:(lia)) as D.
  unfold ideal_basis in D. cbn [Z.of_nat Z.eqb Z.mul Z.add] in D. replace (0 * PI / 16) with 0 in D by (unfold Rdiv; ring). rewrite cos_0 in D.
  assert (S : 0.707 <= / sqrt 2 <= 0.708) by (split; interval).
  set (s2 := / sqrt 2) in *. apply Rabs_le_inv in D. apply Rabs_le_inv in U. lra.
Qed.

Section OnePass.
  Variable G : nat -> Z.
  Hypothesis G_range : forall f, (f < 8)%nat -> (Z.abs (G f) <= 2048)%Z.
  Let Fz1 (r f : nat) : Z := G f.
  Lemma Fz1_range : forall r f, (r < 8)%nat -> (f < 8)%nat -> (Z.abs (Fz1 r f) <= 2048)%Z.
  Proof. intros r f _ Hf. apply G_range. exact Hf. Qed.

  Definition line (c : nat) : f32 := dotf (fun f => f_of_Z (G f)) (fun f => basis_get f c) (seq 0 8) f_zero.
  (* four times the exact transform of a block whose other rows (columns) are zero: the 1-D transform times C(0) *)
  Definition ideal1 (c : nat) : R := sumf (fun f => IZR (G f) * ib f c) (seq 0 8) * ib 0 0.

  Lemma line_ok c : (c < 8)%nat ->
    FIN (line c) /\ Rabs (R32 (line c) - sumf (fun f => IZR (G f) * ib f c) (seq 0 8)) <= 0.03188 /\ Rabs (R32 (line c)) <= 16385 /\
    Rabs (sumf (fun f => IZR (G f) * ib f c) (seq 0 8)) <= 16385.
  Proof.
    intros Hc. destruct (mid_ok Fz1 Fz1_range 0 c ltac:(lia) Hc) as (F & E & B & B').
    change (mid Fz1 0 c) with (line c) in *. split; [exact F|].
    assert (D : Rabs (S1 Fz1 0 c - sumf (fun f => IZR (G f) * ib f c) (seq 0 8)) <= 8 * (2048 * dB)).
    { unfold S1. rewrite sumf_minus. eapply Rle_trans; [apply (sumf_abs _ (fun _ => 2048 * dB))|].
      - intros f Hf. apply in_seq8 in Hf. unfold Fz1.
        replace (IZR (G f) * bR f c - IZR (G f) * ib f c) with (IZR (G f) * (bR f c - ib f c)) by ring. rewrite Rabs_mult.
        pose proof (bR_ideal f c Hf Hc) as D1. fold (ib f c) in D1. fold dB in D1.
        assert (A : Rabs (IZR (G f)) <= 2048) by (rewrite <- abs_IZR; apply IZR_le, G_range; exact Hf).
        pose proof (Rabs_pos (IZR (G f))). pose proof (Rabs_pos (bR f c - ib f c)). unfold dB in *. nra.
      - rewrite sumf_const, seq_length. simpl. lra. }
    unfold dB in D. rewrite u32_val in E.
    apply Rabs_le_inv in E. apply Rabs_le_inv in D. apply Rabs_le_inv in B. apply Rabs_le_inv in B'.
    split; [apply Rabs_le; lra|]. split; apply Rabs_le; lra.
  Qed.

  Lemma scaled_ok c : (c < 8)%nat ->
    let x := fmul (line c) basis00 in
    FIN x /\ (0 <= R32 (line c) -> 0 <= R32 x) /\ (R32 (line c) <= 0 -> R32 x <= 0) /\
    Rabs (R32 x) <= 140000 /\ Rabs (R32 x - ideal1 c) <= 0.0511.
  Proof.
    intros Hc x. destruct (line_ok c Hc) as (F & E & B & Bs). pose proof b00_pos as P.
    destruct (basis_real 0 0 ltac:(lia) ltac:(lia)) as [F0 _]. change (basis_get 0 0) with basis00 in F0.
    assert (E00 : R32 basis00 = bR 0 0) by reflexivity.
    assert (HM : Rabs (R32 (line c) * R32 basis00) <= 16385).
    { rewrite Rabs_mult, E00. rewrite (Rabs_pos_eq (bR 0 0)) by lra. pose proof (Rabs_pos (R32 (line c))). nra. }
    destruct (fmul_ok (line c) basis00 16385 F F0 HM ltac:(lra)) as [Fx Ex]. fold x in Fx, Ex.
    pose proof (fmul_rnd (line c) basis00 F F0 ltac:(lra)) as Rx. fold x in Rx. rewrite E00 in *.
    split; [exact Fx|]. split; [intros H; rewrite Rx; apply rnd_ge0; nra|]. split; [intros H; rewrite Rx; apply rnd_le0; nra|].
    pose proof (bR_ideal 0 0 ltac:(lia) ltac:(lia)) as D0. fold (ib 0 0) in D0.
    rewrite u32_val in Ex. pose proof eta32_small. unfold ideal1.
    set (L := R32 (line c)) in *. set (S := sumf (fun f => IZR (G f) * ib f c) (seq 0 8)) in *. set (b := bR 0 0) in *. set (i0 := ib 0 0) in *.
    apply Rabs_le_inv in E. apply Rabs_le_inv in B. apply Rabs_le_inv in Bs. apply Rabs_le_inv in Ex. apply Rabs_le_inv in D0. apply Rabs_le_inv in HM.
    split; [apply Rabs_le; lra|].
    replace (R32 x - S * i0) with ((R32 x - L * b) + (L - S) * b + S * (b - i0)) by ring.
    apply Rabs_le. nra.
  Qed.

  Theorem sparse_accurate c : (c < 8)%nat ->
    Rabs (IZR (round_clip (fmul (line c) basis00) (line c)) - Rclamp (-256) 255 (ideal1 c / 4)) <= 0.517.
  Proof.
    intros Hc. destruct (scaled_ok c Hc) as (Fx & Sp & Sn & Bx & Ex). destruct (line_ok c Hc) as (F & _).
    eapply Rle_trans; [apply (round_clip_close_gen _ _ (ideal1 c / 4) 0.012775 Fx F Sp Sn Bx)|lra].
    replace (R32 (fmul (line c) basis00) / 4 - ideal1 c / 4) with ((R32 (fmul (line c) basis00) - ideal1 c) / 4) by (unfold Rdiv; ring).
    apply Rabs_le. apply Rabs_le_inv in Ex. lra.
  Qed.
End OnePass.

Lemma ib_0 j : ib 0 j = ib 0 0.
Proof. unfold ib, ideal_basis. cbn [Z.of_nat Z.eqb]. rewrite !Z.mul_0_r. reflexivity. Qed.

(* the exact transform of a block whose only non-zero coefficients are in its first row / first column *)
Lemma ideal4_first_row (G : nat -> Z) c j :
  ideal4 (fun r f => if Nat.eqb r 0 then G f else 0%Z) c j = ideal1 G c.
Proof.
  unfold ideal4, ideal1. cbn [seq sumf Nat.eqb]. rewrite (ib_0 j). ring.
Qed.
Lemma ideal4_first_column (G : nat -> Z) c j :
  ideal4 (fun r f => if Nat.eqb f 0 then G r else 0%Z) c j = ideal1 G j.
Proof.
  unfold ideal4, ideal1. cbn [seq sumf Nat.eqb]. rewrite (ib_0 c). ring.
Qed.

Lemma line_value row i : (i < 8)%nat -> nth i (idct_1d (map f_of_Z row)) f_zero = line (fun f => nth f row 0%Z) i.
Proof.
  intros Hi. rewrite idct_1d_nth by exact Hi. unfold line. apply dotf_ext. intros f _. split; [|reflexivity].
  rewrite <- f_of_Z_0. apply map_nth.
Qed.

Theorem first_row_block_accurate row xo yo (j : nat) : (forall f, (f < 8)%nat -> (Z.abs (nth f row 0) <= 2048)%Z) -> (xo < 8)%nat ->
  Rabs (IZR (idct_value_at (idct_values (DctHoriz row)) (Z.of_nat xo) yo)
        - Rclamp (-256) 255 (ideal4 (fun r f => if Nat.eqb r 0 then nth f row 0%Z else 0%Z) xo j / 4)) <= 0.517.
Proof.
  intros Hr Hx. cbn [idct_values idct_value_at]. rewrite Nat2Z.id. cbv zeta. rewrite (line_value row xo Hx).
  rewrite (ideal4_first_row (fun f => nth f row 0%Z)). apply (sparse_accurate _ Hr xo Hx).
Qed.

Theorem first_column_block_accurate col xo yo (c : nat) : (forall f, (f < 8)%nat -> (Z.abs (nth f col 0) <= 2048)%Z) -> (yo < 8)%nat ->
  Rabs (IZR (idct_value_at (idct_values (DctVert col)) xo (Z.of_nat yo))
        - Rclamp (-256) 255 (ideal4 (fun r f => if Nat.eqb f 0 then nth r col 0%Z else 0%Z) c yo / 4)) <= 0.517.
Proof.
  intros Hr Hy. cbn [idct_values idct_value_at]. rewrite Nat2Z.id. cbv zeta. rewrite (line_value col yo Hy).
  rewrite (ideal4_first_column (fun f => nth f col 0%Z)). apply (sparse_accurate _ Hr yo Hy).
Qed.
