(* C10: whatever sparsity class `classify` picks for a coefficient matrix - zero, DC only, first row only, first column
   only, full - the value added at every position is within 0.632 of the exact inverse transform of THAT MATRIX
   (clipped), hence within 1 of any nearest-integer rounding of it. *)
From Coq Require Import Reals ZArith Lia Lra List Psatz.
From Flocq Require Import Core.
From Interval Require Import Tactic.
From H263V Require Import base.Prelude spec.SpecRecon model.Types model.Tables model.Syntax model.F32 model.Recon
  proofs.BasisTable proofs.IdctFacts proofs.RlePlacement proofs.IdctAccuracy.
Import ListNotations.
Local Open Scope R_scope.

Lemma ideal4_ext F F' c j : (forall r f, (r < 8)%nat -> (f < 8)%nat -> F r f = F' r f) -> ideal4 F c j = ideal4 F' c j.
Proof.
  intros H. unfold ideal4. apply sumf_ext. intros r Hr. apply in_seq8 in Hr. f_equal. apply sumf_ext. intros f Hf. apply in_seq8 in Hf.
  rewrite (H r f Hr Hf). reflexivity.
Qed.

Lemma ib00_sq : ib 0 0 * ib 0 0 = 1 / 2.
Proof.
  unfold ib, ideal_basis. cbn [Z.of_nat Z.eqb Z.mul Z.add]. replace (0 * PI / 16) with 0 by (unfold Rdiv; ring). rewrite cos_0.
  assert (S : sqrt 2 * sqrt 2 = 2) by (apply sqrt_sqrt; lra). assert (P : 0 < sqrt 2) by (apply sqrt_lt_R0; lra).
  rewrite !Rmult_1_r. rewrite <- Rinv_mult. rewrite S. lra.
Qed.

Lemma ideal4_dc (dc : Z) c j : ideal4 (fun r f => if (Nat.eqb r 0 && Nat.eqb f 0)%bool then dc else 0%Z) c j = IZR dc / 2.
Proof.
  unfold ideal4. cbn [seq sumf Nat.eqb andb]. rewrite (ib_0 c), (ib_0 j).
  replace (IZR dc / 2) with (IZR dc * (1 / 2)) by (unfold Rdiv; ring). rewrite <- ib00_sq. ring.
Qed.

Lemma dc_spec_real dc : Rabs (IZR (dc_spec dc) - Rclamp (-256) 255 (IZR dc / 8)) <= 1 / 2.
Proof.
  unfold dc_spec. change (-256)%Z with (Z.opp 256). rewrite clamp_IZR, opp_IZR.
  eapply Rle_trans; [apply Rclamp_lip|].
  set (n := (Z.sgn dc * ((Z.abs dc + 4) / 8))%Z).
  assert (H : (-4 <= 8 * n - dc <= 4)%Z).
  { unfold n. Ltac Zify.zify_post_hook ::= Z.div_mod_to_equations.
    destruct (Z.lt_trichotomy dc 0) as [Hn|[Hz|Hp]].
    - replace (Z.sgn dc) with (-1)%Z by lia. replace (Z.abs dc) with (- dc)%Z by lia. lia.
    - subst dc. cbn. lia.
    - replace (Z.sgn dc) with 1%Z by lia. replace (Z.abs dc) with dc by lia. lia. }
  destruct H as [H1 H2]. apply IZR_le in H1, H2. rewrite minus_IZR, mult_IZR in H1, H2. apply Rabs_le. lra.
Qed.

Theorem classified_block_accurate m xo yo :
  length m = 8%nat -> (forall x y, (0 <= x < 8)%Z -> (0 <= y < 8)%Z -> (-2048 <= mat_get m x y <= 2047)%Z) ->
  (xo < 8)%nat -> (yo < 8)%nat ->
  Rabs (IZR (idct_value_at (idct_values (classify m)) (Z.of_nat xo) (Z.of_nat yo))
        - Rclamp (-256) 255 (ideal4 (fun r f => nth f (nth r m []) 0%Z) xo yo / 4)) <= 0.632.
Proof.
  intros Hl Hm Hx Hy.
  set (Fz := fun r f : nat => nth f (nth r m []) 0%Z).
  assert (Eg : forall r f, Fz r f = mat_get m (Z.of_nat f) (Z.of_nat r)) by (intros r f; unfold Fz, mat_get; rewrite !Nat2Z.id; reflexivity).
  assert (Hr : forall r f, (r < 8)%nat -> (f < 8)%nat -> (Z.abs (Fz r f) <= 2048)%Z).
  { intros r f Hr Hf. rewrite Eg. specialize (Hm (Z.of_nat f) (Z.of_nat r) ltac:(lia) ltac:(lia)). lia. }
  rewrite classify_unfold.
  destruct (is_horiz_b m) eqn:Eh; destruct (is_vert_b m) eqn:Ev; cbn [andb].
  - (* zero or DC only *)
    apply is_horiz_b_spec in Eh. apply is_vert_b_spec in Ev.
    assert (E4 : ideal4 Fz xo yo = IZR (mat_get m 0 0) / 2).
    { rewrite <- (ideal4_dc (mat_get m 0 0) xo yo). apply ideal4_ext. intros r f Hr' Hf'. rewrite Eg.
      destruct r as [|r]; destruct f as [|f]; cbn [Nat.eqb andb]; [reflexivity|apply Ev; lia|apply Eh; lia|apply Eh; lia]. }
    rewrite E4. specialize (Hm 0%Z 0%Z ltac:(lia) ltac:(lia)).
    destruct (mat_get m 0 0 =? 0)%Z eqn:E0.
    + apply Z.eqb_eq in E0. rewrite E0. cbn [idct_values idct_value_at]. unfold Rclamp, Rmin, Rmax.
      replace (0 / 2 / 4) with 0 by (unfold Rdiv; ring).
      destruct (Rle_dec (-256) 0); [|lra]. destruct (Rle_dec 255 0); [lra|]. rewrite Rminus_0_r, Rabs_R0. lra.
    + rewrite (dc_exact _ _ _ Hm). replace (IZR (mat_get m 0 0) / 2 / 4) with (IZR (mat_get m 0 0) / 8) by (unfold Rdiv; field).
      pose proof (dc_spec_real (mat_get m 0 0)). lra.
  - (* first row only *)
    apply is_horiz_b_spec in Eh.
    assert (E4 : ideal4 Fz xo yo = ideal4 (fun r f => if Nat.eqb r 0 then nth f (nth 0 m []) 0%Z else 0%Z) xo yo).
    { apply ideal4_ext. intros r f Hr' Hf'. destruct r as [|r]; cbn [Nat.eqb]; [reflexivity|]. rewrite Eg. apply Eh; lia. }
    rewrite E4. eapply Rle_trans; [apply first_row_block_accurate|lra]; [|exact Hx].
    intros f Hf. apply (Hr 0%nat f); [lia|exact Hf].
  - (* first column only *)
    apply is_vert_b_spec in Ev.
    assert (E4 : ideal4 Fz xo yo = ideal4 (fun r f => if Nat.eqb f 0 then nth r (map (fun row => nth 0 row 0%Z) m) 0%Z else 0%Z) xo yo).
    { apply ideal4_ext. intros r f Hr' Hf'. destruct f as [|f]; cbn [Nat.eqb].
      - unfold Fz. rewrite (nth_map_len (fun row => nth 0 row 0%Z) m r 0%Z []) by lia. reflexivity.
      - rewrite Eg. apply Ev; lia. }
    rewrite E4. eapply Rle_trans; [apply first_column_block_accurate|lra]; [|exact Hy].
    intros r Hr'. rewrite (nth_map_len (fun row => nth 0 row 0%Z) m r 0%Z []) by lia. apply (Hr r 0%nat); [exact Hr'|lia].
  - apply full_block_accurate; assumption.
Qed.

Corollary classified_block_within_1 m xo yo (k : Z) :
  length m = 8%nat -> (forall x y, (0 <= x < 8)%Z -> (0 <= y < 8)%Z -> (-2048 <= mat_get m x y <= 2047)%Z) ->
  (xo < 8)%nat -> (yo < 8)%nat ->
  Rabs (IZR k - ideal4 (fun r f => nth f (nth r m []) 0%Z) xo yo / 4) <= 1 / 2 ->
  (Z.abs (idct_value_at (idct_values (classify m)) (Z.of_nat xo) (Z.of_nat yo) - clamp (-256) 255 k) <= 1)%Z.
Proof.
  intros Hl Hm Hx Hy Hk. pose proof (classified_block_accurate m xo yo Hl Hm Hx Hy) as A.
  set (v := idct_value_at (idct_values (classify m)) (Z.of_nat xo) (Z.of_nat yo)) in *.
  set (t := ideal4 (fun r f => nth f (nth r m []) 0%Z) xo yo / 4) in *.
  pose proof (Rclamp_lip (-256) 255 (IZR k) t) as L.
  assert (Ek : IZR (clamp (-256) 255 k) = Rclamp (-256) 255 (IZR k)).
  { change (-256)%Z with (Z.opp 256). rewrite clamp_IZR, opp_IZR. reflexivity. }
  assert (Hd : Rabs (IZR (v - clamp (-256) 255 k)) < 2).
  { rewrite minus_IZR, Ek. apply Rabs_lt. apply Rabs_le_inv in A.
    assert (L' : Rabs (Rclamp (-256) 255 (IZR k) - Rclamp (-256) 255 t) <= 1 / 2) by lra. apply Rabs_le_inv in L'. lra. }
  rewrite <- abs_IZR in Hd. apply lt_IZR in Hd. lia.
Qed.

(* ---- from a parsed block to its samples ---- *)
Local Open Scope Z_scope.
Lemma place_spec_range ts : forall q zz f f', (forall x y, -2048 <= f x y <= 2047) -> place_spec ts q zz f = Some f' ->
  forall x y, -2048 <= f' x y <= 2047.
Proof.
  induction ts as [|t ts IH]; intros q zz f f' Hf H; cbn [place_spec] in H.
  - inversion H; subst. exact Hf.
  - cbv zeta in H. destruct (64 <=? zz + t_run t); [discriminate|]. eapply IH; [|exact H].
    intros x y. cbv beta. destruct ((x =? fst (cell_of (zz + t_run t))) && (y =? snd (cell_of (zz + t_run t))))%bool; [|apply Hf].
    unfold SpecRecon.spec_dequant, clamp. lia.
Qed.

Theorem decoded_block_accurate b q d (xo yo : nat) :
  0 <= q -> Forall (fun t => 0 <= t_run t) (tcoefs b) -> (match intradc b with Some c => 0 <= c <= 255 | None => True end) ->
  inverse_rle_block b q = Some d -> (xo < 8)%nat -> (yo < 8)%nat ->
  exists coef, place_spec (tcoefs b) q (start_zz (intradc b)) (start_fun (intradc b)) = Some coef /\
    (Rabs (IZR (idct_value_at (idct_values d) (Z.of_nat xo) (Z.of_nat yo))
           - Rclamp (-256) 255 (ideal4 (fun r f => coef (Z.of_nat f) (Z.of_nat r)) xo yo / 4)) <= 0.632)%R.
Proof.
  intros Hq Hruns Hdc Hd Hx Hy. pose proof (inverse_rle_block_spec b q Hq Hruns) as S. rewrite Hd in S.
  destruct S as (m' & f' & [Hl Hrows] & Hp & Hg & ->). exists f'. split; [exact Hp|].
  assert (Hr : forall x y, -2048 <= f' x y <= 2047).
  { refine (place_spec_range _ _ _ _ _ _ Hp). unfold start_fun. intros x y. destruct (intradc b) as [c|]; [|lia]. destruct ((x =? 0) && (y =? 0))%bool; [|lia].
    unfold intradc_level. destruct (c =? 255); lia. }
  rewrite (ideal4_ext _ (fun r f => nth f (nth r m' []) 0)).
  - apply classified_block_accurate; [exact Hl| |exact Hx|exact Hy]. intros x y Hx' Hy'. rewrite Hg by assumption. apply Hr.
  - intros r f Hr' Hf'. rewrite <- (Hg (Z.of_nat f) (Z.of_nat r)) by lia. unfold mat_get. rewrite !Nat2Z.id. reflexivity.
Qed.
