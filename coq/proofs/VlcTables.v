(* The variable-length code trees of the source (regenerated each run into gen/GenTables.v and bridged to model/Tables.v)
   decode exactly the code words of H.263 Tables 7, 8, 13, 14 and 16 as transcribed in spec/SpecTables.v: every code
   word of the table, wherever it starts and whatever follows it, is read as its value and leaves exactly what
   follows; and the trees have no valid leaf beyond those code words. *)
From H263V Require Import base.Prelude model.Types model.Tables model.Reader spec.SpecTables proofs.ReaderLemmas proofs.HeaderLemmas
  proofs.Total1 proofs.Frame.
Require Import ZifyBool ZifyNat.

(* ---- a read does not depend on the position counter (only adds to it) ---- *)
Definition shift_r (d : Z) (r : reader) : reader := mkReader (rbits r) (rpos r + d).
Lemma read_bits_shift w n r d : read_bits w n (shift_r d r) =
  match read_bits w n r with Ok (v, r') => Ok (v, shift_r d r') | Err e => Err e | Panic p => Panic p | OutOfFuel => OutOfFuel end.
Proof.
  unfold read_bits, peek_bits, skip_bits, shift_r. cbn [rbits rpos]. destruct (w <? n); [reflexivity|].
  destruct (take_bits (Z.to_nat n) 0 (rbits r)) as [[v l]|]; cbn [bind]; [|reflexivity]. cbn [rbits rpos]. f_equal. f_equal. f_equal. lia.
Qed.
Lemma vlc_go_shift {T} (table : list (entry T)) d : forall f i r,
  vlc_go f table i (shift_r d r) =
  match vlc_go f table i r with Ok (v, r') => Ok (v, shift_r d r') | Err e => Err e | Panic p => Panic p | OutOfFuel => OutOfFuel end.
Proof.
  induction f as [|f IH]; intros i r; cbn [vlc_go]; [reflexivity|].
  destruct (nth_error table i) as [[t|z o]|]; try reflexivity.
  rewrite read_bits_shift. destruct (read_bits 8 1 r) as [[bit r1]| | |]; cbn [bind]; try reflexivity. apply IH.
Qed.

(* ---- checking a table against its specification by evaluation, then lifting ---- *)
Section Check.
  Context {T : Type} (teqb : T -> T -> bool) (teqb_ok : forall a b, teqb a b = true -> a = b).
  Definition word_ok (table : list (entry T)) (cv : list bool * T) : bool :=
    match read_vlc table (mkReader (fst cv) 0) with
    | Ok (v, r') => teqb v (snd cv) && Nat.eqb (length (rbits r')) 0 && (rpos r' =? Z.of_nat (length (fst cv)))
    | _ => false
    end.
  Lemma word_ok_lift table code v rest pos : word_ok table (code, v) = true ->
    read_vlc table (mkReader (code ++ rest) pos) = Ok (v, mkReader rest (pos + Z.of_nat (length code))).
  Proof.
    unfold word_ok. cbn [fst snd]. destruct (read_vlc table (mkReader code 0)) as [[v' r']| | |] eqn:E; try discriminate.
    intros H. apply andb_prop in H. destruct H as [H H3]. apply andb_prop in H. destruct H as [H1 H2].
    apply teqb_ok in H1. subst v'. apply Nat.eqb_eq in H2. apply Z.eqb_eq in H3.
    destruct r' as [l p]. cbn [rbits rpos] in *. destruct l; [|discriminate]. subst p.
    pose proof (read_vlc_frame table _ _ _ rest E) as F. unfold ext_r in F. cbn [rbits rpos app] in F.
    change (mkReader (code ++ rest) pos) with (shift_r pos (mkReader (code ++ rest) 0)).
    unfold read_vlc in *. rewrite vlc_go_shift, F. unfold shift_r. cbn [rbits rpos]. f_equal. f_equal. f_equal. lia.
  Qed.
  Lemma table_ok_lift table spec : forallb (word_ok table) spec = true ->
    forall code v rest pos, In (code, v) spec ->
    read_vlc table (mkReader (code ++ rest) pos) = Ok (v, mkReader rest (pos + Z.of_nat (length code))).
  Proof. intros H code v rest pos Hin. rewrite forallb_forall in H. apply word_ok_lift. apply H. exact Hin. Qed.
End Check.

(* leaves of a tree that carry a value accepted by the parsers *)
Definition count_leaves {T} (valid : T -> bool) (table : list (entry T)) : nat :=
  length (filter (fun e => match e with End t => valid t | Fork _ _ => false end) table).

(* ---- equality tests ---- *)
Definition mbtype_eqb (a b : mbtype) : bool :=
  match a, b with Inter, Inter | InterQ, InterQ | Inter4V, Inter4V | Intra, Intra | IntraQ, IntraQ | Inter4Vq, Inter4Vq => true | _, _ => false end.
Definition bpe_eqb (a b : bpe) : bool :=
  match a, b with
  | BpStuffing, BpStuffing | BpInvalid, BpInvalid => true
  | BpValid t cb cr, BpValid t' cb' cr' => mbtype_eqb t t' && Bool.eqb cb cb' && Bool.eqb cr cr'
  | _, _ => false
  end.
Lemma bpe_eqb_ok a b : bpe_eqb a b = true -> a = b.
Proof.
  destruct a as [| |t cb cr], b as [| |t' cb' cr']; cbn; try discriminate; try reflexivity.
  intros H. apply andb_prop in H. destruct H as [H H3]. apply andb_prop in H. destruct H as [H1 H2].
  apply Bool.eqb_prop in H2, H3. subst. destruct t, t'; try discriminate; reflexivity.
Qed.
Fixpoint bools_eqb (a b : list bool) : bool :=
  match a, b with [], [] => true | x :: a', y :: b' => Bool.eqb x y && bools_eqb a' b' | _, _ => false end.
Lemma bools_eqb_ok : forall a b, bools_eqb a b = true -> a = b.
Proof.
  induction a as [|x a IH]; destruct b as [|y b]; cbn; try discriminate; [reflexivity|].
  intros H. apply andb_prop in H. destruct H as [H1 H2]. apply Bool.eqb_prop in H1. apply IH in H2. subst. reflexivity.
Qed.

(* ---- Tables 7 and 8: MCBPC ---- *)
Theorem mcbpc_i_is_table7 : forall code v rest pos, In (code, v) spec_mcbpc_i ->
  read_vlc mcbpc_i_table (mkReader (code ++ rest) pos) = Ok (v, mkReader rest (pos + Z.of_nat (length code))).
Proof. apply (table_ok_lift bpe_eqb bpe_eqb_ok). vm_compute. reflexivity. Qed.
Theorem mcbpc_p_is_table8 : forall code v rest pos, In (code, v) spec_mcbpc_p ->
  read_vlc mcbpc_p_table (mkReader (code ++ rest) pos) = Ok (v, mkReader rest (pos + Z.of_nat (length code))).
Proof. apply (table_ok_lift bpe_eqb bpe_eqb_ok). vm_compute. reflexivity. Qed.
Definition bpe_valid (b : bpe) : bool := match b with BpInvalid => false | _ => true end.
Lemma mcbpc_no_other_codes :
  count_leaves bpe_valid mcbpc_i_table = length spec_mcbpc_i /\ count_leaves bpe_valid mcbpc_p_table = length spec_mcbpc_p.
Proof. split; vm_compute; reflexivity. Qed.

(* ---- Table 13: CBPY ---- *)
Definition opt_bools_eqb (a : option (list bool)) (b : option (list bool)) : bool :=
  match a, b with Some x, Some y => bools_eqb x y | None, None => true | _, _ => false end.
Lemma opt_bools_eqb_ok a b : opt_bools_eqb a b = true -> a = b.
Proof. destruct a, b; cbn; try discriminate; [|reflexivity]. intros H. apply bools_eqb_ok in H. subst. reflexivity. Qed.
Theorem cbpy_is_table13 : forall code pat rest pos, In (code, pat) spec_cbpy ->
  read_vlc cbpy_table_intra (mkReader (code ++ rest) pos) = Ok (Some pat, mkReader rest (pos + Z.of_nat (length code))).
Proof.
  intros code pat rest pos Hin.
  apply (table_ok_lift opt_bools_eqb opt_bools_eqb_ok cbpy_table_intra (map (fun cv => (fst cv, Some (snd cv))) spec_cbpy)).
  - vm_compute. reflexivity.
  - apply in_map_iff. exists (code, pat). split; [reflexivity|exact Hin].
Qed.
Lemma cbpy_no_other_codes : count_leaves (fun o : option (list bool) => match o with Some _ => true | None => false end) cbpy_table_intra = length spec_cbpy.
Proof. vm_compute. reflexivity. Qed.

(* ---- Table 14: MVD (half-sample units) ---- *)
Definition opt_z_eqb (a b : option Z) : bool := match a, b with Some x, Some y => x =? y | None, None => true | _, _ => false end.
Lemma opt_z_eqb_ok a b : opt_z_eqb a b = true -> a = b.
Proof. destruct a, b; cbn; try discriminate; [|reflexivity]. intros H. apply Z.eqb_eq in H. subst. reflexivity. Qed.
Theorem mvd_is_table14 : forall code h rest pos, In (code, h) spec_mvd ->
  read_vlc mvd_table (mkReader (code ++ rest) pos) = Ok (Some h, mkReader rest (pos + Z.of_nat (length code))).
Proof.
  intros code h rest pos Hin.
  apply (table_ok_lift opt_z_eqb opt_z_eqb_ok mvd_table (map (fun cv => (fst cv, Some (snd cv))) spec_mvd)).
  - vm_compute. reflexivity.
  - apply in_map_iff. exists (code, h). split; [reflexivity|exact Hin].
Qed.
Lemma mvd_covers_range : map snd spec_mvd = map (fun i => Z.of_nat i - 32) (seq 0 64).
Proof. vm_compute. reflexivity. Qed.
Lemma mvd_no_other_codes : count_leaves (fun o : option Z => match o with Some _ => true | None => false end) mvd_table = length spec_mvd.
Proof. vm_compute. reflexivity. Qed.

(* ---- Table 16: TCOEF ---- *)
Definition stc_eqb (a b : option short_tcoef) : bool :=
  match a, b with
  | Some EscapeToLong, Some EscapeToLong => true
  | Some (Run l r v), Some (Run l' r' v') => Bool.eqb l l' && (r =? r') && (v =? v')
  | None, None => true
  | _, _ => false
  end.
Lemma stc_eqb_ok a b : stc_eqb a b = true -> a = b.
Proof.
  destruct a as [[|l r v]|], b as [[|l' r' v']|]; cbn; try discriminate; try reflexivity.
  intros H. apply andb_prop in H. destruct H as [H H3]. apply andb_prop in H. destruct H as [H1 H2].
  apply Bool.eqb_prop in H1. apply Z.eqb_eq in H2, H3. subst. reflexivity.
Qed.
Theorem tcoef_is_table16 : forall code last run level rest pos, In (code, (last, run, level)) spec_tcoef ->
  read_vlc tcoef_table (mkReader (code ++ rest) pos) = Ok (Some (Run last run level), mkReader rest (pos + Z.of_nat (length code))).
Proof.
  intros code last run level rest pos Hin.
  apply (table_ok_lift stc_eqb stc_eqb_ok tcoef_table
           (map (fun cv : list bool * (bool * Z * Z) => let '(c, (l, r, v)) := cv in (c, Some (Run l r v))) spec_tcoef)).
  - vm_compute. reflexivity.
  - apply in_map_iff. exists (code, (last, run, level)). split; [reflexivity|exact Hin].
Qed.
Theorem tcoef_escape_code : forall rest pos,
  read_vlc tcoef_table (mkReader (spec_tcoef_escape ++ rest) pos) = Ok (Some EscapeToLong, mkReader rest (pos + 7)).
Proof.
  intros rest pos. apply (table_ok_lift stc_eqb stc_eqb_ok tcoef_table [(spec_tcoef_escape, Some EscapeToLong)]); [vm_compute; reflexivity|left; reflexivity].
Qed.
Lemma tcoef_no_other_codes :
  count_leaves (fun o : option short_tcoef => match o with Some _ => true | None => false end) tcoef_table = S (length spec_tcoef).
Proof. vm_compute. reflexivity. Qed.
