(* C15 (and the basis of the round-trip arguments): what a successful parse returns and where it stops do not depend
   on the bits that follow.  `ext_r x r` is the reader r with the bits x appended after its unread bits; every parser
   that succeeds on r succeeds on `ext_r x r` with the same value and the same remainder extended by x. *)
From H263V Require Import base.Prelude model.Types model.Tables model.Reader model.Header model.Syntax
  proofs.ReaderLemmas proofs.HeaderLemmas proofs.Total1.
Require Import ZifyBool ZifyNat.

Definition ext_r (x : list bool) (r : reader) : reader := mkReader (rbits r ++ x) (rpos r).

Lemma take_bits_app' : forall n acc l1 l2 v r, take_bits n acc l1 = Some (v, r) -> take_bits n acc (l1 ++ l2) = Some (v, r ++ l2).
Proof.
  induction n as [|n IH]; intros acc l1 l2 v r H; [cbn in *; inversion H; reflexivity|].
  cbn [take_bits] in *. destruct l1 as [|b l1]; [discriminate|]. cbn [app]. apply IH. exact H.
Qed.

Lemma peek_bits_frame w n r v x : peek_bits w n r = Ok v -> peek_bits w n (ext_r x r) = Ok v.
Proof.
  unfold peek_bits. cbn [ext_r rbits]. destruct (w <? n); [discriminate|].
  destruct (take_bits (Z.to_nat n) 0 (rbits r)) as [[v0 l]|] eqn:E; [|discriminate].
  intros H. rewrite (take_bits_app' _ _ _ x _ _ E). exact H.
Qed.
Lemma skip_bits_frame n r r' x : skip_bits n r = Ok r' -> skip_bits n (ext_r x r) = Ok (ext_r x r').
Proof.
  unfold skip_bits. cbn [ext_r rbits rpos].
  destruct (take_bits (Z.to_nat n) 0 (rbits r)) as [[v0 l]|] eqn:E; [|discriminate].
  intros H. inversion H; subst. rewrite (take_bits_app' _ _ _ x _ _ E). reflexivity.
Qed.
Lemma read_bits_frame w n r v r' x : read_bits w n r = Ok (v, r') -> read_bits w n (ext_r x r) = Ok (v, ext_r x r').
Proof.
  unfold read_bits. intros H. bind_inv H as v0 E1. bind_inv H as r1 E2. inversion H; subst.
  rewrite (peek_bits_frame _ _ _ _ x E1). cbn [bind]. rewrite (skip_bits_frame _ _ _ x E2). reflexivity.
Qed.
Lemma read_u8_frame r v r' x : read_u8 r = Ok (v, r') -> read_u8 (ext_r x r) = Ok (v, ext_r x r').
Proof. apply read_bits_frame. Qed.
Lemma peek_signed_frame w n r v x : peek_signed_bits w n r = Ok v -> peek_signed_bits w n (ext_r x r) = Ok v.
Proof.
  unfold peek_signed_bits. intros H. bind_inv H as v0 E1. rewrite (peek_bits_frame _ _ _ _ x E1). cbn [bind]. exact H.
Qed.
Lemma read_signed_frame w n r v r' x : read_signed_bits w n r = Ok (v, r') -> read_signed_bits w n (ext_r x r) = Ok (v, ext_r x r').
Proof.
  unfold read_signed_bits. intros H. bind_inv H as v0 E1. bind_inv H as r1 E2. inversion H; subst.
  rewrite (peek_signed_frame _ _ _ _ x E1). cbn [bind]. rewrite (skip_bits_frame _ _ _ x E2). reflexivity.
Qed.

(* one step of a composite parser: peel a bind in the hypothesis, replay it on the extended reader *)
Ltac fstep L :=
  match goal with
  | H : bind _ _ = Ok _ |- _ =>
      let E := fresh "E" in bind_inv H as [? ?] E; erewrite L by exact E; cbn [bind]
  end.

Lemma vlc_go_frame {T} (table : list (entry T)) x : forall fuel fuel' index r t r', (fuel <= fuel')%nat ->
  vlc_go fuel table index r = Ok (t, r') -> vlc_go fuel' table index (ext_r x r) = Ok (t, ext_r x r').
Proof.
  induction fuel as [|f IH]; intros fuel' index r t r' Hf H; [discriminate|]. destruct fuel' as [|f']; [lia|].
  cbn [vlc_go] in *. destruct (nth_error table index) as [[t0|z o]|]; try discriminate.
  - inversion H; subst. reflexivity.
  - fstep read_bits_frame. apply IH; [lia|exact H].
Qed.
Lemma read_vlc_frame {T} (table : list (entry T)) r t r' x : read_vlc table r = Ok (t, r') -> read_vlc table (ext_r x r) = Ok (t, ext_r x r').
Proof. unfold read_vlc. apply vlc_go_frame. lia. Qed.

Lemma umv_go_frame x : forall fuel m b r t r', umv_go fuel m b r = Ok (t, r') -> umv_go fuel m b (ext_r x r) = Ok (t, ext_r x r').
Proof.
  induction fuel as [|f IH]; intros m b r t r' H; [discriminate|]. cbn [umv_go] in *.
  destruct (b <? 4096); [|discriminate]. fstep read_bits_frame.
  destruct (z =? 0); [inversion H; subst; reflexivity|]. destruct (z =? 2); [inversion H; subst; reflexivity|].
  destruct (z =? 1); apply IH; exact H.
Qed.
Lemma read_umv_frame r t r' x : read_umv r = Ok (t, r') -> read_umv (ext_r x r) = Ok (t, ext_r x r').
Proof.
  unfold read_umv. intros H. fstep read_bits_frame. destruct (z =? 1); [inversion H; subst; reflexivity|]. apply umv_go_frame. exact H.
Qed.

(* start-code probe: same verdict *)
Lemma start_code_go_frame x : forall fuel fuel' ie mx skip r v, (fuel <= fuel')%nat ->
  start_code_go fuel ie mx skip r = Ok v -> start_code_go fuel' ie mx skip (ext_r x r) = Ok v.
Proof.
  induction fuel as [|f IH]; intros fuel' ie mx skip r v Hf H; [discriminate|]. destruct fuel' as [|f']; [lia|].
  cbn [start_code_go] in *. bind_inv H as code E1. rewrite (peek_bits_frame _ _ _ _ x E1). cbn [bind].
  destruct (code =? 1); [exact H|]. destruct (negb ie && (mx <? skip)); [exact H|].
  bind_inv H as r1 E2. rewrite (skip_bits_frame _ _ _ x E2). cbn [bind]. apply IH; [lia|exact H].
Qed.
Lemma recognize_start_code_frame ie r v x : recognize_start_code ie r = Ok v -> recognize_start_code ie (ext_r x r) = Ok v.
Proof.
  unfold recognize_start_code. intros H. change (realignment_bits (ext_r x r)) with (realignment_bits r).
  eapply start_code_go_frame; [|exact H]. cbn [ext_r rbits]. rewrite app_length. lia.
Qed.

Tactic Notation "fstep" constr(L) "as" simple_intropattern(p) :=
  match goal with
  | H : bind _ _ = Ok _ |- _ =>
      let E := fresh "E" in bind_inv H as p E; erewrite L by exact E; cbn [bind]
  end.
Ltac fdone := match goal with H : Ok _ = Ok _ |- _ => injection H as ?; subst; reflexivity end.

(* ---- picture header ---- *)
Lemma decode_pei_frame x : forall fuel fuel' acc r l r', (fuel <= fuel')%nat ->
  decode_pei fuel acc r = Ok (l, r') -> decode_pei fuel' acc (ext_r x r) = Ok (l, ext_r x r').
Proof.
  induction fuel as [|f IH]; intros fuel' acc r l r' Hf H; [discriminate|]. destruct fuel' as [|f']; [lia|].
  cbn [decode_pei] in *. fstep read_bits_frame as [p r1]. destruct (p =? 1); [|fdone].
  fstep read_u8_frame as [b r2]. apply IH; [lia|exact H].
Qed.

Lemma decode_ptype_frame r v r' x : decode_ptype r = Ok (v, r') -> decode_ptype (ext_r x r) = Ok (v, ext_r x r').
Proof.
  unfold decode_ptype. intros H. fstep read_u8_frame as [hi r1].
  destruct (negb (Z.land hi 192 =? 128)); [discriminate|]. cbv zeta in *.
  destruct (Z.land hi 7 =? 0); [discriminate|]. destruct (Z.land hi 7 =? 7); [fdone|].
  fstep read_bits_frame as [lo r2]. fdone.
Qed.

Lemma decode_sorenson_ptype_frame r v r' x : decode_sorenson_ptype r = Ok (v, r') -> decode_sorenson_ptype (ext_r x r) = Ok (v, ext_r x r').
Proof.
  unfold decode_sorenson_ptype. intros H. fstep read_bits_frame as [code r1].
  assert (Tail : forall fmt r2,
    (let* (t, r) := read_bits 32 2 r2 in
     let ty := if t =? 0 then IFrame else if t =? 1 then PFrame else if t =? 2 then DisposablePFrame else PtReserved t in
     let* (d, r0) := read_bits 8 1 r in Ok (fmt, ty, flag_if (d =? 1) USE_DEBLOCKER, r0)) = Ok (v, r') ->
    (let* (t, r) := read_bits 32 2 (ext_r x r2) in
     let ty := if t =? 0 then IFrame else if t =? 1 then PFrame else if t =? 2 then DisposablePFrame else PtReserved t in
     let* (d, r0) := read_bits 8 1 r in Ok (fmt, ty, flag_if (d =? 1) USE_DEBLOCKER, r0)) = Ok (v, ext_r x r')).
  { intros fmt r2 H2. fstep read_bits_frame as [t r3]. cbv zeta in *. fstep read_bits_frame as [d r4]. fdone. }
  destruct ((code =? 0) || (code =? 1)).
  - cbv zeta in H. bind_inv H as [fmt r2] E2.
    bind_inv E2 as [w r3] E3. bind_inv E2 as [h r4] E4. inversion E2; subst.
    cbv zeta. rewrite (read_bits_frame _ _ _ _ _ x E3). cbn [bind]. rewrite (read_bits_frame _ _ _ _ _ x E4). cbn [bind].
    apply Tail. exact H.
  - destruct (code =? 2); [cbn [bind] in *; apply Tail; exact H|].
    destruct (code =? 3); [cbn [bind] in *; apply Tail; exact H|].
    destruct (code =? 4); [cbn [bind] in *; apply Tail; exact H|].
    destruct (code =? 5); [cbn [bind] in *; apply Tail; exact H|].
    destruct (code =? 6); cbn [bind] in *; apply Tail; exact H.
Qed.

Lemma decode_cpm_frame r v r' x : decode_cpm_and_psbi r = Ok (v, r') -> decode_cpm_and_psbi (ext_r x r) = Ok (v, ext_r x r').
Proof.
  unfold decode_cpm_and_psbi. intros H. fstep read_bits_frame as [cpm r1]. destruct (negb (cpm =? 0)); [|fdone].
  fstep read_bits_frame as [psbi r2]. fdone.
Qed.

Lemma decode_cpfmt_frame r v r' x : decode_cpfmt r = Ok (v, r') -> decode_cpfmt (ext_r x r) = Ok (v, ext_r x r').
Proof.
  unfold decode_cpfmt. intros H. fstep read_bits_frame as [c r1]. destruct (Z.land c 512 =? 0); [discriminate|]. cbv zeta in *.
  bind_inv H as [par r2] E2.
  set (p := Z.shiftr (Z.land c 7864320) 19) in *.
  destruct (p =? 0); [discriminate|].
  destruct (p =? 1); [inversion E2; subst; cbn [bind]; fdone|]. destruct (p =? 2); [inversion E2; subst; cbn [bind]; fdone|].
  destruct (p =? 3); [inversion E2; subst; cbn [bind]; fdone|]. destruct (p =? 4); [inversion E2; subst; cbn [bind]; fdone|].
  destruct (p =? 5); [inversion E2; subst; cbn [bind]; fdone|].
  destruct (p =? 15); [|inversion E2; subst; cbn [bind]; fdone].
  bind_inv E2 as [pw r3] E3. rewrite (read_u8_frame _ _ _ x E3). cbn [bind].
  bind_inv E2 as [ph r4] E4. rewrite (read_u8_frame _ _ _ x E4). cbn [bind].
  destruct ((pw =? 0) || (ph =? 0)); [discriminate|]. inversion E2; subst. cbn [bind]. fdone.
Qed.

Lemma decode_uui_frame r v r' x : decode_uui r = Ok (v, r') -> decode_uui (ext_r x r) = Ok (v, ext_r x r').
Proof.
  unfold decode_uui. intros H. fstep read_bits_frame as [a r1]. destruct (a =? 1); [fdone|].
  fstep read_bits_frame as [b r2]. destruct (b =? 1); [fdone|discriminate].
Qed.
Lemma decode_sss_frame r v r' x : decode_sss r = Ok (v, r') -> decode_sss (ext_r x r) = Ok (v, ext_r x r').
Proof. unfold decode_sss. intros H. fstep read_bits_frame as [b r1]. fdone. Qed.
Lemma decode_elnum_frame fol r v r' x : decode_elnum_rlnum fol r = Ok (v, r') -> decode_elnum_rlnum fol (ext_r x r) = Ok (v, ext_r x r').
Proof.
  unfold decode_elnum_rlnum. intros H. fstep read_bits_frame as [e r1]. destruct (f_ref_layer fol); [|fdone].
  fstep read_bits_frame as [l r2]. fdone.
Qed.
Lemma decode_rpsmf_frame r v r' x : decode_rpsmf r = Ok (v, r') -> decode_rpsmf (ext_r x r) = Ok (v, ext_r x r').
Proof. unfold decode_rpsmf. intros H. fstep read_bits_frame as [b r1]. fdone. Qed.
Lemma decode_trpi_frame r v r' x : decode_trpi r = Ok (v, r') -> decode_trpi (ext_r x r) = Ok (v, ext_r x r').
Proof.
  unfold decode_trpi. intros H. fstep read_bits_frame as [t r1]. destruct (t =? 1); [|fdone]. fstep read_bits_frame as [p r2]. fdone.
Qed.
Lemma decode_bcm_frame r v r' x : decode_bcm r = Ok (v, r') -> decode_bcm (ext_r x r) = Ok (v, ext_r x r').
Proof.
  unfold decode_bcm. intros H. fstep read_bits_frame as [b r1]. destruct (b =? 1); [discriminate|].
  fstep read_bits_frame as [n r2]. destruct (n =? 1); [fdone|discriminate].
Qed.

(* ---- compositional form ---- *)
Definition framed {A} (F : reader -> res (A * reader)) : Prop :=
  forall x r a r', F r = Ok (a, r') -> F (ext_r x r) = Ok (a, ext_r x r').

Lemma framed_bind {A B} (F : reader -> res (A * reader)) (G : A -> reader -> res (B * reader)) :
  framed F -> (forall a, framed (G a)) -> framed (fun r => let* (a, r1) := F r in G a r1).
Proof.
  intros HF HG x r b r' H. cbv beta in *. destruct (F r) as [[a r1]| | |] eqn:E; cbn [bind] in H; try discriminate.
  rewrite (HF x r a r1 E). cbn [bind]. apply HG. exact H.
Qed.
Lemma framed_ret {A} (a : A) : framed (fun r => Ok (a, r)).
Proof. intros x r b r' H. inversion H; subst. reflexivity. Qed.
Lemma framed_err {A} (e : err_kind) : framed (fun _ => @Err (A * reader) e).
Proof. intros x r b r' H. discriminate. Qed.
Lemma framed_if {A} (c : bool) (F G : reader -> res (A * reader)) : framed F -> framed G -> framed (fun r => if c then F r else G r).
Proof. intros HF HG. destruct c; assumption. Qed.
Lemma framed_ext {A} (F G : reader -> res (A * reader)) : (forall r, F r = G r) -> framed F -> framed G.
Proof. intros E HF x r a r' H. rewrite <- E in *. apply HF. exact H. Qed.

Lemma framed_read_bits w n : framed (read_bits w n). Proof. intros x r a r'. apply read_bits_frame. Qed.
Lemma framed_read_u8 : framed read_u8. Proof. intros x r a r'. apply read_u8_frame. Qed.
Lemma framed_read_signed w n : framed (read_signed_bits w n). Proof. intros x r a r'. apply read_signed_frame. Qed.
Lemma framed_read_vlc {T} (t : list (entry T)) : framed (read_vlc t). Proof. intros x r a r'. apply read_vlc_frame. Qed.
Lemma framed_read_umv : framed read_umv. Proof. intros x r a r'. apply read_umv_frame. Qed.
Lemma framed_ptype : framed decode_ptype. Proof. intros x r a r'. apply decode_ptype_frame. Qed.
Lemma framed_plusptype o po : framed (decode_plusptype o po).
Proof.
  unfold decode_plusptype.
  repeat first [ apply framed_ret | apply framed_err | apply framed_read_bits | apply framed_if
               | (apply framed_bind; [|intros]) | progress cbv zeta
               | match goal with |- framed (fun r => match ?v with _ => _ end) => is_var v; destruct v end ].
Qed.
Lemma framed_sorenson_ptype : framed decode_sorenson_ptype. Proof. intros x r a r'. apply decode_sorenson_ptype_frame. Qed.
Lemma framed_cpm : framed decode_cpm_and_psbi. Proof. intros x r a r'. apply decode_cpm_frame. Qed.
Lemma framed_cpfmt : framed decode_cpfmt. Proof. intros x r a r'. apply decode_cpfmt_frame. Qed.
Lemma framed_uui : framed decode_uui. Proof. intros x r a r'. apply decode_uui_frame. Qed.
Lemma framed_sss : framed decode_sss. Proof. intros x r a r'. apply decode_sss_frame. Qed.
Lemma framed_elnum fol : framed (decode_elnum_rlnum fol). Proof. intros x r a r'. apply decode_elnum_frame. Qed.
Lemma framed_rpsmf : framed decode_rpsmf. Proof. intros x r a r'. apply decode_rpsmf_frame. Qed.
Lemma framed_trpi : framed decode_trpi. Proof. intros x r a r'. apply decode_trpi_frame. Qed.
Lemma framed_bcm : framed decode_bcm. Proof. intros x r a r'. apply decode_bcm_frame. Qed.
(* the PEI loop with the fuel the callers give it *)
Lemma framed_pei : framed (fun r => decode_pei (S (length (rbits r))) [] r).
Proof. intros x r a r' H. eapply decode_pei_frame; [|exact H]. cbn [ext_r rbits]. rewrite app_length. lia. Qed.

Ltac fr :=
  repeat first
    [ apply framed_ret | apply framed_err | apply framed_read_bits | apply framed_read_u8 | apply framed_read_signed
    | apply framed_read_vlc | apply framed_read_umv | apply framed_ptype | apply framed_plusptype | apply framed_sorenson_ptype
    | apply framed_cpm | apply framed_cpfmt | apply framed_uui | apply framed_sss | apply framed_elnum | apply framed_rpsmf
    | apply framed_trpi | apply framed_bcm | apply framed_pei
    | apply framed_if
    | (apply framed_bind; [|intros]) ].

(* steps that return only a reader, and guards that return nothing *)
Definition framed_r (F : reader -> res reader) : Prop := forall x r r', F r = Ok r' -> F (ext_r x r) = Ok (ext_r x r').
Lemma framed_bind_r {B} (F : reader -> res reader) (G : reader -> res (B * reader)) :
  framed_r F -> framed G -> framed (fun r => let* r1 := F r in G r1).
Proof.
  intros HF HG x r b r' H. cbv beta in *. destruct (F r) as [r1| | |] eqn:E; cbn [bind] in H; try discriminate.
  rewrite (HF x r r1 E). cbn [bind]. apply HG. exact H.
Qed.
Lemma framed_r_ret : framed_r (fun r => Ok r).
Proof. intros x r r' H. inversion H; subst. reflexivity. Qed.
Lemma framed_r_if (c : bool) F G : framed_r F -> framed_r G -> framed_r (fun r => if c then F r else G r).
Proof. intros HF HG. destruct c; assumption. Qed.
Lemma framed_r_drop {A} (F : reader -> res (A * reader)) : framed F -> framed_r (fun r => let* (_, r1) := F r in Ok r1).
Proof.
  intros HF x r r' H. cbv beta in *. destruct (F r) as [[a r1]| | |] eqn:E; cbn [bind] in H; try discriminate.
  rewrite (HF x r a r1 E). cbn [bind]. inversion H; subst. reflexivity.
Qed.
Lemma framed_r_skip n : framed_r (skip_bits n).
Proof. intros x r r'. apply skip_bits_frame. Qed.
Lemma framed_guard {B} (c : bool) (e : err_kind) (G : reader -> res (B * reader)) :
  framed G -> framed (fun r => let* _ := (if c then Err e else Ok tt) in G r).
Proof. intros HG. destruct c; cbn [bind]; [apply framed_err|exact HG]. Qed.

Ltac fr1 :=
  first
    [ apply framed_ret | apply framed_err | apply framed_read_bits | apply framed_read_u8 | apply framed_read_signed
    | apply framed_read_vlc | apply framed_read_umv | apply framed_ptype | apply framed_plusptype | apply framed_sorenson_ptype
    | apply framed_cpm | apply framed_cpfmt | apply framed_uui | apply framed_sss | apply framed_elnum | apply framed_rpsmf
    | apply framed_trpi | apply framed_bcm | apply framed_pei
    | apply framed_r_ret | apply framed_r_skip | (apply framed_r_drop) | apply framed_r_if
    | apply framed_if
    | apply framed_guard
    | (apply framed_bind_r; [|])
    | (apply framed_bind; [|intros])
    | match goal with |- framed (fun r => match ?v with _ => _ end) => is_var v; destruct v end
    | match goal with |- framed_r (fun r => match ?v with _ => _ end) => is_var v; destruct v end
    | progress cbv zeta ].
Ltac frs := repeat fr1.

(* close a goal `K (ext_r x r) = Ok (v, ext_r x r')` from `H : K r = Ok (v, r')` by proving K framed *)
Ltac by_framed H r x :=
  match type of H with
  | ?T = Ok (?v, ?r') =>
      let K := eval pattern r in T in
      match K with
      | ?F _ => let FK := fresh "FK" in assert (FK : framed F); [|exact (FK x r v r' H)]
      end
  end.

Theorem decode_picture_frame o prev r0 v r' x :
  decode_picture o prev r0 = Ok (v, r') -> decode_picture o prev (ext_r x r0) = Ok (v, ext_r x r').
Proof.
  unfold decode_picture. intros H. bind_inv H as sc Esc. rewrite (recognize_start_code_frame _ _ _ x Esc). cbn [bind].
  destruct sc as [skipped|]; [|discriminate].
  bind_inv H as r1 E1. rewrite (skip_bits_frame _ _ _ x E1). cbn [bind].
  bind_inv H as [gob r2] E2. rewrite (read_bits_frame _ _ _ _ _ x E2). cbn [bind].
  destruct (sorenson o).
  - by_framed H r2 x. frs.
  - destruct (negb (gob =? 0)); [inversion H; subst; reflexivity|].
    by_framed H r2 x. frs.
Qed.

(* ---- macroblock and block layers ---- *)
Lemma framed_dquant : framed decode_dquant.
Proof. unfold decode_dquant. frs. Qed.
Lemma framed_mv pic running : framed (decode_motion_vector pic running).
Proof. unfold decode_motion_vector. frs. Qed.
Lemma framed_cbpb : framed decode_cbpb.
Proof. unfold decode_cbpb. frs. Qed.

Lemma framed_r_bind {A} (F : reader -> res (A * reader)) (G : A -> reader -> res reader) :
  framed F -> (forall a, framed_r (G a)) -> framed_r (fun r => let* (a, r1) := F r in G a r1).
Proof.
  intros HF HG x r r' H. cbv beta in *. destruct (F r) as [[a r1]| | |] eqn:E; cbn [bind] in H; try discriminate.
  rewrite (HF x r a r1 E). cbn [bind]. apply HG. exact H.
Qed.
Ltac fr2 :=
  first [ apply framed_dquant | apply framed_mv | apply framed_cbpb | fr1
        | (apply framed_r_bind; [|intros])
        | match goal with |- framed (fun r => match ?v with _ => _ end) => destruct v end
        | match goal with |- framed_r (fun r => match ?v with _ => _ end) => destruct v end ].

Lemma framed_macroblock pic running : framed (decode_macroblock pic running).
Proof.
  unfold decode_macroblock.
  apply (framed_bind (fun r => if is_iframe (picture_type pic) then Ok (0, r) else read_bits 8 1 r)); [repeat fr2|intros cod].
  repeat fr2.
Qed.

Lemma tcoef_go_frame x : forall fuel fuel' v1 running acc r ts r', (fuel <= fuel')%nat ->
  tcoef_go fuel v1 running acc r = Ok (ts, r') -> tcoef_go fuel' v1 running acc (ext_r x r) = Ok (ts, ext_r x r').
Proof.
  induction fuel as [|f IH]; intros fuel' v1 running acc r ts r' Hf H; [discriminate|]. destruct fuel' as [|f']; [lia|].
  cbn [tcoef_go] in *. fstep (@read_vlc_frame _ tcoef_table) as [st r1].
  destruct st as [[|last run level]|]; [| |discriminate].
  - bind_inv H as [width r2] E2.
    match goal with |- context [bind ?X _] => assert (F2 : X = Ok (width, ext_r x r2)) end.
    { destruct v1; [|inversion E2; subst; reflexivity].
      bind_inv E2 as [b r3] E3. rewrite (read_bits_frame _ _ _ _ _ x E3). cbn [bind]. inversion E2; subst. reflexivity. }
    rewrite F2. cbn [bind].
    fstep read_bits_frame as [last r3]. fstep read_bits_frame as [run r4]. fstep read_signed_frame as [level r5].
    destruct (level =? 0); [discriminate|]. cbv zeta in *. destruct (last =? 1); [fdone|]. apply IH; [lia|exact H].
  - fstep read_bits_frame as [sign r2]. cbv zeta in *. destruct last; [fdone|]. apply IH; [lia|exact H].
Qed.

Lemma framed_block o pic running t present : framed (decode_block o pic running t present).
Proof.
  unfold decode_block.
  apply (framed_bind (fun r => if mb_is_intra t
                               then let* (v, r1) := read_u8 r in match intradc_from_u8 v with Some d => Ok (Some d, r1) | None => Err EInvalidIntraDc end
                               else Ok (None, r))).
  - apply framed_if; [|apply framed_ret]. apply framed_bind; [apply framed_read_u8|]. intros v. destruct (intradc_from_u8 v); [apply framed_ret|apply framed_err].
  - intros dc. destruct present; [|apply framed_ret]. cbv zeta.
    apply (framed_bind (fun r => tcoef_go (S (length (rbits r))) (sorenson o && match version pic with Some 1 => true | _ => false end) running [] r)).
    + intros x r a r' H. eapply tcoef_go_frame; [|exact H]. cbn [ext_r rbits]. rewrite app_length. lia.
    + intros ts. apply framed_ret.
Qed.

(* ================= the macroblock loop and the whole picture ================= *)
From H263V Require Import model.F32 model.Recon model.Decoder.

Definition ext_l (x : list bool) (st : mbloop) : mbloop :=
  mkLoop (ext_r x (l_reader st)) (l_quant st) (l_pvs st) (l_types st) (l_luma st) (l_cb st) (l_cr st).

Lemma decode_coded_frame o np running mpl levw t p dq mvd addl st st' mvs x :
  decode_coded o np running mpl levw t p dq mvd addl st = Ok (st', mvs) ->
  decode_coded o np running mpl levw t p dq mvd addl (ext_l x st) = Ok (ext_l x st', mvs).
Proof.
  unfold decode_coded. cbn [ext_l l_types l_quant l_pvs l_luma l_cb l_cr l_reader]. intros H. cbv zeta in *.
  bind_inv H as col Ec. bind_inv H as line El. bind_inv H as mv0 Em. cbn [bind].
  bind_inv H as [b1 r1] E1. rewrite (framed_block _ _ _ _ _ x _ _ _ E1). cbn [bind]. bind_inv H as l1 L1. cbn [bind].
  bind_inv H as [b2 r2] E2. rewrite (framed_block _ _ _ _ _ x _ _ _ E2). cbn [bind]. bind_inv H as l2 L2. cbn [bind].
  bind_inv H as [b3 r3] E3. rewrite (framed_block _ _ _ _ _ x _ _ _ E3). cbn [bind]. bind_inv H as l3 L3. cbn [bind].
  bind_inv H as [b4 r4] E4. rewrite (framed_block _ _ _ _ _ x _ _ _ E4). cbn [bind]. bind_inv H as l4 L4. cbn [bind].
  bind_inv H as [b5 r5] E5. rewrite (framed_block _ _ _ _ _ x _ _ _ E5). cbn [bind]. bind_inv H as l5 L5. cbn [bind].
  bind_inv H as [b6 r6] E6. rewrite (framed_block _ _ _ _ _ x _ _ _ E6). cbn [bind]. bind_inv H as l6 L6. cbn [bind].
  inversion H; subst. reflexivity.
Qed.

(* a macroblock loop that ended because the picture was complete ends the same way whatever follows *)
Lemma mb_loop_frame x : forall fuel fuel' o np running mpl total levw st st', (fuel <= fuel')%nat ->
  mb_loop fuel o np running mpl total levw st = Ok st' -> total <= zlength (l_types st') ->
  mb_loop fuel' o np running mpl total levw (ext_l x st) = Ok (ext_l x st').
Proof.
  induction fuel as [|f IH]; intros fuel' o np running mpl total levw st st' Hf H Hc; [discriminate|]. destruct fuel' as [|f']; [lia|].
  cbn [mb_loop] in *. cbn [ext_l l_types l_reader l_quant l_pvs l_luma l_cb l_cr].
  destruct (total <=? zlength (l_types st)) eqn:Et; [inversion H; subst; reflexivity|].
  destruct (decode_macroblock (d_header np) running (l_reader st)) as [[mb r]|e|p|] eqn:Em.
  - rewrite (framed_macroblock _ _ x _ _ _ Em). destruct mb as [| |t p dq mvd addl].
    + destruct (is_iframe (picture_type (d_header np))); [discriminate|].
      apply (IH f' o np running mpl total levw _ st' ltac:(lia)) in H; [|exact Hc]. exact H.
    + apply (IH f' o np running mpl total levw _ st' ltac:(lia)) in H; [|exact Hc]. exact H.
    + bind_inv H as [st1 mvs] Ec.
      pose proof (decode_coded_frame _ _ _ _ _ _ _ _ _ _ _ _ _ x Ec) as Ec'. unfold ext_l at 1 in Ec'. cbn [l_reader l_quant l_pvs l_types l_luma l_cb l_cr] in Ec'.
      rewrite Ec'. cbn [bind l_reader l_quant l_pvs l_types l_luma l_cb l_cr ext_l].
      apply (IH f' o np running mpl total levw _ st' ltac:(lia)) in H; [|exact Hc]. exact H.
  - (* an error that ends the picture early leaves it incomplete *)
    exfalso. apply Z.leb_gt in Et.
    assert (st' = st); [|subst; lia].
    destruct (is_macroblock_error e && negb (sorenson o)).
    + destruct (decode_gob (l_reader st)) as [[u|]|e'|p|]; try discriminate; try (inversion H; reflexivity).
      destruct (is_eof e' || is_gob_error e'); [inversion H; reflexivity|discriminate].
    + destruct (is_eof e); [inversion H; reflexivity|discriminate].
  - discriminate.
  - discriminate.
Qed.

(* "the picture is complete": header and format resolve and the macroblock loop ends because all
   mb_per_line * mb_height macroblocks were read (not because of end of data or a resynchronisation point).
   `loop_result` is the first half of Decoder.reconstruct, verbatim. *)
Definition loop_result (o : dec_opts) (last : option decoded_picture) (running0 : Z) (r0 : reader) : res (Z * mbloop) :=
  let* (op, r) := decode_picture o (match last with Some p => Some (d_header p) | None => None end) r0 in
  match op with
  | None => Err EMiddleOfBitstream
  | Some np_hdr =>
      let next_running :=
        if has_plusptype np_hdr && has_opptype np_hdr then options np_hdr
        else if has_plusptype np_hdr then
          Z.lor (Z.ldiff (options np_hdr) opptype_options) (Z.land running0 opptype_options)
        else
          Z.lor (Z.ldiff (Z.ldiff (options np_hdr) opptype_options) mpptype_options)
                (Z.land running0 (Z.lor opptype_options mpptype_options)) in
      let* fmt :=
        (match format np_hdr with
         | Some f => Ok f
         | None =>
             if is_iframe (picture_type np_hdr) then Err EPictureFormatMissing else
             match last with
             | Some lp => Ok (d_format lp)
             | None => Err EPictureFormatMissing
             end
         end) in
      match into_width_and_height fmt with
      | None => Err EPictureFormatInvalid
      | Some (w, h) =>
          if (w <=? 0) || (h <=? 0) then Err EPictureFormatInvalid else
          let mb_per_line := (w + 15) / 16 in
          let mb_height := (h + 15) / 16 in
          let levw := mb_per_line * 16 in
          let levh := mb_height * 16 in
          match new_decoded np_hdr fmt with
          | None => Err EPictureFormatInvalid
          | Some np =>
              let nl := levw * levh / 64 in
              let nc := levw * levh / 4 / 64 in
              let st0 := mkLoop r (quantizer np_hdr) [] [] (repeatZ DctZero nl) (repeatZ DctZero nc) (repeatZ DctZero nc) in
              let total := mb_per_line * mb_height in
              let* st := mb_loop (S (length (rbits r))) o np next_running mb_per_line total levw st0 in
              Ok (total, st)
          end
      end
  end.
Definition picture_complete (o : dec_opts) (last : option decoded_picture) (running0 : Z) (r0 : reader) : Prop :=
  match loop_result o last running0 r0 with Ok (total, st) => total <= zlength (l_types st) | _ => False end.

Theorem reconstruct_frame o last reference running0 r0 pic r' x :
  reconstruct o last reference running0 r0 = Ok (pic, r') -> picture_complete o last running0 r0 ->
  reconstruct o last reference running0 (ext_r x r0) = Ok (pic, ext_r x r').
Proof.
  unfold reconstruct, picture_complete, loop_result. intros H C.
  bind_inv H as [op r] Eh. rewrite (decode_picture_frame _ _ _ _ _ x Eh). cbn [bind] in *.
  destruct op as [np_hdr|]; [|discriminate]. cbv zeta in *.
  bind_inv H as fmt Ef. cbn [bind] in *.
  destruct (into_width_and_height fmt) as [[w h]|]; [|discriminate].
  destruct ((w <=? 0) || (h <=? 0)); [discriminate|].
  destruct (new_decoded np_hdr fmt) as [np|]; [|discriminate].
  bind_inv H as st El. cbn [bind] in C.
  match type of El with mb_loop _ ?o ?np ?run ?mpl ?tot ?lw ?st0 = _ =>
    pose proof (mb_loop_frame x (S (length (rbits r))) (S (length (rbits (ext_r x r)))) o np run mpl tot lw st0 st
                  ltac:(cbn [ext_r rbits]; rewrite app_length; lia) El C) as El' end.
  unfold ext_l at 1 in El'. cbn [l_reader l_quant l_pvs l_types l_luma l_cb l_cr] in El'.
  rewrite El'. cbn [bind ext_l l_reader l_quant l_pvs l_types l_luma l_cb l_cr].
  bind_inv H as np2 Eg. cbn [bind]. bind_inv H as luma E1. cbn [bind]. bind_inv H as cb E2. cbn [bind]. bind_inv H as cr E3. cbn [bind].
  inversion H; subst. reflexivity.
Qed.

(* ---- one decode call ---- *)
Theorem decode_next_picture_frame s r0 s' r' x :
  decode_next_picture s r0 = Ok (s', r') ->
  picture_complete (st_opts s) (get_last_picture s) (running_options s) r0 ->
  decode_next_picture s (ext_r x r0) = Ok (s', ext_r x r').
Proof.
  unfold decode_next_picture. intros H C. bind_inv H as [np r] E.
  rewrite (reconstruct_frame _ _ _ _ _ _ _ x E C). cbn [bind]. inversion H; subst. reflexivity.
Qed.

(* ================= zero padding before a start code ================= *)
From H263V Require Import spec.SpecHeader proofs.HeaderRoundTrip.
From H263V Require proofs.ReaderRefine.
Notation take_bits_add := ReaderRefine.take_bits_add.

Lemma take_bits_zeros : forall n acc l, take_bits n acc (repeat false n ++ l) = Some (acc * 2 ^ Z.of_nat n, l).
Proof.
  induction n as [|n IH]; intros acc l; [cbn; f_equal; f_equal; lia|].
  cbn [repeat app take_bits]. rewrite IH. f_equal. f_equal. rewrite Nat2Z.inj_succ, Z.pow_succ_r by lia. ring.
Qed.
Lemma repeat_split {A} (a : A) n m : repeat a (n + m) = repeat a n ++ repeat a m.
Proof. induction n; cbn; [reflexivity|]. f_equal. assumption. Qed.

Lemma peek17_zeros m rest pos : (17 <= m)%nat -> peek_bits 32 17 (mkReader (repeat false m ++ rest) pos) = Ok 0.
Proof.
  intros H. unfold peek_bits. cbn [rbits]. change (32 <? 17) with false. cbn iota. change (Z.to_nat 17) with 17%nat.
  replace m with (17 + (m - 17))%nat by lia. rewrite repeat_split, <- app_assoc, take_bits_zeros. reflexivity.
Qed.
Lemma peek17_start rest pos : peek_bits 32 17 (mkReader (repeat false 16 ++ true :: rest) pos) = Ok 1.
Proof. reflexivity. Qed.

Lemma sc_go_zeros : forall d fuel mx skip rest pos, (d < fuel)%nat -> skip + Z.of_nat d <= mx ->
  start_code_go fuel false mx skip (mkReader (repeat false (d + 16) ++ true :: rest) pos) = Ok (Some (skip + Z.of_nat d)).
Proof.
  induction d as [|d IH]; intros fuel mx skip rest pos Hf Hm; (destruct fuel as [|f]; [lia|]); cbn [start_code_go].
  - cbn [Nat.add]. rewrite peek17_start. cbn [bind Z.eqb Pos.eqb]. f_equal. f_equal. lia.
  - rewrite peek17_zeros by lia. cbn [bind]. change (0 =? 1) with false. cbn iota.
    destruct (mx <? skip) eqn:E; [lia|]. cbn [negb andb].
    unfold skip_bits. cbn [rbits rpos]. change (Z.to_nat 1) with 1%nat. cbn [Nat.add repeat app take_bits bind].
    rewrite IH by lia. f_equal. f_equal. lia.
Qed.

Lemma start_code_zeros : start_code = repeat false 16 ++ [true].
Proof. reflexivity. Qed.

(* fewer than eight zero bits up to the byte boundary, then a start code: found after exactly those bits *)
Lemma recognize_after_padding k rest pos : 0 <= k -> k = (8 - pos mod 8) mod 8 ->
  recognize_start_code false (mkReader (repeat false (Z.to_nat k) ++ start_code ++ rest) pos) = Ok (Some k).
Proof.
  intros Hk Ek. unfold recognize_start_code, realignment_bits. cbn [rbits rpos]. rewrite <- Ek.
  rewrite start_code_zeros, <- app_assoc. cbn [app]. rewrite app_assoc, <- repeat_split.
  rewrite sc_go_zeros; [f_equal; f_equal; lia| |lia].
  rewrite app_length, repeat_length. cbn [length]. lia.
Qed.
Lemma skip_after_padding k rest pos : 0 <= k ->
  skip_bits (17 + k) (mkReader (repeat false (Z.to_nat k) ++ start_code ++ rest) pos) = Ok (mkReader rest (pos + (17 + k))).
Proof.
  intros Hk. unfold skip_bits. cbn [rbits rpos].
  replace (Z.to_nat (17 + k)) with (Z.to_nat k + 17)%nat by lia. rewrite take_bits_add, take_bits_zeros.
  rewrite start_code_zeros, <- app_assoc. change 17%nat with (16 + 1)%nat. rewrite take_bits_add, take_bits_zeros. reflexivity.
Qed.

Ltac peel E :=
  repeat (first [ match type of E with bind ?a _ = Ok _ => destruct a as [?| | |]; cbn [bind] in E; try discriminate E end
                | match type of E with (match ?p with _ => _ end) = Ok _ => destruct p; try discriminate E end
                | progress cbv zeta in E ]);
  try discriminate E.

Theorem decode_picture_after_padding o prev k rest pos : 0 <= k -> k = (8 - pos mod 8) mod 8 ->
  decode_picture o prev (mkReader (repeat false (Z.to_nat k) ++ start_code ++ rest) pos) =
  match decode_picture o prev (mkReader (start_code ++ rest) (pos + k)) with
  | Ok (None, _) => Ok (None, mkReader (repeat false (Z.to_nat k) ++ start_code ++ rest) pos)
  | other => other
  end.
Proof.
  intros Hk Ek. unfold decode_picture.
  rewrite (recognize_after_padding k rest pos Hk Ek). cbn [bind]. rewrite (skip_after_padding k rest pos Hk). cbn [bind].
  rewrite start_code_here. cbn [bind]. rewrite skip_start_code. cbn [bind].
  replace (pos + (17 + k)) with (pos + k + 17) by lia.
  destruct (read_bits 8 5 (mkReader rest (pos + k + 17))) as [[gob r2]| | |]; cbn [bind]; try reflexivity.
  destruct (sorenson o).
  - match goal with |- ?X = match ?X with _ => _ end => destruct X as [[[p|] r']| | |] eqn:E end; try reflexivity.
    exfalso. clear -E. peel E.
  - destruct (negb (gob =? 0)); [reflexivity|].
    match goal with |- ?X = match ?X with _ => _ end => destruct X as [[[p|] r']| | |] eqn:E end; try reflexivity.
    exfalso. clear -E. peel E.
Qed.

Theorem next_picture_after_padding s k rest pos : 0 <= k -> k = (8 - pos mod 8) mod 8 ->
  decode_next_picture s (mkReader (repeat false (Z.to_nat k) ++ start_code ++ rest) pos)
  = decode_next_picture s (mkReader (start_code ++ rest) (pos + k)).
Proof.
  intros Hk Ek. unfold decode_next_picture, reconstruct. rewrite (decode_picture_after_padding _ _ k rest pos Hk Ek).
  destruct (decode_picture _ _ (mkReader (start_code ++ rest) (pos + k))) as [[[p|] r]| | |]; reflexivity.
Qed.

(* two pictures in one source: the first call returns what it returns on the first picture alone and stops in front
   of the padding; the second call is the call on the second picture alone at the byte boundary *)
Theorem two_pictures_one_reader s b1 p s1 k p1 rest2 :
  0 <= k -> k = (8 - p1 mod 8) mod 8 ->
  decode_next_picture s (mkReader b1 p) = Ok (s1, mkReader (repeat false (Z.to_nat k)) p1) ->
  picture_complete (st_opts s) (get_last_picture s) (running_options s) (mkReader b1 p) ->
  decode_next_picture s (mkReader (b1 ++ start_code ++ rest2) p) = Ok (s1, mkReader (repeat false (Z.to_nat k) ++ start_code ++ rest2) p1) /\
  decode_next_picture s1 (mkReader (repeat false (Z.to_nat k) ++ start_code ++ rest2) p1) = decode_next_picture s1 (mkReader (start_code ++ rest2) (p1 + k)).
Proof.
  intros Hk Ek H C. split; [|apply next_picture_after_padding; assumption].
  exact (decode_next_picture_frame s (mkReader b1 p) s1 _ (start_code ++ rest2) H C).
Qed.
