(* C13: every reconstructed picture has planes of exactly the signalled sizes, and the
   deblock + RGBA pipeline on them completes with width x height pixels. *)
From H263V Require Import base.Prelude model.Types model.Tables model.Reader model.Header model.Syntax model.F32 model.Recon
  model.Decoder model.Deblock model.Yuv model.Pipeline
  proofs.ReaderLemmas proofs.HeaderLemmas proofs.DeblockShape proofs.YuvLayout.

Definition plane_ok (w h : Z) (p : plane) : Prop :=
  pw p = w /\ length (prows p) = Z.to_nat h /\ Forall (fun r => length r = Z.to_nat w) (prows p).

Lemma new_plane_ok w h : plane_ok w h (new_plane w h).
Proof.
  unfold plane_ok, new_plane, repeatZ. cbn [pw prows]. split; [reflexivity|]. split; [apply repeat_length|].
  apply Forall_forall. intros r Hr. apply repeat_spec in Hr. subst r. apply repeat_length.
Qed.

Lemma upd_nth_length {A} (l : list A) n f : length (upd_nth l n f) = length l.
Proof. revert n. induction l as [|a l IH]; intros [|n]; cbn; try reflexivity. rewrite IH. reflexivity. Qed.

Lemma upd_nth_forall {A} (P : A -> Prop) (l : list A) n f :
  Forall P l -> (forall a, P a -> P (f a)) -> Forall P (upd_nth l n f).
Proof.
  intros Hl Hf. revert n. induction Hl as [|a l Ha Hl IH]; intros [|n]; cbn; constructor; auto.
Qed.

Lemma pset_ok w h p idx v p' : plane_ok w h p -> pset p idx v = Ok p' -> plane_ok w h p'.
Proof.
  intros (H1 & H2 & H3) H. unfold pset in H.
  destruct ((idx <? 0) || (plane_len p <=? idx)); [discriminate|]. inversion H; subst. clear H.
  unfold plane_ok. cbn [pw prows]. split; [reflexivity|]. split; [rewrite upd_nth_length; exact H2|].
  apply upd_nth_forall; [exact H3|]. intros r Hr. rewrite upd_nth_length. exact Hr.
Qed.

Lemma for_go_inv {A} (P : A -> Prop) (f : Z -> A -> res A) :
  (forall i a a', P a -> f i a = Ok a' -> P a') ->
  forall n i a a', P a -> for_go n i f a = Ok a' -> P a'.
Proof.
  intros Hf. induction n as [|n IH]; intros i a a' Ha H; cbn [for_go] in H.
  - inversion H; subst. exact Ha.
  - bind_inv H as a1 E. eapply IH; [|exact H]. eapply Hf; eauto.
Qed.

Lemma forZ_inv {A} (P : A -> Prop) (f : Z -> A -> res A) n a a' :
  (forall i a a', P a -> f i a = Ok a' -> P a') -> P a -> forZ n f a = Ok a' -> P a'.
Proof. intros Hf Ha H. unfold forZ in H. eapply for_go_inv; eauto. Qed.

Lemma gather_block_ok w h src spr px py v t t' :
  plane_ok w h t -> gather_block src spr px py v t = Ok t' -> plane_ok w h t'.
Proof.
  intros Ht H. unfold gather_block in H.
  destruct (into_lerp_parameters (fst v)) as [xd xi]. destruct (into_lerp_parameters (snd v)) as [yd yi].
  bind_inv H as ah E.
  destruct (negb xi && negb yi).
  - destruct (_ && _ && _ && _ && _ && _).
    + eapply forZ_inv; [|exact Ht|exact H]. intros j a a' Ha Hj. cbv beta in Hj.
      destruct (_ || _); [discriminate|].
      eapply forZ_inv; [|exact Ha|exact Hj]. intros i b b' Hb Hi. cbv beta in Hi.
      bind_inv Hi as s Es. eapply pset_ok; eauto.
    + eapply forZ_inv; [|exact Ht|exact H]. intros j a a' Ha Hj. cbv beta in Hj.
      eapply forZ_inv; [|exact Ha|exact Hj]. intros i b b' Hb Hi. cbv beta in Hi.
      bind_inv Hi as s Es. eapply pset_ok; eauto.
  - eapply forZ_inv; [|exact Ht|exact H]. intros j a a' Ha Hj. cbv beta in Hj.
    eapply forZ_inv; [|exact Ha|exact Hj]. intros i b b' Hb Hi. cbv beta zeta in Hi.
    bind_inv Hi as s00 E0. bind_inv Hi as s10 E1'. bind_inv Hi as s01 E2. bind_inv Hi as s11 E3.
    eapply pset_ok; eauto.
Qed.

(* a decoded picture with planes of the sizes its format signals *)
Definition pic_ok (d : decoded_picture) : Prop :=
  exists w h, 1 <= w /\ 1 <= h /\ into_width_and_height (d_format d) = Some (w, h) /\
    plane_ok w h (d_luma d) /\ plane_ok ((w + 1) / 2) ((h + 1) / 2) (d_cb d) /\
    plane_ok ((w + 1) / 2) ((h + 1) / 2) (d_cr d) /\ d_chroma_w d = (w + 1) / 2.

Lemma gather_go_ok : forall items i reference mbpl np np',
  pic_ok np -> gather_go items i reference mbpl np = Ok np' -> pic_ok np'.
Proof.
  induction items as [|[t v] rest IH]; intros i reference mbpl np np' Hok H; cbn [gather_go] in H.
  - inversion H; subst. exact Hok.
  - destruct (mb_is_inter t); [|eapply IH; eauto].
    destruct reference as [rp|]; [|discriminate].
    destruct (negb _); [discriminate|].
    bind_inv H as col E1. bind_inv H as line E2.
    bind_inv H as l1 E3. bind_inv H as l2 E4. bind_inv H as l3 E5. bind_inv H as l4 E6.
    bind_inv H as cb E7. bind_inv H as cr E8.
    eapply IH; [|exact H].
    destruct Hok as (w & h & Hw & Hh & Hf & HL & HB & HR & HC).
    assert (HL' : plane_ok w h l4).
    { eapply gather_block_ok; [|exact E6]. eapply gather_block_ok; [|exact E5].
      eapply gather_block_ok; [|exact E4]. eapply gather_block_ok; [|exact E3]. exact HL. }
    assert (HB' : plane_ok ((w + 1) / 2) ((h + 1) / 2) cb) by (eapply gather_block_ok; [exact HB|exact E7]).
    assert (HR' : plane_ok ((w + 1) / 2) ((h + 1) / 2) cr) by (eapply gather_block_ok; [exact HR|exact E8]).
    exact (ex_intro _ w (ex_intro _ h (conj Hw (conj Hh (conj Hf (conj HL' (conj HB' (conj HR' HC)))))))).
Qed.

Lemma add_pixel_ok w h out spl x y v out' : plane_ok w h out -> add_pixel out spl x y v = Ok out' -> plane_ok w h out'.
Proof. intros Hok H. unfold add_pixel in H. bind_inv H as m E. eapply pset_ok; eauto. Qed.

Lemma idct_block_ok w h d out spl xb yb xs ys out' :
  plane_ok w h out -> idct_block d out spl xb yb xs ys = Ok out' -> plane_ok w h out'.
Proof.
  intros Hok H. destruct d; cbn [idct_block] in H; cbv zeta in H;
    [inversion H; subst; exact Hok| | | | ];
    (eapply forZ_inv; [|exact Hok|exact H]; intros j a a' Ha Hj; cbv beta zeta in Hj;
     eapply forZ_inv; [|exact Ha|exact Hj]; intros i b b' Hb Hi; cbv beta zeta in Hi;
     eapply add_pixel_ok; [exact Hb|exact Hi]).
Qed.

Lemma idct_channel_ok w h levels out bpl spl out' :
  plane_ok w h out -> idct_channel levels out bpl spl = Ok out' -> plane_ok w h out'.
Proof.
  intros Hok H. unfold idct_channel in H. bind_inv H as oh E1. bind_inv H as bh E2.
  eapply forZ_inv; [|exact Hok|exact H]. intros yb a a' Ha Hy. cbv beta in Hy.
  eapply forZ_inv; [|exact Ha|exact Hy]. intros xb b b' Hb Hx. cbv beta zeta in Hx.
  destruct (_ <=? _); [inversion Hx; subst; exact Hb|].
  bind_inv Hx as d Ed. eapply idct_block_ok; eauto.
Qed.

Theorem reconstruct_ok o last reference running r0 np r :
  reconstruct o last reference running r0 = Ok (np, r) -> pic_ok np.
Proof.
  intros H. unfold reconstruct in H.
  bind_inv H as [op r1] E1. destruct op as [hdr|]; [|discriminate].
  bind_inv H as fmt E2.
  destruct (into_width_and_height fmt) as [[w h]|] eqn:EW; [|discriminate].
  destruct ((w <=? 0) || (h <=? 0)) eqn:Ez; [discriminate|].
  apply orb_false_iff in Ez. destruct Ez as [Ew Eh]. apply Z.leb_gt in Ew. apply Z.leb_gt in Eh.
  assert (Hw1 : 1 <= w) by lia. assert (Hh1 : 1 <= h) by lia.
  destruct (new_decoded hdr fmt) as [np0|] eqn:EN; [|discriminate].
  assert (H0 : pic_ok np0).
  { unfold new_decoded in EN. rewrite EW in EN. inversion EN; subst. clear EN.
    exists w, h. cbn [d_format d_luma d_cb d_cr d_chroma_w].
    exact (conj Hw1 (conj Hh1 (conj EW (conj (new_plane_ok w h)
            (conj (new_plane_ok _ _) (conj (new_plane_ok _ _) eq_refl)))))). }
  bind_inv H as st E3. bind_inv H as np1 E4. bind_inv H as luma E5. bind_inv H as cb E6. bind_inv H as cr E7.
  pose proof (gather_go_ok _ _ _ _ _ _ H0 E4) as H1.
  destruct H1 as (w1 & h1 & Hw & Hh & Hf & HL & HB & HR & HC).
  inversion H; subst. clear H.
  exists w1, h1. cbn [d_format d_luma d_cb d_cr d_chroma_w].
  exact (conj Hw (conj Hh (conj Hf (conj (idct_channel_ok _ _ _ _ _ _ _ HL E5)
          (conj (idct_channel_ok _ _ _ _ _ _ _ HB E6) (conj (idct_channel_ok _ _ _ _ _ _ _ HR E7) HC)))))).
Qed.

(* flat contents have exactly w * h samples *)
Lemma plane_data_length w h p : 0 <= w -> 0 <= h -> plane_ok w h p -> zlength (plane_data p) = w * h.
Proof.
  intros Hw Hh (H1 & H2 & H3). unfold plane_data, zlength.
  rewrite (concat_rect_length (Z.to_nat w) (prows p) H3), H2. nia.
Qed.

Theorem pipeline_total d : pic_ok d -> 1 <= quantizer (d_header d) <= 31 ->
  exists rgba w h, into_width_and_height (d_format d) = Some (w, h) /\
    pipeline d = Ok rgba /\ zlength rgba = 4 * w * h.
Proof.
  intros (w & h & Hw & Hh & Hf & HL & HB & HR & HC) Hq.
  exists (rgba_spec_flat
            (match deblock (plane_data (d_luma d)) w (nth (Z.to_nat (Z.min (quantizer (d_header d)) 31)) quant_to_strength 0) with Ok x => x | _ => [] end)
            (match deblock (plane_data (d_cb d)) ((w + 1) / 2) (nth (Z.to_nat (Z.min (quantizer (d_header d)) 31)) quant_to_strength 0) with Ok x => x | _ => [] end)
            (match deblock (plane_data (d_cr d)) ((w + 1) / 2) (nth (Z.to_nat (Z.min (quantizer (d_header d)) 31)) quant_to_strength 0) with Ok x => x | _ => [] end)
            w h), w, h.
  split; [exact Hf|].
  unfold pipeline. unfold d_width. rewrite Hf, HC.
  set (s := nth _ quant_to_strength 0).
  assert (Hcw : 1 <= (w + 1) / 2) by (apply Z.div_le_lower_bound; [lia|lia]).
  assert (Hch : 1 <= (h + 1) / 2) by (apply Z.div_le_lower_bound; [lia|lia]).
  assert (LL : zlength (plane_data (d_luma d)) = w * h) by (apply plane_data_length; [lia|lia|exact HL]).
  assert (LB : zlength (plane_data (d_cb d)) = (w + 1) / 2 * ((h + 1) / 2)) by (apply plane_data_length; [lia|lia|exact HB]).
  assert (LR : zlength (plane_data (d_cr d)) = (w + 1) / 2 * ((h + 1) / 2)) by (apply plane_data_length; [lia|lia|exact HR]).
  destruct (deblock_total_len (plane_data (d_luma d)) w s ltac:(lia)) as (y & Ey & Ly).
  { rewrite LL, Z.mul_comm. apply Z.mod_mul. lia. }
  destruct (deblock_total_len (plane_data (d_cb d)) ((w + 1) / 2) s ltac:(lia)) as (cb & Ecb & Lcb).
  { rewrite LB, Z.mul_comm. apply Z.mod_mul. lia. }
  destruct (deblock_total_len (plane_data (d_cr d)) ((w + 1) / 2) s ltac:(lia)) as (cr & Ecr & Lcr).
  { rewrite LR, Z.mul_comm. apply Z.mod_mul. lia. }
  rewrite Ey, Ecb, Ecr. cbn [bind].
  split.
  - apply yuv420_layout; try lia; unfold zlength in *; try lia.
  - apply rgba_spec_flat_length; lia.
Qed.
