(* C03: motion compensation of a whole picture.  After `gather` every sample of every predicted macroblock is the H.263
   prediction from the reference picture with that macroblock's vector for its 8x8 luma block (chroma: the vector derived
   from the four luma vectors), and the samples of the other macroblocks are untouched. *)
From H263V Require Import base.Prelude spec.SpecRecon model.Types model.Tables model.Reader model.Header model.Syntax model.F32 model.Recon
  proofs.HeaderLemmas proofs.PlaneShape proofs.MvSpec proofs.GatherSpec.
Require Import ZifyBool ZifyNat.
Ltac Zify.zify_post_hook ::= Z.div_mod_to_equations.

(* the vector of the 8x8 luma block that holds (x, y) *)
Definition quadrant (x y : Z) : Z := (x mod 16) / 8 + 2 * ((y mod 16) / 8).
Definition chroma_vector (v : mv4) : mv :=
  let sum := mv_add (mv_add (mv_add (mv4_get v 0) (mv4_get v 1)) (mv4_get v 2)) (mv4_get v 3) in
  (average_sum_of_mvs (fst sum), average_sum_of_mvs (snd sum)).

(* one predicted macroblock at (col, line) *)
Lemma gather_mb_luma w h src col line v l0 : plane_ok w h src -> plane_ok w h l0 -> 1 <= w -> 1 <= h -> 0 <= col -> 0 <= line ->
  exists l1 l2 l3 l4,
    gather_block src w (col * 16) (line * 16) (mv4_get v 0) l0 = Ok l1 /\
    gather_block src w (col * 16 + 8) (line * 16) (mv4_get v 1) l1 = Ok l2 /\
    gather_block src w (col * 16) (line * 16 + 8) (mv4_get v 2) l2 = Ok l3 /\
    gather_block src w (col * 16 + 8) (line * 16 + 8) (mv4_get v 3) l3 = Ok l4 /\ plane_ok w h l4 /\
    forall x y, 0 <= x < w -> 0 <= y < h ->
      at_ l4 x y = if (x / 16 =? col) && (y / 16 =? line)
                   then pred_spec src w h (2 * x + fst (mv4_get v (quadrant x y))) (2 * y + snd (mv4_get v (quadrant x y)))
                   else at_ l0 x y.
Proof.
  intros Hs H0 Hw Hh Hc Hl.
  destruct (gather_block_spec w h src (col * 16) (line * 16) (mv4_get v 0) l0 Hs H0 Hw Hh ltac:(lia) ltac:(lia)) as (l1 & E1 & O1 & A1).
  destruct (gather_block_spec w h src (col * 16 + 8) (line * 16) (mv4_get v 1) l1 Hs O1 Hw Hh ltac:(lia) ltac:(lia)) as (l2 & E2 & O2 & A2).
  destruct (gather_block_spec w h src (col * 16) (line * 16 + 8) (mv4_get v 2) l2 Hs O2 Hw Hh ltac:(lia) ltac:(lia)) as (l3 & E3 & O3 & A3).
  destruct (gather_block_spec w h src (col * 16 + 8) (line * 16 + 8) (mv4_get v 3) l3 Hs O3 Hw Hh ltac:(lia) ltac:(lia)) as (l4 & E4 & O4 & A4).
  exists l1, l2, l3, l4. split; [exact E1|]. split; [exact E2|]. split; [exact E3|]. split; [exact E4|]. split; [exact O4|].
  intros x y Hx Hy. rewrite A4, A3, A2, A1 by assumption. unfold quadrant.
  set (b0 := in_block (col * 16) (line * 16) 8 8 x y). set (b1 := in_block (col * 16 + 8) (line * 16) 8 8 x y).
  set (b2 := in_block (col * 16) (line * 16 + 8) 8 8 x y). set (b3 := in_block (col * 16 + 8) (line * 16 + 8) 8 8 x y).
  destruct ((x / 16 =? col) && (y / 16 =? line)) eqn:Emb.
  - assert (Hq : (x mod 16) / 8 = 0 \/ (x mod 16) / 8 = 1) by lia. assert (Hr : (y mod 16) / 8 = 0 \/ (y mod 16) / 8 = 1) by lia.
    destruct Hq as [Hq|Hq]; destruct Hr as [Hr|Hr]; rewrite Hq, Hr; cbn [Z.add Z.mul Pos.mul Pos.add].
    + assert (b3 = false) as -> by (unfold b3, in_block; lia). assert (b2 = false) as -> by (unfold b2, in_block; lia).
      assert (b1 = false) as -> by (unfold b1, in_block; lia). assert (b0 = true) as -> by (unfold b0, in_block; lia). reflexivity.
    + assert (b3 = false) as -> by (unfold b3, in_block; lia). assert (b2 = true) as -> by (unfold b2, in_block; lia). reflexivity.
    + assert (b3 = false) as -> by (unfold b3, in_block; lia). assert (b2 = false) as -> by (unfold b2, in_block; lia).
      assert (b1 = true) as -> by (unfold b1, in_block; lia). reflexivity.
    + assert (b3 = true) as -> by (unfold b3, in_block; lia). reflexivity.
  - assert (b3 = false) as -> by (unfold b3, in_block; lia). assert (b2 = false) as -> by (unfold b2, in_block; lia).
    assert (b1 = false) as -> by (unfold b1, in_block; lia). assert (b0 = false) as -> by (unfold b0, in_block; lia). reflexivity.
Qed.

Lemma gather_mb_chroma w h src col line cv c0 : plane_ok w h src -> plane_ok w h c0 -> 1 <= w -> 1 <= h -> 0 <= col -> 0 <= line ->
  exists c1, gather_block src w (col * 8) (line * 8) cv c0 = Ok c1 /\ plane_ok w h c1 /\
    forall x y, 0 <= x < w -> 0 <= y < h ->
      at_ c1 x y = if (x / 8 =? col) && (y / 8 =? line) then pred_spec src w h (2 * x + fst cv) (2 * y + snd cv) else at_ c0 x y.
Proof.
  intros Hs H0 Hw Hh Hc Hl.
  destruct (gather_block_spec w h src (col * 8) (line * 8) cv c0 Hs H0 Hw Hh ltac:(lia) ltac:(lia)) as (c1 & E1 & O1 & A1).
  exists c1. split; [exact E1|]. split; [exact O1|]. intros x y Hx Hy. rewrite A1 by assumption.
  replace (in_block (col * 8) (line * 8) 8 8 x y) with ((x / 8 =? col) && (y / 8 =? line)) by (unfold in_block; lia). reflexivity.
Qed.

Lemma base_unique a b c d m : 0 <= a < m -> 0 <= c < m -> a + b * m = c + d * m -> a = c /\ b = d.
Proof.
  intros Ha Hc E. assert (Ea : a = (a + b * m) mod m) by (rewrite Z.mod_add by lia; symmetry; apply Z.mod_small; lia).
  assert (Ec : c = (c + d * m) mod m) by (rewrite Z.mod_add by lia; symmetry; apply Z.mod_small; lia).
  assert (a = c) by (rewrite Ea, Ec, E; reflexivity). split; [assumption|]. subst c.
  assert (b * m = d * m) by lia. apply Z.mul_cancel_r in H; [exact H|lia].
Qed.

Section Picture.
  Variables (w h mpl : Z) (rp : decoded_picture).
  Hypothesis Hw : 1 <= w.  Hypothesis Hh : 1 <= h.  Hypothesis Hmpl : 1 <= mpl.
  Hypothesis Hrf : into_width_and_height (d_format rp) = Some (w, h).
  Hypothesis Hrl : plane_ok w h (d_luma rp).
  Hypothesis Hrb : plane_ok ((w + 1) / 2) ((h + 1) / 2) (d_cb rp).
  Hypothesis Hrr : plane_ok ((w + 1) / 2) ((h + 1) / 2) (d_cr rp).
  Hypothesis Hrc : d_chroma_w rp = (w + 1) / 2.

  Definition mb_at (items : list (mbtype * mv4)) (i0 i : Z) : mbtype * mv4 := nth (Z.to_nat (i - i0)) items (Intra, mv4_zero).
  Definition covered (items : list (mbtype * mv4)) (i0 cx i : Z) : bool :=
    (cx <? mpl) && (i0 <=? i) && (i <? i0 + zlength items) && mb_is_inter (fst (mb_at items i0 i)).

  Definition luma_after (items : list (mbtype * mv4)) (i0 : Z) (base : plane) (x y : Z) : Z :=
    let i := x / 16 + (y / 16) * mpl in
    if covered items i0 (x / 16) i
    then let v := snd (mb_at items i0 i) in
         pred_spec (d_luma rp) w h (2 * x + fst (mv4_get v (quadrant x y))) (2 * y + snd (mv4_get v (quadrant x y)))
    else at_ base x y.
  Definition chroma_after (src : plane) (items : list (mbtype * mv4)) (i0 : Z) (base : plane) (x y : Z) : Z :=
    let i := x / 8 + (y / 8) * mpl in
    if covered items i0 (x / 8) i
    then let cv := chroma_vector (snd (mb_at items i0 i)) in
         pred_spec src ((w + 1) / 2) ((h + 1) / 2) (2 * x + fst cv) (2 * y + snd cv)
    else at_ base x y.

  Lemma mb_at_cons a items i0 i : i0 < i -> mb_at (a :: items) i0 i = mb_at items (i0 + 1) i.
  Proof.
    intros H. unfold mb_at. replace (Z.to_nat (i - i0)) with (S (Z.to_nat (i - (i0 + 1)))) by lia. reflexivity.
  Qed.
  Lemma mb_at_head a items i0 : mb_at (a :: items) i0 i0 = a.
  Proof. unfold mb_at. replace (Z.to_nat (i0 - i0)) with 0%nat by lia. reflexivity. Qed.
  Lemma zlength_cons' {A} (a : A) l : zlength (a :: l) = zlength l + 1.
  Proof. unfold zlength. cbn [length]. lia. Qed.

  Theorem gather_go_spec : forall items i0 np, 0 <= i0 ->
    into_width_and_height (d_format np) = Some (w, h) ->
    plane_ok w h (d_luma np) -> plane_ok ((w + 1) / 2) ((h + 1) / 2) (d_cb np) -> plane_ok ((w + 1) / 2) ((h + 1) / 2) (d_cr np) ->
    exists np', gather_go items i0 (Some rp) mpl np = Ok np' /\
      d_header np' = d_header np /\ d_format np' = d_format np /\ d_chroma_w np' = d_chroma_w np /\
      plane_ok w h (d_luma np') /\ plane_ok ((w + 1) / 2) ((h + 1) / 2) (d_cb np') /\ plane_ok ((w + 1) / 2) ((h + 1) / 2) (d_cr np') /\
      (forall x y, 0 <= x < w -> 0 <= y < h -> at_ (d_luma np') x y = luma_after items i0 (d_luma np) x y) /\
      (forall x y, 0 <= x < (w + 1) / 2 -> 0 <= y < (h + 1) / 2 ->
         at_ (d_cb np') x y = chroma_after (d_cb rp) items i0 (d_cb np) x y /\
         at_ (d_cr np') x y = chroma_after (d_cr rp) items i0 (d_cr np) x y).
  Proof.
    induction items as [|[t v] items IH]; intros i0 np Hi0 Hnf Hl Hb Hr.
    - exists np. cbn [gather_go]. repeat (split; [first [reflexivity | assumption]|]).
      split; [intros x y Hx Hy|intros x y Hx Hy; split]; unfold luma_after, chroma_after, covered; cbv zeta;
        change (zlength (@nil (mbtype * mv4))) with 0;
        match goal with |- _ = (if ?c then _ else _) => destruct c eqn:E end; try reflexivity; exfalso; lia.
    - cbn [gather_go]. destruct (mb_is_inter t) eqn:Et.
      + (* a predicted macroblock *)
        unfold d_width, d_height. rewrite Hrf, Hnf. rewrite !Z.eqb_refl. cbn [andb negb].
        unfold rem_chk, div_chk. destruct (mpl =? 0) eqn:E0; [lia|]. cbn [bind]. cbv zeta.
        set (col := Z.rem i0 mpl). set (line := Z.quot i0 mpl).
        assert (Hcol : col = i0 mod mpl) by (unfold col; apply Z.rem_mod_nonneg; lia).
        assert (Hline : line = i0 / mpl) by (unfold line; apply Z.quot_div_nonneg; lia).
        assert (Hcl : 0 <= col < mpl /\ 0 <= line /\ i0 = col + line * mpl).
        { rewrite Hcol, Hline. pose proof (Z.div_mod i0 mpl ltac:(lia)) as D. pose proof (Z.mod_pos_bound i0 mpl ltac:(lia)) as M.
          assert (0 <= i0 / mpl) by (apply Z.div_pos; lia). clear - D M H. nia. }
        destruct (gather_mb_luma w h (d_luma rp) col line v (d_luma np) Hrl Hl Hw Hh ltac:(lia) ltac:(lia)) as (l1 & l2 & l3 & l4 & G1 & G2 & G3 & G4 & O4 & A4).
        rewrite G1. cbn [bind]. rewrite G2. cbn [bind]. rewrite G3. cbn [bind]. rewrite G4. cbn [bind]. rewrite Hrc. fold (chroma_vector v).
        destruct (gather_mb_chroma ((w + 1) / 2) ((h + 1) / 2) (d_cb rp) col line (chroma_vector v) (d_cb np) Hrb Hb ltac:(lia) ltac:(lia) ltac:(lia) ltac:(lia)) as (cb1 & Eb & Ob & Ab).
        rewrite Eb. cbn [bind].
        destruct (gather_mb_chroma ((w + 1) / 2) ((h + 1) / 2) (d_cr rp) col line (chroma_vector v) (d_cr np) Hrr Hr ltac:(lia) ltac:(lia) ltac:(lia) ltac:(lia)) as (cr1 & Er & Or & Ar).
        rewrite Er. cbn [bind].
        destruct (IH (i0 + 1) (mkDecoded (d_header np) (d_format np) l4 cb1 cr1 (d_chroma_w np)) ltac:(lia) Hnf O4 Ob Or)
          as (np' & E' & F1 & F2 & F3 & P1 & P2 & P3 & L' & C').
        exists np'. split; [exact E'|]. cbn [d_header d_format d_chroma_w d_luma d_cb d_cr] in *.
        split; [exact F1|]. split; [exact F2|]. split; [exact F3|]. split; [exact P1|]. split; [exact P2|]. split; [exact P3|].
        split.
        * intros x y Hx Hy. rewrite L' by assumption. unfold luma_after, covered. cbv zeta. rewrite zlength_cons'.
          set (i := x / 16 + y / 16 * mpl). rewrite A4 by assumption. clear - Et Hcl Hx Hy Hmpl Hi0.
          destruct (Z.eq_dec i i0) as [Ei|Ei].
          -- destruct (x / 16 <? mpl) eqn:Ex.
             ++ assert (Hmb : (x / 16 =? col) && (y / 16 =? line) = true).
                { destruct (base_unique (x / 16) (y / 16) col line mpl ltac:(clear - Ex Hx; lia) ltac:(lia) ltac:(unfold i in Ei; lia)) as [U1 U2]. rewrite U1, U2, !Z.eqb_refl. reflexivity. }
                rewrite Hmb. rewrite Ei. rewrite mb_at_head. cbn [fst snd]. rewrite Et.
                replace ((i0 + 1 <=? i0)) with false by lia. rewrite !andb_false_r. cbn [andb].
                replace ((i0 <=? i0) && (i0 <? i0 + (zlength items + 1))) with true by (unfold zlength; lia). reflexivity.
             ++ assert (Hmb : (x / 16 =? col) && (y / 16 =? line) = false) by (clear - Ex Hcl; lia).
                rewrite Hmb. cbn [andb]. reflexivity.
          -- assert (Hmb : (x / 16 =? col) && (y / 16 =? line) = false).
             { destruct ((x / 16 =? col) && (y / 16 =? line)) eqn:Eq; [|reflexivity]. exfalso. apply Ei. unfold i. assert (x / 16 = col /\ y / 16 = line) as [-> ->] by lia. lia. }
             rewrite Hmb.
             destruct (Z.lt_ge_cases i0 i) as [Hlt|Hge].
             ++ rewrite (mb_at_cons (t, v) items i0 i Hlt).
                replace ((x / 16 <? mpl) && (i0 + 1 <=? i) && (i <? i0 + 1 + zlength items)) with ((x / 16 <? mpl) && (i0 <=? i) && (i <? i0 + (zlength items + 1))) by lia.
                reflexivity.
             ++ replace ((x / 16 <? mpl) && (i0 + 1 <=? i)) with false by lia. replace ((x / 16 <? mpl) && (i0 <=? i)) with false by lia. reflexivity.
        * intros x y Hx Hy. destruct (C' x y Hx Hy) as [Cb' Cr']. rewrite Cb', Cr'. unfold chroma_after, covered. cbv zeta. rewrite zlength_cons'.
          set (i := x / 8 + y / 8 * mpl). rewrite Ab, Ar by assumption. clear - Et Hcl Hx Hy Hmpl Hi0.
          destruct (Z.eq_dec i i0) as [Ei|Ei].
          -- destruct (x / 8 <? mpl) eqn:Ex.
             ++ assert (Hmb : (x / 8 =? col) && (y / 8 =? line) = true).
                { destruct (base_unique (x / 8) (y / 8) col line mpl ltac:(clear - Ex Hx; lia) ltac:(lia) ltac:(unfold i in Ei; lia)) as [U1 U2]. rewrite U1, U2, !Z.eqb_refl. reflexivity. }
                rewrite Hmb. rewrite Ei. rewrite mb_at_head. cbn [fst snd]. rewrite Et.
                replace ((i0 + 1 <=? i0)) with false by lia. rewrite !andb_false_r. cbn [andb].
                replace ((i0 <=? i0) && (i0 <? i0 + (zlength items + 1))) with true by (unfold zlength; lia). split; reflexivity.
             ++ assert (Hmb : (x / 8 =? col) && (y / 8 =? line) = false) by (clear - Ex Hcl; lia).
                rewrite Hmb. cbn [andb]. split; reflexivity.
          -- assert (Hmb : (x / 8 =? col) && (y / 8 =? line) = false).
             { destruct ((x / 8 =? col) && (y / 8 =? line)) eqn:Eq; [|reflexivity]. exfalso. apply Ei. unfold i. assert (x / 8 = col /\ y / 8 = line) as [-> ->] by lia. lia. }
             rewrite Hmb.
             destruct (Z.lt_ge_cases i0 i) as [Hlt|Hge].
             ++ rewrite (mb_at_cons (t, v) items i0 i Hlt).
                replace ((x / 8 <? mpl) && (i0 + 1 <=? i) && (i <? i0 + 1 + zlength items)) with ((x / 8 <? mpl) && (i0 <=? i) && (i <? i0 + (zlength items + 1))) by lia.
                split; reflexivity.
             ++ replace ((x / 8 <? mpl) && (i0 + 1 <=? i)) with false by lia. replace ((x / 8 <? mpl) && (i0 <=? i)) with false by lia. split; reflexivity.
      + (* not predicted: nothing happens *)
        destruct (IH (i0 + 1) np ltac:(lia) Hnf Hl Hb Hr) as (np' & E' & F1 & F2 & F3 & P1 & P2 & P3 & L' & C').
        exists np'. split; [exact E'|]. split; [exact F1|]. split; [exact F2|]. split; [exact F3|]. split; [exact P1|]. split; [exact P2|]. split; [exact P3|].
        split.
        * intros x y Hx Hy. rewrite L' by assumption. unfold luma_after, covered. cbv zeta. rewrite zlength_cons'.
          set (i := x / 16 + y / 16 * mpl). clear - Et Hx Hy Hmpl Hi0.
          destruct (Z.eq_dec i i0) as [Ei|Ei].
          -- rewrite Ei. rewrite mb_at_head. cbn [fst]. rewrite Et. replace ((i0 + 1 <=? i0)) with false by lia. rewrite !andb_false_r. reflexivity.
          -- destruct (Z.lt_ge_cases i0 i) as [Hlt|Hge].
             ++ rewrite (mb_at_cons (t, v) items i0 i Hlt).
                replace ((x / 16 <? mpl) && (i0 + 1 <=? i) && (i <? i0 + 1 + zlength items)) with ((x / 16 <? mpl) && (i0 <=? i) && (i <? i0 + (zlength items + 1))) by lia.
                reflexivity.
             ++ replace ((x / 16 <? mpl) && (i0 + 1 <=? i)) with false by lia. replace ((x / 16 <? mpl) && (i0 <=? i)) with false by lia. reflexivity.
        * intros x y Hx Hy. destruct (C' x y Hx Hy) as [Cb' Cr']. rewrite Cb', Cr'. unfold chroma_after, covered. cbv zeta. rewrite zlength_cons'.
          set (i := x / 8 + y / 8 * mpl). clear - Et Hx Hy Hmpl Hi0.
          destruct (Z.eq_dec i i0) as [Ei|Ei].
          -- rewrite Ei. rewrite mb_at_head. cbn [fst]. rewrite Et. replace ((i0 + 1 <=? i0)) with false by lia. rewrite !andb_false_r. split; reflexivity.
          -- destruct (Z.lt_ge_cases i0 i) as [Hlt|Hge].
             ++ rewrite (mb_at_cons (t, v) items i0 i Hlt).
                replace ((x / 8 <? mpl) && (i0 + 1 <=? i) && (i <? i0 + 1 + zlength items)) with ((x / 8 <? mpl) && (i0 <=? i) && (i <? i0 + (zlength items + 1))) by lia.
                split; reflexivity.
             ++ replace ((x / 8 <? mpl) && (i0 + 1 <=? i)) with false by lia. replace ((x / 8 <? mpl) && (i0 <=? i)) with false by lia. split; reflexivity.
  Qed.
End Picture.
