(* C02 / C03: the macroblock layer (H.263 5.3) for I, P and disposable pictures without the unrestricted-vector syntax:
   COD, MCBPC (Tables 7 / 8), CBPY (Table 13, complemented for inter macroblocks), DQUANT (Table 12), one or four motion
   vector differences (Table 14).  An encoder from field values and the theorem that the parser returns exactly those
   fields and stops exactly behind them, whatever follows. *)
From H263V Require Import base.Prelude model.Types model.Tables model.Reader model.Header model.Syntax spec.SpecHeader spec.SpecTables
  proofs.ReaderLemmas proofs.HeaderLemmas proofs.HeaderRoundTrip proofs.BitFields proofs.Frame proofs.VlcTables.
Require Import ZifyBool ZifyNat.

Lemma dquant_roundtrip code v rest pos : In (code, v) spec_dquant ->
  decode_dquant (mkReader (code ++ rest) pos) = Ok (v, mkReader rest (pos + 2)).
Proof.
  intros H. unfold decode_dquant. cbn in H.
  destruct H as [H|[H|[H|[H|[]]]]]; inversion H; subst;
    (rewrite (read_bits_list 8 2 _ rest pos) by (first [reflexivity | lia]); reflexivity).
Qed.

(* a vector difference: two Table-14 code words *)
Record mvd_spec := mkMvd { m_cx : list bool; m_x : Z; m_cy : list bool; m_y : Z }.
Definition enc_mvd (m : mvd_spec) : list bool := m_cx m ++ m_cy m.
Definition wf_mvd (m : mvd_spec) : Prop := In (m_cx m, m_x m) spec_mvd /\ In (m_cy m, m_y m) spec_mvd.

Lemma mvd_roundtrip pic running m rest pos : (has running UNRESTRICTED_MOTION_VECTORS && has_plusptype pic) = false -> wf_mvd m ->
  exists pos', decode_motion_vector pic running (mkReader (enc_mvd m ++ rest) pos) = Ok ((m_x m, m_y m), mkReader rest pos').
Proof.
  intros Hu [Hx Hy]. unfold decode_motion_vector, enc_mvd. rewrite Hu. rewrite <- app_assoc.
  rewrite (mvd_is_table14 _ _ _ _ Hx). cbn [bind]. rewrite (mvd_is_table14 _ _ _ _ Hy). cbn [bind]. eauto.
Qed.

(* ---- a coded macroblock ---- *)
Record mb_spec := mkMbSpec {
  s_cmcbpc : list bool; s_type : mbtype; s_cb : bool; s_cr : bool;
  s_ccbpy : list bool; s_pattern : list bool;            (* the intra pattern of Table 13 *)
  s_dquant : option (list bool * Z);
  s_mvd : option mvd_spec; s_addl : option (mvd_spec * mvd_spec * mvd_spec) }.

Definition enc_coded (intra_picture : bool) (m : mb_spec) : list bool :=
  (if intra_picture then [] else [false])                                    (* COD = 0 *)
  ++ s_cmcbpc m ++ s_ccbpy m
  ++ (match s_dquant m with Some (c, _) => c | None => [] end)
  ++ (match s_mvd m with Some v => enc_mvd v | None => [] end)
  ++ (match s_addl m with Some (a, b, c) => enc_mvd a ++ enc_mvd b ++ enc_mvd c | None => [] end).

Definition wf_coded (intra_picture : bool) (m : mb_spec) : Prop :=
  In (s_cmcbpc m, BpValid (s_type m) (s_cb m) (s_cr m)) (if intra_picture then spec_mcbpc_i else spec_mcbpc_p) /\
  In (s_ccbpy m, s_pattern m) spec_cbpy /\
  (if mb_has_quantizer (s_type m) then exists c v, s_dquant m = Some (c, v) /\ In (c, v) spec_dquant else s_dquant m = None) /\
  (if mb_is_inter (s_type m) then exists v, s_mvd m = Some v /\ wf_mvd v else s_mvd m = None) /\
  (if mb_has_fourvec (s_type m) then exists a b c, s_addl m = Some (a, b, c) /\ wf_mvd a /\ wf_mvd b /\ wf_mvd c else s_addl m = None).

Definition mb_of_spec (m : mb_spec) : macroblock :=
  MbCoded (s_type m)
    (mkCbp (if mb_is_intra (s_type m) then s_pattern m else map negb (s_pattern m)) (s_cb m) (s_cr m))
    (match s_dquant m with Some (_, v) => Some v | None => None end)
    (match s_mvd m with Some v => Some (m_x v, m_y v) | None => None end)
    (match s_addl m with Some (a, b, c) => Some ((m_x a, m_y a), (m_x b, m_y b), (m_x c, m_y c)) | None => None end).

Definition simple_picture (pic : picture) (running : Z) : Prop :=
  (picture_type pic = IFrame \/ picture_type pic = PFrame \/ picture_type pic = DisposablePFrame) /\
  has running MODIFIED_QUANTIZATION = false /\
  (has running UNRESTRICTED_MOTION_VECTORS && has_plusptype pic) = false.

Theorem coded_macroblock_roundtrip pic running m rest pos :
  simple_picture pic running -> wf_coded (is_iframe (picture_type pic)) m ->
  exists pos', decode_macroblock pic running (mkReader (enc_coded (is_iframe (picture_type pic)) m ++ rest) pos)
               = Ok (mb_of_spec m, mkReader rest pos').
Proof.
  intros (Hpt & Hmq & Humv) (Hmc & Hcy & Hdq & Hmv & Had). unfold decode_macroblock, enc_coded, mb_of_spec.
  rewrite <- !app_assoc.
  assert (Hpb : is_any_pbframe (picture_type pic) = false) by (destruct Hpt as [Ht|[Ht|Ht]]; rewrite Ht; reflexivity).
  rewrite Hpb.
  destruct Hpt as [Ht|[Ht|Ht]]; rewrite Ht in *; cbn [is_iframe] in *;
    [ cbn [app bind]; change (negb (0 =? 0)) with false; cbn iota; rewrite (mcbpc_i_is_table7 _ _ _ _ Hmc)
    | cbn [app]; rewrite read_bit; cbn [bind]; change (negb (0 =? 0)) with false; cbn iota; rewrite (mcbpc_p_is_table8 _ _ _ _ Hmc)
    | cbn [app]; rewrite read_bit; cbn [bind]; change (negb (0 =? 0)) with false; cbn iota; rewrite (mcbpc_p_is_table8 _ _ _ _ Hmc) ];
    cbn [bind];
    rewrite (cbpy_is_table13 _ _ _ _ Hcy); cbn [bind]; rewrite Hmq; cbv zeta; rewrite orb_false_r;
    (* DQUANT *)
    (match goal with |- context [bind (if mb_has_quantizer (s_type m) then ?A else ?B) _] =>
       assert (Hq : exists p2, (if mb_has_quantizer (s_type m) then A else B)
                     = Ok (match s_dquant m with Some (_, v) => Some v | None => None end,
                           mkReader ((match s_mvd m with Some v => enc_mvd v | None => [] end) ++
                                     (match s_addl m with Some (a, b, c) => enc_mvd a ++ enc_mvd b ++ enc_mvd c | None => [] end) ++ rest) p2))
     end;
     [ destruct (mb_has_quantizer (s_type m));
       [ destruct Hdq as (c & v & Ed & Hin); rewrite Ed; rewrite (dquant_roundtrip _ _ _ _ Hin); cbn [bind]; eauto
       | rewrite Hdq; cbn [app]; eauto ]
     | ]);
    destruct Hq as [p2 Eq]; rewrite Eq; cbn [bind];
    (* the first vector *)
    (match goal with |- context [bind (if mb_is_inter (s_type m) then ?A else ?B) _] =>
       assert (Hv1 : exists p3, (if mb_is_inter (s_type m) then A else B)
                     = Ok (match s_mvd m with Some v => Some (m_x v, m_y v) | None => None end,
                           mkReader ((match s_addl m with Some (a, b, c) => enc_mvd a ++ enc_mvd b ++ enc_mvd c | None => [] end) ++ rest) p3))
     end;
     [ destruct (mb_is_inter (s_type m));
       [ destruct Hmv as (v & Ev & Hwv); rewrite Ev; match goal with |- context [mkReader (enc_mvd v ++ ?tl) ?pp] => destruct (mvd_roundtrip pic running v tl pp Humv Hwv) as [p3 E3] end; rewrite E3; cbn [bind]; eauto
       | rewrite Hmv; cbn [app]; eauto ]
     | ]);
    destruct Hv1 as [p3 E3]; rewrite E3; cbn [bind];
    (* the other three *)
    (match goal with |- context [bind (if mb_has_fourvec (s_type m) then ?A else ?B) _] =>
       assert (Hv4 : exists p4, (if mb_has_fourvec (s_type m) then A else B)
                     = Ok (match s_addl m with Some (a, b, c) => Some ((m_x a, m_y a), (m_x b, m_y b), (m_x c, m_y c)) | None => None end, mkReader rest p4))
     end;
     [ destruct (mb_has_fourvec (s_type m));
       [ destruct Had as (a & b & c & Ea & Wa & Wb & Wc); rewrite Ea; rewrite <- !app_assoc;
         match goal with |- context [mkReader (enc_mvd a ++ ?tl) ?pp] => destruct (mvd_roundtrip pic running a tl pp Humv Wa) as [q1 F1] end; rewrite F1; cbn [bind];
         match goal with |- context [mkReader (enc_mvd b ++ ?tl) ?pp] => destruct (mvd_roundtrip pic running b tl pp Humv Wb) as [q2 F2] end; rewrite F2; cbn [bind];
         match goal with |- context [mkReader (enc_mvd c ++ ?tl) ?pp] => destruct (mvd_roundtrip pic running c tl pp Humv Wc) as [q3 F3] end; rewrite F3; cbn [bind]; eauto
       | rewrite Had; cbn [app]; eauto ]
     | ]);
    destruct Hv4 as [p4 E4]; rewrite E4; cbn [bind]; eexists; reflexivity.
Qed.

(* not-coded macroblock (COD = 1) and MCBPC stuffing *)
Lemma uncoded_roundtrip pic running rest pos : is_iframe (picture_type pic) = false ->
  decode_macroblock pic running (mkReader (true :: rest) pos) = Ok (MbUncoded, mkReader rest (pos + 1)).
Proof. intros H. unfold decode_macroblock. rewrite H. rewrite read_bit. cbn [bind]. reflexivity. Qed.

Definition enc_stuffing (intra_picture : bool) : list bool :=
  (if intra_picture then [] else [false]) ++ [false; false; false; false; false; false; false; false; true].
Lemma stuffing_in_tables : In ([false; false; false; false; false; false; false; false; true], BpStuffing) spec_mcbpc_i /\
                           In ([false; false; false; false; false; false; false; false; true], BpStuffing) spec_mcbpc_p.
Proof. split; vm_compute; tauto. Qed.
Lemma stuffing_roundtrip pic running rest pos :
  (picture_type pic = IFrame \/ picture_type pic = PFrame \/ picture_type pic = DisposablePFrame) ->
  exists pos', decode_macroblock pic running (mkReader (enc_stuffing (is_iframe (picture_type pic)) ++ rest) pos) = Ok (MbStuffing, mkReader rest pos').
Proof.
  intros Hpt. unfold decode_macroblock, enc_stuffing. destruct stuffing_in_tables as [Si Sp].
  destruct Hpt as [Ht|[Ht|Ht]]; rewrite Ht; cbn [is_iframe].
  - cbn [app bind]. change (negb (0 =? 0)) with false. cbn iota.
    change (false :: false :: false :: false :: false :: false :: false :: false :: true :: rest) with ([false; false; false; false; false; false; false; false; true] ++ rest).
    rewrite (mcbpc_i_is_table7 _ _ _ _ Si). cbn [bind]. eauto.
  - rewrite <- app_assoc. cbn [app]. rewrite read_bit. cbn [bind]. change (negb (0 =? 0)) with false. cbn iota.
    change (false :: false :: false :: false :: false :: false :: false :: false :: true :: rest) with ([false; false; false; false; false; false; false; false; true] ++ rest).
    rewrite (mcbpc_p_is_table8 _ _ _ _ Sp). cbn [bind]. eauto.
  - rewrite <- app_assoc. cbn [app]. rewrite read_bit. cbn [bind]. change (negb (0 =? 0)) with false. cbn iota.
    change (false :: false :: false :: false :: false :: false :: false :: false :: true :: rest) with ([false; false; false; false; false; false; false; false; true] ++ rest).
    rewrite (mcbpc_p_is_table8 _ _ _ _ Sp). cbn [bind]. eauto.
Qed.
