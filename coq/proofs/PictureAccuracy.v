(* C02 / C03 + C10: every sample of a decoded intra or predicted picture is accurate.  The macroblock loop stores, for every 8x8 block, the
   classification of a coefficient matrix that is the zig-zag placement of dequantised levels of a parsed block (or leaves
   the all-zero block); the reconstruction adds to zero the transform value of the block at the sample's position; by the
   analytic bound of IdctAccuracy.v that value is within 0.632 of the exact clipped transform of that matrix. *)
From Coq Require Import Reals Lra.
From Flocq Require Import Core.
From H263V Require Import base.Prelude spec.SpecRecon spec.SpecHeader spec.SpecTables model.Types model.Tables model.Reader model.Header model.Syntax
  model.F32 model.Recon model.Decoder
  proofs.ReaderLemmas proofs.HeaderLemmas proofs.PlaneShape proofs.Frame proofs.BlockRoundTrip proofs.MacroblockRoundTrip proofs.PictureRoundTrip
  proofs.RlePlacement proofs.IdctPlacement proofs.GatherSpec proofs.IntraPicture proofs.GatherPicture proofs.PredictedPicture proofs.IdctAccuracy proofs.IdctClassified.
Require Import ZifyBool ZifyNat.
Local Open Scope Z_scope.

Definition good_block (b : block) : Prop :=
  Forall (fun t => 0 <= t_run t) (tcoefs b) /\ match intradc b with Some c => 0 <= c <= 255 | None => True end.
Definition good_level (d : dct_block) : Prop :=
  d = DctZero \/ exists b q, 0 <= q /\ good_block b /\ inverse_rle_block b q = Some d.

Lemma set_nth_Forall {A} (P : A -> Prop) a : forall l n l', Forall P l -> P a -> set_nth l n a = Some l' -> Forall P l'.
Proof.
  induction l as [|h t IH]; intros n l' Hl Ha H; cbn [set_nth] in H; [destruct n; discriminate|].
  inversion Hl as [|? ? Hh Ht]; subst. destruct n as [|n].
  - inversion H; subst. constructor; assumption.
  - destruct (set_nth t n a) as [t'|] eqn:E; [|discriminate]. inversion H; subst. constructor; [exact Hh|]. eapply IH; eauto.
Qed.

Lemma inverse_rle_good b levels px py bpl q levels' : good_block b -> 0 <= q -> Forall good_level levels ->
  inverse_rle b levels px py bpl q = Ok levels' -> Forall good_level levels'.
Proof.
  intros Hb Hq Hl H. unfold inverse_rle in H. cbv zeta in H.
  destruct (get levels (px / 8 + py / 8 * bpl)) as [x| | |]; cbn [bind] in H; try discriminate.
  destruct (inverse_rle_block b q) as [d|] eqn:Ed.
  - unfold set in H. destruct (px / 8 + py / 8 * bpl <? 0); [discriminate|].
    destruct (set_nth levels (Z.to_nat (px / 8 + py / 8 * bpl)) d) as [l'|] eqn:Es; [|discriminate]. inversion H; subst.
    eapply set_nth_Forall; [exact Hl| |exact Es]. right. exists b, q. auto.
  - inversion H; subst. exact Hl.
Qed.

Lemma spec_tcoef_runs code (last : bool) run level : In (code, (last, run, level)) spec_tcoef -> 0 <= run.
Proof.
  intros H. assert (A : forallb (fun e : list bool * (bool * Z * Z) => 0 <=? snd (fst (snd e))) spec_tcoef = true) by (vm_compute; reflexivity).
  rewrite forallb_forall in A. specialize (A _ H). cbn [snd fst] in A. lia.
Qed.

Lemma blk_good v1 intra b : wf_block v1 intra b -> good_block (blk b).
Proof.
  intros (Hdc & Hev). unfold good_block, blk. cbn [tcoefs intradc]. split.
  - destruct Hev as [E|Hw]; [rewrite E; constructor|].
    assert (G : forall es, wf_events v1 es -> Forall (fun t => 0 <= t_run t) (map ev_tcoef es)).
    { induction es as [|e es IH]; intros H; [contradiction|]. cbn [map].
      assert (He : wf_event v1 e) by (destruct es; cbn [wf_events] in H; tauto).
      constructor.
      - destruct e as [code last run level neg|last run level long]; cbn [ev_tcoef t_run wf_event] in *.
        + pose proof (spec_tcoef_runs code last run level He). lia.
        + lia.
      - destruct es as [|e2 es2]; [constructor|]. apply IH. cbn [wf_events] in H. tauto. }
    apply G. exact Hw.
  - destruct intra.
    + destruct Hdc as (c & -> & Hc & _). lia.
    + rewrite Hdc. exact I.
Qed.

Definition good_state (st : mbloop) : Prop :=
  Forall good_level (l_luma st) /\ Forall good_level (l_cb st) /\ Forall good_level (l_cr st).

Lemma coded_pure_good np running mpl levw t dq mvd addl b0 b1 b2 b3 b4 b5 st st' mvs :
  good_block b0 -> good_block b1 -> good_block b2 -> good_block b3 -> good_block b4 -> good_block b5 -> good_state st ->
  coded_pure np running mpl levw t dq mvd addl b0 b1 b2 b3 b4 b5 st = Ok (st', mvs) -> good_state st'.
Proof.
  intros G0 G1 G2 G3 G4 G5 (L & B & R) H. unfold coded_pure in H. cbv zeta in H.
  bind_inv H as col Ec. bind_inv H as line El. bind_inv H as mv Em.
  assert (Hq : 0 <= next_quant (l_quant st) dq) by (unfold next_quant, clamp; lia).
  bind_inv H as l0 E0. bind_inv H as l1 E1. bind_inv H as l2 E2. bind_inv H as l3 E3. bind_inv H as c0 E4. bind_inv H as c1 E5.
  inversion H; subst. unfold good_state. cbn [l_luma l_cb l_cr].
  pose proof (inverse_rle_good _ _ _ _ _ _ _ G0 Hq L E0) as A0.
  pose proof (inverse_rle_good _ _ _ _ _ _ _ G1 Hq A0 E1) as A1.
  pose proof (inverse_rle_good _ _ _ _ _ _ _ G2 Hq A1 E2) as A2.
  pose proof (inverse_rle_good _ _ _ _ _ _ _ G3 Hq A2 E3) as A3.
  split; [exact A3|]. split; [exact (inverse_rle_good _ _ _ _ _ _ _ G4 Hq B E4)|exact (inverse_rle_good _ _ _ _ _ _ _ G5 Hq R E5)].
Qed.

Lemma pure_loop_good np running mpl levw ipic v1 : forall fms st st', Forall (wf_full ipic v1) fms -> good_state st ->
  pure_loop np running mpl levw fms st = Ok st' -> good_state st'.
Proof.
  induction fms as [|f fms IH]; intros st st' Hwf Hg H; cbn [pure_loop] in H; [inversion H; subst; exact Hg|].
  inversion Hwf as [|? ? Hw Hwf']; subst. destruct f as [| |m b0 b1 b2 b3 b4 b5].
  - eapply IH; eauto.
  - destruct (is_iframe (picture_type (d_header np))); [discriminate|]. eapply IH; [exact Hwf'| |exact H]. exact Hg.
  - unfold coded_of in H. bind_inv H as [st1 mvs] Ec.
    cbn [wf_full] in Hw. destruct Hw as (_ & W0 & W1 & W2 & W3 & W4 & W5 & _).
    eapply IH; [exact Hwf'| |exact H].
    pose proof (coded_pure_good _ _ _ _ _ _ _ _ _ _ _ _ _ _ _ _ _ (blk_good _ _ _ W0) (blk_good _ _ _ W1) (blk_good _ _ _ W2) (blk_good _ _ _ W3) (blk_good _ _ _ W4) (blk_good _ _ _ W5) Hg Ec) as G.
    exact G.
Qed.

(* ---- one sample ---- *)
Local Open Scope R_scope.
Definition coef_source (d : dct_block) (coef : Z -> Z -> Z) : Prop :=
  (d = DctZero /\ forall x y, coef x y = 0%Z) \/
  exists b q, (0 <= q)%Z /\ good_block b /\ inverse_rle_block b q = Some d /\
              place_spec (tcoefs b) q (start_zz (intradc b)) (start_fun (intradc b)) = Some coef.

Lemma ideal4_zero c j : ideal4 (fun _ _ => 0%Z) c j = 0.
Proof. unfold ideal4. cbn [seq sumf]. ring. Qed.

Lemma sample_accurate d (xo yo : nat) : good_level d -> (xo < 8)%nat -> (yo < 8)%nat ->
  exists coef, coef_source d coef /\
    Rabs (IZR (add_val d (Z.of_nat xo) (Z.of_nat yo) 0)
          - Rclamp 0 255 (ideal4 (fun r f => coef (Z.of_nat f) (Z.of_nat r)) xo yo / 4)) <= 0.632.
Proof.
  intros [->|(b & q & Hq & [Hruns Hdc] & Hd)] Hx Hy.
  - exists (fun _ _ => 0%Z). split; [left; split; reflexivity|]. cbn [add_val]. rewrite ideal4_zero.
    unfold Rclamp, Rmin, Rmax. replace (0 / 4) with 0 by (unfold Rdiv; ring).
    destruct (Rle_dec 0 0); [|lra]. destruct (Rle_dec 255 0); [lra|]. rewrite Rminus_0_r, Rabs_R0. lra.
  - destruct (decoded_block_accurate b q d xo yo Hq Hruns Hdc Hd Hx Hy) as (coef & Hp & A).
    exists coef. split; [right; exists b, q; repeat split; assumption|].
    set (v := idct_value_at (idct_values d) (Z.of_nat xo) (Z.of_nat yo)) in *.
    set (t := ideal4 (fun r f => coef (Z.of_nat f) (Z.of_nat r)) xo yo / 4) in *.
    assert (E : IZR (add_val d (Z.of_nat xo) (Z.of_nat yo) 0) = Rclamp 0 255 (IZR v)).
    { destruct d; cbn [add_val]; try (rewrite Z.add_0_r; fold v; apply (clamp_IZR 0 255 v)).
      (* DctZero: the value is zero *)
      subst v. cbn [idct_values idct_value_at]. unfold Rclamp, Rmin, Rmax.
      destruct (Rle_dec 0 0); [|lra]. destruct (Rle_dec 255 0); [lra|reflexivity]. }
    rewrite E.
    (* clipping to 0..255 after clipping to -256..255 *)
    assert (C : forall u, Rclamp 0 255 (Rclamp (-256) 255 u) = Rclamp 0 255 u).
    { intros u. unfold Rclamp, Rmin, Rmax.
      repeat match goal with |- context [Rle_dec ?a ?b] => lazymatch b with context [Rle_dec _ _] => fail | _ => destruct (Rle_dec a b) end end; lra. }
    rewrite <- (C t). 
    eapply Rle_trans; [apply Rclamp_lip|exact A].
Qed.

(* ---- the whole picture ---- *)
Local Open Scope Z_scope.
Lemma block_of_good levels bpl x y : Forall good_level levels -> good_level (block_of levels bpl x y).
Proof.
  intros H. unfold block_of. destruct (Nat.lt_ge_cases (Z.to_nat (x / 8 + y / 8 * bpl)) (length levels)) as [L|L].
  - rewrite Forall_forall in H. apply H. apply nth_In. exact L.
  - rewrite nth_overflow by exact L. left. reflexivity.
Qed.

Lemma good_zero_levels n : Forall good_level (repeatZ DctZero n).
Proof. unfold repeatZ. apply Forall_forall. intros d Hd. apply repeat_spec in Hd. left. exact Hd. Qed.

(* From the bits of an intra picture to the accuracy of every sample: under the hypotheses of `reconstruct_intra`
   (a parsed intra header, a body that is the encoding of macroblocks given by field values and fills the picture) the
   decoder succeeds and, at every luma and chroma position, the sample is within 0.632 of clip_0..255 of the exact inverse
   transform of a coefficient matrix `coef` that is either zero (nothing was coded there) or the zig-zag placement of the
   dequantised levels of a block of the body (coef_source) - the block stored for that position. *)
Theorem reconstruct_intra_accurate o last reference running0 r0 hdr fmt w h fms rest pos st' :
  let v1 := sorenson o && (match version hdr with Some 1 => true | _ => false end) in
  let running := (if has_plusptype hdr && has_opptype hdr then options hdr
                  else if has_plusptype hdr then Z.lor (Z.ldiff (options hdr) opptype_options) (Z.land running0 opptype_options)
                  else Z.lor (Z.ldiff (Z.ldiff (options hdr) opptype_options) mpptype_options) (Z.land running0 (Z.lor opptype_options mpptype_options))) in
  let mpl := (w + 15) / 16 in let mbh := (h + 15) / 16 in let levw := mpl * 16 in let levh := mbh * 16 in
  let np := mkDecoded hdr fmt (new_plane w h) (new_plane ((w + 1) / 2) ((h + 1) / 2)) (new_plane ((w + 1) / 2) ((h + 1) / 2)) ((w + 1) / 2) in
  let st0 := mkLoop (mkReader (enc_fulls true v1 fms ++ rest) pos) (quantizer hdr) [] []
                    (repeatZ DctZero (levw * levh / 64)) (repeatZ DctZero (levw * levh / 4 / 64)) (repeatZ DctZero (levw * levh / 4 / 64)) in
  decode_picture o (match last with Some p => Some (d_header p) | None => None end) r0 = Ok (Some hdr, mkReader (enc_fulls true v1 fms ++ rest) pos) ->
  picture_type hdr = IFrame -> format hdr = Some fmt -> into_width_and_height fmt = Some (w, h) -> 1 <= w -> 1 <= h ->
  simple_picture hdr running ->
  Forall (wf_full true v1) fms -> loop_ok fms 0 (mpl * mbh) ->
  pure_loop np running mpl levw fms st0 = Ok st' ->
  exists pic pos',
    reconstruct o last reference running0 r0 = Ok (pic, mkReader rest pos') /\
    (forall x y, 0 <= x < w -> 0 <= y < h ->
       exists coef, coef_source (block_of (l_luma st') (mpl * 2) x y) coef /\
         (Rabs (IZR (at_ (d_luma pic) x y)
                - Rclamp 0 255 (ideal4 (fun r f => coef (Z.of_nat f) (Z.of_nat r)) (Z.to_nat (x mod 8)) (Z.to_nat (y mod 8)) / 4)) <= 0.632)%R) /\
    (forall x y, 0 <= x < (w + 1) / 2 -> 0 <= y < (h + 1) / 2 ->
       (exists coef, coef_source (block_of (l_cb st') mpl x y) coef /\
         (Rabs (IZR (at_ (d_cb pic) x y)
                - Rclamp 0 255 (ideal4 (fun r f => coef (Z.of_nat f) (Z.of_nat r)) (Z.to_nat (x mod 8)) (Z.to_nat (y mod 8)) / 4)) <= 0.632)%R) /\
       (exists coef, coef_source (block_of (l_cr st') mpl x y) coef /\
         (Rabs (IZR (at_ (d_cr pic) x y)
                - Rclamp 0 255 (ideal4 (fun r f => coef (Z.of_nat f) (Z.of_nat r)) (Z.to_nat (x mod 8)) (Z.to_nat (y mod 8)) / 4)) <= 0.632)%R)).
Proof.
  intros v1 running mpl mbh levw levh np st0 Hhdr Hpt Hfmt Hwh Hw Hh Hsp Hwf Hok Hpure.
  destruct (reconstruct_intra o last reference running0 r0 hdr fmt w h fms rest pos st' Hhdr Hpt Hfmt Hwh Hw Hh Hsp Hwf Hok Hpure)
    as (pic & pos' & Hrec & _ & _ & _ & _ & Hl & Hc).
  assert (G : good_state st').
  { apply (pure_loop_good np running mpl levw true v1 fms st0 st' Hwf); [|exact Hpure].
    unfold good_state, st0. cbn [l_luma l_cb l_cr]. repeat split; apply good_zero_levels. }
  destruct G as (GL & GB & GR).
  assert (M : forall z, 0 <= z -> (Z.to_nat (z mod 8) < 8)%nat /\ Z.of_nat (Z.to_nat (z mod 8)) = z mod 8).
  { intros z Hz. pose proof (Z.mod_pos_bound z 8 ltac:(lia)). split; lia. }
  exists pic, pos'. split; [exact Hrec|]. split.
  - intros x y Hx Hy. rewrite (Hl x y Hx Hy).
    destruct (M x ltac:(lia)) as [Mx Ex]. destruct (M y ltac:(lia)) as [My Ey].
    destruct (sample_accurate _ _ _ (block_of_good (l_luma st') (mpl * 2) x y GL) Mx My) as (coef & Hs & A).
    rewrite Ex, Ey in A. exists coef. split; assumption.
  - intros x y Hx Hy. destruct (Hc x y Hx Hy) as [Eb Er]. rewrite Eb, Er.
    destruct (M x ltac:(lia)) as [Mx Ex]. destruct (M y ltac:(lia)) as [My Ey]. split.
    + destruct (sample_accurate _ _ _ (block_of_good (l_cb st') mpl x y GB) Mx My) as (coef & Hs & A).
      rewrite Ex, Ey in A. exists coef. split; assumption.
    + destruct (sample_accurate _ _ _ (block_of_good (l_cr st') mpl x y GR) Mx My) as (coef & Hs & A).
      rewrite Ex, Ey in A. exists coef. split; assumption.
Qed.

(* ---- predicted pictures: prediction plus residual ---- *)
Local Open Scope R_scope.
(* what the sample should be: the prediction where nothing was coded, otherwise prediction + exact residual (clipped to
   -256..255 as the decoder's residual is), clipped to 0..255 *)
Definition target (d : dct_block) (m : Z) (t : R) : R :=
  match d with DctZero => IZR m | _ => Rclamp 0 255 (Rclamp (-256) 255 t + IZR m) end.

Lemma sample_accurate_on d (xo yo : nat) (m : Z) : good_level d -> (xo < 8)%nat -> (yo < 8)%nat ->
  exists coef, coef_source d coef /\
    Rabs (IZR (add_val d (Z.of_nat xo) (Z.of_nat yo) m)
          - target d m (ideal4 (fun r f => coef (Z.of_nat f) (Z.of_nat r)) xo yo / 4)) <= 0.632.
Proof.
  intros [->|(b & q & Hq & [Hruns Hdc] & Hd)] Hx Hy.
  - exists (fun _ _ => 0%Z). split; [left; split; reflexivity|]. cbn [add_val target]. rewrite Rminus_diag_eq by reflexivity. rewrite Rabs_R0. lra.
  - destruct (decoded_block_accurate b q d xo yo Hq Hruns Hdc Hd Hx Hy) as (coef & Hp & A).
    exists coef. split; [right; exists b, q; repeat split; assumption|].
    set (v := idct_value_at (idct_values d) (Z.of_nat xo) (Z.of_nat yo)) in *.
    set (t := ideal4 (fun r f => coef (Z.of_nat f) (Z.of_nat r)) xo yo / 4) in *.
    assert (L : Rabs (Rclamp 0 255 (IZR v + IZR m) - Rclamp 0 255 (Rclamp (-256) 255 t + IZR m)) <= 0.632).
    { eapply Rle_trans; [apply Rclamp_lip|]. replace (IZR v + IZR m - (Rclamp (-256) 255 t + IZR m)) with (IZR v - Rclamp (-256) 255 t) by ring. exact A. }
    destruct d; cbn [add_val target]; try (fold v; rewrite (clamp_IZR 0 255 (v + m)), plus_IZR; exact L).
    rewrite Rminus_diag_eq by reflexivity. rewrite Rabs_R0. lra.
Qed.

Local Open Scope Z_scope.
Theorem reconstruct_predicted_accurate o last rp running0 r0 hdr fmt w h fms rest pos st' :
  let v1 := sorenson o && (match version hdr with Some 1 => true | _ => false end) in
  let running := (if has_plusptype hdr && has_opptype hdr then options hdr
                  else if has_plusptype hdr then Z.lor (Z.ldiff (options hdr) opptype_options) (Z.land running0 opptype_options)
                  else Z.lor (Z.ldiff (Z.ldiff (options hdr) opptype_options) mpptype_options) (Z.land running0 (Z.lor opptype_options mpptype_options))) in
  let mpl := (w + 15) / 16 in let mbh := (h + 15) / 16 in let levw := mpl * 16 in let levh := mbh * 16 in
  let np := mkDecoded hdr fmt (new_plane w h) (new_plane ((w + 1) / 2) ((h + 1) / 2)) (new_plane ((w + 1) / 2) ((h + 1) / 2)) ((w + 1) / 2) in
  let st0 := mkLoop (mkReader (enc_fulls false v1 fms ++ rest) pos) (quantizer hdr) [] []
                    (repeatZ DctZero (levw * levh / 64)) (repeatZ DctZero (levw * levh / 4 / 64)) (repeatZ DctZero (levw * levh / 4 / 64)) in
  let items := combine (l_types st') (l_pvs st') in
  decode_picture o (match last with Some p => Some (d_header p) | None => None end) r0 = Ok (Some hdr, mkReader (enc_fulls false v1 fms ++ rest) pos) ->
  (picture_type hdr = PFrame \/ picture_type hdr = DisposablePFrame) -> format hdr = Some fmt -> into_width_and_height fmt = Some (w, h) -> 1 <= w -> 1 <= h ->
  simple_picture hdr running ->
  into_width_and_height (d_format rp) = Some (w, h) -> plane_ok w h (d_luma rp) ->
  plane_ok ((w + 1) / 2) ((h + 1) / 2) (d_cb rp) -> plane_ok ((w + 1) / 2) ((h + 1) / 2) (d_cr rp) -> d_chroma_w rp = (w + 1) / 2 ->
  Forall (wf_full false v1) fms -> loop_ok fms 0 (mpl * mbh) ->
  pure_loop np running mpl levw fms st0 = Ok st' ->
  exists pic pos',
    reconstruct o last (Some rp) running0 r0 = Ok (pic, mkReader rest pos') /\
    (forall x y, 0 <= x < w -> 0 <= y < h ->
       let d := block_of (l_luma st') (mpl * 2) x y in
       exists coef, coef_source d coef /\
         (Rabs (IZR (at_ (d_luma pic) x y)
                - target d (GatherPicture.luma_after w h mpl rp items 0 (new_plane w h) x y)
                    (ideal4 (fun r f => coef (Z.of_nat f) (Z.of_nat r)) (Z.to_nat (x mod 8)) (Z.to_nat (y mod 8)) / 4)) <= 0.632)%R) /\
    (forall x y, 0 <= x < (w + 1) / 2 -> 0 <= y < (h + 1) / 2 ->
       (let d := block_of (l_cb st') mpl x y in
        exists coef, coef_source d coef /\
         (Rabs (IZR (at_ (d_cb pic) x y)
                - target d (GatherPicture.chroma_after w h mpl (d_cb rp) items 0 (new_plane ((w + 1) / 2) ((h + 1) / 2)) x y)
                    (ideal4 (fun r f => coef (Z.of_nat f) (Z.of_nat r)) (Z.to_nat (x mod 8)) (Z.to_nat (y mod 8)) / 4)) <= 0.632)%R) /\
       (let d := block_of (l_cr st') mpl x y in
        exists coef, coef_source d coef /\
         (Rabs (IZR (at_ (d_cr pic) x y)
                - target d (GatherPicture.chroma_after w h mpl (d_cr rp) items 0 (new_plane ((w + 1) / 2) ((h + 1) / 2)) x y)
                    (ideal4 (fun r f => coef (Z.of_nat f) (Z.of_nat r)) (Z.to_nat (x mod 8)) (Z.to_nat (y mod 8)) / 4)) <= 0.632)%R)).
Proof.
  intros v1 running mpl mbh levw levh np st0 items Hhdr Hpt Hfmt Hwh Hw Hh Hsp Hrf Hrl Hrb Hrr Hrc Hwf Hok Hpure.
  destruct (PredictedPicture.reconstruct_predicted o last rp running0 r0 hdr fmt w h fms rest pos st' Hhdr Hpt Hfmt Hwh Hw Hh Hsp Hrf Hrl Hrb Hrr Hrc Hwf Hok Hpure)
    as (pic & pos' & Hrec & _ & _ & _ & _ & Hl & Hc).
  assert (G : good_state st').
  { apply (pure_loop_good np running mpl levw false v1 fms st0 st' Hwf); [|exact Hpure].
    unfold good_state, st0. cbn [l_luma l_cb l_cr]. repeat split; apply good_zero_levels. }
  destruct G as (GL & GB & GR).
  assert (M : forall z, 0 <= z -> (Z.to_nat (z mod 8) < 8)%nat /\ Z.of_nat (Z.to_nat (z mod 8)) = z mod 8).
  { intros z Hz. pose proof (Z.mod_pos_bound z 8 ltac:(lia)). split; lia. }
  exists pic, pos'. split; [exact Hrec|]. split.
  - intros x y Hx Hy d. rewrite (Hl x y Hx Hy). fold items.
    destruct (M x ltac:(lia)) as [Mx Ex]. destruct (M y ltac:(lia)) as [My Ey].
    destruct (sample_accurate_on d _ _ (GatherPicture.luma_after w h mpl rp items 0 (new_plane w h) x y) (block_of_good (l_luma st') (mpl * 2) x y GL) Mx My) as (coef & Hs & A).
    rewrite Ex, Ey in A. exists coef. split; assumption.
  - intros x y Hx Hy. destruct (Hc x y Hx Hy) as [Eb Er]. fold items in Eb, Er. rewrite Eb, Er.
    destruct (M x ltac:(lia)) as [Mx Ex]. destruct (M y ltac:(lia)) as [My Ey]. split.
    + intros d. destruct (sample_accurate_on d _ _ (GatherPicture.chroma_after w h mpl (d_cb rp) items 0 (new_plane ((w + 1) / 2) ((h + 1) / 2)) x y) (block_of_good (l_cb st') mpl x y GB) Mx My) as (coef & Hs & A).
      rewrite Ex, Ey in A. exists coef. split; assumption.
    + intros d. destruct (sample_accurate_on d _ _ (GatherPicture.chroma_after w h mpl (d_cr rp) items 0 (new_plane ((w + 1) / 2) ((h + 1) / 2)) x y) (block_of_good (l_cr st') mpl x y GR) Mx My) as (coef & Hs & A).
      rewrite Ex, Ey in A. exists coef. split; assumption.
Qed.
