(* C03: pictures whose data ends early.  When the data ends (fewer than eight zero padding bits are left) before the
   picture holds all its macroblocks, the macroblock loop stops there with exactly the state the macroblocks present produce;
   the decoder then treats every missing macroblock as a predicted macroblock with the zero vector and no residual. *)
From H263V Require Import base.Prelude model.Types model.Tables model.Reader model.Header model.Syntax model.F32 model.Recon model.Decoder
  spec.SpecHeader spec.SpecTables
  proofs.ReaderLemmas proofs.HeaderLemmas proofs.HeaderRoundTrip proofs.Frame proofs.VlcTables proofs.BlockRoundTrip proofs.MacroblockRoundTrip proofs.PictureRoundTrip
  spec.SpecRecon proofs.PlaneShape proofs.MvSpec proofs.GatherSpec proofs.FillLemmas proofs.IdctPlacement proofs.IntraPicture proofs.GatherPicture proofs.PredictedPicture.
Require Import ZifyBool ZifyNat.

(* the data ends: fewer than eight zero bits are left *)
Definition short_pad (pad : list bool) : Prop := exists n, (n < 8)%nat /\ pad = repeat false n.

Lemma macroblock_at_end_of_data pic running pad pos :
  simple_picture pic running -> short_pad pad ->
  decode_macroblock pic running (mkReader pad pos) = Err EEof.
Proof.
  intros (Hpt & _ & _) (n & Hn & ->).
  assert (Hc : (n = 0 \/ n = 1 \/ n = 2 \/ n = 3 \/ n = 4 \/ n = 5 \/ n = 6 \/ n = 7)%nat) by lia.
  unfold decode_macroblock.
  destruct Hpt as [-> | [-> | ->]]; cbn [is_iframe];
  destruct Hc as [-> | [-> | [-> | [-> | [-> | [-> | [-> | ->]]]]]]]; vm_compute; reflexivity.
Qed.

(* fewer macroblocks than the picture holds *)
Fixpoint loop_short (fms : list full_mb) (have total : Z) : Prop :=
  match fms with
  | [] => have < total
  | FStuffing :: r => have < total /\ loop_short r have total
  | _ :: r => have < total /\ loop_short r (have + 1) total
  end.

Theorem mb_loop_early o np running mpl total levw pad :
  let ipic := is_iframe (picture_type (d_header np)) in
  let v1 := sorenson o && (match version (d_header np) with Some 1 => true | _ => false end) in
  simple_picture (d_header np) running -> short_pad pad ->
  forall fms fuel st pos, Forall (wf_full ipic v1) fms -> loop_short fms (zlength (l_types st)) total -> (length fms < fuel)%nat ->
  l_reader st = mkReader (enc_fulls ipic v1 fms ++ pad) pos ->
  exists pos', mb_loop fuel o np running mpl total levw st = rmap (pure_loop np running mpl levw fms st) (mkReader pad pos').
Proof.
  intros ipic v1 Hsp Hpad. induction fms as [|f fms IH]; intros fuel st pos Hwf Hok Hf Hr; (destruct fuel as [|fu]; [cbn in Hf; lia|]); cbn [mb_loop pure_loop loop_short] in *.
  - (* the data ends before the picture is complete: end of data in the next macroblock header ends the picture *)
    destruct (total <=? zlength (l_types st)) eqn:E; [lia|]. exists pos. cbn [enc_fulls flat_map app] in Hr. rewrite Hr.
    rewrite (macroblock_at_end_of_data (d_header np) running pad pos Hsp Hpad).
    cbn [is_macroblock_error is_eof andb rmap]. f_equal. destruct st as [r0 q pv ty lu cb cr]. cbn [l_reader] in Hr. subst. reflexivity.
  - inversion Hwf as [|? ? Hw Hwf']; subst.
    unfold enc_fulls in Hr. cbn [flat_map] in Hr. rewrite <- app_assoc in Hr. fold (enc_fulls ipic v1 fms) in Hr.
    destruct f as [| |m b0 b1 b2 b3 b4 b5]; cbn [enc_full] in Hr.
    + destruct Hok as [Hlt Hok]. destruct (total <=? zlength (l_types st)) eqn:E; [lia|].
      destruct Hsp as (Hpt & Hmq & Hu).
      destruct (stuffing_roundtrip (d_header np) running (enc_fulls ipic v1 fms ++ pad) pos Hpt) as [p1 E1].
      rewrite Hr. fold ipic in E1. rewrite E1.
      destruct (IH fu (mkLoop (mkReader (enc_fulls ipic v1 fms ++ pad) p1) (l_quant st) (l_pvs st) (l_types st) (l_luma st) (l_cb st) (l_cr st))
                  p1 Hwf' Hok ltac:(cbn [length] in Hf; lia) eq_refl) as [p2 E2].
      exists p2. rewrite E2. change (mkLoop (mkReader (enc_fulls ipic v1 fms ++ pad) p1) (l_quant st) (l_pvs st) (l_types st) (l_luma st) (l_cb st) (l_cr st))
        with (with_reader st (mkReader (enc_fulls ipic v1 fms ++ pad) p1)).
      rewrite pure_loop_reader. destruct (pure_loop np running mpl levw fms st); reflexivity.
    + destruct Hok as [Hlt Hok]. destruct (total <=? zlength (l_types st)) eqn:E; [lia|].
      cbn [wf_full] in Hw. cbn [app] in Hr. rewrite Hr.
      rewrite (uncoded_roundtrip (d_header np) running _ pos Hw).
      assert (Hif : is_iframe (picture_type (d_header np)) = false) by exact Hw. rewrite Hif.
      destruct (IH fu (mkLoop (mkReader (enc_fulls ipic v1 fms ++ pad) (pos + 1)) (l_quant st) (l_pvs st ++ [mv4_zero]) (l_types st ++ [Inter]) (l_luma st) (l_cb st) (l_cr st))
                  (pos + 1) Hwf') as [p2 E2].
      { cbn [l_types]. rewrite zlength_snoc. exact Hok. }
      { clear -Hf. cbn [length] in Hf. lia. }
      { reflexivity. }
      exists p2. rewrite E2.
      change (mkLoop (mkReader (enc_fulls ipic v1 fms ++ pad) (pos + 1)) (l_quant st) (l_pvs st ++ [mv4_zero]) (l_types st ++ [Inter]) (l_luma st) (l_cb st) (l_cr st))
        with (with_reader (push st mv4_zero Inter) (mkReader (enc_fulls ipic v1 fms ++ pad) (pos + 1))).
      rewrite pure_loop_reader. destruct (pure_loop np running mpl levw fms (push st mv4_zero Inter)); reflexivity.
    + destruct Hok as [Hlt Hok]. destruct (total <=? zlength (l_types st)) eqn:E; [lia|].
      cbn [wf_full] in Hw. destruct Hw as (Hwc & W0 & W1 & W2 & W3 & W4 & W5 & P0 & P1 & P2 & P3 & P4 & P5).
      rewrite <- !app_assoc in Hr.
      destruct (coded_macroblock_roundtrip (d_header np) running m
                  (enc_block v1 b0 ++ enc_block v1 b1 ++ enc_block v1 b2 ++ enc_block v1 b3 ++ enc_block v1 b4 ++ enc_block v1 b5 ++ enc_fulls ipic v1 fms ++ pad)
                  pos Hsp Hwc) as [p1 E1].
      rewrite Hr. fold ipic in E1. rewrite E1. unfold mb_of_spec.
      destruct (decode_coded_roundtrip o np running mpl levw m b0 b1 b2 b3 b4 b5
                  (mkLoop (mkReader (enc_block v1 b0 ++ enc_block v1 b1 ++ enc_block v1 b2 ++ enc_block v1 b3 ++ enc_block v1 b4 ++ enc_block v1 b5 ++ enc_fulls ipic v1 fms ++ pad) p1)
                          (l_quant st) (l_pvs st) (l_types st) (l_luma st) (l_cb st) (l_cr st))
                  (enc_fulls ipic v1 fms ++ pad) p1 W0 W1 W2 W3 W4 W5 P0 P1 P2 P3 P4 P5 eq_refl) as [p2 E2].
      cbv zeta in E2. fold v1 in E2. rewrite E2. clear E2.
      change (mkLoop (mkReader (enc_block v1 b0 ++ enc_block v1 b1 ++ enc_block v1 b2 ++ enc_block v1 b3 ++ enc_block v1 b4 ++ enc_block v1 b5 ++ enc_fulls ipic v1 fms ++ pad) p1)
                     (l_quant st) (l_pvs st) (l_types st) (l_luma st) (l_cb st) (l_cr st))
        with (with_reader st (mkReader (enc_block v1 b0 ++ enc_block v1 b1 ++ enc_block v1 b2 ++ enc_block v1 b3 ++ enc_block v1 b4 ++ enc_block v1 b5 ++ enc_fulls ipic v1 fms ++ pad) p1)).
      rewrite coded_pure_reader. unfold coded_of.
      destruct (coded_pure np running mpl levw (s_type m) _ _ _ (blk b0) (blk b1) (blk b2) (blk b3) (blk b4) (blk b5) st) as [[st' mvs]| | |] eqn:Ecp;
        cbn [res_with bind rmap]; eauto.
      assert (Hty : l_types st' = l_types st).
      { unfold coded_pure in Ecp. repeat (match type of Ecp with bind ?X _ = Ok _ => destruct X as [?| | |]; cbn [bind] in Ecp; try discriminate end; cbv zeta in Ecp).
        inversion Ecp; subst. reflexivity. }
      destruct (IH fu (mkLoop (mkReader (enc_fulls ipic v1 fms ++ pad) p2) (l_quant st') (l_pvs st' ++ [mvs]) (l_types st' ++ [s_type m]) (l_luma st') (l_cb st') (l_cr st'))
                  p2 Hwf') as [p3 E3].
      { cbn [l_types]. rewrite Hty, zlength_snoc. exact Hok. }
      { clear -Hf. cbn [length] in Hf. lia. }
      { reflexivity. }
      exists p3. cbn [with_reader l_reader l_quant l_pvs l_types l_luma l_cb l_cr]. rewrite E3.
      change (mkLoop (mkReader (enc_fulls ipic v1 fms ++ pad) p2) (l_quant st') (l_pvs st' ++ [mvs]) (l_types st' ++ [s_type m]) (l_luma st') (l_cb st') (l_cr st'))
        with (with_reader (push st' mvs (s_type m)) (mkReader (enc_fulls ipic v1 fms ++ pad) p2)).
      rewrite pure_loop_reader. destruct (pure_loop np running mpl levw fms (push st' mvs (s_type m))); reflexivity.
Qed.

Lemma pure_loop_levels np running mpl levw : forall fms st st',
  pure_loop np running mpl levw fms st = Ok st' -> zlength (l_pvs st) = zlength (l_types st) ->
  zlength (l_types st) <= zlength (l_types st') /\ zlength (l_pvs st') = zlength (l_types st') /\
  zlength (l_luma st') = zlength (l_luma st) /\ zlength (l_cb st') = zlength (l_cb st) /\ zlength (l_cr st') = zlength (l_cr st).
Proof.
  induction fms as [|f fms IH]; intros st st' H Hpv; cbn [pure_loop] in *.
  - inversion H; subst. repeat split; lia.
  - destruct f as [| |m b0 b1 b2 b3 b4 b5].
    + eapply IH; eauto.
    + destruct (is_iframe _); [discriminate|].
      destruct (IH (push st mv4_zero Inter) st') as (R1 & R2 & R3 & R4 & R5); try assumption.
      * cbn [push l_pvs l_types]. rewrite !zlength_snoc. lia.
      * cbn [push l_types l_luma l_cb l_cr] in *. rewrite zlength_snoc in R1. repeat split; try assumption; lia.
    + unfold coded_of in H. bind_inv H as [st1 mvs] Ec.
      destruct (coded_pure_shape _ _ _ _ _ _ _ _ _ _ _ _ _ _ _ _ _ Ec) as (T1 & T2 & T3 & T4 & T5).
      destruct (IH (push st1 mvs (s_type m)) st') as (R1 & R2 & R3 & R4 & R5); try assumption.
      * cbn [push l_pvs l_types]. rewrite T1, T2, !zlength_snoc. lia.
      * cbn [push l_types l_luma l_cb l_cr] in *. rewrite T1, zlength_snoc in R1. repeat split; try assumption; lia.
Qed.

Ltac Zify.zify_post_hook ::= Z.div_mod_to_equations.

Theorem reconstruct_predicted_early o last rp running0 r0 hdr fmt w h fms pad pos st' :
  let v1 := sorenson o && (match version hdr with Some 1 => true | _ => false end) in
  let running := (if has_plusptype hdr && has_opptype hdr then options hdr
                  else if has_plusptype hdr then Z.lor (Z.ldiff (options hdr) opptype_options) (Z.land running0 opptype_options)
                  else Z.lor (Z.ldiff (Z.ldiff (options hdr) opptype_options) mpptype_options) (Z.land running0 (Z.lor opptype_options mpptype_options))) in
  let mpl := (w + 15) / 16 in let mbh := (h + 15) / 16 in let levw := mpl * 16 in let levh := mbh * 16 in
  let np := mkDecoded hdr fmt (new_plane w h) (new_plane ((w + 1) / 2) ((h + 1) / 2)) (new_plane ((w + 1) / 2) ((h + 1) / 2)) ((w + 1) / 2) in
  let st0 := mkLoop (mkReader (enc_fulls false v1 fms ++ pad) pos) (quantizer hdr) [] []
                    (repeatZ DctZero (levw * levh / 64)) (repeatZ DctZero (levw * levh / 4 / 64)) (repeatZ DctZero (levw * levh / 4 / 64)) in
  let items := combine (pad_to (l_types st') (mpl * mbh) Inter) (pad_to (l_pvs st') (mpl * mbh) mv4_zero) in
  decode_picture o (match last with Some p => Some (d_header p) | None => None end) r0 = Ok (Some hdr, mkReader (enc_fulls false v1 fms ++ pad) pos) ->
  (picture_type hdr = PFrame \/ picture_type hdr = DisposablePFrame) -> format hdr = Some fmt -> into_width_and_height fmt = Some (w, h) -> 1 <= w -> 1 <= h ->
  simple_picture hdr running ->
  (* the reference picture: same size *)
  into_width_and_height (d_format rp) = Some (w, h) -> plane_ok w h (d_luma rp) ->
  plane_ok ((w + 1) / 2) ((h + 1) / 2) (d_cb rp) -> plane_ok ((w + 1) / 2) ((h + 1) / 2) (d_cr rp) -> d_chroma_w rp = (w + 1) / 2 ->
  Forall (wf_full false v1) fms -> loop_short fms 0 (mpl * mbh) -> short_pad pad ->
  pure_loop np running mpl levw fms st0 = Ok st' ->
  exists pic pos',
    reconstruct o last (Some rp) running0 r0 = Ok (pic, mkReader pad pos') /\
    d_header pic = hdr /\ plane_ok w h (d_luma pic) /\ plane_ok ((w + 1) / 2) ((h + 1) / 2) (d_cb pic) /\ plane_ok ((w + 1) / 2) ((h + 1) / 2) (d_cr pic) /\
    (forall x y, 0 <= x < w -> 0 <= y < h ->
       at_ (d_luma pic) x y = add_val (block_of (l_luma st') (mpl * 2) x y) (x mod 8) (y mod 8)
                                (luma_after w h mpl rp items 0 (new_plane w h) x y)) /\
    (forall x y, 0 <= x < (w + 1) / 2 -> 0 <= y < (h + 1) / 2 ->
       at_ (d_cb pic) x y = add_val (block_of (l_cb st') mpl x y) (x mod 8) (y mod 8)
                              (chroma_after w h mpl (d_cb rp) items 0 (new_plane ((w + 1) / 2) ((h + 1) / 2)) x y) /\
       at_ (d_cr pic) x y = add_val (block_of (l_cr st') mpl x y) (x mod 8) (y mod 8)
                              (chroma_after w h mpl (d_cr rp) items 0 (new_plane ((w + 1) / 2) ((h + 1) / 2)) x y)).
Proof.
  intros v1 running mpl mbh levw levh np st0 items Hhdr Hpt Hfmt Hwh Hw Hh Hsp Hrf Hrl Hrb Hrr Hrc Hwf Hok Hpad Hpure.
  unfold reconstruct. rewrite Hhdr. cbn [bind]. fold running. rewrite Hfmt. cbn [bind]. rewrite Hwh.
  destruct ((w <=? 0) || (h <=? 0)) eqn:E0; [lia|]. cbv zeta. fold mpl mbh levw levh.
  unfold new_decoded. rewrite Hwh. cbv zeta. fold np. fold st0.
  assert (Hif : is_iframe (picture_type (d_header np)) = false) by (cbn [d_header np]; destruct Hpt as [-> | ->]; reflexivity).
  destruct (level_counts w h Hw Hh) as (N1 & N2 & M1 & M2 & M3 & M4). cbv zeta in N1, N2, M1, M2, M3, M4. fold mpl mbh in N1, N2, M1, M2, M3, M4. fold levw levh in N1, N2.
  destruct (mb_loop_early o np running mpl (mpl * mbh) levw pad Hsp Hpad fms (S (length (rbits (mkReader (enc_fulls false v1 fms ++ pad) pos)))) st0 pos) as [p1 El].
  { rewrite Hif. exact Hwf. }
  { exact Hok. }
  { cbn [rbits]. rewrite app_length. pose proof (enc_fulls_length false v1 fms Hwf). lia. }
  { rewrite Hif. reflexivity. }
  rewrite El, Hpure. cbn [rmap bind with_reader l_pvs l_types l_luma l_cb l_cr l_reader].
  destruct (pure_loop_levels np running mpl levw fms st0 st' Hpure eq_refl) as (T1 & T2 & L1 & L2 & L3).
  cbn [st0 l_luma l_cb l_cr] in L1, L2, L3. rewrite zlength_repeatZ in L1, L2, L3 by nia. rewrite N1 in L1. rewrite N2 in L2, L3.
  fold items.
  destruct (gather_go_spec w h mpl rp Hw Hh M1 Hrf Hrl Hrb Hrr Hrc items 0 np ltac:(lia) Hwh (new_plane_ok _ _) (new_plane_ok _ _) (new_plane_ok _ _))
    as (np2 & Eg & F1 & F2 & F3 & P1 & P2 & P3 & GL & GC).
  rewrite Eg. cbn [bind].
  destruct (idct_channel_spec w h (l_luma st') (d_luma np2) (mpl * 2) (mbh * 2) P1 Hw Hh ltac:(lia) ltac:(lia) L1) as (luma & E1 & O1 & A1).
  rewrite E1. cbn [bind].
  assert (Hcw : d_chroma_w np2 = (w + 1) / 2) by (rewrite F3; reflexivity). rewrite Hcw.
  destruct (idct_channel_spec ((w + 1) / 2) ((h + 1) / 2) (l_cb st') (d_cb np2) mpl mbh P2 ltac:(lia) ltac:(lia) M1 ltac:(lia) L2) as (cb & E2 & O2 & A2).
  rewrite E2. cbn [bind].
  destruct (idct_channel_spec ((w + 1) / 2) ((h + 1) / 2) (l_cr st') (d_cr np2) mpl mbh P3 ltac:(lia) ltac:(lia) M1 ltac:(lia) L3) as (cr & E3 & O3 & A3).
  rewrite E3. cbn [bind].
  eexists. exists p1. split; [reflexivity|]. cbn [d_header d_luma d_cb d_cr].
  split; [rewrite F1; reflexivity|]. split; [exact O1|]. split; [exact O2|]. split; [exact O3|]. split.
  - intros x y Hx Hy. rewrite A1 by assumption. rewrite GL by assumption.
    destruct ((x / 8 <? mpl * 2) && (y / 8 <? mbh * 2)) eqn:E; [reflexivity|exfalso; clear - E Hx Hy M3 M4; lia].
  - intros x y Hx Hy. rewrite A2, A3 by assumption. destruct (GC x y Hx Hy) as [G1 G2]. rewrite G1, G2.
    destruct ((x / 8 <? mpl) && (y / 8 <? mbh)) eqn:E; [split; reflexivity|exfalso; clear - E Hx Hy M3 M4; lia].
Qed.

Lemma set_nth_other {A} (d : A) : forall (l : list A) n a l' j, set_nth l n a = Some l' -> j <> n -> nth j l' d = nth j l d.
Proof.
  induction l as [|x l IH]; intros n a l' j H Hj; cbn [set_nth] in H; [discriminate|].
  destruct n as [|n].
  - inversion H; subst. destruct j; [congruence|reflexivity].
  - destruct (set_nth l n a) as [t|] eqn:E; [|discriminate]. inversion H; subst.
    destruct j; [reflexivity|]. cbn [nth]. eapply IH; eauto.
Qed.

Lemma inverse_rle_other b levels px py bpl q levels' j :
  inverse_rle b levels px py bpl q = Ok levels' -> 0 <= j -> j <> px / 8 + py / 8 * bpl ->
  nth (Z.to_nat j) levels' DctZero = nth (Z.to_nat j) levels DctZero.
Proof.
  unfold inverse_rle. cbv zeta. intros H Hj Hne.
  destruct (get levels (px / 8 + py / 8 * bpl)) as [g| | |] eqn:Eg; cbn [bind] in H; try discriminate.
  destruct (inverse_rle_block b q) as [d|]; [|inversion H; subst; reflexivity].
  unfold set in H. destruct (px / 8 + py / 8 * bpl <? 0) eqn:E0; [discriminate|].
  destruct (set_nth levels (Z.to_nat (px / 8 + py / 8 * bpl)) d) as [l2|] eqn:Es; [|discriminate].
  inversion H; subst. eapply set_nth_other; eauto. lia.
Qed.

(* the macroblock that luma block j of a picture mpl macroblocks wide belongs to *)
Definition luma_mb (mpl j : Z) : Z := (j mod (2 * mpl)) / 2 + (j / (2 * mpl)) / 2 * mpl.

Lemma luma_mb_of_block mpl col line a b :
  1 <= mpl -> 0 <= col < mpl -> 0 <= line -> 0 <= a <= 1 -> 0 <= b <= 1 ->
  luma_mb mpl ((2 * col + a) + (2 * line + b) * (2 * mpl)) = col + line * mpl.
Proof.
  intros Hm Hc Hl Ha Hb. unfold luma_mb.
  rewrite Z.mod_add by lia. rewrite Z.div_add by lia.
  rewrite (Z.mod_small (2 * col + a) (2 * mpl)) by lia. rewrite (Z.div_small (2 * col + a) (2 * mpl)) by lia.
  replace ((2 * col + a) / 2) with col by lia. replace ((0 + (2 * line + b)) / 2) with line by lia. reflexivity.
Qed.

Lemma coded_pure_untouched np running mpl levw t dq mvd addl b0 b1 b2 b3 b4 b5 st st' mvs j :
  1 <= mpl -> levw = mpl * 16 ->
  coded_pure np running mpl levw t dq mvd addl b0 b1 b2 b3 b4 b5 st = Ok (st', mvs) -> 0 <= j ->
  (luma_mb mpl j <> zlength (l_types st) -> nth (Z.to_nat j) (l_luma st') DctZero = nth (Z.to_nat j) (l_luma st) DctZero) /\
  (j <> zlength (l_types st) ->
     nth (Z.to_nat j) (l_cb st') DctZero = nth (Z.to_nat j) (l_cb st) DctZero /\
     nth (Z.to_nat j) (l_cr st') DctZero = nth (Z.to_nat j) (l_cr st) DctZero).
Proof.
  intros Hm Hlev H Hj. unfold coded_pure in H.
  set (n := zlength (l_types st)) in *.
  assert (Hn : 0 <= n) by (unfold n, zlength; lia).
  unfold rem_chk, div_chk in H. destruct (mpl =? 0) eqn:E0; [lia|]. cbn [bind] in H. cbv zeta in H.
  set (col := Z.rem n mpl) in *. set (line := Z.quot n mpl) in *.
  assert (Hcol : col = n mod mpl) by (unfold col; apply Z.rem_mod_nonneg; lia).
  assert (Hline : line = n / mpl) by (unfold line; apply Z.quot_div_nonneg; lia).
  assert (Hcl : 0 <= col < mpl /\ 0 <= line /\ n = col + line * mpl).
  { rewrite Hcol, Hline. pose proof (Z.div_mod n mpl ltac:(lia)) as D. pose proof (Z.mod_pos_bound n mpl ltac:(lia)) as M.
    assert (0 <= n / mpl) by (apply Z.div_pos; lia). clear - D M H0. nia. }
  destruct Hcl as (Hc & Hl & Hnn).
  bind_inv H as mv0 Em.
  bind_inv H as l0 L0. bind_inv H as l1 L1. bind_inv H as l2 L2. bind_inv H as l3 L3. bind_inv H as l4 L4. bind_inv H as l5 L5.
  inversion H; subst st' mvs. cbn [l_luma l_cb l_cr].
  assert (Hlbl : levw / 8 = 2 * mpl) by (subst levw; lia).
  rewrite Hlbl in *.
  assert (D0 : col * 16 / 8 = 2 * col + 0) by lia. assert (D1 : (col * 16 + 8) / 8 = 2 * col + 1) by lia.
  assert (D2 : line * 16 / 8 = 2 * line + 0) by lia. assert (D3 : (line * 16 + 8) / 8 = 2 * line + 1) by lia.
  assert (D4 : col * 16 / 2 / 8 = col) by lia. assert (D5 : line * 16 / 2 / 8 = line) by lia.
  split.
  - intros Hne.
    rewrite (inverse_rle_other _ _ _ _ _ _ _ j L3 Hj)
      by (rewrite D1, D3; intros ->; apply Hne; rewrite luma_mb_of_block by lia; lia).
    rewrite (inverse_rle_other _ _ _ _ _ _ _ j L2 Hj)
      by (rewrite D0, D3; intros ->; apply Hne; rewrite luma_mb_of_block by lia; lia).
    rewrite (inverse_rle_other _ _ _ _ _ _ _ j L1 Hj)
      by (rewrite D1, D2; intros ->; apply Hne; rewrite luma_mb_of_block by lia; lia).
    rewrite (inverse_rle_other _ _ _ _ _ _ _ j L0 Hj)
      by (rewrite D0, D2; intros ->; apply Hne; rewrite luma_mb_of_block by lia; lia).
    reflexivity.
  - intros Hne.
    rewrite (inverse_rle_other _ _ _ _ _ _ _ j L4 Hj) by (rewrite D4, D5; lia).
    rewrite (inverse_rle_other _ _ _ _ _ _ _ j L5 Hj) by (rewrite D4, D5; lia).
    split; reflexivity.
Qed.

(* blocks of macroblocks the loop has not reached keep their initial content *)
Lemma pure_loop_untouched np running mpl levw : 1 <= mpl -> levw = mpl * 16 -> forall fms st st',
  pure_loop np running mpl levw fms st = Ok st' -> zlength (l_pvs st) = zlength (l_types st) -> forall j, 0 <= j ->
  (zlength (l_types st') <= luma_mb mpl j -> nth (Z.to_nat j) (l_luma st') DctZero = nth (Z.to_nat j) (l_luma st) DctZero) /\
  (zlength (l_types st') <= j ->
     nth (Z.to_nat j) (l_cb st') DctZero = nth (Z.to_nat j) (l_cb st) DctZero /\
     nth (Z.to_nat j) (l_cr st') DctZero = nth (Z.to_nat j) (l_cr st) DctZero).
Proof.
  intros Hm Hlev. induction fms as [|f fms IH]; intros st st' H Hpv j Hj; cbn [pure_loop] in H.
  - inversion H; subst. split; intros; [|split]; reflexivity.
  - destruct f as [| |m b0 b1 b2 b3 b4 b5].
    + eapply IH; eauto.
    + destruct (is_iframe _); [discriminate|].
      apply (IH (push st mv4_zero Inter) st' H); [cbn [push l_pvs l_types]; rewrite !zlength_snoc; lia | exact Hj].
    + unfold coded_of in H. bind_inv H as [st1 mvs] Ec.
      destruct (coded_pure_shape _ _ _ _ _ _ _ _ _ _ _ _ _ _ _ _ _ Ec) as (T1 & T2 & T3 & T4 & T5).
      assert (Hpv1 : zlength (l_pvs (push st1 mvs (s_type m))) = zlength (l_types (push st1 mvs (s_type m))))
        by (cbn [push l_pvs l_types]; rewrite T1, T2, !zlength_snoc; lia).
      destruct (pure_loop_levels np running mpl levw fms _ st' H Hpv1) as (R1 & _).
      cbn [push l_types] in R1. rewrite T1, zlength_snoc in R1.
      destruct (IH (push st1 mvs (s_type m)) st' H Hpv1 j Hj) as [IL IC]. cbn [push l_luma l_cb l_cr] in IL, IC.
      destruct (coded_pure_untouched _ _ _ _ _ _ _ _ _ _ _ _ _ _ _ _ _ j Hm Hlev Ec Hj) as [CL CC].
      split.
      * intros Hge. rewrite IL by exact Hge. apply CL. lia.
      * intros Hge. destruct (IC Hge) as [I1 I2]. destruct (CC ltac:(lia)) as [C1 C2]. rewrite I1, I2, C1, C2. split; reflexivity.
Qed.

Lemma combine_repeat {A B} (a : A) (b : B) n : combine (repeat a n) (repeat b n) = repeat (a, b) n.
Proof. induction n; cbn; [reflexivity|]. rewrite IHn. reflexivity. Qed.

Lemma combine_app_same {A B} (l1 : list A) (l2 : list B) r1 r2 :
  length l1 = length l2 -> combine (l1 ++ r1) (l2 ++ r2) = combine l1 l2 ++ combine r1 r2.
Proof.
  revert l2. induction l1 as [|x l1 IH]; intros [|y l2] H; cbn in *; try discriminate; [reflexivity|].
  rewrite IH by lia. reflexivity.
Qed.

Lemma nth_repeat_in {A} (a d : A) : forall m n, (n < m)%nat -> nth n (repeat a m) d = a.
Proof. induction m; intros n H; [lia|]. destruct n; cbn; [reflexivity|]. apply IHm. lia. Qed.

(* the padded macroblock list: every position from k on is a predicted macroblock with the zero vector *)
Lemma padded_item (types : list mbtype) (pvs : list mv4) total i :
  zlength pvs = zlength types -> zlength types <= i < total ->
  nth (Z.to_nat i) (combine (pad_to types total Inter) (pad_to pvs total mv4_zero)) (Intra, mv4_zero) = (Inter, mv4_zero) /\
  zlength (combine (pad_to types total Inter) (pad_to pvs total mv4_zero)) = total.
Proof.
  intros Hl Hi. unfold pad_to, repeatZ, zlength in *. rewrite Hl.
  rewrite combine_app_same by lia. rewrite combine_repeat. split.
  - rewrite app_nth2 by (rewrite combine_length; lia). rewrite combine_length.
    apply nth_repeat_in. lia.
  - rewrite app_length, combine_length, repeat_length. lia.
Qed.

Lemma nth_repeatZ_zero n j : nth j (repeatZ DctZero n) DctZero = DctZero.
Proof. unfold repeatZ. apply nth_repeat. Qed.

(* THE EARLY END OF A PREDICTED PICTURE: the data ends (fewer than eight zero padding bits are left) after k of the picture's
   macroblocks.  Decoding succeeds; the macroblocks present are reconstructed as in C03_predicted_picture; every sample of every
   later macroblock is an exact copy of the co-located sample of the reference picture. *)
Theorem reconstruct_predicted_early_copies o last rp running0 r0 hdr fmt w h fms pad pos st' :
  let v1 := sorenson o && (match version hdr with Some 1 => true | _ => false end) in
  let running := (if has_plusptype hdr && has_opptype hdr then options hdr
                  else if has_plusptype hdr then Z.lor (Z.ldiff (options hdr) opptype_options) (Z.land running0 opptype_options)
                  else Z.lor (Z.ldiff (Z.ldiff (options hdr) opptype_options) mpptype_options) (Z.land running0 (Z.lor opptype_options mpptype_options))) in
  let mpl := (w + 15) / 16 in let mbh := (h + 15) / 16 in let levw := mpl * 16 in let levh := mbh * 16 in
  let np := mkDecoded hdr fmt (new_plane w h) (new_plane ((w + 1) / 2) ((h + 1) / 2)) (new_plane ((w + 1) / 2) ((h + 1) / 2)) ((w + 1) / 2) in
  let st0 := mkLoop (mkReader (enc_fulls false v1 fms ++ pad) pos) (quantizer hdr) [] []
                    (repeatZ DctZero (levw * levh / 64)) (repeatZ DctZero (levw * levh / 4 / 64)) (repeatZ DctZero (levw * levh / 4 / 64)) in
  let k := zlength (l_types st') in
  decode_picture o (match last with Some p => Some (d_header p) | None => None end) r0 = Ok (Some hdr, mkReader (enc_fulls false v1 fms ++ pad) pos) ->
  (picture_type hdr = PFrame \/ picture_type hdr = DisposablePFrame) -> format hdr = Some fmt -> into_width_and_height fmt = Some (w, h) -> 1 <= w -> 1 <= h ->
  simple_picture hdr running ->
  into_width_and_height (d_format rp) = Some (w, h) -> plane_ok w h (d_luma rp) ->
  plane_ok ((w + 1) / 2) ((h + 1) / 2) (d_cb rp) -> plane_ok ((w + 1) / 2) ((h + 1) / 2) (d_cr rp) -> d_chroma_w rp = (w + 1) / 2 ->
  Forall (wf_full false v1) fms -> loop_short fms 0 (mpl * mbh) -> short_pad pad ->
  pure_loop np running mpl levw fms st0 = Ok st' ->
  exists pic pos',
    reconstruct o last (Some rp) running0 r0 = Ok (pic, mkReader pad pos') /\ d_header pic = hdr /\
    plane_ok w h (d_luma pic) /\ plane_ok ((w + 1) / 2) ((h + 1) / 2) (d_cb pic) /\ plane_ok ((w + 1) / 2) ((h + 1) / 2) (d_cr pic) /\
    (forall x y, 0 <= x < w -> 0 <= y < h -> k <= x / 16 + (y / 16) * mpl -> at_ (d_luma pic) x y = at_ (d_luma rp) x y) /\
    (forall x y, 0 <= x < (w + 1) / 2 -> 0 <= y < (h + 1) / 2 -> k <= x / 8 + (y / 8) * mpl ->
       at_ (d_cb pic) x y = at_ (d_cb rp) x y /\ at_ (d_cr pic) x y = at_ (d_cr rp) x y).
Proof.
  intros v1 running mpl mbh levw levh np st0 k Hhdr Hpt Hfmt Hwh Hw Hh Hsp Hrf Hrl Hrb Hrr Hrc Hwf Hok Hpad Hpure.
  destruct (reconstruct_predicted_early o last rp running0 r0 hdr fmt w h fms pad pos st' Hhdr Hpt Hfmt Hwh Hw Hh Hsp Hrf Hrl Hrb Hrr Hrc Hwf Hok Hpad Hpure)
    as (pic & pos' & Er & Eh & O1 & O2 & O3 & AL & AC).
  fold mpl mbh levw levh np st0 in AL, AC.
  exists pic, pos'. split; [exact Er|]. split; [exact Eh|]. split; [exact O1|]. split; [exact O2|]. split; [exact O3|].
  destruct (level_counts w h Hw Hh) as (N1 & N2 & M1 & M2 & M3 & M4). cbv zeta in N1, N2, M1, M2, M3, M4. fold mpl mbh in N1, N2, M1, M2, M3, M4.
  destruct (pure_loop_levels np running mpl levw fms st0 st' Hpure eq_refl) as (T1 & T2 & L1 & L2 & L3).
  pose proof (pure_loop_untouched np running mpl levw M1 eq_refl fms st0 st' Hpure eq_refl) as HU.
  split.
  - intros x y Hx Hy Hk. rewrite AL by assumption.
    set (i := x / 16 + y / 16 * mpl) in *.
    assert (Hi : k <= i < mpl * mbh).
    { split; [exact Hk|]. unfold i. assert (x / 16 <= mpl - 1) by lia. assert (y / 16 <= mbh - 1) by lia.
      assert (y / 16 * mpl <= (mbh - 1) * mpl) by (apply Z.mul_le_mono_nonneg_r; lia). lia. }
    (* no residual: the block is still the initial zero block *)
    assert (Hb : block_of (l_luma st') (mpl * 2) x y = DctZero).
    { unfold block_of. destruct (HU (x / 8 + y / 8 * (mpl * 2)) ltac:(assert (0 <= y / 8 * (mpl * 2)) by (apply Z.mul_nonneg_nonneg; lia); lia)) as [HL _].
      rewrite HL.
      - cbn [st0 l_luma]. apply nth_repeatZ_zero.
      - fold k. replace (x / 8 + y / 8 * (mpl * 2)) with ((2 * (x / 16) + (x / 8 - 2 * (x / 16))) + (2 * (y / 16) + (y / 8 - 2 * (y / 16))) * (2 * mpl)) by ring.
        rewrite luma_mb_of_block by lia. fold i. lia. }
    rewrite Hb. cbn [add_val].
    (* the prediction: zero vector *)
    destruct (padded_item (l_types st') (l_pvs st') (mpl * mbh) i T2 Hi) as [Hit Hlen].
    unfold luma_after, covered, mb_at. cbv zeta. fold i. rewrite Z.sub_0_r, Hit, Hlen. cbn [fst snd mb_is_inter].
    replace ((x / 16 <? mpl) && (0 <=? i) && (i <? 0 + mpl * mbh) && true) with true by lia.
    assert (Hz : forall q, mv4_get mv4_zero q = (0, 0)) by (intros q; unfold mv4_get, mv4_zero, mv_zero; destruct (q =? 0), (q =? 1), (q =? 2); reflexivity).
    rewrite Hz. cbn [fst snd]. apply pred_spec_zero; assumption.
  - intros x y Hx Hy Hk. destruct (AC x y Hx Hy) as [A1 A2]. rewrite A1, A2.
    set (i := x / 8 + y / 8 * mpl) in *.
    assert (Hi : k <= i < mpl * mbh).
    { split; [exact Hk|]. unfold i. assert (x / 8 <= mpl - 1) by lia. assert (y / 8 <= mbh - 1) by lia.
      assert (y / 8 * mpl <= (mbh - 1) * mpl) by (apply Z.mul_le_mono_nonneg_r; lia). lia. }
    destruct (HU i ltac:(lia)) as [_ HC]. destruct (HC ltac:(fold k; lia)) as [HCb HCr].
    unfold block_of. fold i. rewrite HCb, HCr. cbn [st0 l_cb l_cr]. rewrite !nth_repeatZ_zero. cbn [add_val].
    destruct (padded_item (l_types st') (l_pvs st') (mpl * mbh) i T2 Hi) as [Hit Hlen].
    unfold chroma_after, covered, mb_at. cbv zeta. fold i. rewrite Z.sub_0_r, Hit, Hlen. cbn [fst snd mb_is_inter].
    replace ((x / 8 <? mpl) && (0 <=? i) && (i <? 0 + mpl * mbh) && true) with true by lia.
    assert (Hcv : chroma_vector mv4_zero = (0, 0)) by (vm_compute; reflexivity).
    rewrite Hcv. cbn [fst snd]. split; apply pred_spec_zero; assumption.
Qed.
