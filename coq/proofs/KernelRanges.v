(* Range facts about the integer kernels of the decoder model (arithmetic
   obligations of C01, exactness facts of C11/C12). *)
From H263V Require Import base.Prelude model.Types model.Tables model.Reader model.Header model.Syntax model.F32 model.Recon model.Decoder.
Require Import ZifyBool.
Ltac Zify.zify_post_hook ::= Z.to_euclidean_division_equations.

Lemma next_quant_range q dq : 1 <= next_quant q dq <= 31.
Proof. unfold next_quant, clamp. lia. Qed.

Lemma dequant_range q l : -2048 <= dequant q l <= 2047.
Proof. unfold dequant, clamp. lia. Qed.

Lemma hadd_range a b : -32768 <= hadd a b <= 32767.
Proof. unfold hadd, clamp. lia. Qed.
