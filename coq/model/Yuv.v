(* Model of yuv/src/bt601.rs: the 4-pixel fixed-point kernel (one i32 lane per
   pixel) and the row loop of yuv420_to_rgba with its whole-group part and its
   remainder-columns path.  Spec: BT.601 studio range -> full range RGB. *)
From H263V Require Import base.Prelude.

(* ------------------------------------------------------------------ spec *)
(* Coefficients as exact rationals num/den (BT.601: Kr = 0.299, Kb = 0.114,
   Kg = 0.587; 1.402 = 2(1-Kr), 1.772 = 2(1-Kb); luma excursion 219, chroma 224). *)
Definition cy_num := 255.            Definition cy_den := 219.
Definition crv_num := 255 * 1402.    Definition crv_den := 224 * 1000.
Definition cbu_num := 255 * 1772.    Definition cbu_den := 224 * 1000.
Definition cgv_num := 255 * 1402 * 299.  Definition cgv_den := 224 * 1000 * 587.   (* subtracted *)
Definition cgu_num := 255 * 1772 * 114.  Definition cgu_den := 224 * 1000 * 587.   (* subtracted *)

(* round-to-nearest of num/den * 2^16 (ties cannot occur for these values) *)
Definition fix16 (num den : Z) : Z := (2 * num * 65536 + den) / (2 * den).

Definition spec_channel_r (y cr : Z) : Z :=
  clamp 0 255 ((fix16 cy_num cy_den * (y - 16) + fix16 crv_num crv_den * (cr - 128) + 32768) / 65536).
Definition spec_channel_g (y cb cr : Z) : Z :=
  clamp 0 255 ((fix16 cy_num cy_den * (y - 16) - fix16 cgv_num cgv_den * (cr - 128)
                - fix16 cgu_num cgu_den * (cb - 128) + 32768) / 65536).
Definition spec_channel_b (y cb : Z) : Z :=
  clamp 0 255 ((fix16 cy_num cy_den * (y - 16) + fix16 cbu_num cbu_den * (cb - 128) + 32768) / 65536).
Definition spec_px (y cb cr : Z) : Z * Z * Z * Z :=
  (spec_channel_r y cr, spec_channel_g y cb cr, spec_channel_b y cb, 255).

(* ------------------------------------------------------------------ model *)
(* constants of yuv_to_rgba_4x (hand copies, bridged to the regenerated ones) *)
Definition k_gray := 76309.
Definition k_cr2r := 104597.
Definition k_cr2g := -53279.
Definition k_cb2g := -25675.
Definition k_cb2b := 132201.
Definition k_half := 32768.
Definition k_shift := 16.
Definition k_yoff := 16.
Definition k_coff := 128.

(* one lane of yuv_to_rgba_4x; i32 lane arithmetic is wrapping, never reached
   for byte inputs (lemma px_no_wrap) *)
Definition px (y cb cr : Z) : Z * Z * Z * Z :=
  let y' := y - k_yoff in
  let cb' := cb - k_coff in
  let cr' := cr - k_coff in
  let gray := y' * k_gray in
  let cr2r := cr' * k_cr2r in
  let cr2g := cr' * k_cr2g in
  let cb2g := cb' * k_cb2g in
  let cb2b := cb' * k_cb2b in
  let r := Z.shiftr (gray + cr2r + k_half) k_shift in
  let g := Z.shiftr (gray + cr2g + cb2g + k_half) k_shift in
  let b := Z.shiftr (gray + cb2b + k_half) k_shift in
  (Z.min (Z.max r 0) 255, Z.min (Z.max g 0) 255, Z.min (Z.max b 0) 255, 255).

Definition px_bytes (y cb cr : Z) : list Z :=
  let '(r, g, b, a) := px y cb cr in [r; g; b; a].

Definition nthz (l : list Z) (i : nat) : Z := nth i l 0.

Local Open Scope nat_scope.

(* yuv_to_rgba_4x on chunk i of a row: lanes 0..3 use y[4i+j], cb[2i + j/2], cr[2i + j/2] *)
Definition group4 (yrow cbrow crrow : list Z) (i : nat) : list Z :=
  flat_map (fun j => px_bytes (nthz yrow (4 * i + j)) (nthz cbrow (2 * i + j / 2)) (nthz crrow (2 * i + j / 2)))
           (seq 0 4).

(* the remainder path: staging arrays filled from the last y_remainder columns,
   one more yuv_to_rgba_4x call, first 4*y_remainder bytes of its output kept *)
Definition staged (row : list Z) (lo hi : nat) (slot : nat -> nat) (src : nat -> nat) (n : nat) : list Z :=
  fold_left (fun acc x =>
               match set_nth acc (slot x) (nthz row (src x)) with Some a => a | None => acc end)
            (seq lo (hi - lo)) (repeat 0%Z n).

Definition convert_row (yrow cbrow crrow : list Z) (w : nat) : list Z :=
  let brw := ((w + 1) / 2)%nat in
  let yrem := (w mod 4)%nat in
  let brrem := (brw mod 2)%nat in
  (* chunk counts of the three zipped iterators *)
  let ny := ((w - yrem) / 4)%nat in
  let nc := ((brw - brrem) / 2)%nat in
  let nout := ((4 * w - 4 * yrem) / 16)%nat in
  let n := Nat.min (Nat.min ny nc) nout in
  let whole := flat_map (group4 yrow cbrow crrow) (seq 0 n) in
  (* rgba row is zero-initialised: groups not reached by the zip stay zero *)
  let whole := whole ++ repeat 0%Z (4 * (w - yrem) - length whole) in
  if (yrem =? 0)%nat then whole
  else
    let y4 := staged yrow (w - yrem) w (fun x => x mod 4) (fun x => x) 4 in
    let cb2 := staged cbrow (w - yrem) w (fun x => (x mod 4) / 2) (fun x => x / 2) 2 in
    let cr2 := staged crrow (w - yrem) w (fun x => (x mod 4) / 2) (fun x => x / 2) 2 in
    let out4 := group4 y4 cb2 cr2 0 in
    whole ++ firstn (4 * yrem) out4.

Fixpoint rows_go (fuel : nat) (r : nat) (ys cbs crs : list Z) (w brw : nat) : list Z :=
  match fuel with
  | O => []
  | S f =>
      let yrow := firstn w (skipn (r * w) ys) in
      let cbrow := firstn brw (skipn ((r / 2) * brw) cbs) in
      let crrow := firstn brw (skipn ((r / 2) * brw) crs) in
      convert_row yrow cbrow crrow w ++ rows_go f (S r) ys cbs crs w brw
  end.

Local Close Scope nat_scope.

(* pub fn yuv420_to_rgba(y, chroma_b, chroma_r, y_width), checked profile
   (debug assertions on). *)
Definition yuv420_to_rgba (ys cbs crs : list Z) (w : Z) : res (list Z) :=
  match ys with
  | [] => if (zlength cbs =? 0) && (zlength crs =? 0) && (w =? 0) then Ok [] else Panic PAssert
  | _ =>
      let brw := (w + 1) / 2 in
      if w =? 0 then Panic PDivZero else
      if negb (zlength ys mod w =? 0) then Panic PAssert else
      if negb (zlength cbs mod brw =? 0) then Panic PAssert else
      if negb (zlength crs mod brw =? 0) then Panic PAssert else
      if negb (zlength cbs =? zlength crs) then Panic PAssert else
      let h := zlength ys / w in
      let brh := zlength cbs / brw in
      if negb ((h + 1) / 2 =? brh) then Panic PAssert else
      Ok (rows_go (Z.to_nat h) 0 ys cbs crs (Z.to_nat w) (Z.to_nat brw))
  end.

(* pointwise spec of the layout (C08) *)
Definition rgba_spec (ys cbs crs : list Z) (w : Z) (x y : Z) : Z * Z * Z * Z :=
  let brw := (w + 1) / 2 in
  px (nth (Z.to_nat (x + y * w)) ys 0)
     (nth (Z.to_nat (x / 2 + (y / 2) * brw)) cbs 0)
     (nth (Z.to_nat (x / 2 + (y / 2) * brw)) crs 0).
Definition rgba_spec_flat (ys cbs crs : list Z) (w h : Z) : list Z :=
  flat_map (fun y => flat_map (fun x => let '(r, g, b, a) := rgba_spec ys cbs crs w (Z.of_nat x) (Z.of_nat y) in [r; g; b; a])
                              (seq 0 (Z.to_nat w))) (seq 0 (Z.to_nat h)).
