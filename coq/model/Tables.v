(* Hand copies of the literal tables of the h263 crate (frozen; the regenerated versions in gen/GenTables.v are bridged to these by reflexivity in bridge/BridgeTables.v, so the large proofs depend only on this file). *)
From H263V Require Import base.Prelude model.Types.

Definition mcbpc_i_table : list (entry bpe) :=
  [
   Fork 2 1; End (BpValid Intra false false); Fork 6 3; Fork 4 5;
   End (BpValid Intra true false); End (BpValid Intra true true); Fork 8 7; End (BpValid Intra false true);
   Fork 10 9; End (BpValid IntraQ false false); Fork 14 11; Fork 12 13;
   End (BpValid IntraQ true false); End (BpValid IntraQ true true); Fork 16 20; End BpInvalid;
   Fork 17 15; Fork 18 15; Fork 15 19; End BpStuffing;
   End (BpValid IntraQ false true)
  ].

Definition mcbpc_p_table : list (entry bpe) :=
  [
   Fork 2 1; End (BpValid Inter false false); Fork 6 3; Fork 4 5;
   End (BpValid Inter4V false false); End (BpValid InterQ false false); Fork 10 7; Fork 8 9;
   End (BpValid Inter true false); End (BpValid Inter false true); Fork 16 11; Fork 13 12;
   End (BpValid Intra false false); Fork 14 15; End (BpValid IntraQ false false); End (BpValid Inter true true);
   Fork 24 17; Fork 18 21; Fork 19 20; End (BpValid Inter4V true false);
   End (BpValid Inter4V false true); Fork 22 23; End (BpValid InterQ true false); End (BpValid InterQ false true);
   Fork 30 25; Fork 27 26; End (BpValid Intra true true); Fork 28 29;
   End (BpValid Intra false true); End (BpValid Inter4V true true); Fork 36 31; Fork 33 32;
   End (BpValid Intra true false); Fork 34 35; End (BpValid IntraQ false true); End (BpValid InterQ true true);
   Fork 40 37; Fork 38 39; End (BpValid IntraQ true true); End (BpValid IntraQ true false);
   Fork 42 41; End BpStuffing; Fork 43 44; End BpInvalid;
   Fork 45 46; End (BpValid Inter4Vq false false); Fork 47 50; Fork 48 49;
   End (BpValid Inter4Vq false true); End BpInvalid; Fork 51 52; End (BpValid Inter4Vq true false);
   End (BpValid Inter4Vq true true)
  ].

Definition modb_table : list (entry (bool * bool)) :=
  [
   Fork 1 2; End (false, false); Fork 3 4; End (false, true);
   End (true, true)
  ].

Definition cbpy_table_intra : list (entry (option (list bool))) :=
  [
   Fork 1 24; Fork 2 17; Fork 3 12; Fork 4 9;
   Fork 5 6; End None; Fork 7 8; End (Some [false; true; true; false]);
   End (Some [true; false; false; true]); Fork 10 11; End (Some [true; false; false; false]); End (Some [false; true; false; false]);
   Fork 13 16; Fork 14 15; End (Some [false; false; true; false]); End (Some [false; false; false; true]);
   End (Some [false; false; false; false]); Fork 18 21; Fork 19 20; End (Some [true; true; false; false]);
   End (Some [true; false; true; false]); Fork 22 23; End (Some [true; true; true; false]); End (Some [false; true; false; true]);
   Fork 25 32; Fork 26 29; Fork 27 28; End (Some [true; true; false; true]);
   End (Some [false; false; true; true]); Fork 30 31; End (Some [true; false; true; true]); End (Some [false; true; true; true]);
   End (Some [true; true; true; true])
  ].

Definition mvd_table : list (entry (option Z)) :=
  [
   Fork 2 1; End (Some 0); Fork 6 3; Fork 4 5;
   End (Some 1); End (Some (-1)); Fork 10 7; Fork 8 9;
   End (Some 2); End (Some (-2)); Fork 14 11; Fork 12 13;
   End (Some 3); End (Some (-3)); Fork 26 15; Fork 19 16;
   Fork 17 18; End (Some 4); End (Some (-4)); Fork 23 20;
   Fork 21 22; End (Some 5); End (Some (-5)); Fork 24 25;
   End (Some 6); End (Some (-6)); Fork 50 27; Fork 31 28;
   Fork 29 30; End (Some 7); End (Some (-7)); Fork 39 32;
   Fork 36 33; Fork 34 35; End (Some 8); End (Some (-8));
   Fork 37 38; End (Some 9); End (Some (-9)); Fork 43 40;
   Fork 41 42; End (Some 10); End (Some (-10)); Fork 47 44;
   Fork 45 46; End (Some 11); End (Some (-11)); Fork 48 49;
   End (Some 12); End (Some (-12)); Fork 82 51; Fork 67 52;
   Fork 60 53; Fork 57 54; Fork 55 56; End (Some 13);
   End (Some (-13)); Fork 58 59; End (Some 14); End (Some (-14));
   Fork 64 61; Fork 62 63; End (Some 15); End (Some (-15));
   Fork 65 66; End (Some 16); End (Some (-16)); Fork 75 68;
   Fork 72 69; Fork 70 71; End (Some 17); End (Some (-17));
   Fork 73 74; End (Some 18); End (Some (-18)); Fork 79 76;
   Fork 77 78; End (Some 19); End (Some (-19)); Fork 80 81;
   End (Some 20); End (Some (-20)); Fork 98 83; Fork 91 84;
   Fork 88 85; Fork 86 87; End (Some 21); End (Some (-21));
   Fork 89 90; End (Some 22); End (Some (-22)); Fork 95 92;
   Fork 93 94; End (Some 23); End (Some (-23)); Fork 96 97;
   End (Some 24); End (Some (-24)); Fork 114 99; Fork 107 100;
   Fork 104 101; Fork 102 103; End (Some 25); End (Some (-25));
   Fork 105 106; End (Some 26); End (Some (-26)); Fork 111 108;
   Fork 109 110; End (Some 27); End (Some (-27)); Fork 112 113;
   End (Some 28); End (Some (-28)); Fork 122 115; Fork 119 116;
   Fork 117 118; End (Some 29); End (Some (-29)); Fork 120 121;
   End (Some 30); End (Some (-30)); Fork 129 123; Fork 127 124;
   Fork 125 126; End (Some 31); End (Some (-31)); Fork 129 128;
   End (Some (-32)); End None
  ].

Definition tcoef_table : list (entry (option short_tcoef)) :=
  [
   Fork 8 1; Fork 2 3; End (Some (Run false 0 1)); Fork 4 5;
   End (Some (Run false 1 1)); Fork 6 7; End (Some (Run false 2 1)); End (Some (Run false 0 2));
   Fork 28 9; Fork 15 10; Fork 12 11; End (Some (Run true 0 1));
   Fork 13 14; End (Some (Run false 4 1)); End (Some (Run false 3 1)); Fork 16 23;
   Fork 17 20; Fork 18 19; End (Some (Run false 9 1)); End (Some (Run false 8 1));
   Fork 21 22; End (Some (Run false 7 1)); End (Some (Run false 6 1)); Fork 25 24;
   End (Some (Run false 5 1)); Fork 26 27; End (Some (Run false 1 2)); End (Some (Run false 0 3));
   Fork 52 29; Fork 37 30; Fork 31 34; Fork 32 33;
   End (Some (Run true 4 1)); End (Some (Run true 3 1)); Fork 35 36; End (Some (Run true 2 1));
   End (Some (Run true 1 1)); Fork 38 45; Fork 39 42; Fork 40 41;
   End (Some (Run true 8 1)); End (Some (Run true 7 1)); Fork 43 44; End (Some (Run true 6 1));
   End (Some (Run true 5 1)); Fork 46 49; Fork 47 48; End (Some (Run false 12 1));
   End (Some (Run false 11 1)); Fork 50 51; End (Some (Run false 10 1)); End (Some (Run false 0 4));
   Fork 90 53; Fork 69 54; Fork 55 62; Fork 56 59;
   Fork 57 58; End (Some (Run true 11 1)); End (Some (Run true 10 1)); Fork 60 61;
   End (Some (Run true 9 1)); End (Some (Run false 14 1)); Fork 63 66; Fork 64 65;
   End (Some (Run false 13 1)); End (Some (Run false 2 2)); Fork 67 68; End (Some (Run false 1 3));
   End (Some (Run false 0 5)); Fork 77 70; Fork 71 74; Fork 72 73;
   End (Some (Run true 15 1)); End (Some (Run true 14 1)); Fork 75 76; End (Some (Run true 13 1));
   End (Some (Run true 12 1)); Fork 78 85; Fork 79 82; Fork 80 81;
   End (Some (Run false 16 1)); End (Some (Run false 15 1)); Fork 83 84; End (Some (Run false 4 2));
   End (Some (Run false 3 2)); Fork 86 89; Fork 87 88; End (Some (Run false 0 7));
   End (Some (Run false 0 6)); End (Some (Run true 16 1)); Fork 124 91; Fork 92 109;
   Fork 93 102; Fork 94 99; Fork 95 98; Fork 96 97;
   End (Some (Run false 0 9)); End (Some (Run false 0 8)); End (Some (Run true 24 1)); Fork 100 101;
   End (Some (Run true 23 1)); End (Some (Run true 22 1)); Fork 103 106; Fork 104 105;
   End (Some (Run true 21 1)); End (Some (Run true 20 1)); Fork 107 108; End (Some (Run true 19 1));
   End (Some (Run true 18 1)); Fork 110 117; Fork 111 114; Fork 112 113;
   End (Some (Run true 17 1)); End (Some (Run true 0 2)); Fork 115 116; End (Some (Run false 22 1));
   End (Some (Run false 21 1)); Fork 118 121; Fork 119 120; End (Some (Run false 20 1));
   End (Some (Run false 19 1)); Fork 122 123; End (Some (Run false 18 1)); End (Some (Run false 17 1));
   Fork 174 125; Fork 127 126; End (Some EscapeToLong); Fork 128 143;
   Fork 129 136; Fork 130 133; Fork 131 132; End (Some (Run false 0 12));
   End (Some (Run false 1 5)); Fork 134 135; End (Some (Run false 23 1)); End (Some (Run false 24 1));
   Fork 137 140; Fork 138 139; End (Some (Run true 29 1)); End (Some (Run true 30 1));
   Fork 141 142; End (Some (Run true 31 1)); End (Some (Run true 32 1)); Fork 144 159;
   Fork 145 152; Fork 146 149; Fork 147 148; End (Some (Run false 1 6));
   End (Some (Run false 2 4)); Fork 150 151; End (Some (Run false 4 3)); End (Some (Run false 5 3));
   Fork 153 156; Fork 154 155; End (Some (Run false 6 3)); End (Some (Run false 10 2));
   Fork 157 158; End (Some (Run false 25 1)); End (Some (Run false 26 1)); Fork 160 167;
   Fork 161 164; Fork 162 163; End (Some (Run true 33 1)); End (Some (Run true 34 1));
   Fork 165 166; End (Some (Run true 35 1)); End (Some (Run true 36 1)); Fork 168 171;
   Fork 169 170; End (Some (Run true 37 1)); End (Some (Run true 38 1)); Fork 172 173;
   End (Some (Run true 39 1)); End (Some (Run true 40 1)); Fork 190 175; Fork 176 183;
   Fork 177 180; Fork 178 179; End (Some (Run false 9 2)); End (Some (Run false 8 2));
   Fork 181 182; End (Some (Run false 7 2)); End (Some (Run false 6 2)); Fork 184 187;
   Fork 185 186; End (Some (Run false 5 2)); End (Some (Run false 3 3)); Fork 188 189;
   End (Some (Run false 2 3)); End (Some (Run false 1 4)); Fork 198 191; Fork 192 195;
   Fork 193 194; End (Some (Run true 28 1)); End (Some (Run true 27 1)); Fork 196 197;
   End (Some (Run true 26 1)); End (Some (Run true 25 1)); Fork 206 199; Fork 200 203;
   Fork 201 202; End (Some (Run true 1 2)); End (Some (Run true 0 3)); Fork 204 205;
   End (Some (Run false 0 11)); End (Some (Run false 0 10)); End None
  ].

Definition dquant_arms : list Z := [(-1); (-2); 1; 2].

Definition dezigzag_mapping : list (Z * Z) :=
  [
   (0, 0); (1, 0); (0, 1); (0, 2); (1, 1); (2, 0); (3, 0); (2, 1);
   (1, 2); (0, 3); (0, 4); (1, 3); (2, 2); (3, 1); (4, 0); (5, 0);
   (4, 1); (3, 2); (2, 3); (1, 4); (0, 5); (0, 6); (1, 5); (2, 4);
   (3, 3); (4, 2); (5, 1); (6, 0); (7, 0); (6, 1); (5, 2); (4, 3);
   (3, 4); (2, 5); (1, 6); (0, 7); (1, 7); (2, 6); (3, 5); (4, 4);
   (5, 3); (6, 2); (7, 1); (7, 2); (6, 3); (5, 4); (4, 5); (3, 6);
   (2, 7); (3, 7); (4, 6); (5, 5); (6, 4); (7, 3); (7, 4); (6, 5);
   (5, 6); (4, 7); (5, 7); (6, 6); (7, 5); (7, 6); (6, 7); (7, 7)
  ].

Definition basis_table : list (list (bool * Z * Z)) :=
  [
   [(false, 11863283, (-24)); (false, 11863283, (-24)); (false, 11863283, (-24)); (false, 11863283, (-24)); (false, 11863283, (-24)); (false, 11863283, (-24)); (false, 11863283, (-24)); (false, 11863283, (-24))];
   [(false, 16454846, (-24)); (false, 13949745, (-24)); (false, 9320921, (-24)); (false, 13092284, (-26)); (true, 13092290, (-26)); (true, 9320924, (-24)); (true, 13949746, (-24)); (true, 16454847, (-24))];
   [(false, 15500126, (-24)); (false, 12840725, (-25)); (true, 12840728, (-25)); (true, 15500128, (-24)); (true, 15500126, (-24)); (true, 12840715, (-25)); (false, 12840731, (-25)); (false, 15500127, (-24))];
   [(false, 13949745, (-24)); (true, 13092290, (-26)); (true, 16454847, (-24)); (true, 9320918, (-24)); (false, 9320919, (-24)); (false, 16454846, (-24)); (false, 13092273, (-26)); (true, 13949748, (-24))];
   [(false, 11863283, (-24)); (true, 11863283, (-24)); (true, 11863281, (-24)); (false, 11863287, (-24)); (false, 11863283, (-24)); (true, 11863291, (-24)); (true, 11863279, (-24)); (false, 11863284, (-24))];
   [(false, 9320921, (-24)); (true, 16454847, (-24)); (false, 13092296, (-26)); (false, 13949741, (-24)); (true, 13949748, (-24)); (true, 13092220, (-26)); (false, 16454847, (-24)); (true, 9320919, (-24))];
   [(false, 12840725, (-25)); (true, 15500126, (-24)); (false, 15500130, (-24)); (true, 12840741, (-25)); (true, 12840739, (-25)); (false, 15500123, (-24)); (true, 15500130, (-24)); (false, 12840741, (-25))];
   [(false, 13092284, (-26)); (true, 9320918, (-24)); (false, 13949741, (-24)); (true, 16454845, (-24)); (false, 16454846, (-24)); (true, 13949754, (-24)); (false, 9320937, (-24)); (true, 13092246, (-26))]
  ].

Definition picture_option_bits : list Z := [1; 2; 4; 8; 16; 32; 64; 128; 256; 512; 1024; 2048; 4096; 8192; 16384; 32768; 65536].
Definition opptype_options : Z := 8184.
Definition mpptype_options : Z := 57344.
Definition opptype_options_parser : Z := 8184.

Definition standard_sizes : list (Z * Z) := [(128, 96); (176, 144); (352, 288); (704, 576); (1408, 1152)].
Definition halfpel_ranges : list Z := [32; 64; 128; 256; 512].
