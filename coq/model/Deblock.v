(* Model of deblock/src/deblock.rs.  Hand-written, mirrors the code's structure:
   scalar kernel, SIMD lane kernel, horizontal pass (4-row groups; 8-column
   SIMD chunks then scalar remainder), vertical pass (8-row SIMD groups then
   scalar remainder rows; per row `row[2..]` in chunks of 8, samples 4..7).
   Tied to the code by the differential suites `deblock-img`, `deblock-kernel`
   and by bridge/BridgeDeblock.v (strength table regenerated from source). *)
From H263V Require Import base.Prelude.

(* ---------------- Annex J as the Recommendation states it ---------------- *)
Definition updown_ramp (x s : Z) : Z :=
  Z.sgn x * Z.max 0 (Z.abs x - Z.max 0 (2 * (Z.abs x - s))).

Definition clip255 (x : Z) : Z := clamp 0 255 x.

Definition annexJ (a b c d s : Z) : Z * Z * Z * Z :=
  let dd := Z.quot (a - 4 * b + 4 * c - d) 8 in
  let d1 := updown_ramp dd s in
  let lim := Z.abs (Z.quot d1 2) in
  let d2 := clamp (- lim) lim (Z.quot (a - d) 4) in
  (a - d2, clip255 (b + d1), clip255 (c - d1), d + d2).

(* The deblocked image, pointwise.  `edge_of n p`: the 8-aligned interior edge e
   (index of sample C) whose four straddling samples e-2..e+1 contain position p
   and all lie inside 0..n-1; None when p is more than two away from such an edge. *)
Definition sel4 (i : Z) (t : Z * Z * Z * Z) : Z :=
  let '(a, b, c, d) := t in
  if i =? 0 then a else if i =? 1 then b else if i =? 2 then c else d.
Definition edge_of (n p : Z) : option Z :=
  let e := 8 * ((p + 2) / 8) in
  if (8 <=? e) && (e + 1 <? n) && (p <=? e + 1) then Some e else None.
(* first pass: across horizontal block edges (samples run vertically) *)
Definition horiz_spec (img : Z -> Z -> Z) (h s x y : Z) : Z :=
  match edge_of h y with
  | Some e => sel4 (y - (e - 2)) (annexJ (img x (e - 2)) (img x (e - 1)) (img x e) (img x (e + 1)) s)
  | None => img x y
  end.
(* second pass: across vertical block edges *)
Definition vert_spec (img : Z -> Z -> Z) (w s x y : Z) : Z :=
  match edge_of w x with
  | Some e => sel4 (x - (e - 2)) (annexJ (img (e - 2) y) (img (e - 1) y) (img e y) (img (e + 1) y) s)
  | None => img x y
  end.
Definition annexJ_image (img : Z -> Z -> Z) (w h s : Z) : Z -> Z -> Z :=
  vert_spec (horiz_spec img h s) w s.
(* executable form over a flat row-major list *)
Definition flat_img (data : list Z) (w : Z) (x y : Z) : Z := nth (Z.to_nat (x + y * w)) data 0.
Definition annexJ_flat (data : list Z) (w h s : Z) : list Z :=
  flat_map (fun y => map (fun x => annexJ_image (flat_img data w) w h s (Z.of_nat x) (Z.of_nat y))
                         (seq 0 (Z.to_nat w))) (seq 0 (Z.to_nat h)).

(* Table J.2: QUANT -> STRENGTH, entry 0 unused. *)
Definition table_J2 : list Z :=
  [0; 1; 1; 2; 2; 3; 3; 4; 4; 4; 5; 5; 6; 6; 7; 7; 7; 8; 8; 8; 9; 9; 9; 10; 10; 10; 11; 11; 11;
   12; 12; 12].

(* ---------------- the code's scalar kernel ---------------- *)
Definition up_down_ramp (x s : Z) : Z :=
  Z.sgn x * Z.max (Z.abs x - Z.max (2 * (Z.abs x - s)) 0) 0.
Definition clipd1 (x lim : Z) : Z := clamp (- Z.abs lim) (Z.abs lim) x.

Definition process (a b c d s : Z) : Z * Z * Z * Z :=
  let dd := tdiv (a - 4 * b + 4 * c - d) 8 in
  let d1 := up_down_ramp dd s in
  let d2 := clipd1 (tdiv (a - d) 4) (tdiv d1 2) in
  (wrap_u8 (a - d2), clamp 0 255 (b + d1), clamp 0 255 (c - d1), wrap_u8 (d + d2)).

(* ---------------- the code's SIMD kernel, one i16 lane ----------------
   `div_pow2_simd(x, k)`: truncating division by 2^k on i16 lanes, written as
   a sign-biased arithmetic shift. *)
Definition div_pow2_lane (x k : Z) : Z :=
  Z.shiftr (x + (if x <? 0 then 2 ^ k - 1 else 0)) k.
Definition signum_lane (x : Z) : Z :=
  (if x <? 0 then -1 else 0) - (if 0 <? x then -1 else 0).
Definition up_down_ramp_lane (x s : Z) : Z :=
  signum_lane x * Z.max (Z.abs x - Z.max (2 * (Z.abs x - s)) 0) 0.
Definition clipd1_lane (x lim : Z) : Z :=
  let la := Z.abs lim in Z.min (Z.max x (- la)) la.
Definition process_lane (a b c d s : Z) : Z * Z * Z * Z :=
  let dd := div_pow2_lane (a - 4 * b + 4 * c - d) 3 in
  let d1 := up_down_ramp_lane dd s in
  let d2 := clipd1_lane (div_pow2_lane (a - d) 2) (div_pow2_lane d1 1) in
  (wrap_u8 (a - d2), wrap_u8 (Z.min (Z.max (b + d1) 0) 255),
   wrap_u8 (Z.min (Z.max (c - d1) 0) 255), wrap_u8 (d + d2)).

(* The pre-repair lane kernel (plain arithmetic shifts), kept for the
   `_refuted` witness. *)
Definition process_lane_floor (a b c d s : Z) : Z * Z * Z * Z :=
  let dd := Z.shiftr (a - 4 * b + 4 * c - d) 3 in
  let d1 := up_down_ramp_lane dd s in
  let d2 := clipd1_lane (Z.shiftr (a - d) 2) (Z.shiftr d1 1) in
  (wrap_u8 (a - d2), wrap_u8 (Z.min (Z.max (b + d1) 0) 255),
   wrap_u8 (Z.min (Z.max (c - d1) 0) 255), wrap_u8 (d + d2)).

(* ---------------- passes ---------------- *)
Notation row := (list Z) (only parsing).
Definition kernel := Z -> Z -> Z -> Z -> Z * Z * Z * Z.

(* apply a kernel column by column to four rows (zip semantics) *)
Fixpoint map4 (k : kernel) (ra rb rc rd : row) : row * row * row * row :=
  match ra, rb, rc, rd with
  | a :: ra', b :: rb', c :: rc', d :: rd' =>
      let '(a', b', c', d') := k a b c d in
      let '(xa, xb, xc, xd) := map4 k ra' rb' rc' rd' in
      (a' :: xa, b' :: xb, c' :: xc, d' :: xd)
  | _, _, _, _ => ([], [], [], [])
  end.

(* One 4-row group of the horizontal pass: chunks_exact(8) through the SIMD
   kernel, the remainder through the scalar kernel. *)
Definition filter4 (s : Z) (ra rb rc rd : row) : row * row * row * row :=
  let n8 := (8 * (length ra / 8))%nat in
  let '(sa, sb, sc, sd) :=
    map4 (fun a b c d => process_lane a b c d s)
         (firstn n8 ra) (firstn n8 rb) (firstn n8 rc) (firstn n8 rd) in
  let '(ta, tb, tc, td) :=
    map4 (fun a b c d => process a b c d s)
         (skipn n8 ra) (skipn n8 rb) (skipn n8 rc) (skipn n8 rd) in
  (sa ++ ta, sb ++ tb, sc ++ tc, sd ++ td).

(* `rows` starts at row edge_y - 2; one loop iteration per recursive call. *)
Fixpoint horiz_go (fuel : nat) (s : Z) (rows : list row) : list row :=
  match fuel with
  | O => rows
  | S f =>
      match rows with
      | a :: b :: c :: d :: rest =>
          let '(a', b', c', d') := filter4 s a b c d in
          a' :: b' :: c' :: d' :: (firstn 4 rest ++ horiz_go f s (skipn 4 rest))
      | _ => rows
      end
  end.
Definition deblock_horiz (s : Z) (rows : list row) : list row :=
  firstn 6 rows ++ horiz_go (length rows) s (skipn 6 rows).

(* One row of the vertical pass: row[2..].chunks_exact_mut(8), samples 4..7. *)
Fixpoint vert_chunks (k : kernel) (r : row) : row :=
  match r with
  | x0 :: x1 :: x2 :: x3 :: a :: b :: c :: d :: rest =>
      let '(a', b', c', d') := k a b c d in
      x0 :: x1 :: x2 :: x3 :: a' :: b' :: c' :: d' :: vert_chunks k rest
  | _ => r
  end.
Definition vert_row (k : kernel) (r : row) : row :=
  firstn 2 r ++ vert_chunks k (skipn 2 r).

Definition deblock_vert (w s : Z) (rows : list row) : list row :=
  if 10 <=? w then
    let n8 := (8 * (length rows / 8))%nat in
    map (vert_row (fun a b c d => process_lane a b c d s)) (firstn n8 rows)
    ++ map (vert_row (fun a b c d => process a b c d s)) (skipn n8 rows)
  else rows.

(* pub fn deblock(data, width, strength).  Checked profile: debug assertions
   on, so a length that is not a multiple of the width is an assertion
   failure, and width 0 a remainder by zero.  Strength is only asserted
   inside the kernels; the suites use 1..12 only. *)
Definition deblock (data : list Z) (w s : Z) : res (list Z) :=
  if w =? 0 then Panic PDivZero else
  if negb (zlength data mod w =? 0) then Panic PAssert else
  let rows := chunks (Z.to_nat w) data in
  Ok (concat (deblock_vert w s (deblock_horiz s rows))).

(* hand copy of QUANT_TO_STRENGTH (bridged to the regenerated table) *)
Definition quant_to_strength : list Z :=
  [0; 1; 1; 2; 2; 3; 3; 4; 4; 4; 5; 5; 6; 6; 7; 7; 7; 8; 8; 8; 9; 9; 9; 10; 10; 10; 11; 11; 11;
   12; 12; 12].
