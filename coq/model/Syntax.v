(* Model of parser/macroblock.rs, parser/block.rs and parser/gob.rs on the
   abstract reader. *)
From H263V Require Import base.Prelude model.Types model.Tables model.Reader model.Header.

Definition mv := (Z * Z)%type.      (* half-sample units *)

Record cbp := mkCbp { codes_luma : list bool; codes_chroma_b : bool; codes_chroma_r : bool }.

Inductive macroblock :=
| MbUncoded
| MbStuffing
| MbCoded (t : mbtype) (p : cbp) (dquant : option Z) (mvd : option mv) (addl : option (mv * mv * mv)).
(* coded_block_pattern_b and motion_vectors_b (PB frames) are parsed but never
   used by the decoder; the model keeps only their effect on the bit position. *)

Definition decode_dquant (r : reader) : res (Z * reader) :=
  let* (c, r) := read_bits 8 2 r in
  Ok (nth (Z.to_nat c) dquant_arms 0, r).

Definition decode_motion_vector (pic : picture) (running : Z) (r : reader) : res (mv * reader) :=
  if has running UNRESTRICTED_MOTION_VECTORS && has_plusptype pic then
    let* (x, r) := read_umv r in
    let* (y, r) := read_umv r in
    Ok ((x, y), r)
  else
    let* (ox, r) := read_vlc mvd_table r in
    match ox with
    | None => Err EInvalidMvd
    | Some x =>
        let* (oy, r) := read_vlc mvd_table r in
        match oy with
        | None => Err EInvalidMvd
        | Some y => Ok ((x, y), r)
        end
    end.

Definition decode_cbpb (r : reader) : res (unit * reader) :=
  let* (_, r) := read_bits 8 1 r in let* (_, r) := read_bits 8 1 r in
  let* (_, r) := read_bits 8 1 r in let* (_, r) := read_bits 8 1 r in
  let* (_, r) := read_bits 8 1 r in let* (_, r) := read_bits 8 1 r in
  Ok (tt, r).

Definition is_iframe (t : ptype_code) : bool := match t with IFrame => true | _ => false end.
Definition is_any_pbframe (t : ptype_code) : bool :=
  match t with PbFrame | ImprovedPbFrame => true | _ => false end.
Definition is_disposable (t : ptype_code) : bool := match t with DisposablePFrame => true | _ => false end.

Definition decode_macroblock (pic : picture) (running : Z) (r : reader) : res (macroblock * reader) :=
  let* (cod, r) := (if is_iframe (picture_type pic) then Ok (0, r) else read_bits 8 1 r) in
  if negb (cod =? 0) then Ok (MbUncoded, r) else
  let* (mcbpc, r) :=
    (match picture_type pic with
     | IFrame => read_vlc mcbpc_i_table r
     | PFrame | DisposablePFrame => read_vlc mcbpc_p_table r
     | _ => Err EUnimplemented
     end) in
  match mcbpc with
  | BpStuffing => Ok (MbStuffing, r)
  | BpInvalid => Err EInvalidMacroblockHeader
  | BpValid t cb cr =>
      let* ((has_cbpb, has_mvdb), r) :=
        (match picture_type pic with PbFrame => read_vlc modb_table r | _ => Ok ((false, false), r) end) in
      let* (ocbpy, r) := read_vlc cbpy_table_intra r in
      match ocbpy with
      | None => Err EInvalidMacroblockCodedBits
      | Some v =>
          let luma := if mb_is_intra t then v else map negb v in
          let* r := (if has_cbpb then let* (_, r) := decode_cbpb r in Ok r else Ok r) in
          if has running MODIFIED_QUANTIZATION then Err EUnimplemented else
          let* (dq, r) := (if mb_has_quantizer t then let* (d, r) := decode_dquant r in Ok (Some d, r)
                            else Ok (None, r)) in
          let* (mvd, r) := (if mb_is_inter t || is_any_pbframe (picture_type pic)
                             then let* (m, r) := decode_motion_vector pic running r in Ok (Some m, r)
                             else Ok (None, r)) in
          let* (addl, r) := (if mb_has_fourvec t then
                                let* (m2, r) := decode_motion_vector pic running r in
                                let* (m3, r) := decode_motion_vector pic running r in
                                let* (m4, r) := decode_motion_vector pic running r in
                                Ok (Some (m2, m3, m4), r)
                              else Ok (None, r)) in
          let* r := (if has_mvdb then
                       let* (_, r) := decode_motion_vector pic running r in
                       let* (_, r) := decode_motion_vector pic running r in
                       let* (_, r) := decode_motion_vector pic running r in
                       let* (_, r) := decode_motion_vector pic running r in
                       Ok r
                     else Ok r) in
          Ok (MbCoded t (mkCbp luma cb cr) dq mvd addl, r)
      end
  end.

(* ---- block layer ---- *)
Record tcoef := mkTcoef { is_short : bool; t_run : Z; t_level : Z }.
Record block := mkBlock { intradc : option Z; tcoefs : list tcoef }.

(* IntraDc::from_u8 *)
Definition intradc_from_u8 (v : Z) : option Z := if (v =? 0) || (v =? 128) then None else Some v.
(* IntraDc::into_level *)
Definition intradc_level (v : Z) : Z := if v =? 255 then 1024 else 8 * v.

Fixpoint tcoef_go (fuel : nat) (sorenson_v1 : bool) (running : Z) (acc : list tcoef) (r : reader)
  : res (list tcoef * reader) :=
  match fuel with
  | O => OutOfFuel
  | S f =>
      let* (st, r) := read_vlc tcoef_table r in
      match st with
      | None => Err EInvalidShortCoefficient
      | Some EscapeToLong =>
          let* (width, r) :=
            (if sorenson_v1 then
               let* (b, r) := read_bits 8 1 r in Ok (if b =? 1 then 11 else 7, r)
             else Ok (8, r)) in
          let* (last, r) := read_bits 8 1 r in
          let* (run, r) := read_bits 8 6 r in
          let* (level, r) := read_signed_bits 16 width r in
          if level =? 0 then Err EInvalidLongCoefficient else
          (* `level == i16::MAX << level_width` compares with -256 / -128 / -2048: never true *)
          let acc := acc ++ [mkTcoef false run level] in
          if last =? 1 then Ok (acc, r) else tcoef_go f sorenson_v1 running acc r
      | Some (Run last run level) =>
          let* (sign, r) := read_bits 8 1 r in
          let acc := acc ++ [mkTcoef true run (if sign =? 0 then level else - level)] in
          if last then Ok (acc, r) else tcoef_go f sorenson_v1 running acc r
      end
  end.

Definition decode_block (o : dec_opts) (pic : picture) (running : Z) (t : mbtype) (tcoef_present : bool)
  (r : reader) : res (block * reader) :=
  let* (dc, r) :=
    (if mb_is_intra t then
       let* (v, r) := read_u8 r in
       match intradc_from_u8 v with Some d => Ok (Some d, r) | None => Err EInvalidIntraDc end
     else Ok (None, r)) in
  if tcoef_present then
    let v1 := sorenson o && (match version pic with Some 1 => true | _ => false end) in
    let* (ts, r) := tcoef_go (S (length (rbits r))) v1 running [] r in
    Ok (mkBlock dc ts, r)
  else Ok (mkBlock dc [], r).

(* ---- GOB layer (stub in the code: only the resynchronisation probe) ---- *)
(* Ok None: a picture start code or end-of-sequence code follows (reader
   unchanged); GOB headers proper are unimplemented. *)
Definition decode_gob (r0 : reader) : res (option unit) :=
  let* sc := recognize_start_code false r0 in
  match sc with
  | None => Err EInvalidGobHeader
  | Some skipped =>
      let* r := skip_bits (17 + skipped) r0 in
      let* (gob_id, r) := read_bits 8 5 r in
      if (gob_id =? 0) || (gob_id =? 15) then Ok None else Err EUnimplemented
  end.
