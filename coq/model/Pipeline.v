(* The post-processing pipeline a player applies to a decoded picture (C13):
   deblock each plane with the strength tabulated for the picture quantizer,
   then convert to RGBA. *)
From H263V Require Import base.Prelude model.Types model.Reader model.Header model.Syntax model.F32 model.Recon
  model.Decoder model.Deblock model.Yuv.

Definition pipeline (d : decoded_picture) : res (list Z) :=
  let w := d_width d in
  let q := quantizer (d_header d) in
  let s := nth (Z.to_nat (Z.min q 31)) quant_to_strength 0 in
  let* y := deblock (plane_data (d_luma d)) w s in
  let* cb := deblock (plane_data (d_cb d)) (d_chroma_w d) s in
  let* cr := deblock (plane_data (d_cr d)) (d_chroma_w d) s in
  yuv420_to_rgba y cb cr w.
