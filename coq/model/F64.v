(* binary64 arithmetic for the two places where the decoder computes macroblock counts in f64
   (`(w as f64 / 16.0).ceil() as usize` in decode_next_picture): Flocq's BinarySingleNaN operations at
   precision 53, emax 1024, round-to-nearest-even. *)
From Coq Require Import ZArith Lia.
From Flocq Require Import Core IEEE754.BinarySingleNaN.
From H263V Require Import base.Prelude.

Definition prec64 : Z := 53.
Definition emax64 : Z := 1024.
#[export] Instance prec64_gt_0 : FLX.Prec_gt_0 prec64.
Proof. unfold FLX.Prec_gt_0, prec64. lia. Qed.
#[export] Instance prec64_lt_emax : Prec_lt_emax prec64 emax64.
Proof. unfold Prec_lt_emax, prec64, emax64. lia. Qed.

Definition f64 := binary_float prec64 emax64.
Definition d_of_Z (z : Z) : f64 := binary_normalize prec64 emax64 _ _ mode_NE z 0 false.
Definition ddiv (a b : f64) : f64 := Bdiv mode_NE a b.
Definition dceil (x : f64) : f64 := Bnearbyint mode_UP x.
(* `x as usize`: truncation toward zero, saturating, NaN -> 0 *)
Definition d_to_usize (x : f64) : Z :=
  match x with
  | B754_nan => 0
  | B754_infinity s => if s then 0 else 18446744073709551615
  | _ => clamp 0 18446744073709551615 (Btrunc x)
  end.
