(* binary32 arithmetic for the IDCT model: Flocq's BinarySingleNaN operations at
   precision 24, emax 128, round-to-nearest-even, in source order (Rust never
   contracts to FMA, LLVM does not reassociate without fast-math, x86-64 uses
   SSE scalar/vector single precision). *)
From Coq Require Import ZArith Lia.
From Flocq Require Import Core IEEE754.BinarySingleNaN.
From H263V Require Import base.Prelude.

Definition prec32 : Z := 24.
Definition emax32 : Z := 128.
#[export] Instance prec32_gt_0 : FLX.Prec_gt_0 prec32.
Proof. unfold FLX.Prec_gt_0, prec32. lia. Qed.
#[export] Instance prec32_lt_emax : Prec_lt_emax prec32 emax32.
Proof. unfold Prec_lt_emax, prec32, emax32. lia. Qed.

Definition f32 := binary_float prec32 emax32.

Definition fadd (a b : f32) : f32 := Bplus mode_NE a b.
Definition fmul (a b : f32) : f32 := Bmult mode_NE a b.
Definition fdiv (a b : f32) : f32 := Bdiv mode_NE a b.

(* m * 2^e rounded to nearest even; exact for the integers and table constants used *)
Definition f_of_me (m e : Z) : f32 := binary_normalize prec32 emax32 _ _ mode_NE m e false.
Definition f_of_Z (z : Z) : f32 := f_of_me z 0.
Definition f_zero : f32 := B754_zero false.
Definition f_half : f32 := f_of_me 1 (-1).
Definition f_four : f32 := f_of_Z 4.

(* f32::signum: 1.0 for positive values and +0.0, -1.0 for negative values and -0.0, NaN for NaN *)
Definition fsignum (x : f32) : f32 :=
  match x with
  | B754_nan => B754_nan
  | _ => if Bsign x then f_of_Z (-1) else f_of_Z 1
  end.

(* `x as i16`: truncation toward zero, saturating, NaN -> 0 *)
Definition f_to_i16 (x : f32) : Z :=
  match x with
  | B754_zero _ => 0
  | B754_nan => 0
  | B754_infinity s => if s then -32768 else 32767
  | B754_finite s m e _ =>
      let mag := if 0 <=? e then Z.pos m * 2 ^ e else Z.pos m / 2 ^ (- e) in
      clamp (-32768) 32767 (if s then - mag else mag)
  end.

(* f32::ceil and `x as usize` (truncation toward zero, saturating, NaN -> 0): used by DecodedPicture::new *)
Definition fceil (x : f32) : f32 := Bnearbyint mode_UP x.
Definition f_to_usize (x : f32) : Z :=
  match x with
  | B754_nan => 0
  | B754_infinity s => if s then 0 else 18446744073709551615
  | _ => clamp 0 18446744073709551615 (Btrunc x)
  end.
