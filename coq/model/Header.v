(* Model of parser/picture.rs: the picture-layer header, Sorenson and standard
   H.263 (PTYPE, PLUSPTYPE and its followers), on the abstract reader. *)
From H263V Require Import base.Prelude model.Types model.Tables model.Reader.

Inductive par_t :=
| Square | Par12_11 | Par10_11 | Par16_11 | Par40_33
| ParReserved (r : Z)
| ParExtended (w h : Z).

Inductive source_format :=
| SubQcif | QuarterCif | FullCif | FourCif | SixteenCif
| SfReserved
| Extended (par : par_t) (w h : Z).

Inductive ptype_code :=
| IFrame | PFrame | PbFrame | ImprovedPbFrame | BFrame | EiFrame | EpFrame
| PtReserved (r : Z)
| DisposablePFrame.

Inductive mvrange := MvExtended | MvUnlimited.

(* PictureOption bits (hand copies; bridged to the regenerated list) *)
Definition USE_SPLIT_SCREEN := 1.
Definition USE_DOCUMENT_CAMERA := 2.
Definition RELEASE_FULL_PICTURE_FREEZE := 4.
Definition UNRESTRICTED_MOTION_VECTORS := 8.
Definition SYNTAX_BASED_ARITHMETIC_CODING := 16.
Definition ADVANCED_PREDICTION := 32.
Definition ADVANCED_INTRA_CODING := 64.
Definition DEBLOCKING_FILTER := 128.
Definition SLICE_STRUCTURED := 256.
Definition REFERENCE_PICTURE_SELECTION := 512.
Definition INDEPENDENT_SEGMENT_DECODING := 1024.
Definition ALTERNATIVE_INTER_VLC := 2048.
Definition MODIFIED_QUANTIZATION := 4096.
Definition REFERENCE_PICTURE_RESAMPLING := 8192.
Definition REDUCED_RESOLUTION_UPDATE := 16384.
Definition ROUNDING_TYPE_ONE := 32768.
Definition USE_DEBLOCKER := 65536.
Definition all_option_bits : list Z :=
  [USE_SPLIT_SCREEN; USE_DOCUMENT_CAMERA; RELEASE_FULL_PICTURE_FREEZE; UNRESTRICTED_MOTION_VECTORS;
   SYNTAX_BASED_ARITHMETIC_CODING; ADVANCED_PREDICTION; ADVANCED_INTRA_CODING; DEBLOCKING_FILTER;
   SLICE_STRUCTURED; REFERENCE_PICTURE_SELECTION; INDEPENDENT_SEGMENT_DECODING; ALTERNATIVE_INTER_VLC;
   MODIFIED_QUANTIZATION; REFERENCE_PICTURE_RESAMPLING; REDUCED_RESOLUTION_UPDATE; ROUNDING_TYPE_ONE;
   USE_DEBLOCKER].

Definition has (opts flag : Z) : bool := Z.land opts flag =? flag.
Definition flag_if (c : bool) (flag : Z) : Z := if c then flag else 0.

(* DecoderOption *)
Record dec_opts := mkOpts { sorenson : bool; scalability : bool }.

Record picture := mkPicture {
  version : option Z;
  temporal_reference : Z;
  format : option source_format;
  options : Z;
  has_plusptype : bool;
  has_opptype : bool;
  picture_type : ptype_code;
  motion_vector_range : option mvrange;
  slice_submode : option Z;                       (* bit 0 RECTANGULAR_SLICES, bit 1 ARBITRARY_ORDER *)
  scalability_layer : option (Z * option Z);      (* enhancement, reference *)
  rps_mode : option Z;                            (* bit 0 RESERVED, 1 NACK, 2 ACK *)
  prediction_reference : option Z;
  quantizer : Z;
  multiplex_bitstream : option Z;
  pb_reference : option Z;
  pb_quantizer : option Z;                        (* 5..8 quarters *)
  extra : list Z
}.
(* backchannel_message and reference_picture_resampling are always None in a
   successfully parsed header (BCM and RPRP are unimplemented and fail). *)

Definition into_width_and_height (f : source_format) : option (Z * Z) :=
  match f with
  | SubQcif => Some (128, 96)
  | QuarterCif => Some (176, 144)
  | FullCif => Some (352, 288)
  | FourCif => Some (704, 576)
  | SixteenCif => Some (1408, 1152)
  | SfReserved => None
  | Extended _ w h => Some (w, h)
  end.

Definition tb (v : Z) (i : Z) : bool := Z.testbit v i.

(* decode_ptype: 8 bits, then (unless PLUSPTYPE follows) 5 more *)
Definition decode_ptype (r : reader) : res ((Z * option (source_format * ptype_code)) * reader) :=
  let* (hi, r) := read_u8 r in
  if negb (Z.land hi 192 =? 128) then Err EInvalidPType else
  let opts := flag_if (tb hi 5) USE_SPLIT_SCREEN + flag_if (tb hi 4) USE_DOCUMENT_CAMERA
              + flag_if (tb hi 3) RELEASE_FULL_PICTURE_FREEZE in
  let sf := Z.land hi 7 in
  if sf =? 0 then Err EInvalidPType else
  if sf =? 7 then Ok ((opts, None), r) else
  let fmt := if sf =? 1 then SubQcif else if sf =? 2 then QuarterCif else if sf =? 3 then FullCif
             else if sf =? 4 then FourCif else if sf =? 5 then SixteenCif else SfReserved in
  let* (lo, r) := read_bits 8 5 r in
  (* bit 9 of PTYPE: "0" INTRA, "1" INTER *)
  let ty := if tb lo 4 then PFrame else IFrame in
  let opts := opts + flag_if (tb lo 3) UNRESTRICTED_MOTION_VECTORS
              + flag_if (tb lo 2) SYNTAX_BASED_ARITHMETIC_CODING + flag_if (tb lo 1) ADVANCED_PREDICTION in
  let ty := if tb lo 0 then PbFrame else ty in
  Ok ((opts, Some (fmt, ty)), r).

(* PlusPTypeFollower *)
Record followers := mkFollowers {
  f_custom_format : bool; f_custom_clock : bool; f_mv_range : bool; f_slice_submode : bool;
  f_ref_layer : bool; f_rps_mode : bool }.
Definition no_followers := mkFollowers false false false false false false.

Definition decode_plusptype (o : dec_opts) (prev_options : Z) (r : reader)
  : res ((Z * option source_format * ptype_code * followers * bool) * reader) :=
  let* (ufep, r) := read_bits 8 3 r in
  if negb ((ufep =? 0) || (ufep =? 1)) then Err EInvalidPlusPType else
  let has_opp := ufep =? 1 in
  let* (opts, sf, fol, r) :=
    (if has_opp then
       let* (opp, r) := read_bits 32 18 r in
       if negb (Z.land opp 15 =? 8) then Err EInvalidPlusPType else
       let f := Z.shiftr (Z.land opp 229376) 15 in
       let sf := if f =? 0 then Some SfReserved else if f =? 1 then Some SubQcif
                 else if f =? 2 then Some QuarterCif else if f =? 3 then Some FullCif
                 else if f =? 4 then Some FourCif else if f =? 5 then Some SixteenCif
                 else if f =? 6 then None else Some SfReserved in
       let opts := flag_if (tb opp 13) UNRESTRICTED_MOTION_VECTORS
                   + flag_if (tb opp 12) SYNTAX_BASED_ARITHMETIC_CODING
                   + flag_if (tb opp 11) ADVANCED_PREDICTION
                   + flag_if (tb opp 10) ADVANCED_INTRA_CODING
                   + flag_if (tb opp 9) DEBLOCKING_FILTER
                   + flag_if (tb opp 8) SLICE_STRUCTURED
                   + flag_if (tb opp 7) REFERENCE_PICTURE_SELECTION
                   + flag_if (tb opp 6) INDEPENDENT_SEGMENT_DECODING
                   + flag_if (tb opp 5) ALTERNATIVE_INTER_VLC
                   + flag_if (tb opp 4) MODIFIED_QUANTIZATION in
       let fol := mkFollowers (f =? 6) (tb opp 14) (tb opp 13) (tb opp 8) (scalability o) (tb opp 7) in
       Ok (opts, sf, fol, r)
     else Ok (Z.land prev_options opptype_options_parser, None, no_followers, r)) in
  let* (mpp, r) := read_bits 16 9 r in
  if negb (Z.land mpp 7 =? 1) then Err EInvalidPlusPType else
  let t := Z.shiftr (Z.land mpp 448) 6 in
  let ty := if t =? 0 then IFrame else if t =? 1 then PFrame else if t =? 2 then ImprovedPbFrame
            else if t =? 3 then BFrame else if t =? 4 then EiFrame else if t =? 5 then EpFrame
            else PtReserved t in
  let opts := Z.lor opts (flag_if (tb mpp 5) REFERENCE_PICTURE_RESAMPLING
                          + flag_if (tb mpp 4) REDUCED_RESOLUTION_UPDATE
                          + flag_if (tb mpp 3) ROUNDING_TYPE_ONE) in
  Ok ((opts, sf, ty, fol, has_opp), r).

Definition decode_sorenson_ptype (r : reader) : res ((source_format * ptype_code * Z) * reader) :=
  let* (code, r) := read_bits 32 3 r in
  let* (fmt, r) :=
    (if (code =? 0) || (code =? 1) then
       let n := if code =? 0 then 8 else 16 in
       let* (w, r) := read_bits 16 n r in
       let* (h, r) := read_bits 16 n r in
       Ok (Extended Square w h, r)
     else if code =? 2 then Ok (FullCif, r)
     else if code =? 3 then Ok (QuarterCif, r)
     else if code =? 4 then Ok (SubQcif, r)
     else if code =? 5 then Ok (Extended Square 320 240, r)
     else if code =? 6 then Ok (Extended Square 160 120, r)
     else Ok (SfReserved, r)) in
  let* (t, r) := read_bits 32 2 r in
  let ty := if t =? 0 then IFrame else if t =? 1 then PFrame else if t =? 2 then DisposablePFrame
            else PtReserved t in
  let* (d, r) := read_bits 8 1 r in
  Ok ((fmt, ty, flag_if (d =? 1) USE_DEBLOCKER), r).

Definition decode_cpm_and_psbi (r : reader) : res (option Z * reader) :=
  let* (cpm, r) := read_bits 8 1 r in
  if negb (cpm =? 0) then
    let* (psbi, r) := read_bits 8 2 r in Ok (Some psbi, r)
  else Ok (None, r).

Definition decode_cpfmt (r : reader) : res (source_format * reader) :=
  let* (cpfmt, r) := read_bits 32 23 r in
  if Z.land cpfmt 512 =? 0 then Err EPictureFormatInvalid else
  let p := Z.shiftr (Z.land cpfmt 7864320) 19 in
  let* (par, r) :=
    (if p =? 0 then Err EPictureFormatInvalid
     else if p =? 1 then Ok (Square, r)
     else if p =? 2 then Ok (Par12_11, r)
     else if p =? 3 then Ok (Par10_11, r)
     else if p =? 4 then Ok (Par16_11, r)
     else if p =? 5 then Ok (Par40_33, r)
     else if p =? 15 then
       let* (pw, r) := read_u8 r in
       let* (ph, r) := read_u8 r in
       if (pw =? 0) || (ph =? 0) then Err EPictureFormatInvalid else Ok (ParExtended pw ph, r)
     else Ok (ParReserved p, r)) in
  let w := (Z.shiftr (Z.land cpfmt 523264) 10 + 1) * 4 in
  let h := Z.land cpfmt 511 * 4 in
  Ok (Extended par w h, r).

Definition decode_uui (r : reader) : res (mvrange * reader) :=
  let* (a, r) := read_bits 8 1 r in
  if a =? 1 then Ok (MvExtended, r) else
  let* (b, r) := read_bits 8 1 r in
  if b =? 1 then Ok (MvUnlimited, r) else Err EInvalidBitstream.

(* SSS: first bit Rectangular Slices, second bit Arbitrary Slice Ordering *)
Definition decode_sss (r : reader) : res (Z * reader) :=
  let* (b, r) := read_bits 8 2 r in
  Ok (flag_if (tb b 1) 1 + flag_if (tb b 0) 2, r).

Definition decode_elnum_rlnum (fol : followers) (r : reader) : res ((Z * option Z) * reader) :=
  let* (e, r) := read_bits 8 4 r in
  if f_ref_layer fol then
    let* (l, r) := read_bits 8 4 r in Ok ((e, Some l), r)
  else Ok ((e, None), r).

Definition decode_rpsmf (r : reader) : res (Z * reader) :=
  let* (b, r) := read_bits 8 3 r in
  Ok (flag_if (negb (tb b 2)) 1 + flag_if (tb b 1) 2 + flag_if (tb b 0) 4, r).

Definition decode_trpi (r : reader) : res (option Z * reader) :=
  let* (t, r) := read_bits 8 1 r in
  if t =? 1 then let* (trp, r) := read_bits 16 10 r in Ok (Some trp, r) else Ok (None, r).

Definition decode_bcm (r : reader) : res (unit * reader) :=
  let* (bci, r) := read_bits 8 1 r in
  if bci =? 1 then Err EUnimplemented else
  let* (nb, r) := read_bits 8 1 r in
  if nb =? 1 then Ok (tt, r) else Err EInvalidBitstream.

Fixpoint decode_pei (fuel : nat) (acc : list Z) (r : reader) : res (list Z * reader) :=
  match fuel with
  | O => OutOfFuel
  | S f =>
      let* (p, r) := read_bits 8 1 r in
      if p =? 1 then
        let* (b, r) := read_u8 r in decode_pei f (acc ++ [b]) r
      else Ok (acc, r)
  end.

Definition format_eqb (a b : option source_format) : bool :=
  let par_eqb (p q : par_t) :=
    match p, q with
    | Square, Square | Par12_11, Par12_11 | Par10_11, Par10_11 | Par16_11, Par16_11 | Par40_33, Par40_33 => true
    | ParReserved x, ParReserved y => x =? y
    | ParExtended a b, ParExtended c d => (a =? c) && (b =? d)
    | _, _ => false
    end in
  match a, b with
  | None, None => true
  | Some x, Some y =>
      match x, y with
      | SubQcif, SubQcif | QuarterCif, QuarterCif | FullCif, FullCif | FourCif, FourCif
      | SixteenCif, SixteenCif | SfReserved, SfReserved => true
      | Extended p w h, Extended q w' h' => par_eqb p q && (w =? w') && (h =? h')
      | _, _ => false
      end
  | _, _ => false
  end.

(* decode_picture.  Ok None: a GOB header rather than a picture header (the
   reader is then left where it was: with_transaction_union). *)
Definition decode_picture (o : dec_opts) (prev : option picture) (r0 : reader)
  : res (option picture * reader) :=
  let* sc := recognize_start_code false r0 in
  match sc with
  | None => Err EMiddleOfBitstream
  | Some skipped =>
  let* r := skip_bits (17 + skipped) r0 in
  let* (gob_id, r) := read_bits 8 5 r in
  if sorenson o then
    let* (tr, r) := read_u8 r in
    let* ((fmt, ty, opts), r) := decode_sorenson_ptype r in
    let* (q, r) := read_bits 8 5 r in
    let* (extra, r) := decode_pei (S (length (rbits r))) [] r in
    Ok (Some (mkPicture (Some gob_id) tr (Some fmt) opts false false ty (Some MvUnlimited)
                        None None None None q None None None extra), r)
  else if negb (gob_id =? 0) then Ok (None, r0)
  else
    let* (low_tr, r) := read_u8 r in
    let* ((opts, fat), r) := decode_ptype r in
    let* (opts, fmt, ty, fol, plus, opp, mux, r) :=
      (match fat with
       | Some (fmt, ty) => Ok (opts, Some fmt, ty, no_followers, false, false, None, r)
       | None =>
           let* ((xo, fmt, ty, fol, opp), r) :=
             decode_plusptype o (match prev with Some p => options p | None => 0 end) r in
           let* (mux, r) := decode_cpm_and_psbi r in
           Ok (Z.lor opts xo, fmt, ty, fol, true, opp, Some mux, r)
       end) in
    let* (fmt, r) := (if f_custom_format fol then let* (f, r) := decode_cpfmt r in Ok (Some f, r) else Ok (fmt, r)) in
    let* (clock, r) := (if f_custom_clock fol then let* (c, r) := read_u8 r in Ok (Some c, r) else Ok (None, r)) in
    let* (tr, r) := (match clock with
                      | Some _ => let* (hi, r) := read_bits 16 2 r in Ok (Z.lor (Z.shiftl hi 8) low_tr, r)
                      | None => Ok (low_tr, r)
                      end) in
    let* (mvr, r) := (if f_mv_range fol then let* (m, r) := decode_uui r in Ok (Some m, r) else Ok (None, r)) in
    let* (sss, r) := (if f_slice_submode fol then let* (s, r) := decode_sss r in Ok (Some s, r) else Ok (None, r)) in
    let* (layer, r) := (if scalability o then let* (l, r) := decode_elnum_rlnum fol r in Ok (Some l, r) else Ok (None, r)) in
    let* (rpsm, r) := (if f_rps_mode fol then let* (m, r) := decode_rpsmf r in Ok (Some m, r) else Ok (None, r)) in
    let* (trp, r) := (if has opts REFERENCE_PICTURE_SELECTION then decode_trpi r else Ok (None, r)) in
    let* r := (if has opts REFERENCE_PICTURE_SELECTION then let* (_, r) := decode_bcm r in Ok r else Ok r) in
    let* _ := (if has opts REFERENCE_PICTURE_RESAMPLING
                  || negb (match ty with IFrame => true | _ => false end)   (* an INTRA picture has nothing to resample *)
                     && (match prev with
                      | Some p => (match format p, fmt with
                                   | Some _, Some _ => negb (format_eqb (format p) fmt)   (* only two transmitted formats can differ *)
                                   | _, _ => false
                                   end)
                      | None => false
                      end)
               then Err EUnimplemented else Ok tt) in
    let* (q, r) := read_bits 8 5 r in
    let* (mux, r) := (match mux with Some m => Ok (m, r) | None => decode_cpm_and_psbi r end) in
    let* (pbr, pbq, r) :=
      (match ty with
       | PbFrame | ImprovedPbFrame =>
           let* (trb, r) := read_bits 8 (match clock with Some _ => 5 | None => 3 end) r in
           let* (dbq, r) := read_bits 8 2 r in
           Ok (Some trb, Some (5 + dbq), r)
       | _ => Ok (None, None, r)
       end) in
    let* (extra, r) := decode_pei (S (length (rbits r))) [] r in
    Ok (Some (mkPicture None tr fmt opts plus opp ty mvr sss layer rpsm trp q mux pbr pbq extra), r)
  end.
