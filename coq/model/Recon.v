(* Model of decoder/cpu/{rle,mvd_pred,gather,idct}.rs and decoder/picture.rs. *)
From Flocq Require Import Core IEEE754.BinarySingleNaN.
From H263V Require Import base.Prelude model.Types model.Tables model.Reader model.Header model.Syntax model.F32.

(* ------------------------------------------------------------------ loops *)
(* for i in 0..n { a = f(i, a)? } *)
Fixpoint for_go {A} (n : nat) (i : Z) (f : Z -> A -> res A) (a : A) : res A :=
  match n with
  | O => Ok a
  | S n' => let* a' := f i a in for_go n' (i + 1) f a'
  end.
Definition forZ {A} (n : Z) (f : Z -> A -> res A) (a : A) : res A := for_go (Z.to_nat n) 0 f a.

(* ------------------------------------------------------------------ planes *)
(* A Vec<u8> addressed as x + y*width; stored by rows for speed, indexed flat
   as in the code (out-of-range flat index = slice panic). *)
Record plane := mkPlane { pw : Z; prows : list (list Z) }.
Definition plane_len (p : plane) : Z := pw p * zlength (prows p).
Definition new_plane (w h : Z) : plane := mkPlane w (repeatZ (repeatZ 0 w) h).
Definition plane_data (p : plane) : list Z := concat (prows p).

Definition pget (p : plane) (idx : Z) : res Z :=
  if (idx <? 0) || (plane_len p <=? idx) then Panic PIndex
  else Ok (nth (Z.to_nat (idx mod pw p)) (nth (Z.to_nat (idx / pw p)) (prows p) []) 0).

Fixpoint upd_nth {A} (l : list A) (n : nat) (f : A -> A) : list A :=
  match l, n with
  | [], _ => []
  | h :: t, O => f h :: t
  | h :: t, S n' => h :: upd_nth t n' f
  end.
Definition pset (p : plane) (idx v : Z) : res plane :=
  if (idx <? 0) || (plane_len p <=? idx) then Panic PIndex
  else Ok (mkPlane (pw p) (upd_nth (prows p) (Z.to_nat (idx / pw p))
                                   (fun row => upd_nth row (Z.to_nat (idx mod pw p)) (fun _ => v)))).

(* ------------------------------------------------------------------ decoded picture *)
Record decoded_picture := mkDecoded {
  d_header : picture;
  d_format : source_format;
  d_luma : plane;
  d_cb : plane;
  d_cr : plane;
  d_chroma_w : Z
}.

(* DecodedPicture::new: ceil(w/2) via f32 -- exact for every u16: proved in bridge/BridgeKPicture.v (half_exact) about the
   sizes translated from the source (gen/GenKPicture.v) *)
Definition new_decoded (hdr : picture) (fmt : source_format) : option decoded_picture :=
  match into_width_and_height fmt with
  | None => None
  | Some (w, h) =>
      let cw := (w + 1) / 2 in
      let ch := (h + 1) / 2 in
      Some (mkDecoded hdr fmt (new_plane w h) (new_plane cw ch) (new_plane cw ch) cw)
  end.

Definition d_width (d : decoded_picture) : Z :=
  match into_width_and_height (d_format d) with Some (w, _) => w | None => 0 end.
Definition d_height (d : decoded_picture) : Z :=
  match into_width_and_height (d_format d) with Some (_, h) => h | None => 0 end.

(* ------------------------------------------------------------------ rle.rs *)
Inductive dct_block :=
| DctZero
| DctDc (v : Z)
| DctHoriz (row : list Z)
| DctVert (col : list Z)
| DctFull (rows : list (list Z)).    (* rows[y][x] *)

(* one coefficient: quant*(2|L|+1), minus 1 for even quant, signed, saturated *)
Definition dequant (quant level : Z) : Z :=
  let d := quant * (2 * Z.abs level + 1) in
  let parity := if Z.rem quant 2 =? 1 then 0 else -1 in
  clamp (-2048) 2047 (Z.sgn level * (d + parity)).

Definition mat_get (m : list (list Z)) (x y : Z) : Z := nth (Z.to_nat x) (nth (Z.to_nat y) m []) 0.
Definition mat_set (m : list (list Z)) (x y v : Z) : list (list Z) :=
  upd_nth m (Z.to_nat y) (fun row => upd_nth row (Z.to_nat x) (fun _ => v)).
Definition zero_mat : list (list Z) := repeat (repeat 0 8%nat) 8%nat.

(* the tcoef loop: returns None on the early `return` (zig-zag index >= 64),
   which leaves the level block untouched *)
Fixpoint rle_go (ts : list tcoef) (quant zz : Z) (m : list (list Z)) (is_horiz is_vert : bool)
  : option (list (list Z) * bool * bool) :=
  match ts with
  | [] => Some (m, is_horiz, is_vert)
  | t :: ts' =>
      let zz := zz + t_run t in
      if 64 <=? zz then None else
      let '(zx, zy) := nth (Z.to_nat zz) dezigzag_mapping (0, 0) in
      let v := dequant quant (t_level t) in
      let m := mat_set m zx zy v in
      let is_horiz := if negb (v =? 0) && (0 <? zy) then false else is_horiz in
      let is_vert := if negb (v =? 0) && (0 <? zx) then false else is_vert in
      rle_go ts' quant (zz + 1) m is_horiz is_vert
  end.

Definition inverse_rle_block (b : block) (quant : Z) : option dct_block :=
  match tcoefs b with
  | [] =>
      match intradc b with
      | Some dc => let l := intradc_level dc in Some (if l =? 0 then DctZero else DctDc l)
      | None => Some DctZero
      end
  | ts =>
      let '(m, zz) := match intradc b with
                      | Some dc => (mat_set zero_mat 0 0 (intradc_level dc), 1)
                      | None => (zero_mat, 0)
                      end in
      match rle_go ts quant zz m true true with
      | None => None
      | Some (m, true, true) => Some (if mat_get m 0 0 =? 0 then DctZero else DctDc (mat_get m 0 0))
      | Some (m, true, false) => Some (DctHoriz (nth 0 m []))
      | Some (m, false, true) => Some (DctVert (map (fun row => nth 0 row 0) m))
      | Some (m, false, false) => Some (DctFull m)
      end
  end.

(* inverse_rle(encoded_block, levels, pos, blk_per_line, quant) *)
Definition inverse_rle (b : block) (levels : list dct_block) (px py blk_per_line quant : Z)
  : res (list dct_block) :=
  let block_id := px / 8 + (py / 8) * blk_per_line in
  let* _ := get levels block_id in
  match inverse_rle_block b quant with
  | None => Ok levels
  | Some d => set levels block_id d
  end.

(* ------------------------------------------------------------------ types.rs HalfPel *)
(* HalfPel + HalfPel: saturating i16 addition *)
Definition hadd (a b : Z) : Z := clamp (-32768) 32767 (a + b).
Definition mv_add (a b : mv) : mv := (hadd (fst a) (fst b), hadd (snd a) (snd b)).

Definition into_lerp_parameters (h : Z) : Z * bool :=
  if Z.rem h 2 =? 0 then (Z.quot h 2, false)
  else if h <? 0 then (Z.quot h 2 - 1, true)
  else (Z.quot h 2, true).

Definition invert (h : Z) : Z := if 0 <? h then h - 64 else if h <? 0 then h + 64 else h.
Definition is_mv_within_range (h range : Z) : bool := (- range <=? h) && (h <? range).

Definition average_sum_of_mvs (s : Z) : Z :=
  let whole := Z.shiftl (Z.shiftr s 4) 1 in
  let frac := Z.land s 15 in
  if frac <=? 2 then whole else if 14 <=? frac then whole + 2 else whole + 1.

Definition median_of (a m r : Z) : Z :=
  if m <? a then
    if m <? r then (if a <? r then a else r) else m
  else if r <? m then (if a <? r then r else a)
  else m.
Definition mv_median (a m r : mv) : mv := (median_of (fst a) (fst m) (fst r), median_of (snd a) (snd m) (snd r)).

(* ------------------------------------------------------------------ mvd_pred.rs *)
Definition mv4 := (mv * mv * mv * mv)%type.
Definition mv4_get (v : mv4) (i : Z) : mv :=
  let '(a, b, c, d) := v in if i =? 0 then a else if i =? 1 then b else if i =? 2 then c else d.
Definition mv4_set (v : mv4) (i : Z) (x : mv) : mv4 :=
  let '(a, b, c, d) := v in
  if i =? 0 then (x, b, c, d) else if i =? 1 then (a, x, c, d) else if i =? 2 then (a, b, x, d) else (a, b, c, x).
Definition mv_zero : mv := (0, 0).
Definition mv4_zero : mv4 := (mv_zero, mv_zero, mv_zero, mv_zero).

Definition predict_candidate (pv : list mv4) (cur : mv4) (mb_per_line index : Z) : res mv :=
  let current_mb := zlength pv in
  let* col_index := rem_chk current_mb mb_per_line in
  let* mv1 :=
    (if (index =? 0) || (index =? 2) then
       if col_index =? 0 then Ok mv_zero
       else let* m := get pv (current_mb - 1) in Ok (mv4_get m (index + 1))
     else if (index =? 1) || (index =? 3) then Ok (mv4_get cur (index - 1))
     else Panic PAssert) in
  let* line_index := div_chk current_mb mb_per_line in
  let last_line_mb := Z.max 0 (line_index - 1) * mb_per_line + col_index in
  let mv2 :=
    if (index =? 0) || (index =? 1) then
      if line_index =? 0 then mv1
      else match nth_error pv (Z.to_nat last_line_mb) with
           | Some m => mv4_get m (index + 2)
           | None => mv1
           end
    else mv4_get cur 0 in
  let is_end_of_line := col_index =? Z.max 0 (mb_per_line - 1) in
  let mv3 :=
    if (index =? 0) || (index =? 1) then
      if is_end_of_line then mv_zero
      else if line_index =? 0 then mv1
      else match nth_error pv (Z.to_nat (last_line_mb + 1)) with
           | Some m => mv4_get m 2
           | None => mv1
           end
    else mv4_get cur 1 in
  Ok (mv_median mv1 mv2 mv3).

Definition halfpel_decode (cur : decoded_picture) (running : Z) (predictor mvd : Z) (is_x : bool) : Z :=
  let out := hadd mvd predictor in
  let umv := has running UNRESTRICTED_MOTION_VECTORS in
  let finish range out := if negb (is_mv_within_range out range) then hadd (invert mvd) predictor else out in
  if umv && negb (has_plusptype (d_header cur)) then
    if is_mv_within_range predictor 32 then out else finish 64 out
  else if umv && (match motion_vector_range (d_header cur) with Some MvExtended => true | _ => false end) then
    let range :=
      match into_width_and_height (d_format cur) with
      | Some (w, h) =>
          if is_x then
            if (0 <=? w) && (w <=? 352) then 64
            else if (356 <=? w) && (w <=? 704) then 128
            else if (708 <=? w) && (w <=? 1408) then 256
            else if (1412 <=? w) && (w <=? 65535) then 512
            else 64
          else
            if (0 <=? h) && (h <=? 288) then 64
            else if (292 <=? h) && (h <=? 576) then 128
            else if (580 <=? h) && (h <=? 65535) then 256
            else 64
      | None => 64
      end in
    finish range out
  else finish 32 out.

Definition mv_decode (cur : decoded_picture) (running : Z) (predictor mvd : mv) : mv :=
  (halfpel_decode cur running (fst predictor) (fst mvd) true,
   halfpel_decode cur running (snd predictor) (snd mvd) false).

(* ------------------------------------------------------------------ gather.rs *)
Definition read_sample (p : plane) (spr rows : Z) (x y : Z) : res Z :=
  let x := clamp 0 (Z.max 0 (spr - 1)) x in
  let y := clamp 0 (Z.max 0 (rows - 1)) y in
  match pget p (x + y * spr) with
  | Ok v => Ok v
  | _ => Panic PAssert       (* .expect("pixel array index out of bounds") *)
  end.

Definition lerp (a b : Z) (middle : bool) : Z := if middle then (a + b + 1) / 2 else a.

Definition gather_block (src : plane) (spr : Z) (px py : Z) (v : mv) (target : plane) : res plane :=
  let '(x_delta, x_interp) := into_lerp_parameters (fst v) in
  let '(y_delta, y_interp) := into_lerp_parameters (snd v) in
  let src_x := px + x_delta in
  let src_y := py + y_delta in
  let* array_height := div_chk (plane_len src) spr in
  let block_cols := clamp 0 8 (spr - px) in
  let block_rows := clamp 0 8 (array_height - py) in
  if negb x_interp && negb y_interp then
    if (block_cols =? 8) && (block_rows =? 8)
       && (0 <=? src_x) && (src_x <=? spr - 8) && (0 <=? src_y) && (src_y <=? array_height - 8) then
      (* whole 8x8 block inside the frame: eight 8-sample slice copies *)
      forZ 8 (fun j t =>
        let src_off := src_x + (src_y + j) * spr in
        let dst_off := px + (py + j) * spr in
        if (plane_len t <? dst_off + 8) || (plane_len src <? src_off + 8) then Panic PIndex else
        forZ 8 (fun i t => let* s := pget src (src_off + i) in pset t (dst_off + i) s) t) target
    else
      forZ block_rows (fun j t =>
        forZ block_cols (fun i t =>
          let* s := read_sample src spr array_height (src_x + i) (src_y + j) in
          pset t (px + i + (py + j) * spr) s) t) target
  else
    forZ block_rows (fun j t =>
      forZ block_cols (fun i t =>
        let u := src_x + i in
        let w := src_y + j in
        let* s00 := read_sample src spr array_height u w in
        let* s10 := read_sample src spr array_height (u + 1) w in
        let* s01 := read_sample src spr array_height u (w + 1) in
        let* s11 := read_sample src spr array_height (u + 1) (w + 1) in
        let s := if x_interp && y_interp then (s00 + s10 + s01 + s11 + 2) / 4
                 else lerp (lerp s00 s10 x_interp) (lerp s01 s11 x_interp) y_interp in
        pset t (px + i + (py + j) * spr) s) t) target.

(* gather(mb_types, reference_picture, mvs, mb_per_line, new_picture) *)
Fixpoint gather_go (items : list (mbtype * mv4)) (i : Z) (reference : option decoded_picture)
  (mb_per_line : Z) (np : decoded_picture) : res decoded_picture :=
  match items with
  | [] => Ok np
  | (t, v) :: rest =>
      if mb_is_inter t then
        match reference with
        | None => Err EUncodedIFrameBlocks
        | Some rp =>
            (* a reference of another size cannot be used for prediction *)
            if negb ((d_width rp =? d_width np) && (d_height rp =? d_height np)) then Err EPictureFormatInvalid else
            let spr := d_width rp in
            let* col := rem_chk i mb_per_line in
            let* line := div_chk i mb_per_line in
            let px := col * 16 in
            let py := line * 16 in
            let* l := gather_block (d_luma rp) spr px py (mv4_get v 0) (d_luma np) in
            let* l := gather_block (d_luma rp) spr (px + 8) py (mv4_get v 1) l in
            let* l := gather_block (d_luma rp) spr px (py + 8) (mv4_get v 2) l in
            let* l := gather_block (d_luma rp) spr (px + 8) (py + 8) (mv4_get v 3) l in
            let sum := mv_add (mv_add (mv_add (mv4_get v 0) (mv4_get v 1)) (mv4_get v 2)) (mv4_get v 3) in
            let mv_chr := (average_sum_of_mvs (fst sum), average_sum_of_mvs (snd sum)) in
            let cspr := d_chroma_w rp in
            let* cb := gather_block (d_cb rp) cspr (col * 8) (line * 8) mv_chr (d_cb np) in
            let* cr := gather_block (d_cr rp) cspr (col * 8) (line * 8) mv_chr (d_cr np) in
            gather_go rest (i + 1) reference mb_per_line
                      (mkDecoded (d_header np) (d_format np) l cb cr (d_chroma_w np))
        end
      else gather_go rest (i + 1) reference mb_per_line np
  end.

(* ------------------------------------------------------------------ idct.rs *)
Definition basis : list (list f32) :=
  map (map (fun t : bool * Z * Z => let '(s, m, e) := t in f_of_me (if s then - m else m) e)) basis_table.
Definition basis_get (freq i : nat) : f32 := nth i (nth freq basis []) f_zero.
Definition basis00 : f32 := basis_get 0 0.

(* idct_1d: out[i] = ((((0 + in[0]*B[0][i]) + in[1]*B[1][i]) + ...) + in[7]*B[7][i] *)
Definition idct_1d (input : list f32) : list f32 :=
  map (fun i => fold_left (fun acc freq => fadd acc (fmul (nth freq input f_zero) (basis_get freq i)))
                          (seq 0 8) f_zero) (seq 0 8).

Definition transpose8 (m : list (list f32)) : list (list f32) :=
  map (fun i => map (fun row => nth i row f_zero) m) (seq 0 8).

(* ((idct * k / 4.0) + idct.signum() * 0.5) as i16, clamped to -256..255 *)
Definition round_clip (scaled sign_src : f32) : Z :=
  clamp (-256) 255 (f_to_i16 (fadd (fdiv scaled f_four) (fmul (fsignum sign_src) f_half))).

Definition add_pixel (out : plane) (spl x y v : Z) : res plane :=
  let* m := pget out (x + y * spl) in
  pset out (x + y * spl) (clamp 0 255 (v + m)).

(* the value added to the sample at offset (xo, yo) of the block: the `clipped_idct` of each variant *)
Inductive idct_vals :=
| VZero
| VConst (v : Z)
| VByX (r : list f32)                 (* Horiz: depends on the column only *)
| VByY (r : list f32)                 (* Vert: depends on the row only *)
| VFull (second : list (list f32)).   (* second[x][y] *)

Definition idct_values (d : dct_block) : idct_vals :=
  match d with
  | DctZero => VZero
  | DctDc dc => let f := f_of_Z dc in VConst (round_clip (fmul f f_half) f)
  | DctHoriz row => VByX (idct_1d (map f_of_Z row))
  | DctVert col => VByY (idct_1d (map f_of_Z col))
  | DctFull rows =>
      let first := map (fun row => idct_1d (map f_of_Z row)) rows in
      VFull (map idct_1d (transpose8 first))
  end.

Definition idct_value_at (v : idct_vals) (xo yo : Z) : Z :=
  match v with
  | VZero => 0
  | VConst c => c
  | VByX r => let idct := nth (Z.to_nat xo) r f_zero in round_clip (fmul idct basis00) idct
  | VByY r => let idct := nth (Z.to_nat yo) r f_zero in round_clip (fmul idct basis00) idct
  | VFull second => let idct := nth (Z.to_nat yo) (nth (Z.to_nat xo) second []) f_zero in round_clip idct idct
  end.

(* the loops of each variant (the Full variant iterates columns outermost) *)
Definition idct_block (d : dct_block) (out : plane) (spl x_base y_base xs ys : Z) : res plane :=
  match d with
  | DctZero => Ok out
  | DctFull _ =>
      let v := idct_values d in
      forZ xs (fun xo o =>
        forZ ys (fun yo o => add_pixel o spl (x_base * 8 + xo) (y_base * 8 + yo) (idct_value_at v xo yo)) o) out
  | _ =>
      let v := idct_values d in
      forZ ys (fun yo o =>
        forZ xs (fun xo o => add_pixel o spl (x_base * 8 + xo) (y_base * 8 + yo) (idct_value_at v xo yo)) o) out
  end.

(* classification of a coefficient matrix m[y][x] as inverse_rle performs it *)
Definition classify (m : list (list Z)) : dct_block :=
  let nz x y := negb (mat_get m x y =? 0) in
  let coords := flat_map (fun y => map (fun x => (Z.of_nat x, Z.of_nat y)) (seq 0 8)) (seq 0 8) in
  let is_horiz := forallb (fun c : Z * Z => let '(x, y) := c in negb (nz x y && (0 <? y))) coords in
  let is_vert := forallb (fun c : Z * Z => let '(x, y) := c in negb (nz x y && (0 <? x))) coords in
  if is_horiz && is_vert then (if mat_get m 0 0 =? 0 then DctZero else DctDc (mat_get m 0 0))
  else if is_horiz then DctHoriz (nth 0 m [])
  else if is_vert then DctVert (map (fun row => nth 0 row 0) m)
  else DctFull m.

(* all 64 values of a block, row-major [y][x] *)
Definition idct_all_values (m : list (list Z)) : list Z :=
  let v := idct_values (classify m) in
  flat_map (fun y => map (fun x => idct_value_at v (Z.of_nat x) (Z.of_nat y)) (seq 0 8)) (seq 0 8).

(* idct_channel(block_levels, output, blk_per_line, output_samples_per_line) *)
Definition idct_channel (levels : list dct_block) (out : plane) (blk_per_line spl : Z) : res plane :=
  let* output_height := div_chk (plane_len out) spl in
  let* blk_height := div_chk (zlength levels) blk_per_line in
  forZ blk_height (fun y_base o =>
    forZ blk_per_line (fun x_base o =>
      let block_id := x_base + y_base * blk_per_line in
      if zlength levels <=? block_id then Ok o else
      let xs := clamp 0 8 (spl - x_base * 8) in
      let ys := clamp 0 8 (output_height - y_base * 8) in
      let* d := get levels block_id in
      idct_block d o spl x_base y_base xs ys) o) out.
