(* Data types shared by the decoder model and the regenerated tables. *)
From H263V Require Import base.Prelude.

(* parser/vlc.rs: array-encoded binary decision tree *)
Inductive entry (T : Type) : Type :=
| End (t : T)
| Fork (zero one : nat).
Arguments End {T} t.
Arguments Fork {T} zero one.

Inductive mbtype := Inter | InterQ | Inter4V | Intra | IntraQ | Inter4Vq.

Definition mb_is_inter (t : mbtype) : bool :=
  match t with Inter | InterQ | Inter4V | Inter4Vq => true | _ => false end.
Definition mb_is_intra (t : mbtype) : bool :=
  match t with Intra | IntraQ => true | _ => false end.
Definition mb_has_fourvec (t : mbtype) : bool :=
  match t with Inter4V | Inter4Vq => true | _ => false end.
Definition mb_has_quantizer (t : mbtype) : bool :=
  match t with InterQ | IntraQ | Inter4Vq => true | _ => false end.

(* macroblock.rs BlockPatternEntry *)
Inductive bpe := BpStuffing | BpInvalid | BpValid (t : mbtype) (chroma_b chroma_r : bool).

(* block.rs ShortTCoefficient *)
Inductive short_tcoef := EscapeToLong | Run (last : bool) (run level : Z).
