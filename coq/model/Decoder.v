(* Model of decoder/state.rs: H263State, decode_next_picture, cleanup_buffers. *)
From H263V Require Import base.Prelude model.Types model.Tables model.Reader model.Header model.Syntax
  model.F32 model.Recon.

(* HashMap<u16, DecodedPicture> as an association list; insertion replaces.
   Iteration order is never observed. *)
Definition pmap := list (Z * decoded_picture).
Fixpoint pm_get (m : pmap) (k : Z) : option decoded_picture :=
  match m with
  | [] => None
  | (k', v) :: t => if k' =? k then Some v else pm_get t k
  end.
Fixpoint pm_remove (m : pmap) (k : Z) : pmap :=
  match m with
  | [] => []
  | (k', v) :: t => if k' =? k then pm_remove t k else (k', v) :: pm_remove t k
  end.
Definition pm_insert (m : pmap) (k : Z) (v : decoded_picture) : pmap := (k, v) :: pm_remove m k.

Record state := mkState {
  st_opts : dec_opts;
  last_picture : option Z;          (* key of the last decoded picture *)
  reference_picture : option Z;     (* key of the implicit reference picture *)
  running_options : Z;              (* never written by the code *)
  reference_states : pmap
}.

Definition new_state (o : dec_opts) : state := mkState o None None 0 [].

Definition get_last_picture (s : state) : option decoded_picture :=
  match last_picture s with None => None | Some k => pm_get (reference_states s) k end.
Definition get_reference_picture (s : state) : option decoded_picture :=
  match reference_picture s with None => None | Some k => pm_get (reference_states s) k end.

(* cleanup_buffers: keep only the last and the reference picture *)
Definition cleanup_buffers (s : state) : state :=
  let m := reference_states s in
  let lp := match last_picture s with
            | Some k => match pm_get m k with Some v => Some (k, v) | None => None end
            | None => None end in
  let m1 := match lp with Some (k, _) => pm_remove m k | None => m end in
  let rp := match reference_picture s with
            | Some k => match pm_get m1 k with Some v => Some (k, v) | None => None end
            | None => None end in
  let m2 := [] in
  let m2 := match lp with Some (k, v) => pm_insert m2 k v | None => m2 end in
  let m2 := match rp with Some (k, v) => pm_insert m2 k v | None => m2 end in
  mkState (st_opts s) (last_picture s) (reference_picture s) (running_options s) m2.

(* Disposable pictures never become the reference; they are stored under a key
   outside the temporal-reference range so that they cannot replace it. *)
Definition DISPOSABLE_KEY_FLAG := 32768.

(* ---- the macroblock loop ---- *)
Record mbloop := mkLoop {
  l_reader : reader;
  l_quant : Z;
  l_pvs : list mv4;            (* predictor_vectors *)
  l_types : list mbtype;       (* macroblock_types *)
  l_luma : list dct_block;
  l_cb : list dct_block;
  l_cr : list dct_block
}.

(* quantizer update: `in_force as i8 + dquant`, clamped to 1..31 *)
Definition next_quant (q : Z) (dq : option Z) : Z :=
  clamp 1 31 (q + match dq with Some d => d | None => 0 end).

Definition decode_coded (o : dec_opts) (np : decoded_picture) (running : Z) (mb_per_line levw : Z)
  (t : mbtype) (p : cbp) (dq : option Z) (mvd : option mv) (addl : option (mv * mv * mv))
  (st : mbloop) : res (mbloop * mv4) :=
  let n := zlength (l_types st) in
  let* col := rem_chk n mb_per_line in
  let* line := div_chk n mb_per_line in
  let px := col * 16 in
  let py := line * 16 in
  let quant := next_quant (l_quant st) dq in
  let* mvs :=
    (if mb_is_inter t then
       let mv1 := match mvd with Some m => m | None => mv_zero end in
       let* p1 := predict_candidate (l_pvs st) mv4_zero mb_per_line 0 in
       let v0 := mv_decode np running p1 mv1 in
       let cur := mv4_set mv4_zero 0 v0 in
       match addl with
       | Some (m2, m3, m4) =>
           let* p2 := predict_candidate (l_pvs st) cur mb_per_line 1 in
           let cur := mv4_set cur 1 (mv_decode np running p2 m2) in
           let* p3 := predict_candidate (l_pvs st) cur mb_per_line 2 in
           let cur := mv4_set cur 2 (mv_decode np running p3 m3) in
           let* p4 := predict_candidate (l_pvs st) cur mb_per_line 3 in
           Ok (mv4_set cur 3 (mv_decode np running p4 m4))
       | None => Ok (v0, v0, v0, v0)
       end
     else Ok mv4_zero) in
  let hdr := d_header np in
  let lbl := levw / 8 in
  let* (b, r) := decode_block o hdr running t (nth 0 (codes_luma p) false) (l_reader st) in
  let* luma := inverse_rle b (l_luma st) px py lbl quant in
  let* (b, r) := decode_block o hdr running t (nth 1 (codes_luma p) false) r in
  let* luma := inverse_rle b luma (px + 8) py lbl quant in
  let* (b, r) := decode_block o hdr running t (nth 2 (codes_luma p) false) r in
  let* luma := inverse_rle b luma px (py + 8) lbl quant in
  let* (b, r) := decode_block o hdr running t (nth 3 (codes_luma p) false) r in
  let* luma := inverse_rle b luma (px + 8) (py + 8) lbl quant in
  let* (b, r) := decode_block o hdr running t (codes_chroma_b p) r in
  let* cb := inverse_rle b (l_cb st) (px / 2) (py / 2) mb_per_line quant in
  let* (b, r) := decode_block o hdr running t (codes_chroma_r p) r in
  let* cr := inverse_rle b (l_cr st) (px / 2) (py / 2) mb_per_line quant in
  Ok (mkLoop r quant (l_pvs st) (l_types st) luma cb cr, mvs).

Definition is_eof (e : err_kind) : bool := match e with EEof => true | _ => false end.
Definition is_macroblock_error (e : err_kind) : bool :=
  match e with EInvalidMacroblockHeader | EInvalidMacroblockCodedBits => true | _ => false end.
Definition is_gob_error (e : err_kind) : bool := match e with EInvalidGobHeader => true | _ => false end.

(* One recursive call per loop iteration; fuel = unread bits + 1 (every
   iteration that continues consumes at least one bit). *)
Fixpoint mb_loop (fuel : nat) (o : dec_opts) (np : decoded_picture) (running : Z)
  (mb_per_line total levw : Z) (st : mbloop) : res mbloop :=
  match fuel with
  | O => OutOfFuel
  | S f =>
      (* the picture is complete once it holds mb_per_line * mb_height macroblocks *)
      if total <=? zlength (l_types st) then Ok st else
      match decode_macroblock (d_header np) running (l_reader st) with
      | Ok (MbStuffing, r) =>
          mb_loop f o np running mb_per_line total levw
                  (mkLoop r (l_quant st) (l_pvs st) (l_types st) (l_luma st) (l_cb st) (l_cr st))
      | Ok (MbUncoded, r) =>
          if is_iframe (picture_type (d_header np)) then Err EUncodedIFrameBlocks else
          mb_loop f o np running mb_per_line total levw
                  (mkLoop r (l_quant st) (l_pvs st ++ [mv4_zero]) (l_types st ++ [Inter]) (l_luma st) (l_cb st) (l_cr st))
      | Ok (MbCoded t p dq mvd addl, r) =>
          let* (st', mvs) := decode_coded o np running mb_per_line levw t p dq mvd addl
                               (mkLoop r (l_quant st) (l_pvs st) (l_types st) (l_luma st) (l_cb st) (l_cr st)) in
          mb_loop f o np running mb_per_line total levw
                  (mkLoop (l_reader st') (l_quant st') (l_pvs st' ++ [mvs]) (l_types st' ++ [t])
                          (l_luma st') (l_cb st') (l_cr st'))
      | Err e =>
          if is_macroblock_error e && negb (sorenson o) then
            match decode_gob (l_reader st) with
            | Ok None => Ok st
            | Ok (Some _) => Ok st           (* unreachable: GOB headers are unimplemented *)
            | Err e' => if is_eof e' || is_gob_error e' then Ok st else Err e'
            | Panic p => Panic p
            | OutOfFuel => OutOfFuel
            end
          else if is_eof e then Ok st
          else Err e
      | Panic p => Panic p
      | OutOfFuel => OutOfFuel
      end
  end.

Definition pad_to {A} (l : list A) (n : Z) (a : A) : list A :=
  l ++ repeatZ a (n - zlength l).

(* The pure part of decode_next_picture: header, macroblock data, motion
   compensation and IDCT, as a function of the decoder options, the last
   picture (its header drives option inheritance, its format is the fallback
   format), the reference picture, the carried-over options and the reader. *)
Definition reconstruct (o : dec_opts) (last reference : option decoded_picture) (running0 : Z) (r0 : reader)
  : res (decoded_picture * reader) :=
  let* (op, r) := decode_picture o (match last with Some p => Some (d_header p) | None => None end) r0 in
  match op with
  | None => Err EMiddleOfBitstream
  | Some np_hdr =>
      let next_running :=
        if has_plusptype np_hdr && has_opptype np_hdr then options np_hdr
        else if has_plusptype np_hdr then
          Z.lor (Z.ldiff (options np_hdr) opptype_options) (Z.land running0 opptype_options)
        else
          Z.lor (Z.ldiff (Z.ldiff (options np_hdr) opptype_options) mpptype_options)
                (Z.land running0 (Z.lor opptype_options mpptype_options)) in
      let* fmt :=
        (match format np_hdr with
         | Some f => Ok f
         | None =>
             if is_iframe (picture_type np_hdr) then Err EPictureFormatMissing else
             match last with
             | Some lp => Ok (d_format lp)
             | None => Err EPictureFormatMissing
             end
         end) in
      match into_width_and_height fmt with
      | None => Err EPictureFormatInvalid
      | Some (w, h) =>
          (* a picture without samples cannot be decoded (w, h are u16 in the code: <= 0 is = 0) *)
          if (w <=? 0) || (h <=? 0) then Err EPictureFormatInvalid else
          let mb_per_line := (w + 15) / 16 in
          let mb_height := (h + 15) / 16 in
          let levw := mb_per_line * 16 in
          let levh := mb_height * 16 in
          match new_decoded np_hdr fmt with
          | None => Err EPictureFormatInvalid
          | Some np =>
              let nl := levw * levh / 64 in
              let nc := levw * levh / 4 / 64 in
              let st0 := mkLoop r (quantizer np_hdr) [] [] (repeatZ DctZero nl) (repeatZ DctZero nc) (repeatZ DctZero nc) in
              let total := mb_per_line * mb_height in
              let* st := mb_loop (S (length (rbits r))) o np next_running mb_per_line total levw st0 in
              let pvs := pad_to (l_pvs st) total mv4_zero in
              let types := pad_to (l_types st) total Inter in
              let* np := gather_go (combine types pvs) 0 reference mb_per_line np in
              let* luma := idct_channel (l_luma st) (d_luma np) (mb_per_line * 2) w in
              let* cb := idct_channel (l_cb st) (d_cb np) mb_per_line (d_chroma_w np) in
              let* cr := idct_channel (l_cr st) (d_cr np) mb_per_line (d_chroma_w np) in
              Ok (mkDecoded (d_header np) (d_format np) luma cb cr (d_chroma_w np), l_reader st)
          end
      end
  end.

(* the state update that follows a successful reconstruction *)
Definition store_picture (s : state) (np : decoded_picture) : state :=
  let hdr := d_header np in
  let this_tr := temporal_reference hdr in
  let disposable := is_disposable (picture_type hdr) in
  let this_key := if disposable then Z.lor this_tr DISPOSABLE_KEY_FLAG else this_tr in
  let refk := if is_iframe (picture_type hdr) then None else reference_picture s in
  let refk := if disposable then refk else Some this_key in
  cleanup_buffers (mkState (st_opts s) (Some this_key) refk (running_options s)
                           (pm_insert (reference_states s) this_key np)).

(* decode_next_picture.  Returns the new state and reader on success; an error
   leaves both as they were (with_transaction + no state write before the last
   fallible step), so `Err` carries nothing. *)
Definition decode_next_picture (s : state) (r0 : reader) : res (state * reader) :=
  let* (np, r) := reconstruct (st_opts s) (get_last_picture s) (get_reference_picture s) (running_options s) r0 in
  Ok (store_picture s np, commit r).
