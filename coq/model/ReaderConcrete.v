(* The concrete bit reader of parser/reader.rs: (source, buffer, bits_read) with
   byte-wise buffering, the width-typed accumulator of peek_bits, checkpoints,
   rollback, commit and the three transaction wrappers; plus an interpreter for
   trees of reader operations (appendix B of DESIGN.md) used by the C14
   correspondence suite.  State is returned in every case: failed operations may
   have buffered more bytes. *)
From H263V Require Import base.Prelude model.Types model.Reader.

Record creader := mkC { c_source : list Z; c_buffer : list Z; c_bits_read : Z }.

Definition from_source (bytes : list Z) : creader := mkC bytes [] 0.

(* integer types the generic reads are instantiated at *)
Inductive ity := U8 | U16 | U32 | I16 | I32.
Definition width (t : ity) : Z := match t with U8 => 8 | U16 | I16 => 16 | U32 | I32 => 32 end.
Definition is_signed (t : ity) : bool := match t with I16 | I32 => true | _ => false end.
(* a residue mod 2^width as a value of the type *)
Definition as_ty (t : ity) (v : Z) : Z :=
  let m := v mod 2 ^ width t in
  if is_signed t && (2 ^ (width t - 1) <=? m) then m - 2 ^ width t else m.

(* buffer_bytes: one read_exact per byte; bytes fetched before an end of data stay buffered *)
Fixpoint buffer_bytes (n : nat) (r : creader) : creader * res unit :=
  match n with
  | O => (r, Ok tt)
  | S n' =>
      match c_source r with
      | [] => (r, Err EEof)
      | b :: src => buffer_bytes n' (mkC src (c_buffer r ++ [b]) (c_bits_read r))
      end
  end.

Definition needed_bytes_for_bits (r : creader) (bits_needed : Z) : Z :=
  let avail := Z.max 0 (zlength (c_buffer r) * 8 - c_bits_read r) in
  let short := Z.max 0 (bits_needed - avail) in
  short / 8 + (if short mod 8 =? 0 then 0 else 1).

Definition ensure_bits (r : creader) (bits_needed : Z) : creader * res unit :=
  buffer_bytes (Z.to_nat (needed_bytes_for_bits r bits_needed)) r.

(* the accumulator loop of peek_bits over the buffered bytes *)
Fixpoint peek_loop (w : Z) (bytes : list Z) (bits_read needed accum : Z) : Z * Z :=
  match bytes with
  | [] => (accum, needed)
  | byte :: rest =>
      if needed =? 0 then (accum, needed) else
      let byte' := (byte * 2 ^ bits_read) mod 256 in                 (* u8 << bits_read *)
      let bits_in_byte := 8 - bits_read in
      let k := Z.min bits_in_byte needed in
      let top := if 8 - k <? 8 then byte' / 2 ^ (8 - k) else 0 in    (* checked_shr(8 - k).unwrap_or(0) *)
      let accum' := if k <? w then Z.lor ((accum * 2 ^ k) mod 2 ^ w) top else top in
      peek_loop w rest 0 (needed - k) accum'
  end.

Definition peek_bits_c (t : ity) (n : Z) (r : creader) : creader * res Z :=
  if width t <? n then (r, Err EInternal) else       (* T::zero().checked_shl(n - 1) is None *)
  if n =? 0 then (r, Ok 0) else
  let '(r1, e) := ensure_bits r n in
  match e with
  | Ok _ =>
      let bytes := skipn (Z.to_nat (c_bits_read r1 / 8)) (c_buffer r1) in
      let '(accum, nleft) := peek_loop (width t) bytes (c_bits_read r1 mod 8) n 0 in
      if nleft =? 0 then (r1, Ok (as_ty t accum)) else (r1, Panic PAssert)
  | Err e => (r1, Err e)
  | Panic p => (r1, Panic p)
  | OutOfFuel => (r1, OutOfFuel)
  end.

Definition skip_bits_c (n : Z) (r : creader) : creader * res unit :=
  let '(r1, e) := ensure_bits r n in
  match e with
  | Ok _ => (mkC (c_source r1) (c_buffer r1) (c_bits_read r1 + n), Ok tt)
  | _ => (r1, e)
  end.

Definition read_bits_c (t : ity) (n : Z) (r : creader) : creader * res Z :=
  let '(r1, v) := peek_bits_c t n r in
  match v with
  | Ok x => let '(r2, e) := skip_bits_c n r1 in
            match e with Ok _ => (r2, Ok x) | Err e => (r2, Err e) | Panic p => (r2, Panic p) | OutOfFuel => (r2, OutOfFuel) end
  | _ => (r1, v)
  end.

(* peek_signed_bits: zero width yields zero; otherwise two's-complement sign extension inside T *)
Definition peek_signed_bits_c (t : ity) (n : Z) (r : creader) : creader * res Z :=
  let '(r1, v) := peek_bits_c t n r in
  match v with
  | Ok x =>
      if n =? 0 then (r1, Ok 0) else
      let raw := x mod 2 ^ width t in
      if Z.testbit raw (n - 1) then (r1, Ok (as_ty t (raw - 2 ^ n))) else (r1, Ok x)
  | _ => (r1, v)
  end.

Definition read_signed_bits_c (t : ity) (n : Z) (r : creader) : creader * res Z :=
  let '(r1, v) := peek_signed_bits_c t n r in
  match v with
  | Ok x => let '(r2, e) := skip_bits_c n r1 in
            match e with Ok _ => (r2, Ok x) | Err e => (r2, Err e) | Panic p => (r2, Panic p) | OutOfFuel => (r2, OutOfFuel) end
  | _ => (r1, v)
  end.

Definition realignment_bits_c (r : creader) : Z := (8 - c_bits_read r mod 8) mod 8.

Definition checkpoint (r : creader) : Z := c_bits_read r.
Definition rollback (cp : Z) (r : creader) : creader * res unit :=
  if zlength (c_buffer r) * 8 <? cp then (r, Err EInternal)
  else (mkC (c_source r) (c_buffer r) cp, Ok tt).
Definition commit_c (r : creader) : creader :=
  mkC (c_source r) (skipn (Z.to_nat (c_bits_read r / 8)) (c_buffer r)) (c_bits_read r mod 8).

(* recognize_start_code, inside with_lookahead *)
Fixpoint start_code_go_c (fuel : nat) (in_error : bool) (max_skip skip : Z) (r : creader) : creader * res (option Z) :=
  match fuel with
  | O => (r, OutOfFuel)
  | S f =>
      let '(r1, v) := peek_bits_c U32 17 r in
      match v with
      | Ok code =>
          if code =? 1 then (r1, Ok (Some skip)) else
          if negb in_error && (max_skip <? skip) then (r1, Ok None) else
          let '(r2, e) := skip_bits_c 1 r1 in
          match e with
          | Ok _ => start_code_go_c f in_error max_skip (skip + 1) r2
          | Err e => (r2, Err e) | Panic p => (r2, Panic p) | OutOfFuel => (r2, OutOfFuel)
          end
      | Err e => (r1, Err e) | Panic p => (r1, Panic p) | OutOfFuel => (r1, OutOfFuel)
      end
  end.
Definition recognize_start_code_c (in_error : bool) (r : creader) : creader * res (option Z) :=
  let cp := checkpoint r in
  let fuel := S (length (c_buffer r) * 8 + length (c_source r) * 8) in
  let '(r1, v) := start_code_go_c fuel in_error (realignment_bits_c r) 0 r in
  let '(r2, e) := rollback cp r1 in
  match e with
  | Ok _ => (r2, v)
  | Err e => (r2, Err e) | Panic p => (r2, Panic p) | OutOfFuel => (r2, OutOfFuel)
  end.

Fixpoint vlc_go_c {T} (fuel : nat) (table : list (entry T)) (index : nat) (r : creader) : creader * res T :=
  match fuel with
  | O => (r, OutOfFuel)
  | S f =>
      match nth_error table index with
      | Some (End t) => (r, Ok t)
      | Some (Fork zero one) =>
          let '(r1, v) := read_bits_c U8 1 r in
          match v with
          | Ok bit => vlc_go_c f table (if bit =? 0 then zero else one) r1
          | Err e => (r1, Err e) | Panic p => (r1, Panic p) | OutOfFuel => (r1, OutOfFuel)
          end
      | None => (r, Err EInternal)
      end
  end.
Definition read_vlc_c {T} (table : list (entry T)) (r : creader) : creader * res T :=
  vlc_go_c (S (length table)) table 0%nat r.

Fixpoint umv_go_c (fuel : nat) (mantissa bulk : Z) (r : creader) : creader * res Z :=
  match fuel with
  | O => (r, OutOfFuel)
  | S f =>
      if bulk <? 4096 then
        let '(r1, v) := read_bits_c I32 2 r in
        match v with
        | Ok code =>
            if code =? 0 then (r1, Ok (mantissa + bulk))
            else if code =? 2 then (r1, Ok (- (mantissa + bulk)))
            else if code =? 1 then umv_go_c f (2 * mantissa) (2 * bulk) r1
            else umv_go_c f (2 * mantissa + 1) (2 * bulk) r1
        | Err e => (r1, Err e) | Panic p => (r1, Panic p) | OutOfFuel => (r1, OutOfFuel)
        end
      else (r, Err EInvalidMvd)
  end.
Definition read_umv_c (r : creader) : creader * res Z :=
  let '(r1, v) := read_bits_c U8 1 r in
  match v with
  | Ok start => if start =? 1 then (r1, Ok 0) else umv_go_c 14 0 1 r1
  | Err e => (r1, Err e) | Panic p => (r1, Panic p) | OutOfFuel => (r1, OutOfFuel)
  end.

(* ------------------------------------------------------------------ operation trees *)
Inductive rop :=
| OPeek (t : ity) (n : Z)
| ORead (t : ity) (n : Z)
| OPeekS (t : ity) (n : Z)
| OReadS (t : ity) (n : Z)
| OSkip (n : Z)
| OU8
| OVlc (table : Z)
| OUmv
| OStartCode (in_error : bool)
| OCommit
| OTx (body : list rop) (force_err : bool)
| OTxUnion (body : list rop) (verdict : Z)      (* 0 as children, 1 force Err, 2 force Ok(None) *)
| OLookahead (body : list rop)
| OGrow (bytes : list Z).

Inductive tok :=
| TVal (v : Z) | TUnit | TErr (e : err_kind) | TPanic | TNone | TSome (k : Z)
| TClose (name : Z) (r : res (option unit)).    (* result of a wrapper: 0 tx, 1 union, 2 lookahead *)

(* two small trees for OVlc: a valid prefix code, and one with a dangling index *)
Definition test_table_0 : list (entry Z) := [Fork 1 2; End 10; Fork 3 4; End 20; Fork 5 6; End 30; End 40].
Definition test_table_1 : list (entry Z) := [Fork 1 2; End 10; Fork 3 9; End 20].

Definition tok_of_res (r : res Z) : tok :=
  match r with Ok v => TVal v | Err e => TErr e | Panic _ => TPanic | OutOfFuel => TPanic end.

(* closure semantics: children run in order; the first Err (or panic) ends the closure with that result *)
(* strict = inside a closure: the first Err ends the sequence (the `?` operator); at top level every operation
   is issued by the caller, who carries on after an error *)
Fixpoint run_ops (fuel : nat) (strict : bool) (ops : list rop) (r : creader) : creader * list tok * res unit :=
  match fuel with
  | O => (r, [], OutOfFuel)
  | S f =>
      match ops with
      | [] => (r, [], Ok tt)
      | o :: rest =>
          let simple (x : creader * res Z) :=
            let '(r1, v) := x in
            match v with
            | Ok _ => let '(r2, ts, e) := run_ops f strict rest r1 in (r2, tok_of_res v :: ts, e)
            | Err e => if strict then (r1, [tok_of_res v], Err e)
                       else let '(r2, ts, e2) := run_ops f strict rest r1 in (r2, tok_of_res v :: ts, e2)
            | Panic p => (r1, [TPanic], Panic p)
            | OutOfFuel => (r1, [TPanic], OutOfFuel)
            end in
          match o with
          | OPeek t n => simple (peek_bits_c t n r)
          | ORead t n => simple (read_bits_c t n r)
          | OPeekS t n => simple (peek_signed_bits_c t n r)
          | OReadS t n => simple (read_signed_bits_c t n r)
          | OSkip n => simple (let '(r1, e) := skip_bits_c n r in
                               (r1, match e with Ok _ => Ok 0 | Err e => Err e | Panic p => Panic p | OutOfFuel => OutOfFuel end))
          | OU8 => simple (read_bits_c U8 8 r)
          | OVlc tb => simple (read_vlc_c (if tb =? 0 then test_table_0 else test_table_1) r)
          | OUmv => simple (read_umv_c r)
          | OStartCode ie =>
              let '(r1, v) := recognize_start_code_c ie r in
              match v with
              | Ok None => let '(r2, ts, e) := run_ops f strict rest r1 in (r2, TNone :: ts, e)
              | Ok (Some k) => let '(r2, ts, e) := run_ops f strict rest r1 in (r2, TSome k :: ts, e)
              | Err e => if strict then (r1, [TErr e], Err e)
                         else let '(r2, ts, e2) := run_ops f strict rest r1 in (r2, TErr e :: ts, e2)
              | Panic p => (r1, [TPanic], Panic p)
              | OutOfFuel => (r1, [TPanic], OutOfFuel)
              end
          | OCommit => let '(r2, ts, e) := run_ops f strict rest (commit_c r) in (r2, TUnit :: ts, e)
          | OGrow bytes =>
              let '(r2, ts, e) := run_ops f strict rest (mkC (c_source r ++ bytes) (c_buffer r) (c_bits_read r)) in (r2, TUnit :: ts, e)
          | OTx body force_err =>
              let cp := checkpoint r in
              let '(r1, ts1, e1) := run_ops f true body r in
              let result : res (option unit) :=
                match e1 with
                | Ok _ => if force_err then Err EInvalidBitstream else Ok (Some tt)
                | Err e => Err e | Panic p => Panic p | OutOfFuel => OutOfFuel
                end in
              match result with
              | Panic p => (r1, ts1 ++ [TPanic], Panic p)
              | OutOfFuel => (r1, ts1 ++ [TPanic], OutOfFuel)
              | Err e =>
                  let '(r2, rb) := rollback cp r1 in
                  let final := match rb with Ok _ => Err e | Err e' => Err e' | Panic p => Panic p | OutOfFuel => OutOfFuel end in
                  (* the wrapper's Err does not end the enclosing sequence: the caller inspects it *)
                  let '(r3, ts, e3) := run_ops f strict rest r2 in (r3, ts1 ++ TClose 0 final :: ts, e3)
              | Ok v => let '(r3, ts, e3) := run_ops f strict rest r1 in (r3, ts1 ++ TClose 0 (Ok v) :: ts, e3)
              end
          | OTxUnion body verdict =>
              let cp := checkpoint r in
              let '(r1, ts1, e1) := run_ops f true body r in
              let result : res (option unit) :=
                match e1 with
                | Ok _ => if verdict =? 1 then Err EInvalidBitstream else if verdict =? 2 then Ok None else Ok (Some tt)
                | Err e => Err e | Panic p => Panic p | OutOfFuel => OutOfFuel
                end in
              match result with
              | Panic p => (r1, ts1 ++ [TPanic], Panic p)
              | OutOfFuel => (r1, ts1 ++ [TPanic], OutOfFuel)
              | Ok (Some v) => let '(r3, ts, e3) := run_ops f strict rest r1 in (r3, ts1 ++ TClose 1 (Ok (Some v)) :: ts, e3)
              | _ =>
                  let '(r2, rb) := rollback cp r1 in
                  let final := match rb with Ok _ => result | Err e' => Err e' | Panic p => Panic p | OutOfFuel => OutOfFuel end in
                  let '(r3, ts, e3) := run_ops f strict rest r2 in (r3, ts1 ++ TClose 1 final :: ts, e3)
              end
          | OLookahead body =>
              let cp := checkpoint r in
              let '(r1, ts1, e1) := run_ops f true body r in
              match e1 with
              | Panic p => (r1, ts1 ++ [TPanic], Panic p)
              | OutOfFuel => (r1, ts1 ++ [TPanic], OutOfFuel)
              | _ =>
                  let '(r2, rb) := rollback cp r1 in
                  let final : res (option unit) :=
                    match rb with
                    | Ok _ => match e1 with Ok _ => Ok (Some tt) | Err e => Err e | Panic p => Panic p | OutOfFuel => OutOfFuel end
                    | Err e' => Err e' | Panic p => Panic p | OutOfFuel => OutOfFuel
                    end in
                  let '(r3, ts, e3) := run_ops f strict rest r2 in (r3, ts1 ++ TClose 2 final :: ts, e3)
              end
          end
      end
  end.

(* what remains to be read, as bits: buffered bits after the cursor, then the source *)
Definition remaining (r : creader) : list bool :=
  skipn (Z.to_nat (c_bits_read r)) (bits_of_bytes (c_buffer r)) ++ bits_of_bytes (c_source r).
Definition abs_reader (r : creader) : reader := mkReader (remaining r) (c_bits_read r).
