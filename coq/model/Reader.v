(* The abstract bit reader: a list of unread bits plus the count of bits consumed
   so far (only its residue mod 8 is ever observed: start-code alignment).
   All parsers are written against this interface.  The concrete
   (source, buffer, bits_read) machine of reader.rs is modelled separately in
   ReaderConcrete.v and related to this one there (C14).

   A failed operation returns `Err` without a reader: the caller still holds the
   reader value from before the call, which is exactly the effect of the
   transaction wrappers (rollback to the checkpoint). *)
From H263V Require Import base.Prelude model.Types.

Record reader := mkReader { rbits : list bool; rpos : Z }.

Definition reader_of_bits (b : list bool) : reader := mkReader b 0.

Fixpoint byte_bits (n : nat) (v : Z) : list bool :=
  match n with
  | O => []
  | S n' => Z.testbit v (Z.of_nat n') :: byte_bits n' v
  end.
Definition bits_of_bytes (bs : list Z) : list bool := flat_map (byte_bits 8) bs.
Definition reader_of_bytes (bs : list Z) : reader := reader_of_bits (bits_of_bytes bs).

Fixpoint take_bits (n : nat) (acc : Z) (b : list bool) : option (Z * list bool) :=
  match n with
  | O => Some (acc, b)
  | S n' => match b with
            | [] => None
            | x :: b' => take_bits n' (2 * acc + (if x then 1 else 0)) b'
            end
  end.

(* peek_bits::<T>(n) for a T of `width` bits: Err Internal if n > width, then
   0 for n = 0, then end-of-data if fewer than n bits remain. *)
Definition peek_bits (width n : Z) (r : reader) : res Z :=
  if width <? n then Err EInternal else
  match take_bits (Z.to_nat n) 0 (rbits r) with
  | Some (v, _) => Ok v
  | None => Err EEof
  end.

Definition skip_bits (n : Z) (r : reader) : res reader :=
  match take_bits (Z.to_nat n) 0 (rbits r) with
  | Some (_, rest) => Ok (mkReader rest (rpos r + n))
  | None => Err EEof
  end.

Definition read_bits (width n : Z) (r : reader) : res (Z * reader) :=
  let* v := peek_bits width n r in
  let* r' := skip_bits n r in
  Ok (v, r').

Definition read_u8 (r : reader) : res (Z * reader) := read_bits 8 8 r.

(* peek_signed_bits::<T>(n): two's-complement sign extension of the n-bit field
   (value as a mathematical integer; for an unsigned T the caller reinterprets).
   n = 0 yields 0. *)
Definition peek_signed_bits (width n : Z) (r : reader) : res Z :=
  let* v := peek_bits width n r in
  if n =? 0 then Ok 0 else
  if Z.testbit v (n - 1) then Ok (v - 2 ^ n) else Ok v.

Definition read_signed_bits (width n : Z) (r : reader) : res (Z * reader) :=
  let* v := peek_signed_bits width n r in
  let* r' := skip_bits n r in
  Ok (v, r').

(* realignment_bits *)
Definition realignment_bits (r : reader) : Z := (8 - rpos r mod 8) mod 8.

(* recognize_start_code(in_error): number of bits before the next 17-bit start
   code 0^16 1, looking ahead at most realignment+1 bits unless in_error.
   The reader is not advanced (with_lookahead). *)
Fixpoint start_code_go (fuel : nat) (in_error : bool) (max_skip skip : Z) (r : reader) : res (option Z) :=
  match fuel with
  | O => OutOfFuel
  | S f =>
      let* code := peek_bits 32 17 r in
      if code =? 1 then Ok (Some skip) else
      if negb in_error && (max_skip <? skip) then Ok None else
      let* r' := skip_bits 1 r in
      start_code_go f in_error max_skip (skip + 1) r'
  end.
Definition recognize_start_code (in_error : bool) (r : reader) : res (option Z) :=
  start_code_go (S (length (rbits r))) in_error (realignment_bits r) 0 r.

(* read_vlc: walk the array-encoded tree one bit at a time *)
Fixpoint vlc_go {T} (fuel : nat) (table : list (entry T)) (index : nat) (r : reader) : res (T * reader) :=
  match fuel with
  | O => OutOfFuel
  | S f =>
      match nth_error table index with
      | Some (End t) => Ok (t, r)
      | Some (Fork zero one) =>
          let* (bit, r') := read_bits 8 1 r in
          vlc_go f table (if bit =? 0 then zero else one) r'
      | None => Err EInternal
      end
  end.
Definition read_vlc {T} (table : list (entry T)) (r : reader) : res (T * reader) :=
  vlc_go (S (length table)) table 0%nat r.

(* read_umv: Table D.3 code; i16 arithmetic (mantissa + bulk < 8192: no overflow) *)
Fixpoint umv_go (fuel : nat) (mantissa bulk : Z) (r : reader) : res (Z * reader) :=
  match fuel with
  | O => OutOfFuel
  | S f =>
      if bulk <? 4096 then
        let* (code, r') := read_bits 32 2 r in
        if code =? 0 then Ok (mantissa + bulk, r')
        else if code =? 2 then Ok (- (mantissa + bulk), r')
        else if code =? 1 then umv_go f (2 * mantissa) (2 * bulk) r'
        else umv_go f (2 * mantissa + 1) (2 * bulk) r'
      else Err EInvalidMvd
  end.
Definition read_umv (r : reader) : res (Z * reader) :=
  let* (start, r') := read_bits 8 1 r in
  if start =? 1 then Ok (0, r') else umv_go 14 0 1 r'.

(* commit(): drops whole consumed bytes from the buffer; the unread bits and the
   position modulo 8 are unchanged, so it is the identity here *)
Definition commit (r : reader) : reader := r.
