(* Checked: the target vocabulary of the kernel translator (tools/rs2v_kernels.py).
   Every Rust integer operation that panics under overflow checks is a function into
   `res`; `as` casts that can lose information and the arithmetic of SIMD lanes wrap.
   Executable; no proofs here (lemmas and tactics: bridge/KTactics.v). *)
From H263V Require Import base.Prelude.

Inductive ity := U8 | I8 | U16 | I16 | U32 | I32 | U64 | I64 | Usize | Isize.

(* usize / isize are 64 bits wide on the targets the harness is built for *)
Definition ilo (t : ity) : Z :=
  match t with
  | U8 | U16 | U32 | U64 | Usize => 0
  | I8 => -128 | I16 => -32768 | I32 => -2147483648 | I64 | Isize => -9223372036854775808
  end.
Definition ihi (t : ity) : Z :=
  match t with
  | U8 => 255 | U16 => 65535 | U32 => 4294967295 | U64 | Usize => 18446744073709551615
  | I8 => 127 | I16 => 32767 | I32 => 2147483647 | I64 | Isize => 9223372036854775807
  end.
Definition imod (t : ity) : Z :=
  match t with
  | U8 | I8 => 256 | U16 | I16 => 65536 | U32 | I32 => 4294967296
  | U64 | I64 | Usize | Isize => 18446744073709551616
  end.
Definition ibits (t : ity) : Z :=
  match t with U8 | I8 => 8 | U16 | I16 => 16 | U32 | I32 => 32 | _ => 64 end.

Definition ity_ok (t : ity) (x : Z) : bool := in_range (ilo t) (ihi t) x.

(* two's-complement reduction into the type's range: `x as T`, lane arithmetic *)
Definition wrap (t : ity) (x : Z) : Z := (x - ilo t) mod imod t + ilo t.

Definition add_c (t : ity) (a b : Z) : res Z := chk (ity_ok t) (a + b).
Definition sub_c (t : ity) (a b : Z) : res Z := chk (ity_ok t) (a - b).
Definition mul_c (t : ity) (a b : Z) : res Z := chk (ity_ok t) (a * b).
Definition neg_c (t : ity) (a : Z) : res Z := chk (ity_ok t) (- a).
Definition abs_c (t : ity) (a : Z) : res Z := chk (ity_ok t) (Z.abs a).
Definition div_c (t : ity) (a b : Z) : res Z :=
  if b =? 0 then Panic PDivZero else chk (ity_ok t) (Z.quot a b).
Definition rem_c (t : ity) (a b : Z) : res Z :=
  if b =? 0 then Panic PDivZero
  else if (a =? ilo t) && (b =? -1) then Panic POverflow else Ok (Z.rem a b).
(* `<<` and `>>`: only the shift amount is checked; bits shifted out are lost *)
Definition shl_c (t : ity) (a k : Z) : res Z :=
  if (k <? 0) || (ibits t <=? k) then Panic PShift else Ok (wrap t (Z.shiftl a k)).
Definition shr_c (t : ity) (a k : Z) : res Z :=
  if (k <? 0) || (ibits t <=? k) then Panic PShift else Ok (Z.shiftr a k).
(* Ord::clamp asserts min <= max *)
Definition clamp_c (lo hi x : Z) : res Z := if hi <? lo then Panic PAssert else Ok (clamp lo hi x).
(* unsigned div_ceil *)
Definition div_ceil_c (a b : Z) : res Z := if b =? 0 then Panic PDivZero else Ok ((a + b - 1) / b).
Definition assert_c (b : bool) : res unit := if b then Ok tt else Panic PAssert.

(* `T::from([e0, e1, ...])` seen from lane `lane` *)
Definition lane_sel (lane : Z) (l : list Z) : Z := nth (Z.to_nat lane) l 0.
(* bytemuck::cast::<i32x4, u8x16> seen from one lane, little-endian target *)
Definition le_bytes4 (v : Z) : list Z :=
  let u := v mod 4294967296 in
  [u mod 256; (u / 256) mod 256; (u / 65536) mod 256; (u / 16777216) mod 256].

(* `while cond(state) { body }` over a state and the bit reader (tools/rs2v_parser.py): recursion on fuel; the translator passes
   unread bits + 1, enough whenever every iteration reads at least one bit *)
From H263V Require Import model.Reader.
Fixpoint while_loop {S : Type} (fuel : nat) (cond : S -> bool) (body : S -> reader -> res (S * reader)) (s : S) (r : reader)
  : res (S * reader) :=
  match fuel with
  | O => OutOfFuel
  | Datatypes.S f => if cond s then let* (s', r') := body s r in while_loop f cond body s' r' else Ok (s, r)
  end.

(* indexing a [T; 4] (a 4-tuple in the model) with a computed index: out of range panics *)
Definition tup4_get {A} (t : A * A * A * A) (i : Z) : res A :=
  let '(a, b, c, d) := t in
  if i =? 0 then Ok a else if i =? 1 then Ok b else if i =? 2 then Ok c else if i =? 3 then Ok d else Panic PIndex.

(* `for (i, (a, b)) in xs.iter().zip(ys.iter()).enumerate() { body }` over a state *)
Fixpoint for_zip_enum {A B S : Type} (body : Z -> A -> B -> S -> res S) (la : list A) (lb : list B) (i : Z) (s : S) : res S :=
  match la, lb with
  | a :: la', b :: lb' => let* s' := body i a b s in for_zip_enum body la' lb' (i + 1) s'
  | _, _ => Ok s
  end.

(* `loop { body }`: the body returns whether to go on (continue / fall off the end) or stop (break), with the loop variables *)
Fixpoint loop_fuel {S : Type} (fuel : nat) (body : S -> res (bool * S)) (s : S) : res S :=
  match fuel with
  | O => OutOfFuel
  | S f => let* (go_on, s') := body s in if go_on then loop_fuel f body s' else Ok s'
  end.

(* `for x in list { body }` whose body may leave the function (`return`): the body yields the new loop variables (inl) or the
   function's result (inr), which ends the loop *)
Fixpoint for_each_ret {A S R : Type} (body : A -> S -> res (S + R)) (l : list A) (s : S) : res (S + R) :=
  match l with
  | [] => Ok (inl s)
  | a :: l' => let* x := body a s in match x with inl s' => for_each_ret body l' s' | inr r => Ok (inr r) end
  end.
Definition ret_inr {S R : Type} (x : res R) : res (S + R) := let* v := x in Ok (inr v).

(* `&v[from..]`: panics when `from` is past the end *)
Definition slice_from {A} (l : list A) (from : Z) : res (list A) :=
  if (0 <=? from) && (from <=? zlength l) then Ok (skipn (Z.to_nat from) l) else Panic PIndex.

(* `v.resize(n, x)` *)
Definition vec_resize {A} (l : list A) (n : Z) (x : A) : list A :=
  if n <=? zlength l then firstn (Z.to_nat n) l else l ++ repeatZ x (n - zlength l).

(* equality of two optional pairs of integers (Option<(u16, u16)> == Option<(u16, u16)>) *)
Definition opt_pair_eqb (a b : option (Z * Z)) : bool :=
  match a, b with
  | Some (x, y), Some (x', y') => (x =? x') && (y =? y')
  | None, None => true
  | _, _ => false
  end.
