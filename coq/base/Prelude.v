(* Prelude: result monad with explicit panics, checked fixed-width integer
   operations, list helpers.  Everything here is executable and extracted. *)
From Coq Require Export ZArith List Bool Lia.
Export ListNotations.
Open Scope Z_scope.

(* Why a Rust operation panicked. *)
Inductive panic_kind :=
| POverflow      (* integer overflow under overflow checks *)
| PIndex         (* slice / vec index or range out of bounds *)
| PDivZero       (* division or remainder by zero *)
| PAssert        (* assert!/debug_assert!/expect/unwrap failure *)
| PShift.        (* shift amount >= bit width *)

(* Error kinds of h263::Error, as far as control flow or the properties
   distinguish them. *)
Inductive err_kind :=
| EInternal | EMiddleOfBitstream | EInvalidMacroblockHeader | EInvalidMacroblockCodedBits
| EInvalidIntraDc | EInvalidShortCoefficient | EInvalidLongCoefficient | EInvalidMvd
| EInvalidPType | EInvalidPlusPType | EInvalidGobHeader | EInvalidBitstream
| EPictureFormatMissing | EPictureFormatInvalid | EUncodedIFrameBlocks
| EEof           (* UnhandledIoError(UnexpectedEof) *)
| EUnimplemented.

Inductive res (A : Type) : Type :=
| Ok (a : A)
| Err (e : err_kind)
| Panic (p : panic_kind)
| OutOfFuel.
Arguments Ok {A} a.
Arguments Err {A} e.
Arguments Panic {A} p.
Arguments OutOfFuel {A}.

Definition bind {A B} (r : res A) (f : A -> res B) : res B :=
  match r with
  | Ok a => f a
  | Err e => Err e
  | Panic p => Panic p
  | OutOfFuel => OutOfFuel
  end.
Notation "'let*' x ':=' r 'in' k" := (bind r (fun x => k))
  (at level 200, x pattern, r at level 100, k at level 200, right associativity).
Definition ret {A} (a : A) : res A := Ok a.

Definition is_ok {A} (r : res A) : bool := match r with Ok _ => true | _ => false end.
Definition is_panic {A} (r : res A) : bool := match r with Panic _ => true | _ => false end.
Definition no_crash {A} (r : res A) : Prop :=
  match r with Ok _ | Err _ => True | Panic _ | OutOfFuel => False end.

(* ---- fixed-width integers: ranges and checked operations ---- *)
Definition in_range (lo hi x : Z) : bool := (lo <=? x) && (x <=? hi).
Definition u8_ok x := in_range 0 255 x.
Definition i8_ok x := in_range (-128) 127 x.
Definition i16_ok x := in_range (-32768) 32767 x.
Definition u16_ok x := in_range 0 65535 x.
Definition i32_ok x := in_range (-2147483648) 2147483647 x.

Definition chk (ok : Z -> bool) (x : Z) : res Z := if ok x then Ok x else Panic POverflow.
Definition chk_i16 := chk i16_ok.
Definition chk_i8 := chk i8_ok.
Definition chk_usize (x : Z) : res Z := if 0 <=? x then Ok x else Panic POverflow.

Definition clamp (lo hi x : Z) : Z := Z.min hi (Z.max lo x).

(* `x as u8` for an i16/i32 x: wrap modulo 256. *)
Definition wrap_u8 (x : Z) : Z := x mod 256.
(* `x as i16` from a wider integer: two's-complement wrap. *)
Definition wrap_i16 (x : Z) : Z := (x + 32768) mod 65536 - 32768.
Definition wrap_i32 (x : Z) : Z := (x + 2147483648) mod 4294967296 - 2147483648.

(* Rust integer `/` and `%`: truncation toward zero. *)
Definition tdiv (a b : Z) : Z := Z.quot a b.
Definition trem (a b : Z) : Z := Z.rem a b.
Definition div_chk (a b : Z) : res Z := if b =? 0 then Panic PDivZero else Ok (Z.quot a b).
Definition rem_chk (a b : Z) : res Z := if b =? 0 then Panic PDivZero else Ok (Z.rem a b).

(* ---- lists ---- *)

Definition zlength {A} (l : list A) : Z := Z.of_nat (length l).

Definition get {A} (l : list A) (i : Z) : res A :=
  if i <? 0 then Panic PIndex else
  match nth_error l (Z.to_nat i) with Some a => Ok a | None => Panic PIndex end.

Fixpoint set_nth {A} (l : list A) (n : nat) (a : A) : option (list A) :=
  match l, n with
  | [], _ => None
  | _ :: t, O => Some (a :: t)
  | h :: t, S n' => match set_nth t n' a with Some t' => Some (h :: t') | None => None end
  end.
Definition set {A} (l : list A) (i : Z) (a : A) : res (list A) :=
  if i <? 0 then Panic PIndex else
  match set_nth l (Z.to_nat i) a with Some l' => Ok l' | None => Panic PIndex end.

Definition repeatZ {A} (a : A) (n : Z) : list A := repeat a (Z.to_nat n).

(* split a list into consecutive pieces of n elements; a short tail is kept
   as the last piece (chunks, not chunks_exact). *)
Fixpoint chunks_fuel {A} (fuel : nat) (n : nat) (l : list A) : list (list A) :=
  match fuel with
  | O => []
  | S f => match l with
           | [] => []
           | _ => firstn n l :: chunks_fuel f n (skipn n l)
           end
  end.
Definition chunks {A} (n : nat) (l : list A) : list (list A) :=
  match n with O => [] | _ => chunks_fuel (length l) n l end.
