(* Extraction of the executable model and spec to OCaml.  ExtrOcamlBasic only:
   bool, option, unit, prod, list, sumbool, sumor map to OCaml's; Z, positive,
   nat stay the extracted inductives.  No Extract Constant. *)
From Coq Require Import Extraction ExtrOcamlBasic.
From H263V Require Import base.Prelude model.Deblock model.Yuv.
Separate Extraction
  Deblock.deblock Deblock.process Deblock.process_lane Deblock.annexJ Deblock.quant_to_strength
  Deblock.table_J2 Deblock.annexJ_flat Deblock.updown_ramp
  Yuv.px Yuv.spec_px Yuv.yuv420_to_rgba Yuv.rgba_spec_flat.
