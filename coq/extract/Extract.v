(* Extraction of the executable model and spec to OCaml.  ExtrOcamlBasic only:
   bool, option, unit, prod, list, sumbool, sumor map to OCaml's; Z, positive,
   nat stay the extracted inductives.  No Extract Constant. *)
From Coq Require Import Extraction ExtrOcamlBasic.
From H263V Require Import base.Prelude spec.SpecRecon model.Deblock model.Yuv model.Types model.Tables model.Reader model.ReaderConcrete model.Header model.Syntax model.F32 model.Recon model.Decoder model.Pipeline.
Separate Extraction
  Deblock.deblock Deblock.process Deblock.process_lane Deblock.annexJ Deblock.quant_to_strength
  Deblock.table_J2 Deblock.annexJ_flat Deblock.updown_ramp
  Yuv.px Yuv.spec_px Yuv.yuv420_to_rgba Yuv.rgba_spec_flat
  Reader.reader_of_bytes Reader.read_bits Reader.read_signed_bits Reader.peek_bits Reader.recognize_start_code
  Reader.read_vlc Reader.read_umv Reader.bits_of_bytes
  Header.decode_picture Syntax.decode_macroblock Syntax.decode_block
  Recon.inverse_rle_block Recon.predict_candidate Recon.mv_decode Recon.halfpel_decode Recon.idct_channel
  Recon.gather_go Recon.plane_data Recon.new_plane Recon.dequant Recon.average_sum_of_mvs Recon.median_of
  Decoder.new_state Decoder.decode_next_picture Decoder.cleanup_buffers Decoder.get_last_picture
  Decoder.get_reference_picture Decoder.next_quant Pipeline.pipeline ReaderConcrete.run_ops ReaderConcrete.from_source ReaderConcrete.abs_reader
  SpecRecon.spec_dequant SpecRecon.spec_intradc SpecRecon.zigzag_walk SpecRecon.wrap_spec SpecRecon.chroma_spec
  SpecRecon.lerp_spec SpecRecon.spec_next_quant Recon.new_decoded Recon.idct_all_values.
