(* The hypothesis of bridge_p_decode_next_picture (BridgePNext.v: the parsed header fits the integer fields of the code)
   discharged: every header decode_picture returns fits (proofs/HeaderFits.v), every stored picture keeps a format that
   fits (st_fits, an invariant of decode_next_picture and cleanup_buffers), hence on every state a decoder can reach - any
   history of accepted pictures, rejected pictures and clean-ups on a new decoder - and every reader, the function
   regenerated from the source is the model's decode_next_picture; and C01's totality theorem carries over to it. *)
From H263V Require Import base.Prelude base.Checked model.Types model.Tables model.Reader model.Header model.Syntax model.Recon model.Decoder gen.GenPLoop bridge.BridgePPrologue bridge.BridgePLoop bridge.BridgePNext proofs.HeaderLemmas proofs.HeaderFits proofs.StateRefine.
Require Import ZifyBool.

(* every stored picture has a format that fits the u16 size fields of the code *)
Definition st_fits (s : state) : Prop := Forall (fun kv : Z * decoded_picture => fmt_fits (d_format (snd kv))) (reference_states s).

Section MapAll.
Variable P : decoded_picture -> Prop.
Let all (m : pmap) := Forall (fun kv : Z * decoded_picture => P (snd kv)) m.
Lemma pm_get_all m k d : all m -> pm_get m k = Some d -> P d.
Proof.
  intros H. induction H as [|[k' v] m Hv _ IH]; cbn [pm_get]; [discriminate|].
  destruct (k' =? k); [intros E; inversion E; subst; exact Hv|exact IH].
Qed.
Lemma pm_remove_all m k : all m -> all (pm_remove m k).
Proof.
  intros H. induction H as [|[k' v] m Hv _ IH]; cbn [pm_remove]; [constructor|].
  destruct (k' =? k); [exact IH|constructor; assumption].
Qed.
Lemma pm_insert_all m k d : all m -> P d -> all (pm_insert m k d).
Proof. intros H Hd. unfold pm_insert. constructor; [exact Hd|apply pm_remove_all; exact H]. Qed.
Lemma cleanup_all s : all (reference_states s) -> all (reference_states (cleanup_buffers s)).
Proof.
  unfold cleanup_buffers. intros H. cbn [reference_states].
  destruct (last_picture s) as [lk|].
  - destruct (pm_get (reference_states s) lk) as [lv|] eqn:EL.
    + pose proof (pm_get_all _ _ _ H EL) as Hlv.
      destruct (reference_picture s) as [rk|].
      * destruct (pm_get (pm_remove (reference_states s) lk) rk) as [rv|] eqn:ER.
        -- apply pm_insert_all; [apply pm_insert_all; [constructor|exact Hlv]|].
           eapply pm_get_all; [apply pm_remove_all; exact H|exact ER].
        -- apply pm_insert_all; [constructor|exact Hlv].
      * apply pm_insert_all; [constructor|exact Hlv].
    + destruct (reference_picture s) as [rk|].
      * destruct (pm_get (reference_states s) rk) as [rv|] eqn:ER; [|constructor].
        apply pm_insert_all; [constructor|eapply pm_get_all; eauto].
      * constructor.
  - destruct (reference_picture s) as [rk|]; [|constructor].
    destruct (pm_get (reference_states s) rk) as [rv|] eqn:ER; [|constructor].
    apply pm_insert_all; [constructor|eapply pm_get_all; eauto].
Qed.
End MapAll.

Lemma last_fits s lp : st_fits s -> get_last_picture s = Some lp -> fmt_fits (d_format lp).
Proof.
  unfold get_last_picture. intros H E. destruct (last_picture s) as [k|]; [|discriminate].
  exact (pm_get_all (fun d => fmt_fits (d_format d)) _ _ _ H E).
Qed.

(* on a state satisfying the invariant every call meets the hypothesis of the bridge *)
Lemma header_fits_of_inv s r0 : st_fits s -> header_fits (st_opts s) (get_last_picture s) r0.
Proof.
  intros Hs. split.
  - intros hdr r Ed f w h Hsel Ewh.
    destruct (decode_picture_fits _ _ _ _ _ Ed) as [_ Hf].
    destruct Hsel as [Ef | [lp [El <-]]].
    + exact (Hf f Ef w h Ewh).
    + exact (last_fits s lp Hs El w h Ewh).
  - intros hdr r Ed. exact (proj1 (decode_picture_fits _ _ _ _ _ Ed)).
Qed.

(* ... and an accepted picture re-establishes it *)
Lemma reconstruct_fits o last reference running r0 np r :
  (forall lp, last = Some lp -> fmt_fits (d_format lp)) ->
  reconstruct o last reference running r0 = Ok (np, r) -> fmt_fits (d_format np).
Proof.
  intros Hl H. rewrite reconstruct_stages in H.
  bind_inv H as [x r1] Ep. destruct x as [[[[[[hdr nr] fmt] [w h]] mpl] mbh] [levw levh]].
  destruct (model_prologue_inv _ _ _ _ _ _ _ _ _ _ _ _ _ _ Ep) as ([r2 Ed] & Hsel & Ewh & _).
  destruct (new_decoded hdr fmt) as [np0|] eqn:En; [|discriminate]. cbv zeta in H.
  bind_inv H as st El. bind_inv H as np1 Ee. inversion H; subst.
  assert (Ef : d_format np = fmt).
  { unfold model_epilogue in Ee. cbv zeta in Ee. bind_inv Ee as g Eg. bind_inv Ee as l1 E1. bind_inv Ee as c1 E2. bind_inv Ee as c2 E3.
    inversion Ee; subst. cbn [d_format]. rewrite (proj2 (gather_go_header _ _ _ _ _ _ Eg)). exact (new_decoded_format _ _ _ En). }
  rewrite Ef. destruct Hsel as [Hh | [lp [El' <-]]].
  - exact (proj2 (decode_picture_fits _ _ _ _ _ Ed) fmt Hh).
  - exact (Hl lp El').
Qed.

Lemma decode_next_picture_fits s r s' r' : st_fits s -> decode_next_picture s r = Ok (s', r') -> st_fits s'.
Proof.
  intros Hs H. unfold decode_next_picture in H.
  bind_inv H as [np r1] E. inversion H; subst.
  unfold store_picture, st_fits. apply (cleanup_all (fun d => fmt_fits (d_format d))). cbn [reference_states].
  apply (pm_insert_all (fun d => fmt_fits (d_format d))); [exact Hs|].
  eapply reconstruct_fits; [|exact E]. intros lp El. exact (last_fits s lp Hs El).
Qed.

Lemma st_fits_new o : st_fits (new_state o).
Proof. constructor. Qed.

Lemma reachable_fits : forall ops s, st_fits s -> st_fits (fold_left step ops s).
Proof.
  induction ops as [|op ops IH]; intros s Hs; cbn [fold_left]; [exact Hs|]. apply IH.
  destruct op as [r|]; cbn [step].
  - destruct (decode_next_picture s r) as [[s' r']| | |] eqn:E; try exact Hs. eapply decode_next_picture_fits; eauto.
  - unfold st_fits. apply (cleanup_all (fun d => fmt_fits (d_format d))). exact Hs.
Qed.

(* decode_next_picture as regenerated from the source IS the model's function on every state a decoder can reach:
   after any history of accepted pictures, rejected pictures and clean-ups on a new decoder, for every reader *)
Theorem bridge_p_decode_next_picture_reachable gq o ops r :
  p_decode_next_picture gq (fold_left step ops (new_state o)) r = decode_next_picture (fold_left step ops (new_state o)) r.
Proof. apply bridge_p_decode_next_picture, header_fits_of_inv, reachable_fits, st_fits_new. Qed.
Print Assumptions bridge_p_decode_next_picture_reachable.

(* C01 for the regenerated function: no panic, no fuel exhaustion, on any reachable state and any input *)
From H263V Require Import proofs.Total1 proofs.Total3.
Theorem source_history_total gq o ops r : safe (p_decode_next_picture gq (fold_left step ops (new_state o)) r).
Proof. rewrite bridge_p_decode_next_picture_reachable. apply history_total. Qed.
Print Assumptions source_history_total.

(* C15 for the regenerated function: on a complete picture it returns the same state and stops at the same bit whatever
   follows in the source *)
From H263V Require Import proofs.Frame.
Theorem source_frame gq o ops r0 s' r' x :
  let s := fold_left step ops (new_state o) in
  p_decode_next_picture gq s r0 = Ok (s', r') ->
  picture_complete (st_opts s) (get_last_picture s) (running_options s) r0 ->
  p_decode_next_picture gq s (ext_r x r0) = Ok (s', ext_r x r').
Proof.
  cbv zeta. rewrite !bridge_p_decode_next_picture_reachable. apply decode_next_picture_frame.
Qed.
Print Assumptions source_frame.
