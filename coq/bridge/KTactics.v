(* Lemmas and tactics for the bridge proofs about translated kernels
   (gen/GenK*.v, produced by tools/rs2v_kernels.py): each checked operation
   succeeds with the plain Z value when that value is in the type's range. *)
From H263V Require Import base.Prelude base.Checked.
From Coq Require Import ZifyBool.

Ltac Zify.zify_post_hook ::= Z.to_euclidean_division_equations.

Lemma in_range_true lo hi x : lo <= x <= hi -> in_range lo hi x = true.
Proof. unfold in_range; lia. Qed.

Lemma chk_ok ok x : ok x = true -> chk ok x = Ok x.
Proof. unfold chk; intros ->; reflexivity. Qed.

Lemma add_c_ok t a b : ilo t <= a + b <= ihi t -> add_c t a b = Ok (a + b).
Proof. intros; apply chk_ok, in_range_true; assumption. Qed.
Lemma sub_c_ok t a b : ilo t <= a - b <= ihi t -> sub_c t a b = Ok (a - b).
Proof. intros; apply chk_ok, in_range_true; assumption. Qed.
Lemma mul_c_ok t a b : ilo t <= a * b <= ihi t -> mul_c t a b = Ok (a * b).
Proof. intros; apply chk_ok, in_range_true; assumption. Qed.
Lemma neg_c_ok t a : ilo t <= - a <= ihi t -> neg_c t a = Ok (- a).
Proof. intros; apply chk_ok, in_range_true; assumption. Qed.
Lemma abs_c_ok t a : ilo t <= Z.abs a <= ihi t -> abs_c t a = Ok (Z.abs a).
Proof. intros; apply chk_ok, in_range_true; assumption. Qed.
Lemma div_c_ok t a b : b <> 0 -> ilo t <= Z.quot a b <= ihi t -> div_c t a b = Ok (Z.quot a b).
Proof.
  intros Hb H; unfold div_c. destruct (b =? 0) eqn:E; [lia|]. apply chk_ok, in_range_true; assumption.
Qed.
Lemma rem_c_ok t a b : b <> 0 -> b <> -1 -> rem_c t a b = Ok (Z.rem a b).
Proof.
  intros Hb Hb1; unfold rem_c. destruct (b =? 0) eqn:E; [lia|].
  destruct (b =? -1) eqn:E1; [lia|]. rewrite andb_false_r. reflexivity.
Qed.
Lemma shl_c_ok t a k : 0 <= k < ibits t -> shl_c t a k = Ok (wrap t (Z.shiftl a k)).
Proof. intros; unfold shl_c. destruct (k <? 0) eqn:E; [lia|]. destruct (ibits t <=? k) eqn:E1; [lia|]. reflexivity. Qed.
Lemma shr_c_ok t a k : 0 <= k < ibits t -> shr_c t a k = Ok (Z.shiftr a k).
Proof. intros; unfold shr_c. destruct (k <? 0) eqn:E; [lia|]. destruct (ibits t <=? k) eqn:E1; [lia|]. reflexivity. Qed.
Lemma clamp_c_ok lo hi x : lo <= hi -> clamp_c lo hi x = Ok (clamp lo hi x).
Proof. intros; unfold clamp_c. destruct (hi <? lo) eqn:E; [lia|]. reflexivity. Qed.
Lemma div_ceil_c_ok a b : b <> 0 -> div_ceil_c a b = Ok ((a + b - 1) / b).
Proof. intros; unfold div_ceil_c. destruct (b =? 0) eqn:E; [lia|]. reflexivity. Qed.
Lemma assert_c_ok b : b = true -> assert_c b = Ok tt.
Proof. intros ->; reflexivity. Qed.

Lemma wrap_id t x : ilo t <= x <= ihi t -> wrap t x = x.
Proof.
  unfold wrap; intros H.
  assert (Hm : imod t = ihi t - ilo t + 1) by (destruct t; reflexivity).
  rewrite Z.mod_small by lia. lia.
Qed.

Lemma wrap_range t x : ilo t <= wrap t x <= ihi t.
Proof.
  unfold wrap.
  assert (Hm : imod t = ihi t - ilo t + 1) by (destruct t; reflexivity).
  assert (0 < imod t) by (destruct t; reflexivity).
  pose proof (Z.mod_pos_bound (x - ilo t) (imod t)). lia.
Qed.

Lemma bind_ok {A B} (r : res A) (f : A -> res B) v : r = Ok v -> bind r f = f v.
Proof. intros ->; reflexivity. Qed.

Lemma bind_assoc {A B C} (r : res A) (f : A -> res B) (g : B -> res C) :
  bind (bind r f) g = bind r (fun x => bind (f x) g).
Proof. destruct r; reflexivity. Qed.

(* range side conditions: literal bounds of the type, then linear arithmetic with
   Z.abs / Z.max / Z.min / Z.sgn / Z.quot / Z.rem / div / mod handled by zify *)
Ltac krange := cbn [ilo ihi imod ibits] in *; unfold clamp in *; lia.

(* one step of symbolic execution of a translated kernel: the goal is
   `bind (op ..) (fun t => ..) = _`; the operation's success is proved by krange and
   its value is kept as a named variable with its defining equation *)
Ltac kbeta :=
  lazymatch goal with
  | |- bind (Ok ?y) ?g = _ => change (bind (Ok y) g) with (g y); cbv beta
  end.
Ltac kname :=
  lazymatch goal with
  | |- bind (Ok ?v) _ = _ =>
      first [ is_var v
            | let x := fresh "v" in let Hx := fresh "Hv" in remember v as x eqn:Hx ]
  end; kbeta.
Ltac kstep_with nm :=
  lazymatch goal with
  | |- bind (Ok _) _ = _ => nm
  | |- bind (bind ?r ?f) ?g = _ => rewrite (bind_assoc r f g); cbv beta
  | |- bind (add_c ?t ?a ?b) _ = _ => rewrite (add_c_ok t a b) by krange; nm
  | |- bind (sub_c ?t ?a ?b) _ = _ => rewrite (sub_c_ok t a b) by krange; nm
  | |- bind (mul_c ?t ?a ?b) _ = _ => rewrite (mul_c_ok t a b) by krange; nm
  | |- bind (neg_c ?t ?a) _ = _ => rewrite (neg_c_ok t a) by krange; nm
  | |- bind (abs_c ?t ?a) _ = _ => rewrite (abs_c_ok t a) by krange; nm
  | |- bind (div_c ?t ?a ?b) _ = _ => rewrite (div_c_ok t a b) by krange; nm
  | |- bind (rem_c ?t ?a ?b) _ = _ => rewrite (rem_c_ok t a b) by krange; nm
  | |- bind (shl_c ?t ?a ?k) _ = _ => rewrite (shl_c_ok t a k) by krange; nm
  | |- bind (shr_c ?t ?a ?k) _ = _ => rewrite (shr_c_ok t a k) by krange; nm
  | |- bind (clamp_c ?l ?h ?x) _ = _ => rewrite (clamp_c_ok l h x) by krange; nm
  | |- bind (div_ceil_c ?a ?b) _ = _ => rewrite (div_ceil_c_ok a b) by krange; nm
  | |- bind (assert_c ?b) _ = _ => rewrite (assert_c_ok b) by lia; cbn [bind]
  | |- (let x := ?v in _) = _ => cbv zeta
  end.
Ltac kstep := kstep_with ltac:(idtac; kname).
(* the same, substituting the value instead of naming it (for nonlinear side conditions) *)
Ltac kstepi := kstep_with ltac:(idtac; kbeta).
Ltac ksteps := repeat kstep.
Ltac kstepsi := repeat kstepi.

(* remove the wraps of lane arithmetic innermost first: each is the identity because
   its argument is in the lane type's range *)
Ltac kunwrap1 :=
  match goal with
  | |- context [wrap ?t ?x] =>
      lazymatch x with
      | context [wrap _ _] => fail
      | _ => rewrite (wrap_id t x) by krange
      end
  end.
Ltac kunwrap := repeat kunwrap1.

Lemma wrap_u8_eq x : wrap U8 x = wrap_u8 x.
Proof. unfold wrap, wrap_u8; cbn [ilo imod]. rewrite Z.sub_0_r, Z.add_0_r. reflexivity. Qed.
Lemma wrap_i16_eq x : wrap I16 x = wrap_i16 x.
Proof. unfold wrap, wrap_i16; cbn [ilo imod]. replace (x - -32768) with (x + 32768) by lia. lia. Qed.

(* closing a bridge goal `Ok gen = Ok model` (or `gen = model`) after symbolic execution: syntactically equal in the normal
   case; after a harmless rewrite of the source (operands swapped, clamp written as max/min, ...) linear arithmetic over the
   unfolded model definitions (hint database kmodel of the bridge file) often still closes it *)
Create HintDb kmodel.
Ltac kfin :=
  subst;
  first [ reflexivity
        | f_equal; first [ reflexivity | autounfold with kmodel; unfold clamp, wrap_u8; cbn [ilo ihi imod]; lia ]
        | autounfold with kmodel; unfold clamp; lia ].

(* ---- structure-agnostic symbolic execution for scalar kernels: step through the checked operations in whatever order the
   source has them, split on every condition of either side, and close each case (contradictory ones included) by linear
   arithmetic over the unfolded model definitions *)
Ltac kcase :=
  match goal with
  | |- context [if ?c then _ else _] =>
      lazymatch c with context [if _ then _ else _] => fail | _ => idtac end;
      let E := fresh "Ec" in destruct c eqn:E
  end.
Ltac kfin2 :=
  subst; autounfold with kmodel; unfold clamp;
  first [ reflexivity | lia | (exfalso; lia)
        | match goal with
          | |- Ok _ = Ok _ => f_equal; kfin2
          | |- (_, _) = (_, _) => f_equal; kfin2
          end ].
Ltac kauto := repeat (first [ progress (cbv zeta) | kstep | kcase ]); kfin2.
