(* Bridge: the picture-header field decoders of h263/src/parser/picture.rs as translated from the Rust source on this run
   (gen/GenPHeader.v, tools/rs2v_parser.py) equal the hand-written model's (model/Header.v) on every reader: field
   positions, widths, masks, polarities, the accumulation of mode flags and followers, the error cases. *)
From H263V Require Import base.Prelude base.Checked model.Types model.Tables model.Reader model.Header gen.GenPHeader bridge.KTactics proofs.ReaderLemmas proofs.LoopBound.
Require Import ZifyBool.
Ltac Zify.zify_post_hook ::= Z.div_mod_to_equations.

Lemma land_pow2 v k : 0 <= k -> Z.land v (2 ^ k) = if Z.testbit v k then 2 ^ k else 0.
Proof.
  intros Hk. apply Z.bits_inj'. intros n Hn. rewrite Z.land_spec, Z.pow2_bits_eqb by lia.
  destruct (Z.testbit v k) eqn:T.
  - rewrite Z.pow2_bits_eqb by lia. destruct (Z.eqb_spec k n) as [->|Hne]; [rewrite T; reflexivity|apply andb_false_r].
  - rewrite Z.bits_0. destruct (Z.eqb_spec k n) as [->|Hne]; [rewrite T; reflexivity|apply andb_false_r].
Qed.

(* the code tests a flag bit with a mask, the model with testbit *)
Lemma mask_test v k : 0 <= k -> (Z.land v (2 ^ k) =? 0) = negb (Z.testbit v k).
Proof.
  intros Hk. rewrite land_pow2 by lia. destruct (Z.testbit v k); [|reflexivity].
  assert (0 < 2 ^ k) by (apply Z.pow_pos_nonneg; lia). cbn [negb]. lia.
Qed.

Ltac masks :=
  repeat match goal with
  | |- context [Z.land ?v ?m =? 0] =>
      lazymatch m with
      | 1 => change (Z.land v 1 =? 0) with (Z.land v (2 ^ 0) =? 0); rewrite (mask_test v 0) by lia
      | 2 => change (Z.land v 2 =? 0) with (Z.land v (2 ^ 1) =? 0); rewrite (mask_test v 1) by lia
      | 4 => change (Z.land v 4 =? 0) with (Z.land v (2 ^ 2) =? 0); rewrite (mask_test v 2) by lia
      | 8 => change (Z.land v 8 =? 0) with (Z.land v (2 ^ 3) =? 0); rewrite (mask_test v 3) by lia
      | 16 => change (Z.land v 16 =? 0) with (Z.land v (2 ^ 4) =? 0); rewrite (mask_test v 4) by lia
      | 32 => change (Z.land v 32 =? 0) with (Z.land v (2 ^ 5) =? 0); rewrite (mask_test v 5) by lia
      | 64 => change (Z.land v 64 =? 0) with (Z.land v (2 ^ 6) =? 0); rewrite (mask_test v 6) by lia
      | 128 => change (Z.land v 128 =? 0) with (Z.land v (2 ^ 7) =? 0); rewrite (mask_test v 7) by lia
      | 256 => change (Z.land v 256 =? 0) with (Z.land v (2 ^ 8) =? 0); rewrite (mask_test v 8) by lia
      | 512 => change (Z.land v 512 =? 0) with (Z.land v (2 ^ 9) =? 0); rewrite (mask_test v 9) by lia
      | 1024 => change (Z.land v 1024 =? 0) with (Z.land v (2 ^ 10) =? 0); rewrite (mask_test v 10) by lia
      | 2048 => change (Z.land v 2048 =? 0) with (Z.land v (2 ^ 11) =? 0); rewrite (mask_test v 11) by lia
      | 4096 => change (Z.land v 4096 =? 0) with (Z.land v (2 ^ 12) =? 0); rewrite (mask_test v 12) by lia
      | 8192 => change (Z.land v 8192 =? 0) with (Z.land v (2 ^ 13) =? 0); rewrite (mask_test v 13) by lia
      | 16384 => change (Z.land v 16384 =? 0) with (Z.land v (2 ^ 14) =? 0); rewrite (mask_test v 14) by lia
      end
  end; rewrite ?negb_involutive.

(* a value below 2^n is one of 0 .. 2^n - 1: case analysis for small n *)
Lemma below_cases v n : 0 <= v < Z.of_nat n -> In v (map Z.of_nat (seq 0 n)).
Proof. intros H. apply in_map_iff. exists (Z.to_nat v). split; [lia|]. apply in_seq. lia. Qed.

Ltac cases_below v n :=
  let H := fresh "Hc" in
  assert (H : In v (map Z.of_nat (seq 0 n))) by (apply below_cases; cbn; lia);
  cbn [seq map Z.of_nat Pos.of_succ_nat Pos.succ In] in H;
  repeat (destruct H as [H|H]; [subst v|]); [..|destruct H].

(* the width of the integer type read into only matters when it is smaller than the field *)
Lemma read_bits_width w n r : n <= w -> n <= 32 -> read_bits w n r = read_bits 32 n r.
Proof.
  intros H1 H2. unfold read_bits, peek_bits.
  destruct (w <? n) eqn:E1; [lia|]. destruct (32 <? n) eqn:E2; [lia|]. reflexivity.
Qed.

Ltac norm_width r :=
  repeat match goal with
  | |- context [read_bits ?w ?n r] =>
      lazymatch w with 32 => fail | _ => rewrite (read_bits_width w n r) by lia end
  end.

(* run a read of the generated and the hand-written parser in step *)
Ltac step_read :=
  unfold read_u8;
  match goal with
  | |- context [read_bits _ _ ?r] =>
      norm_width r;
      match goal with
      | |- context [read_bits 32 ?n r] =>
          let v := fresh "v" in let r' := fresh "r" in let E := fresh "E" in
          destruct (read_bits 32 n r) as [[v r']| | |] eqn:E; cbn [bind]; try reflexivity;
          try (pose proof (read_bits_range 32 n r v r' ltac:(lia) E))
      end
  end.

Lemma bridge_p_decode_cpm_and_psbi r : p_decode_cpm_and_psbi r = decode_cpm_and_psbi r.
Proof. reflexivity. Qed.

Lemma bridge_p_decode_uui r : p_decode_uui r = decode_uui r.
Proof. reflexivity. Qed.

Lemma bridge_p_decode_trpi r : p_decode_trpi r = decode_trpi r.
Proof. reflexivity. Qed.

Lemma bridge_p_decode_sss r : p_decode_sss r = decode_sss r.
Proof.
  unfold p_decode_sss, decode_sss. autounfold with pgen. step_read. cbv zeta.
  change (2 ^ 2) with 4 in *. cases_below v 4%nat; reflexivity.
Qed.

Lemma bridge_p_decode_rpsmf r : p_decode_rpsmf r = decode_rpsmf r.
Proof.
  unfold p_decode_rpsmf, decode_rpsmf. autounfold with pgen. step_read. cbv zeta.
  change (2 ^ 3) with 8 in *. cases_below v 8%nat; reflexivity.
Qed.

(* BCM is unimplemented in the code: the model returns unit where the code returns None *)
Lemma bridge_p_decode_bcm r :
  match p_decode_bcm r with Ok (_, r') => Ok (tt, r') | Err e => Err e | Panic p => Panic p | OutOfFuel => OutOfFuel end = decode_bcm r.
Proof.
  unfold p_decode_bcm, decode_bcm. autounfold with pgen. step_read. destruct (v =? 1); [reflexivity|]. cbv zeta. step_read.
  destruct (v0 =? 1); reflexivity.
Qed.

Lemma bridge_p_decode_trb clk r : p_decode_trb clk r = read_bits 8 (if clk then 5 else 3) r.
Proof. destruct clk; reflexivity. Qed.

Lemma bridge_p_decode_dbquant r :
  p_decode_dbquant r = let* (d, r') := read_bits 8 2 r in Ok (5 + d, r').
Proof.
  unfold p_decode_dbquant. autounfold with pgen. step_read. change (2 ^ 2) with 4 in *. cases_below v 4%nat; reflexivity.
Qed.

Lemma bridge_p_decode_cpcfc r :
  p_decode_cpcfc r = let* (c, r') := read_u8 r in Ok ((tb c 7, Z.land c 127), r').
Proof. unfold p_decode_cpcfc. autounfold with pgen. step_read. cbv zeta. masks. reflexivity. Qed.

Lemma bridge_p_decode_ptype r : p_decode_ptype r = decode_ptype r.
Proof.
  unfold p_decode_ptype, decode_ptype. autounfold with pgen. step_read. cbv zeta.
  destruct (negb (Z.land v 192 =? 128)); [reflexivity|].
  masks. unfold tb.
  assert (Hm : 0 <= Z.land v 7 < 8) by (change 7 with (Z.ones 3); rewrite Z.land_ones by lia; change (2 ^ 3) with 8; lia).
  generalize dependent (Z.land v 7). intros m Hm.
  cases_below m 8%nat; cbn [Z.eqb Pos.eqb negb orb andb];
    destruct (Z.testbit v 5), (Z.testbit v 4), (Z.testbit v 3); try reflexivity;
    step_read; masks; unfold tb;
    destruct (Z.testbit v0 4), (Z.testbit v0 3), (Z.testbit v0 2), (Z.testbit v0 1), (Z.testbit v0 0); reflexivity.
Qed.

Lemma bridge_p_decode_sorenson_ptype r : p_decode_sorenson_ptype r = decode_sorenson_ptype r.
Proof.
  unfold p_decode_sorenson_ptype, decode_sorenson_ptype. autounfold with pgen. step_read. cbv zeta.
  change (2 ^ 3) with 8 in *. cases_below v 8%nat; cbn [Z.eqb Pos.eqb orb bind];
    repeat (step_read; cbv zeta); try reflexivity.
Qed.

Definition fol_of_bits (z : Z) : followers :=
  mkFollowers (tb z 0) (tb z 1) (tb z 2) (tb z 3) (tb z 4) (tb z 5).

Lemma has_pow2 z k : 0 <= k -> has z (2 ^ k) = Z.testbit z k.
Proof.
  intros Hk. unfold has. rewrite land_pow2 by lia. destruct (Z.testbit z k); [apply Z.eqb_refl|].
  assert (0 < 2 ^ k) by (apply Z.pow_pos_nonneg; lia). lia.
Qed.

Lemma bridge_p_decode_elnum_rlnum f r : p_decode_elnum_rlnum f r = decode_elnum_rlnum (fol_of_bits f) r.
Proof.
  unfold p_decode_elnum_rlnum, decode_elnum_rlnum. autounfold with pgen. step_read. cbv zeta.
  change 16 with (2 ^ 4). rewrite has_pow2 by lia. cbn [fol_of_bits f_ref_layer]. unfold tb.
  destruct (Z.testbit f 4); [step_read|]; reflexivity.
Qed.

(* the code returns the CustomPictureFormat record, the model the source format built from it *)
Lemma bridge_p_decode_cpfmt r :
  match p_decode_cpfmt r with Ok ((par, w, h), r') => Ok (Extended par w h, r') | Err e => Err e | Panic p => Panic p | OutOfFuel => OutOfFuel end
  = decode_cpfmt r.
Proof.
  unfold p_decode_cpfmt, decode_cpfmt. autounfold with pgen. step_read. cbv zeta.
  change 512 with (2 ^ 9). rewrite mask_test by lia.
  destruct (Z.testbit v 9) eqn:T9; cbn [negb]; [|reflexivity].
  assert (Hp : 0 <= Z.shiftr (Z.land v 7864320) 19 < 16).
  { rewrite Z.shiftr_land. change (Z.shiftr 7864320 19) with (Z.ones 4). rewrite Z.land_ones by lia. change (2 ^ 4) with 16. lia. }
  assert (Hw : 0 <= Z.shiftr (Z.land v 523264) 10 < 512).
  { rewrite Z.shiftr_land. change (Z.shiftr 523264 10) with (Z.ones 9). rewrite Z.land_ones by lia. change (2 ^ 9) with 512. lia. }
  assert (Hh : 0 <= Z.land v 511 < 512).
  { change 511 with (Z.ones 9). rewrite Z.land_ones by lia. change (2 ^ 9) with 512. lia. }
  generalize dependent (Z.shiftr (Z.land v 7864320) 19). intros p Hp.
  generalize dependent (Z.shiftr (Z.land v 523264) 10). intros w Hw.
  generalize dependent (Z.land v 511). intros h Hh.
  rewrite !(wrap_id U16) by krange. rewrite (wrap_id U8) by krange.
  cases_below p 16%nat; cbn [Z.eqb Pos.eqb bind]; try reflexivity;
    try (step_read; step_read; destruct ((v0 =? 0) || (v1 =? 0)); [reflexivity|]);
    repeat (first [rewrite add_c_ok by krange | rewrite mul_c_ok by krange]; cbn [bind]); reflexivity.
Qed.

Lemma bridge_p_OPPTYPE_OPTIONS : p_OPPTYPE_OPTIONS = opptype_options_parser.
Proof. reflexivity. Qed.

Definition plus_map (x : res ((Z * option source_format * ptype_code * Z * bool) * reader)) :=
  match x with
  | Ok ((o, sf, ty, f, opp), r) => Ok ((o, sf, ty, fol_of_bits f, opp), r)
  | Err e => Err e | Panic p => Panic p | OutOfFuel => OutOfFuel
  end.

Definition model_mpp_stage (O : Z) (sf : option source_format) (fol : followers) (opp : bool) (r : reader) :=
  let* (mpp, r) := read_bits 16 9 r in
  if negb (Z.land mpp 7 =? 1) then Err EInvalidPlusPType else
  let t := Z.shiftr (Z.land mpp 448) 6 in
  let ty := if t =? 0 then IFrame else if t =? 1 then PFrame else if t =? 2 then ImprovedPbFrame
            else if t =? 3 then BFrame else if t =? 4 then EiFrame else if t =? 5 then EpFrame
            else PtReserved t in
  let opts := Z.lor O (flag_if (tb mpp 5) REFERENCE_PICTURE_RESAMPLING
                          + flag_if (tb mpp 4) REDUCED_RESOLUTION_UPDATE
                          + flag_if (tb mpp 3) ROUNDING_TYPE_ONE) in
  Ok ((opts, sf, ty, fol, opp), r).

Lemma bridge_mpp_stage opp rd F O sf :
  plus_map (p_decode_plusptype_k10 opp rd F O sf) = model_mpp_stage O sf (fol_of_bits F) opp rd.
Proof.
  unfold p_decode_plusptype_k10, p_decode_plusptype_k18, model_mpp_stage. step_read. cbv zeta.
  destruct (negb (Z.land v 7 =? 1)); [reflexivity|].
  assert (Ht : 0 <= Z.shiftr (Z.land v 448) 6 < 8).
  { rewrite Z.shiftr_land. change (Z.shiftr 448 6) with (Z.ones 3). rewrite Z.land_ones by lia. change (2 ^ 3) with 8. lia. }
  rewrite (wrap_id U8) by krange.
  masks. unfold tb, plus_map.
  destruct (Z.testbit v 5), (Z.testbit v 4), (Z.testbit v 3); cbn [flag_if]; rewrite <- ?Z.lor_assoc, ?Z.lor_0_r; reflexivity.
Qed.

Definition model_opp_options (opp : Z) : Z :=
  flag_if (tb opp 13) UNRESTRICTED_MOTION_VECTORS + flag_if (tb opp 12) SYNTAX_BASED_ARITHMETIC_CODING
  + flag_if (tb opp 11) ADVANCED_PREDICTION + flag_if (tb opp 10) ADVANCED_INTRA_CODING
  + flag_if (tb opp 9) DEBLOCKING_FILTER + flag_if (tb opp 8) SLICE_STRUCTURED
  + flag_if (tb opp 7) REFERENCE_PICTURE_SELECTION + flag_if (tb opp 6) INDEPENDENT_SEGMENT_DECODING
  + flag_if (tb opp 5) ALTERNATIVE_INTER_VLC + flag_if (tb opp 4) MODIFIED_QUANTIZATION.

(* the OPPTYPE stage: mode bits and followers, for either value of the custom-format flag *)
Lemma bridge_opp_stage o opp rd sf (custom : bool) :
  plus_map (p_decode_plusptype_k30 o opp 0 rd true sf (if custom then 1 else 0))
  = model_mpp_stage (model_opp_options opp) sf
      (mkFollowers custom (tb opp 14) (tb opp 13) (tb opp 8) (scalability o) (tb opp 7)) true rd.
Proof.
  unfold p_decode_plusptype_k30. cbv zeta. rewrite bridge_mpp_stage. masks. unfold model_opp_options, tb.
  f_equal.
  - destruct (Z.testbit opp 13), (Z.testbit opp 12), (Z.testbit opp 11), (Z.testbit opp 10), (Z.testbit opp 9),
             (Z.testbit opp 8), (Z.testbit opp 7), (Z.testbit opp 6), (Z.testbit opp 5), (Z.testbit opp 4); reflexivity.
  - destruct custom, (Z.testbit opp 14), (Z.testbit opp 13), (Z.testbit opp 8), (Z.testbit opp 7), (scalability o); reflexivity.
Qed.

Lemma bridge_p_decode_plusptype o prev r : plus_map (p_decode_plusptype o prev r) = decode_plusptype o prev r.
Proof.
  unfold p_decode_plusptype, decode_plusptype. step_read. change (2 ^ 3) with 8 in *.
  cases_below v 8%nat; cbn [Z.eqb Pos.eqb negb orb]; try reflexivity.
  - (* UFEP = 000: the optional modes of the previous header *)
    cbv zeta. cbn [bind]. rewrite bridge_mpp_stage. reflexivity.
  - (* UFEP = 001 *)
    cbv zeta. step_read.
    destruct (negb (Z.land v 15 =? 8)); [reflexivity|].
    unfold p_decode_plusptype_k28. cbv zeta.
    assert (Hf : 0 <= Z.shiftr (Z.land v 229376) 15 < 8).
    { rewrite Z.shiftr_land. change (Z.shiftr 229376 15) with (Z.ones 3). rewrite Z.land_ones by lia. change (2 ^ 3) with 8. lia. }
    change (Z.lor 0 1) with 1.
    generalize dependent (Z.shiftr (Z.land v 229376) 15). intros f Hf.
    cases_below f 8%nat; cbn [Z.eqb Pos.eqb];
      first [ rewrite (bridge_opp_stage o v r1 _ false) | rewrite (bridge_opp_stage o v r1 _ true) ]; reflexivity.
Qed.

(* ------------------------------------------------------------------ decode_picture: the whole header *)
(* relational congruence for bind: a stage of the generated parser against the stage of the model *)
Definition res_rel {A A'} (R : A -> A' -> Prop) (m : res A) (m' : res A') : Prop :=
  match m, m' with
  | Ok a, Ok a' => R a a'
  | Err e, Err e' => e = e'
  | Panic p, Panic p' => p = p'
  | OutOfFuel, OutOfFuel => True
  | _, _ => False
  end.

Lemma bind_rel {A A' B} (R : A -> A' -> Prop) (m : res A) (m' : res A') (k : A -> res B) (k' : A' -> res B) :
  res_rel R m m' -> (forall x x', R x x' -> k x = k' x') -> bind m k = bind m' k'.
Proof.
  intros Hm Hk. destruct m, m'; cbn in *; try contradiction; try (subst; reflexivity). apply Hk, Hm.
Qed.

Lemma res_rel_eq {A} (m : res A) : res_rel eq m m.
Proof. destruct m; cbn; auto. Qed.

Lemma bind_eq {A B} (m m' : res A) (k k' : A -> res B) : m = m' -> (forall x, k x = k' x) -> bind m k = bind m' k'.
Proof. intros -> H. destruct m'; cbn; auto. Qed.

Lemma has_1 z : has z 1 = Z.testbit z 0. Proof. apply (has_pow2 z 0). lia. Qed.
Lemma has_2 z : has z 2 = Z.testbit z 1. Proof. apply (has_pow2 z 1). lia. Qed.
Lemma has_4 z : has z 4 = Z.testbit z 2. Proof. apply (has_pow2 z 2). lia. Qed.
Lemma has_8 z : has z 8 = Z.testbit z 3. Proof. apply (has_pow2 z 3). lia. Qed.
Lemma has_16 z : has z 16 = Z.testbit z 4. Proof. apply (has_pow2 z 4). lia. Qed.
Lemma has_32 z : has z 32 = Z.testbit z 5. Proof. apply (has_pow2 z 5). lia. Qed.

Lemma bridge_p_decode_picture o prev r : p_decode_picture o prev r = decode_picture o prev r.
Proof.
  unfold p_decode_picture, decode_picture.
  destruct (recognize_start_code false r) as [[sk|]| | |] eqn:Esc; cbn [bind]; try reflexivity.
  destruct (recognize_start_code_window r sk Esc) as [Hsk1 Hsk2]. cbv zeta.
  rewrite add_c_ok by krange. cbn [bind].
  destruct (skip_bits (17 + sk) r) as [r1| | |]; cbn [bind]; try reflexivity.
  step_read. cbv zeta. rename v into gob.
  destruct (sorenson o) eqn:Eso.
  - (* Sorenson *)
    step_read. cbv zeta. rewrite bridge_p_decode_sorenson_ptype.
    destruct (decode_sorenson_ptype r2) as [[[[fmt ty] opts] r3]| | |]; cbn [bind]; try reflexivity.
  - destruct (negb (gob =? 0)); [reflexivity|].
    autounfold with pgen.
    (* temporal reference byte *)
    apply bind_eq; [reflexivity|]. intros [low r2]. cbv beta iota.
    (* PTYPE *)
    rewrite bridge_p_decode_ptype. apply bind_eq; [reflexivity|]. intros [[opts0 fat] r3]. cbv beta iota.
    (* PLUSPTYPE and CPM, or the plain PTYPE *)
    eapply (bind_rel (fun x x' =>
              let '(f, t, F, p, op, mx, os, rd) := x in
              let '(os', f', t', fol', p', op', mx', rd') := x' in
              f = f' /\ t = t' /\ fol' = fol_of_bits F /\ p = p' /\ op = op' /\ mx = mx' /\ os = os' /\ rd = rd')).
    { destruct fat as [[fmt0 ty0]|]; [cbn; repeat split; reflexivity|].
      pose proof (bridge_p_decode_plusptype o (match prev with Some p => options p | None => 0 end) r3) as HP.
      destruct (p_decode_plusptype o _ r3) as [[[[[[xo mf] ty1] F1] opp1] r4]| | |]; cbn [plus_map] in HP; rewrite <- HP; cbn [bind res_rel]; try reflexivity.
      rewrite bridge_p_decode_cpm_and_psbi.
      destruct (decode_cpm_and_psbi r4) as [[mx1 r5]| | |]; cbn; try reflexivity. repeat split; reflexivity. }
    intros [[[[[[[f t] F] p] op] mx] os] rd] [[[[[[[os' f'] t'] fol'] p'] op'] mx'] rd'] (-> & -> & -> & -> & -> & -> & -> & ->).
    cbv beta iota. cbn [f_custom_format f_custom_clock f_mv_range f_slice_submode f_ref_layer f_rps_mode fol_of_bits].
    rewrite ?has_1, ?has_2, ?has_4, ?has_8, ?has_32. unfold tb.
    (* CPFMT *)
    apply bind_eq.
    { destruct (Z.testbit F 0); [|reflexivity]. rewrite <- bridge_p_decode_cpfmt.
      destruct (p_decode_cpfmt rd') as [[[[pa w] h] r9]| | |]; reflexivity. }
    intros [fmt2 r6]. cbv beta iota.
    (* CPCFC: only its presence matters afterwards *)
    eapply (bind_rel (fun x x' => snd x = snd x' /\ (match fst x with Some _ => true | None => false end) = (match fst x' with Some _ => true | None => false end))).
    { destruct (Z.testbit F 1); [|cbn; split; reflexivity]. rewrite bridge_p_decode_cpcfc. unfold read_u8.
      destruct (read_bits 8 8 r6) as [[c r9]| | |]; cbn; auto. }
    intros [clk r7] [clk' r7'] [Hr Hc]. cbn [fst snd] in Hr, Hc. subst r7'. cbv beta iota.
    (* extended temporal reference *)
    apply bind_eq.
    { rewrite Hc. destruct clk' as [c|]; [|reflexivity]. step_read. change (2 ^ 2) with 4 in *.
      rewrite Z.shiftl_mul_pow2 by lia. change (2 ^ 8) with 256. rewrite wrap_id by krange. reflexivity. }
    intros [tr r8]. cbv beta iota.
    (* UUI, SSS *)
    apply bind_eq. { rewrite bridge_p_decode_uui. reflexivity. } intros [mvr r9]. cbv beta iota.
    apply bind_eq. { rewrite bridge_p_decode_sss. reflexivity. } intros [sss r10]. cbv beta iota.
    (* ELNUM / RLNUM *)
    apply bind_eq. { rewrite bridge_p_decode_elnum_rlnum. reflexivity. } intros [lay r11]. cbv beta iota.
    (* RPSMF, TRPI *)
    apply bind_eq. { rewrite bridge_p_decode_rpsmf. reflexivity. } intros [rps r12]. cbv beta iota.
    apply bind_eq.
    { rewrite bridge_p_decode_trpi. destruct (has os' REFERENCE_PICTURE_SELECTION); [|reflexivity].
      destruct (decode_trpi r12) as [[a b]| | |]; reflexivity. }
    intros [trp r13]. cbv beta iota.
    (* BCM: the message itself is unimplemented; only the reader continues *)
    eapply (bind_rel (fun x x' => snd x = x')).
    { destruct (has os' REFERENCE_PICTURE_SELECTION); [|reflexivity]. rewrite <- bridge_p_decode_bcm.
      destruct (p_decode_bcm r13) as [[a b]| | |]; reflexivity. }
    intros [bcm r14] r14' Hr. cbn [snd] in Hr. subst r14'. cbv beta iota.
    (* RPRP: unimplemented in the code; the condition under which it would be read *)
    eapply (bind_rel (fun x (_ : unit) => snd x = r14)).
    { match goal with |- res_rel _ (if ?c then _ else _) _ => destruct c end; reflexivity. }
    intros [rp r15] [] Hr. cbn [snd] in Hr. subst r15. cbv beta iota.
    (* PQUANT *)
    apply bind_eq; [reflexivity|]. intros [q r16]. cbv beta iota.
    (* CPM / PSBI when no PLUSPTYPE carried it *)
    eapply (bind_rel (fun x x' => fst x = Some (fst x') /\ snd x = snd x')).
    { destruct mx' as [m|]; [cbn; split; reflexivity|]. rewrite bridge_p_decode_cpm_and_psbi.
      destruct (decode_cpm_and_psbi r16) as [[m r17]| | |]; cbn; auto. }
    intros [mx2 r17] [m r17'] [Hm Hr]. cbn [fst snd] in Hm, Hr. subst mx2 r17'. cbv beta iota.
    (* TRB / DBQUANT *)
    eapply (bind_rel (fun x x' => let '(pbr', pbq', r') := x' in x = ((pbr', pbq'), r'))).
    { rewrite Hc.
      assert (Hpb : forall (b : bool) rd,
                res_rel (fun (x : (option Z * option Z) * reader) (x' : option Z * option Z * reader) => let '(pbr', pbq', r') := x' in x = ((pbr', pbq'), r'))
                  (let* (v124, r125) := p_decode_trb b rd in let* (v126, r127) := p_decode_dbquant r125 in Ok ((Some v124, Some v126), r127))
                  (let* (trb, r15) := read_bits 8 (if b then 5 else 3) rd in let* (dbq, r16) := read_bits 8 2 r15 in Ok (Some trb, Some (5 + dbq), r16))).
      { intros b rd. rewrite bridge_p_decode_trb. destruct (read_bits 8 (if b then 5 else 3) rd) as [[trb r18]| | |]; cbn [bind res_rel]; try reflexivity.
        rewrite bridge_p_decode_dbquant. destruct (read_bits 8 2 r18) as [[dbq r19]| | |]; cbn; reflexivity. }
      destruct t'; try reflexivity; (destruct clk'; apply Hpb). }
    intros [[pbr pbq] r18] [[pbr' pbq'] r18'] Hx. inversion Hx; subst. cbv beta iota.
    (* PEI *)
    reflexivity.
Qed.
