(* decoder/state.rs, decode_next_picture: the macroblock loop.  One iteration of the `loop { .. }` as regenerated from the source
   (gen/GenPLoop.v, p_loop_body: the completion test, the call of decode_macroblock kept as a Result and matched on, the
   stuffing / not-coded / coded arms, the resynchronisation through decode_gob with its break / continue / return arms, the two
   pushes), iterated by loop_fuel (base/Checked.v), is the model's mb_loop on the same fuel. *)
From H263V Require Import base.Prelude base.Checked model.Types model.Tables model.Reader model.Header model.Syntax model.Recon model.Decoder gen.GenPGather gen.GenPMacroblock gen.GenPLoop bridge.KTactics bridge.BridgePGather bridge.BridgePMacroblock bridge.BridgePLoop proofs.HeaderLemmas.
Require Import ZifyBool.
Ltac Zify.zify_post_hook ::= Z.div_mod_to_equations.

(* every DQUANT the macroblock parser hands out is one of the four table entries *)
Lemma decode_macroblock_dq pic running r t p dq mvd addl r' :
  decode_macroblock pic running r = Ok (MbCoded t p dq mvd addl, r') -> dq_small dq.
Proof.
  unfold decode_macroblock. intros H.
  bind_inv H as [cod r1] E1.
  destruct (negb (cod =? 0)); [discriminate|].
  bind_inv H as [mcbpc r2] E2.
  destruct mcbpc as [| |t0 cb cr]; try discriminate.
  bind_inv H as [[hc hm] r3] E3.
  bind_inv H as [ocbpy r4] E4.
  destruct ocbpy as [v|]; [|discriminate].
  bind_inv H as r5 E5.
  destruct (has running MODIFIED_QUANTIZATION); [discriminate|].
  bind_inv H as [dq0 r6] E6.
  bind_inv H as [mvd0 r7] E7.
  bind_inv H as [addl0 r8] E8.
  bind_inv H as r9 E9.
  inversion H; subst.
  destruct (mb_has_quantizer t).
  - bind_inv E6 as [d r10] E10. inversion E6; subst. unfold decode_dquant in E10.
    bind_inv E10 as [c r11] E11. inversion E10; subst. unfold dq_small.
    assert (Hc : forall n, -96 <= nth n dquant_arms 0 <= 96).
    { intros n. do 5 (destruct n as [|n]; [vm_compute; split; discriminate|]). destruct n; vm_compute; split; discriminate. }
    apply Hc.
  - inversion E6; subst. exact I.
Qed.

(* the loop variables of the code against the model's loop record *)
Definition s_of (st : mbloop) : p_loop_state :=
  (l_quant st, l_pvs st, l_types st, 0, l_luma st, l_cb st, l_cr st, l_reader st).

Lemma p_decode_gob_none o r x r' : p_decode_gob o r = Ok (x, r') -> x = None /\ r' = r.
Proof.
  unfold p_decode_gob. intros H.
  bind_inv H as v1 E1. destruct v1 as [sk|]; [|discriminate].
  bind_inv H as t4 E4. bind_inv H as r6 E6. bind_inv H as [v7 r8] E7.
  destruct ((v7 =? 0) || (v7 =? 15)); [inversion H; split; reflexivity|]. discriminate.
Qed.

Section LoopBridge.
Variable gq : unit -> Z.
Variables (o : dec_opts) (np : decoded_picture) (running mpl mbh : Z) (lev : Z * Z).
Hypothesis Hm : 1 <= mpl <= 4294967296.
Hypothesis Hh : 0 <= mbh.
Hypothesis Ht : mpl * mbh <= 4294967296.
Hypothesis Hl : 0 <= fst lev <= 4294967296 * 16.

Theorem bridge_p_loop : forall fuel q pvs types luma cb cr r,
  0 <= q <= 31 -> zlength types <= mpl * mbh ->
  p_loop gq fuel o np running mpl mbh lev (q, pvs, types, 0, luma, cb, cr, r)
  = (let* st' := mb_loop fuel o np running mpl (mpl * mbh) (fst lev) (mkLoop r q pvs types luma cb cr) in Ok (s_of st')).
Proof.
  unfold p_loop.
  induction fuel as [|f IH]; intros q pvs types luma cb cr r Hq Hn; [reflexivity|].
  cbn [loop_fuel mb_loop]. set (LF := loop_fuel f (p_loop_body gq o np running mpl mbh lev)) in *.
  unfold p_loop_body. autounfold with pgenloop.
  cbn [l_types l_quant l_pvs l_reader l_luma l_cb l_cr].
  assert (Hn0 : 0 <= zlength types) by (unfold zlength; lia).
  rewrite mul_c_ok by (cbn [ilo ihi]; nia). cbn [bind].
  (* the completion test, in whatever form the source writes it (`>=` then break, or the negated `while` condition) *)
  destruct (mpl * mbh <=? zlength types) eqn:Ed;
    try (match goal with |- bind (if ?c then _ else _) _ = _ => first [ replace c with true by lia | replace c with false by lia ] end);
    [reflexivity|].
  set (n := zlength types) in *.
  assert (E0 : (mpl =? 0) = false) by lia.
  assert (Hcol : 0 <= Z.rem n mpl < mpl) by (apply Z.rem_bound_pos; lia).
  assert (Hq0 : 0 <= Z.quot n mpl) by (apply Z.quot_pos; lia).
  assert (Hqm : Z.quot n mpl * mpl <= n) by (rewrite Z.mul_comm; apply Z.mul_quot_le; lia).
  assert (Hq1 : Z.quot n mpl <= Z.quot n mpl * mpl) by (rewrite <- (Z.mul_1_r (Z.quot n mpl)) at 1; apply Z.mul_le_mono_nonneg_l; lia).
  assert (Hrem : rem_c Usize n mpl = Ok (Z.rem n mpl)) by (apply rem_c_ok; lia).
  assert (Hdiv : div_c Usize n mpl = Ok (Z.quot n mpl)) by (apply div_c_ok; [lia | cbn [ilo ihi]; lia]).
  rewrite Hrem, Hdiv. cbn [bind].
  set (col := Z.rem n mpl) in *. set (line := Z.quot n mpl) in *.
  rewrite !mul_c_ok by (cbn [ilo ihi]; lia). cbn [bind]. cbv zeta. cbn [fst snd].
  destruct (decode_macroblock (d_header np) running r) as [[mb r1]|e| |] eqn:Emb; try reflexivity.
  - destruct mb as [| |t p dq mvd addl].
    + (* Uncoded *)
      unfold is_iframe. destruct (picture_type (d_header np)); try reflexivity; cbn [bind];
        (rewrite IH by (try assumption; unfold n in *; unfold zlength in *; rewrite ?app_length; cbn [length]; lia)); reflexivity.
    + (* Stuffing *)
      cbn [bind]. rewrite IH by assumption. reflexivity.
    + (* Coded *)
      pose proof (decode_macroblock_dq _ _ _ _ _ _ _ _ _ Emb) as Hd.
      unfold decode_coded. cbn [l_types l_quant l_pvs l_reader l_luma l_cb l_cr]. fold n.
      assert (Hremm : rem_chk n mpl = Ok col) by (unfold rem_chk; rewrite E0; reflexivity).
      assert (Hdivm : div_chk n mpl = Ok line) by (unfold div_chk; rewrite E0; reflexivity).
      rewrite Hremm, Hdivm. cbn [bind]. cbv zeta.
      set (d := match dq with Some x => x | None => 0 end).
      assert (Hdd : -96 <= d <= 96) by (unfold d, dq_small in *; destruct dq; lia).
      rewrite (wrap_id I8 q) by (cbn [ilo ihi]; lia).
      rewrite add_c_ok by (cbn [ilo ihi]; lia). cbn [bind].
      assert (Hcl : 1 <= clamp 1 31 (q + d) <= 31) by (unfold clamp; lia).
      rewrite (wrap_id U8) by (cbn [ilo ihi]; lia).
      unfold next_quant. fold d. set (q' := clamp 1 31 (q + d)) in *.
      rewrite !slice_from_0.
      rewrite !(div_c_pos (fst lev) 8) by (cbn [ilo ihi]; lia).
      rewrite !(div_c_pos (col * 16) 2), !(div_c_pos (line * 16) 2) by (cbn [ilo ihi]; lia).
      rewrite !add_c_ok by (cbn [ilo ihi]; lia).
      cbn [bind fst snd].
      assert (Hn1 : forall t0 : mbtype, zlength (types ++ [t0]) <= mpl * mbh)
        by (intros t0; unfold n, zlength in *; rewrite app_length; cbn [length]; lia).
      destruct (mb_is_inter t).
      2: { cbn [bind]. coded_blocks. all: cbn [l_types l_quant l_pvs l_reader l_luma l_cb l_cr]; apply IH; [lia | apply Hn1]. }
      destruct (predict_candidate pvs mv4_zero mpl 0) as [v0| | |]; try reflexivity. cbn [bind].
      destruct addl as [[[m2 m3] m4]|].
      * coded_blocks. all: cbn [l_types l_quant l_pvs l_reader l_luma l_cb l_cr]; apply IH; [lia | apply Hn1].
      * rewrite !tup4_get_ok' by lia. unfold mv4_zero. cbn [bind mv4_set mv4_get Z.eqb Pos.eqb]. coded_blocks.
        all: cbn [l_types l_quant l_pvs l_reader l_luma l_cb l_cr]; apply IH; [lia | apply Hn1].
  - (* an error of the macroblock layer *)
    destruct (is_macroblock_error e && negb (sorenson o)).
    + rewrite <- (bridge_p_decode_gob o r).
      destruct (p_decode_gob o r) as [[x r']|e'| |] eqn:Eg; try reflexivity.
      * destruct (p_decode_gob_none _ _ _ _ Eg) as [-> ->]. reflexivity.
      * destruct (is_eof e' || is_gob_error e'); reflexivity.
    + destruct (is_eof e); reflexivity.
Qed.
End LoopBridge.
Print Assumptions bridge_p_loop.
