(* Bridge: the motion-vector kernels of h263/src/types.rs (impl HalfPel) as translated from the Rust
   source on this run (gen/GenKTypes.v) equal the hand-written model's (model/Recon.v), without panics. *)
From H263V Require Import base.Prelude base.Checked model.Types model.Syntax model.Recon gen.GenKTypes bridge.KTactics.
#[local] Hint Unfold into_lerp_parameters invert is_mv_within_range average_sum_of_mvs median_of hadd : kmodel.

Lemma bridge_k_into_lerp_parameters h :
  -32767 <= h <= 32767 -> k_into_lerp_parameters h = Ok (into_lerp_parameters h).
Proof.
  intros Hh. unfold k_into_lerp_parameters, into_lerp_parameters. kauto.
Qed.

Lemma bridge_k_invert h : -32000 <= h <= 32000 -> k_invert h = Ok (invert h).
Proof.
  intros Hh. unfold k_invert, invert.
  destruct (0 <? h) eqn:E0; [ksteps; subst; reflexivity|].
  destruct (h <? 0) eqn:E1; ksteps; subst; reflexivity.
Qed.

Lemma bridge_k_is_mv_within_range h r :
  -32767 <= r <= 32767 -> k_is_mv_within_range h r = Ok (is_mv_within_range h r).
Proof. intros Hr. unfold k_is_mv_within_range, is_mv_within_range. ksteps. kfin. Qed.

Lemma bridge_k_average_sum_of_mvs s :
  -32768 <= s <= 32000 -> k_average_sum_of_mvs s = Ok (average_sum_of_mvs s).
Proof.
  intros Hs. unfold k_average_sum_of_mvs, average_sum_of_mvs. do 2 kstep. cbv zeta.
  assert (Hl : 0 <= Z.land s 15 <= 15).
  { change 15 with (Z.ones 4). rewrite Z.land_ones by lia. pose proof (Z.mod_pos_bound s (2 ^ 4) eq_refl). change (Z.ones 4) with 15. change (2 ^ 4) with 16 in *. lia. }
  assert (Hw : v0 = Z.shiftl v 1).
  { subst. apply wrap_id. rewrite Z.shiftr_div_pow2, Z.shiftl_mul_pow2 by lia. change (2 ^ 4) with 16. change (2 ^ 1) with 2. krange. }
  assert (Hr : -4096 <= v0 <= 4000).
  { rewrite Hw. subst v. rewrite Z.shiftr_div_pow2, Z.shiftl_mul_pow2 by lia. change (2 ^ 4) with 16. change (2 ^ 1) with 2. lia. }
  rewrite <- Hw. clear Hv Hv0 Hw.
  generalize dependent (Z.land s 15). intros frac Hl.
  kauto.
Qed.

Lemma bridge_k_median_of a m r : k_median_of a m r = median_of a m r.
Proof. reflexivity. Qed.

Lemma bridge_k_halfpel_add a b : k_halfpel_add a b = hadd a b.
Proof. reflexivity. Qed.

