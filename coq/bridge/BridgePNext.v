(* decoder/state.rs, decode_next_picture as a whole.  The generator cuts the statements of the transaction closure into five
   consecutive ranges - prologue, set-up, macroblock loop, reconstruction, commit - translates each from the source on every run
   (gen/GenPState.v, gen/GenPLoop.v) and emits their composition p_decode_next_picture.  This file proves that composition
   equal to the model's decode_next_picture, for every call whose parsed header fits the integer fields of the code
   (header_fits: dimensions within u16, quantizer within its 5 bits).  The pieces: bridge_p_prologue, bridge_p_setup (here),
   bridge_p_loop (BridgePNextLoop.v), bridge_p_epilogue (BridgePLoop.v), bridge_p_store_picture (BridgePState.v). *)
From H263V Require Import base.Prelude base.Checked model.Types model.Tables model.Reader model.Header model.Syntax model.Recon model.Decoder gen.GenPGather gen.GenPMacroblock gen.GenPState gen.GenPLoop bridge.KTactics bridge.BridgePGather bridge.BridgePMacroblock bridge.BridgePLoop bridge.BridgePPrologue bridge.BridgePState bridge.BridgePNextLoop proofs.HeaderLemmas proofs.LoopBound.
Require Import ZifyBool.
Ltac Zify.zify_post_hook ::= Z.div_mod_to_equations.

(* what a successful prologue says about its results *)
Lemma model_prologue_inv o last running0 r0 hdr nr fmt w h mpl mbh levw levh r :
  model_prologue o last running0 r0 = Ok ((hdr, nr, fmt, (w, h), mpl, mbh, (levw, levh)), r) ->
  (exists r1, decode_picture o (match last with Some p => Some (d_header p) | None => None end) r0 = Ok (Some hdr, r1)) /\
  (format hdr = Some fmt \/ exists lp, last = Some lp /\ d_format lp = fmt) /\
  into_width_and_height fmt = Some (w, h) /\ 1 <= w /\ 1 <= h /\
  mpl = (w + 15) / 16 /\ mbh = (h + 15) / 16 /\ levw = mpl * 16 /\ levh = mbh * 16.
Proof.
  unfold model_prologue. intros H.
  bind_inv H as [op r1] E1. destruct op as [hdr0|]; [|discriminate]. cbv zeta in H.
  bind_inv H as fmt0 E2.
  destruct (into_width_and_height fmt0) as [[w0 h0]|] eqn:Ewh; [|discriminate].
  destruct ((w0 <=? 0) || (h0 <=? 0)) eqn:Ez; [discriminate|].
  inversion H; subst.
  split; [exists r; reflexivity|]. split.
  - destruct (format hdr) as [f|]; [inversion E2; left; reflexivity|].
    destruct (is_iframe (picture_type hdr)); [discriminate|].
    destruct last as [lp|]; [|discriminate]. inversion E2. right. exists lp. split; reflexivity.
  - repeat split; try assumption; try lia.
Qed.

Lemma bridge_p_setup hdr fmt mpl mbh lev :
  0 <= mpl -> 0 <= mbh -> mpl * mbh <= 4294967296 -> 0 <= fst lev <= 1048576 -> 0 <= snd lev <= 1048576 ->
  p_setup hdr fmt mpl mbh lev =
  match new_decoded hdr fmt with
  | None => Err EPictureFormatInvalid
  | Some np => Ok (quantizer hdr, [], [], 0, np, repeatZ DctZero (fst lev * snd lev / 64), repeatZ DctZero (fst lev * snd lev / 4 / 64),
                   repeatZ DctZero (fst lev * snd lev / 4 / 64))
  end.
Proof.
  intros Hm Hh Ht Hl0 Hl1. unfold p_setup. cbv zeta.
  assert (0 <= mpl * mbh) by (apply Z.mul_nonneg_nonneg; lia).
  rewrite !(mul_c_ok Usize mpl mbh) by (cbn [ilo ihi]; lia). cbn [bind].
  destruct (new_decoded hdr fmt) as [np|]; [|reflexivity].
  assert (0 <= fst lev * snd lev <= 1048576 * 1048576)
    by (split; [apply Z.mul_nonneg_nonneg; lia | apply Z.mul_le_mono_nonneg; lia]).
  rewrite !mul_c_ok by (cbn [ilo ihi]; lia). cbn [bind].
  rewrite !(div_c_pos (fst lev * snd lev) 64) by (cbn [ilo ihi]; lia). cbn [bind].
  rewrite !(div_c_pos (fst lev * snd lev) 4) by (cbn [ilo ihi]; lia). cbn [bind].
  rewrite !(div_c_pos (fst lev * snd lev / 4) 64) by (cbn [ilo ihi]; lia). cbn [bind].
  reflexivity.
Qed.

(* every header the call can parse carries a quantizer that fits its 5-bit field, and every format it can select fits the u16
   size fields of the code *)
Definition header_fits (o : dec_opts) (last : option decoded_picture) (r0 : reader) : Prop :=
  sizes_fit o last r0 /\
  forall hdr r, decode_picture o (match last with Some p => Some (d_header p) | None => None end) r0 = Ok (Some hdr, r) ->
    0 <= quantizer hdr <= 31.

Lemma new_decoded_format hdr fmt np : new_decoded hdr fmt = Some np -> d_format np = fmt.
Proof.
  unfold new_decoded. destruct (into_width_and_height fmt) as [[w h]|]; [|discriminate]. intros H. inversion H. reflexivity.
Qed.

(* decode_next_picture, regenerated from the source range by range and put together by the generator, is the model's function *)
Theorem bridge_p_decode_next_picture gq s r0 :
  header_fits (st_opts s) (get_last_picture s) r0 ->
  p_decode_next_picture gq s r0 = decode_next_picture s r0.
Proof.
  intros [Hfit Hquant]. unfold p_decode_next_picture, decode_next_picture.
  rewrite reconstruct_stages. rewrite (bridge_p_prologue s r0 Hfit).
  destruct (model_prologue (st_opts s) (get_last_picture s) (running_options s) r0) as [[x r]| | |] eqn:Ep; try reflexivity.
  cbn [bind]. destruct x as [[[[[[hdr nr] fmt] [w h]] mpl] mbh] [levw levh]].
  destruct (model_prologue_inv _ _ _ _ _ _ _ _ _ _ _ _ _ _ Ep) as ([r1 Ed] & Hsel & Ewh & Hw & Hh & -> & -> & -> & ->).
  destruct (Hfit hdr r1 Ed fmt w h Hsel Ewh) as [Hw2 Hh2].
  pose proof (Hquant hdr r1 Ed) as Hq.
  set (mpl := (w + 15) / 16) in *. set (mbh := (h + 15) / 16) in *.
  assert (Hm : 1 <= mpl <= 4096) by (unfold mpl; lia).
  assert (Hb : 1 <= mbh <= 4096) by (unfold mbh; lia).
  assert (Ht : 1 <= mpl * mbh <= 4096 * 4096) by (split; [ change 1 with (1 * 1); apply Z.mul_le_mono_nonneg; lia | apply Z.mul_le_mono_nonneg; lia ]).
  rewrite (bridge_p_setup hdr fmt mpl mbh (mpl * 16, mbh * 16)) by (cbn [fst snd]; lia).
  destruct (new_decoded hdr fmt) as [np|] eqn:En; [|reflexivity]. cbn [bind fst snd]. cbv zeta.
  rewrite (bridge_p_loop gq (st_opts s) np nr mpl mbh (mpl * 16, mbh * 16)) by (cbn [fst snd]; unfold zlength; cbn [length]; lia).
  cbn [fst snd].
  destruct (mb_loop (S (length (rbits r))) (st_opts s) np nr mpl (mpl * mbh) (mpl * 16) _) as [st| | |] eqn:El; try reflexivity.
  cbn [bind]. unfold s_of.
  unfold p_capacity. rewrite mul_c_ok by (cbn [ilo ihi]; lia). cbn [bind].
  destruct (mb_loop_bound _ _ _ _ _ _ _ _ _ El) as [Hb1 Hb2]; [cbn [l_types]; unfold zlength; cbn [length]; lia | reflexivity |].
  rewrite (bridge_p_epilogue (l_types st) (l_pvs st) (mpl * mbh) (get_reference_picture s) mpl np w h h (l_luma st) (l_cb st) (l_cr st) (l_quant st) (l_reader st))
    by (try lia; rewrite (new_decoded_format _ _ _ En); exact Ewh).
  replace (mkLoop (l_reader st) (l_quant st) (l_pvs st) (l_types st) (l_luma st) (l_cb st) (l_cr st)) with st by (destruct st; reflexivity).
  destruct (model_epilogue st (mpl * mbh) (get_reference_picture s) mpl np w) as [np'| | |]; try reflexivity.
  cbn [bind]. rewrite bridge_p_store_picture. reflexivity.
Qed.
Print Assumptions bridge_p_decode_next_picture.
