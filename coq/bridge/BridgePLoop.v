(* decoder/state.rs, decode_next_picture: two further parts regenerated from the source on every run (gen/GenPLoop.v) and proved
   equal to the model's reconstruct:
   - p_coded, the body of the `Ok(Macroblock::Coded { .. })` arm of the macroblock loop together with the position and the fresh
     motion-vector array computed before the match (quantizer update, the four vector predictions and decodes, the six
     decode_block / inverse_rle pairs with their positions), is the model's decode_coded;
   - p_epilogue, the statements between the loop and the commit phase (padding of the two macroblock vectors up to their
     capacity, gather, the three idct_channel calls), is the tail of the model's reconstruct.
   Calls of functions that are translated and bridged on their own (predict_candidate, mv_decode, decode_block, gather) or
   modelled by hand and tied by the differential suites (inverse_rle, idct_channel) stand for the model's functions.
   Hypotheses: the checked arithmetic of the code (usize positions, the i8 quantizer sum) needs its operands to fit; the
   ranges assumed here hold for every picture the prologue admits (u16 dimensions) and every DQUANT the parser produces. *)
From H263V Require Import base.Prelude base.Checked model.Types model.Tables model.Reader model.Header model.Syntax model.Recon model.Decoder gen.GenPGather gen.GenPLoop bridge.KTactics bridge.BridgePGather bridge.BridgePPrologue proofs.StateRefine.
Require Import ZifyBool.
Ltac Zify.zify_post_hook ::= Z.div_mod_to_equations.

Lemma slice_from_0 {A} (l : list A) : slice_from l 0 = Ok l.
Proof. unfold slice_from. replace ((0 <=? 0) && (0 <=? zlength l)) with true by (unfold zlength; lia). reflexivity. Qed.

Lemma div_c_pos a b : 0 <= a <= ihi Usize -> 0 < b -> div_c Usize a b = Ok (a / b).
Proof.
  intros Ha Hb. rewrite div_c_ok; [ rewrite Z.quot_div_nonneg by lia; reflexivity | lia | ].
  rewrite Z.quot_div_nonneg by lia. cbn [ilo ihi] in *. split; [apply Z.div_pos; lia|].
  apply Z.le_trans with a; [|lia]. apply Z.div_le_upper_bound; nia.
Qed.

Ltac coded_blocks :=
  do 60 (cbn [bind fst snd];
         try first [ reflexivity
                   | rewrite !bind_assoc
                   | rewrite tup4_get_ok' by lia; cbn [mv4_set mv4_get Z.eqb Pos.eqb]
                   | match goal with |- bind ?m _ = _ =>
                       lazymatch m with
                       | predict_candidate _ _ _ _ => destruct m as [?| | |]
                       | decode_block _ _ _ _ _ _ => destruct m as [[? ?]| | |]
                       | inverse_rle _ _ _ _ _ _ => destruct m as [?| | |]
                       end end ]).

(* what the loop keeps of the model's decode_coded *)
Definition coded_view (t : mbtype) (x : res (mbloop * mv4))
  : res ((Z * mv4 * list dct_block * list dct_block * list dct_block * mbtype) * reader) :=
  let* (st', mvs) := x in Ok ((l_quant st', mvs, l_luma st', l_cb st', l_cr st', t), l_reader st').

Definition dq_small (dq : option Z) : Prop := match dq with Some d => -96 <= d <= 96 | None => True end.

Theorem bridge_p_coded o np running mpl lev t p dq mvd addl q pvs types luma cb cr r :
  0 <= mpl <= 4294967296 -> zlength types <= 4294967296 -> 0 <= fst lev <= 4294967296 * 16 ->
  0 <= q <= 31 -> dq_small dq ->
  p_coded o np running mpl lev 0 t p dq mvd addl q pvs types luma cb cr r
  = coded_view t (decode_coded o np running mpl (fst lev) t p dq mvd addl (mkLoop r q pvs types luma cb cr)).
Proof.
  intros Hm Hn Hl Hq Hd. unfold p_coded, decode_coded, coded_view. autounfold with pgenloop.
  cbn [l_types l_quant l_pvs l_reader l_luma l_cb l_cr].
  assert (Hn0 : 0 <= zlength types) by (unfold zlength; lia).
  set (n := zlength types) in *.
  destruct (mpl =? 0) eqn:E0.
  { unfold rem_c, rem_chk. rewrite E0. reflexivity. }
  assert (Hcol : 0 <= Z.rem n mpl < mpl) by (apply Z.rem_bound_pos; lia).
  assert (Hq0 : 0 <= Z.quot n mpl) by (apply Z.quot_pos; lia).
  assert (Hqm : Z.quot n mpl * mpl <= n) by (rewrite Z.mul_comm; apply Z.mul_quot_le; lia).
  assert (Hq1 : Z.quot n mpl <= Z.quot n mpl * mpl) by (rewrite <- (Z.mul_1_r (Z.quot n mpl)) at 1; apply Z.mul_le_mono_nonneg_l; lia).
  assert (Hrem : rem_c Usize n mpl = Ok (Z.rem n mpl)) by (apply rem_c_ok; lia).
  assert (Hdiv : div_c Usize n mpl = Ok (Z.quot n mpl)) by (apply div_c_ok; [lia | cbn [ilo ihi]; lia]).
  assert (Hremm : rem_chk n mpl = Ok (Z.rem n mpl)) by (unfold rem_chk; rewrite E0; reflexivity).
  assert (Hdivm : div_chk n mpl = Ok (Z.quot n mpl)) by (unfold div_chk; rewrite E0; reflexivity).
  rewrite Hrem, Hdiv, Hremm, Hdivm. cbn [bind].
  set (col := Z.rem n mpl) in *. set (line := Z.quot n mpl) in *.
  rewrite !mul_c_ok by (cbn [ilo ihi]; lia). cbn [bind]. cbv zeta. cbn [fst snd].
  set (d := match dq with Some x => x | None => 0 end).
  assert (Hdd : -96 <= d <= 96) by (unfold d, dq_small in *; destruct dq; lia).
  rewrite (wrap_id I8 q) by (cbn [ilo ihi]; lia).
  rewrite add_c_ok by (cbn [ilo ihi]; lia). cbn [bind].
  assert (Hcl : 1 <= clamp 1 31 (q + d) <= 31) by (unfold clamp; lia).
  rewrite (wrap_id U8) by (cbn [ilo ihi]; lia).
  unfold next_quant. fold d. set (q' := clamp 1 31 (q + d)) in *.
  rewrite !slice_from_0.
  rewrite !(div_c_pos (fst lev) 8) by (cbn [ilo ihi]; lia).
  rewrite !(div_c_pos (col * 16) 2), !(div_c_pos (line * 16) 2) by (cbn [ilo ihi]; lia).
  rewrite !add_c_ok by (cbn [ilo ihi]; lia).
  cbn [bind fst snd].
  destruct (mb_is_inter t).
  2: { cbn [bind]. coded_blocks. }
  destruct (predict_candidate pvs mv4_zero mpl 0) as [v0| | |]; try reflexivity. cbn [bind].
  destruct addl as [[[m2 m3] m4]|].
  - coded_blocks.
  - rewrite !tup4_get_ok' by lia. unfold mv4_zero. cbn [bind mv4_set mv4_get Z.eqb Pos.eqb]. coded_blocks.
Qed.
Print Assumptions bridge_p_coded.

(* the statements of the model's reconstruct between the macroblock loop and the result *)
Definition model_epilogue (st : mbloop) (total : Z) (reference : option decoded_picture) (mpl : Z) (np : decoded_picture) (w : Z)
  : res decoded_picture :=
  let pvs := pad_to (l_pvs st) total mv4_zero in
  let types := pad_to (l_types st) total Inter in
  let* np := gather_go (combine types pvs) 0 reference mpl np in
  let* luma := idct_channel (l_luma st) (d_luma np) (mpl * 2) w in
  let* cb := idct_channel (l_cb st) (d_cb np) mpl (d_chroma_w np) in
  let* cr := idct_channel (l_cr st) (d_cr np) mpl (d_chroma_w np) in
  Ok (mkDecoded (d_header np) (d_format np) luma cb cr (d_chroma_w np)).

Lemma repeatZ_nonpos {A} (x : A) n : n <= 0 -> repeatZ x n = [].
Proof. intros H. unfold repeatZ. replace (Z.to_nat n) with O by lia. reflexivity. Qed.

Lemma resize_pad {A} (l : list A) total x :
  (if zlength l <? total then vec_resize l total x else l) = pad_to l total x.
Proof.
  unfold vec_resize, pad_to. destruct (zlength l <? total) eqn:E.
  - replace (total <=? zlength l) with false by lia. reflexivity.
  - rewrite repeatZ_nonpos by lia. rewrite app_nil_r. reflexivity.
Qed.

Lemma pad_to_length {A} (l : list A) total x : 0 <= total -> zlength (pad_to l total x) = Z.max (zlength l) total.
Proof.
  intros H. unfold pad_to, zlength, repeatZ. rewrite app_length, repeat_length. unfold zlength. lia.
Qed.

Theorem bridge_p_epilogue types pvs total reference mpl np w h h' luma cb cr q r :
  0 <= mpl <= 2147483648 -> 0 <= total <= 4294967296 -> zlength types <= 4294967296 ->
  into_width_and_height (d_format np) = Some (w, h) -> 1 <= w -> 1 <= h ->
  p_epilogue types pvs total reference mpl np (w, h') luma cb cr
  = model_epilogue (mkLoop r q pvs types luma cb cr) total reference mpl np w.
Proof.
  intros Hm Ht Hn Hf Hw Hh. unfold p_epilogue, model_epilogue. cbn [l_pvs l_types l_luma l_cb l_cr].
  cbv zeta.
  replace (if zlength pvs <? total then Ok (vec_resize pvs total mv4_zero, tt) else Ok (pvs, tt))
    with (Ok (pad_to pvs total mv4_zero, tt) : res (list mv4 * unit))
    by (rewrite <- resize_pad; destruct (zlength pvs <? total); reflexivity).
  cbn [bind].
  replace (if zlength types <? total then Ok (vec_resize types total Inter, tt) else Ok (types, tt))
    with (Ok (pad_to types total Inter, tt) : res (list mbtype * unit))
    by (rewrite <- resize_pad; destruct (zlength types <? total); reflexivity).
  cbn [bind].
  rewrite (bridge_p_gather _ reference _ mpl np w h) by
       (try assumption; try lia; pose proof (pad_to_length types total Inter ltac:(lia)) as HL; unfold zlength in *; lia).
  destruct (gather_go _ 0 reference mpl np) as [np1| | |]; [|reflexivity..]. cbn [bind].
  rewrite mul_c_ok by (cbn [ilo ihi]; lia). cbn [bind fst snd].
  destruct (idct_channel luma (d_luma np1) (mpl * 2) w) as [l1| | |]; [|reflexivity..]. cbn [bind d_header d_format d_luma d_cb d_cr d_chroma_w].
  destruct (idct_channel cb (d_cb np1) mpl (d_chroma_w np1)) as [c1| | |]; [|reflexivity..]. cbn [bind d_header d_format d_luma d_cb d_cr d_chroma_w].
  destruct (idct_channel cr (d_cr np1) mpl (d_chroma_w np1)) as [c2| | |]; reflexivity.
Qed.
Print Assumptions bridge_p_epilogue.

(* the model's reconstruct, cut where the translated parts meet *)
Lemma reconstruct_stages o last reference running0 r0 :
  reconstruct o last reference running0 r0 =
  (let* (x, r) := model_prologue o last running0 r0 in
   let '(np_hdr, next_running, fmt, (w, h), mb_per_line, mb_height, (levw, levh)) := x in
   match new_decoded np_hdr fmt with
   | None => Err EPictureFormatInvalid
   | Some np =>
       let nl := levw * levh / 64 in
       let nc := levw * levh / 4 / 64 in
       let st0 := mkLoop r (quantizer np_hdr) [] [] (repeatZ DctZero nl) (repeatZ DctZero nc) (repeatZ DctZero nc) in
       let total := mb_per_line * mb_height in
       let* st := mb_loop (S (length (rbits r))) o np next_running mb_per_line total levw st0 in
       let* np' := model_epilogue st total reference mb_per_line np w in
       Ok (np', l_reader st)
   end).
Proof.
  rewrite reconstruct_prologue.
  destruct (model_prologue o last running0 r0) as [[x r]| | |]; try reflexivity. cbn [bind].
  destruct x as [[[[[[hdr nr] fmt] [w h]] mpl] mbh] [levw levh]].
  destruct (new_decoded hdr fmt) as [np|]; [|reflexivity]. cbv zeta.
  destruct (mb_loop _ o np nr mpl (mpl * mbh) levw _) as [st| | |]; try reflexivity. cbn [bind].
  unfold model_epilogue. cbv zeta.
  destruct (gather_go _ 0 reference mpl np) as [np1| | |]; try reflexivity. cbn [bind].
  destruct (idct_channel (l_luma st) _ _ _) as [l1| | |]; try reflexivity. cbn [bind].
  destruct (idct_channel (l_cb st) _ _ _) as [c1| | |]; try reflexivity. cbn [bind].
  destruct (idct_channel (l_cr st) _ _ _) as [c2| | |]; reflexivity.
Qed.

