(* Bridge: constants, offsets, shift and channel structure of yuv_to_rgba_4x as
   regenerated from bt601.rs = the hand-written model's. *)
From H263V Require Import base.Prelude model.Yuv gen.GenYuv.

Lemma bridge_yuv_constants :
  GenYuv.k_gray = Yuv.k_gray /\ GenYuv.k_cr2r = Yuv.k_cr2r /\ GenYuv.k_cr2g = Yuv.k_cr2g /\
  GenYuv.k_cb2g = Yuv.k_cb2g /\ GenYuv.k_cb2b = Yuv.k_cb2b /\ GenYuv.k_half = Yuv.k_half /\
  GenYuv.k_shift = Yuv.k_shift /\ GenYuv.k_yoff = Yuv.k_yoff /\ GenYuv.k_coff = Yuv.k_coff /\
  GenYuv.k_max = 255 /\ GenYuv.k_alpha = 255.
Proof. repeat split; reflexivity. Qed.
