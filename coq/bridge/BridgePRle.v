(* decoder/cpu/rle.rs, fn inverse_rle: the whole function regenerated from the source on every run (gen/GenPRle.v: the block
   index with its checked usize arithmetic and the bounds check of `&mut levels[block_id]`, the DC-only cases, the coefficient
   loop - run accumulation, the early `return` when the zig-zag index passes 63, the table look-up, dequantisation in i32 with
   its clamp and cast, the store into the 8x8 block, the two classification flags - and the choice of Zero / Dc / Horiz / Vert /
   Full) is the model's inverse_rle.  The f32 block of the code is an integer matrix in the translation (every value stored is an
   i16, which binary32 holds exactly).  The loop is for_each_ret (base/Checked.v); its body is executed symbolically against
   one step of the model's rle_go (step_spec), without naming the generated join points.
   Hypotheses: positions and the row length fit (they come from u16 dimensions), the quantizer is a byte, and the parsed
   coefficients have byte runs and levels other than i16::MIN (whose `abs()` panics in the code; the parser's widest level is 11
   bits). *)
From H263V Require Import base.Prelude base.Checked model.Types model.Tables model.Reader model.Header model.Syntax model.Recon gen.GenPRle bridge.KTactics proofs.PlaneShape.
Require Import ZifyBool.

(* ranges of the coefficients the block parser hands over: a run is a byte, a level never i16::MIN *)
Definition tcoef_ok (t : tcoef) : Prop := 0 <= t_run t <= 255 /\ -32767 <= t_level t <= 32767.

Lemma dezigzag_len : zlength dezigzag_mapping = 64.
Proof. reflexivity. Qed.

Lemma dezigzag_entries : forall n, (n < 64)%nat ->
  0 <= fst (nth n dezigzag_mapping (0, 0)) < 8 /\ 0 <= snd (nth n dezigzag_mapping (0, 0)) < 8.
Proof.
  assert (H : forallb (fun p : Z * Z => (0 <=? fst p) && (fst p <? 8) && (0 <=? snd p) && (snd p <? 8)) dezigzag_mapping = true) by (vm_compute; reflexivity).
  rewrite forallb_forall in H. intros n Hn.
  assert (Hin : In (nth n dezigzag_mapping (0, 0)) dezigzag_mapping) by (apply nth_In; change (length dezigzag_mapping) with 64%nat; exact Hn).
  specialize (H _ Hin). lia.
Qed.

Lemma get_dezigzag z : 0 <= z < 64 -> get dezigzag_mapping z = Ok (nth (Z.to_nat z) dezigzag_mapping (0, 0)).
Proof.
  intros Hz. unfold get. replace (z <? 0) with false by lia.
  destruct (nth_error dezigzag_mapping (Z.to_nat z)) as [p|] eqn:E.
  - rewrite (nth_error_nth _ _ _ E). reflexivity.
  - apply nth_error_None in E. change (length dezigzag_mapping) with 64%nat in E. lia.
Qed.

(* the dequantisation steps of the loop body, in whatever order the source has them *)
Lemma body_dequant q l : 0 <= q <= 255 -> -32767 <= l <= 32767 ->
  forall (K : Z -> res (list (list Z) * bool * bool * Z + list dct_block)),
  (let* t34 := abs_c I16 l in
   let* t35 := mul_c I32 2 t34 in
   let* t36 := add_c I32 t35 1 in
   let* t37 := mul_c I32 q t36 in
   let* t39 := rem_c U8 q 2 in
   let* t41 := add_c I32 t37 (if t39 =? 1 then 0 else -1) in
   let* t42 := mul_c I32 (Z.sgn l) t41 in
   K (wrap I16 (clamp (-2048) 2047 t42))) = K (dequant q l).
Proof.
  intros Hq Hl K. unfold dequant.
  assert (Hp : 0 <= q * (2 * Z.abs l + 1) <= 255 * 65535) by nia.
  assert (Hs : forall z, -16711426 <= z <= 16711425 -> -16711426 <= Z.sgn l * z <= 16711426) by (intros; lia).
  repeat (first
    [ progress (cbv zeta)
    | match goal with |- context [mul_c I32 (Z.sgn l) ?z] =>
        lazymatch goal with
        | _ : _ <= Z.sgn l * z <= _ |- _ => fail
        | _ => pose proof (Hs z ltac:(lia))
        end end
    | kstepi
    | kcase ]);
  f_equal; rewrite wrap_id by (unfold clamp; krange); unfold clamp; lia.
Qed.

Definition rle_zz (ts : list tcoef) (zz : Z) : Z := fold_left (fun z t => z + t_run t + 1) ts zz.

Definition rle_state := (list (list Z) * bool * bool * Z)%type.

(* one iteration of the coefficient loop, as the model's rle_go does it *)
Definition step_spec (levels : list dct_block) (q : Z) (t : tcoef) (s : rle_state) : res (rle_state + list dct_block) :=
  let '(m, h, v, zz) := s in
  let zz1 := zz + t_run t in
  if 64 <=? zz1 then Ok (inr levels) else
  let '(zx, zy) := nth (Z.to_nat zz1) dezigzag_mapping (0, 0) in
  let val := dequant q (t_level t) in
  Ok (inl (mat_set m zx zy val,
           (if negb (val =? 0) && (0 <? zy) then false else h),
           (if negb (val =? 0) && (0 <? zx) then false else v), zz1 + 1)).

Lemma rle_loop_gen levels q (body : tcoef -> rle_state -> res (rle_state + list dct_block)) :
  (forall t m h v zz, tcoef_ok t -> 0 <= zz <= 64 -> body t (m, h, v, zz) = step_spec levels q t (m, h, v, zz)) ->
  forall ts m h v zz, Forall tcoef_ok ts -> 0 <= zz <= 64 ->
  for_each_ret body ts (m, h, v, zz)
  = match rle_go ts q zz m h v with
    | None => Ok (inr levels)
    | Some (m', h', v') => Ok (inl (m', h', v', rle_zz ts zz))
    end.
Proof.
  intros Hbody. induction ts as [|t ts IH]; intros m h v zz Hok Hz; [reflexivity|].
  inversion Hok as [|? ? Ht Hok']; subst.
  cbn [for_each_ret rle_go rle_zz fold_left]. rewrite (Hbody t m h v zz Ht Hz). unfold step_spec.
  destruct (64 <=? zz + t_run t) eqn:E; [reflexivity|].
  destruct (nth (Z.to_nat (zz + t_run t)) dezigzag_mapping (0, 0)) as [zx zy]. cbn [bind].
  destruct Ht as [Hr Hl]. apply IH; [exact Hok'|lia].
Qed.

(* symbolic execution of the generated loop body against step_spec *)
Ltac rle_step_tac q Hq :=
  let t := fresh "t" in let m := fresh "m" in let h := fresh "h" in let v := fresh "v" in let zz := fresh "zz" in
  let Ht := fresh "Ht" in let Hz := fresh "Hz" in
  intros t m h v zz Ht Hz; destruct Ht as [Hrun Hlev]; unfold step_spec; cbv beta iota zeta;
  rewrite add_c_ok by (cbn [ilo ihi]; lia); cbn [bind]; rewrite dezigzag_len;
  destruct (64 <=? zz + t_run t) eqn:E; [reflexivity|];
  rewrite get_dezigzag by lia; cbn [bind];
  let Hent := fresh "Hent" in pose proof (dezigzag_entries (Z.to_nat (zz + t_run t)) ltac:(lia)) as Hent;
  destruct (nth (Z.to_nat (zz + t_run t)) dezigzag_mapping (0, 0)) as [zx zy]; cbn [fst snd] in Hent;
  set (l := t_level t) in *;
  assert (Hp : 0 <= q * (2 * Z.abs l + 1) <= 255 * 65535) by nia;
  assert (Hs : forall z, -16711426 <= z <= 16711425 -> -16711426 <= Z.sgn l * z <= 16711426) by (intros; lia).

(* ... the dequantisation steps in whatever order, then the store and the two flags *)
Ltac rle_step_fin q l :=
  repeat kstepi;
  destruct (Z.rem q 2 =? 1) eqn:?;
  (repeat (first
     [ match goal with |- context [mul_c I32 (Z.sgn l) ?z] =>
         lazymatch goal with
         | _ : _ <= Z.sgn l * z <= _ |- _ => fail
         | HS : forall z0 : Z, _ -> _ <= Z.sgn l * z0 <= _ |- _ => pose proof (HS z ltac:(lia))
         end end
     | kstepi ]);
   match goal with |- context [wrap I16 ?x] =>
     let val := fresh "val" in set (val := wrap I16 x) in *;
     assert (Hval : val = dequant q l) by (unfold val, dequant; match goal with Ep : (Z.rem q 2 =? 1) = _ |- _ => rewrite Ep end; rewrite wrap_id by (unfold clamp; krange); unfold clamp; lia);
     rewrite Hval; clear Hval val end;
   unfold mat_set_c;
   match goal with |- context [if ?c then Ok (mat_set _ _ _ _) else _] => replace c with true by lia end;
   cbn [bind]; rewrite add_c_ok by (cbn [ilo ihi]; lia); cbn [bind];
   destruct (negb (dequant q l =? 0)); cbn [bind andb]; reflexivity).


Lemma mat_rows8 : forall m x y v, length m = 8%nat -> length (mat_set m x y v) = 8%nat.
Proof. intros m x y v H. unfold mat_set. rewrite upd_nth_length. exact H. Qed.

Lemma rle_go_rows : forall ts q zz m h v m' h' v', length m = 8%nat -> rle_go ts q zz m h v = Some (m', h', v') -> length m' = 8%nat.
Proof.
  induction ts as [|t ts IH]; intros q zz m h v m' h' v' Hm H; cbn [rle_go] in H.
  - inversion H; subst. exact Hm.
  - destruct (64 <=? zz + t_run t); [discriminate|].
    destruct (nth (Z.to_nat (zz + t_run t)) dezigzag_mapping (0, 0)) as [zx zy].
    eapply IH; [|exact H]. apply mat_rows8. exact Hm.
Qed.

Lemma col0_of_rows8 (m : list (list Z)) : length m = 8%nat ->
  [mat_get m 0 0; mat_get m 0 1; mat_get m 0 2; mat_get m 0 3; mat_get m 0 4; mat_get m 0 5; mat_get m 0 6; mat_get m 0 7]
  = map (fun row => nth 0 row 0) m.
Proof.
  intros H. do 8 (destruct m as [|? m]; [discriminate|]). destruct m; [|discriminate]. reflexivity.
Qed.

Ltac rle_finish q levels Ets Hm0 :=
  match goal with |- context [rle_go ?ts q ?zz ?m true true] =>
    let m' := fresh "m'" in let h' := fresh "h'" in let v' := fresh "v'" in let Eg := fresh "Eg" in
    destruct (rle_go ts q zz m true true) as [[[m' h'] v']|] eqn:Eg;
    cbn [bind]; try reflexivity;
    let Hm' := fresh "Hm'" in
    assert (Hm' : length m' = 8%nat) by (eapply rle_go_rows; [|exact Eg]; first [exact Hm0 | apply mat_rows8; exact Hm0]);
    destruct h', v'; try rewrite (col0_of_rows8 m' Hm'); try reflexivity;
    destruct (mat_get m' 0 0 =? 0); destruct (set levels _ _); reflexivity
  end.

(* inverse_rle as regenerated from the source is the model's function *)
Theorem bridge_p_inverse_rle b levels px py bpl q :
  0 <= px <= 4294967296 -> 0 <= py <= 4294967296 -> 0 <= bpl <= 2147483648 -> 0 <= q <= 255 ->
  Forall tcoef_ok (tcoefs b) ->
  p_inverse_rle b levels (px, py) bpl q = inverse_rle b levels px py bpl q.
Proof.
  intros Hx Hy Hb Hq Hok. unfold p_inverse_rle, inverse_rle, inverse_rle_block. autounfold with pgenrle. cbn [fst snd].
  rewrite !div_c_ok by (try lia; cbn [ilo ihi]; rewrite Z.quot_div_nonneg by lia; lia). cbn [bind].
  rewrite !Z.quot_div_nonneg by lia.
  assert (0 <= py / 8 * bpl <= 4294967296 * 2147483648) by (split; [apply Z.mul_nonneg_nonneg; lia | apply Z.mul_le_mono_nonneg; lia]).
  rewrite mul_c_ok by (cbn [ilo ihi]; lia). cbn [bind].
  rewrite add_c_ok by (cbn [ilo ihi]; lia). cbn [bind]. cbv zeta.
  destruct (get levels (px / 8 + py / 8 * bpl)) as [d0| | |]; try reflexivity. cbn [bind].
  destruct (tcoefs b) as [|t0 ts] eqn:Ets.
  - destruct (intradc b) as [dc|]; cbn [bind]; [destruct (intradc_level dc =? 0)|]; destruct (set levels _ _); reflexivity.
  - cbv iota. cbv zeta. repeat kstepi.
    assert (Hm0 : length zero_mat = 8%nat) by reflexivity.
    destruct (intradc b) as [dc|]; cbn [bind];
      [ rewrite add_c_ok by (cbn [ilo ihi]; lia); cbn [bind]; change (0 + 1) with 1 | ];
      (erewrite (rle_loop_gen levels q); [ | rle_step_tac q Hq; rle_step_fin q l | exact Hok | lia ]);
      rle_finish q levels Ets Hm0.
Qed.
Print Assumptions bridge_p_inverse_rle.
