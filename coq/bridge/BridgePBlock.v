(* Bridge: decode_block of h263/src/parser/block.rs (INTRADC, the TCOEF loop with its three escape forms, the sign bit) as
   translated from the Rust source on this run (gen/GenPMacroblock.v: the loop body is a function of the loop state, the
   loop the fuelled combinator while_loop) equals the hand-written model's decode_block / tcoef_go on every reader.  The
   forbidden-level test `level == i16::MAX << level_width` of the code is shown to be dead (the signed read cannot deliver
   that value), which is why the model does not have it. *)
From H263V Require Import base.Prelude base.Checked model.Types model.Tables model.Reader model.Header model.Syntax gen.GenPMacroblock bridge.KTactics proofs.ReaderLemmas bridge.BridgePHeader bridge.BridgePMacroblock proofs.Total2.
Require Import ZifyBool.
Ltac Zify.zify_post_hook ::= Z.div_mod_to_equations.

(* one iteration of the TCOEF loop of the model (the body of tcoef_go), returning the new list and whether to go on *)
Definition model_tcoef_step (v1 : bool) (running : Z) (acc : list tcoef) (r : reader) : res ((list tcoef * bool) * reader) :=
  let* (st, r) := read_vlc tcoef_table r in
  match st with
  | None => Err EInvalidShortCoefficient
  | Some EscapeToLong =>
      let* (width, r) :=
        (if v1 then let* (b, r) := read_bits 8 1 r in Ok (if b =? 1 then 11 else 7, r) else Ok (8, r)) in
      let* (last, r) := read_bits 8 1 r in
      let* (run, r) := read_bits 8 6 r in
      let* (level, r) := read_signed_bits 16 width r in
      if level =? 0 then Err EInvalidLongCoefficient else
      Ok ((acc ++ [mkTcoef false run level], negb (last =? 1)), r)
  | Some (Run last run level) =>
      let* (sign, r) := read_bits 8 1 r in
      Ok ((acc ++ [mkTcoef true run (if sign =? 0 then level else - level)], negb last), r)
  end.

Lemma tcoef_go_step f v1 running acc r :
  tcoef_go (S f) v1 running acc r =
  (let* (s, r') := model_tcoef_step v1 running acc r in
   if snd s then tcoef_go f v1 running (fst s) r' else Ok (fst s, r')).
Proof.
  cbn [tcoef_go]. unfold model_tcoef_step.
  destruct (read_vlc tcoef_table r) as [[[[|last run level]|] r1]| | |]; cbn [bind]; try reflexivity.
  - destruct v1.
    + destruct (read_bits 8 1 r1) as [[b r2]| | |]; cbn [bind]; try reflexivity.
      destruct (read_bits 8 1 r2) as [[l r3]| | |]; cbn [bind]; try reflexivity.
      destruct (read_bits 8 6 r3) as [[ru r4]| | |]; cbn [bind]; try reflexivity.
      destruct (read_signed_bits 16 _ r4) as [[lv r5]| | |]; cbn [bind]; try reflexivity.
      destruct (lv =? 0); [reflexivity|]. cbn [bind fst snd]. destruct (l =? 1); reflexivity.
    + cbn [bind].
      destruct (read_bits 8 1 r1) as [[l r3]| | |]; cbn [bind]; try reflexivity.
      destruct (read_bits 8 6 r3) as [[ru r4]| | |]; cbn [bind]; try reflexivity.
      destruct (read_signed_bits 16 _ r4) as [[lv r5]| | |]; cbn [bind]; try reflexivity.
      destruct (lv =? 0); [reflexivity|]. cbn [bind fst snd]. destruct (l =? 1); reflexivity.
  - destruct (read_bits 8 1 r1) as [[sg r2]| | |]; cbn [bind]; try reflexivity. cbn [fst snd]. destruct last; reflexivity.
Qed.

(* an n-bit signed read lies in -2^(n-1) .. 2^(n-1)-1 *)
Lemma read_signed_range w n r v r' : 0 < n -> read_signed_bits w n r = Ok (v, r') -> - 2 ^ (n - 1) <= v < 2 ^ (n - 1).
Proof.
  intros Hn H. unfold read_signed_bits, peek_signed_bits in H.
  destruct (peek_bits w n r) as [v0| | |] eqn:Ep; cbn [bind] in H; try discriminate.
  assert (Hv0 : 0 <= v0 < 2 ^ n).
  { unfold peek_bits in Ep. destruct (w <? n); [discriminate|].
    destruct (take_bits (Z.to_nat n) 0 (rbits r)) as [[x b]|] eqn:Et; [|discriminate]. inversion Ep; subst.
    pose proof (take_bits_range _ _ _ _ _ Et) as Hr. replace (Z.of_nat (Z.to_nat n)) with n in Hr by lia. lia. }
  destruct (n =? 0) eqn:E0; [lia|].
  assert (Hp : 2 ^ n = 2 * 2 ^ (n - 1)) by (rewrite <- Z.pow_succ_r by lia; f_equal; lia).
  assert (Hpos : 0 < 2 ^ (n - 1)) by (apply Z.pow_pos_nonneg; lia).
  destruct (Z.testbit v0 (n - 1)) eqn:T.
  - destruct (skip_bits n r); cbn [bind] in H; try discriminate. injection H as Hv Hr; subst v.
    apply Z.testbit_true in T; [|lia]. rewrite Hp in Hv0 |- *. remember (2 ^ (n - 1)) as q. clear Heqq Hp.
    destruct (Z_lt_le_dec v0 q); [rewrite Z.div_small in T by lia; discriminate|lia].
  - destruct (skip_bits n r); cbn [bind] in H; try discriminate. injection H as Hv Hr; subst v.
    apply Z.testbit_false in T; [|lia]. rewrite Hp in Hv0. remember (2 ^ (n - 1)) as q. clear Heqq Hp.
    destruct (Z_lt_le_dec v0 q); [lia|]. rewrite <- (Z.div_unique v0 q 1 (v0 - q)) in T by lia. discriminate.
Qed.

(* levels of the TCOEF table are small: negating one cannot overflow an i16 *)
Lemma tcoef_leaf_level r last run level r' : read_vlc tcoef_table r = Ok (Some (Run last run level), r') -> 0 <= level <= 127.
Proof.
  intros H. apply vlc_go_leaf in H.
  assert (Hall : forallb (fun o : option short_tcoef => match o with Some (Run _ _ l) => (0 <=? l) && (l <=? 127) | _ => true end) (vlc_leaves tcoef_table) = true) by (vm_compute; reflexivity).
  rewrite forallb_forall in Hall. specialize (Hall _ H). cbn in Hall. lia.
Qed.

Lemma bridge_tcoef_body o pic running acc r :
  p_decode_block_loop9 o pic running acc true r
  = model_tcoef_step (sorenson o && (match version pic with Some 1 => true | _ => false end)) running acc r.
Proof.
  unfold p_decode_block_loop9, model_tcoef_step. autounfold with pgenmb.
  destruct (read_vlc tcoef_table r) as [[[[|last run level]|] r1]| | |] eqn:Ev; cbn [bind]; try reflexivity.
  - (* escape *)
    assert (Hv : (match version pic with Some x_ => x_ =? 1 | None => false end) = (match version pic with Some 1 => true | _ => false end)).
    { destruct (version pic) as [[|[p|p|]|]|]; reflexivity. }
    rewrite Hv. set (v1 := sorenson o && _).
    eapply (bind_rel (fun x x' => x = x' /\ (fst x = 7 \/ fst x = 8 \/ fst x = 11))).
    { destruct v1; [|cbn; auto]. step_read; cbn; try reflexivity. destruct (v =? 1); cbn; auto. }
    intros [w r2] [w' r2'] [Hx Hw]. inversion Hx; subst w' r2'. cbn [fst] in Hw. cbv beta iota zeta.
    step_read. step_read. 
    match goal with |- context [read_signed_bits 16 w ?rr] =>
      destruct (read_signed_bits 16 w rr) as [[lv r5]| | |] eqn:Es; cbn [bind]; try reflexivity;
      pose proof (read_signed_range 16 w rr lv r5 ltac:(lia) Es) as Hl end.
    destruct (lv =? 0) eqn:Elv0; [reflexivity|].
    assert (Hdead : (lv =? wrap I16 (Z.shiftl 32767 w)) = false).
    { destruct Hw as [-> | [-> | ->]]; [change (wrap I16 (Z.shiftl 32767 7)) with (-128) | change (wrap I16 (Z.shiftl 32767 8)) with (-256) | change (wrap I16 (Z.shiftl 32767 11)) with (-2048)];
        [change (2 ^ (7 - 1)) with 64 in Hl | change (2 ^ (8 - 1)) with 128 in Hl | change (2 ^ (11 - 1)) with 1024 in Hl]; lia. }
    rewrite Hdead. reflexivity.
  - (* table event and sign *)
    pose proof (tcoef_leaf_level r last run level r1 Ev) as Hl.
    step_read. change (2 ^ 1) with 2 in *.
    destruct (v =? 0) eqn:Ev0; cbn [bind]; [reflexivity|].
    rewrite neg_c_ok by krange. reflexivity.
Qed.

Definition lift_tcoef (x : res (list tcoef * reader)) : res ((list tcoef * bool) * reader) :=
  match x with Ok (ts, r) => Ok ((ts, false), r) | Err e => Err e | Panic p => Panic p | OutOfFuel => OutOfFuel end.

(* the loop of the code (fuelled while_loop over the translated body) against the model's recursion *)
Lemma tcoef_loop_refines o pic running :
  let v1 := sorenson o && (match version pic with Some 1 => true | _ => false end) in
  forall f acc r, tcoef_go f v1 running acc r <> OutOfFuel ->
    while_loop (S f) (fun '(tc, present) => present)
      (fun '(tc, present) rd => p_decode_block_loop9 o pic running tc present rd) (acc, true) r
    = lift_tcoef (tcoef_go f v1 running acc r).
Proof.
  intros v1. induction f as [|f IH]; intros acc r Hne; [cbn in Hne; congruence|].
  rewrite tcoef_go_step in Hne |- *.
  change (while_loop (S (S f)) ?c ?b (acc, true) r) with
    (let* (s', r') := p_decode_block_loop9 o pic running acc true r in while_loop (S f) c b s' r').
  rewrite bridge_tcoef_body. fold v1.
  destruct (model_tcoef_step v1 running acc r) as [[[acc' present] r1]| | |]; cbn [bind fst snd] in *; try reflexivity.
  destruct present; [apply IH; exact Hne|reflexivity].
Qed.

Lemma bridge_p_decode_block o pic running t present r :
  p_decode_block o pic running t present r = decode_block o pic running t present r.
Proof.
  unfold p_decode_block, decode_block.
  apply bind_eq.
  { destruct (mb_is_intra t); [|reflexivity]. step_read; try (destruct (intradc_from_u8 v); reflexivity). }
  intros [dc r1]. cbv beta iota zeta.
  destruct present.
  - set (v1 := sorenson o && _).
    pose proof (tcoef_go_safe (S (length (rbits r1))) v1 running [] r1 ltac:(unfold Total1.rlen; lia)) as Hs.
    rewrite (tcoef_loop_refines o pic running (S (length (rbits r1))) [] r1).
    + fold v1. destruct (tcoef_go (S (length (rbits r1))) v1 running [] r1) as [[ts r2]| | |]; reflexivity.
    + fold v1. intros Hc. rewrite Hc in Hs. exact Hs.
  - reflexivity.
Qed.
