(* Bridge: every literal table of the h263 crate as regenerated from the source
   equals the frozen hand copy the proofs are about. *)
From H263V Require Import base.Prelude model.Types model.Tables gen.GenTables.

Lemma bridge_mcbpc_i : GenTables.mcbpc_i_table = Tables.mcbpc_i_table. Proof. reflexivity. Qed.
Lemma bridge_mcbpc_p : GenTables.mcbpc_p_table = Tables.mcbpc_p_table. Proof. reflexivity. Qed.
Lemma bridge_modb : GenTables.modb_table = Tables.modb_table. Proof. reflexivity. Qed.
Lemma bridge_cbpy : GenTables.cbpy_table_intra = Tables.cbpy_table_intra. Proof. reflexivity. Qed.
Lemma bridge_mvd : GenTables.mvd_table = Tables.mvd_table. Proof. reflexivity. Qed.
Lemma bridge_tcoef : GenTables.tcoef_table = Tables.tcoef_table. Proof. reflexivity. Qed.
Lemma bridge_dquant : GenTables.dquant_arms = Tables.dquant_arms. Proof. reflexivity. Qed.
Lemma bridge_dezigzag : GenTables.dezigzag_mapping = Tables.dezigzag_mapping. Proof. reflexivity. Qed.
Lemma bridge_basis : GenTables.basis_table = Tables.basis_table. Proof. reflexivity. Qed.
Lemma bridge_option_bits : GenTables.picture_option_bits = Tables.picture_option_bits. Proof. reflexivity. Qed.
Lemma bridge_masks :
  GenTables.opptype_options = Tables.opptype_options /\ GenTables.mpptype_options = Tables.mpptype_options /\
  GenTables.opptype_options_parser = Tables.opptype_options_parser.
Proof. repeat split; reflexivity. Qed.
Lemma bridge_sizes : GenTables.standard_sizes = Tables.standard_sizes. Proof. reflexivity. Qed.
Lemma bridge_ranges : GenTables.halfpel_ranges = Tables.halfpel_ranges. Proof. reflexivity. Qed.
