(* Bridge: regenerated data of deblock.rs = the hand-written model copy. *)
From H263V Require Import base.Prelude model.Deblock gen.GenDeblock.

(* entries 1..31 (entry 0 is documented as unused) *)
Lemma bridge_quant_to_strength :
  firstn 31 (skipn 1 GenDeblock.quant_to_strength) = firstn 31 (skipn 1 Deblock.quant_to_strength).
Proof. reflexivity. Qed.
