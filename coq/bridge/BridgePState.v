(* Bridge: the commit phase of H263State::decode_next_picture (decoder/state.rs) - every statement after the last
   reconstruction step: the I-picture reset of the reference, the key of the new picture (disposable pictures are stored
   under a key outside the temporal-reference range), last / reference bookkeeping, the map insertion, cleanup_buffers - as
   translated from the Rust source on this run (gen/GenPState.v) equals the model's store_picture; and the two facts that
   make a failed call invisible (C05) and the reference rules history-independent (C04): no statement before the commit
   phase writes the decoder state, and the commit phase has no fallible step. *)
From Coq Require Import String.
From H263V Require Import base.Prelude base.Checked model.Types model.Tables model.Reader model.Header model.Syntax model.Recon model.Decoder gen.GenPState.

Lemma bridge_p_store_picture s np : p_store_picture s np = store_picture s np.
Proof.
  unfold p_store_picture, store_picture, cleanup_buffers, is_iframe. cbv zeta.
  cbn [st_opts last_picture reference_picture running_options reference_states].
  destruct (is_disposable (picture_type (d_header np))); cbn [negb]; reflexivity.
Qed.

Lemma bridge_prefix_writes_no_state : p_prefix_state_writes = [].
Proof. reflexivity. Qed.

Lemma bridge_commit_infallible : p_commit_has_fallible_step = false /\ p_commit_ends_with_ok = true.
Proof. split; reflexivity. Qed.

(* the two look-ups: the last picture and the reference picture are found under their own keys *)
Lemma bridge_p_get_last_picture s : p_get_last_picture s = Ok (get_last_picture s).
Proof. unfold p_get_last_picture, get_last_picture. destruct (last_picture s); reflexivity. Qed.

Lemma bridge_p_get_reference_picture s : p_get_reference_picture s = Ok (get_reference_picture s).
Proof. unfold p_get_reference_picture, get_reference_picture. destruct (reference_picture s); reflexivity. Qed.


(* cleanup_buffers itself (and_then / remove_entry on the two keys, a fresh map, two conditional insertions) *)
Lemma bridge_p_cleanup_buffers s : p_cleanup_buffers s = cleanup_buffers s.
Proof.
  unfold p_cleanup_buffers, cleanup_buffers, pm_remove_entry. cbv zeta.
  destruct (last_picture s) as [lk|]; [destruct (pm_get (reference_states s) lk)|];
    (destruct (reference_picture s) as [rk|]; [|reflexivity]);
    match goal with |- context [pm_get ?m rk] => destruct (pm_get m rk) end; reflexivity.
Qed.
