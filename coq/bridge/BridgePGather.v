(* decoder/cpu/gather.rs, fn gather: the function generated from the source on every run (gen/GenPGather.v: the loop over the
   macroblocks, the reference check, the size guard, the six gather_block calls with their positions, the chroma vector) is the
   model's gather_go over the zipped lists.  The checked usize arithmetic of the code needs the macroblock counts to fit: the
   hypotheses say so (a picture has at most 2^32 macroblocks per line and in total; decode_next_picture passes counts derived
   from u16 dimensions). *)
From H263V Require Import base.Prelude base.Checked model.Types model.Tables model.Reader model.Header model.Syntax model.Recon gen.GenPGather bridge.KTactics proofs.StateRefine.
Require Import ZifyBool.

Lemma tup4_get_ok' (m : mv4) i : 0 <= i <= 3 -> tup4_get m i = Ok (mv4_get m i).
Proof.
  intros H. destruct m as [[[a b] c] d]. unfold tup4_get, mv4_get.
  assert (Hc : i = 0 \/ i = 1 \/ i = 2 \/ i = 3) by lia.
  destruct Hc as [ -> | [ -> | [ -> | -> ] ] ]; reflexivity.
Qed.

(* one macroblock of gather(): the translated loop body against one unfolding of the model's gather_go *)
Lemma bridge_gather_item reference mpl i t v np w h rest :
  0 <= mpl <= 4294967296 -> 0 <= i <= 4294967296 ->
  into_width_and_height (d_format np) = Some (w, h) -> 1 <= w -> 1 <= h ->
  (let* np' := p_gather_forbody1 reference mpl i t v np in gather_go rest (i + 1) reference mpl np')
  = gather_go ((t, v) :: rest) i reference mpl np.
Proof.
  intros Hm Hi Hf Hw Hh. cbn [gather_go]. unfold p_gather_forbody1. autounfold with pgengather.
  destruct (mb_is_inter t); [|reflexivity].
  destruct reference as [rp|]; [|reflexivity].
  assert (Hg : negb (opt_pair_eqb (into_width_and_height (d_format rp)) (into_width_and_height (d_format np)))
               = negb ((d_width rp =? d_width np) && (d_height rp =? d_height np))).
  { unfold d_width, d_height, opt_pair_eqb. rewrite Hf. destruct (into_width_and_height (d_format rp)) as [[w' h']|]; [reflexivity|].
    f_equal. symmetry. apply andb_false_iff. left. lia. }
  rewrite Hg. clear Hg. destruct (negb ((d_width rp =? d_width np) && (d_height rp =? d_height np))) eqn:Eg; [reflexivity|]. cbv zeta.
  destruct (mpl =? 0) eqn:E0.
  { unfold rem_c, rem_chk. rewrite E0. reflexivity. }
  assert (Hcol : 0 <= Z.rem i mpl < mpl) by (apply Z.rem_bound_pos; lia).
  assert (Hq0 : 0 <= Z.quot i mpl) by (apply Z.quot_pos; lia).
  assert (Hqm : Z.quot i mpl * mpl <= i) by (rewrite Z.mul_comm; apply Z.mul_quot_le; lia).
  assert (Hq1 : Z.quot i mpl <= Z.quot i mpl * mpl) by (rewrite <- (Z.mul_1_r (Z.quot i mpl)) at 1; apply Z.mul_le_mono_nonneg_l; lia).
  assert (Hrem : rem_c Usize i mpl = Ok (Z.rem i mpl)).
  { unfold rem_c. rewrite E0. replace ((i =? ilo Usize) && (mpl =? -1)) with false by (cbn [ilo]; lia). reflexivity. }
  assert (Hdiv : div_c Usize i mpl = Ok (Z.quot i mpl)).
  { unfold div_c. rewrite E0. apply chk_ok, in_range_true. cbn [ilo ihi]. lia. }
  assert (Hremm : rem_chk i mpl = Ok (Z.rem i mpl)) by (unfold rem_chk; rewrite E0; reflexivity).
  assert (Hdivm : div_chk i mpl = Ok (Z.quot i mpl)) by (unfold div_chk; rewrite E0; reflexivity).
  rewrite Hremm, Hdivm. cbn [bind].
  set (col := Z.rem i mpl) in *. set (line := Z.quot i mpl) in *.
  do 40 (cbn [bind fst snd d_luma d_cb d_cr d_header d_format d_chroma_w];
         try first [ rewrite Hrem | rewrite Hdiv
                   | rewrite add_c_ok by (cbn [ilo ihi]; lia) | rewrite mul_c_ok by (cbn [ilo ihi]; lia)
                   | rewrite tup4_get_ok' by lia
                   | rewrite !bind_assoc
                   | match goal with |- bind (gather_block ?a ?b ?c ?d ?e ?f) _ = _ =>
                       destruct (gather_block a b c d e f) as [?| | |]; try reflexivity end ]).
Qed.

(* the translated body leaves the picture's format alone *)
Lemma forbody_format reference mpl i t v np np' w h :
  0 <= mpl <= 4294967296 -> 0 <= i <= 4294967296 ->
  into_width_and_height (d_format np) = Some (w, h) -> 1 <= w -> 1 <= h ->
  p_gather_forbody1 reference mpl i t v np = Ok np' -> d_format np' = d_format np.
Proof.
  intros Hm Hi Hf Hw Hh E.
  pose proof (bridge_gather_item reference mpl i t v np w h [] Hm Hi Hf Hw Hh) as B.
  rewrite E in B. change (Ok np' = gather_go [(t, v)] i reference mpl np) in B. symmetry in B.
  exact (proj2 (gather_go_header _ _ _ _ _ _ B)).
Qed.

Lemma bridge_gather_loop reference mpl w h : 0 <= mpl <= 4294967296 -> 1 <= w -> 1 <= h ->
  forall types mvs i np, 0 <= i -> i + Z.of_nat (length types) <= 4294967296 ->
  into_width_and_height (d_format np) = Some (w, h) ->
  for_zip_enum (fun i t v n => p_gather_forbody1 reference mpl i t v n) types mvs i np
  = gather_go (combine types mvs) i reference mpl np.
Proof.
  intros Hm Hw Hh. induction types as [|t ts IH]; intros mvs i np Hi Hl Hf; [reflexivity|].
  destruct mvs as [|v vs]; [reflexivity|].
  cbn [for_zip_enum combine]. cbn [length] in Hl.
  rewrite <- (bridge_gather_item reference mpl i t v np w h (combine ts vs) Hm ltac:(lia) Hf Hw Hh).
  destruct (p_gather_forbody1 reference mpl i t v np) as [np'| | |] eqn:E; try reflexivity.
  cbn [bind]. apply IH; [lia|lia|].
  rewrite (forbody_format reference mpl i t v np np' w h Hm ltac:(lia) Hf Hw Hh E). exact Hf.
Qed.

(* gather(): the whole translated function is the model's gather_go over the zipped lists *)
Theorem bridge_p_gather types reference mvs mpl np w h :
  0 <= mpl <= 4294967296 -> Z.of_nat (length types) <= 4294967296 ->
  into_width_and_height (d_format np) = Some (w, h) -> 1 <= w -> 1 <= h ->
  p_gather types reference mvs mpl np = gather_go (combine types mvs) 0 reference mpl np.
Proof.
  intros Hm Hl Hf Hw Hh. unfold p_gather.
  rewrite (bridge_gather_loop reference mpl w h Hm Hw Hh types mvs 0 np ltac:(lia) ltac:(lia) Hf).
  destruct (gather_go _ _ _ _ _); reflexivity.
Qed.
Print Assumptions bridge_p_gather.
