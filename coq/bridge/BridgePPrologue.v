(* Bridge: the prologue of H263State::decode_next_picture (decoder/state.rs) - from the call of the header parser to the
   macroblock counts - as translated from the Rust source on this run (gen/GenPState.v, p_prologue) equals the first part of
   the model's `reconstruct` (model_prologue; reconstruct_prologue shows that reconstruct is model_prologue followed by the
   macroblock loop and the reconstruction), for every call whose selectable formats fit the u16 size fields of the code. *)
From Coq Require Import String.
From H263V Require Import base.Prelude base.Checked model.Types model.Tables model.Reader model.Header model.Syntax model.Recon model.Decoder gen.GenPState bridge.KTactics proofs.FloatCeil.
From H263V Require Import model.F64.
Require Import ZifyBool.
Ltac Zify.zify_post_hook ::= Z.div_mod_to_equations.

(* ------------------------------------------------------------------ the prologue of decode_next_picture *)
(* from the call of the header parser to the macroblock counts: options in force (inheritance of the OPPTYPE / MPPTYPE
   modes from the running options), the format in force (the header's, else - not for INTRA pictures - the last picture's),
   the zero-size rejection, the macroblock counts (binary64 in the code: proofs/FloatCeil.v) *)
(* the first part of the model's `reconstruct`: header, options in force, format in force, dimensions, macroblock counts *)
Definition model_prologue (o : dec_opts) (last : option decoded_picture) (running0 : Z) (r0 : reader)
  : res ((picture * Z * source_format * (Z * Z) * Z * Z * (Z * Z)) * reader) :=
  let* (op, r) := decode_picture o (match last with Some p => Some (d_header p) | None => None end) r0 in
  match op with
  | None => Err EMiddleOfBitstream
  | Some np_hdr =>
      let next_running :=
        if has_plusptype np_hdr && has_opptype np_hdr then options np_hdr
        else if has_plusptype np_hdr then
          Z.lor (Z.ldiff (options np_hdr) opptype_options) (Z.land running0 opptype_options)
        else
          Z.lor (Z.ldiff (Z.ldiff (options np_hdr) opptype_options) mpptype_options)
                (Z.land running0 (Z.lor opptype_options mpptype_options)) in
      let* fmt :=
        (match format np_hdr with
         | Some f => Ok f
         | None =>
             if is_iframe (picture_type np_hdr) then Err EPictureFormatMissing else
             match last with
             | Some lp => Ok (d_format lp)
             | None => Err EPictureFormatMissing
             end
         end) in
      match into_width_and_height fmt with
      | None => Err EPictureFormatInvalid
      | Some (w, h) =>
          if (w <=? 0) || (h <=? 0) then Err EPictureFormatInvalid else
          Ok ((np_hdr, next_running, fmt, (w, h), (w + 15) / 16, (h + 15) / 16, ((w + 15) / 16 * 16, (h + 15) / 16 * 16)), r)
      end
  end.

(* every format the call can select has dimensions that fit the u16 fields of the code *)
Definition sizes_fit (o : dec_opts) (last : option decoded_picture) (r0 : reader) : Prop :=
  forall hdr r, decode_picture o (match last with Some p => Some (d_header p) | None => None end) r0 = Ok (Some hdr, r) ->
  forall f w h, (format hdr = Some f \/ exists lp, last = Some lp /\ d_format lp = f) ->
    into_width_and_height f = Some (w, h) -> 0 <= w <= 65535 /\ 0 <= h <= 65535.

(* The proof does not name the join points of the generated term (they change with every restructuring of the source): every
   lifted function is unfolded through the hint database the generator emits, then the proof splits on what the selection of
   the options and of the format looks at, and finishes each case with the size facts. *)
Ltac prologue_dims Hfit :=
  cbn [bind]; cbv zeta; cbn [fst snd]; try reflexivity;
  match goal with
  | |- context [into_width_and_height ?fmt] =>
      let w := fresh "w" in let h := fresh "h" in let Ewh := fresh "Ewh" in
      destruct (into_width_and_height fmt) as [[w h]|] eqn:Ewh; [|reflexivity]; cbn [fst snd];
      let Hw := fresh "Hw" in let Hh := fresh "Hh" in
      destruct (Hfit fmt w h ltac:(first [ left; solve [eauto] | right; eexists; split; solve [eauto] ]) Ewh) as [Hw Hh];
      replace ((w =? 0) || (h =? 0)) with ((w <=? 0) || (h <=? 0)) by lia;
      destruct ((w <=? 0) || (h <=? 0)) eqn:?; [reflexivity|];
      rewrite !ceil16_exact by lia;
      rewrite (mul_c_ok Usize ((w + 15) / 16) 16) by (cbn [ilo ihi]; lia); cbn [bind];
      rewrite (mul_c_ok Usize ((h + 15) / 16) 16) by (cbn [ilo ihi]; lia); cbn [bind]; reflexivity
  end.

Lemma bridge_p_prologue s r :
  sizes_fit (st_opts s) (get_last_picture s) r ->
  p_prologue s r = model_prologue (st_opts s) (get_last_picture s) (running_options s) r.
Proof.
  intros Hfit. unfold p_prologue, model_prologue. autounfold with pgenstate.
  destruct (decode_picture (st_opts s) _ r) as [[[hdr|] r1]| | |] eqn:Ed; cbn [bind]; try reflexivity.
  specialize (Hfit hdr r1 Ed). cbv zeta. unfold is_iframe.
  destruct (has_plusptype hdr); destruct (has_opptype hdr); cbn [andb];
    (destruct (format hdr) as [f|] eqn:Ef; [prologue_dims Hfit|]);
    (destruct (picture_type hdr) eqn:Et; try reflexivity);
    (destruct (get_last_picture s) as [lp|] eqn:El; [prologue_dims Hfit | reflexivity]).
Qed.

(* the model's `reconstruct` is its prologue followed by the macroblock loop and the reconstruction *)
Lemma reconstruct_prologue o last reference running0 r0 :
  reconstruct o last reference running0 r0 =
  (let* (x, r) := model_prologue o last running0 r0 in
   let '(np_hdr, next_running, fmt, (w, h), mb_per_line, mb_height, (levw, levh)) := x in
   match new_decoded np_hdr fmt with
   | None => Err EPictureFormatInvalid
   | Some np =>
       let nl := levw * levh / 64 in
       let nc := levw * levh / 4 / 64 in
       let st0 := mkLoop r (quantizer np_hdr) [] [] (repeatZ DctZero nl) (repeatZ DctZero nc) (repeatZ DctZero nc) in
       let total := mb_per_line * mb_height in
       let* st := mb_loop (S (length (rbits r))) o np next_running mb_per_line total levw st0 in
       let pvs := pad_to (l_pvs st) total mv4_zero in
       let types := pad_to (l_types st) total Inter in
       let* np := gather_go (combine types pvs) 0 reference mb_per_line np in
       let* luma := idct_channel (l_luma st) (d_luma np) (mb_per_line * 2) w in
       let* cb := idct_channel (l_cb st) (d_cb np) mb_per_line (d_chroma_w np) in
       let* cr := idct_channel (l_cr st) (d_cr np) mb_per_line (d_chroma_w np) in
       Ok (mkDecoded (d_header np) (d_format np) luma cb cr (d_chroma_w np), l_reader st)
   end).
Proof.
  unfold reconstruct, model_prologue.
  destruct (decode_picture o _ r0) as [[[hdr|] r1]| | |]; cbn [bind]; try reflexivity.
  cbv zeta.
  match goal with |- context [bind ?m _] => destruct m as [fmt| | |] end; cbn [bind]; try reflexivity.
  destruct (into_width_and_height fmt) as [[w h]|]; [|reflexivity].
  destruct ((w <=? 0) || (h <=? 0)); reflexivity.
Qed.
