(* Bridge: the inventory of shared / hidden state regenerated from the three crates is exactly
   three immutable lazy_static option masks and nothing else. *)
From Coq Require Import String List ZArith.
Import ListNotations.
From H263V Require Import gen.GenInventory.
Open Scope string_scope.

Definition expected_lazy_statics : list string :=
  ["h263/src/parser/picture.rs:OPPTYPE_OPTIONS"; "h263/src/types.rs:MPPTYPE_OPTIONS"; "h263/src/types.rs:OPPTYPE_OPTIONS"].

Lemma bridge_inventory :
  lazy_static_items = expected_lazy_statics /\
  Forall (fun kv : string * Z => snd kv = 0%Z) forbidden_construct_counts.
Proof. split; [reflexivity|]. repeat constructor. Qed.
