(* Bridge: yuv_to_rgba_4x of yuv/src/bt601.rs as translated from the Rust source on this run
   (gen/GenKYuv.v; lane-wise, wrapping i32 lanes, little-endian byte view of the packed pixel) yields for
   lane `lane` exactly the four bytes of the hand-written model's `px` on (y[lane], cb[lane/2], cr[lane/2]). *)
From H263V Require Import base.Prelude base.Checked model.Yuv gen.GenKYuv bridge.KTactics proofs.YuvKernel.

Ltac Zify.zify_post_hook ::= Z.to_euclidean_division_equations.

Definition byte_at (v k : Z) : Z := Z.land (Z.shiftr v (8 * k)) 255.

Lemma le_bytes4_land v : le_bytes4 v = [byte_at v 0; byte_at v 1; byte_at v 2; byte_at v 3].
Proof.
  unfold le_bytes4, byte_at. change 255 with (Z.ones 8). rewrite !Z.land_ones by lia.
  rewrite !Z.shiftr_div_pow2 by lia.
  change (2 ^ (8 * 0)) with 1. change (2 ^ (8 * 1)) with 256. change (2 ^ (8 * 2)) with 65536.
  change (2 ^ (8 * 3)) with 16777216. change (2 ^ 8) with 256.
  f_equal; [lia | f_equal; [lia | f_equal; [lia | f_equal; lia ] ] ].
Qed.

Lemma byte_at_lor a b k : byte_at (Z.lor a b) k = Z.lor (byte_at a k) (byte_at b k).
Proof. unfold byte_at. rewrite Z.shiftr_lor, Z.land_lor_distr_l. reflexivity. Qed.

Definition pieces_ok (x : Z) : bool :=
  (byte_at x 0 =? x) && (byte_at x 1 =? 0) && (byte_at x 2 =? 0) && (byte_at x 3 =? 0) &&
  (byte_at (x * 256) 0 =? 0) && (byte_at (x * 256) 1 =? x) && (byte_at (x * 256) 2 =? 0) && (byte_at (x * 256) 3 =? 0) &&
  (byte_at (x * 65536) 0 =? 0) && (byte_at (x * 65536) 1 =? 0) && (byte_at (x * 65536) 2 =? x) && (byte_at (x * 65536) 3 =? 0).

Lemma pieces_all : forallb pieces_ok (map Z.of_nat (seq 0 256)) = true.
Proof. vm_compute. reflexivity. Qed.

Lemma pieces x : 0 <= x <= 255 -> pieces_ok x = true.
Proof.
  intros H. pose proof pieces_all as P. rewrite forallb_forall in P. apply P.
  apply in_map_iff. exists (Z.to_nat x). split; [lia|]. apply in_seq. lia.
Qed.

Lemma le_bytes4_pack r g b :
  0 <= r <= 255 -> 0 <= g <= 255 -> 0 <= b <= 255 ->
  le_bytes4 (Z.lor (Z.lor r (g * 256)) (Z.lor (b * 65536) (-16777216))) = [r; g; b; 255].
Proof.
  intros Hr Hg Hb. rewrite le_bytes4_land. rewrite !byte_at_lor.
  pose proof (pieces r Hr) as Pr. pose proof (pieces g Hg) as Pg. pose proof (pieces b Hb) as Pb.
  unfold pieces_ok in *.
  repeat match goal with H : _ && _ = true |- _ => apply andb_prop in H; destruct H end.
  repeat match goal with H : (_ =? _) = true |- _ => apply Z.eqb_eq in H; rewrite ?H; clear H end.
  change (byte_at (-16777216) 0) with 0. change (byte_at (-16777216) 1) with 0.
  change (byte_at (-16777216) 2) with 0. change (byte_at (-16777216) 3) with 255.
  rewrite ?Z.lor_0_r, ?Z.lor_0_l. reflexivity.
Qed.

Lemma bridge_k_yuv_to_rgba_4x (y cb cr rgba : Z -> Z) lane :
  0 <= lane <= 3 -> (forall i, byte (y i)) -> (forall i, byte (cb i)) -> (forall i, byte (cr i)) ->
  k_yuv_to_rgba_4x (y, cb, cr) rgba lane = px_bytes (y lane) (cb (lane / 2)) (cr (lane / 2)).
Proof.
  unfold byte. intros Hl Hy Hcb Hcr.
  assert (Hc : lane = 0 \/ lane = 1 \/ lane = 2 \/ lane = 3) by lia.
  unfold k_yuv_to_rgba_4x, px_bytes, px. cbv zeta. cbn [fst snd].
  pose proof (Hy 0); pose proof (Hy 1); pose proof (Hy 2); pose proof (Hy 3).
  pose proof (Hcb 0); pose proof (Hcb 1); pose proof (Hcr 0); pose proof (Hcr 1).
  destruct Hc as [ -> | [ -> | [ -> | -> ] ] ];
    change (0 / 2) with 0; change (1 / 2) with 0; change (2 / 2) with 1; change (3 / 2) with 1;
    unfold lane_sel; change (Z.to_nat 0) with 0%nat; change (Z.to_nat 1) with 1%nat; change (Z.to_nat 2) with 2%nat;
    change (Z.to_nat 3) with 3%nat; cbn [nth];
    change (wrap I32 (Z.shiftl 255 24)) with (-16777216);
    rewrite !Z.shiftl_mul_pow2 by lia; change (2 ^ 8) with 256; change (2 ^ 16) with 65536;
    kunwrap; rewrite le_bytes4_pack by lia;
    unfold k_yoff, k_gray, k_coff, k_cr2r, k_cr2g, k_cb2g, k_cb2b, k_half, k_shift; reflexivity.
Qed.
