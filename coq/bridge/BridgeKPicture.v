(* Bridge: the plane sizes of DecodedPicture::new (decoder/picture.rs) as translated from the Rust source on this run
   (gen/GenKPicture.v): the chroma width and height are computed in binary32 - `(w as f32 / 2.0).ceil() as usize` - and the
   model uses (w + 1) / 2.  That the float computation is exact for every u16 is proved in proofs/FloatCeil.v by evaluating it (Flocq's
   binary32 division, round-up to an integer, truncating cast) on all 65 536 values inside the kernel. *)
From H263V Require Import base.Prelude base.Checked model.F32 gen.GenKPicture bridge.KTactics proofs.FloatCeil.
Require Import ZifyBool.
Ltac Zify.zify_post_hook ::= Z.div_mod_to_equations.

Lemma bridge_k_chroma_w w : 0 <= w <= 65535 -> k_chroma_w w = (w + 1) / 2.
Proof. intros H. unfold k_chroma_w. cbv zeta. apply half_exact. exact H. Qed.

Lemma bridge_k_chroma_h h : 0 <= h <= 65535 -> k_chroma_h h = (h + 1) / 2.
Proof. intros H. unfold k_chroma_h. cbv zeta. apply half_exact. exact H. Qed.

Lemma bridge_k_luma_samples w h : 0 <= w <= 65535 -> 0 <= h <= 65535 -> k_luma_samples w h = Ok (w * h).
Proof. intros Hw Hh. unfold k_luma_samples. rewrite mul_c_ok by (cbn [ilo ihi]; nia). reflexivity. Qed.

Lemma bridge_k_chroma_samples cw ch : 0 <= cw <= 32768 -> 0 <= ch <= 32768 -> k_chroma_samples cw ch = Ok (cw * ch).
Proof. intros Hw Hh. unfold k_chroma_samples. rewrite mul_c_ok by (cbn [ilo ihi]; nia). reflexivity. Qed.
