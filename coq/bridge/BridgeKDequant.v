(* Bridge: dequantisation (the three lets of inverse_rle), INTRADC validity and level (impl IntraDc) and the
   quantizer update of decode_next_picture, as translated from the Rust source on this run, equal the
   hand-written model's definitions, without panics. *)
From H263V Require Import base.Prelude base.Checked model.Types model.Syntax model.Recon model.Decoder
  gen.GenKTypes gen.GenKRle gen.GenKState bridge.KTactics.

Lemma bridge_k_intradc_from_u8 v : k_intradc_from_u8 v = intradc_from_u8 v.
Proof. reflexivity. Qed.

Lemma bridge_k_intradc_into_level v : 0 <= v <= 255 -> k_intradc_into_level v = Ok (intradc_level v).
Proof.
  intros Hv. unfold k_intradc_into_level, intradc_level.
  destruct (v =? 255) eqn:E; [reflexivity|].
  rewrite (wrap_id I16 v) by krange. ksteps. subst. f_equal.
  rewrite Z.shiftl_mul_pow2 by lia. change (2 ^ 3) with 8. rewrite wrap_id by krange. lia.
Qed.

Lemma bridge_k_dequant q l :
  0 <= q <= 255 -> -32767 <= l <= 32767 -> k_dequant q l = Ok (dequant q l).
Proof.
  intros Hq Hl. unfold k_dequant, dequant.
  assert (Hp : 0 <= q * (2 * Z.abs l + 1) <= 255 * 65535) by nia.
  assert (Hs : forall z, -16711426 <= z <= 16711425 -> -16711426 <= Z.sgn l * z <= 16711426) by (intros; lia).
  (* the checked steps in whatever order the source has them; the signed product needs its nonlinear range fact *)
  repeat (first
    [ progress (cbv zeta)
    | match goal with |- context [mul_c I32 (Z.sgn l) ?z] =>
        lazymatch goal with
        | _ : _ <= Z.sgn l * z <= _ |- _ => fail
        | _ => pose proof (Hs z ltac:(lia))
        end end
    | kstepi
    | kcase ]);
  f_equal; rewrite wrap_id by (unfold clamp; krange); unfold clamp; lia.
Qed.

Lemma bridge_k_quant_update q dq :
  0 <= q <= 127 -> match dq with Some d => -128 <= d <= 127 /\ -128 <= q + d <= 127 | None => True end ->
  k_quant_update q dq = Ok (next_quant q dq).
Proof.
  intros Hq Hd. unfold k_quant_update, next_quant.
  rewrite (wrap_id I8 q) by krange.
  destruct dq as [d|]; ksteps; subst; f_equal; apply wrap_id; krange.
Qed.

