(* Bridge: predict_candidate of h263/src/decoder/cpu/mvd_pred.rs (the three candidate predictors of a luma block: left,
   above, above-right, with the border rules, and their median) as translated from the Rust source on this run
   (gen/GenPMvPred.v; slice indexing and the usize arithmetic are checked operations) equals the hand-written model's
   predict_candidate for every list of earlier vectors, every width and every block index, without panics. *)
From H263V Require Import base.Prelude base.Checked model.Types model.Tables model.Reader model.Header model.Syntax model.Recon gen.GenPMvPred bridge.KTactics.
Require Import ZifyBool.

Lemma tup4_get_ok (m : mv4) i : 0 <= i <= 3 -> tup4_get m i = Ok (mv4_get m i).
Proof.
  intros H. destruct m as [[[a b] c] d]. unfold tup4_get, mv4_get.
  assert (Hc : i = 0 \/ i = 1 \/ i = 2 \/ i = 3) by lia.
  destruct Hc as [ -> | [ -> | [ -> | -> ] ] ]; reflexivity.
Qed.

Lemma bridge_p_predict_candidate pv cur mpl index :
  0 <= mpl <= 4294967296 -> zlength pv <= 4294967296 -> 0 <= index <= 3 ->
  p_predict_candidate pv cur mpl index = predict_candidate pv cur mpl index.
Proof.
  intros Hm Hl Hi. unfold p_predict_candidate, predict_candidate. autounfold with pgenmv. cbv zeta.
  assert (Hn : 0 <= zlength pv) by (unfold zlength; lia).
  unfold mv4, mv in *. set (n := zlength pv) in *.
  unfold rem_c, rem_chk. destruct (mpl =? 0) eqn:E0; [reflexivity|].
  replace ((n =? ilo Usize) && (mpl =? -1)) with false by (cbn [ilo]; lia). cbn [bind].
  assert (Hcol : 0 <= Z.rem n mpl < mpl) by (apply Z.rem_bound_pos; lia).
  assert (Hq0 : 0 <= Z.quot n mpl) by (apply Z.quot_pos; lia).
  assert (Hqm : Z.quot n mpl * mpl <= n) by (rewrite Z.mul_comm; apply Z.mul_quot_le; lia).
  assert (Hq1 : Z.quot n mpl <= Z.quot n mpl * mpl) by (rewrite <- (Z.mul_1_r (Z.quot n mpl)) at 1; apply Z.mul_le_mono_nonneg_l; lia).
  assert (Hq : 0 <= Z.quot n mpl <= n) by lia.
  set (col := Z.rem n mpl) in *. set (line := Z.quot n mpl) in *.
  assert (Hdiv : div_c Usize n mpl = Ok line).
  { unfold div_c. rewrite E0. apply chk_ok, in_range_true. cbn [ilo ihi]. lia. }
  assert (Hdivm : div_chk n mpl = Ok line) by (unfold div_chk; rewrite E0; reflexivity).
  assert (Hc : index = 0 \/ index = 1 \/ index = 2 \/ index = 3) by lia.
  assert (Hcl : clamp 0 18446744073709551615 (line - 1) = Z.max 0 (line - 1)) by (unfold clamp; lia).
  assert (Hcm : clamp 0 18446744073709551615 (mpl - 1) = Z.max 0 (mpl - 1)) by (unfold clamp; lia).
  assert (Hmul : 0 <= Z.max 0 (line - 1) * mpl <= n).
  { split; [apply Z.mul_nonneg_nonneg; lia|].
    apply Z.le_trans with (line * mpl); [apply Z.mul_le_mono_nonneg_r; lia|exact Hqm]. }
  assert (Hn1 : col = 0 \/ 1 <= n) by (destruct (Z.eq_dec n 0) as [Hz|Hz]; [left; unfold col; rewrite Hz; apply Z.rem_0_l; lia|right; lia]).
  Ltac pc_simpl Hdiv Hdivm Hcl Hcm :=
    rewrite ?Hdiv, ?Hdivm, ?Hcl, ?Hcm; cbn [bind]; rewrite ?tup4_get_ok by lia; cbn [bind];
    do 6 (try (first [rewrite add_c_ok by krange | rewrite sub_c_ok by krange | rewrite mul_c_ok by (cbn [ilo ihi]; lia)]; cbn [bind];
               rewrite ?Hcl, ?Hcm; rewrite ?tup4_get_ok by lia; cbn [bind])).
  Ltac pc_split :=
    match goal with
    | |- context [if ?c then _ else _] =>
        lazymatch c with
        | (_ =? _) => destruct c eqn:?
        end
    | |- context [get ?l ?i] => destruct (get l i) as [?| | |] eqn:?
    | |- context [nth_error ?l ?i] => destruct (nth_error l i) as [?|] eqn:?
    end.
  destruct Hc as [ -> | [ -> | [ -> | -> ] ] ]; cbn [Z.eqb Pos.eqb orb andb];
    pc_simpl Hdiv Hdivm Hcl Hcm; try reflexivity;
    do 6 (try (pc_split; pc_simpl Hdiv Hdivm Hcl Hcm; try reflexivity)).
Qed.
(* halfpel_decode / mv_decode: predictor + differential, the restricted and the extended (UMV) ranges by picture size, the
   wrap by the inverted differential - the whole function, every option combination *)
Lemma bridge_p_halfpel_decode cur running p mvd is_x :
  p_halfpel_decode cur running p mvd is_x = Ok (halfpel_decode cur running p mvd is_x).
Proof.
  unfold p_halfpel_decode, halfpel_decode. autounfold with pgenmv. cbv zeta.
  destruct (has running UNRESTRICTED_MOTION_VECTORS); cbn [andb].
  - destruct (has_plusptype (d_header cur)); cbn [negb andb].
    + destruct (motion_vector_range (d_header cur)) as [[|]|]; cbn [bind]; try reflexivity.
      destruct is_x; cbn [bind];
        destruct (into_width_and_height (d_format cur)) as [[w h]|]; cbn [bind];
        destruct (negb (is_mv_within_range (hadd mvd p) _)); reflexivity.
    + destruct (is_mv_within_range p 32); [reflexivity|].
      destruct (negb (is_mv_within_range (hadd mvd p) 64)); reflexivity.
  - cbn [bind]. destruct (negb (is_mv_within_range (hadd mvd p) 32)); reflexivity.
Qed.

Lemma bridge_p_mv_decode cur running pr mvd : p_mv_decode cur running pr mvd = Ok (mv_decode cur running pr mvd).
Proof.
  unfold p_mv_decode, mv_decode. destruct mvd as [mx my], pr as [px py]. rewrite !bridge_p_halfpel_decode. reflexivity.
Qed.
