(* Bridge: the kernels of deblock/src/deblock.rs as translated from the Rust source on
   this run (gen/GenKDeblock.v) equal the hand-written model's kernels (model/Deblock.v)
   for every byte pattern and strength, and none of their checked operations panics. *)
From H263V Require Import base.Prelude base.Checked model.Deblock gen.GenKDeblock bridge.KTactics proofs.DeblockKernel.
#[local] Hint Unfold up_down_ramp clipd1 tdiv : kmodel.

Lemma bridge_k_up_down_ramp x s :
  -16000 <= x <= 16000 -> 0 <= s <= 255 -> k_up_down_ramp x s = Ok (up_down_ramp x s).
Proof.
  intros Hx Hs. unfold k_up_down_ramp. ksteps. kfin.
Qed.

Lemma bridge_k_clipd1 x lim : -32767 <= lim <= 32767 -> k_clipd1 x lim = Ok (clipd1 x lim).
Proof. intros Hl. unfold k_clipd1. ksteps. kfin. Qed.

Lemma bridge_k_process a b c d s :
  byte a -> byte b -> byte c -> byte d -> 1 <= s <= 12 ->
  k_process a b c d s = Ok (process a b c d s).
Proof.
  unfold byte. intros Ha Hb Hc Hd Hs. unfold k_process.
  (* the checked steps in whatever order the source has them; the two calls are replaced by their bridged values, each
     with the range fact the later steps need *)
  repeat (cbv zeta; cbn [fst snd]; first
    [ match goal with |- context [k_up_down_ramp ?x s] =>
        rewrite (bridge_k_up_down_ramp x s) by lia;
        let Hr := fresh "Hr" in pose proof (ramp_bound x s ltac:(lia)) as Hr; rewrite <- ramp_eq in Hr end
    | match goal with |- context [k_clipd1 ?x ?l] =>
        rewrite (bridge_k_clipd1 x l) by lia;
        let Hc1 := fresh "Hc1" in assert (Hc1 : Z.abs (clipd1 x l) <= Z.abs x) by (unfold clipd1, clamp; lia) end
    | kstep ]).
  subst. unfold process, tdiv. rewrite !wrap_u8_eq.
  assert (Hb8 : forall z, 0 <= z <= 255 -> wrap_u8 z = z) by (intros; unfold wrap_u8; rewrite Z.mod_small; lia).
  (* the two inner samples are clipped to 0..255 before the cast, as clamp or as max/min *)
  repeat match goal with |- context [wrap_u8 (clamp 0 255 ?z)] => rewrite (Hb8 (clamp 0 255 z)) by (unfold clamp; lia) end.
  repeat match goal with |- context [wrap_u8 (Z.min (Z.max ?z 0) 255)] =>
           rewrite (Hb8 (Z.min (Z.max z 0) 255)) by lia; replace (Z.min (Z.max z 0) 255) with (clamp 0 255 z) by (unfold clamp; lia) end.
  reflexivity.
Qed.

(* ---- the vector kernel, seen from one i16 lane (lane index `lane` of 0..7) ---- *)
Lemma bridge_k_signum_simd x : k_signum_simd x = signum_lane x.
Proof. unfold k_signum_simd, signum_lane. apply wrap_id. destruct (x <? 0), (0 <? x); krange. Qed.

Ltac kclosed_land :=
  repeat match goal with
  | |- context [Z.land ?a ?b] => let v := eval vm_compute in (Z.land a b) in change (Z.land a b) with v
  end.

Lemma bridge_k_div_pow2_simd x k :
  -16000 <= x <= 16000 -> 1 <= k <= 3 -> k_div_pow2_simd x k = Ok (div_pow2_lane x k).
Proof.
  intros Hx Hk. unfold k_div_pow2_simd.
  assert (Hk' : k = 1 \/ k = 2 \/ k = 3) by lia.
  destruct Hk' as [ -> | [ -> | -> ] ]; kstep;
    match goal with H : _ = wrap I16 (Z.shiftl 1 _) |- _ => vm_compute in H end;
    kstep; subst; unfold div_pow2_lane; destruct (x <? 0) eqn:E; kclosed_land;
    rewrite wrap_id by krange; reflexivity.
Qed.

Lemma bridge_k_up_down_ramp_simd x s :
  -16000 <= x <= 16000 -> 0 <= s <= 255 -> k_up_down_ramp_simd x s = up_down_ramp_lane x s.
Proof.
  intros Hx Hs. unfold k_up_down_ramp_simd, up_down_ramp_lane. rewrite bridge_k_signum_simd.
  kunwrap. apply wrap_id. unfold signum_lane. destruct (x <? 0), (0 <? x); krange.
Qed.

Lemma bridge_k_clipd1_simd x lim :
  -32767 <= lim <= 32767 -> k_clipd1_simd x lim = clipd1_lane x lim.
Proof.
  intros Hl. unfold k_clipd1_simd, clipd1_lane, k_clamp_simd. cbv zeta. kunwrap. reflexivity.
Qed.

Lemma lane_sel_8 lane (f : Z -> Z) :
  0 <= lane <= 7 -> lane_sel lane [f 0; f 1; f 2; f 3; f 4; f 5; f 6; f 7] = f lane.
Proof.
  intros H. assert (Hc : lane = 0 \/ lane = 1 \/ lane = 2 \/ lane = 3 \/ lane = 4 \/ lane = 5 \/ lane = 6 \/ lane = 7) by lia.
  destruct Hc as [ -> | [ -> | [ -> | [ -> | [ -> | [ -> | [ -> | -> ] ] ] ] ] ] ]; reflexivity.
Qed.

Lemma bridge_k_into_simd16 a lane : 0 <= lane <= 7 -> k_into_simd16 a lane = a lane.
Proof. intros; unfold k_into_simd16. apply lane_sel_8; assumption. Qed.

Lemma bridge_k_process_simd (A B C D : Z -> Z) s lane :
  0 <= lane <= 7 -> byte (A lane) -> byte (B lane) -> byte (C lane) -> byte (D lane) -> 1 <= s <= 12 ->
  k_process_simd A B C D s lane = Ok (process_lane (A lane) (B lane) (C lane) (D lane) s).
Proof.
  unfold byte. intros Hl Ha Hb Hc Hd Hs. unfold k_process_simd.
  rewrite !bridge_k_into_simd16 by assumption.
  generalize dependent (A lane). generalize dependent (B lane). generalize dependent (C lane). generalize dependent (D lane).
  intros d Hd c Hc b Hb a Ha.
  kstep. cbv zeta. kunwrap.
  rewrite (bridge_k_div_pow2_simd (a - 4 * b + 4 * c - d) 3) by lia. kname.
  rewrite (bridge_k_div_pow2_simd (a - d) 2) by lia. kname.
  rewrite (div_pow2_lane_quot _ 3) in * by lia. rewrite (div_pow2_lane_quot _ 2) in * by lia.
  change (2 ^ 3) with 8 in *. change (2 ^ 2) with 4 in *.
  rewrite (bridge_k_up_down_ramp_simd v s) by lia.
  pose proof (ramp_bound v s ltac:(lia)) as Hr. rewrite <- ramp_lane_eq in Hr.
  rewrite (bridge_k_div_pow2_simd (up_down_ramp_lane v s) 1) by lia. kname.
  rewrite (div_pow2_lane_quot _ 1) in * by lia. change (2 ^ 1) with 2 in *.
  rewrite (bridge_k_clipd1_simd v0 v1) by lia.
  assert (Hc1 : Z.abs (clipd1_lane v0 v1) <= Z.abs v0) by (unfold clipd1_lane; lia).
  unfold k_clamp_simd. kunwrap.
  subst. unfold process_lane. rewrite !wrap_u8_eq.
  rewrite (div_pow2_lane_quot _ 3), (div_pow2_lane_quot _ 2), (div_pow2_lane_quot _ 1) by lia.
  change (2 ^ 3) with 8. change (2 ^ 2) with 4. change (2 ^ 1) with 2.
  assert (Hb8 : forall z, 0 <= z <= 255 -> wrap_u8 z = z) by (intros; unfold wrap_u8; rewrite Z.mod_small; lia).
  rewrite (Hb8 (Z.min _ 255)) by lia. rewrite (Hb8 (Z.min _ 255)) by lia.
  reflexivity.
Qed.
