(* Bridge: the macroblock-layer header parser of h263/src/parser/macroblock.rs (decode_macroblock, decode_cbpb,
   decode_dquant, decode_motion_vector) as translated from the Rust source on this run (gen/GenPMacroblock.v) equals the
   hand-written model's (model/Syntax.v) on every reader. *)
From H263V Require Import base.Prelude base.Checked model.Types model.Tables model.Reader model.Header model.Syntax gen.GenPMacroblock bridge.KTactics proofs.ReaderLemmas bridge.BridgePHeader.
Require Import ZifyBool.

(* the model keeps only the reader effect of CBPB (PB frames are parsed but unused) *)
Lemma bridge_p_decode_cbpb r :
  match p_decode_cbpb r with Ok (_, r') => Ok (tt, r') | Err e => Err e | Panic p => Panic p | OutOfFuel => OutOfFuel end = decode_cbpb r.
Proof.
  unfold p_decode_cbpb, decode_cbpb. autounfold with pgenmb. repeat (step_read; cbv zeta; rewrite ?bind_assoc; cbn [bind]); try reflexivity.
Qed.

Lemma bridge_p_decode_dquant r : p_decode_dquant r = decode_dquant r.
Proof.
  unfold p_decode_dquant, decode_dquant. autounfold with pgenmb. step_read. cbv zeta. change (2 ^ 2) with 4 in *.
  cases_below v 4%nat; reflexivity.
Qed.

Lemma bridge_p_decode_motion_vector pic running r : p_decode_motion_vector pic running r = decode_motion_vector pic running r.
Proof. reflexivity. Qed.

Lemma bind_eta {A} (m : res (A * reader)) : (let* (a, r) := m in Ok (a, r)) = m.
Proof. destruct m as [[a r]| | |]; reflexivity. Qed.

(* every leaf of the CBPY table is a four-element pattern (the code has [bool; 4], the model a list) *)
Fixpoint vlc_leaves {T} (t : list (entry T)) : list T :=
  match t with [] => [] | End x :: t' => x :: vlc_leaves t' | Fork _ _ :: t' => vlc_leaves t' end.

Lemma vlc_go_leaf {T} (table : list (entry T)) : forall fuel idx r v r',
  vlc_go fuel table idx r = Ok (v, r') -> In v (vlc_leaves table).
Proof.
  induction fuel as [|f IH]; intros idx r v r' H; cbn [vlc_go] in H; [discriminate|].
  destruct (nth_error table idx) as [[t|z o]|] eqn:E; try discriminate.
  - inversion H; subst. clear - E. revert idx E. induction table as [|x table IHt]; intros [|i] E; cbn in E; try discriminate.
    + inversion E; subst. left. reflexivity.
    + destruct x; [right|]; eapply IHt; eauto.
  - destruct (read_bits 8 1 r) as [[b r1]| | |]; cbn [bind] in H; try discriminate. eapply IH; eauto.
Qed.

Lemma cbpy_leaf_shape r v r' : read_vlc cbpy_table_intra r = Ok (Some v, r') ->
  exists a b c d, v = [a; b; c; d].
Proof.
  intros H. apply vlc_go_leaf in H.
  assert (Hall : forallb (fun o : option (list bool) => match o with Some [_; _; _; _] => true | Some _ => false | None => true end) (vlc_leaves cbpy_table_intra) = true) by (vm_compute; reflexivity).
  rewrite forallb_forall in Hall. specialize (Hall _ H). cbn in Hall.
  destruct v as [|a [|b [|c [|d [|e v]]]]]; try discriminate. eauto.
Qed.

(* the model's macroblock header after a valid MCBPC (copied from model/Syntax.v decode_macroblock) *)
Definition model_mb_tail (pic : picture) (running : Z) (t : mbtype) (cb cr : bool) (r : reader) : res (macroblock * reader) :=
      let* ((has_cbpb, has_mvdb), r) :=
        (match picture_type pic with PbFrame => read_vlc modb_table r | _ => Ok ((false, false), r) end) in
      let* (ocbpy, r) := read_vlc cbpy_table_intra r in
      match ocbpy with
      | None => Err EInvalidMacroblockCodedBits
      | Some v =>
          let luma := if mb_is_intra t then v else map negb v in
          let* r := (if has_cbpb then let* (_, r) := decode_cbpb r in Ok r else Ok r) in
          if has running MODIFIED_QUANTIZATION then Err EUnimplemented else
          let* (dq, r) := (if mb_has_quantizer t then let* (d, r) := decode_dquant r in Ok (Some d, r)
                            else Ok (None, r)) in
          let* (mvd, r) := (if mb_is_inter t || is_any_pbframe (picture_type pic)
                             then let* (m, r) := decode_motion_vector pic running r in Ok (Some m, r)
                             else Ok (None, r)) in
          let* (addl, r) := (if mb_has_fourvec t then
                                let* (m2, r) := decode_motion_vector pic running r in
                                let* (m3, r) := decode_motion_vector pic running r in
                                let* (m4, r) := decode_motion_vector pic running r in
                                Ok (Some (m2, m3, m4), r)
                              else Ok (None, r)) in
          let* r := (if has_mvdb then
                       let* (_, r) := decode_motion_vector pic running r in
                       let* (_, r) := decode_motion_vector pic running r in
                       let* (_, r) := decode_motion_vector pic running r in
                       let* (_, r) := decode_motion_vector pic running r in
                       Ok r
                     else Ok r) in
          Ok (MbCoded t (mkCbp luma cb cr) dq mvd addl, r)
      end.

Lemma model_mb_tail_is_model pic running r :
  decode_macroblock pic running r =
  (let* (cod, r) := (if is_iframe (picture_type pic) then Ok (0, r) else read_bits 8 1 r) in
   if negb (cod =? 0) then Ok (MbUncoded, r) else
   let* (mcbpc, r) :=
     (match picture_type pic with
      | IFrame => read_vlc mcbpc_i_table r
      | PFrame | DisposablePFrame => read_vlc mcbpc_p_table r
      | _ => Err EUnimplemented
      end) in
   match mcbpc with
   | BpStuffing => Ok (MbStuffing, r)
   | BpInvalid => Err EInvalidMacroblockHeader
   | BpValid t cb cr => model_mb_tail pic running t cb cr r
   end).
Proof. reflexivity. Qed.

(* decode_macroblock: both sides are executed in lockstep - the same read is destructed on both sides at once, every condition
   and every matched value is split - without naming the join points of the generated term, which change with every
   restructuring of the source (tried: the CBPY read hoisted out of the intra / inter branches) *)
Ltac lockstep :=
  repeat (cbn [bind fst snd negb map]; cbv zeta; first
   [ reflexivity
   | rewrite !bind_assoc
   | rewrite bridge_p_decode_dquant
   | match goal with E : read_vlc cbpy_table_intra _ = Ok (Some ?v, _) |- _ =>
       is_var v; destruct (cbpy_leaf_shape _ _ _ E) as (?&?&?&?&->) end
   | match goal with |- context [p_decode_cbpb ?r] =>
       rewrite <- (bridge_p_decode_cbpb r); destruct (p_decode_cbpb r) as [[? ?]| | |] end
   | match goal with |- bind ?m _ = bind ?m _ => let E := fresh "Er" in destruct m as [[? ?]| | |] eqn:E end
   | match goal with |- bind (if ?c then _ else _) _ = _ => destruct c eqn:? end
   | match goal with |- (if ?c then _ else _) = _ => destruct c eqn:? end
   | match goal with |- _ = (if ?c then _ else _) => destruct c eqn:? end
   | match goal with |- bind (match ?x with _ => _ end) _ = _ => first [ is_var x; destruct x | destruct x eqn:? ] end
   | match goal with |- match ?x with _ => _ end = _ => first [ is_var x; destruct x | destruct x eqn:? ] end ]).

Lemma bridge_p_decode_macroblock pic running r : p_decode_macroblock pic running r = decode_macroblock pic running r.
Proof.
  unfold p_decode_macroblock, decode_macroblock, is_iframe. autounfold with pgenmb.
  change (p_decode_motion_vector pic running) with (decode_motion_vector pic running).
  lockstep.
Qed.

(* decode_gob (parser/gob.rs): the start-code probe used for resynchronisation; the model returns no reader because the
   call runs under with_transaction_union and is only ever used for its verdict *)
From H263V Require Import proofs.LoopBound.
Lemma bridge_p_decode_gob o r :
  match p_decode_gob o r with Ok (x, _) => Ok x | Err e => Err e | Panic p => Panic p | OutOfFuel => OutOfFuel end = decode_gob r.
Proof.
  unfold p_decode_gob, decode_gob.
  destruct (recognize_start_code false r) as [[sk|]| | |] eqn:Esc; cbn [bind]; try reflexivity.
  destruct (recognize_start_code_window r sk Esc) as [Hsk1 Hsk2]. cbv zeta.
  rewrite add_c_ok by krange. cbn [bind].
  destruct (skip_bits (17 + sk) r) as [r1| | |]; cbn [bind]; try reflexivity.
  step_read. cbv zeta. destruct ((v =? 0) || (v =? 15)); reflexivity.
Qed.
