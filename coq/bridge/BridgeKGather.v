(* Bridge: the sample kernels of decoder/cpu/gather.rs (lerp, the four-sample average, read_sample's
   coordinate clamps, the block extent clamps and the source coordinate of gather_block) as translated from
   the Rust source on this run equal the expressions the hand-written model uses, without panics. *)
From H263V Require Import base.Prelude base.Checked model.Types model.Syntax model.Recon gen.GenKGather bridge.KTactics.
#[local] Hint Unfold lerp : kmodel.

Lemma bridge_k_lerp a b m : 0 <= a <= 255 -> 0 <= b <= 255 -> k_lerp a b m = Ok (lerp a b m).
Proof.
  intros Ha Hb. unfold k_lerp, lerp. destruct m; [|reflexivity].
  ksteps. subst. f_equal. replace (a + b + 2 - 1) with (a + b + 1) by lia. apply wrap_id. krange.
Qed.

Lemma bridge_k_avg4 a b c d :
  0 <= a <= 255 -> 0 <= b <= 255 -> 0 <= c <= 255 -> 0 <= d <= 255 ->
  k_avg4 a b c d = Ok ((a + b + c + d + 2) / 4).
Proof.
  intros. unfold k_avg4. ksteps. subst. f_equal. rewrite Z.quot_div_nonneg by lia. apply wrap_id. krange.
Qed.

Lemma bridge_k_read_sample_x x spr :
  ilo Isize <= x <= ihi Isize -> 0 <= spr <= ihi Isize ->
  k_read_sample_x x spr = Ok (clamp 0 (Z.max 0 (spr - 1)) x).
Proof.
  intros Hx Hs. unfold k_read_sample_x.
  assert (Hc : clamp 0 18446744073709551615 (spr - 1) = Z.max 0 (spr - 1)) by krange.
  rewrite Hc. rewrite (wrap_id Isize) by krange. ksteps. subst. f_equal. apply wrap_id. krange.
Qed.

Lemma bridge_k_read_sample_y y rows :
  ilo Isize <= y <= ihi Isize -> 0 <= rows <= ihi Isize ->
  k_read_sample_y y rows = Ok (clamp 0 (Z.max 0 (rows - 1)) y).
Proof.
  intros Hx Hs. unfold k_read_sample_y.
  assert (Hc : clamp 0 18446744073709551615 (rows - 1) = Z.max 0 (rows - 1)) by krange.
  rewrite Hc. rewrite (wrap_id Isize) by krange. ksteps. subst. f_equal. apply wrap_id. krange.
Qed.

Lemma bridge_k_block_cols spr px :
  0 <= spr <= ihi Isize -> 0 <= px <= ihi Isize -> k_block_cols spr px = Ok (clamp 0 8 (spr - px)).
Proof.
  intros H1 H2. unfold k_block_cols. rewrite !(wrap_id Isize) by krange. ksteps. kfin.
Qed.

Lemma bridge_k_block_rows h py :
  0 <= h <= ihi Isize -> 0 <= py <= ihi Isize -> k_block_rows h py = Ok (clamp 0 8 (h - py)).
Proof.
  intros H1 H2. unfold k_block_rows. rewrite !(wrap_id Isize) by krange. ksteps. kfin.
Qed.

Lemma bridge_k_src_x px dx :
  0 <= px <= 4611686018427387904 -> -32768 <= dx <= 32767 -> k_src_x px dx = Ok (px + dx).
Proof.
  intros H1 H2. unfold k_src_x. rewrite !(wrap_id Isize) by krange. ksteps. kfin.
Qed.

