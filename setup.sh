#!/bin/sh
# Offline build of the whole framework from files on disk: regenerate coq/gen from
# /repo, full .vo build of the Coq development, extraction + OCaml driver, Rust harness.
set -e
cd "$(dirname "$0")"
export CARGO_NET_OFFLINE=true
python3 tools/rs2v.py
python3 tools/gen_spec_tables.py
python3 - <<'PY'
import sys
sys.path.insert(0, ".")
from vlib import common
common.write_coqproject()
PY
timeout 3300 make -C coq -j16
python3 - <<'PY'
import sys
sys.path.insert(0, ".")
from vlib import common
ok, msg = common.build_driver(force=True)
if not ok:
    print(msg); sys.exit(1)
ok, out = common.build_harness("checked")
if not ok:
    print(out[-3000:]); sys.exit(1)
PY
echo "setup done"
