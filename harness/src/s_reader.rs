//! Reader operation trees (C14): the same trees the Coq concrete-reader model interprets.
use crate::s_decode::{err_name, next_str, Grow};
use crate::util::*;
use h263_rs::parser::{Entry, H263Reader};
use h263_rs::Error;
use std::cell::RefCell;
use std::collections::VecDeque;
use std::io::Write;
use std::rc::Rc;

#[derive(Debug, Clone)]
enum Op {
    Peek(String, u32),
    Read(String, u32),
    PeekS(String, u32),
    ReadS(String, u32),
    Skip(u32),
    U8,
    Vlc(u8),
    Umv,
    StartCode(bool),
    Commit,
    Grow(Vec<u8>),
    Tx(Vec<Op>, u8),
    Union(Vec<Op>, u8),
    Look(Vec<Op>),
}

fn parse(toks: &[&str], i: &mut usize) -> Vec<Op> {
    let mut out = vec![];
    while *i < toks.len() {
        let t = toks[*i];
        if t.starts_with(']') {
            return out;
        }
        *i += 1;
        let f: Vec<&str> = t.split(':').collect();
        match f[0] {
            "P" => out.push(Op::Peek(f[1].into(), f[2].parse().unwrap())),
            "R" => out.push(Op::Read(f[1].into(), f[2].parse().unwrap())),
            "PS" => out.push(Op::PeekS(f[1].into(), f[2].parse().unwrap())),
            "RS" => out.push(Op::ReadS(f[1].into(), f[2].parse().unwrap())),
            "K" => out.push(Op::Skip(f[1].parse().unwrap())),
            "B" => out.push(Op::U8),
            "V" => out.push(Op::Vlc(f[1].parse().unwrap())),
            "M" => out.push(Op::Umv),
            "SC" => out.push(Op::StartCode(f[1] == "1")),
            "C" => out.push(Op::Commit),
            "G" => out.push(Op::Grow(unhex(f[1]))),
            "T[" | "U[" | "L[" => {
                let body = parse(toks, i);
                let close = toks[*i];
                *i += 1;
                let v: u8 = close.split(':').nth(1).map(|x| x.parse().unwrap()).unwrap_or(0);
                out.push(match f[0] {
                    "T[" => Op::Tx(body, v),
                    "U[" => Op::Union(body, v),
                    _ => Op::Look(body),
                });
            }
            _ => panic!("bad op token {t}"),
        }
    }
    out
}

fn table(n: u8) -> Vec<Entry<i64>> {
    use Entry::*;
    if n == 0 {
        vec![Fork(1, 2), End(10), Fork(3, 4), End(20), Fork(5, 6), End(30), End(40)]
    } else {
        vec![Fork(1, 2), End(10), Fork(3, 9), End(20)]
    }
}

macro_rules! typed {
    ($ty:expr, $r:expr, $m:ident, $n:expr) => {
        match $ty {
            "u8" => $r.$m::<u8>($n).map(|v| v as i64),
            "u16" => $r.$m::<u16>($n).map(|v| v as i64),
            "u32" => $r.$m::<u32>($n).map(|v| v as i64),
            "i16" => $r.$m::<i16>($n).map(|v| v as i64),
            "i32" => $r.$m::<i32>($n).map(|v| v as i64),
            _ => panic!("type"),
        }
    };
}

fn run(ops: &[Op], r: &mut H263Reader<Grow>, src: &Grow, strict: bool, out: &RefCell<Vec<String>>) -> Result<(), Error> {
    for op in ops {
        let res: Result<String, Error> = match op {
            Op::Peek(t, n) => typed!(t.as_str(), r, peek_bits, *n).map(|v| format!("v={}", v)),
            Op::Read(t, n) => typed!(t.as_str(), r, read_bits, *n).map(|v| format!("v={}", v)),
            Op::PeekS(t, n) => typed!(t.as_str(), r, peek_signed_bits, *n).map(|v| format!("v={}", v)),
            Op::ReadS(t, n) => typed!(t.as_str(), r, read_signed_bits, *n).map(|v| format!("v={}", v)),
            Op::Skip(n) => r.skip_bits(*n).map(|_| "v=0".to_string()),
            Op::U8 => r.read_u8().map(|v| format!("v={}", v)),
            Op::Vlc(tb) => r.read_vlc(&table(*tb)[..]).map(|v| format!("v={}", v)),
            Op::Umv => r.read_umv().map(|h| {
                let s = format!("{:?}", h);
                format!("v={}", s.trim_start_matches("HalfPel(").trim_end_matches(')'))
            }),
            Op::StartCode(ie) => r.recognize_start_code(*ie).map(|o| match o {
                None => "none".to_string(),
                Some(k) => format!("some={}", k),
            }),
            Op::Commit => {
                r.commit();
                Ok("u".to_string())
            }
            Op::Grow(b) => {
                src.0.borrow_mut().extend(b.iter().copied());
                Ok("u".to_string())
            }
            Op::Tx(body, v) => {
                let res = r.with_transaction(|r| {
                    run(body, r, src, true, out)?;
                    if *v == 1 {
                        Err(Error::InvalidBitstream)
                    } else {
                        Ok(())
                    }
                });
                out.borrow_mut().push(match &res {
                    Ok(()) => "tx:ok".to_string(),
                    Err(e) => format!("tx:err:{}", err_name(e)),
                });
                continue;
            }
            Op::Union(body, v) => {
                let res = r.with_transaction_union(|r| {
                    run(body, r, src, true, out)?;
                    match *v {
                        1 => Err(Error::InvalidBitstream),
                        2 => Ok(None),
                        _ => Ok(Some(())),
                    }
                });
                out.borrow_mut().push(match &res {
                    Ok(Some(())) => "un:some".to_string(),
                    Ok(None) => "un:none".to_string(),
                    Err(e) => format!("un:err:{}", err_name(e)),
                });
                continue;
            }
            Op::Look(body) => {
                let res = r.with_lookahead(|r| run(body, r, src, true, out));
                out.borrow_mut().push(match &res {
                    Ok(()) => "la:ok".to_string(),
                    Err(e) => format!("la:err:{}", err_name(e)),
                });
                continue;
            }
        };
        match res {
            Ok(t) => out.borrow_mut().push(t),
            Err(e) => {
                out.borrow_mut().push(format!("err:{}", err_name(&e)));
                if strict {
                    return Err(e);
                }
            }
        }
    }
    Ok(())
}

/// cases: `<idx> <srchex> <op tokens...>`
pub fn reader(path: &str) {
    let mut o = out();
    for line in read_lines(path) {
        let f: Vec<&str> = line.split_whitespace().collect();
        let mut i = 0;
        let ops = parse(&f[2..], &mut i);
        let toks = RefCell::new(Vec::<String>::new());
        // `<hex>@<n>`: a source that hands out short reads (see Grow)
        let (hex, dribble) = match f[1].split_once('@') {
            Some((h, d)) => (h, d.parse::<u64>().unwrap()),
            None => (f[1], 0),
        };
        let src = Grow::new(VecDeque::from(unhex(hex)), dribble);
        let res = catch(|| {
            let mut r = H263Reader::from_source(src.clone());
            let _ = run(&ops, &mut r, &src, false, &toks);
            next_str(&mut r)
        });
        let mut t = toks.into_inner();
        match res {
            Ok(rest) => t.push(format!("rest={}", rest)),
            Err(()) => t.push("panic".to_string()),
        }
        writeln!(o, "{} {}", f[0], t.join(" ")).unwrap();
    }
}
