use crate::util::*;
use h263_rs_deblock::deblock::verif_hooks::{process, process_simd};
use h263_rs_deblock::deblock::{deblock, QUANT_TO_STRENGTH};
use std::io::Write;

/// cases: `<idx> <w> <h> <s> <hex>`
pub fn img(path: &str) {
    let mut o = out();
    for line in read_lines(path) {
        let f: Vec<&str> = line.split_whitespace().collect();
        let w: usize = f[1].parse().unwrap();
        let s: u8 = f[3].parse().unwrap();
        let data = unhex(f[4]);
        match catch(|| deblock(&data, w, s)) {
            Ok(v) => writeln!(o, "{} ok {}", f[0], hex(&v)).unwrap(),
            Err(()) => writeln!(o, "{} panic", f[0]).unwrap(),
        }
    }
}

/// cases: `<idx> a b c d s` -> both kernels' outputs
pub fn kernel(path: &str) {
    let mut o = out();
    for line in read_lines(path) {
        let f: Vec<&str> = line.split_whitespace().collect();
        let v: Vec<u8> = f[1..6].iter().map(|x| x.parse().unwrap()).collect();
        let (a, b, c, d, s) = (v[0], v[1], v[2], v[3], v[4]);
        let sc = catch(|| {
            let (mut a, mut b, mut c, mut d) = (a, b, c, d);
            process(&mut a, &mut b, &mut c, &mut d, s);
            format!("{},{},{},{}", a, b, c, d)
        })
        .unwrap_or("panic".into());
        let si = catch(|| {
            let (mut aa, mut bb, mut cc, mut dd) = ([a; 8], [b; 8], [c; 8], [d; 8]);
            process_simd(&mut aa, &mut bb, &mut cc, &mut dd, s);
            let first = format!("{},{},{},{}", aa[0], bb[0], cc[0], dd[0]);
            for l in 1..8 {
                if (aa[l], bb[l], cc[l], dd[l]) != (aa[0], bb[0], cc[0], dd[0]) {
                    return format!("lanes-differ:{}", first);
                }
            }
            first
        })
        .unwrap_or("panic".into());
        writeln!(o, "{} scalar={} simd={}", f[0], sc, si).unwrap();
    }
}

pub fn strength_table() {
    let v: Vec<String> = QUANT_TO_STRENGTH.iter().map(|x| x.to_string()).collect();
    println!("impl {}", v.join(","));
}

struct Tables {
    d1: Vec<i16>, // [s-1][x+1275]
    d2: Vec<i16>, // [d1+12][y+255]
}

fn load_tables(path: &str) -> Tables {
    let mut t = Tables { d1: vec![0; 12 * 2551], d2: vec![0; 25 * 511] };
    for line in read_lines(path) {
        let f: Vec<&str> = line.split_whitespace().collect();
        let a: i32 = f[1].parse().unwrap();
        let b: i32 = f[2].parse().unwrap();
        let v: i16 = f[3].parse().unwrap();
        if f[0] == "d1" {
            t.d1[((a - 1) * 2551 + b + 1275) as usize] = v;
        } else {
            t.d2[((a + 12) * 511 + b + 255) as usize] = v;
        }
    }
    t
}

#[inline]
fn expected(t: &Tables, a: i32, b: i32, c: i32, d: i32, s: i32) -> (i32, i32, i32, i32) {
    let x = a - 4 * b + 4 * c - d;
    let d1 = t.d1[((s - 1) * 2551 + x + 1275) as usize] as i32;
    let d2 = t.d2[((d1 + 12) * 511 + (a - d) + 255) as usize] as i32;
    // Annex J output assembly (the only spec logic re-implemented here)
    (a - d2, (b + d1).clamp(0, 255), (c - d1).clamp(0, 255), d + d2)
}

/// Exhaustive / lattice sweep of both kernels against the spec tables.
/// mode "quick": A, D on the lattice {0,17,34,...,255}; B, C full.
/// mode "thorough": all 2^32 patterns.  All 12 strengths in both.
pub fn sweep(tables: &str, mode: &str) {
    let t = load_tables(tables);
    let step: usize = if mode == "thorough" { 1 } else { 17 };
    let avals: Vec<i32> = (0..256).step_by(step).map(|x| x as i32).collect();
    let nthreads = 16usize;
    let results: Vec<(u64, Vec<String>)> = std::thread::scope(|sc| {
        let mut hs = vec![];
        for tid in 0..nthreads {
            let t = &t;
            let avals = &avals;
            hs.push(sc.spawn(move || {
                let mut n: u64 = 0;
                let mut bad: Vec<String> = vec![];
                for (ai, &a) in avals.iter().enumerate() {
                    if ai % nthreads != tid {
                        continue;
                    }
                    for s in 1..=12i32 {
                        for b in 0..256i32 {
                            for &d in avals.iter() {
                                for c8 in 0..32i32 {
                                    let mut aa = [a as u8; 8];
                                    let mut bb = [b as u8; 8];
                                    let mut cc = [0u8; 8];
                                    let mut dd = [d as u8; 8];
                                    for l in 0..8 {
                                        cc[l] = (c8 * 8 + l as i32) as u8;
                                    }
                                    let r = catch(|| {
                                        process_simd(&mut aa, &mut bb, &mut cc, &mut dd, s as u8)
                                    });
                                    // the same patterns once more with all eight lanes equal (lane-uniform input)
                                    for l in 0..8 {
                                        let c = c8 * 8 + l as i32;
                                        let mut ua = [a as u8; 8];
                                        let mut ub = [b as u8; 8];
                                        let mut uc = [c as u8; 8];
                                        let mut ud = [d as u8; 8];
                                        let ru = catch(|| process_simd(&mut ua, &mut ub, &mut uc, &mut ud, s as u8));
                                        let e = expected(t, a, b, c, d, s);
                                        n += 1;
                                        let lane = (l + (a as usize) + (b as usize)) % 8;
                                        let got = if ru.is_ok() {
                                            Some((ua[lane] as i32, ub[lane] as i32, uc[lane] as i32, ud[lane] as i32))
                                        } else {
                                            None
                                        };
                                        if got != Some(e) && bad.len() < 50 {
                                            bad.push(format!(
                                                "mismatch kernel=simd-uniform a={} b={} c={} d={} s={} got={:?} want={:?}",
                                                a, b, c, d, s, got, e
                                            ));
                                        }
                                    }
                                    for l in 0..8 {
                                        let c = c8 * 8 + l as i32;
                                        let e = expected(t, a, b, c, d, s);
                                        n += 2;
                                        let got_simd = if r.is_ok() {
                                            Some((aa[l] as i32, bb[l] as i32, cc[l] as i32, dd[l] as i32))
                                        } else {
                                            None
                                        };
                                        if got_simd != Some(e) && bad.len() < 50 {
                                            bad.push(format!(
                                                "mismatch kernel=simd a={} b={} c={} d={} s={} got={:?} want={:?}",
                                                a, b, c, d, s, got_simd, e
                                            ));
                                        }
                                        let got = catch(|| {
                                            let (mut pa, mut pb, mut pc, mut pd) =
                                                (a as u8, b as u8, c as u8, d as u8);
                                            process(&mut pa, &mut pb, &mut pc, &mut pd, s as u8);
                                            (pa as i32, pb as i32, pc as i32, pd as i32)
                                        })
                                        .ok();
                                        if got != Some(e) && bad.len() < 50 {
                                            bad.push(format!(
                                                "mismatch kernel=scalar a={} b={} c={} d={} s={} got={:?} want={:?}",
                                                a, b, c, d, s, got, e
                                            ));
                                        }
                                    }
                                }
                            }
                        }
                    }
                }
                (n, bad)
            }));
        }
        hs.into_iter().map(|h| h.join().unwrap()).collect()
    });
    let total: u64 = results.iter().map(|r| r.0).sum();
    let mut bad: Vec<String> = results.into_iter().flat_map(|r| r.1).collect();
    bad.sort();
    println!("evaluated {}", total);
    println!("mismatches {}", bad.len());
    for b in bad.iter().take(40) {
        println!("{}", b);
    }
}
