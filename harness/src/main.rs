//! Correspondence harness: runs the real crates from /repo (built with
//! `--cfg h263_rs_verif`) on case files and prints one line per case, in the
//! same format as the OCaml driver that runs the extracted Coq model.

mod util;
mod s_deblock;
mod s_yuv;
mod s_decode;
mod s_reader;
mod s_kernels;

fn main() {
    // Panics are expected outcomes here; keep stderr quiet.
    if std::env::var("VERIF_PANIC_MSG").is_ok() {
        std::panic::set_hook(Box::new(|info| eprintln!("PANIC {}", info)));
    } else {
        std::panic::set_hook(Box::new(|_| {}));
    }
    let args: Vec<String> = std::env::args().collect();
    if args.len() < 2 {
        eprintln!("usage: harness <suite> [args]");
        std::process::exit(2);
    }
    let rest = &args[2..];
    match args[1].as_str() {
        "deblock-img" => s_deblock::img(&rest[0]),
        "deblock-sweep" => s_deblock::sweep(&rest[0], &rest[1]),
        "deblock-kernel" => s_deblock::kernel(&rest[0]),
        "strength-table" => s_deblock::strength_table(),
        "yuv-px" => s_yuv::px(&rest[0], &rest[1], &rest[2], &rest[3]),
        "yuv-img" => s_yuv::img(&rest[0]),
        "decode" => s_decode::decode(&rest[0], &rest[1]),
        "header" => s_decode::header(&rest[0]),
        "reader" => s_reader::reader(&rest[0]),
        "kernel-sweep" => s_kernels::sweep(&rest[0]),
        "candidates" => s_kernels::candidates(&rest[0]),
        "idct" => s_kernels::idct(&rest[0]),
        "threads" => s_decode::threads(&rest[0], rest[1].parse().unwrap(), rest[2].parse().unwrap(), &rest[3]),
        other => {
            eprintln!("unknown suite {other}");
            std::process::exit(2);
        }
    }
}
