use crate::util::*;
use h263_rs_yuv::bt601::yuv420_to_rgba;
use std::io::Write;

fn parse_range(s: &str) -> Vec<u8> {
    // lo:hi:step
    let f: Vec<usize> = s.split(':').map(|x| x.parse().unwrap()).collect();
    (f[0]..=f[1]).step_by(f[2]).map(|x| x as u8).collect()
}

/// yuv-px <table-file> <yrange> <cbrange> <crrange>: every triple of the product through
/// yuv420_to_rgba (alternating a 4x1 picture = whole-group path and a 2x1 picture =
/// remainder path), compared with the 3-byte entries of the table written by the model.
pub fn px(table: &str, ys: &str, cbs: &str, crs: &str) {
    let t = std::fs::read(table).expect("table");
    let (ys, cbs, crs) = (parse_range(ys), parse_range(cbs), parse_range(crs));
    assert_eq!(t.len(), ys.len() * cbs.len() * crs.len() * 3);
    let mut n: u64 = 0;
    let mut bad: Vec<String> = vec![];
    let mut k = 0usize;
    for &y in &ys {
        for &cb in &cbs {
            for &cr in &crs {
                let want = (t[k], t[k + 1], t[k + 2], 255u8);
                k += 3;
                let got = catch(|| {
                    if (y as usize + cb as usize + cr as usize) % 2 == 0 {
                        let o = yuv420_to_rgba(&[y; 4], &[cb; 2], &[cr; 2], 4);
                        for p in 1..4 {
                            if o[4 * p..4 * p + 4] != o[0..4] {
                                return (0u8, 0u8, 0u8, 0u8);
                            }
                        }
                        (o[0], o[1], o[2], o[3])
                    } else {
                        let o = yuv420_to_rgba(&[y; 2], &[cb], &[cr], 2);
                        if o[4..8] != o[0..4] {
                            return (0u8, 0u8, 0u8, 0u8);
                        }
                        (o[0], o[1], o[2], o[3])
                    }
                });
                n += 1;
                if got != Ok(want) && bad.len() < 40 {
                    bad.push(format!("mismatch y={} cb={} cr={} got={:?} want={:?}", y, cb, cr, got, want));
                }
            }
        }
    }
    println!("evaluated {}", n);
    println!("mismatches {}", bad.len());
    for b in bad {
        println!("{}", b);
    }
}

/// cases: `<idx> <w> <yhex> <cbhex> <crhex>`
pub fn img(path: &str) {
    let mut o = out();
    for line in read_lines(path) {
        let f: Vec<&str> = line.split_whitespace().collect();
        let w: usize = f[1].parse().unwrap();
        let (y, cb, cr) = (unhex(f[2]), unhex(f[3]), unhex(f[4]));
        match catch(|| yuv420_to_rgba(&y, &cb, &cr, w)) {
            Ok(v) => writeln!(o, "{} ok {}", f[0], hex(&v)).unwrap(),
            Err(()) => writeln!(o, "{} panic", f[0]).unwrap(),
        }
    }
}
